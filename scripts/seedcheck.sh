#!/bin/bash
# scripts/seedcheck.sh <seed-id> <patch> "<demo src:dst ...>" "<demo go test cmd>" "<checks>"
# Confirms a seeded change in a scratch worktree of /repo HEAD: patch applies, builds, repository
# suite still passes (baseline set), demo fails with / passes without the change, then runs
# the given checks against the changed tree. Prints a JSON summary. Removes the worktree.
export GOFLAGS=-mod=mod GOPROXY=off GOSUMDB=off GOTOOLCHAIN=local
id="$1"; patch="$2"; demos="$3"; democmd="$4"; checks="$5"
HERE="$(cd "$(dirname "$0")/.." && pwd)"
wt="/tmp/sc_$id"
git -C /repo worktree remove --force "$wt" 2>/dev/null
git -C /repo worktree add -q --detach "$wt" HEAD || exit 2
cd "$wt"
applies=no; builds=no; suite=unknown; demo_with=unknown; demo_without=unknown
if git apply --whitespace=nowarn "$patch" 2>/tmp/sc_$id.apply.log; then applies=yes; fi
if [ $applies = yes ] && go build ./... >/dev/null 2>&1; then builds=yes; fi
if [ $builds = yes ]; then
  # private HOME for the suite run (cmd/teleport's TestInitCmd writes below $HOME/.teleport; several seedchecks run in parallel)
  gc="$(go env GOCACHE)"; gm="$(go env GOMODCACHE)"; gp="$(go env GOPATH)"; mkdir -p /tmp/sc_$id.home
  HOME=/tmp/sc_$id.home GOCACHE="$gc" GOMODCACHE="$gm" GOPATH="$gp" go test -mod=mod -json -vet=off -count=1 -timeout 25m ./... > /tmp/sc_$id.suite.json 2>/dev/null
  rm -rf /tmp/sc_$id.home
  suite="$(python3 - /tmp/sc_$id.suite.json <<'PY'
import json,sys
base=json.load(open('/root/.vp/BASELINE.json')); want=set(base['stable_pass']); res={}
for line in open(sys.argv[1]):
    try: e=json.loads(line)
    except Exception: continue
    if e.get('Test') and e.get('Action') in ('pass','fail','skip'): res[e['Package']+'::'+e['Test']]=e['Action']
missing=[t for t in want if res.get(t)!='pass']
print("pass" if not missing else "FAILS:"+",".join(sorted(missing)[:3]))
PY
)"
  for d in $demos; do src="${d%%:*}"; dst="${d##*:}"; mkdir -p "$(dirname "$dst")"; cp "$src" "$dst"; done
  if eval "$democmd" > /tmp/sc_$id.demo_with.log 2>&1; then demo_with=PASS; else demo_with=FAIL; fi
  git apply -R --whitespace=nowarn "$patch"
  if eval "$democmd" > /tmp/sc_$id.demo_without.log 2>&1; then demo_without=PASS; else demo_without=FAIL; fi
  git apply --whitespace=nowarn "$patch"
  for d in $demos; do rm -f "${d##*:}"; done
fi
results=""
if [ $builds = yes ]; then
  for c in $checks; do
    out="$(cd "$HERE" && VERIF_REPO="$wt" ./check "$c" "${TIER:-quick}" 2>&1)"; rc=$?
    keys="$(echo "$out" | sed -n 's/^  key=\([^ ]*\).*/\1/p' | sort -u | head -5 | tr '\n' ' ')"
    results="$results{\"check\":\"$c\",\"rc\":$rc,\"keys\":\"$keys\"},"
  done
fi
echo "{\"seed\":\"$id\",\"applies\":\"$applies\",\"builds\":\"$builds\",\"suite\":\"$suite\",\"demo_with_change\":\"$demo_with\",\"demo_without_change\":\"$demo_without\",\"checks\":[${results%,}]}"
cd /; git -C /repo worktree remove --force "$wt"
rm -f "$HERE/bin/"*".$(echo "$wt" | md5sum | cut -c1-8)".* 2>/dev/null; rm -rf "$HERE/bin/evidence.$(echo "$wt" | md5sum | cut -c1-8)"
