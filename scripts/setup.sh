#!/bin/bash
# Offline setup after a fresh restore: pre-build every monitor binary (warms
# the Go build cache so that each check only re-links what changed in /repo).
export GOFLAGS=-mod=mod GOPROXY=off GOSUMDB=off GOTOOLCHAIN=local
HERE="$(cd "$(dirname "$0")/.." && pwd)"
cd "$HERE/harness" || exit 1
cp /repo/go.sum go.sum
mkdir -p "$HERE/bin" "$HERE/evidence" "$HERE/replays"
rc=0
for d in props/*/; do
  n="$(basename "$d")"
  go test -c -tags verif -o "$HERE/bin/$n.test" "./props/$n" || rc=1
done
exit $rc
