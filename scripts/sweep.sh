#!/bin/bash
# scripts/sweep.sh "<ids>" "<seeds>" <tier>  – runs checks and prints one line per run (exit code + summary)
ids="$1"; seeds="$2"; tier="${3:-quick}"
cd "$(dirname "$0")/.."
for id in $ids; do for s in $seeds; do
  out="$(VERIF_SEED=$s ./check $id $tier 2>&1)"; rc=$?
  echo "SWEEP $id seed=$s tier=$tier rc=$rc :: $(echo "$out" | grep -E '^(SUMMARY|VIOLATION|INCONCLUSIVE)' | head -3 | cut -c1-160 | tr '\n' '|')"
done; done
