#!/usr/bin/env python3
"""storeseed.py <id> <SEED dir> <results file> <one-line description>
Stores a confirmed seeded change under seeded/<id>/ (patch.diff, demonstration as .txt so that it is never compiled,
demo_cmd.txt, notes.md, meta.json). The results file holds the JSON lines scripts/seedcheck.sh printed; all lines for
<id> are merged (a later line for the same check is appended, so a miss followed by a catch after strengthening shows)."""
import json, os, shutil, sys
sid, src, res, desc = sys.argv[1:5]
dst = os.path.join(os.path.dirname(os.path.abspath(__file__)), '..', 'seeded', sid)
os.makedirs(dst, exist_ok=True)
for f in os.listdir(src):
    p = os.path.join(src, f)
    if not os.path.isfile(p) or os.path.getsize(p) > 200_000:
        continue
    if f in ('patch.diff', 'demo_cmd.txt', 'notes.md'):
        shutil.copy(p, os.path.join(dst, f))
    elif f.endswith('.go') or f.endswith('.sh'):
        shutil.copy(p, os.path.join(dst, f + '.txt'))
conf, checks = None, {}
for line in open(res):
    line = line.strip()
    if not line.startswith('{'):
        continue
    j = json.loads(line)
    if j.get('seed') != sid:
        continue
    conf = {'applies_to_repo_HEAD': j['applies'], 'builds': j['builds'], 'repository_suite_414_baseline_tests': j['suite'],
            'demo_with_change': j['demo_with_change'], 'demo_without_change': j['demo_without_change']}
    for c in j['checks']:
        checks.setdefault(c['check'], []).append({'rc': c['rc'], 'keys': c.get('keys', '').split()})
assert conf, 'no result line for ' + sid
meta = {'seed': sid, 'breaks_property': sid[:3],
        'author': 'fresh sub-agent given only the property text and a scratch worktree',
        'needs_to_manifest': desc, 'confirmed': conf,
        'ran': 'scripts/seedcheck.sh (scratch worktree of /repo HEAD, patch applied, go build, full go test -json compared with BASELINE stable_pass, demo with/without, ./check <ID> quick with VERIF_REPO=<worktree>)',
        'check_results': checks}
json.dump(meta, open(os.path.join(dst, 'meta.json'), 'w'), indent=1)
print(sid, {k: [x['rc'] for x in v] for k, v in checks.items()})
