#!/bin/bash
# scripts/coverage.sh [tier] – runs every monitor with coverage of teleport's own packages (VERIF_COVER=1) and writes
# notes/coverage/uncovered.txt: the statements of the properties' anchor files that NO monitor executes (blind spots for sure).
tier="${1:-quick}"
cd "$(dirname "$0")/.."
mkdir -p notes/coverage
for id in C01 C02 C03 C04 C05 C06 C07 C08 C09 C10 C11 C12 C13 C14 C15 C16 C17 C18 C19 C20; do
  VERIF_COVER=1 VERIF_NO_RACE=1 VERIF_EVIDENCE_DIR=/verif/bin/evidence.cover ./check $id $tier > bin/cover.$id.log 2>&1
  echo "$id rc=$?"
done
python3 scripts/coverage_report.py $tier > notes/coverage/uncovered.txt
tail -5 notes/coverage/uncovered.txt
