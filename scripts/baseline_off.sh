#!/bin/bash
# Runs the repository's own test suite with the verif guard OFF and compares
# the outcome with /root/.vp/BASELINE.json (every stable_pass test must pass).
export GOFLAGS=-mod=mod GOPROXY=off GOSUMDB=off GOTOOLCHAIN=local
OUT="${1:-/verif/bin/baseline.gotest.json}"
mkdir -p "$(dirname "$OUT")"
(cd /repo && go test -mod=mod -json -vet=off -count=1 -timeout 25m ./... > "$OUT" 2>/dev/null)
python3 - "$OUT" <<'PY'
import json,sys
base=json.load(open('/root/.vp/BASELINE.json'))
want=set(base['stable_pass'])
res={}
for line in open(sys.argv[1]):
    try: e=json.loads(line)
    except Exception: continue
    if e.get('Test') and e.get('Action') in ('pass','fail','skip'):
        res[e['Package']+'::'+e['Test']]=e['Action']
missing=[t for t in want if res.get(t)!='pass']
print("baseline tests: %d expected, %d passed, %d not passing"%(len(want),len(want)-len(missing),len(missing)))
for t in sorted(missing)[:40]: print("  NOT PASSING:",t,res.get(t))
sys.exit(1 if missing else 0)
PY
