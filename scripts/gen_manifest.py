#!/usr/bin/env python3
"""Regenerates /verif/MANIFEST.json from the table below (kept in one place so the manifest stays valid)."""
import json, subprocess
props = [json.loads(l) for l in open('/verif/properties.jsonl')]
hook_commits = subprocess.run(["git", "-C", "/repo", "log", "--format=%H", "--grep=^verif hooks"], capture_output=True, text=True).stdout.split()

C = {}
def claim(pid, technique, text, note, category="exploration"):
    C[pid] = dict(technique=technique, text=text, note=note, category=category)

claim("C01", "runtime monitoring: lock-step packet-lifecycle model over generated relay histories with replay attacks; store-diff oracle on every rejected attempt",
      "Drives 3 real chains (real Tendermint headers, ICS-23 proofs, real system contracts) through seeded relay histories and re-submits already accepted triples in every form the statement lists (identical, other relayer, fresh/stale proof, non-canonical re-encoding, altered payload, doubled in one tx, same block, before/after the ack). Every such attempt must fail with an empty store diff; receipts must equal the set of accepted receives. Held on the explored histories only.",
      "Trusted: the harness's own node driver and model; the store diff covers xibc, bank, evm, aggregate, staking, gov, distribution (auth compared modulo sequence/pubkey).")
claim("C02", "runtime monitoring: typed mutation of honest relay messages with a ground-truth oracle read from the source chain's own committed store",
      "At many points of generated histories honest MsgRecvPacket/MsgAcknowledgement are mutated (fields, paths, proofs, heights, 1-3 mutators) and delivered through DeliverTx. Whether the counterparty really committed what the message claims is read from the source chain itself (three-valued: false => must reject with empty diff; true+unmutated => must accept; else either).",
      "Tendermint counterparties only (EVM proofs: C08, TSS: C06). Ground truth trusts the harness's bookkeeping of app hashes per height.")
claim("C03", "runtime monitoring: conservation ledger checked after every transaction + enumeration of injected failures of every module->EVM call (build-tag failpoints)",
      "Multi-chain histories with forward/back transfers (ERC-20, native), destination calls that succeed, revert, run out of gas, fail in a post-tx hook or hit a bad receiver, relayed in random order; after every tx outTokens - bindings must equal the model's in-flight amount, escrow and fee escrow must be really held, wrapped supply = bindings, each transfer delivered xor refunded exactly. A fault sweep fails the k-th module->EVM call before execution / after commit for every k of six relay scripts.",
      "Scale 0 bindings only. Fault points are the two in packet keeper CallEVMWithData (hook commit in /repo, tag verif).", "fault_enumeration")
claim("C04", "runtime monitoring: lock-step sequence/commitment model compared with chain counter, contract counter and commitment store after every transaction",
      "Valid and invalid sends (unknown destination, zero amount, over balance, missing allowance, direct packet.sendPacket with wrong/forged fields, multi-send contracts whose later send fails, injected setSequence failure) from 3 chains interleaved with receives/acks; after every tx both counters, the commitment set (= sent minus acked) and values (= sha256 of emitted bytes = EventSendPacket bytes) are compared with the model; failed sends must leave an empty store diff.",
      "Held on the explored histories only.")
claim("C05", "runtime monitoring: shadow copies of acks/ and commitments/ diffed after every transaction under duplicated, conflicting and premature acknowledgements",
      "Relay histories with failing and succeeding destination executions; duplicated, re-signed, conflicting, altered, foreign, stale-proof and premature acks plus direct keeper WriteAcknowledgement calls. acks/ may only grow by exactly one entry per accepted receive (value = hash of the EventWriteAck bytes); a commitment may only disappear through a verified ack whose hash equals what the destination stored; status/fee/callback effects exactly once; every later ack fails with an empty diff.",
      "Held on the explored histories only.")
claim("C06", "runtime monitoring: map model of the relayer registry vs. message-server verdicts for every (signer, chain, kind); exhaustive caller-shape x privileged-method matrix with a privileged-state fingerprint",
      "Part A: random registries installed through the governance handler (overwrites, TSS chain, chain without client); update/recv accepted iff the signer is registered for that very chain, TSS counterparties only from the TSS account, rejected attempts leave no trace, ack Relayer field = registered counterparty address. Part B: 11 privileged contract methods x {EOA, CALL bubble/swallow, DELEGATECALL, STATICCALL, via Execute.execute, call data of a really relayed packet, the other module address} with arguments that are valid for the rightful caller (positive controls run); the fingerprint of counters, statuses, bindings, limits, balances and raw system-contract storage must not change.",
      "Part B is exhaustive over the listed methods x shapes for fixed arguments; Part A is sampled.")
claim("C07", "runtime monitoring: reference acceptance predicate (three-valued) over a synthetic counterparty with harness-controlled signer subsets; stored-state checks after every accepted header; proof gate swept across height and delay boundaries",
      "See notes/reports/C07.md. Synthetic validator sets around the 1/3 and 2/3 boundaries, trust levels, update orders, clock values, field mutators; after each accept the stored consensus state/metadata/latest height are checked, rejected updates must leave the client prefix byte-identical; real packet proofs are used for the height/delay gate.",
      "Cases where tendermint's own early-exit counting or adjacent-header rule is not pinned by the statement are classified EITHER.")
claim("C08", "runtime monitoring: ground-truth oracle from generated Merkle-Patricia world states; mutation of every proof component; both clients driven with the same cases",
      "See notes/reports/C08.md. Random world states (go-ethereum trie), honest eth_getProof-shaped proofs, roots installed in real ETH and BSC client stores; 189 case kinds mutate address, account fields, proof nodes, key, value, counts, heights, delay; false fact => must reject, true fact + canonical proof => must accept.",
      "Prover and verifier share go-ethereum's trie/rlp packages; revision numbers other than 0 not judged.")
claim("C09", "runtime monitoring: Parlia-lite reference model vs. the real client over generated header chains sealed with the harness's own seal implementation",
      "See notes/reports/C09.md. N in 1..21 validators, epochs 2..200, growing/shrinking sets across epoch boundaries, one honest candidate plus ~12 mutants per height; accept iff the model says eligible; validators, head, recent signers and consensus root compared after every accept.",
      "The harness's own seal hash re-implementation is trusted as reference.")
claim("C17", "runtime monitoring: call-tree reference model + differential twin execution of the equivalent native message; supply conservation at every tx and block boundary",
      "See notes/reports/C17.md. Every judged case is a signed MsgEthereumTx through DeliverTx from EOAs and adversarial contracts (CALL/DELEGATECALL/STATICCALL/nested/try-like, look-alike emitters); one native action per system-contract log attributed to msg.sender with exact arguments; failing native action => empty store diff; burns land in the fee collector.",
      "Held on the explored histories only.")
claim("C19", "runtime monitoring: differential round-trip oracle (decode(encode(v)) = v, encode(decode(b)) = b on contract-emitted bytes) and store read-back monitor over generated values/keys",
      "Executes the real ABI codecs, the real packet contract and the real keeper/client-store iterators on generated values and keys (hostile strings, all height byte patterns incl. the '/' separator and crafted key look-alikes) and compares what is read back with what was written.",
      "Trusted: go-ethereum ABI packer; the generator's coverage of the value space (sampled, not exhaustive).")

claim("C11", "runtime monitoring: exact-movement oracle on full bank/ERC-20 balance dumps around every conversion transaction + backing invariants after every step",
      "See notes/reports/C11.md. MsgConvertCoin/MsgConvertERC20 delivered as real transactions over module-owned pairs (1-3 denominations), external ERC-20s incl. the repository's malicious tokens, hostile amounts, blocked receivers, disabled module/pair, send-disabled denominations; success => exact debit/credit and nothing else moves, failure => empty store diff; totalSupply = escrowed coins, voucher supply = escrowed tokens after every step.",
      "A token whose balanceOf lies consistently cannot be told apart from an honest one; allowances not judged.")
claim("C12", "runtime monitoring: invariant checker over the raw three index prefixes of the aggregate store after every governance action executed the way gov does; convert-back consequence probe",
      "See notes/reports/C12.md. RegisterCoin/AddCoin/RegisterERC20/Toggle/UpdateTokenPairERC20/self-destruct clean-up sequences mixed with conversions; after each action every pair must be reachable by address and by each denomination, every index entry must point to a pair that lists it, nothing may be in two pairs, and earlier coin->token conversions must still convert back.",
      "Held on the explored histories only.")
claim("C20", "runtime monitoring: BeginBlocker bracketed with full decoded bank-store dumps against a min(reward, remaining) reference ledger; whole blocks checked end to end",
      "See notes/reports/C20.md. Generated params over everything validation accepts, pools that are empty / smaller than the reward / multi-denomination / running dry, enable/disable and param changes between blocks, unrelated bank traffic; pool decreases and fee collector increases by exactly min(reward_d, remaining_d), nothing else moves, supply unchanged, nothing moves when disabled or empty.",
      "Only the bank store is compared around BeginBlocker.")

claim("C10", "runtime monitoring: reference model (stored header set + head) over generated header trees in random topological submission orders with field mutants; recorded main-net headers for the proof-of-work rule",
      "See notes/reports/C10.md. Rinkeby-mode trees (branching 1-3, depth <= 12, competing branches, re-submission, children of non-head headers) and single-field mutants; accept iff parent stored and the time/gas-limit/EIP-1559 rules hold (base fee computed independently of the repository); head = last accepted; consensus states on the head's ancestry = ancestors' roots; every valid child of any stored header accepted. Main-net headers with full ethash verification, seal-relevant mutants rejected, plus near-miss seals carrying the genuine mix digest (computed through the verif hook VerifLightPoW) and a synthetic zero-base-fee proof-of-work chain whose seals were mined once (London seal must be accepted; legacy seal and a genuinely sealed child claiming more difficulty than the rule must be refused); prune mode judges children of non-head headers while nothing has been pruned, and a probe submits a child of the oldest header at the moment it expires; state-root fields that are not 32 bytes long are probed (if accepted, the stored root must be the one the hash commits to).",
      "Difficulty rule for chain id 1 cannot be separated from the seal (valid PoW headers with another difficulty cannot be generated).")
claim("C14", "runtime monitoring: differential replay of a recorded ABCI request stream in independent OS processes under an environment matrix (incl. replicas restarted over the same database every block / every fifth block) + wall-clock-tied live scenario replayed before/after its block time + strace observer of file-system/randomness/network calls during block execution + Go race detector pass with concurrent CheckTx/queries",
      "A history exercising every teleport message, EVM hook and proposal type (all client proposals for TM/BSC/ETH/TSS, all aggregate proposals, param change, XIBC traffic with every ack outcome, conversions, staking/gov system contracts, vesting blocks, TM/BSC/ETH(Rinkeby + main-net PoW)/TSS updates) is recorded on a chain driven only through ABCI from genesis; 6 (quick) / 16 (thorough, 3 scenarios) child processes replay the tape under different GOMAXPROCS, GOGC, TMPDIR/HOME (incl. missing), TZ/locale, cwd, start delay and inter-block sleeps (fresh map seeds per process) and must report identical app hashes, begin/end-block results and per-tx code/data/gas/events. The same tape is replayed under -race while 4 goroutines issue CheckTx and queries; a race whose accessing frame is in teleport code is a violation. A second tape whose last block time is the recorder's wall clock + ~4 s carries client updates one second either side of every time rule (TM drift/expiry, ETH future bound/expiry, BSC expiry) and is replayed at once and after the wall clock passed that time (must agree). One replica runs under strace with private cwd/HOME/TMPDIR: any path looked up below them, any getrandom and any socket call between the 'blocks only' markers is a violation.",
      "The AST observation point of the property is outside this family. Races whose accesses are inside cosmos-sdk/ethermint/iavl are listed, not judged. ICS-20 receive is not part of the scenario.", "exploration")
claim("C16", "runtime monitoring: differential oracle (middleware vs. wrapped transfer module on twin branches) + full-stack IBC ack-store check + conversion atomicity from balance deltas",
      "See notes/reports/C16.md. Three teleport chains under ibc-go's testing package; ICS-20 packets over registered/unregistered denominations, enabled/disabled/paused/self-destructed pairs, malicious tokens, hostile receivers/amounts, native coins returning home, malformed data; middleware and wrapped module must return the same acknowledgement (and, for transfers that left the chain, the same result and state on OnAcknowledgementPacket / OnTimeoutPacket); the honest transfers of the world construction are judged too; after MsgRecvPacket the ack store holds exactly the transfer application's ack; receiver ends fully converted or untouched.",
      "Receivers with 32-byte addresses are counted, not judged (statement does not pin the EVM account).")

claim("C13", "runtime monitoring: differential oracle - raw store dumps before export vs. after InitGenesis into a fresh chain, the modules' own ValidateGenesis in between, re-export compared byte for byte",
      "See notes/reports/C13.md. Module states reached by 3-chain relay histories, governance-driven registry histories and direct population through the keepers (all four client types, heights/revisions over all byte patterns incl. 0x2f and key look-alikes, toggled/upgraded clients, BSC/ETH/TM metadata, relayers, boundary sequences, multi-denomination pairs, params) are exported with the app's exporter, validated, imported into a fresh node; xibc and aggregate stores and both param subspaces must be identical key for key, and the second export identical JSON.",
      "EVM contract storage is exported by the evm module and is outside the statement.")
claim("C18", "runtime monitoring: lifecycle model over all ordered client-type pairs with proposals executed the way governance does and updates delivered as transactions; usability oracle (status, type-specific metadata, real proof at the installed height)",
      "See notes/reports/C18.md. Create/upgrade/toggle over all 16 ordered pairs of {Tendermint, BSC, ETH, TSS} with valid and invalid contents plus random sequences; success => stored client/consensus state equal the proposal, the new type's initialisation present, Status Active, a real proof at the installed height verifies after the delay (ICS-23 from a partner chain / generated Merkle-Patricia state / TSS signer), a valid update from the authorised account succeeds; failure => the client prefix of the store is byte-identical.",
      "A valid proposal is not required to succeed (only counted).")

claim("C15", "runtime monitoring: real governance end to end in crash-isolated child processes (MsgSubmitProposal incl. the SDK's submission-time dry run, MsgVote, clock jump, real EndBlock/BeginBlock) and InitChain of generated genesis files that pass ValidateGenesis; a panic or a dead child outside transaction recovery is the violation",
      "See notes/reports/C15.md. Generated proposal contents for all 4 XIBC client proposals x 4 client-state types with degenerate-but-valid shapes and all 8 aggregate proposals, parameter values for rvesting/aggregate through param-change proposals, genesis states of the three modules; several proposals in flight so that state changes between submission and execution; every case is logged before execution, children that die are the witness. A content that passes stateless validation and makes its handler panic when invoked the way gov.EndBlocker invokes it (found behind the submission dry run) is a violation when the panic is raised under teleport's own code; panics entirely inside cosmos-sdk's parameter-change handler (unknown keys) are listed as latent.",
      "Gov genesis import is not generated; the handler route stands in for it (no dry run there).")

# optional per-agent additions are appended by later edits of this file
exec(open('/verif/scripts/manifest_more.py').read()) if __import__('os').path.exists('/verif/scripts/manifest_more.py') else None

m = {
 "version": 1,
 "setup_cmd": "./scripts/setup.sh",
 "hooks": {"guard": "verif", "enable": "go build tag: every check builds /repo with `-tags verif` (see ./check)",
           "baseline_off_cmd": "./scripts/baseline_off.sh", "source_commits": hook_commits, "add_only": True},
 "engines": [{"name": "harness", "path": "harness", "serves_properties": sorted(C),
              "kind_free_text": "Go test binaries that drive the real app.Teleport through ABCI (DeliverTx/BeginBlock/EndBlock/Commit) under generated hostile workloads while monitors record boundary observations (tx results, KV store dumps, contract views) and deterministic oracles judge them"}],
 "checks": [], "not_applicable": [],
 "notes": "Runtime monitoring family. ./check <ID> quick|thorough rebuilds the monitor from /repo's working tree with -tags verif and runs it; exit 0 held, 1 violation, 2 inconclusive. Genuine defects found and repaired are listed under 'fixed' in known_findings.json.",
}
for p in props:
    pid = p['id']
    if pid in C:
        c = C[pid]
        m["checks"].append({"property_id": pid, "quick_cmd": "./check %s quick" % pid, "thorough_cmd": "./check %s thorough" % pid,
                            "evidence_file": "/verif/evidence/%s.json" % pid, "replay_cmd_template": "./check %s --replay {path}" % pid,
                            "engine": "harness", "level_claimed": {"category": c["category"], "text": c["text"], "design_ref": "DESIGN.md §3 " + pid},
                            "level_note": c["note"], "technique": c["technique"]})
    else:
        m["not_applicable"].append({"property_id": pid, "reason": "monitor not finished yet (work in progress; planned in DESIGN.md §3) - not claimed until its check is silent on the unchanged tree"})
json.dump(m, open('/verif/MANIFEST.json', 'w'), indent=1)
print("claimed:", sorted(C))
