#!/usr/bin/env python3
"""Merges bin/cNN.<tier>.cover profiles and lists, per anchor file of the properties, the source lines of statements that no
monitor executed, with which monitors executed the rest."""
import json, os, re, sys, glob, collections
tier = sys.argv[1] if len(sys.argv) > 1 else 'quick'
V = os.path.join(os.path.dirname(os.path.abspath(__file__)), '..')
anchors = collections.OrderedDict()
for line in open(os.path.join(V, 'properties.jsonl')):
    p = json.loads(line)
    for f in p['anchors']['files']:
        if f.endswith('.go'):
            anchors.setdefault(f, []).append(p['id'])
for f in ['x/xibc/core/packet/keeper/evm.go', 'adapter/staking/hooks.go', 'adapter/gov/hooks.go', 'x/aggregate/keeper/evm_hooks.go', 'x/aggregate/keeper/evm.go', 'types/events.go']:
    anchors.setdefault(f, [])
blocks = {}  # (file, startline, startcol, endline, endcol) -> set(checks that covered)
allb = set()
for path in sorted(glob.glob(os.path.join(V, 'bin', 'c??.%s*.cover' % tier))):
    cid = os.path.basename(path)[:3].upper()
    for ln in open(path):
        m = re.match(r'github.com/teleport-network/teleport/(\S+):(\d+)\.(\d+),(\d+)\.(\d+) (\d+) (\d+)', ln)
        if not m:
            continue
        key = (m.group(1), int(m.group(2)), int(m.group(3)), int(m.group(4)), int(m.group(5)))
        allb.add(key)
        if int(m.group(7)) > 0:
            blocks.setdefault(key, set()).add(cid)
tot = unc = 0
for f, ids in anchors.items():
    fb = sorted(k for k in allb if k[0] == f)
    if not fb:
        continue
    miss = [k for k in fb if k not in blocks]
    tot += len(fb); unc += len(miss)
    print('== %s  (anchor of %s): %d/%d blocks never executed' % (f, ','.join(ids) or '-', len(miss), len(fb)))
    src = open('/repo/' + f).read().split('\n')
    for k in miss:
        first = src[k[1] - 1].strip()
        # the line that opens the block usually is the condition
        print('   %4d-%-4d %s' % (k[1], k[3], first[:120]))
print('TOTAL anchor-file blocks: %d, never executed by any monitor: %d' % (tot, unc))
