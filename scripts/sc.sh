#!/bin/bash
# scripts/sc.sh <round> <CNN> <suffix> <dst dir of the demo test files> "<demo go test cmd>" "<checks>"
# Wrapper around seedcheck.sh for a sub-agent's deliverables in /tmp/seed<round>_<CNN>/SEED: every *_test.go found there is
# placed into <dst dir>; the JSON result line goes to /tmp/r<round>_<CNN><suffix>.json. Runs in the background.
export GOFLAGS=-mod=mod GOPROXY=off GOSUMDB=off GOTOOLCHAIN=local
rnd="$1"; id="$2"; sfx="$3"; dst="$4"; cmd="$5"; checks="$6"
d="/tmp/seed${rnd}_${id}/SEED"
pairs=""
for f in $(find "$d" -name '*_test.go' -o -name '*_test.go.txt' | sort); do b="$(basename "$f" .txt)"; pairs="$pairs $f:$dst/$b"; done
( "$(dirname "$0")/seedcheck.sh" "${id}${sfx}" "$d/patch.diff" "$pairs" "$cmd" "$checks" 2>&1 | tail -1 > "/tmp/r${rnd}_${id}${sfx}.json" & )
echo "started ${id}${sfx}:$pairs"
