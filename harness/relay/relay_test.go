package relay

import (
	"fmt"
	"math/big"
	"math/rand"
	"testing"

	packettypes "github.com/teleport-network/teleport/x/xibc/core/packet/types"

	"verif/harness/core"
)

// TestProbe is a throw-away exploration of the hub world.
func TestProbe(t *testing.T) {
	h, err := NewHub(rand.New(rand.NewSource(1)), 0)
	if err != nil {
		t.Fatal(err)
	}
	u := h.W.Users[0]
	rel := h.W.Relayers[0]
	d := packettypes.CrossChainData{DstChain: NameB, TokenAddress: h.TokA, Receiver: LowerHex(h.W.Users[1].Eth), Amount: big.NewInt(100), CallData: []byte{}}
	tx, err := h.W.CrossChainTx(h.A, u, d, packettypes.Fee{Amount: big.NewInt(0)})
	if err != nil {
		t.Fatal(err)
	}
	o := h.DeliverEth(h.A, "send", tx)
	fmt.Println("send ok:", o.OK(), o.Log, o.Eth.VmError)
	sent := core.ParseSent(o.Eth)
	if len(sent) != 1 {
		t.Fatalf("sent %d", len(sent))
	}
	p := sent[0]
	fmt.Println("packet", p.Key())
	min := h.Provable(h.A, o.Block)
	ph, err := h.EnsureClient(h.R, NameA, rel, min)
	if err != nil {
		t.Fatal(err)
	}
	msg, err := h.RecvMsg(h.A, p.Bytes, p.Src, p.Dst, p.Packet.Sequence, ph, rel)
	if err != nil {
		t.Fatal(err)
	}
	o1 := h.Deliver(h.R, rel, "hop1", msg)
	fmt.Println("hop1 ok:", o1.OK(), o1.Log)
	for _, d := range o1.Diff {
		fmt.Println("  diff", d.Store, d.Op, d.Key)
	}
	for _, l := range h.Log {
		fmt.Println(l)
	}
}
