// Package relay drives teleport in its relay-chain ("hub") role for the packet
// monitors C01 / C02 / C03 / C05: three chains A (alpha-net), R (beta.net) and
// B (gamma_net) where A and B only hold light clients of R under the NAMES of
// each other, so that a packet A -> B has to travel A -> R -> B and its
// acknowledgement B -> R -> A.
package relay

import (
	"fmt"
	"math/big"
	"math/rand"
	"strings"
	"time"

	sdk "github.com/cosmos/cosmos-sdk/types"
	"github.com/ethereum/go-ethereum/common"

	xibctmtypes "github.com/teleport-network/teleport/x/xibc/clients/light-clients/tendermint/types"
	clienttypes "github.com/teleport-network/teleport/x/xibc/core/client/types"
	commitmenttypes "github.com/teleport-network/teleport/x/xibc/core/commitment/types"
	"github.com/teleport-network/teleport/x/xibc/core/host"
	packettypes "github.com/teleport-network/teleport/x/xibc/core/packet/types"

	"verif/harness/core"
)

// Chain names of the relay world. Unknown is a name for which A holds a client
// (tracking R) but R holds none.
const (
	NameA   = "alpha-net"
	NameR   = "beta.net"
	NameB   = "gamma_net"
	Unknown = "delta#4"
)

// Hub is the three-chain relay world.
type Hub struct {
	W       *core.World
	Rng     *rand.Rand
	A, R, B *core.Node
	// Tracks[on.Name][clientName] is the chain whose consensus the client named clientName on chain `on` follows.
	Tracks map[string]map[string]*core.Node
	// token with origin A and its wrapped form on B
	TokA   common.Address
	WrapB  common.Address
	Scale  uint8
	Factor *big.Int
	// probe contracts per chain: counter, reverter
	Contracts map[string]map[string]common.Address
	Watch     []string
	Log       []string
}

func (h *Hub) logf(format string, a ...interface{}) { h.Log = append(h.Log, fmt.Sprintf(format, a...)) }

// NewHub builds the world. withSelfClient additionally gives R a client named after R itself (tracking A): the only
// configuration in which a receive on R can name a destination other than R and still pass the keeper's
// "packet names this chain" validation.
func NewHub(rng *rand.Rand, scale uint8) (*Hub, error) {
	w := &core.World{ByName: map[string]*core.Node{}, Clock: time.Date(2022, 1, 2, 0, 0, 0, 0, time.UTC), Step: 5 * time.Second}
	w.Admin = core.NewAccount("admin")
	accts := []*core.Account{w.Admin}
	for i := 0; i < 2; i++ {
		u := core.NewAccount(fmt.Sprintf("user%d", i))
		w.Users = append(w.Users, u)
		accts = append(accts, u)
	}
	for i := 0; i < 3; i++ {
		r := core.NewAccount(fmt.Sprintf("relayer%d", i))
		w.Relayers = append(w.Relayers, r)
		accts = append(accts, r)
	}
	names := []string{NameA, NameR, NameB}
	for i, name := range names {
		n := core.NewNode(core.NodeConfig{ChainID: fmt.Sprintf("teleport_9000-%d", i+1), XIBCName: name, Accounts: accts, GenesisTime: w.Clock})
		w.Nodes = append(w.Nodes, n)
		w.ByName[name] = n
		w.Clock = w.Clock.Add(w.Step)
		n.Begin(w.Clock)
		if _, err := n.App.XIBCKeeper.PacketKeeper.CallEVM(n.Ctx(), core.PacketABI, packettypes.ModuleAddress, core.PacketAddr, "setChainName", n.Name); err != nil {
			return nil, err
		}
		w.Roll(n)
	}
	h := &Hub{W: w, Rng: rng, A: w.Nodes[0], R: w.Nodes[1], B: w.Nodes[2], Tracks: map[string]map[string]*core.Node{},
		Contracts: map[string]map[string]common.Address{}, Scale: scale,
		Watch: []string{"xibc", "bank", "evm", "aggregate", "staking", "gov", "distribution"}}
	h.Factor = new(big.Int).Exp(big.NewInt(10), big.NewInt(int64(scale)), nil)
	plan := []struct {
		on   *core.Node
		name string
		of   *core.Node
	}{
		{h.A, NameR, h.R}, {h.A, NameB, h.R}, {h.A, Unknown, h.R},
		{h.R, NameA, h.A}, {h.R, NameB, h.B},
		{h.B, NameR, h.R}, {h.B, NameA, h.R},
	}
	for _, p := range plan {
		if err := h.CreateClient(p.on, p.name, p.of); err != nil {
			return nil, fmt.Errorf("client %s on %s: %v", p.name, p.on.Name, err)
		}
	}
	for _, n := range w.Nodes {
		for _, r := range w.Relayers {
			var chains, addrs []string
			for _, c := range []string{NameA, NameR, NameB, Unknown} {
				if _, ok := h.Tracks[n.Name][c]; ok {
					chains = append(chains, c)
					addrs = append(addrs, r.Bech32())
				}
			}
			n.App.XIBCKeeper.ClientKeeper.RegisterRelayers(n.Ctx(), r.Bech32(), chains, addrs)
		}
	}
	// token: ERC-20 on A, wrapped on B (bound to origin chain alpha-net)
	tok, err := h.A.DeployERC20("tok-relay", "TRL", 18)
	if err != nil {
		return nil, err
	}
	h.TokA = tok
	mint := new(big.Int).Exp(big.NewInt(10), big.NewInt(12), nil)
	maxU := new(big.Int).Sub(new(big.Int).Lsh(big.NewInt(1), 255), big.NewInt(1))
	approve, _ := core.ERC20ABI.Pack("approve", core.EndpointAddr, maxU)
	for _, u := range w.Users {
		if err := h.A.MintERC20(tok, u.Eth, mint); err != nil {
			return nil, err
		}
		if err := h.A.CallAs(u.Eth, tok, approve); err != nil {
			return nil, err
		}
	}
	wb, err := h.B.DeployERC20("wtok-relay", "WTRL", 18)
	if err != nil {
		return nil, err
	}
	if err := h.B.App.AggregateKeeper.RegisterERC20Trace(h.B.Ctx(), wb, LowerHex(tok), NameA, scale); err != nil {
		return nil, err
	}
	h.WrapB = wb
	for _, u := range w.Users {
		if err := h.B.CallAs(u.Eth, wb, approve); err != nil {
			return nil, err
		}
	}
	for _, n := range w.Nodes {
		m := map[string]common.Address{}
		for _, kind := range []string{"counter", "reverter"} {
			code := core.Counter()
			if kind == "reverter" {
				code = core.Reverter()
			}
			a, err := n.DeployRuntime(w.Admin.Eth, code)
			if err != nil {
				return nil, err
			}
			m[kind] = a
		}
		h.Contracts[n.Name] = m
	}
	for _, n := range w.Nodes {
		w.Roll(n)
	}
	return h, nil
}

// LowerHex is the lower-case hex form used in bindings and receivers.
func LowerHex(a common.Address) string { return strings.ToLower(a.Hex()) }

// CreateClient creates on chain `on` a Tendermint client NAMED name that follows the consensus of `of`.
func (h *Hub) CreateClient(on *core.Node, name string, of *core.Node) error {
	w := h.W
	w.Roll(of)
	ht := of.Height()
	hdr, err := of.SignedHeader(ht, clienttypes.NewHeight(of.Revision(), uint64(ht)))
	if err != nil {
		return err
	}
	trusting := 14 * 24 * time.Hour
	cs := xibctmtypes.NewClientState(of.ChainID, xibctmtypes.DefaultTrustLevel, trusting, trusting+7*24*time.Hour, 10*time.Second,
		clienttypes.NewHeight(of.Revision(), uint64(ht)), commitmenttypes.GetSDKSpecs(), commitmenttypes.MerklePrefix{KeyPrefix: []byte("xibc")}, 0)
	w.Roll(on)
	if err := on.App.XIBCKeeper.ClientKeeper.CreateClient(on.Ctx(), name, cs, hdr.ConsensusState()); err != nil {
		return err
	}
	if h.Tracks[on.Name] == nil {
		h.Tracks[on.Name] = map[string]*core.Node{}
	}
	h.Tracks[on.Name][name] = of
	return nil
}

// Tracked returns the chain followed by the client named `name` on `on` (nil: no such client).
func (h *Hub) Tracked(on *core.Node, name string) *core.Node { return h.Tracks[on.Name][name] }

// ClientLatest returns the latest height of the client named `name` on `on`.
func (h *Hub) ClientLatest(on *core.Node, name string) clienttypes.Height {
	cs, ok := on.App.XIBCKeeper.ClientKeeper.GetClientState(on.Ctx(), name)
	if !ok {
		return clienttypes.Height{}
	}
	return cs.GetLatestHeight().(clienttypes.Height)
}

// HasConsensus reports whether the client named `name` on `on` stores a consensus state at height ht of the tracked chain.
func (h *Hub) HasConsensus(on *core.Node, name string, ht int64) bool {
	of := h.Tracked(on, name)
	if of == nil {
		return false
	}
	_, ok := on.App.XIBCKeeper.ClientKeeper.GetClientConsensusState(on.Ctx(), name, core.HeightOf(of, ht))
	return ok
}

// Obs is the boundary observation of one delivered transaction.
type Obs struct {
	Node   *core.Node
	Block  int64
	What   string
	Code   uint32
	Log    string
	Result core.TxResult
	Eth    *core.EthResult
	Before *core.Snapshot
	After  *core.Snapshot
	Diff   []core.DiffEntry
}

// OK reports whether the tx was executed successfully.
func (o *Obs) OK() bool {
	if o.Eth != nil {
		return o.Eth.OK()
	}
	return o.Code == 0
}

// Reached reports whether the transaction was built and handed to DeliverTx.
func (o *Obs) Reached() bool { return o.Code != 1<<30 }

// DiffIn returns the diff entries of one store.
func (o *Obs) DiffIn(store string) []core.DiffEntry {
	var out []core.DiffEntry
	for _, d := range o.Diff {
		if d.Store == store {
			out = append(out, d)
		}
	}
	return out
}

// Deliver delivers a cosmos tx in the node's current block and observes it.
func (h *Hub) Deliver(n *core.Node, from *core.Account, what string, msgs ...sdk.Msg) *Obs {
	before := n.Snap(n.Ctx(), h.Watch...)
	res := h.W.DeliverMsgs(n, from, msgs...)
	after := n.Snap(n.Ctx(), h.Watch...)
	o := &Obs{Node: n, Block: n.Header.Height, What: what, Code: res.Code, Log: res.Log, Result: res, Before: before, After: after, Diff: core.DiffSnap(before, after)}
	h.logf("%s@%s#%d: %s -> code=%d %s", from.Name, n.Name, n.Header.Height, what, res.Code, short(res.Log, res.Code))
	return o
}

func short(log string, code uint32) string {
	if code == 0 {
		return ""
	}
	if len(log) > 160 {
		return log[:160]
	}
	return log
}

// DeliverEth delivers raw (already signed) tx bytes carrying a MsgEthereumTx.
func (h *Hub) DeliverEth(n *core.Node, what string, tx []byte) *Obs {
	before := n.Snap(n.Ctx(), h.Watch...)
	raw := n.Deliver(tx)
	eth := core.DecodeEthResult(raw)
	after := n.Snap(n.Ctx(), h.Watch...)
	o := &Obs{Node: n, Block: n.Header.Height, What: what, Code: raw.Code, Log: raw.Log, Eth: eth,
		Result: core.TxResult{Code: raw.Code, Log: raw.Log, Events: raw.Events, Raw: raw}, Before: before, After: after, Diff: core.DiffSnap(before, after)}
	h.logf("%s#%d: %s -> code=%d vmerr=%q", n.Name, n.Header.Height, what, raw.Code, eth.VmError)
	return o
}

// UpdateClient delivers MsgUpdateClient for the client named `name` on `on` to height target of the tracked chain
// (0: the tracked chain's newest header; its current block is committed first when needed).
func (h *Hub) UpdateClient(on *core.Node, name string, relayer *core.Account, target int64) (*Obs, int64, error) {
	of := h.Tracked(on, name)
	if of == nil {
		return nil, 0, fmt.Errorf("no client %s on %s", name, on.Name)
	}
	if target == 0 {
		target = of.Header.Height
	}
	h.W.Roll(on)
	hdr, err := of.SignedHeader(target, h.ClientLatest(on, name))
	if err != nil {
		return nil, 0, err
	}
	msg, err := clienttypes.NewMsgUpdateClient(name, hdr, relayer.Acc)
	if err != nil {
		return nil, 0, err
	}
	return h.Deliver(on, relayer, fmt.Sprintf("updateClient(%s->%s@%d)", name, of.Name, target), msg), target, nil
}

// Provable commits blocks of `of` until block blk is committed and returns the lowest header height whose app hash covers it.
func (h *Hub) Provable(of *core.Node, blk int64) int64 {
	for of.Height() < blk {
		h.W.Roll(of)
	}
	return blk + 1
}

// EnsureClient makes sure that the client named `name` on `on` has a consensus state at a height >= min and returns
// such a height.
func (h *Hub) EnsureClient(on *core.Node, name string, relayer *core.Account, min int64) (int64, error) {
	latest := int64(h.ClientLatest(on, name).RevisionHeight)
	if latest >= min && h.HasConsensus(on, name, latest) {
		return latest, nil
	}
	o, target, err := h.UpdateClient(on, name, relayer, 0)
	if err != nil {
		return 0, err
	}
	if !o.OK() {
		return 0, fmt.Errorf("honest client update rejected: %s", o.Log)
	}
	if target < min {
		return 0, fmt.Errorf("target %d below required %d", target, min)
	}
	return target, nil
}

// RecvMsg builds MsgRecvPacket for packet bytes with a proof of commitments/{src}/{dst}/{seq} taken from `prover`'s
// store at proofHeight.
func (h *Hub) RecvMsg(prover *core.Node, packetBytes []byte, src, dst string, seq uint64, proofHeight int64, signer *core.Account) (*packettypes.MsgRecvPacket, error) {
	proof, ph, err := h.W.Proof(prover, host.PacketCommitmentKey(src, dst, seq), proofHeight)
	if err != nil {
		return nil, err
	}
	return packettypes.NewMsgRecvPacket(packetBytes, proof, ph, signer.Acc), nil
}

// AckMsg builds MsgAcknowledgement with a proof of acks/{src}/{dst}/{seq} taken from `prover`'s store at proofHeight.
func (h *Hub) AckMsg(prover *core.Node, packetBytes, ack []byte, src, dst string, seq uint64, proofHeight int64, signer *core.Account) (*packettypes.MsgAcknowledgement, error) {
	proof, ph, err := h.W.Proof(prover, host.PacketAcknowledgementKey(src, dst, seq), proofHeight)
	if err != nil {
		return nil, err
	}
	return packettypes.NewMsgAcknowledgement(packetBytes, ack, proof, ph, signer.Acc), nil
}

// StoredBefore reads key from of's xibc store as committed BEFORE header `height` (version height-1): what a proof
// at `height` can show.
func (h *Hub) StoredBefore(of *core.Node, key []byte, height int64) []byte {
	if height-1 < 1 || height-1 > of.Height() {
		return nil
	}
	v, err := h.W.StoredAt(of, key, height-1)
	if err != nil {
		return nil
	}
	return v
}

// RandRelayer picks a relayer.
func (h *Hub) RandRelayer() *core.Account { return h.W.Relayers[h.Rng.Intn(len(h.W.Relayers))] }

// RandUser picks a user.
func (h *Hub) RandUser() *core.Account { return h.W.Users[h.Rng.Intn(len(h.W.Users))] }

// AccountOf finds a relayer by bech32 address.
func (h *Hub) AccountOf(bech string) *core.Account {
	for _, a := range h.W.Relayers {
		if a.Bech32() == bech {
			return a
		}
	}
	return h.W.Relayers[0]
}
