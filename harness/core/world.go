package core

import (
	"fmt"
	tsstypes "github.com/teleport-network/teleport/x/xibc/clients/tss-client/types"
	"time"

	abci "github.com/tendermint/tendermint/abci/types"

	sdk "github.com/cosmos/cosmos-sdk/types"

	xibctmtypes "github.com/teleport-network/teleport/x/xibc/clients/light-clients/tendermint/types"
	clienttypes "github.com/teleport-network/teleport/x/xibc/core/client/types"
	commitmenttypes "github.com/teleport-network/teleport/x/xibc/core/commitment/types"
	"github.com/teleport-network/teleport/x/xibc/core/host"
	packettypes "github.com/teleport-network/teleport/x/xibc/core/packet/types"
)

// World is a set of chains sharing one logical clock. Every node is always
// inside a block (Begin is called right after each commit), so Ctx() is the
// deliver state everywhere.
type World struct {
	Nodes    []*Node
	ByName   map[string]*Node
	Clock    time.Time
	Users    []*Account
	Relayers []*Account
	Admin    *Account
	Step     time.Duration
}

// WorldConfig configures NewWorld.
type WorldConfig struct {
	Chains      int
	Users       int
	Relayers    int
	NumVals     int
	TrustPeriod time.Duration
	// NoClients skips creating the full mesh of Tendermint clients.
	NoClients bool
	// NoRelayers skips registering relayers.
	NoRelayers bool
}

// ChainNames are the XIBC names of the world's chains (distinct from the
// Tendermint chain ids on purpose).
var ChainNames = []string{"alpha-net", "beta.net", "Gamma_net", "delta#4"}

// NewWorld builds the chains, names the packet contracts, creates the client
// mesh and registers every relayer for every counterparty.
func NewWorld(cfg WorldConfig) *World {
	if cfg.Chains == 0 {
		cfg.Chains = 2
	}
	if cfg.Users == 0 {
		cfg.Users = 2
	}
	if cfg.Relayers == 0 {
		cfg.Relayers = 2
	}
	if cfg.TrustPeriod == 0 {
		cfg.TrustPeriod = 14 * 24 * time.Hour
	}
	w := &World{ByName: map[string]*Node{}, Clock: time.Date(2022, 1, 2, 0, 0, 0, 0, time.UTC), Step: 5 * time.Second}
	w.Admin = NewAccount("admin")
	accts := []*Account{w.Admin}
	for i := 0; i < cfg.Users; i++ {
		u := NewAccount(fmt.Sprintf("user%d", i))
		w.Users = append(w.Users, u)
		accts = append(accts, u)
	}
	for i := 0; i < cfg.Relayers; i++ {
		r := NewAccount(fmt.Sprintf("relayer%d", i))
		w.Relayers = append(w.Relayers, r)
		accts = append(accts, r)
	}
	for i := 0; i < cfg.Chains; i++ {
		n := NewNode(NodeConfig{
			ChainID: fmt.Sprintf("teleport_9000-%d", i+1), XIBCName: ChainNames[i], NumVals: cfg.NumVals,
			Accounts: accts, GenesisTime: w.Clock,
		})
		w.Nodes = append(w.Nodes, n)
		w.ByName[n.Name] = n
		w.Clock = w.Clock.Add(w.Step)
		n.Begin(w.Clock)
		if _, err := n.App.XIBCKeeper.PacketKeeper.CallEVM(n.Ctx(), PacketABI, packettypes.ModuleAddress, PacketAddr, "setChainName", n.Name); err != nil {
			panic(err)
		}
		w.Roll(n)
	}
	if !cfg.NoClients {
		for _, a := range w.Nodes {
			for _, b := range w.Nodes {
				if a != b {
					if err := w.CreateTMClient(a, b, cfg.TrustPeriod); err != nil {
						panic(err)
					}
				}
			}
		}
	}
	if !cfg.NoRelayers {
		for _, n := range w.Nodes {
			for _, r := range w.Relayers {
				var chains, addrs []string
				for _, o := range w.Nodes {
					if o != n {
						chains = append(chains, o.Name)
						addrs = append(addrs, r.Bech32())
					}
				}
				n.App.XIBCKeeper.ClientKeeper.RegisterRelayers(n.Ctx(), r.Bech32(), chains, addrs)
			}
		}
	}
	for _, n := range w.Nodes {
		w.Roll(n)
	}
	return w
}

// Roll ends and commits the node's current block and begins the next one at
// the world's (advanced) clock.
func (w *World) Roll(n *Node) (abci.ResponseEndBlock, []byte) {
	res, hash := n.End()
	w.Clock = w.Clock.Add(w.Step)
	n.Begin(w.Clock)
	return res, hash
}

// Advance moves the clock forward without producing blocks.
func (w *World) Advance(d time.Duration) { w.Clock = w.Clock.Add(d) }

// CreateTMClient creates on chain `on` a Tendermint client tracking `of`,
// anchored at of's last committed height.
func (w *World) CreateTMClient(on, of *Node, trusting time.Duration) error {
	w.Roll(of) // make sure the anchor block is committed and its header known
	h := of.Height()
	hdr, err := of.SignedHeader(h, clienttypes.NewHeight(of.Revision(), uint64(h)))
	if err != nil {
		return err
	}
	cs := xibctmtypes.NewClientState(
		of.ChainID, xibctmtypes.DefaultTrustLevel, trusting, trusting+7*24*time.Hour, 10*time.Second,
		clienttypes.NewHeight(of.Revision(), uint64(h)), commitmenttypes.GetSDKSpecs(),
		commitmenttypes.MerklePrefix{KeyPrefix: []byte("xibc")}, 0,
	)
	w.Roll(on)
	return on.App.XIBCKeeper.ClientKeeper.CreateClient(on.Ctx(), of.Name, cs, hdr.ConsensusState())
}

// ToggleRoundTrip is what two passed ToggleClientProposals do to the client `on` keeps for `of`: it becomes a TSS client
// (owned by tssOwner) and then a Tendermint client again, anchored at of's last committed height. Packet state is none of
// a toggle's business.
func (w *World) ToggleRoundTrip(on, of *Node, tssOwner *Account, trusting time.Duration) error {
	ck := on.App.XIBCKeeper.ClientKeeper
	tss := &tsstypes.ClientState{TssAddress: tssOwner.Bech32(), Pubkey: make([]byte, 33), PartPubkeys: [][]byte{make([]byte, 33), make([]byte, 33)}, Threshold: 2}
	if err := ck.ToggleClient(on.Ctx(), of.Name, tss, &tsstypes.ConsensusState{}); err != nil {
		return fmt.Errorf("toggle to tss: %w", err)
	}
	w.Roll(on)
	w.Roll(of)
	h := of.Height()
	hdr, err := of.SignedHeader(h, clienttypes.NewHeight(of.Revision(), uint64(h)))
	if err != nil {
		return err
	}
	cs := xibctmtypes.NewClientState(
		of.ChainID, xibctmtypes.DefaultTrustLevel, trusting, trusting+7*24*time.Hour, 10*time.Second,
		clienttypes.NewHeight(of.Revision(), uint64(h)), commitmenttypes.GetSDKSpecs(),
		commitmenttypes.MerklePrefix{KeyPrefix: []byte("xibc")}, 0,
	)
	w.Roll(on)
	if err := ck.ToggleClient(on.Ctx(), of.Name, cs, hdr.ConsensusState()); err != nil {
		return fmt.Errorf("toggle back to tendermint: %w", err)
	}
	return nil
}

// UpgradeTM is what a passed UpgradeClientProposal does to the Tendermint client `on` keeps for `of`: a fresh client
// state and consensus state anchored at of's last committed height.
func (w *World) UpgradeTM(on, of *Node, trusting time.Duration) error {
	w.Roll(of)
	h := of.Height()
	hdr, err := of.SignedHeader(h, clienttypes.NewHeight(of.Revision(), uint64(h)))
	if err != nil {
		return err
	}
	cs := xibctmtypes.NewClientState(
		of.ChainID, xibctmtypes.DefaultTrustLevel, trusting, trusting+7*24*time.Hour, 10*time.Second,
		clienttypes.NewHeight(of.Revision(), uint64(h)), commitmenttypes.GetSDKSpecs(),
		commitmenttypes.MerklePrefix{KeyPrefix: []byte("xibc")}, 0,
	)
	w.Roll(on)
	return on.App.XIBCKeeper.ClientKeeper.UpgradeClient(on.Ctx(), of.Name, cs, hdr.ConsensusState())
}

// UpgradeTMRevisionRoundTrip: governance upgrades the Tendermint client `on` keeps for `of` into the NEXT revision (as
// for a counterparty that restarts under a new chain id) and - the restart being called off - back to the real chain at a
// fresh anchor. Relaying continues afterwards.
func (w *World) UpgradeTMRevisionRoundTrip(on, of *Node, trusting time.Duration) error {
	w.Roll(of)
	h := of.Height()
	hdr, err := of.SignedHeader(h, clienttypes.NewHeight(of.Revision(), uint64(h)))
	if err != nil {
		return err
	}
	next, err := clienttypes.SetRevisionNumber(of.ChainID, of.Revision()+1)
	if err != nil {
		return err
	}
	cs := xibctmtypes.NewClientState(
		next, xibctmtypes.DefaultTrustLevel, trusting, trusting+7*24*time.Hour, 10*time.Second,
		clienttypes.NewHeight(of.Revision()+1, 1), commitmenttypes.GetSDKSpecs(),
		commitmenttypes.MerklePrefix{KeyPrefix: []byte("xibc")}, 0,
	)
	w.Roll(on)
	if err := on.App.XIBCKeeper.ClientKeeper.UpgradeClient(on.Ctx(), of.Name, cs, hdr.ConsensusState()); err != nil {
		return fmt.Errorf("upgrade into the next revision: %w", err)
	}
	w.Roll(on)
	return w.UpgradeTM(on, of, trusting)
}

// ClientLatest returns the latest height of the client that `on` keeps for `of`.
func (w *World) ClientLatest(on, of *Node) clienttypes.Height {
	cs, ok := on.App.XIBCKeeper.ClientKeeper.GetClientState(on.Ctx(), of.Name)
	if !ok {
		return clienttypes.Height{}
	}
	return cs.GetLatestHeight().(clienttypes.Height)
}

// UpdateMsg builds MsgUpdateClient carrying of's header for `height`, trusted
// at the client's current latest height (or `trusted` when non-zero).
func (w *World) UpdateMsg(on, of *Node, signer *Account, height int64, trusted clienttypes.Height) (*clienttypes.MsgUpdateClient, error) {
	if trusted.IsZero() {
		trusted = w.ClientLatest(on, of)
	}
	hdr, err := of.SignedHeader(height, trusted)
	if err != nil {
		return nil, err
	}
	return clienttypes.NewMsgUpdateClient(of.Name, hdr, signer.Acc)
}

// Proof returns an ICS-23 proof for key in of's xibc store, valid against the
// header of proofHeight (which commits to the state after proofHeight-1).
func (w *World) Proof(of *Node, key []byte, proofHeight int64) ([]byte, clienttypes.Height, error) {
	res := of.App.Query(abci.RequestQuery{
		Path: fmt.Sprintf("store/%s/key", host.StoreKey), Height: proofHeight - 1, Data: key, Prove: true,
	})
	if res.Code != 0 || res.ProofOps == nil {
		return nil, clienttypes.Height{}, fmt.Errorf("query failed: code=%d log=%s", res.Code, res.Log)
	}
	mp, err := commitmenttypes.ConvertProofs(res.ProofOps)
	if err != nil {
		return nil, clienttypes.Height{}, err
	}
	bz, err := of.App.AppCodec().Marshal(&mp)
	if err != nil {
		return nil, clienttypes.Height{}, err
	}
	return bz, clienttypes.NewHeight(of.Revision(), uint64(proofHeight)), nil
}

// StoredAt reads a key of of's xibc store at a committed version.
func (w *World) StoredAt(of *Node, key []byte, version int64) ([]byte, error) {
	res := of.App.Query(abci.RequestQuery{Path: fmt.Sprintf("store/%s/key", host.StoreKey), Height: version, Data: key})
	if res.Code != 0 {
		return nil, fmt.Errorf("query failed: code=%d log=%s", res.Code, res.Log)
	}
	return res.Value, nil
}

// TxResult is the boundary observation of one delivered cosmos transaction.
type TxResult struct {
	Code   uint32
	Log    string
	Events []abci.Event
	Raw    abci.ResponseDeliverTx
}

// OK reports success.
func (r TxResult) OK() bool { return r.Code == 0 }

// DeliverMsgs signs and delivers msgs from `from` in the node's current block.
func (w *World) DeliverMsgs(n *Node, from *Account, msgs ...sdk.Msg) TxResult {
	tx, err := n.CosmosTx(from, 50_000_000, msgs...)
	if err != nil {
		return TxResult{Code: 1 << 30, Log: "harness: " + err.Error()}
	}
	res := n.Deliver(tx)
	return TxResult{Code: res.Code, Log: res.Log, Events: res.Events, Raw: res}
}

// CatchUp commits one more block on `of` (so that its latest state is provable)
// and updates the client on `on` to that new height. Returns the proof height.
func (w *World) CatchUp(on, of *Node, signer *Account) (int64, error) {
	w.Roll(of)
	h := of.Height()
	w.Roll(on)
	msg, err := w.UpdateMsg(on, of, signer, h, clienttypes.Height{})
	if err != nil {
		return 0, err
	}
	res := w.DeliverMsgs(on, signer, msg)
	if !res.OK() {
		return 0, fmt.Errorf("update client failed: %s", res.Log)
	}
	w.Roll(on)
	return h, nil
}

// EventAttrs returns the attributes of every event of the given type.
func EventAttrs(events []abci.Event, typ string) []map[string]string {
	var out []map[string]string
	for _, e := range events {
		if e.Type != typ {
			continue
		}
		m := map[string]string{}
		for _, a := range e.Attributes {
			m[string(a.Key)] = string(a.Value)
		}
		out = append(out, m)
	}
	return out
}
