package core

import (
	"math"
	"math/rand"
	"strings"

	sdk "github.com/cosmos/cosmos-sdk/types"
	"github.com/ethereum/go-ethereum/common"

	clienttypes "github.com/teleport-network/teleport/x/xibc/core/client/types"
)

// specialRunes are characters that JSON / HTML / ABI handling may treat specially.
var specialRunes = []rune{'"', '\\', '/', '<', '>', '&', '\'', '\n', '\r', '\t', 0, 0x7f, 0x80, 0xff, 0x100, 0x2028, 0x2029, 0xfeff, 0xfffd, 0xffff, 0x10000, 0x1f600, 0x10ffff, 'é', '中', ' '}

// GenUTF8 returns a valid UTF-8 string drawn from a hostile distribution.
func GenUTF8(r *rand.Rand, maxLen int) string {
	switch r.Intn(12) {
	case 0:
		return ""
	case 1:
		return string(specialRunes[r.Intn(len(specialRunes))])
	case 2, 3:
		if maxLen >= 42 {
			return GenStructured(r)
		}
	}
	n := r.Intn(maxLen + 1)
	var sb strings.Builder
	for i := 0; i < n; i++ {
		switch r.Intn(4) {
		case 0:
			sb.WriteRune(specialRunes[r.Intn(len(specialRunes))])
		case 1:
			sb.WriteRune(rune(0x20 + r.Intn(0x5f)))
		case 2:
			c := rune(r.Intn(0x10ffff))
			if c >= 0xd800 && c <= 0xdfff {
				c = 'x'
			}
			sb.WriteRune(c)
		default:
			sb.WriteByte("0123456789abcdefx"[r.Intn(17)])
		}
	}
	return sb.String()
}

// GenStructured returns a string in one of the shapes that address / number "normalisation" code treats
// specially: hex addresses in lower, upper, EIP-55 and prefix-less form, bech32 addresses, padded and
// numeric-looking strings. A loss-free codec must hand every one of them back unchanged.
func GenStructured(r *rand.Rand) string {
	var a [20]byte
	r.Read(a[:])
	addr := common.BytesToAddress(a[:])
	switch r.Intn(12) {
	case 0:
		return addr.Hex() // EIP-55 mixed case
	case 1:
		return strings.ToLower(addr.Hex())
	case 2:
		return "0x" + strings.ToUpper(addr.Hex()[2:])
	case 3:
		return "0X" + addr.Hex()[2:]
	case 4:
		return addr.Hex()[2:]
	case 5:
		return strings.ToUpper(addr.Hex()[2:])
	case 6:
		return sdk.AccAddress(a[:]).String()
	case 7:
		return strings.ToUpper(sdk.AccAddress(a[:]).String())
	case 8:
		return " " + addr.Hex() + " "
	case 9:
		return []string{"007", "+1", "1e3", "0x0", "0x", "1.0", "-0", "true", "null", "NaN", "00000000000000000000000000000000000000000001"}[r.Intn(11)]
	case 10:
		return "\t" + sdk.AccAddress(a[:]).String() + "\n"
	default:
		h := addr.Hex()
		return h[:2+r.Intn(40)] // truncated checksummed address
	}
}

// GenBytes returns a byte string (empty, runs of 0x00/0xff, random).
func GenBytes(r *rand.Rand, maxLen int) []byte {
	switch r.Intn(8) {
	case 0:
		return []byte{}
	case 1:
		return make([]byte, r.Intn(maxLen+1))
	case 2:
		b := make([]byte, r.Intn(maxLen+1))
		for i := range b {
			b[i] = 0xff
		}
		return b
	case 3:
		return make([]byte, 32*(1+r.Intn(3)))
	}
	b := make([]byte, r.Intn(maxLen+1))
	r.Read(b)
	return b
}

// GenUint64 is biased towards boundaries.
func GenUint64(r *rand.Rand) uint64 {
	switch r.Intn(8) {
	case 0:
		return 0
	case 1:
		return 1
	case 2:
		return math.MaxUint64
	case 3:
		return math.MaxUint64 - uint64(r.Intn(3))
	case 4:
		return uint64(1) << uint(r.Intn(64))
	case 5:
		return uint64(r.Intn(1000))
	}
	return r.Uint64()
}

const nameAlphabet = "abcdefghijklmnopqrstuvwxyzABCDEFGHIJKLMNOPQRSTUVWXYZ0123456789._+-#[]<>"

// GenChainName returns a name accepted by host.ClientIdentifierValidator (3..64
// characters of the allowed alphabet).
func GenChainName(r *rand.Rand) string {
	var n int
	switch r.Intn(6) {
	case 0:
		n = 3
	case 1:
		n = 64
	default:
		n = 3 + r.Intn(14)
	}
	b := make([]byte, n)
	for i := range b {
		if r.Intn(4) == 0 {
			b[i] = "._+-#[]<>0123456789"[r.Intn(19)]
		} else {
			b[i] = nameAlphabet[r.Intn(len(nameAlphabet))]
		}
	}
	return string(b)
}

// interestingBytes are byte values that key parsers may trip over.
var interestingBytes = []byte{0x00, 0x01, 0x2f, 0x2d, 0x2e, 0x30, 0x7f, 0x80, 0xfe, 0xff, '\n'}

// GenPatternUint64 draws a uint64 whose bytes are forced through interesting values.
func GenPatternUint64(r *rand.Rand) uint64 {
	switch r.Intn(6) {
	case 0:
		return uint64(r.Intn(300))
	case 1:
		return GenUint64(r)
	}
	var v uint64
	for i := 0; i < 8; i++ {
		var b byte
		switch r.Intn(3) {
		case 0:
			b = 0
		case 1:
			b = interestingBytes[r.Intn(len(interestingBytes))]
		default:
			b = byte(r.Intn(256))
		}
		v = v<<8 | uint64(b)
	}
	return v
}

// GenHeight draws a non-zero height over all byte patterns.
func GenHeight(r *rand.Rand) clienttypes.Height {
	for {
		h := clienttypes.NewHeight(GenPatternUint64(r), GenPatternUint64(r))
		if r.Intn(3) == 0 {
			h.RevisionNumber = uint64(r.Intn(3))
		}
		if !h.IsZero() && h.RevisionHeight != 0 {
			return h
		}
	}
}

// HasByte reports whether the 16-byte big-endian encoding of h contains b.
func HasByte(h clienttypes.Height, b byte) bool {
	for i := 0; i < 8; i++ {
		if byte(h.RevisionNumber>>(8*uint(i))) == b || byte(h.RevisionHeight>>(8*uint(i))) == b {
			return true
		}
	}
	return false
}
