package core

import (
	"bytes"
	"crypto/sha256"
	"encoding/hex"
	"fmt"
	"sort"

	sdk "github.com/cosmos/cosmos-sdk/types"
	authtypes "github.com/cosmos/cosmos-sdk/x/auth/types"
	ethermint "github.com/tharsis/ethermint/types"
)

// KV is a dump of one KV store.
type KV map[string][]byte

// DumpStore returns every key/value of the named store as seen by ctx.
func (n *Node) DumpStore(ctx sdk.Context, name string) KV {
	key := n.App.GetKey(name)
	if key == nil {
		panic("no store " + name)
	}
	out := KV{}
	it := ctx.KVStore(key).Iterator(nil, nil)
	defer it.Close()
	for ; it.Valid(); it.Next() {
		out[string(it.Key())] = append([]byte{}, it.Value()...)
	}
	return out
}

// DumpPrefix returns the entries of a store under a prefix.
func (n *Node) DumpPrefix(ctx sdk.Context, name string, prefix []byte) KV {
	out := KV{}
	it := sdk.KVStorePrefixIterator(ctx.KVStore(n.App.GetKey(name)), prefix)
	defer it.Close()
	for ; it.Valid(); it.Next() {
		out[string(it.Key())] = append([]byte{}, it.Value()...)
	}
	return out
}

// Digest hashes a dump.
func (kv KV) Digest() string {
	keys := make([]string, 0, len(kv))
	for k := range kv {
		keys = append(keys, k)
	}
	sort.Strings(keys)
	h := sha256.New()
	for _, k := range keys {
		fmt.Fprintf(h, "%d:", len(k))
		h.Write([]byte(k))
		fmt.Fprintf(h, "%d:", len(kv[k]))
		h.Write(kv[k])
	}
	return hex.EncodeToString(h.Sum(nil)[:16])
}

// DiffEntry is one changed key.
type DiffEntry struct {
	Store string `json:"store"`
	Key   string `json:"key"`
	Old   string `json:"old,omitempty"`
	New   string `json:"new,omitempty"`
	Op    string `json:"op"`
}

func printable(k string) string {
	for _, c := range []byte(k) {
		if c < 0x20 || c > 0x7e {
			return "0x" + hex.EncodeToString([]byte(k))
		}
	}
	return k
}

// Diff lists the differences between two dumps of the same store.
func Diff(store string, a, b KV) []DiffEntry {
	var out []DiffEntry
	keys := map[string]struct{}{}
	for k := range a {
		keys[k] = struct{}{}
	}
	for k := range b {
		keys[k] = struct{}{}
	}
	ks := make([]string, 0, len(keys))
	for k := range keys {
		ks = append(ks, k)
	}
	sort.Strings(ks)
	for _, k := range ks {
		av, aok := a[k]
		bv, bok := b[k]
		switch {
		case aok && !bok:
			out = append(out, DiffEntry{Store: store, Key: printable(k), Old: hex.EncodeToString(av), Op: "del"})
		case !aok && bok:
			out = append(out, DiffEntry{Store: store, Key: printable(k), New: hex.EncodeToString(bv), Op: "add"})
		case !bytes.Equal(av, bv):
			out = append(out, DiffEntry{Store: store, Key: printable(k), Old: hex.EncodeToString(av), New: hex.EncodeToString(bv), Op: "mod"})
		}
	}
	return out
}

// Snapshot is a set of store dumps plus a normalised account table.
type Snapshot struct {
	Stores map[string]KV
	Accts  KV
}

// StateStores are the stores compared by "state unchanged" oracles. The auth
// store is handled separately (sequence numbers and public keys of signers
// legitimately change when the ante handler accepted the transaction).
var StateStores = []string{"xibc", "aggregate", "bank", "evm", "staking", "gov", "distribution", "slashing", "params", "ibc", "transfer", "feegrant", "authz", "capability", "mint"}

// Snap takes a snapshot of the given stores (StateStores when nil).
func (n *Node) Snap(ctx sdk.Context, stores ...string) *Snapshot {
	if len(stores) == 0 {
		stores = StateStores
	}
	s := &Snapshot{Stores: map[string]KV{}}
	for _, name := range stores {
		if n.App.GetKey(name) == nil {
			continue
		}
		s.Stores[name] = n.DumpStore(ctx, name)
	}
	s.Accts = n.AccountTable(ctx)
	return s
}

// AccountTable lists every account as address -> "type/accnum/codehash",
// leaving out sequence and public key.
func (n *Node) AccountTable(ctx sdk.Context) KV {
	out := KV{}
	n.App.AccountKeeper.IterateAccounts(ctx, func(a authtypes.AccountI) bool {
		ch := ""
		if ea, ok := a.(*ethermint.EthAccount); ok {
			ch = ea.CodeHash
		}
		out[a.GetAddress().String()] = []byte(fmt.Sprintf("%T/%d/%s", a, a.GetAccountNumber(), ch))
		return false
	})
	return out
}

// DiffSnap lists all differences between two snapshots.
func DiffSnap(a, b *Snapshot) []DiffEntry {
	var out []DiffEntry
	names := make([]string, 0, len(a.Stores))
	for k := range a.Stores {
		names = append(names, k)
	}
	sort.Strings(names)
	for _, name := range names {
		out = append(out, Diff(name, a.Stores[name], b.Stores[name])...)
	}
	out = append(out, Diff("acc-table", a.Accts, b.Accts)...)
	return out
}

// TrimDiff bounds a diff for inclusion in a replay file.
func TrimDiff(d []DiffEntry, n int) []DiffEntry {
	if len(d) > n {
		return d[:n]
	}
	return d
}
