package core

import (
	"encoding/binary"
	"fmt"

	"github.com/ethereum/go-ethereum/common"
)

// Asm is a minimal EVM assembler used to build adversarial contracts.
type Asm struct {
	code   []byte
	labels map[string]int
	fixups map[int]string
}

// EVM opcodes used by the harness.
const (
	opSTOP           = 0x00
	opADD            = 0x01
	opISZERO         = 0x15
	opCALLVALUE      = 0x34
	opCALLDATASIZE   = 0x36
	opCALLDATACOPY   = 0x37
	opCODECOPY       = 0x39
	opRETURNDATASIZE = 0x3d
	opRETURNDATACOPY = 0x3e
	opPOP            = 0x50
	opMSTORE         = 0x52
	opSLOAD          = 0x54
	opSSTORE         = 0x55
	opJUMP           = 0x56
	opJUMPI          = 0x57
	opGAS            = 0x5a
	opJUMPDEST       = 0x5b
	opDUP1           = 0x80
	opLOG0           = 0xa0
	opCALL           = 0xf1
	opRETURN         = 0xf3
	opDELEGATECALL   = 0xf4
	opSTATICCALL     = 0xfa
	opREVERT         = 0xfd
	opINVALID        = 0xfe
)

// NewAsm returns an empty program.
func NewAsm() *Asm { return &Asm{labels: map[string]int{}, fixups: map[int]string{}} }

// Op appends raw opcodes.
func (a *Asm) Op(ops ...byte) *Asm { a.code = append(a.code, ops...); return a }

// Push appends the shortest PUSH for v.
func (a *Asm) Push(v uint64) *Asm {
	var b [8]byte
	binary.BigEndian.PutUint64(b[:], v)
	i := 0
	for i < 7 && b[i] == 0 {
		i++
	}
	return a.PushBytes(b[i:])
}

// PushBytes appends PUSHn with the given bytes (1..32).
func (a *Asm) PushBytes(b []byte) *Asm {
	if len(b) == 0 || len(b) > 32 {
		panic("bad push")
	}
	a.code = append(a.code, byte(0x5f+len(b)))
	a.code = append(a.code, b...)
	return a
}

// PushLabel pushes the (2-byte) offset of a label resolved at Bytes().
func (a *Asm) PushLabel(name string) *Asm {
	a.code = append(a.code, 0x61, 0, 0)
	a.fixups[len(a.code)-2] = name
	return a
}

// Label defines a jump destination.
func (a *Asm) Label(name string) *Asm {
	a.labels[name] = len(a.code)
	a.code = append(a.code, opJUMPDEST)
	return a
}

// Mark defines a label without emitting JUMPDEST (data sections).
func (a *Asm) Mark(name string) *Asm { a.labels[name] = len(a.code); return a }

// Data appends raw bytes.
func (a *Asm) Data(b []byte) *Asm { a.code = append(a.code, b...); return a }

// Bytes resolves labels and returns the program.
func (a *Asm) Bytes() []byte {
	out := append([]byte{}, a.code...)
	for pos, name := range a.fixups {
		off, ok := a.labels[name]
		if !ok {
			panic("undefined label " + name)
		}
		out[pos] = byte(off >> 8)
		out[pos+1] = byte(off)
	}
	return out
}

// InitCode wraps runtime code in a constructor that returns it.
func InitCode(runtime []byte) []byte {
	a := NewAsm()
	// CODECOPY(0, off, len); RETURN(0, len)
	a.Push(uint64(len(runtime))).PushLabel("rt").Push(0).Op(opCODECOPY)
	a.Push(uint64(len(runtime))).Push(0).Op(opRETURN)
	a.Mark("rt").Data(runtime)
	return a.Bytes()
}

// CallKind selects the call instruction of a forwarder.
type CallKind int

// Call kinds.
const (
	KindCall CallKind = iota
	KindDelegateCall
	KindStaticCall
)

func (k CallKind) String() string { return [...]string{"CALL", "DELEGATECALL", "STATICCALL"}[k] }

// emitCall emits: call(kind, target, value?, in=mem[0:size on stack]) and leaves success on the stack.
// Expects calldata already in memory at 0 with length pushed by sizeOp.
func emitCall(a *Asm, kind CallKind, target common.Address, withValue bool, inSize func(*Asm)) {
	a.Push(0).Push(0) // outSize, outOffset
	inSize(a)         // inSize
	a.Push(0)         // inOffset
	switch kind {
	case KindCall:
		if withValue {
			a.Op(opCALLVALUE)
		} else {
			a.Push(0)
		}
		a.PushBytes(target.Bytes()).Op(opGAS, opCALL)
	case KindDelegateCall:
		a.PushBytes(target.Bytes()).Op(opGAS, opDELEGATECALL)
	case KindStaticCall:
		a.PushBytes(target.Bytes()).Op(opGAS, opSTATICCALL)
	}
}

// Forwarder returns runtime code that forwards its whole calldata (and value
// for CALL) to target using the given call kind. When bubble is true a failed
// inner call reverts with the inner return data, otherwise the outer call
// succeeds and returns (success flag ‖ return data) – a "try/catch" caller.
// When postStore is true the contract writes storage slot 1 := 1 before the
// inner call (state that must be rolled back if the transaction is reverted).
func Forwarder(kind CallKind, target common.Address, bubble, preStore bool) []byte {
	a := NewAsm()
	if preStore {
		a.Push(1).Push(1).Op(opSSTORE)
	}
	a.Op(opCALLDATASIZE).Push(0).Push(0).Op(opCALLDATACOPY)
	emitCall(a, kind, target, true, func(a *Asm) { a.Op(opCALLDATASIZE) })
	// stack: success
	if bubble {
		a.Op(opRETURNDATASIZE).Push(0).Push(0).Op(opRETURNDATACOPY)
		a.PushLabel("ok").Op(opJUMPI)
		a.Op(opRETURNDATASIZE).Push(0).Op(opREVERT)
		a.Label("ok").Op(opRETURNDATASIZE).Push(0).Op(opRETURN)
	} else {
		a.Push(0).Op(opMSTORE) // mem[0:32] = success
		a.Op(opRETURNDATASIZE).Push(0).Push(32).Op(opRETURNDATACOPY)
		a.Push(32).Op(opRETURNDATASIZE, opADD).Push(0).Op(opRETURN)
	}
	return a.Bytes()
}

// Step is one embedded call of a Multicall contract.
type Step struct {
	Kind      CallKind
	Target    common.Address
	Data      []byte
	Value     uint64 // wei sent with CALL (taken from the contract's balance)
	MustOK    bool   // revert the whole transaction when this call fails
	ThenStore uint64 // when non-zero: SSTORE(slot, 1) after the call
}

// Multicall returns runtime code performing the embedded steps in order.
func Multicall(steps []Step) []byte {
	a := NewAsm()
	for i, s := range steps {
		d := fmt.Sprintf("d%d", i)
		a.Push(uint64(len(s.Data))).PushLabel(d).Push(0).Op(opCODECOPY)
		a.Push(0).Push(0).Push(uint64(len(s.Data))).Push(0)
		switch s.Kind {
		case KindCall:
			a.Push(s.Value).PushBytes(s.Target.Bytes()).Op(opGAS, opCALL)
		case KindDelegateCall:
			a.PushBytes(s.Target.Bytes()).Op(opGAS, opDELEGATECALL)
		case KindStaticCall:
			a.PushBytes(s.Target.Bytes()).Op(opGAS, opSTATICCALL)
		}
		if s.MustOK {
			ok := fmt.Sprintf("ok%d", i)
			a.PushLabel(ok).Op(opJUMPI)
			a.Op(opRETURNDATASIZE).Push(0).Push(0).Op(opRETURNDATACOPY)
			a.Op(opRETURNDATASIZE).Push(0).Op(opREVERT)
			a.Label(ok)
		} else {
			a.Op(opPOP)
		}
		if s.ThenStore != 0 {
			a.Push(1).Push(s.ThenStore).Op(opSSTORE)
		}
	}
	a.Op(opSTOP)
	for i, s := range steps {
		a.Mark(fmt.Sprintf("d%d", i)).Data(s.Data)
	}
	return a.Bytes()
}

// Emitter returns runtime code that emits one log with the given topics and
// data on every call and then stops (look-alike events).
func Emitter(topics []common.Hash, data []byte) []byte {
	a := NewAsm()
	a.Push(uint64(len(data))).PushLabel("d").Push(0).Op(opCODECOPY)
	for i := len(topics) - 1; i >= 0; i-- {
		a.PushBytes(topics[i].Bytes())
	}
	a.Push(uint64(len(data))).Push(0).Op(byte(opLOG0 + len(topics)))
	a.Op(opSTOP)
	a.Mark("d").Data(data)
	return a.Bytes()
}

// Reverter returns runtime code that always reverts.
func Reverter() []byte { return NewAsm().Push(0).Push(0).Op(opREVERT).Bytes() }

// Counter returns runtime code that increments storage slot 0 on every call
// and returns nothing (used as acknowledgement-callback probe: any calldata accepted).
func Counter() []byte {
	return NewAsm().Push(0).Op(opSLOAD).Push(1).Op(opADD).Push(0).Op(opSSTORE, opSTOP).Bytes()
}

// GasBurner returns runtime code that loops until out of gas.
func GasBurner() []byte {
	return NewAsm().Label("l").PushLabel("l").Op(opJUMP).Bytes()
}

// ReturnWord returns runtime code that returns the given 32-byte word.
func ReturnWord(w common.Hash) []byte {
	return NewAsm().PushBytes(w.Bytes()).Push(0).Op(opMSTORE).Push(32).Push(0).Op(opRETURN).Bytes()
}

// BonusToken is the runtime code of a small hand-assembled ERC-20 (balanceOf, transfer, totalSupply, name, symbol,
// decimals, mint(address,uint256), setBonus(uint256)) whose transfer moves amount + bonus from the caller to the
// recipient. With bonus 0 it is an honest token; once its owner sets a bonus it OVER-delivers on every transfer (and
// reports balances truthfully), the mirror image of a fee-taking token. Storage follows the Solidity convention
// (mapping _balances at slot 0, _totalSupply at slot 2; the bonus at slot 7). No events are emitted.
func BonusToken() []byte {
	const (
		SHA3         = 0x20
		CALLDATALOAD = 0x35
		SHR          = 0x1c
		EQ           = 0x14
		LT           = 0x10
		SUB          = 0x03
		CALLER       = 0x33
		SWAP1        = 0x90
		DUP2         = 0x81
		DUP3         = 0x82
	)
	a := NewAsm()
	a.Push(0).Op(CALLDATALOAD).Push(0xe0).Op(SHR)
	sel := func(s uint32, label string) {
		a.Op(opDUP1).PushBytes([]byte{byte(s >> 24), byte(s >> 16), byte(s >> 8), byte(s)}).Op(EQ).PushLabel(label).Op(opJUMPI)
	}
	sel(0x70a08231, "balanceOf")
	sel(0xa9059cbb, "transfer")
	sel(0x18160ddd, "total")
	sel(0x313ce567, "decimals")
	sel(0x06fdde03, "name")
	sel(0x95d89b41, "name")
	sel(0x40c10f19, "mint")
	sel(BonusSetSelector, "setbonus")
	sel(BonusLieSelector, "setlie")
	a.Push(0).Op(opDUP1, opREVERT)
	ret32 := func() { a.Push(0).Op(opMSTORE).Push(32).Push(0).Op(opRETURN) }
	// slotOf: [.., holder] -> [.., keccak256(holder . 0)]
	slotOf := func() { a.Push(0).Op(opMSTORE).Push(0).Push(32).Op(opMSTORE).Push(64).Push(0).Op(SHA3) }
	a.Label("balanceOf").Push(4).Op(CALLDATALOAD)
	slotOf()
	a.Op(opSLOAD)
	ret32()
	a.Label("total").Push(2).Op(opSLOAD)
	ret32()
	a.Label("decimals").Push(18)
	ret32()
	str := make([]byte, 32)
	copy(str, "BNS")
	a.Label("name").Push(0x20).Push(0).Op(opMSTORE).Push(3).Push(0x20).Op(opMSTORE).PushBytes(str).Push(0x40).Op(opMSTORE).Push(0x60).Push(0).Op(opRETURN)
	a.Label("mint").Push(36).Op(CALLDATALOAD).Push(4).Op(CALLDATALOAD)
	slotOf()
	a.Op(opDUP1, opSLOAD, DUP3, opADD, SWAP1, opSSTORE)
	a.Push(2).Op(opSLOAD, opADD).Push(2).Op(opSSTORE).Push(1)
	ret32()
	a.Label("setbonus").Push(4).Op(CALLDATALOAD).Push(7).Op(opSSTORE, opSTOP)
	// lie mode (slot 9): 0 = honest return value, 1 = transfer moves the tokens and returns false, 2 = transfer moves nothing
	// and returns false (old-style tokens signal failure by their return value instead of reverting)
	a.Label("setlie").Push(4).Op(CALLDATALOAD).Push(9).Op(opSSTORE, opSTOP)
	a.Label("refuse").Push(0)
	ret32()
	a.Label("transfer").Push(9).Op(opSLOAD).Push(2).Op(EQ).PushLabel("refuse").Op(opJUMPI)
	a.Push(36).Op(CALLDATALOAD).Push(7).Op(opSLOAD, opADD) // delta
	a.Op(CALLER)
	slotOf()
	a.Op(opDUP1, opSLOAD)                              // delta cslot balc
	a.Op(DUP3, DUP2, LT).PushLabel("fail").Op(opJUMPI) // balc < delta -> fail
	a.Op(DUP3, SWAP1, SUB, SWAP1, opSSTORE)            // balances[caller] = balc - delta; stack: delta
	a.Push(4).Op(CALLDATALOAD)
	slotOf()
	a.Op(opDUP1, opSLOAD, DUP3, opADD, SWAP1, opSSTORE, opPOP) // balances[to] += delta
	a.Push(9).Op(opSLOAD, 0x15)                                // ISZERO(lie): true unless the token lies
	ret32()
	a.Label("fail").Push(0).Op(opDUP1, opREVERT)
	return a.Bytes()
}

// BonusSetSelector is the selector of BonusToken's setBonus(uint256).
const BonusSetSelector = 0x0b0b0b0b

// BonusLieSelector is the selector of BonusToken's setLie(uint256) (see the lie modes in BonusToken).
const BonusLieSelector = 0x0c0c0c0c
