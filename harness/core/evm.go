package core

import (
	"fmt"
	"math/big"
	"strconv"
	"strings"

	abci "github.com/tendermint/tendermint/abci/types"

	sdk "github.com/cosmos/cosmos-sdk/types"
	"github.com/ethereum/go-ethereum/accounts/abi"
	"github.com/ethereum/go-ethereum/common"
	ethtypes "github.com/ethereum/go-ethereum/core/types"
	"github.com/ethereum/go-ethereum/crypto"
	"github.com/gogo/protobuf/proto"
	"github.com/tharsis/ethermint/server/config"
	evmtypes "github.com/tharsis/ethermint/x/evm/types"

	erc20contracts "github.com/teleport-network/teleport/syscontracts/erc20"
	endpointcontract "github.com/teleport-network/teleport/syscontracts/xibc_endpoint"
	packetcontract "github.com/teleport-network/teleport/syscontracts/xibc_packet"
	aggregatetypes "github.com/teleport-network/teleport/x/aggregate/types"
	packettypes "github.com/teleport-network/teleport/x/xibc/core/packet/types"
)

// Well-known addresses.
var (
	PacketAddr   = packetcontract.PacketContractAddress
	EndpointAddr = endpointcontract.EndpointContractAddress
	ExecuteAddr  = endpointcontract.ExecuteContractAddress
	PacketABI    = packetcontract.PacketContract.ABI
	EndpointABI  = endpointcontract.EndpointContract.ABI
	ExecuteABI   = endpointcontract.ExecuteContract.ABI
	ERC20ABI     = erc20contracts.ERC20MinterBurnerDecimalsContract.ABI
	ZeroAddr     = common.Address{}
)

// EthCall executes a message call on ctx. With commit=false nothing is written.
func (n *Node) EthCall(ctx sdk.Context, from common.Address, to *common.Address, value *big.Int, data []byte, commit bool) (*evmtypes.MsgEthereumTxResponse, error) {
	if value == nil {
		value = big.NewInt(0)
	}
	nonce := n.App.EvmKeeper.GetNonce(ctx, from)
	msg := ethtypes.NewMessage(from, to, nonce, value, config.DefaultGasCap, big.NewInt(0), big.NewInt(0), big.NewInt(0), data, ethtypes.AccessList{}, false)
	return n.App.EvmKeeper.ApplyMessage(ctx, msg, evmtypes.NewNoOpTracer(), commit)
}

// View calls a contract method on a discarded branch of the current state and
// unpacks the result.
func (n *Node) View(a abi.ABI, contract common.Address, method string, args ...interface{}) ([]interface{}, error) {
	return n.ViewAt(n.ViewCtx(), a, contract, method, args...)
}

// ViewAt is View on a caller-supplied context (never committed).
func (n *Node) ViewAt(ctx sdk.Context, a abi.ABI, contract common.Address, method string, args ...interface{}) ([]interface{}, error) {
	data, err := a.Pack(method, args...)
	if err != nil {
		return nil, err
	}
	cctx, _ := ctx.CacheContext()
	res, err := n.EthCall(cctx, aggregatetypes.ModuleAddress, &contract, nil, data, false)
	if err != nil {
		return nil, err
	}
	if res.Failed() {
		return nil, fmt.Errorf("view %s reverted: %s", method, res.VmError)
	}
	return a.Unpack(method, res.Ret)
}

// MustView panics on error (world construction / observation of system contracts).
func (n *Node) MustView(a abi.ABI, contract common.Address, method string, args ...interface{}) []interface{} {
	out, err := n.View(a, contract, method, args...)
	if err != nil {
		panic(fmt.Sprintf("view %s: %v", method, err))
	}
	return out
}

// ERC20Balance returns balanceOf(holder).
func (n *Node) ERC20Balance(token, holder common.Address) *big.Int {
	out, err := n.View(ERC20ABI, token, "balanceOf", holder)
	if err != nil {
		return big.NewInt(-1)
	}
	return out[0].(*big.Int)
}

// ERC20Supply returns totalSupply().
func (n *Node) ERC20Supply(token common.Address) *big.Int {
	out, err := n.View(ERC20ABI, token, "totalSupply")
	if err != nil {
		return big.NewInt(-1)
	}
	return out[0].(*big.Int)
}

// OutTokens returns endpoint.outTokens(token, dst).
func (n *Node) OutTokens(token common.Address, dst string) *big.Int {
	return n.MustView(EndpointABI, EndpointAddr, "outTokens", token, dst)[0].(*big.Int)
}

// Binding is the endpoint's binding record of a token for an origin chain.
type Binding struct {
	OriChain string
	OriToken string
	Amount   *big.Int
	Scale    uint8
	Bound    bool
}

// Bindings returns endpoint.bindings(token/oriChain).
func (n *Node) Bindings(token common.Address, oriChain string) Binding {
	out := n.MustView(EndpointABI, EndpointAddr, "bindings", strings.ToLower(token.String())+"/"+oriChain)
	return Binding{OriChain: out[0].(string), OriToken: out[1].(string), Amount: out[2].(*big.Int), Scale: out[3].(uint8), Bound: out[4].(bool)}
}

// AckStatus returns packet.getAckStatus(dst, seq).
func (n *Node) AckStatus(dst string, seq uint64) uint8 {
	return n.MustView(PacketABI, PacketAddr, "getAckStatus", dst, seq)[0].(uint8)
}

// ContractNextSeq returns packet.getNextSequenceSend(dst).
func (n *Node) ContractNextSeq(dst string) uint64 {
	return n.MustView(PacketABI, PacketAddr, "getNextSequenceSend", dst)[0].(uint64)
}

// PacketFee returns packet.packetFees(dst/seq).
func (n *Node) PacketFee(dst string, seq uint64) (common.Address, *big.Int) {
	out := n.MustView(PacketABI, PacketAddr, "packetFees", []byte(dst+"/"+strconv.FormatUint(seq, 10)))
	return out[0].(common.Address), out[1].(*big.Int)
}

// BankBalance returns the bank balance of an EVM address in the bond denom.
func (n *Node) BankBalance(addr common.Address) *big.Int {
	return n.App.BankKeeper.GetBalance(n.ViewCtx(), sdk.AccAddress(addr.Bytes()), BondDenom).Amount.BigInt()
}

// EthResult is the decoded outcome of a delivered MsgEthereumTx.
type EthResult struct {
	Code    uint32
	Log     string
	VmError string
	Ret     []byte
	Logs    []*ethtypes.Log
	GasUsed uint64
	Events  []abci.Event
}

// OK reports whether the transaction was included and the EVM did not fail.
func (r *EthResult) OK() bool { return r.Code == 0 && r.VmError == "" }

// DecodeEthResult extracts the MsgEthereumTxResponse from a DeliverTx response.
func DecodeEthResult(res abci.ResponseDeliverTx) *EthResult {
	out := &EthResult{Code: res.Code, Log: res.Log, Events: res.Events}
	if res.Code != 0 {
		return out
	}
	var txData sdk.TxMsgData
	if err := proto.Unmarshal(res.Data, &txData); err != nil || len(txData.Data) == 0 {
		out.VmError = "undecodable result"
		return out
	}
	var rsp evmtypes.MsgEthereumTxResponse
	if err := proto.Unmarshal(txData.Data[0].Data, &rsp); err != nil {
		out.VmError = "undecodable response"
		return out
	}
	out.VmError = rsp.VmError
	out.Ret = rsp.Ret
	out.GasUsed = rsp.GasUsed
	out.Logs = evmtypes.LogsToEthereum(rsp.Logs)
	return out
}

// DeployAs deploys init code from an address through a module-style call on
// the current deliver context (world construction only).
func (n *Node) DeployAs(from common.Address, initCode []byte) (common.Address, error) {
	ctx := n.Ctx()
	nonce := n.App.EvmKeeper.GetNonce(ctx, from)
	addr := crypto.CreateAddress(from, nonce)
	res, err := n.App.AggregateKeeper.CallEVMWithData(ctx, from, nil, initCode)
	if err != nil {
		return addr, err
	}
	if res.Failed() {
		return addr, fmt.Errorf("deploy failed: %s", res.VmError)
	}
	return addr, nil
}

// DeployRuntime deploys the given runtime code via a generated constructor.
func (n *Node) DeployRuntime(from common.Address, runtime []byte) (common.Address, error) {
	return n.DeployAs(from, InitCode(runtime))
}

// DeployERC20 deploys the repository's ERC20MinterBurnerDecimals from the
// endpoint contract address (so that the endpoint holds minter/burner roles),
// exactly as the repository's integration tests do.
func (n *Node) DeployERC20(name, symbol string, decimals uint8) (common.Address, error) {
	ctor, err := ERC20ABI.Pack("", name, symbol, decimals)
	if err != nil {
		return common.Address{}, err
	}
	code := append(append([]byte{}, erc20contracts.ERC20MinterBurnerDecimalsContract.Bin...), ctor...)
	return n.DeployAs(EndpointAddr, code)
}

// CallAs performs a committed module-style call from an arbitrary address
// (world construction only; requires the from account to exist).
func (n *Node) CallAs(from, to common.Address, data []byte) error {
	res, err := n.App.AggregateKeeper.CallEVMWithData(n.Ctx(), from, &to, data)
	if err != nil {
		return err
	}
	if res.Failed() {
		return fmt.Errorf("call failed: %s", res.VmError)
	}
	return nil
}

// MinterRole is keccak256("MINTER_ROLE").
var MinterRole = common.BytesToHash(crypto.Keccak256([]byte("MINTER_ROLE")))

// MintERC20 grants the minter role to the endpoint-deployed token's deployer
// (already has it) and mints amount to holder.
func (n *Node) MintERC20(token, holder common.Address, amount *big.Int) error {
	data, err := ERC20ABI.Pack("mint", holder, amount)
	if err != nil {
		return err
	}
	return n.CallAs(EndpointAddr, token, data)
}

// PacketSentBytes extracts the packet bytes of every PacketSent log emitted by
// the packet contract in a result.
func PacketSentBytes(logs []*ethtypes.Log) [][]byte {
	var out [][]byte
	ev := PacketABI.Events[packettypes.PacketSendEvent]
	for _, l := range logs {
		if l.Address != PacketAddr || len(l.Topics) == 0 || l.Topics[0] != ev.ID {
			continue
		}
		vals, err := PacketABI.Unpack(packettypes.PacketSendEvent, l.Data)
		if err != nil || len(vals) == 0 {
			continue
		}
		out = append(out, vals[0].([]byte))
	}
	return out
}
