// Package core holds the common machinery of the runtime monitors: the Run
// object (seed, tier, evidence, violations, known findings, replay files), the
// deterministic ABCI node driver, the multi-chain world, EVM helpers and the
// store dumper.
package core

import (
	"crypto/sha256"
	"encoding/binary"
	"encoding/hex"
	"encoding/json"
	"fmt"
	"math/rand"
	"os"
	"path/filepath"
	"sort"
	"strconv"
	"strings"
	"sync"
	"sync/atomic"
	"testing"
	"time"
)

// VerifDir is the root of the verification tree (evidence, replays, known findings).
func VerifDir() string {
	if d := os.Getenv("VERIF_DIR"); d != "" {
		return d
	}
	return "/verif"
}

// RepoDir is the repository the monitors were built against (for test data).
func RepoDir() string {
	if d := os.Getenv("VERIF_REPO"); d != "" {
		return d
	}
	return "/repo"
}

// EvidenceDir is where the evidence file is written.
func EvidenceDir() string {
	if d := os.Getenv("VERIF_EVIDENCE_DIR"); d != "" {
		return d
	}
	return filepath.Join(VerifDir(), "evidence")
}

// KnownFinding is one entry of known_findings.json.
type KnownFinding struct {
	Property    string `json:"property"`
	Key         string `json:"key"`
	Description string `json:"description"`
}

type knownFile struct {
	Findings []KnownFinding `json:"findings"`
	Fixed    []string       `json:"fixed"`
}

// Violation is one refuted case.
type Violation struct {
	Key    string      `json:"key"`
	Detail interface{} `json:"detail"`
	Replay string      `json:"replay"`
}

// Run collects what one check execution observed.
type Run struct {
	T        *testing.T
	ID       string
	Tier     string
	Seed     int64
	Level    string
	Rule     string
	start    time.Time
	mu       sync.Mutex
	evals    int
	distinct map[string]struct{}
	samples  []interface{}
	counts   map[string]int64
	extra    map[string]interface{}
	assume   []string
	viol     []Violation
	known    map[string]KnownFinding
	knownHit map[string]int
	replay   *ReplaySpec
	minNT    int
	inconcl  []string
	maxViol  int
	violKeys map[string]int
}

// ReplaySpec is the content of a replay file: enough to re-run exactly one case.
type ReplaySpec struct {
	Property string      `json:"property"`
	Seed     int64       `json:"seed"`
	Tier     string      `json:"tier"`
	Case     string      `json:"case"`
	Key      string      `json:"key"`
	Detail   interface{} `json:"detail"`
}

// NewRun reads VERIF_SEED / VERIF_TIER / VERIF_REPLAY and the known findings.
func NewRun(t *testing.T, id string) *Run {
	r := &Run{
		T: t, ID: id, Tier: "quick", Seed: 1, Level: "exploration", start: time.Now(),
		distinct: map[string]struct{}{}, counts: map[string]int64{}, extra: map[string]interface{}{},
		known: map[string]KnownFinding{}, knownHit: map[string]int{}, minNT: 2, maxViol: 40, violKeys: map[string]int{},
	}
	if s := os.Getenv("VERIF_TIER"); s == "thorough" {
		r.Tier = "thorough"
	}
	if s := os.Getenv("VERIF_SEED"); s != "" {
		if v, err := strconv.ParseInt(s, 10, 64); err == nil {
			r.Seed = v
		}
	}
	if f := os.Getenv("VERIF_REPLAY"); f != "" {
		bz, err := os.ReadFile(f)
		if err != nil {
			t.Fatalf("cannot read replay file: %v", err)
		}
		var spec ReplaySpec
		if err := json.Unmarshal(bz, &spec); err != nil {
			t.Fatalf("bad replay file: %v", err)
		}
		r.replay = &spec
		r.Seed = spec.Seed
		if spec.Tier != "" {
			r.Tier = spec.Tier
		}
	}
	bz, err := os.ReadFile(filepath.Join(VerifDir(), "known_findings.json"))
	if err == nil {
		var kf knownFile
		if err := json.Unmarshal(bz, &kf); err != nil {
			t.Fatalf("known_findings.json: %v", err)
		}
		for _, f := range kf.Findings {
			if f.Property == id {
				r.known[f.Key] = f
			}
		}
	}
	return r
}

// Thorough reports whether the thorough tier was requested.
func (r *Run) Thorough() bool { return r.Tier == "thorough" }

// N picks a bound by tier.
func (r *Run) N(quick, thorough int) int {
	if r.Thorough() {
		return thorough
	}
	return quick
}

// Want reports whether the case with this id should be executed (always true
// unless a replay file narrows the run to one case).
func (r *Run) Want(caseID string) bool {
	return r.replay == nil || r.replay.Case == "" || r.replay.Case == caseID
}

// Replaying reports whether the run is a replay of a recorded case.
func (r *Run) Replaying() bool { return r.replay != nil }

// Rng returns a PRNG that depends only on (seed, caseID).
func (r *Run) Rng(caseID string) *rand.Rand {
	h := sha256.Sum256([]byte(fmt.Sprintf("%s/%d/%s", r.ID, r.Seed, caseID)))
	return rand.New(rand.NewSource(int64(binary.BigEndian.Uint64(h[:8]))))
}

// Eval counts one evaluated case. key identifies the case for distinctness; a
// case is added to distinct_nontrivial only when nontrivial is true.
func (r *Run) Eval(key string, nontrivial bool) {
	r.mu.Lock()
	defer r.mu.Unlock()
	r.evals++
	if nontrivial {
		h := sha256.Sum256([]byte(key))
		r.distinct[string(h[:12])] = struct{}{}
	}
}

// Count adds to a named monitor counter reported in the evidence.
func (r *Run) Count(name string, n int) {
	r.mu.Lock()
	r.counts[name] += int64(n)
	r.mu.Unlock()
}

// Sample records a case written out in the evidence (bounded).
func (r *Run) Sample(v interface{}) {
	r.mu.Lock()
	if len(r.samples) < 12 {
		r.samples = append(r.samples, v)
	}
	r.mu.Unlock()
}

// Set stores an extra evidence key.
func (r *Run) Set(k string, v interface{}) { r.mu.Lock(); r.extra[k] = v; r.mu.Unlock() }

// Assume records an assumption.
func (r *Run) Assume(s string) { r.assume = append(r.assume, s) }

// MinNontrivial sets the floor under which the run is inconclusive.
func (r *Run) MinNontrivial(n int) { r.minNT = n }

// Inconclusive marks the run as undecided (exit code 2).
func (r *Run) Inconclusive(format string, a ...interface{}) {
	r.mu.Lock()
	r.inconcl = append(r.inconcl, fmt.Sprintf(format, a...))
	r.mu.Unlock()
}

// Violation reports a refuted case. key is the specific signature matched
// against known_findings.json; caseID is what a replay needs to re-run it.
func (r *Run) Violation(caseID, key string, detail interface{}) {
	r.mu.Lock()
	defer r.mu.Unlock()
	if kf, ok := r.known[key]; ok {
		if r.knownHit[key] == 0 {
			fmt.Printf("KNOWN-FINDING: property=%s %s (%s)\n", r.ID, key, kf.Description)
		}
		r.knownHit[key]++
		return
	}
	r.violKeys[key]++
	if r.violKeys[key] > 1 || len(r.viol) >= r.maxViol {
		// one witness per distinct signature; the rest is only counted
		return
	}
	dir := filepath.Join(VerifDir(), "replays")
	_ = os.MkdirAll(dir, 0o755)
	name := fmt.Sprintf("%s-%d-%d.json", r.ID, r.Seed, len(r.viol)+1)
	path := filepath.Join(dir, name)
	spec := ReplaySpec{Property: r.ID, Seed: r.Seed, Tier: r.Tier, Case: caseID, Key: key, Detail: detail}
	bz, _ := json.MarshalIndent(spec, "", " ")
	_ = os.WriteFile(path, bz, 0o644)
	r.viol = append(r.viol, Violation{Key: key, Detail: detail, Replay: path})
	fmt.Printf("VIOLATION property=%s replay=%s\n", r.ID, path)
	fmt.Printf("  key=%s detail=%s\n", key, trunc(string(mustJSON(detail)), 600))
}

// Violations returns how many unlisted violations were seen.
func (r *Run) Violations() int { r.mu.Lock(); defer r.mu.Unlock(); return len(r.viol) }

func mustJSON(v interface{}) []byte {
	bz, err := json.Marshal(v)
	if err != nil {
		return []byte(fmt.Sprintf("%q", fmt.Sprintf("%+v", v)))
	}
	return bz
}

func trunc(s string, n int) string {
	if len(s) > n {
		return s[:n] + "..."
	}
	return s
}

// Finish writes the evidence file and sets the process verdict:
// exit 0 held, exit 1 violation (VIOLATION lines already printed), exit 2
// inconclusive.
func (r *Run) Finish() {
	r.mu.Lock()
	cov := map[string]interface{}{
		"evaluations":         r.evals,
		"distinct_nontrivial": len(r.distinct),
		"rule":                r.Rule,
		"samples":             r.samples,
	}
	keys := make([]string, 0, len(r.counts))
	for k := range r.counts {
		keys = append(keys, k)
	}
	sort.Strings(keys)
	cnt := map[string]int64{}
	for _, k := range keys {
		cnt[k] = r.counts[k]
	}
	cov["monitor_counts"] = cnt
	for k, v := range r.extra {
		cov[k] = v
	}
	kh := map[string]int{}
	for k, v := range r.knownHit {
		kh[k] = v
	}
	cov["known_findings_hit"] = kh
	vk := map[string]int{}
	for k, v := range r.violKeys {
		vk[k] = v
	}
	cov["violations_by_signature"] = vk
	if len(r.samples) == 0 {
		cov["samples"] = []interface{}{"(no case reached sampling)"}
	}
	ev := map[string]interface{}{
		"property_id": r.ID,
		"tier":        r.Tier,
		"seed":        r.Seed,
		"level":       r.Level,
		"coverage":    cov,
		"assumptions": append([]string{}, r.assume...),
		"wall_s":      time.Since(r.start).Seconds(),
		"violations":  len(r.viol),
	}
	nviol := len(r.viol)
	nd := len(r.distinct)
	inc := append([]string{}, r.inconcl...)
	r.mu.Unlock()

	if r.replay == nil {
		dir := EvidenceDir()
		_ = os.MkdirAll(dir, 0o755)
		bz, _ := json.MarshalIndent(ev, "", " ")
		if err := os.WriteFile(filepath.Join(dir, r.ID+".json"), bz, 0o644); err != nil {
			fmt.Printf("INCONCLUSIVE property=%s cannot write evidence: %v\n", r.ID, err)
			os.Exit(2)
		}
	}
	fmt.Printf("SUMMARY property=%s tier=%s seed=%d evaluations=%d distinct_nontrivial=%d violations=%d known=%d wall=%.1fs\n",
		r.ID, r.Tier, r.Seed, r.evals, nd, nviol, len(kh), time.Since(r.start).Seconds())
	var cs []string
	for _, k := range keys {
		cs = append(cs, fmt.Sprintf("%s=%d", k, cnt[k]))
	}
	fmt.Printf("  counts: %s\n", strings.Join(cs, " "))
	if nviol > 0 {
		os.Exit(1)
	}
	if r.replay == nil && nd < r.minNT {
		inc = append(inc, fmt.Sprintf("only %d distinct non-trivial cases observed (floor %d)", nd, r.minNT))
	}
	if len(inc) > 0 {
		for _, s := range inc {
			fmt.Printf("INCONCLUSIVE property=%s %s\n", r.ID, s)
		}
		os.Exit(2)
	}
}

// Hex is a short helper for evidence/replay details.
func Hex(b []byte) string { return hex.EncodeToString(b) }

// Catch runs f and converts a panic into an error (used around direct keeper
// calls on judged paths so that one panic does not end the monitor).
func Catch(f func() error) (err error, panicked bool) {
	defer func() {
		if rec := recover(); rec != nil {
			err = fmt.Errorf("PANIC: %v", rec)
			panicked = true
		}
	}()
	return f(), false
}

var childCoverN int32

// ChildCoverArgs returns the extra test-binary arguments that make a child process (a re-execution of this test binary)
// write its own coverage profile, when the monitor itself runs in coverage mode (./check with VERIF_COVER=1).
func ChildCoverArgs() []string {
	dir := os.Getenv("VERIF_CHILD_COVER_PREFIX")
	if dir == "" {
		return nil
	}
	n := atomic.AddInt32(&childCoverN, 1)
	return []string{fmt.Sprintf("-test.coverprofile=%s.child%d.%d.cover", dir, os.Getpid(), n)}
}

// KnownHits returns how many violations matched an entry of known_findings.json so far.
func (r *Run) KnownHits() int {
	r.mu.Lock()
	defer r.mu.Unlock()
	n := 0
	for _, v := range r.knownHit {
		n += v
	}
	return n
}
