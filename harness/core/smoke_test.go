package core

import (
	"fmt"
	"math/big"
	"strings"
	"testing"
	"time"

	packettypes "github.com/teleport-network/teleport/x/xibc/core/packet/types"
)

func TestSmokeWorld(t *testing.T) {
	st := time.Now()
	w := NewWorld(WorldConfig{Chains: 3})
	fmt.Println("world built in", time.Since(st))
	a, b := w.Nodes[0], w.Nodes[1]
	tok, err := w.NewToken("t1", a, false, 0, big.NewInt(1_000_000))
	if err != nil {
		t.Fatal(err)
	}
	w.Roll(a)
	w.Roll(b)
	u := w.Users[0]
	fmt.Println("bal", a.ERC20Balance(tok.Addr, u.Eth), "nextseq contract", a.ContractNextSeq(b.Name), "keeper", a.App.XIBCKeeper.PacketKeeper.GetNextSequenceSend(a.Ctx(), a.Name, b.Name))
	d := packettypes.CrossChainData{DstChain: b.Name, TokenAddress: tok.Addr, Receiver: strings.ToLower(w.Users[1].Eth.String()), Amount: big.NewInt(1000), CallData: []byte{}}
	fee := packettypes.Fee{TokenAddress: tok.Addr, Amount: big.NewInt(10)}
	tx, err := w.CrossChainTx(a, u, d, fee)
	if err != nil {
		t.Fatal(err)
	}
	before := a.Snap(a.Ctx())
	res := DecodeEthResult(a.Deliver(tx))
	after := a.Snap(a.Ctx())
	fmt.Println("ccc code", res.Code, "vmerr", res.VmError, "log", trunc(res.Log, 200), "gas", res.GasUsed)
	for _, de := range DiffSnap(before, after) {
		fmt.Println("  diff", de.Store, de.Key, de.Op)
	}
	sent := ParseSent(res)
	if len(sent) != 1 {
		t.Fatalf("sent %d", len(sent))
	}
	p := sent[0]
	fmt.Printf("packet %s sender=%s\n", p.Key(), p.Packet.Sender)
	w.Roll(a)
	r := w.Relayers[0]
	ph, err := w.CatchUp(b, a, r)
	if err != nil {
		t.Fatal(err)
	}
	msg, err := w.RecvMsg(a, p.Bytes, [3]string{p.Src, p.Dst, ""}, p.Packet.Sequence, ph, r)
	if err != nil {
		t.Fatal(err)
	}
	rr := w.DeliverMsgs(b, r, msg)
	fmt.Println("recv code", rr.Code, trunc(rr.Log, 300))
	acks := WriteAcks(rr.Events)
	fmt.Println("acks", len(acks), "recv events", len(RecvPackets(rr.Events)))
	fmt.Println("B wrapped bal", b.ERC20Balance(tok.Wrapped[b.Name], w.Users[1].Eth), "bindings", b.Bindings(tok.Wrapped[b.Name], a.Name).Amount, "out", a.OutTokens(tok.Addr, b.Name))
	w.Roll(b)
	ph2, err := w.CatchUp(a, b, r)
	if err != nil {
		t.Fatal(err)
	}
	am, err := w.AckMsg(b, p.Bytes, acks[0].Ack, p.Src, p.Dst, p.Packet.Sequence, ph2, r)
	if err != nil {
		t.Fatal(err)
	}
	ar := w.DeliverMsgs(a, r, am)
	fmt.Println("ack code", ar.Code, trunc(ar.Log, 300), "status", a.AckStatus(b.Name, 1))
	fmt.Println("relayer fee bal", a.ERC20Balance(tok.Addr, r.Eth))
	fmt.Println("total", time.Since(st))
}
