package core

import (
	"fmt"
	"math/big"
	"strings"

	abci "github.com/tendermint/tendermint/abci/types"

	sdk "github.com/cosmos/cosmos-sdk/types"
	"github.com/ethereum/go-ethereum/common"

	clienttypes "github.com/teleport-network/teleport/x/xibc/core/client/types"
	"github.com/teleport-network/teleport/x/xibc/core/host"
	packettypes "github.com/teleport-network/teleport/x/xibc/core/packet/types"
)

// Token is a bridged asset: an origin token (ERC-20 or the native coin when
// Addr is the zero address) and its wrapped ERC-20 on every other chain.
type Token struct {
	ID      string
	Origin  *Node
	Addr    common.Address
	Wrapped map[string]common.Address // chain name -> wrapped token
	Scale   map[string]uint8
}

// AddrOn returns the token's address on a chain (origin or wrapped).
func (t *Token) AddrOn(n *Node) common.Address {
	if n == t.Origin {
		return t.Addr
	}
	return t.Wrapped[n.Name]
}

// OriTokenString is the origin token as it appears in bindings / transfer data.
func (t *Token) OriTokenString() string { return strings.ToLower(t.Addr.String()) }

// NewToken deploys (unless native) the origin token, gives every user
// `mint` units approved for the endpoint, and deploys + binds a wrapped token
// on every other chain.
func (w *World) NewToken(id string, origin *Node, native bool, scale uint8, mint *big.Int) (*Token, error) {
	t := &Token{ID: id, Origin: origin, Wrapped: map[string]common.Address{}, Scale: map[string]uint8{}}
	if !native {
		addr, err := origin.DeployERC20("tok-"+id, strings.ToUpper(id), 18)
		if err != nil {
			return nil, err
		}
		t.Addr = addr
		for _, u := range w.Users {
			if err := origin.MintERC20(addr, u.Eth, mint); err != nil {
				return nil, err
			}
		}
	}
	for _, n := range w.Nodes {
		if n == origin {
			continue
		}
		wa, err := n.DeployERC20("w"+id, "W"+strings.ToUpper(id), 18)
		if err != nil {
			return nil, err
		}
		if err := n.App.AggregateKeeper.RegisterERC20Trace(n.Ctx(), wa, t.OriTokenString(), origin.Name, scale); err != nil {
			return nil, err
		}
		t.Wrapped[n.Name] = wa
		t.Scale[n.Name] = scale
	}
	// every user approves the endpoint on every chain for every representation
	maxU := new(big.Int).Sub(new(big.Int).Lsh(big.NewInt(1), 255), big.NewInt(1))
	for _, n := range w.Nodes {
		a := t.AddrOn(n)
		if a == ZeroAddr {
			continue
		}
		data, _ := ERC20ABI.Pack("approve", EndpointAddr, maxU)
		for _, u := range w.Users {
			if err := n.CallAs(u.Eth, a, data); err != nil {
				return nil, err
			}
		}
	}
	return t, nil
}

// CrossChainTx builds the signed endpoint.crossChainCall transaction.
func (w *World) CrossChainTx(n *Node, from *Account, d packettypes.CrossChainData, fee packettypes.Fee) ([]byte, error) {
	data, err := EndpointABI.Pack("crossChainCall", d, fee)
	if err != nil {
		return nil, err
	}
	value := big.NewInt(0)
	if d.TokenAddress == ZeroAddr && d.Amount != nil {
		value.Add(value, d.Amount)
	}
	if fee.TokenAddress == ZeroAddr && fee.Amount != nil {
		value.Add(value, fee.Amount)
	}
	to := EndpointAddr
	return n.EthTx(from, &to, value, 3_000_000, data)
}

// SentPacket is a packet emitted by a chain.
type SentPacket struct {
	Bytes  []byte
	Packet packettypes.Packet
	Src    string
	Dst    string
}

// Key identifies the packet triple.
func (p *SentPacket) Key() string { return fmt.Sprintf("%s/%s/%d", p.Src, p.Dst, p.Packet.Sequence) }

// ParseSent decodes PacketSent logs into SentPackets.
func ParseSent(res *EthResult) []*SentPacket {
	var out []*SentPacket
	for _, bz := range PacketSentBytes(res.Logs) {
		var p packettypes.Packet
		if err := p.ABIDecode(bz); err != nil {
			continue
		}
		out = append(out, &SentPacket{Bytes: bz, Packet: p, Src: p.SrcChain, Dst: p.DstChain})
	}
	return out
}

// RecvMsg builds MsgRecvPacket for packet bytes with a commitment proof taken
// from src at proofHeight.
func (w *World) RecvMsg(src *Node, packetBytes []byte, triple [3]string, seq uint64, proofHeight int64, signer *Account) (*packettypes.MsgRecvPacket, error) {
	key := host.PacketCommitmentKey(triple[0], triple[1], seq)
	proof, ph, err := w.Proof(src, key, proofHeight)
	if err != nil {
		return nil, err
	}
	return packettypes.NewMsgRecvPacket(packetBytes, proof, ph, signer.Acc), nil
}

// AckMsg builds MsgAcknowledgement with an ack proof taken from dst at proofHeight.
func (w *World) AckMsg(dst *Node, packetBytes, ack []byte, src, dstName string, seq uint64, proofHeight int64, signer *Account) (*packettypes.MsgAcknowledgement, error) {
	key := host.PacketAcknowledgementKey(src, dstName, seq)
	proof, ph, err := w.Proof(dst, key, proofHeight)
	if err != nil {
		return nil, err
	}
	return packettypes.NewMsgAcknowledgement(packetBytes, ack, proof, ph, signer.Acc), nil
}

// TypedEvents parses all typed events of a given proto type out of a result.
func TypedEvents(events []abci.Event, fullName string) []map[string]string {
	return EventAttrs(events, fullName)
}

// WriteAcks extracts (sequence, ack bytes) of EventWriteAck events.
func WriteAcks(events []abci.Event) []*packettypes.EventWriteAck {
	var out []*packettypes.EventWriteAck
	for _, e := range events {
		if e.Type != "teleport.xibc.core.packet.v1.EventWriteAck" && !strings.HasSuffix(e.Type, ".EventWriteAck") {
			continue
		}
		msg, err := sdk.ParseTypedEvent(e)
		if err != nil {
			continue
		}
		if wa, ok := msg.(*packettypes.EventWriteAck); ok {
			out = append(out, wa)
		}
	}
	return out
}

// SendPackets extracts EventSendPacket events.
func SendPackets(events []abci.Event) []*packettypes.EventSendPacket {
	var out []*packettypes.EventSendPacket
	for _, e := range events {
		if !strings.HasSuffix(e.Type, ".EventSendPacket") {
			continue
		}
		msg, err := sdk.ParseTypedEvent(e)
		if err != nil {
			continue
		}
		if v, ok := msg.(*packettypes.EventSendPacket); ok {
			out = append(out, v)
		}
	}
	return out
}

// RecvPackets extracts EventRecvPacket events.
func RecvPackets(events []abci.Event) []*packettypes.EventRecvPacket {
	var out []*packettypes.EventRecvPacket
	for _, e := range events {
		if !strings.HasSuffix(e.Type, ".EventRecvPacket") {
			continue
		}
		msg, err := sdk.ParseTypedEvent(e)
		if err != nil {
			continue
		}
		if v, ok := msg.(*packettypes.EventRecvPacket); ok {
			out = append(out, v)
		}
	}
	return out
}

// HeightOf is a small helper converting to the client height type.
func HeightOf(n *Node, h int64) clienttypes.Height {
	return clienttypes.NewHeight(n.Revision(), uint64(h))
}
