package core

import (
	"bytes"
	"crypto/sha256"
	"encoding/json"
	"fmt"
	"math/big"
	"os"
	"time"

	abci "github.com/tendermint/tendermint/abci/types"
	"github.com/tendermint/tendermint/crypto/tmhash"
	"github.com/tendermint/tendermint/libs/log"
	tmproto "github.com/tendermint/tendermint/proto/tendermint/types"
	tmprotoversion "github.com/tendermint/tendermint/proto/tendermint/version"
	tmtypes "github.com/tendermint/tendermint/types"
	"github.com/tendermint/tendermint/version"
	dbm "github.com/tendermint/tm-db"

	"github.com/cosmos/cosmos-sdk/client"
	codectypes "github.com/cosmos/cosmos-sdk/codec/types"
	cryptocodec "github.com/cosmos/cosmos-sdk/crypto/codec"
	"github.com/cosmos/cosmos-sdk/crypto/keys/ed25519"
	"github.com/cosmos/cosmos-sdk/simapp"
	sdk "github.com/cosmos/cosmos-sdk/types"
	"github.com/cosmos/cosmos-sdk/types/tx/signing"
	authsign "github.com/cosmos/cosmos-sdk/x/auth/signing"
	authtypes "github.com/cosmos/cosmos-sdk/x/auth/types"
	banktypes "github.com/cosmos/cosmos-sdk/x/bank/types"
	stakingtypes "github.com/cosmos/cosmos-sdk/x/staking/types"

	"github.com/ethereum/go-ethereum/common"
	ethtypes "github.com/ethereum/go-ethereum/core/types"

	"github.com/tharsis/ethermint/crypto/ethsecp256k1"
	"github.com/tharsis/ethermint/encoding"
	"github.com/tharsis/ethermint/tests"
	ethermint "github.com/tharsis/ethermint/types"
	evmtypes "github.com/tharsis/ethermint/x/evm/types"
	feemarkettypes "github.com/tharsis/ethermint/x/feemarket/types"

	"github.com/teleport-network/teleport/app"
	teletypes "github.com/teleport-network/teleport/types"
	xibctmtypes "github.com/teleport-network/teleport/x/xibc/clients/light-clients/tendermint/types"
	clienttypes "github.com/teleport-network/teleport/x/xibc/core/client/types"
	"github.com/teleport-network/teleport/x/xibc/testing/mock"
)

// Account is a deterministic ethsecp256k1 account.
type Account struct {
	Name string
	Priv *ethsecp256k1.PrivKey
	Acc  sdk.AccAddress
	Eth  common.Address
}

// NewAccount derives an account from a seed string.
func NewAccount(seed string) *Account {
	h := sha256.Sum256([]byte("verif-account/" + seed))
	priv := &ethsecp256k1.PrivKey{Key: h[:]}
	addr := priv.PubKey().Address().Bytes()
	return &Account{Name: seed, Priv: priv, Acc: sdk.AccAddress(addr), Eth: common.BytesToAddress(addr)}
}

// Bech32 returns the account's bech32 address.
func (a *Account) Bech32() string { return a.Acc.String() }

// NodeConfig describes one chain.
type NodeConfig struct {
	ChainID     string // tendermint / EVM chain id, e.g. teleport_9000-1
	XIBCName    string // native XIBC chain name
	NumVals     int
	ValPowers   []int64 // optional, len NumVals
	Accounts    []*Account
	GenesisTime time.Time
	// MutateGenesis may edit the genesis map before InitChain.
	MutateGenesis func(tp *app.Teleport, gs simapp.GenesisState)
	// BaseAppOptions are passed to NewTeleport.
	Logger log.Logger
}

// BlockRec remembers what is needed to sign a header for a committed height.
type BlockRec struct {
	Time    time.Time
	AppHash []byte // app hash in the header of this height (state after height-1)
}

// Node is a deterministic single-process chain driven only through ABCI.
type Node struct {
	Cfg      NodeConfig
	App      *app.Teleport
	ChainID  string
	Name     string
	TxConfig client.TxConfig
	Vals     *tmtypes.ValidatorSet
	Signers  []tmtypes.PrivValidator
	Accounts []*Account
	Header   tmproto.Header
	InBlock  bool
	Blocks   map[int64]BlockRec
	// InitReq is the InitChain request the chain was started from.
	InitReq abci.RequestInitChain
	// DB is the node's database (bare nodes only): Restart builds a new application over it.
	DB dbm.DB
	// Tape, when non-nil, records every block (header + txs) for replays.
	Tape *Tape
}

// Tape is a recorded block stream.
type Tape struct {
	Blocks []TapeBlock
}

// TapeBlock is one recorded block.
type TapeBlock struct {
	Header tmproto.Header
	Txs    [][]byte
}

// BondDenom is the staking/EVM denomination used by harness chains.
const BondDenom = "stake"

// DefaultFunds is the genesis balance of every harness account.
var DefaultFunds, _ = sdk.NewIntFromString("1000000000000000000000000000000")

func init() {
	sdk.DefaultPowerReduction = teletypes.PowerReduction
}

// NewNode builds the app, a genesis with the configured validators and funded
// accounts, runs InitChain and commits the genesis block.
func NewNode(cfg NodeConfig) *Node {
	if cfg.NumVals == 0 {
		cfg.NumVals = 1
	}
	if cfg.GenesisTime.IsZero() {
		cfg.GenesisTime = time.Date(2022, 1, 2, 0, 0, 0, 0, time.UTC)
	}
	if cfg.Logger == nil {
		cfg.Logger = log.NewNopLogger()
		if os.Getenv("VERIF_NODE_LOG") != "" {
			cfg.Logger = log.NewTMLogger(log.NewSyncWriter(os.Stdout))
		}
	}
	encCfg := encoding.MakeConfig(app.ModuleBasics)
	tp := app.NewTeleport(cfg.Logger, dbm.NewMemDB(), nil, true, map[int64]bool{}, app.DefaultNodeHome, 0, encCfg, simapp.EmptyAppOptions{})
	gs := app.NewDefaultGenesisState()

	// validators
	var vals []*tmtypes.Validator
	var signers []tmtypes.PrivValidator
	signerByAddr := map[string]tmtypes.PrivValidator{}
	for i := 0; i < cfg.NumVals; i++ {
		pv := mock.PV{PrivKey: ed25519.GenPrivKeyFromSecret([]byte(fmt.Sprintf("verif-val/%s/%d", cfg.ChainID, i)))}
		pk, _ := pv.GetPubKey()
		power := int64(1)
		if i < len(cfg.ValPowers) {
			power = cfg.ValPowers[i]
		}
		v := tmtypes.NewValidator(pk, power)
		vals = append(vals, v)
		signerByAddr[string(v.Address)] = pv
	}
	valSet := tmtypes.NewValidatorSet(vals)
	for _, v := range valSet.Validators {
		signers = append(signers, signerByAddr[string(v.Address)])
	}

	// accounts
	var genAccs []authtypes.GenesisAccount
	var balances []banktypes.Balance
	total := sdk.NewCoins()
	for _, a := range cfg.Accounts {
		genAccs = append(genAccs, authtypes.NewBaseAccount(a.Acc, nil, 0, 0))
		c := sdk.NewCoins(sdk.NewCoin(BondDenom, DefaultFunds))
		balances = append(balances, banktypes.Balance{Address: a.Acc.String(), Coins: c})
		total = total.Add(c...)
	}
	gs[authtypes.ModuleName] = tp.AppCodec().MustMarshalJSON(authtypes.NewGenesisState(authtypes.DefaultParams(), genAccs))

	bondAmt := sdk.NewInt(1e16)
	var sv []stakingtypes.Validator
	var dels []stakingtypes.Delegation
	bonded := sdk.ZeroInt()
	for _, val := range valSet.Validators {
		pk, err := cryptocodec.FromTmPubKeyInterface(val.PubKey)
		if err != nil {
			panic(err)
		}
		pkAny, err := codectypes.NewAnyWithValue(pk)
		if err != nil {
			panic(err)
		}
		tokens := bondAmt.MulRaw(val.VotingPower)
		sv = append(sv, stakingtypes.Validator{
			OperatorAddress: sdk.ValAddress(val.Address).String(), ConsensusPubkey: pkAny, Status: stakingtypes.Bonded,
			Tokens: tokens, DelegatorShares: tokens.ToDec(), Description: stakingtypes.Description{},
			UnbondingTime: time.Unix(0, 0).UTC(), Commission: stakingtypes.NewCommission(sdk.ZeroDec(), sdk.ZeroDec(), sdk.ZeroDec()),
			MinSelfDelegation: sdk.ZeroInt(),
		})
		dels = append(dels, stakingtypes.NewDelegation(genAccs[0].GetAddress(), val.Address.Bytes(), tokens.ToDec()))
		bonded = bonded.Add(tokens)
	}
	sp := stakingtypes.DefaultParams()
	sp.BondDenom = BondDenom
	gs[stakingtypes.ModuleName] = tp.AppCodec().MustMarshalJSON(stakingtypes.NewGenesisState(sp, sv, dels))
	balances = append(balances, banktypes.Balance{
		Address: authtypes.NewModuleAddress(stakingtypes.BondedPoolName).String(),
		Coins:   sdk.Coins{sdk.NewCoin(BondDenom, bonded)},
	})
	total = total.Add(sdk.NewCoin(BondDenom, bonded))
	gs[banktypes.ModuleName] = tp.AppCodec().MustMarshalJSON(banktypes.NewGenesisState(banktypes.DefaultGenesisState().Params, balances, total, []banktypes.Metadata{}))

	evmGen := evmtypes.DefaultGenesisState()
	evmGen.Params.EvmDenom = BondDenom
	gs[evmtypes.ModuleName] = tp.AppCodec().MustMarshalJSON(evmGen)
	fm := feemarkettypes.DefaultGenesisState()
	fm.Params.NoBaseFee = true
	gs[feemarkettypes.ModuleName] = tp.AppCodec().MustMarshalJSON(fm)

	if cfg.XIBCName != "" {
		var xg map[string]json.RawMessage
		if err := json.Unmarshal(gs["xibc"], &xg); err != nil {
			panic(err)
		}
		var cg map[string]json.RawMessage
		if err := json.Unmarshal(xg["client_genesis"], &cg); err != nil {
			panic(err)
		}
		cg["native_chain_name"], _ = json.Marshal(cfg.XIBCName)
		xg["client_genesis"], _ = json.Marshal(cg)
		gs["xibc"], _ = json.Marshal(xg)
	}
	if cfg.MutateGenesis != nil {
		cfg.MutateGenesis(tp, gs)
	}
	stateBytes, err := json.Marshal(gs)
	if err != nil {
		panic(err)
	}
	n := &Node{
		Cfg: cfg, App: tp, ChainID: cfg.ChainID, Name: cfg.XIBCName, TxConfig: encCfg.TxConfig,
		Vals: valSet, Signers: signers, Accounts: cfg.Accounts, Blocks: map[int64]BlockRec{},
	}
	req := abci.RequestInitChain{
		Time: cfg.GenesisTime, ChainId: cfg.ChainID, Validators: []abci.ValidatorUpdate{},
		ConsensusParams: app.DefaultConsensusParams, AppStateBytes: stateBytes, InitialHeight: 1,
	}
	n.InitReq = req
	tp.InitChain(req)
	return n
}

// Height returns the last committed height.
func (n *Node) Height() int64 { return n.App.LastBlockHeight() }

// Begin starts the next block at time t.
func (n *Node) Begin(t time.Time) {
	if n.InBlock {
		panic("Begin while in block")
	}
	h := n.App.LastBlockHeight() + 1
	n.Header = tmproto.Header{
		Version: tmprotoversion.Consensus{Block: version.BlockProtocol, App: 2},
		ChainID: n.ChainID, Height: h, Time: t.UTC(), AppHash: n.App.LastCommitID().Hash,
		ValidatorsHash: n.Vals.Hash(), NextValidatorsHash: n.Vals.Hash(), ProposerAddress: n.Vals.Proposer.Address,
	}
	n.App.BeginBlock(abci.RequestBeginBlock{Header: n.Header})
	n.InBlock = true
	n.Blocks[h] = BlockRec{Time: n.Header.Time, AppHash: n.Header.AppHash}
	if n.Tape != nil {
		n.Tape.Blocks = append(n.Tape.Blocks, TapeBlock{Header: n.Header})
	}
}

// Deliver delivers one transaction in the current block.
func (n *Node) Deliver(tx []byte) abci.ResponseDeliverTx {
	if !n.InBlock {
		panic("Deliver outside block")
	}
	if n.Tape != nil {
		b := &n.Tape.Blocks[len(n.Tape.Blocks)-1]
		b.Txs = append(b.Txs, append([]byte{}, tx...))
	}
	return n.App.BaseApp.DeliverTx(abci.RequestDeliverTx{Tx: tx})
}

// End ends and commits the current block and returns the new app hash.
func (n *Node) End() (abci.ResponseEndBlock, []byte) {
	if !n.InBlock {
		panic("End outside block")
	}
	res := n.App.EndBlock(abci.RequestEndBlock{Height: n.Header.Height})
	c := n.App.Commit()
	n.InBlock = false
	return res, c.Data
}

// Ctx returns a context over the deliver state while in a block and over the
// (read-only by convention) check state between blocks.
func (n *Node) Ctx() sdk.Context {
	if n.InBlock {
		return n.App.BaseApp.NewContext(false, n.Header)
	}
	h := n.Header
	return n.App.BaseApp.NewContext(true, h)
}

// ViewCtx returns a branched context whose writes are discarded.
func (n *Node) ViewCtx() sdk.Context {
	c, _ := n.Ctx().CacheContext()
	return c.WithEventManager(sdk.NewEventManager())
}

// CosmosTx builds and signs a transaction with SIGN_MODE_DIRECT; the sequence
// is read from the state the transaction will execute on.
func (n *Node) CosmosTx(from *Account, gas uint64, msgs ...sdk.Msg) ([]byte, error) {
	acc := n.App.AccountKeeper.GetAccount(n.Ctx(), from.Acc)
	if acc == nil {
		return nil, fmt.Errorf("account %s does not exist", from.Name)
	}
	return n.CosmosTxSeq(from, acc.GetAccountNumber(), acc.GetSequence(), gas, msgs...)
}

// CosmosTxSeq is CosmosTx with explicit account number and sequence.
func (n *Node) CosmosTxSeq(from *Account, accNum, seq, gas uint64, msgs ...sdk.Msg) ([]byte, error) {
	gen := n.TxConfig
	signMode := gen.SignModeHandler().DefaultMode()
	sig := signing.SignatureV2{PubKey: from.Priv.PubKey(), Data: &signing.SingleSignatureData{SignMode: signMode}, Sequence: seq}
	b := gen.NewTxBuilder()
	if err := b.SetMsgs(msgs...); err != nil {
		return nil, err
	}
	if err := b.SetSignatures(sig); err != nil {
		return nil, err
	}
	b.SetFeeAmount(sdk.Coins{sdk.NewInt64Coin(BondDenom, 0)})
	b.SetGasLimit(gas)
	sd := authsign.SignerData{ChainID: n.ChainID, AccountNumber: accNum, Sequence: seq}
	signBytes, err := gen.SignModeHandler().GetSignBytes(signMode, sd, b.GetTx())
	if err != nil {
		return nil, err
	}
	s, err := from.Priv.Sign(signBytes)
	if err != nil {
		return nil, err
	}
	sig.Data.(*signing.SingleSignatureData).Signature = s
	if err := b.SetSignatures(sig); err != nil {
		return nil, err
	}
	return gen.TxEncoder()(b.GetTx())
}

// EthTx builds a signed MsgEthereumTx wrapped in a cosmos tx (gas price 0).
func (n *Node) EthTx(from *Account, to *common.Address, value *big.Int, gas uint64, data []byte) ([]byte, error) {
	nonce := n.App.EvmKeeper.GetNonce(n.Ctx(), from.Eth)
	return n.EthTxNonce(from, nonce, to, value, gas, data)
}

// EVMChainID parses the EIP-155 chain id from the chain id string.
func (n *Node) EVMChainID() *big.Int {
	id, err := ethermint.ParseChainID(n.ChainID)
	if err != nil {
		panic(err)
	}
	return id
}

// EthTxNonce is EthTx with an explicit nonce.
func (n *Node) EthTxNonce(from *Account, nonce uint64, to *common.Address, value *big.Int, gas uint64, data []byte) ([]byte, error) {
	if value == nil {
		value = big.NewInt(0)
	}
	chainID := n.EVMChainID()
	tx := evmtypes.NewTx(chainID, nonce, to, value, gas, big.NewInt(0), nil, nil, data, nil)
	tx.From = from.Eth.Hex()
	if err := tx.Sign(ethtypes.LatestSignerForChainID(chainID), tests.NewSigner(from.Priv)); err != nil {
		return nil, err
	}
	b := n.TxConfig.NewTxBuilder()
	stx, err := tx.BuildTx(b, BondDenom)
	if err != nil {
		return nil, err
	}
	return n.TxConfig.TxEncoder()(stx)
}

// SignedHeader builds the Tendermint light-client header for a committed
// height, signed by all validators of the chain.
func (n *Node) SignedHeader(height int64, trusted clienttypes.Height) (*xibctmtypes.Header, error) {
	rec, ok := n.Blocks[height]
	if !ok {
		return nil, fmt.Errorf("no block record for height %d", height)
	}
	return MakeTMHeader(n.ChainID, height, rec.Time, rec.AppHash, n.Vals, n.Vals, n.Signers, trusted)
}

// MakeTMHeader signs a header the way a real chain would (all given signers sign).
func MakeTMHeader(chainID string, height int64, ts time.Time, appHash []byte, valSet, trustedVals *tmtypes.ValidatorSet, signers []tmtypes.PrivValidator, trusted clienttypes.Height) (*xibctmtypes.Header, error) {
	vsetHash := valSet.Hash()
	h := tmtypes.Header{
		Version: tmprotoversion.Consensus{Block: version.BlockProtocol, App: 2},
		ChainID: chainID, Height: height, Time: ts,
		LastBlockID:    tmtypes.BlockID{Hash: make([]byte, tmhash.Size), PartSetHeader: tmtypes.PartSetHeader{Total: 10000, Hash: make([]byte, tmhash.Size)}},
		LastCommitHash: tmhash.Sum([]byte("last_commit")), DataHash: tmhash.Sum([]byte("data_hash")),
		ValidatorsHash: vsetHash, NextValidatorsHash: vsetHash, ConsensusHash: tmhash.Sum([]byte("consensus_hash")),
		AppHash: appHash, LastResultsHash: tmhash.Sum([]byte("last_results_hash")), EvidenceHash: tmhash.Sum([]byte("evidence_hash")),
		ProposerAddress: valSet.Proposer.Address,
	}
	blockID := tmtypes.BlockID{Hash: h.Hash(), PartSetHeader: tmtypes.PartSetHeader{Total: 3, Hash: tmhash.Sum([]byte("part_set"))}}
	voteSet := tmtypes.NewVoteSet(chainID, height, 1, tmproto.PrecommitType, valSet)
	commit, err := tmtypes.MakeCommit(blockID, height, 1, voteSet, signers, ts)
	if err != nil {
		return nil, err
	}
	vs, err := valSet.ToProto()
	if err != nil {
		return nil, err
	}
	tv, err := trustedVals.ToProto()
	if err != nil {
		return nil, err
	}
	return &xibctmtypes.Header{
		SignedHeader:      &tmproto.SignedHeader{Header: h.ToProto(), Commit: commit.ToProto()},
		ValidatorSet:      vs,
		TrustedHeight:     trusted,
		TrustedValidators: tv,
	}, nil
}

// Revision returns the revision number encoded in the chain id.
func (n *Node) Revision() uint64 { return clienttypes.ParseChainID(n.ChainID) }

// NewBareNode builds a fresh app and runs InitChain with a recorded request
// (used by replicas that replay a tape; it has no validator keys or accounts).
func NewBareNode(req abci.RequestInitChain, logger log.Logger) *Node {
	if logger == nil {
		logger = log.NewNopLogger()
	}
	encCfg := encoding.MakeConfig(app.ModuleBasics)
	db := dbm.NewMemDB()
	tp := app.NewTeleport(logger, db, nil, true, map[int64]bool{}, app.DefaultNodeHome, 0, encCfg, simapp.EmptyAppOptions{})
	n := &Node{App: tp, ChainID: req.ChainId, TxConfig: encCfg.TxConfig, Blocks: map[int64]BlockRec{}, InitReq: req, DB: db}
	tp.InitChain(req)
	return n
}

// Restart is a node restart between two blocks: the application object is thrown away and a new one is built over the
// same database, as after a crash or an operator's restart. Everything that is not in the committed state is gone.
func (n *Node) Restart() error {
	if n.InBlock {
		return fmt.Errorf("restart inside a block")
	}
	if n.DB == nil {
		return fmt.Errorf("node has no database handle")
	}
	encCfg := encoding.MakeConfig(app.ModuleBasics)
	tp := app.NewTeleport(log.NewNopLogger(), n.DB, nil, true, map[int64]bool{}, app.DefaultNodeHome, 0, encCfg, simapp.EmptyAppOptions{})
	if tp.LastBlockHeight() != n.App.LastBlockHeight() || !bytes.Equal(tp.LastCommitID().Hash, n.App.LastCommitID().Hash) {
		return fmt.Errorf("restarted application is at %d/%x, the old one was at %d/%x", tp.LastBlockHeight(), tp.LastCommitID().Hash, n.App.LastBlockHeight(), n.App.LastCommitID().Hash)
	}
	n.App = tp
	return nil
}

// BeginHeader starts a block with a recorded header (replicas).
func (n *Node) BeginHeader(h tmproto.Header) {
	if n.InBlock {
		panic("Begin while in block")
	}
	n.Header = h
	n.App.BeginBlock(abci.RequestBeginBlock{Header: h})
	n.InBlock = true
}
