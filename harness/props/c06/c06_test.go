// Package c06 monitors C06: only relayers, the TSS account and the chain's own
// modules can drive the bridge.
package c06

import (
	"bytes"
	"fmt"
	"math/big"
	"math/rand"
	"os"
	"sort"
	"strings"
	"testing"

	sdk "github.com/cosmos/cosmos-sdk/types"
	"github.com/ethereum/go-ethereum/common"

	"github.com/teleport-network/teleport/syscontracts"
	stakingcontract "github.com/teleport-network/teleport/syscontracts/staking"
	aggregatetypes "github.com/teleport-network/teleport/x/aggregate/types"
	tsstypes "github.com/teleport-network/teleport/x/xibc/clients/tss-client/types"
	xibcclient "github.com/teleport-network/teleport/x/xibc/core/client"
	clienttypes "github.com/teleport-network/teleport/x/xibc/core/client/types"
	packettypes "github.com/teleport-network/teleport/x/xibc/core/packet/types"

	"verif/harness/core"
	"verif/harness/pkt"
)

const tssChain = "tss-chain"

func TestC06(t *testing.T) {
	r := core.NewRun(t, "C06")
	r.Rule = "Part A: generated relayer registries (1-4 relayers incl. ordinary users and the TSS account, 1-4 chains incl. a TSS-secured chain and a chain without client, re-registrations that overwrite) installed through the governance handler; every (signer, counterparty chain, kind in {update, recv, ack}) is attempted with an otherwise valid payload and judged against a map model. Part B: every privileged method of the packet / endpoint / execute contracts is called through every caller shape (EOA, contract CALL bubbling and swallowing, DELEGATECALL, STATICCALL, nested through Execute.execute, call data of a really relayed packet, the other module's address) with arguments that would move value if authorised; a fingerprint of the privileged state must not change. Non-trivial = distinct (registry, signer, chain, kind) attempt that reached the message server, or distinct (method, caller shape) call that reached the contract."
	defer r.Finish()
	partA(r)
	partB(r)
	r.MinNontrivial(r.N(150, 4000))
}

// ------------------------------------------------------------------ Part A

type regEntry struct {
	chains []string
	addrs  []string
}

type worldA struct {
	r       *core.Run
	cid     string
	s       *pkt.Sim
	infra   *core.Account
	tss     *core.Account
	noRekey bool
	tssOf   map[string]*core.Account // per chain: the account its TSS client currently names (governance can re-key it)
	pool    []*core.Account
	model   map[string]map[string]regEntry // node name -> signer bech32 -> entry
	tssQ    uint64
}

func (w *worldA) authorised(n *core.Node, signer *core.Account, chain string) (string, bool) {
	e, ok := w.model[n.Name][signer.Bech32()]
	if !ok {
		return "", false
	}
	for i, c := range e.chains {
		if c == chain {
			return e.addrs[i], true
		}
	}
	return "", false
}

func partA(r *core.Run) {
	R, K := r.N(5, 90), r.N(50, 90)
	for i := 0; i < R; i++ {
		cid := fmt.Sprintf("registry/%d", i)
		if !r.Want(cid) {
			continue
		}
		func() {
			defer func() {
				if rec := recover(); rec != nil {
					r.Violation(cid, "panic/monitor-or-code", map[string]interface{}{"panic": fmt.Sprint(rec)})
				}
			}()
			runRegistry(r, cid, K)
		}()
	}
}

func runRegistry(r *core.Run, cid string, K int) {
	rng := r.Rng(cid)
	s, err := pkt.NewSim(rng, pkt.Config{Chains: 3, Users: 2, Relayers: 4, Tokens: 2})
	if err != nil {
		r.Inconclusive("%s: world construction failed: %v", cid, err)
		return
	}
	w := &worldA{r: r, cid: cid, s: s, model: map[string]map[string]regEntry{}, tssOf: map[string]*core.Account{}}
	// relayer 0 is the harness's own infrastructure relayer (already registered for every chain by NewWorld);
	// the registry under test is rewritten for everybody else
	w.infra = s.W.Relayers[0]
	w.tss = s.W.Relayers[3]
	w.pool = []*core.Account{s.W.Relayers[1], s.W.Relayers[2], s.W.Relayers[3], s.W.Users[0], s.W.Users[1]}
	for _, n := range s.W.Nodes {
		w.model[n.Name] = map[string]regEntry{}
		// NewWorld registered every relayer for every counterparty: model that
		for _, rel := range s.W.Relayers {
			var chains, addrs []string
			for _, o := range s.W.Nodes {
				if o != n {
					chains = append(chains, o.Name)
					addrs = append(addrs, rel.Bech32())
				}
			}
			w.model[n.Name][rel.Bech32()] = regEntry{chains, addrs}
		}
		// a TSS-secured counterparty on every chain
		w.tssOf[n.Name] = w.tss
		cs := &tsstypes.ClientState{TssAddress: w.tss.Bech32(), Pubkey: bytes.Repeat([]byte{0x02}, 33), PartPubkeys: [][]byte{bytes.Repeat([]byte{0x03}, 33), bytes.Repeat([]byte{0x04}, 33)}, Threshold: 2}
		if err := n.App.XIBCKeeper.ClientKeeper.CreateClient(n.Ctx(), tssChain, cs, &tsstypes.ConsensusState{}); err != nil {
			r.Inconclusive("%s: cannot create TSS client: %v", cid, err)
			return
		}
		// tokens bound to the TSS chain so that its packets can carry value
		for _, t := range s.Tokens {
			if t.Origin == n {
				continue
			}
			_ = n.App.AggregateKeeper.RegisterERC20Trace(n.Ctx(), t.Wrapped[n.Name], "0x00000000000000000000000000000000000000aa", tssChain, 0)
		}
	}
	// random registrations through the governance handler (incl. overwrites)
	for _, n := range s.W.Nodes {
		handler := xibcclient.NewClientProposalHandler(n.App.XIBCKeeper.ClientKeeper)
		nreg := 2 + rng.Intn(5)
		for j := 0; j < nreg; j++ {
			who := w.pool[rng.Intn(len(w.pool))]
			var chains, addrs []string
			// besides the real counterparties: names that merely LOOK like them (other letter case, one character
			// more or less) - valid identifiers of other chains, which confer nothing for the real ones
			universe := []string{tssChain, "ghost-chain", strings.ToUpper(tssChain), tssChain + "2"}
			for _, o := range s.W.Nodes {
				if o != n {
					universe = append(universe, o.Name, o.Name, strings.ToUpper(o.Name), strings.ToUpper(o.Name[:1])+o.Name[1:], o.Name[:len(o.Name)-1], o.Name+"x")
				}
			}
			nc := 1 + rng.Intn(3)
			for k := 0; k < nc; k++ {
				chains = append(chains, universe[rng.Intn(len(universe))])
				// the counterparty address is a free string of the OTHER chain's format: lower-case bech32, or an EVM address in
				// its mixed-case checksum spelling - it is recorded and compared as registered
				if acct := w.pool[rng.Intn(len(w.pool))]; rng.Intn(3) == 0 {
					addrs = append(addrs, acct.Eth.Hex())
				} else {
					addrs = append(addrs, acct.Bech32())
				}
			}
			p := clienttypes.NewRegisterRelayerProposal("t", "d", who.Bech32(), chains, addrs)
			if p.ValidateBasic() != nil {
				continue
			}
			cctx, write := n.Ctx().CacheContext()
			if err := handler(cctx, p); err == nil {
				write()
				w.model[n.Name][who.Bech32()] = regEntry{chains, addrs}
				r.Count("registrations", 1)
			}
		}
		s.W.Roll(n)
	}
	if r.Want(cid) {
		r.Sample(map[string]interface{}{"registry_case": cid, "model": w.describeModel()})
	}
	// the store must equal the model
	w.checkRegistryStore()
	for k := 0; k < K; k++ {
		n := s.W.Nodes[rng.Intn(len(s.W.Nodes))]
		signer := w.pool[rng.Intn(len(w.pool))]
		if rng.Intn(6) == 0 {
			signer = w.infra
		}
		kind := []string{"update", "recv", "ack"}[rng.Intn(3)]
		if rng.Intn(4) == 0 {
			w.attemptTSS(n, signer, kind)
		} else {
			var others []*core.Node
			for _, o := range s.W.Nodes {
				if o != n {
					others = append(others, o)
				}
			}
			w.attemptTM(n, others[rng.Intn(len(others))], signer, kind)
		}
		if r.Violations() > 0 && !r.Replaying() {
			return
		}
	}
	// an acknowledgement that names a relayer address which this chain knows only under ANOTHER counterparty
	w.ackNamingForeignRegistration(rng)
	if r.Violations() > 0 && !r.Replaying() {
		return
	}
	// every registry case closes with one hand-over of each kind on one chain (update from the TSS account, upgrade proposal)
	n := s.W.Nodes[rng.Intn(len(s.W.Nodes))]
	// ... after the TSS account was re-registered away from the TSS chain: being the configured account alone confers nothing
	if cur := w.tssOf[n.Name]; cur != nil {
		chains, addrs := []string{"ghost-chain"}, []string{cur.Bech32()}
		rp := clienttypes.NewRegisterRelayerProposal("t", "d", cur.Bech32(), chains, addrs)
		cctx, write := n.Ctx().CacheContext()
		if rp.ValidateBasic() == nil && xibcclient.NewClientProposalHandler(n.App.XIBCKeeper.ClientKeeper)(cctx, rp) == nil {
			write()
			w.model[n.Name][cur.Bech32()] = regEntry{chains, addrs}
			s.W.Roll(n)
			w.noRekey = true
			w.attemptTSS(n, cur, "update")
			w.attemptTSS(n, cur, "recv")
		}
	}
	w.rekeyTSSBy(n, "update")
	w.rekeyTSSBy(n, "upgrade")
}

func (w *worldA) describeModel() map[string]interface{} {
	out := map[string]interface{}{}
	for n, m := range w.model {
		mm := map[string]string{}
		for a, e := range m {
			mm[a[len(a)-6:]] = strings.Join(e.chains, ",")
		}
		out[n] = mm
	}
	return out
}

func (w *worldA) checkRegistryStore() {
	for _, n := range w.s.W.Nodes {
		got := map[string]string{}
		for _, ir := range n.App.XIBCKeeper.ClientKeeper.GetAllRelayers(n.Ctx()) {
			got[ir.Address] = strings.Join(ir.Chains, ",") + "|" + strings.Join(ir.Addresses, ",")
		}
		want := map[string]string{}
		for a, e := range w.model[n.Name] {
			want[a] = strings.Join(e.chains, ",") + "|" + strings.Join(e.addrs, ",")
		}
		if fmt.Sprint(sortedMap(got)) != fmt.Sprint(sortedMap(want)) {
			w.r.Violation(w.cid, "registry/store-differs-from-registrations", map[string]interface{}{"chain": n.Name, "store": got, "model": want})
		}
	}
}

func sortedMap(m map[string]string) []string {
	var out []string
	for k, v := range m {
		out = append(out, k+"="+v)
	}
	sort.Strings(out)
	return out
}

// judge applies the Part A oracle. expect: +1 MUST_ACCEPT, -1 MUST_REJECT, 0 EITHER.
func (w *worldA) judge(n *core.Node, signer *core.Account, chain, kind string, o *pkt.Obs, expect int, extra string) {
	key := fmt.Sprintf("%s/%s/%s/%s/%s/%d", w.cid, n.Name, signer.Name, chain, kind, len(w.s.Log))
	w.r.Eval(key, o.Code != 1<<30)
	cls := map[int]string{1: "must-accept", -1: "must-reject", 0: "either"}[expect]
	w.r.Count(fmt.Sprintf("attempts/%s/%s/%s", kindChain(chain), kind, cls), 1)
	if o.OK() {
		w.r.Count(fmt.Sprintf("accepted/%s/%s", kindChain(chain), kind), 1)
		if expect < 0 {
			w.r.Violation(w.cid, fmt.Sprintf("auth/%s-accepted-from-unauthorised-signer/%s%s", kind, kindChain(chain), extra),
				map[string]interface{}{"chain": n.Name, "signer": signer.Name, "counterparty": chain, "registry": w.describeModel()[n.Name], "log_tail": tail(w.s.Log)})
		}
		return
	}
	if len(o.Diff) != 0 {
		w.r.Violation(w.cid, fmt.Sprintf("auth/rejected-%s-changed-state/%s", kind, kindChain(chain)), map[string]interface{}{"diff": core.TrimDiff(o.Diff, 8)})
	}
	if expect > 0 {
		w.r.Violation(w.cid, fmt.Sprintf("auth/%s-rejected-from-registered-relayer/%s", kind, kindChain(chain)),
			map[string]interface{}{"chain": n.Name, "signer": signer.Name, "counterparty": chain, "err": o.Log, "log_tail": tail(w.s.Log)})
	}
}

func kindChain(chain string) string {
	if chain == tssChain {
		return "tss"
	}
	return "tendermint"
}

func tail(l []string) []string {
	if len(l) > 10 {
		return l[len(l)-10:]
	}
	return l
}

// keeperUpdate brings on's client of `of` up to date without going through the
// message server (harness infrastructure, not judged).
func (w *worldA) keeperUpdate(on, of *core.Node) (int64, bool) {
	s := w.s
	s.W.Roll(of)
	s.W.Roll(on)
	h := of.Header.Height
	hdr, err := of.SignedHeader(h, s.W.ClientLatest(on, of))
	if err != nil {
		return 0, false
	}
	if err := on.App.XIBCKeeper.ClientKeeper.UpdateClient(on.Ctx(), of.Name, hdr); err != nil {
		return 0, false
	}
	return h, true
}

func (w *worldA) attemptTM(n, x *core.Node, signer *core.Account, kind string) {
	s := w.s
	_, auth := w.authorised(n, signer, x.Name)
	switch kind {
	case "update":
		s.W.Roll(x)
		s.W.Roll(n)
		msg, err := s.W.UpdateMsg(n, x, signer, x.Header.Height, clienttypes.Height{})
		if err != nil {
			return
		}
		o := s.Deliver(n, signer, "update "+x.Name, msg)
		exp := -1
		if auth {
			exp = 1
		}
		w.judge(n, signer, x.Name, kind, o, exp, "")
	case "recv":
		// a fresh packet x -> n
		sp := s.RandSendSpec(nil)
		sp.Src, sp.Dst, sp.Token, sp.Amount, sp.FeeToken, sp.FeeAmount = x, n, nil, nil, nil, nil
		// the destination call succeeds, fails inside the contract (result code != 0), or fails as a whole
		// (a staking action without funds makes the post-processing hook fail): three different places build the ack
		callKind := []string{"counter", "counter", "reverter", "hard-failure"}[s.Rng.Intn(4)]
		if callKind == "hard-failure" {
			vals := n.App.StakingKeeper.GetAllValidators(n.Ctx())
			data, err := stakingcontract.StakingContract.ABI.Pack("delegate", vals[0].OperatorAddress, big.NewInt(1_000_000))
			if err != nil {
				return
			}
			sp.Call = pkt.CallSpec{Kind: callKind, Contract: syscontracts.StakingContractAddress, Data: data}
		} else {
			sp.Call = s.CallTo(n, callKind)
		}
		_, ps := s.Send(sp)
		if len(ps) != 1 {
			return
		}
		p := ps[0]
		s.ProvableHeight(x, p.SendBlock)
		h, ok := w.keeperUpdate(n, x)
		if !ok {
			w.r.Count("setup_failed", 1)
			return
		}
		msg, err := s.RecvMsg(p, h, signer)
		if err != nil {
			return
		}
		o := s.Deliver(n, signer, "recv "+p.Key(), msg)
		s.NoteRecv(p, o)
		exp := -1
		if auth {
			exp = 1
		}
		w.judge(n, signer, x.Name, kind, o, exp, "")
		if o.OK() {
			// fee recipient recorded in the ack = the registered counterparty address
			want, _ := w.authorised(n, signer, x.Name)
			var a packettypes.Acknowledgement
			if p.AckWritten == nil || a.ABIDecode(p.AckWritten) != nil || a.Relayer != want {
				w.r.Violation(w.cid, "ack-relayer/not-the-registered-counterparty-address", map[string]interface{}{"got": a.Relayer, "want": want, "signer": signer.Name, "chain": x.Name})
			}
			w.r.Count(fmt.Sprintf("ack_relayer_fields_checked/%s/ack-code-%d", callKind, a.Code), 1)
		}
	case "ack":
		// a packet n -> x, received on x by the infrastructure relayer, acknowledged by signer
		sp := s.RandSendSpec(nil)
		sp.Src, sp.Dst, sp.Token, sp.Amount, sp.FeeToken, sp.FeeAmount = n, x, nil, nil, nil, nil
		sp.Call = s.CallTo(x, "counter")
		_, ps := s.Send(sp)
		if len(ps) != 1 {
			return
		}
		p := ps[0]
		if _, err := s.HonestRecv(p, w.infra); err != nil || !p.Received || p.AckWritten == nil {
			w.r.Count("setup_failed", 1)
			return
		}
		s.ProvableHeight(x, p.RecvBlock)
		h, ok := w.keeperUpdate(n, x)
		if !ok {
			w.r.Count("setup_failed", 1)
			return
		}
		msg, err := s.AckMsg(p, p.AckWritten, h, signer)
		if err != nil {
			return
		}
		o := s.Deliver(n, signer, "ack "+p.Key(), msg)
		s.NoteAck(p, o)
		// the statement restricts acknowledgement signers only for TSS counterparties; but the fee of the packet goes to the
		// local account whose registration FOR THAT CHAIN carries the address the acknowledgement names - an address that is
		// registered on this chain only for other counterparties confers nothing here
		exp, extra := 0, ""
		var a packettypes.Acknowledgement
		if a.ABIDecode(p.AckWritten) == nil && a.Relayer != "" {
			here, elsewhere := false, false
			for _, e := range w.model[n.Name] {
				for i, c := range e.chains {
					if strings.EqualFold(e.addrs[i], a.Relayer) {
						if c == x.Name {
							here = true
						} else {
							elsewhere = true
						}
					}
				}
			}
			if !here && elsewhere {
				exp, extra = -1, "/named-relayer-registered-for-other-chains-only"
				w.r.Count("attempts/ack-naming-a-relayer-registered-for-other-chains-only", 1)
			}
		}
		w.judge(n, signer, x.Name, kind, o, exp, extra)
	}
}

// ackNamingForeignRegistration: on x the delivering relayer is registered for n with counterparty address Z; on n the
// address Z is registered too, but only for a chain that is not x. The acknowledgement of a packet n -> x names Z.
func (w *worldA) ackNamingForeignRegistration(rng *rand.Rand) {
	s := w.s
	n := s.W.Nodes[rng.Intn(len(s.W.Nodes))]
	var others []*core.Node
	for _, o := range s.W.Nodes {
		if o != n {
			others = append(others, o)
		}
	}
	x := others[rng.Intn(len(others))]
	z := core.NewAccount(fmt.Sprintf("c06-foreign-%s-%d", w.cid, len(s.Log))).Bech32()
	reg := func(on *core.Node, who *core.Account, chains, addrs []string) bool {
		p := clienttypes.NewRegisterRelayerProposal("t", "d", who.Bech32(), chains, addrs)
		cctx, write := on.Ctx().CacheContext()
		if p.ValidateBasic() != nil || xibcclient.NewClientProposalHandler(on.App.XIBCKeeper.ClientKeeper)(cctx, p) != nil {
			return false
		}
		write()
		w.model[on.Name][who.Bech32()] = regEntry{chains, addrs}
		s.W.Roll(on)
		return true
	}
	holder := w.pool[rng.Intn(len(w.pool))]
	foreign := "ghost-chain"
	if len(others) > 1 && rng.Intn(2) == 0 {
		for _, o := range others {
			if o != x {
				foreign = o.Name
			}
		}
	}
	if !reg(x, w.infra, []string{n.Name}, []string{z}) || !reg(n, holder, []string{foreign}, []string{z}) {
		w.r.Count("setup_failed", 1)
		return
	}
	w.attemptTM(n, x, w.pool[rng.Intn(len(w.pool))], "ack")
}

// tssProof chooses what the (for TSS clients meaningless) proof field carries: an attacker controls it.
func (w *worldA) tssProof(n *core.Node, signer *core.Account) ([]byte, string) {
	switch w.s.Rng.Intn(4) {
	case 0:
		return []byte{}, "empty"
	case 1:
		return []byte(w.tssOf[n.Name].Bech32()), "tss-address-string"
	case 2:
		return []byte(signer.Bech32()), "signer-address-string"
	}
	return []byte("ignored"), "junk"
}

// rekeyTSS replaces, through a governance upgrade proposal, the account the TSS client on n names. From then on only
// the new account may drive that client; the replaced one is an ordinary account again.
func (w *worldA) rekeyTSS(n *core.Node) { w.rekeyTSSBy(n, "") }

func (w *worldA) rekeyTSSBy(n *core.Node, mode string) {
	s := w.s
	cands := []*core.Account{s.W.Relayers[1], s.W.Relayers[2], s.W.Relayers[3]}
	next := cands[s.Rng.Intn(len(cands))]
	if next == w.tssOf[n.Name] {
		return
	}
	prev := w.tssOf[n.Name]
	// both the replaced and the new account are (re-)registered as relayers for the TSS chain, so that what decides the
	// probes below is the TSS account check alone
	rh := xibcclient.NewClientProposalHandler(n.App.XIBCKeeper.ClientKeeper)
	for _, a := range []*core.Account{prev, next} {
		chains, addrs := []string{tssChain}, []string{a.Bech32()}
		rp := clienttypes.NewRegisterRelayerProposal("t", "d", a.Bech32(), chains, addrs)
		c2, w2 := n.Ctx().CacheContext()
		if rp.ValidateBasic() == nil && rh(c2, rp) == nil {
			w2()
			w.model[n.Name][a.Bech32()] = regEntry{chains, addrs}
		}
	}
	if byUpdate := s.Rng.Intn(2) == 0; (mode == "" && byUpdate) || mode == "update" {
		// the TSS group itself hands the client over: an update from the current TSS account whose header names the next
		// account (the group key bytes stay what they were - a resharing). A TSS header IS the new configuration.
		hdr := &tsstypes.Header{TssAddress: next.Bech32()}
		if cs, ok := n.App.XIBCKeeper.ClientKeeper.GetClientState(n.Ctx(), tssChain); ok {
			if t, ok := cs.(*tsstypes.ClientState); ok {
				hdr.Pubkey, hdr.PartPubkeys, hdr.Threshold = t.Pubkey, t.PartPubkeys, t.Threshold
			}
		}
		msg, err := clienttypes.NewMsgUpdateClient(tssChain, hdr, prev.Acc)
		if err != nil {
			return
		}
		o := s.Deliver(n, prev, "tss-rotation-by-update", msg)
		w.r.Eval(fmt.Sprintf("%s/%d/tss-rotation-by-update", w.cid, len(s.Log)), true)
		if !o.OK() {
			w.r.Count("tss_rotation_by_update_refused", 1)
			if os.Getenv("C06_DEBUG") != "" {
				fmt.Println("ROTATION REFUSED:", o.Log)
			}
			return
		}
		w.r.Count("tss_rekeyed_by_update_from_the_tss_account", 1)
		stored := ""
		if cs, ok := n.App.XIBCKeeper.ClientKeeper.GetClientState(n.Ctx(), tssChain); ok {
			if t, ok := cs.(*tsstypes.ClientState); ok {
				stored = t.TssAddress
			}
		}
		if stored != next.Bech32() {
			w.r.Violation(w.cid, "auth/tss/accepted-update-did-not-install-the-account-its-header-names", map[string]interface{}{"chain": n.Name, "header_names": next.Bech32(), "stored": stored, "sent_by": prev.Bech32()})
		}
	} else {
		p, err := clienttypes.NewUpgradeClientProposal("t", "d", tssChain, &tsstypes.ClientState{TssAddress: next.Bech32(), Pubkey: bytes.Repeat([]byte{0x05}, 33), PartPubkeys: [][]byte{bytes.Repeat([]byte{0x06}, 33)}, Threshold: 1}, &tsstypes.ConsensusState{})
		if err != nil || p.ValidateBasic() != nil {
			return
		}
		handler := xibcclient.NewClientProposalHandler(n.App.XIBCKeeper.ClientKeeper)
		cctx, write := n.Ctx().CacheContext()
		if err := handler(cctx, p); err != nil {
			w.r.Count("tss_rekey_refused", 1)
			return
		}
		write()
		w.r.Count("tss_rekeyed_by_upgrade_proposal", 1)
	}
	w.tssOf[n.Name] = next
	s.W.Roll(n)
	w.noRekey = true
	w.attemptTSS(n, prev, "update")
	w.attemptTSS(n, prev, "recv")
	w.attemptTSS(n, prev, "ack")
	w.attemptTSS(n, next, "recv")
	w.noRekey = false
}

func (w *worldA) attemptTSS(n *core.Node, signer *core.Account, kind string) {
	s := w.s
	if !w.noRekey && s.Rng.Intn(6) == 0 {
		w.rekeyTSS(n)
	}
	isTSS := signer == w.tssOf[n.Name]
	exp := 0
	if !isTSS {
		exp = -1
	}
	if isTSS && (kind == "update" || kind == "recv") {
		// the TSS account check comes on top of the relayer registry, not instead of it
		if _, reg := w.authorised(n, signer, tssChain); !reg {
			exp = -1
			w.r.Count("attempts/tss-account-not-registered-as-relayer-of-the-tss-chain/"+kind, 1)
		}
	}
	switch kind {
	case "update":
		hdr := &tsstypes.Header{TssAddress: w.tssOf[n.Name].Bech32()}
		if s.Rng.Intn(2) == 0 && !isTSS {
			hdr.TssAddress = signer.Bech32() // try to take the client over
		}
		if s.Rng.Intn(2) == 0 {
			// the group key and shares the client holds are public (client-state query): a header may repeat them
			if cs, ok := n.App.XIBCKeeper.ClientKeeper.GetClientState(n.Ctx(), tssChain); ok {
				if t, ok := cs.(*tsstypes.ClientState); ok {
					hdr.Pubkey, hdr.PartPubkeys, hdr.Threshold = t.Pubkey, t.PartPubkeys, t.Threshold
					if s.Rng.Intn(2) == 0 {
						hdr.PartPubkeys, hdr.Threshold = [][]byte{bytes.Repeat([]byte{0x07}, 33)}, 1
					}
				}
			}
		}
		msg, err := clienttypes.NewMsgUpdateClient(tssChain, hdr, signer.Acc)
		if err != nil {
			return
		}
		o := s.Deliver(n, signer, "tss-update", msg)
		w.judge(n, signer, tssChain, kind, o, exp, "")
	case "recv":
		w.tssQ++
		var tok *core.Token
		for _, t := range s.Tokens {
			if t.Origin != n {
				tok = t
			}
		}
		td := packettypes.TransferData{Receiver: pkt.LowerHex(signer.Eth), Amount: big.NewInt(1000).FillBytes(make([]byte, 32)), Token: "0x00000000000000000000000000000000000000aa", OriToken: ""}
		tdb, _ := td.ABIPack()
		_ = tok
		p := packettypes.Packet{SrcChain: tssChain, DstChain: n.Name, Sequence: w.tssQ, Sender: "0xsender", TransferData: tdb, CallData: []byte{}, CallbackAddress: "", FeeOption: 0}
		bz, _ := p.ABIPack()
		proof, pv := w.tssProof(n, signer)
		msg := packettypes.NewMsgRecvPacket(bz, proof, clienttypes.NewHeight(0, 1), signer.Acc)
		o := s.Deliver(n, signer, fmt.Sprintf("tss-recv #%d proof=%s", w.tssQ, pv), msg)
		w.judge(n, signer, tssChain, kind, o, exp, "/proof="+pv)
	case "ack":
		// a real packet n -> tss-chain, then an acknowledgement "from" the TSS chain
		sp := pkt.SendSpec{Src: n, Dst: n, DstName: tssChain, User: s.RandUser()}
		sp.Call = pkt.CallSpec{Kind: "raw", Contract: "0x0000000000000000000000000000000000000001", Data: []byte{1}}
		o0, ps := s.Send(sp)
		if !o0.OK() || len(ps) != 1 {
			w.r.Count("setup_failed", 1)
			return
		}
		p := ps[0]
		a := packettypes.NewAcknowledgement(0, []byte{}, "", signer.Bech32(), 0)
		ab, _ := a.ABIPack()
		proof, pv := w.tssProof(n, signer)
		msg := packettypes.NewMsgAcknowledgement(p.Bytes, ab, proof, clienttypes.NewHeight(0, 1), signer.Acc)
		o := s.Deliver(n, signer, "tss-ack "+p.Key()+" proof="+pv, msg)
		w.judge(n, signer, tssChain, kind, o, exp, "/proof="+pv)
	}
}

// ------------------------------------------------------------------ Part B

type privCall struct {
	name   string
	target common.Address
	data   []byte
}

func partB(r *core.Run) {
	cid := "contracts"
	if !r.Want(cid) {
		return
	}
	defer func() {
		if rec := recover(); rec != nil {
			r.Violation(cid, "panic/monitor-or-code", map[string]interface{}{"panic": fmt.Sprint(rec)})
		}
	}()
	rng := r.Rng(cid)
	s, err := pkt.NewSim(rng, pkt.Config{Chains: 2, Users: 2, Relayers: 1, Tokens: 2, Native: true})
	if err != nil {
		r.Inconclusive("contracts: world construction failed: %v", err)
		return
	}
	a, b := s.W.Nodes[0], s.W.Nodes[1]
	attacker := s.W.Users[0]
	rel := s.W.Relayers[0]
	tokA := s.Tokens[0] // origin a
	if tokA.Origin != a {
		tokA = s.Tokens[1]
	}
	// state that makes privileged calls valuable: an unacknowledged transfer of the attacker with a fee in escrow,
	// and a delivered transfer (bindings on b)
	_, ps := s.Send(pkt.SendSpec{Src: a, Dst: b, User: attacker, Token: tokA, Amount: big.NewInt(5000), Receiver: pkt.LowerHex(attacker.Eth), FeeToken: tokA, FeeAmount: big.NewInt(77)})
	if len(ps) != 1 {
		r.Inconclusive("contracts: setup send failed")
		return
	}
	open := ps[0]
	if _, err := s.HonestRecv(open, rel); err != nil {
		r.Inconclusive("contracts: setup recv failed: %v", err)
		return
	}
	_, ps2 := s.Send(pkt.SendSpec{Src: a, Dst: b, User: attacker, Token: tokA, Amount: big.NewInt(300), Receiver: pkt.LowerHex(attacker.Eth), FeeToken: tokA, FeeAmount: big.NewInt(5)})
	if len(ps2) != 1 {
		r.Inconclusive("contracts: setup send 2 failed")
		return
	}
	pending := ps2[0]
	wrappedB := tokA.Wrapped[b.Name]

	// forged inbound packet minting wrapped tokens on a? (a is the origin: releasing escrow) and on b (mint)
	forged := func(dst *core.Node, src string, amount int64) packettypes.Packet {
		td := packettypes.TransferData{Receiver: pkt.LowerHex(attacker.Eth), Amount: big.NewInt(amount).FillBytes(make([]byte, 32)), Token: tokA.OriTokenString(), OriToken: ""}
		if dst == a {
			td.Token = pkt.LowerHex(wrappedB)
			td.OriToken = tokA.OriTokenString()
		}
		tdb, _ := td.ABIPack()
		return packettypes.Packet{SrcChain: src, DstChain: dst.Name, Sequence: 4242, Sender: pkt.LowerHex(attacker.Eth), TransferData: tdb, CallData: []byte{}, CallbackAddress: "", FeeOption: 0}
	}
	// arguments for the supply-limit methods that are valid when sent by the aggregate module:
	// found by trying a small grid from the module address on a discarded branch; one token gets a
	// limit enabled for real so that disabling it is a valid privileged action
	limTok := map[string][2]common.Address{}
	var limArgs [4]*big.Int
	for _, n := range []*core.Node{a, b} {
		var toks []common.Address
		for _, t := range s.Tokens {
			if ad := t.AddrOn(n); ad != core.ZeroAddr {
				toks = append(toks, ad)
			}
		}
		if len(toks) < 2 {
			toks = append(toks, toks[0])
		}
		found := false
		for _, g := range [][4]int64{{3600, 1000000, 500000, 1}, {60, 1000, 100, 10}, {1, 10, 5, 1}, {3600, 1000000, 1000000, 0}, {10, 100, 100, 1}} {
			args := [4]*big.Int{big.NewInt(g[0]), big.NewInt(g[1]), big.NewInt(g[2]), big.NewInt(g[3])}
			data, _ := core.EndpointABI.Pack("enableTimeBasedSupplyLimit", toks[1], args[0], args[1], args[2], args[3])
			cctx, _ := n.Ctx().CacheContext()
			ep := core.EndpointAddr
			if res, err := n.EthCall(cctx, aggregatetypes.ModuleAddress, &ep, nil, data, true); err == nil && !res.Failed() {
				limArgs = args
				found = true
				if err := n.App.AggregateKeeper.EnableTimeBasedSupplyLimit(n.Ctx(), toks[1], args[0], args[1], args[2], args[3]); err != nil {
					found = false
				}
				break
			}
		}
		if !found {
			r.Inconclusive("contracts: no valid enableTimeBasedSupplyLimit arguments found on %s", n.Name)
			return
		}
		limTok[n.Name] = [2]common.Address{toks[0], toks[1]}
	}
	errAck := packettypes.Acknowledgement{Code: 1, Result: []byte{}, Message: "forged", Relayer: rel.Bech32(), FeeOption: 0}
	mk := func(name string, target common.Address, abiPack func() ([]byte, error)) privCall {
		d, err := abiPack()
		if err != nil {
			panic(name + ": " + err.Error())
		}
		return privCall{name, target, d}
	}
	calls := func(n *core.Node, other *core.Node) []privCall {
		return []privCall{
			mk("packet.setSequence", core.PacketAddr, func() ([]byte, error) {
				return core.PacketABI.Pack("setSequence", other.Name, n.ContractNextSeq(other.Name)+1)
			}),
			mk("packet.setAckStatus", core.PacketAddr, func() ([]byte, error) { return core.PacketABI.Pack("setAckStatus", other.Name, uint64(1), uint8(1)) }),
			mk("packet.setChainName", core.PacketAddr, func() ([]byte, error) { return core.PacketABI.Pack("setChainName", "evil-chain") }),
			mk("packet.sendPacketFeeToRelayer", core.PacketAddr, func() ([]byte, error) {
				return core.PacketABI.Pack("sendPacketFeeToRelayer", other.Name, uint64(1), attacker.Eth)
			}),
			mk("packet.onRecvPacket", core.PacketAddr, func() ([]byte, error) { return core.PacketABI.Pack("onRecvPacket", forged(n, other.Name, 999)) }),
			mk("packet.OnAcknowledgePacket", core.PacketAddr, func() ([]byte, error) {
				return core.PacketABI.Pack("OnAcknowledgePacket", open.Packet, errAck)
			}),
			mk("endpoint.onRecvPacket", core.EndpointAddr, func() ([]byte, error) { return core.EndpointABI.Pack("onRecvPacket", forged(n, other.Name, 999)) }),
			mk("endpoint.onAcknowledgementPacket", core.EndpointAddr, func() ([]byte, error) {
				return core.EndpointABI.Pack("onAcknowledgementPacket", open.Packet, uint64(1), []byte{}, "forged")
			}),
			mk("endpoint.bindToken", core.EndpointAddr, func() ([]byte, error) {
				return core.EndpointABI.Pack("bindToken", s.Contracts[n.Name]["counter"], "0xori", "evil-chain", uint8(0))
			}),
			mk("endpoint.enableTimeBasedSupplyLimit", core.EndpointAddr, func() ([]byte, error) {
				return core.EndpointABI.Pack("enableTimeBasedSupplyLimit", limTok[n.Name][0], limArgs[0], limArgs[1], limArgs[2], limArgs[3])
			}),
			mk("endpoint.disableTimeBasedSupplyLimit", core.EndpointAddr, func() ([]byte, error) {
				return core.EndpointABI.Pack("disableTimeBasedSupplyLimit", limTok[n.Name][1])
			}),
		}
	}

	fingerprint := func(n, other *core.Node) string {
		var sb strings.Builder
		fmt.Fprintf(&sb, "chainName=%v;", n.MustView(core.PacketABI, core.PacketAddr, "chainName")[0])
		for _, d := range []string{other.Name, "evil-chain"} {
			fmt.Fprintf(&sb, "seq[%s]=%d;", d, n.ContractNextSeq(d))
			for q := uint64(1); q <= 3; q++ {
				fmt.Fprintf(&sb, "st[%s,%d]=%d;", d, q, n.AckStatus(d, q))
				ft, fa := n.PacketFee(d, q)
				fmt.Fprintf(&sb, "fee[%s,%d]=%s/%v;", d, q, ft.Hex(), fa)
			}
		}
		cnt := s.Contracts[n.Name]["counter"]
		bd := n.Bindings(cnt, "evil-chain")
		fmt.Fprintf(&sb, "evilbind=%v/%v;", bd.Bound, bd.Amount)
		for _, t := range s.Tokens {
			addr := t.AddrOn(n)
			if t.Origin == n {
				fmt.Fprintf(&sb, "out[%s]=%v;", t.ID, n.OutTokens(addr, other.Name))
			} else {
				fmt.Fprintf(&sb, "bind[%s]=%v;", t.ID, n.Bindings(addr, t.Origin.Name).Amount)
			}
			if addr != core.ZeroAddr {
				lim, err := n.View(core.EndpointABI, core.EndpointAddr, "limits", addr)
				fmt.Fprintf(&sb, "lim[%s]=%v/%v;sup=%v;", t.ID, lim, err, n.ERC20Supply(addr))
				for _, h := range []common.Address{attacker.Eth, core.PacketAddr, core.EndpointAddr, core.ExecuteAddr} {
					fmt.Fprintf(&sb, "bal[%s,%s]=%v;", t.ID, h.Hex()[:8], n.ERC20Balance(addr, h))
				}
			}
		}
		for _, h := range []common.Address{core.PacketAddr, core.EndpointAddr, core.ExecuteAddr} {
			fmt.Fprintf(&sb, "bank[%s]=%v;", h.Hex()[:8], n.BankBalance(h))
		}
		return sb.String()
	}
	sysStorage := func(n *core.Node) string {
		d := ""
		for _, addr := range []common.Address{core.PacketAddr, core.EndpointAddr, core.ExecuteAddr} {
			d += n.DumpPrefix(n.Ctx(), "evm", append([]byte{0x02}, addr.Bytes()...)).Digest()
		}
		return d + n.DumpStore(n.Ctx(), "bank").Digest()
	}

	// ---- direct transaction shapes on both chains
	shapes := []string{"eoa", "call-bubble", "call-swallow", "delegatecall", "staticcall", "via-execute"}
	for _, pair := range [][2]*core.Node{{a, b}, {b, a}} {
		n, other := pair[0], pair[1]
		for _, pc := range calls(n, other) {
			for _, shape := range shapes {
				fpBefore := fingerprint(n, other)
				stBefore := sysStorage(n)
				var to common.Address
				data := pc.data
				switch shape {
				case "eoa":
					to = pc.target
				case "call-bubble":
					to, err = n.DeployRuntime(s.W.Admin.Eth, core.Forwarder(core.KindCall, pc.target, true, true))
				case "call-swallow":
					to, err = n.DeployRuntime(s.W.Admin.Eth, core.Forwarder(core.KindCall, pc.target, false, true))
				case "delegatecall":
					to, err = n.DeployRuntime(s.W.Admin.Eth, core.Forwarder(core.KindDelegateCall, pc.target, false, false))
				case "staticcall":
					to, err = n.DeployRuntime(s.W.Admin.Eth, core.Forwarder(core.KindStaticCall, pc.target, false, false))
				case "via-execute":
					to = core.ExecuteAddr
					data, err = core.ExecuteABI.Pack("execute", packettypes.CallData{ContractAddress: strings.ToLower(pc.target.Hex()), CallData: pc.data})
				}
				if err != nil {
					r.Inconclusive("contracts: cannot build shape %s: %v", shape, err)
					return
				}
				// the forwarder deployment itself changed evm storage? (no: code only) – re-take the baseline after deployment
				stBefore = sysStorage(n)
				tx, err := n.EthTx(attacker, &to, nil, 3_000_000, data)
				if err != nil {
					continue
				}
				o := s.DeliverEth(n, fmt.Sprintf("priv %s via %s", pc.name, shape), tx)
				r.Eval(fmt.Sprintf("B/%s/%s/%s", n.Name, pc.name, shape), o.Code == 0)
				r.Count("privileged_calls/"+shape, 1)
				fpAfter := fingerprint(n, other)
				stAfter := sysStorage(n)
				if fpAfter != fpBefore || stAfter != stBefore {
					r.Violation(cid, fmt.Sprintf("privileged/%s-reachable-via-%s", pc.name, shape), map[string]interface{}{"chain": n.Name, "before": fpBefore, "after": fpAfter, "vmerr": o.Eth.VmError})
				}
				if shape == "eoa" && o.OK() {
					r.Violation(cid, fmt.Sprintf("privileged/%s-did-not-revert-for-eoa", pc.name), map[string]interface{}{"chain": n.Name})
				}
			}
		}
	}
	r.Set("exhaustive_partB", "11 privileged methods x 6 direct caller shapes x 2 chains + packet-call-data path + cross-module path")

	// ---- a user contract emitting a byte-exact PacketSent(bytes) event for the packet that would be next on the path:
	// "another contract" must not be able to make the module number, commit and announce a packet. Called directly by the
	// attacker and from the call data of a really relayed packet.
	lookAlike := func(n, other *core.Node) (common.Address, uint64, bool) {
		seq := n.ContractNextSeq(other.Name)
		p := packettypes.Packet{SrcChain: n.Name, DstChain: other.Name, Sequence: seq, Sender: pkt.LowerHex(attacker.Eth), TransferData: []byte{}, CallData: []byte{1}}
		bz, err := p.ABIPack()
		if err != nil {
			return common.Address{}, 0, false
		}
		ev := core.PacketABI.Events[packettypes.PacketSendEvent]
		data, err := ev.Inputs.Pack(bz)
		if err != nil {
			return common.Address{}, 0, false
		}
		addr, err := n.DeployRuntime(attacker.Eth, core.Emitter([]common.Hash{ev.ID}, data))
		return addr, seq, err == nil
	}
	for _, pair := range [][2]*core.Node{{a, b}, {b, a}} {
		n, other := pair[0], pair[1]
		em, seq, ok := lookAlike(n, other)
		if !ok {
			r.Inconclusive("contracts: cannot deploy the look-alike emitter")
			return
		}
		fpBefore, xBefore := fingerprint(n, other), n.DumpStore(n.Ctx(), "xibc")
		tx, err := n.EthTx(attacker, &em, nil, 1_000_000, []byte{})
		if err != nil {
			continue
		}
		o := s.DeliverEth(n, "look-alike PacketSent from a user contract", tx)
		r.Eval(fmt.Sprintf("B/%s/look-alike-event/direct", n.Name), o.OK())
		r.Count("look_alike_events/direct", 1)
		xd := core.Diff("xibc", xBefore, n.DumpStore(n.Ctx(), "xibc"))
		if fpAfter := fingerprint(n, other); fpAfter != fpBefore || len(xd) != 0 {
			r.Violation(cid, "privileged/send-driven-by-a-look-alike-event-of-a-user-contract/direct", map[string]interface{}{"chain": n.Name, "sequence": seq, "xibc_diff": core.TrimDiff(xd, 8), "before": fpBefore, "after": fpAfter})
		}
	}
	{
		em, seq, ok := lookAlike(b, a)
		if ok {
			fpBefore := fingerprint(b, a)
			sp := pkt.SendSpec{Src: a, Dst: b, User: attacker, Call: pkt.CallSpec{Kind: "raw", Contract: strings.ToLower(em.Hex()), Data: []byte{1}}}
			_, ps := s.Send(sp)
			if len(ps) == 1 {
				if _, err := s.HonestRecv(ps[0], rel); err == nil {
					r.Eval("B/look-alike-event/packet-call-data", true)
					r.Count("look_alike_events/packet-call-data", 1)
					r.Count(fmt.Sprintf("look_alike_packet_path_ack_code_%d", ps[0].AckCode), 1)
					held := b.App.XIBCKeeper.PacketKeeper.GetPacketCommitment(b.Ctx(), b.Name, a.Name, seq)
					if fpAfter := fingerprint(b, a); fpAfter != fpBefore || len(held) != 0 {
						r.Violation(cid, "privileged/send-driven-by-a-look-alike-event-of-a-user-contract/packet-call-data", map[string]interface{}{"chain": b.Name, "sequence": seq, "commitment": core.Hex(held), "before": fpBefore, "after": fpAfter})
					}
				}
			}
		}
	}

	// ---- call data carried inside a really relayed packet (executed by the execute contract on the destination)
	for _, pc := range calls(b, a) {
		fpBefore := fingerprint(b, a)
		sp := pkt.SendSpec{Src: a, Dst: b, User: attacker, Call: pkt.CallSpec{Kind: "raw", Contract: strings.ToLower(pc.target.Hex()), Data: pc.data}}
		_, ps := s.Send(sp)
		if len(ps) != 1 {
			r.Count("packet_path_send_failed", 1)
			continue
		}
		// the relayed packet itself legitimately advances a's counters, so only b is fingerprinted
		if _, err := s.HonestRecv(ps[0], rel); err != nil {
			r.Count("packet_path_recv_failed", 1)
			continue
		}
		r.Eval("B/packet-call-data/"+pc.name, true)
		r.Count("privileged_calls/packet-call-data", 1)
		r.Count(fmt.Sprintf("packet_path_ack_code_%d", ps[0].AckCode), 1)
		if fpAfter := fingerprint(b, a); fpAfter != fpBefore {
			r.Violation(cid, fmt.Sprintf("privileged/%s-reachable-via-packet-call-data", pc.name), map[string]interface{}{"before": fpBefore, "after": fpAfter, "ack_code": ps[0].AckCode})
		}
	}

	// ---- module addresses: the right module succeeds (positive control), the other module fails
	for _, pc := range calls(a, b) {
		owner, foreign := packettypes.ModuleAddress, aggregatetypes.ModuleAddress
		if strings.HasPrefix(pc.name, "endpoint.bind") || strings.HasPrefix(pc.name, "endpoint.enable") || strings.HasPrefix(pc.name, "endpoint.disable") {
			owner, foreign = aggregatetypes.ModuleAddress, packettypes.ModuleAddress
		}
		if strings.HasPrefix(pc.name, "endpoint.on") {
			// called by the packet contract, not by a module: no module-level positive control
			owner = common.Address{}
		}
		target := pc.target
		fctx, _ := a.Ctx().CacheContext()
		res, err := a.EthCall(fctx, foreign, &target, nil, pc.data, true)
		r.Eval("B/other-module/"+pc.name, err == nil)
		r.Count("privileged_calls/other-module", 1)
		if err == nil && !res.Failed() {
			r.Violation(cid, fmt.Sprintf("privileged/%s-reachable-from-the-other-module-address", pc.name), map[string]interface{}{"from": foreign.Hex()})
		}
		if owner != (common.Address{}) && !strings.Contains(pc.name, "onRecvPacket") && !strings.Contains(pc.name, "OnAcknowledgePacket") && !strings.Contains(pc.name, "sendPacketFee") {
			octx, _ := a.Ctx().CacheContext()
			res, err := a.EthCall(octx, owner, &target, nil, pc.data, true)
			r.Count("positive_controls", 1)
			if err != nil || res.Failed() {
				r.Inconclusive("positive control failed: %s from its own module: %v %v", pc.name, err, res)
			}
		}
	}
	_ = pending
	_ = sdk.AccAddress{}
}
