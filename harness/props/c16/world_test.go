package c16

// World construction for the C16 monitor: three teleport chains under ibc-go's
// testing package (A = counterparty, B = chain under observation, C only makes
// the channel identifiers on the two ends of the A-B channels differ), two
// transfer channels A<->B, and a registry on B with voucher denominations in
// many states (module-owned pair enabled / disabled / paused token /
// self-destructed token, voucher added to an external ERC-20 pair with and
// without escrowed tokens, to a siphoning and to an approval-granting token).
//
// ibctesting helpers call `require` on a *testing.T; they are used only for
// world construction and honest relaying. Everything that is judged goes
// through (w *world).deliverBlock, which never aborts.

import (
	"crypto/sha256"
	"encoding/hex"
	"fmt"
	"math/big"
	"strings"
	"testing"

	abci "github.com/tendermint/tendermint/abci/types"
	tmproto "github.com/tendermint/tendermint/proto/tendermint/types"

	cryptotypes "github.com/cosmos/cosmos-sdk/crypto/types"
	sdk "github.com/cosmos/cosmos-sdk/types"
	"github.com/cosmos/cosmos-sdk/types/tx/signing"
	authsign "github.com/cosmos/cosmos-sdk/x/auth/signing"
	authtypes "github.com/cosmos/cosmos-sdk/x/auth/types"
	banktypes "github.com/cosmos/cosmos-sdk/x/bank/types"

	ibctransfer "github.com/cosmos/ibc-go/v3/modules/apps/transfer"
	transfertypes "github.com/cosmos/ibc-go/v3/modules/apps/transfer/types"
	clienttypes "github.com/cosmos/ibc-go/v3/modules/core/02-client/types"
	channeltypes "github.com/cosmos/ibc-go/v3/modules/core/04-channel/types"
	porttypes "github.com/cosmos/ibc-go/v3/modules/core/05-port/types"
	ibctesting "github.com/cosmos/ibc-go/v3/testing"

	"github.com/ethereum/go-ethereum/accounts/abi"
	"github.com/ethereum/go-ethereum/common"
	ethtypes "github.com/ethereum/go-ethereum/core/types"
	"github.com/ethereum/go-ethereum/crypto"

	"github.com/tharsis/ethermint/server/config"
	"github.com/tharsis/ethermint/x/evm/statedb"
	evmtypes "github.com/tharsis/ethermint/x/evm/types"

	"github.com/teleport-network/teleport/app"
	erc20contracts "github.com/teleport-network/teleport/syscontracts/erc20"
	"github.com/teleport-network/teleport/x/aggregate"
	aggtypes "github.com/teleport-network/teleport/x/aggregate/types"

	"verif/harness/core"
)

var erc20ABI = erc20contracts.ERC20MinterBurnerDecimalsContract.ABI

// chanDir is one A->B channel (source end on A, destination end on B).
type chanDir struct {
	path                               *ibctesting.Path
	srcPort, srcChan, dstPort, dstChan string
}

type tokenKind string

const (
	tkModule  tokenKind = "module-owned"
	tkExt     tokenKind = "external"
	tkSiphon  tokenKind = "external-siphon"
	tkDelayed tokenKind = "external-approve"
	// old-style token that signals failure through the return value of transfer instead of reverting (core.BonusToken in
	// its lie modes): tkLie moves nothing and returns false, tkLieMove moves the tokens and returns false
	tkLie     tokenKind = "external-returns-false"
	tkLieMove tokenKind = "external-moves-and-returns-false"
)

// pairInfo is the generator's ground truth about one registered voucher.
type pairInfo struct {
	label   string
	base    string // denomination as named by the sender chain (packet data)
	ch      int
	voucher string // denomination on B
	token   common.Address
	kind    tokenKind
}

type world struct {
	t       *testing.T
	coord   *ibctesting.Coordinator
	A, B, C *ibctesting.TestChain
	tpA     *app.Teleport
	tpB     *app.Teleport
	chans   []chanDir
	mw      aggregate.IBCMiddleware
	inner   porttypes.IBCModule
	node    *core.Node

	pairs    map[string]*pairInfo // by voucher denomination
	byLabel  map[string]*pairInfo
	tokens   []common.Address
	users    []sdk.AccAddress
	deployer common.Address
	relayer  sdk.AccAddress
	aggAcc   sdk.AccAddress

	forgedSeq uint64
}

// voucherOf is the generator's own computation of the denomination under which
// B's bank holds a coin received as `denom` over channel ch (ICS-20).
func (w *world) voucherOf(ch int, denom string) (voucher string, returning bool) {
	c := w.chans[ch]
	srcPrefix := c.srcPort + "/" + c.srcChan + "/"
	if strings.HasPrefix(denom, srcPrefix) {
		rest := denom[len(srcPrefix):]
		if strings.Contains(rest, "/") {
			return ibcHash(rest), true
		}
		return rest, true
	}
	return ibcHash(c.dstPort + "/" + c.dstChan + "/" + denom), false
}

func ibcHash(fullPath string) string {
	h := sha256.Sum256([]byte(fullPath))
	return "ibc/" + strings.ToUpper(hex.EncodeToString(h[:]))
}

// fixHeader gives the current block a proposer (the EVM needs a coinbase; the
// headers ibctesting builds have none) and re-runs BeginBlock with it.
func fixHeader(c *ibctesting.TestChain) {
	if len(c.CurrentHeader.ProposerAddress) == 0 {
		c.CurrentHeader.ProposerAddress = c.Vals.Proposer.Address
		c.App.BeginBlock(abci.RequestBeginBlock{Header: c.CurrentHeader})
	}
}

// bctx is B's deliver-state context (what the next transaction would see).
func (w *world) bctx() sdk.Context {
	fixHeader(w.B)
	return w.B.GetContext().WithEventManager(sdk.NewEventManager())
}

func (w *world) commit(c *ibctesting.TestChain) {
	w.coord.CommitBlock(c)
	fixHeader(c)
}

// stage names the step of the world construction that is itself an instance of the property (an honest ICS-20
// transfer through the middleware): when the construction dies there, that is a verdict, not a harness problem.
var stage string

func must(err error, what string) {
	if err != nil {
		panic(fmt.Sprintf("world construction: %s: %v", what, err))
	}
}

func newWorld(t *testing.T) *world {
	ibctesting.DefaultTestingAppInit = app.SetupTestingApp
	ibctesting.ChainIDPrefix = "teleport_9000-"
	w := &world{t: t, pairs: map[string]*pairInfo{}, byLabel: map[string]*pairInfo{}, forgedSeq: 1 << 40}
	w.coord = ibctesting.NewCoordinator(t, 3)
	w.A = w.coord.GetChain(ibctesting.GetChainID(1))
	w.B = w.coord.GetChain(ibctesting.GetChainID(2))
	w.C = w.coord.GetChain(ibctesting.GetChainID(3))
	w.tpA = w.A.App.(*app.Teleport)
	w.tpB = w.B.App.(*app.Teleport)
	w.node = &core.Node{App: w.tpB}

	// unlimited block gas (ibctesting's consensus params allow 2M gas per block,
	// which one EVM contract creation already exceeds)
	for _, c := range []*ibctesting.TestChain{w.A, w.B} {
		cp := c.App.GetBaseApp().GetConsensusParams(c.GetContext())
		cp.Block.MaxGas = -1
		c.App.GetBaseApp().StoreConsensusParams(c.GetContext(), cp)
	}

	mk := func(x, y *ibctesting.TestChain) *ibctesting.Path {
		p := ibctesting.NewPath(x, y)
		p.EndpointA.ChannelConfig.PortID = ibctesting.TransferPort
		p.EndpointB.ChannelConfig.PortID = ibctesting.TransferPort
		p.EndpointA.ChannelConfig.Version = transfertypes.Version
		p.EndpointB.ChannelConfig.Version = transfertypes.Version
		w.coord.Setup(p)
		return p
	}
	mk(w.B, w.C) // B: channel-0
	for i := 0; i < 2; i++ {
		p := mk(w.A, w.B) // A: channel-i, B: channel-(i+1)
		w.chans = append(w.chans, chanDir{path: p,
			srcPort: p.EndpointA.ChannelConfig.PortID, srcChan: p.EndpointA.ChannelID,
			dstPort: p.EndpointB.ChannelConfig.PortID, dstChan: p.EndpointB.ChannelID})
	}
	if w.chans[0].srcChan == w.chans[0].dstChan {
		panic("world construction: channel identifiers on both ends are equal")
	}
	fixHeader(w.A)
	fixHeader(w.B)

	w.mw = aggregate.NewIBCMiddleware(*w.tpB.AggregateKeeper, ibctransfer.NewIBCModule(w.tpB.IBCTransferKeeper))
	w.inner = ibctransfer.NewIBCModule(w.tpB.IBCTransferKeeper)
	w.relayer = w.B.SenderAccount.GetAddress()
	w.aggAcc = authtypes.NewModuleAddress(aggtypes.ModuleName)
	for i := 1; i <= 3; i++ {
		w.users = append(w.users, w.B.SenderAccounts[i].SenderAccount.GetAddress())
	}
	w.deployer = common.BytesToAddress(w.B.SenderAccounts[9].SenderAccount.GetAddress().Bytes())

	w.buildRegistry()
	w.fundA()
	w.escrowNative()
	w.commit(w.B)
	w.commit(w.A)
	return w
}

// seedVoucher makes the transfer application of B receive `amount` of `base`
// over channel ch for `to` (committed into B's deliver state): voucher supply
// and denomination trace come into being exactly as in a real receive.
func (w *world) seedVoucher(ch int, base string, to sdk.AccAddress, amount int64) string {
	c := w.chans[ch]
	data := transfertypes.NewFungibleTokenPacketData(base, fmt.Sprint(amount), w.A.SenderAccount.GetAddress().String(), to.String())
	pkt := channeltypes.NewPacket(data.GetBytes(), 1<<50, c.srcPort, c.srcChan, c.dstPort, c.dstChan, clienttypes.NewHeight(2, 1<<40), 0)
	ack := w.inner.OnRecvPacket(w.bctx(), pkt, w.relayer)
	if ack == nil || !ack.Success() {
		panic(fmt.Sprintf("world construction: seeding %s failed: %v", base, ack))
	}
	v, _ := w.voucherOf(ch, base)
	if !w.tpB.BankKeeper.HasSupply(w.bctx(), v) {
		panic("world construction: generator's voucher denomination " + v + " has no supply after a receive of " + base)
	}
	return v
}

func metadataFor(denom, sym string) banktypes.Metadata {
	return banktypes.Metadata{
		Description: "C16 voucher " + sym, Base: denom,
		DenomUnits: []*banktypes.DenomUnit{{Denom: denom, Exponent: 0}},
		Name:       denom, Symbol: sym, Display: denom,
	}
}

func (w *world) evmCall(ctx sdk.Context, from, to common.Address, method string, args ...interface{}) error {
	_, err := w.tpB.AggregateKeeper.CallEVM(ctx, erc20ABI, from, to, method, args...)
	return err
}

func (w *world) deploy(ctx sdk.Context, c evmtypes.CompiledContract, args ...interface{}) common.Address {
	ctor, err := c.ABI.Pack("", args...)
	must(err, "pack constructor")
	nonce, err := w.tpB.AccountKeeper.GetSequence(ctx, w.deployer.Bytes())
	must(err, "deployer sequence")
	addr := crypto.CreateAddress(w.deployer, nonce)
	_, err = w.tpB.AggregateKeeper.CallEVMWithData(ctx, w.deployer, nil, append(append([]byte{}, c.Bin...), ctor...))
	must(err, "deploy")
	return addr
}

func (w *world) suicide(ctx sdk.Context, token common.Address) error {
	db := statedb.New(ctx, w.tpB.EvmKeeper, statedb.NewEmptyTxConfig(common.BytesToHash(ctx.HeaderHash().Bytes())))
	if !db.Suicide(token) {
		return fmt.Errorf("no such contract")
	}
	return db.Commit()
}

func (w *world) addPair(p *pairInfo) {
	w.pairs[p.voucher] = p
	w.byLabel[p.label] = p
	for _, t := range w.tokens {
		if t == p.token {
			return
		}
	}
	w.tokens = append(w.tokens, p.token)
}

func (w *world) buildRegistry() {
	k := w.tpB.AggregateKeeper
	big1e30, _ := new(big.Int).SetString("1000000000000000000000000000000", 10)

	moduleOwned := func(label string, ch int, base string) *pairInfo {
		v := w.seedVoucher(ch, base, w.users[0], 1000)
		pair, err := k.RegisterCoin(w.bctx(), metadataFor(v, label))
		must(err, "RegisterCoin "+label)
		p := &pairInfo{label: label, base: base, ch: ch, voucher: v, token: pair.GetERC20Contract(), kind: tkModule}
		w.addPair(p)
		return p
	}
	moduleOwned("enabled0", 0, "uatom")
	moduleOwned("enabled1", 1, "uatom")
	moduleOwned("hop0", 0, "transfer/channel-9/uhop")
	p := moduleOwned("disabled0", 0, "uosmo")
	_, err := k.ToggleRelay(w.bctx(), p.voucher)
	must(err, "ToggleRelay")
	p = moduleOwned("paused0", 0, "upause")
	must(w.evmCall(w.bctx(), aggtypes.ModuleAddress, p.token, "pause"), "pause")
	p = moduleOwned("dead0", 0, "udead")
	must(w.suicide(w.bctx(), p.token), "suicide")

	// a module-owned pair with TWO denominations (RegisterCoin for the first, AddCoin for the second); packets carry the
	// second one, and every receiver already holds some of the first
	{
		first := moduleOwned("multi0", 0, "umulti0")
		v2 := w.seedVoucher(0, "umulti1", w.users[0], 1000)
		_, err := k.AddCoin(w.bctx(), metadataFor(v2, "multi1"), first.token.String())
		must(err, "AddCoin multi1")
		w.addPair(&pairInfo{label: "multi1", base: "umulti1", ch: 0, voucher: v2, token: first.token, kind: tkModule})
		for _, u := range w.users {
			w.seedVoucher(0, "umulti0", u, 5_000_000)
			// ... and some of the second, unconverted (received before it was registered): a receive converts what it
			// received, not what the receiver happens to hold
			w.seedVoucher(0, "umulti1", u, 5_000_000)
		}
	}

	external := func(label string, ch int, base string, kind tokenKind, fund bool) {
		var token common.Address
		switch kind {
		case tkExt:
			token = w.deploy(w.bctx(), erc20contracts.ERC20MinterBurnerDecimalsContract, "ext"+label, "EXT", uint8(6))
		case tkSiphon:
			token = w.deploy(w.bctx(), erc20contracts.ERC20DirectBalanceManipulationContract, big.NewInt(1000000))
		case tkDelayed:
			token = w.deploy(w.bctx(), erc20contracts.ERC20MaliciousDelayedContract, big.NewInt(1000000))
		case tkLie, tkLieMove:
			nonce, err := w.tpB.AccountKeeper.GetSequence(w.bctx(), w.deployer.Bytes())
			must(err, "deployer sequence")
			token = crypto.CreateAddress(w.deployer, nonce)
			_, err = w.tpB.AggregateKeeper.CallEVMWithData(w.bctx(), w.deployer, nil, core.InitCode(core.BonusToken()))
			must(err, "deploy returns-false token")
		}
		_, err := k.RegisterERC20(w.bctx(), token)
		must(err, "RegisterERC20 "+label)
		v := w.seedVoucher(ch, base, w.users[0], 1000)
		_, err = k.AddCoin(w.bctx(), metadataFor(v, label), token.String())
		must(err, "AddCoin "+label)
		if fund {
			must(w.evmCall(w.bctx(), w.deployer, token, "mint", aggtypes.ModuleAddress, big1e30), "fund module escrow "+label)
		}
		if kind == tkLie || kind == tkLieMove {
			mode := map[tokenKind]int64{tkLieMove: 1, tkLie: 2}[kind]
			data := append([]byte{0x0c, 0x0c, 0x0c, 0x0c}, common.LeftPadBytes(big.NewInt(mode).Bytes(), 32)...)
			_, err = w.tpB.AggregateKeeper.CallEVMWithData(w.bctx(), w.deployer, &token, data)
			must(err, "set return-value mode "+label)
		}
		w.addPair(&pairInfo{label: label, base: base, ch: ch, voucher: v, token: token, kind: kind})
	}
	external("ext0", 0, "uext", tkExt, true)
	external("extdry1", 1, "uextdry", tkExt, false)
	external("siphon0", 0, "usiphon", tkSiphon, true)
	external("delay0", 0, "udelay", tkDelayed, true)
	external("lie0", 0, "ulie", tkLie, true)
	external("liemove0", 0, "uliemove", tkLieMove, true)

	// unregistered vouchers with supply
	w.seedVoucher(0, "ufree", w.users[0], 1000)
	w.seedVoucher(1, "ufree", w.users[1], 1000)

	// some receivers already hold tokens of the enabled pair (conversion of an
	// earlier receive, done through the module's own message handler)
	en := w.byLabel["enabled0"]
	_, err = k.ConvertCoin(sdk.WrapSDKContext(w.bctx()), aggtypes.NewMsgConvertCoin(sdk.NewInt64Coin(en.voucher, 300), common.BytesToAddress(w.users[0].Bytes()), w.users[0]))
	must(err, "pre-convert")

	// a native coin of B registered as a module-owned pair (comes home in "returning" packets)
	coins := sdk.NewCoins(sdk.NewInt64Coin("bcoin", 1_000_000_000))
	must(w.tpB.BankKeeper.MintCoins(w.bctx(), transfertypes.ModuleName, coins), "mint bcoin")
	must(w.tpB.BankKeeper.SendCoinsFromModuleToAccount(w.bctx(), transfertypes.ModuleName, w.B.SenderAccount.GetAddress(), coins), "send bcoin")
	pair, err := k.RegisterCoin(w.bctx(), metadataFor("bcoin", "BCOIN"))
	must(err, "RegisterCoin bcoin")
	w.addPair(&pairInfo{label: "native-bcoin", base: "bcoin", ch: -1, voucher: "bcoin", token: pair.GetERC20Contract(), kind: tkModule})
}

// aDenoms are the denominations A's sender account holds (honest MsgTransfer).
var aDenoms = []string{"uatom", "uosmo", "upause", "udead", "uext", "uextdry", "usiphon", "udelay", "ufree", "unew", "umulti0", "umulti1", "ulie", "uliemove"}

func (w *world) fundA() {
	ctx := w.A.GetContext()
	var cs sdk.Coins
	for _, d := range aDenoms {
		cs = cs.Add(sdk.NewCoin(d, sdk.NewIntWithDecimal(1, 24)))
	}
	must(w.tpA.BankKeeper.MintCoins(ctx, transfertypes.ModuleName, cs), "mint on A")
	must(w.tpA.BankKeeper.SendCoinsFromModuleToAccount(ctx, transfertypes.ModuleName, w.A.SenderAccount.GetAddress(), cs), "fund A sender")
}

// escrowNative sends native coins of B to A over both channels (honest
// transfers, relayed), so that B's escrow accounts hold coins that "returning"
// packets release and A's sender holds the matching vouchers.
func (w *world) escrowNative() {
	for ch := range w.chans {
		c := w.chans[ch]
		for _, coin := range []sdk.Coin{sdk.NewInt64Coin(sdk.DefaultBondDenom, 500_000_000), sdk.NewInt64Coin("bcoin", 400_000_000)} {
			seq, found := w.tpB.IBCKeeper.ChannelKeeper.GetNextSequenceSend(w.bctx(), c.dstPort, c.dstChan)
			if !found {
				panic("world construction: no send sequence")
			}
			th := clienttypes.NewHeight(clienttypes.ParseChainID(w.A.ChainID), 1_000_000)
			msg := transfertypes.NewMsgTransfer(c.dstPort, c.dstChan, coin, w.B.SenderAccount.GetAddress().String(), w.A.SenderAccount.GetAddress().String(), th, 0)
			stage = "honest-ics20/outbound-MsgTransfer"
			_, err := w.B.SendMsgs(msg)
			must(err, "B->A transfer")
			stage = ""
			fixHeader(w.B)
			data := transfertypes.NewFungibleTokenPacketData(coin.Denom, coin.Amount.String(), w.B.SenderAccount.GetAddress().String(), w.A.SenderAccount.GetAddress().String())
			pkt := channeltypes.NewPacket(data.GetBytes(), seq, c.dstPort, c.dstChan, c.srcPort, c.srcChan, th, 0)
			must(c.path.EndpointA.UpdateClient(), "update client on A")
			stage = "honest-ics20/receive-of-a-valid-packet"
			must(c.path.EndpointA.RecvPacket(pkt), "recv on A")
			stage = ""
			fixHeader(w.A)
			fixHeader(w.B)
		}
	}
}

// ---------------------------------------------------------------- observation

func (w *world) balanceOf(ctx sdk.Context, token, holder common.Address) string {
	data, err := erc20ABI.Pack("balanceOf", holder)
	if err != nil {
		return "pack-error"
	}
	cctx, _ := ctx.CacheContext()
	from := aggtypes.ModuleAddress
	msg := ethtypes.NewMessage(from, &token, w.tpB.EvmKeeper.GetNonce(cctx, from), big.NewInt(0), config.DefaultGasCap, big.NewInt(0), big.NewInt(0), big.NewInt(0), data, ethtypes.AccessList{}, false)
	res, err := w.tpB.EvmKeeper.ApplyMessage(cctx, msg, evmtypes.NewNoOpTracer(), false)
	if err != nil {
		return "call-error"
	}
	if res.Failed() {
		return "reverted"
	}
	out, err := erc20ABI.Unpack("balanceOf", res.Ret)
	if err != nil || len(out) != 1 {
		return "no-contract"
	}
	return out[0].(*big.Int).String()
}

func (w *world) viewWord(ctx sdk.Context, a abi.ABI, token common.Address, method string) string {
	data, err := a.Pack(method)
	if err != nil {
		return "pack-error"
	}
	cctx, _ := ctx.CacheContext()
	from := aggtypes.ModuleAddress
	msg := ethtypes.NewMessage(from, &token, w.tpB.EvmKeeper.GetNonce(cctx, from), big.NewInt(0), config.DefaultGasCap, big.NewInt(0), big.NewInt(0), big.NewInt(0), data, ethtypes.AccessList{}, false)
	res, err := w.tpB.EvmKeeper.ApplyMessage(cctx, msg, evmtypes.NewNoOpTracer(), false)
	if err != nil || res.Failed() {
		return "error"
	}
	out, err := a.Unpack(method, res.Ret)
	if err != nil || len(out) != 1 {
		return "no-contract"
	}
	return fmt.Sprint(out[0])
}

// bankBalance never panics (bank's GetBalance builds a Coin and panics on a
// string that is not a denomination).
func (w *world) bankBalance(ctx sdk.Context, who sdk.AccAddress, denom string) string {
	if sdk.ValidateDenom(denom) != nil {
		return "invalid-denom"
	}
	return w.tpB.BankKeeper.GetBalance(ctx, who, denom).Amount.String()
}

// obs is what the oracle looks at on one branch of the state.
type obs struct {
	Voucher   string            `json:"receiver_voucher"`
	Escrow    string            `json:"module_voucher"`
	Supply    string            `json:"voucher_supply"`
	Tokens    map[string]string `json:"receiver_tokens"`
	ModTokens map[string]string `json:"module_tokens"`
	TokSupply map[string]string `json:"token_supply"`
}

func (w *world) observe(ctx sdk.Context, recv sdk.AccAddress, voucher string) obs {
	o := obs{Tokens: map[string]string{}, ModTokens: map[string]string{}, TokSupply: map[string]string{}}
	o.Voucher = w.bankBalance(ctx, recv, voucher)
	o.Escrow = w.bankBalance(ctx, w.aggAcc, voucher)
	o.Supply = "invalid-denom"
	if sdk.ValidateDenom(voucher) == nil {
		o.Supply = w.tpB.BankKeeper.GetSupply(ctx, voucher).Amount.String()
	}
	eth := common.BytesToAddress(recv.Bytes())
	for _, t := range w.tokens {
		o.Tokens[t.Hex()] = w.balanceOf(ctx, t, eth)
		o.ModTokens[t.Hex()] = w.balanceOf(ctx, t, aggtypes.ModuleAddress)
		o.TokSupply[t.Hex()] = w.viewWord(ctx, erc20ABI, t, "totalSupply")
	}
	return o
}

// ---------------------------------------------------------------- transactions

func signTx(c *ibctesting.TestChain, priv cryptotypes.PrivKey, accNum, seq, gas uint64, msgs ...sdk.Msg) ([]byte, error) {
	gen := c.TxConfig
	mode := gen.SignModeHandler().DefaultMode()
	sig := signing.SignatureV2{PubKey: priv.PubKey(), Data: &signing.SingleSignatureData{SignMode: mode}, Sequence: seq}
	b := gen.NewTxBuilder()
	if err := b.SetMsgs(msgs...); err != nil {
		return nil, err
	}
	if err := b.SetSignatures(sig); err != nil {
		return nil, err
	}
	b.SetFeeAmount(sdk.Coins{sdk.NewInt64Coin(sdk.DefaultBondDenom, 0)})
	b.SetGasLimit(gas)
	sd := authsign.SignerData{ChainID: c.ChainID, AccountNumber: accNum, Sequence: seq}
	bz, err := gen.SignModeHandler().GetSignBytes(mode, sd, b.GetTx())
	if err != nil {
		return nil, err
	}
	s, err := priv.Sign(bz)
	if err != nil {
		return nil, err
	}
	sig.Data.(*signing.SingleSignatureData).Signature = s
	if err := b.SetSignatures(sig); err != nil {
		return nil, err
	}
	return gen.TxEncoder()(b.GetTx())
}

const txGas = 200_000_000

// beginJudgedBlock makes sure the chain is inside a block with the current time
// and a proposer.
func (w *world) beginJudgedBlock(c *ibctesting.TestChain) {
	w.coord.UpdateTimeForChain(c)
	fixHeader(c)
}

// deliverOne signs msgs with the chain's sender account (sequence read from
// the deliver state) and delivers the transaction into the current block.
func (w *world) deliverOne(c *ibctesting.TestChain, msgs ...sdk.Msg) (abci.ResponseDeliverTx, error) {
	tp := c.App.(*app.Teleport)
	acc := tp.AccountKeeper.GetAccount(c.GetContext(), c.SenderAccount.GetAddress())
	if acc == nil {
		return abci.ResponseDeliverTx{}, fmt.Errorf("sender account missing")
	}
	bz, err := signTx(c, c.SenderPrivKey, acc.GetAccountNumber(), acc.GetSequence(), txGas, msgs...)
	if err != nil {
		return abci.ResponseDeliverTx{}, err
	}
	return c.App.GetBaseApp().DeliverTx(abci.RequestDeliverTx{Tx: bz}), nil
}

// endJudgedBlock ends and commits the block; a panic of EndBlock (crisis
// invariants are asserted every 5th block) is returned.
func (w *world) endJudgedBlock(c *ibctesting.TestChain) error {
	err, _ := core.Catch(func() error {
		c.App.EndBlock(abci.RequestEndBlock{Height: c.CurrentHeader.Height})
		return nil
	})
	if err != nil {
		return err
	}
	c.App.Commit()
	c.NextBlock()
	fixHeader(c)
	tp := c.App.(*app.Teleport)
	if acc := tp.AccountKeeper.GetAccount(c.GetContext(), c.SenderAccount.GetAddress()); acc != nil {
		_ = c.SenderAccount.SetSequence(acc.GetSequence())
	}
	w.coord.IncrementTime()
	fixHeader(c)
	return nil
}

var _ = tmproto.Header{}
