// Package c16 monitors C16: the aggregate ICS-20 middleware is transparent -
// the acknowledgement of the transfer application is the one committed for the
// packet, and the automatic coin-to-token conversion is all-or-nothing.
package c16

import (
	"bytes"
	"fmt"
	"math/big"
	"sort"
	"strings"
	"testing"

	abci "github.com/tendermint/tendermint/abci/types"

	sdk "github.com/cosmos/cosmos-sdk/types"

	transfertypes "github.com/cosmos/ibc-go/v3/modules/apps/transfer/types"
	clienttypes "github.com/cosmos/ibc-go/v3/modules/core/02-client/types"
	channeltypes "github.com/cosmos/ibc-go/v3/modules/core/04-channel/types"
	host "github.com/cosmos/ibc-go/v3/modules/core/24-host"
	"github.com/cosmos/ibc-go/v3/modules/core/exported"

	aggtypes "github.com/teleport-network/teleport/x/aggregate/types"

	"verif/harness/core"
)

func TestC16(t *testing.T) {
	r := core.NewRun(t, "C16")
	r.Rule = "ICS-20 packets generated over {registered enabled / disabled / paused-token / self-destructed-token / external-ERC20 (funded, dry, siphoning, approval-granting) / unregistered / fresh / multi-hop / returning-native / hostile} denominations x {valid, boundary, unparsable} amounts x {existing, fresh, 32-byte, blocked-module, malformed} receivers x {canonical, re-ordered, malformed JSON} data x registry mutations (module off, pair toggled, token paused/unpaused/destroyed, receive disabled, module escrow drained), on two channels whose identifiers differ at the two ends. Callback level: IBCMiddleware.OnRecvPacket vs the wrapped transfer module on twin branches of one state. Full stack: the packet is committed on chain A (honest MsgTransfer or a forged commitment for data no honest sender would produce) and delivered to B in a signed MsgRecvPacket with a real proof. Non-trivial = distinct (layer, channel, denomination, amount, receiver kind, data, mutations) case in which both the middleware and the wrapped module ran to completion and their acknowledgements were compared."
	r.Assume("the wrapped ibc-go v3 transfer module is the reference for 'the acknowledgement produced by the transfer application' (it is third-party code, not code under test)")
	r.Assume("a receiver's ERC-20 account is the EVM address with the same 20 bytes; receivers whose address is not 20 bytes long are not judged for conversion (the statement does not say which EVM account is theirs)")
	completed := false
	defer func() {
		rec := recover()
		switch {
		case (rec != nil || !completed) && strings.HasPrefix(stage, "honest-ics20/"):
			// an honest transfer between two teleport chains, with nothing hostile in play, did not go through
			r.Eval("setup/"+stage, true)
			r.Violation("world", "setup/"+stage+"/failed-on-a-chain-with-the-middleware", map[string]interface{}{"stage": stage, "panic": fmt.Sprint(rec),
				"meaning": "while the test world was being built an honest ICS-20 transfer (valid MsgTransfer, valid relayed packet) failed: the middleware changed the outcome of the transfer"})
		case rec != nil:
			r.Inconclusive("harness panicked: %v", rec)
		case !completed:
			r.Inconclusive("test function aborted before completion (ibctesting helper called FailNow)")
		}
		r.Finish()
	}()
	r.MinNontrivial(r.N(140, 4000))

	w := newWorld(t)
	m := &monitor{r: r, w: w}

	nCB1, nFS, nCB2 := r.N(150, 9000), r.N(70, 700), r.N(80, 4000)
	wantCB2 := false
	for i := 0; i < nCB2; i++ {
		if r.Want(fmt.Sprintf("cb2/%d", i)) {
			wantCB2 = true
			break
		}
	}
	for i := 0; i < nCB1; i++ {
		id := fmt.Sprintf("cb1/%d", i)
		if r.Want(id) {
			m.callbackCase(id)
		}
	}
	if r.Want("fs") || (r.Replaying() && wantCB2) {
		m.fullStack("fs", nFS)
	}
	for i := 0; i < nCB2; i++ {
		id := fmt.Sprintf("cb2/%d", i)
		if r.Want(id) {
			m.callbackCase(id)
		}
	}

	for i := 0; i < r.N(60, 3000); i++ {
		id := fmt.Sprintf("out/%d", i)
		if r.Want(id) {
			m.outboundCase(id)
		}
	}

	if !r.Replaying() {
		// floors on what must have been observed for the verdict to mean anything
		need := map[string]int64{"cb_converted": int64(r.N(12, 600)), "cb_untouched_after_failed_conversion": int64(r.N(10, 500)), "cb_inner_error": int64(r.N(40, 2000)),
			"fs_inner_success": int64(r.N(15, 150)), "fs_inner_error": int64(r.N(10, 100)), "fs_converted": int64(r.N(3, 30)),
			"out_refunds_compared": int64(r.N(5, 300)), "out_inner_error": int64(r.N(5, 300))}
		for k, v := range need {
			if m.cnt[k] < v {
				r.Inconclusive("only %d events of kind %s observed (floor %d)", m.cnt[k], k, v)
			}
		}
		for _, mm := range m.mismatch {
			fmt.Println("NOTE expectation mismatch:", mm)
		}
		if m.cnt["expectation_mismatch"] > 0 {
			r.Inconclusive("%d cases in which the wrapped transfer module contradicted the generator's ground truth (generator must be corrected): %v", m.cnt["expectation_mismatch"], m.mismatch)
		}
	}
	completed = true
}

type monitor struct {
	r        *core.Run
	w        *world
	cnt      map[string]int64
	mismatch []string
	notes    map[string]int
}

// note prints a few occurrences of an unjudged situation (never a verdict).
func (m *monitor) note(kind, text string) {
	if m.notes == nil {
		m.notes = map[string]int{}
	}
	m.notes[kind]++
	if m.notes[kind] <= 3 {
		fmt.Printf("NOTE %s: %s\n", kind, trunc(text, 500))
	}
}

func (m *monitor) count(k string) {
	if m.cnt == nil {
		m.cnt = map[string]int64{}
	}
	m.cnt[k]++
	m.r.Count(k, 1)
}

// ---------------------------------------------------------------- acknowledgements

type ackView struct {
	Class string `json:"class"` // nil | success | error | panic
	Bytes string `json:"bytes,omitempty"`
	Panic string `json:"panic,omitempty"`
	raw   []byte
}

func viewAck(a exported.Acknowledgement, err error, panicked bool) ackView {
	if panicked {
		return ackView{Class: "panic", Panic: trunc(err.Error(), 200)}
	}
	// a typed nil pointer inside the interface is "no acknowledgement" too
	if a == nil || isNilAck(a) {
		return ackView{Class: "nil"}
	}
	v := ackView{Class: "error", raw: a.Acknowledgement()}
	if a.Success() {
		v.Class = "success"
	}
	v.Bytes = trunc(string(v.raw), 300)
	return v
}

func isNilAck(a exported.Acknowledgement) (isNil bool) {
	defer func() {
		if recover() != nil {
			isNil = true
		}
	}()
	_ = a.Success()
	return false
}

func trunc(s string, n int) string {
	if len(s) > n {
		return s[:n] + "..."
	}
	return s
}

func (m *monitor) runModule(mod interface {
	OnRecvPacket(sdk.Context, channeltypes.Packet, sdk.AccAddress) exported.Acknowledgement
}, ctx sdk.Context, pkt channeltypes.Packet) ackView {
	var a exported.Acknowledgement
	err, panicked := core.Catch(func() error { a = mod.OnRecvPacket(ctx, pkt, m.w.relayer); return nil })
	return viewAck(a, err, panicked)
}

// ---------------------------------------------------------------- mutations

// applyMuts applies the registry mutations of a case on ctx and returns those
// that took effect.
func (m *monitor) applyMuts(ctx sdk.Context, s *spec) []string {
	w := m.w
	k := w.tpB.AggregateKeeper
	p := w.pairs[s.Voucher]
	var done []string
	for _, mu := range s.Muts {
		var err error
		switch mu {
		case "params-off":
			pr := k.GetParams(ctx)
			pr.EnableAggregate = false
			k.SetParams(ctx, pr)
		case "evm-hook-off":
			pr := k.GetParams(ctx)
			pr.EnableEVMHook = false
			k.SetParams(ctx, pr)
		case "receive-disabled":
			w.tpB.IBCTransferKeeper.SetParams(ctx, transfertypes.NewParams(true, false))
		case "evm-calls-disabled":
			// governance switched contract calls off: every call the conversion makes into the EVM fails
			ep := w.tpB.EvmKeeper.GetParams(ctx)
			ep.EnableCall = false
			w.tpB.EvmKeeper.SetParams(ctx, ep)
		case "toggle-pair":
			if p == nil {
				continue
			}
			_, err = k.ToggleRelay(ctx, p.voucher)
		case "pause-token", "unpause-token":
			if p == nil {
				continue
			}
			from := aggtypes.ModuleAddress
			if p.kind != tkModule {
				from = w.deployer
			}
			err = w.evmCall(ctx, from, p.token, strings.TrimSuffix(mu, "-token"))
		case "suicide-token":
			if p == nil {
				continue
			}
			err = w.suicide(ctx, p.token)
		case "drain-module-tokens":
			if p == nil || p.kind == tkModule {
				continue
			}
			bal, ok := new(big.Int).SetString(w.balanceOf(ctx, p.token, aggtypes.ModuleAddress), 10)
			if !ok || bal.Sign() == 0 {
				continue
			}
			err = w.evmCall(ctx, aggtypes.ModuleAddress, p.token, "burn", bal)
		case "coin-sent-to-destroyed-token-address":
			if p == nil {
				continue
			}
			if acc := w.tpB.EvmKeeper.GetAccountWithoutBalance(ctx, p.token); acc != nil && acc.IsContract() {
				continue // the contract is alive: not this case
			}
			coins := sdk.NewCoins(sdk.NewInt64Coin(sdk.DefaultBondDenom, 1))
			if err = w.tpB.BankKeeper.MintCoins(ctx, transfertypes.ModuleName, coins); err == nil {
				err = w.tpB.BankKeeper.SendCoinsFromModuleToAccount(ctx, transfertypes.ModuleName, sdk.AccAddress(p.token.Bytes()), coins)
			}
		}
		if err == nil {
			done = append(done, mu)
		}
	}
	return done
}

// undoMuts restores parameters and toggles after a committed full-stack block.
func (m *monitor) undoMuts(ctx sdk.Context, s *spec, done []string) {
	w := m.w
	k := w.tpB.AggregateKeeper
	p := w.pairs[s.Voucher]
	for _, mu := range done {
		switch mu {
		case "params-off", "evm-hook-off":
			k.SetParams(ctx, aggtypes.DefaultParams())
		case "receive-disabled":
			w.tpB.IBCTransferKeeper.SetParams(ctx, transfertypes.NewParams(true, true))
		case "evm-calls-disabled":
			ep := w.tpB.EvmKeeper.GetParams(ctx)
			ep.EnableCall = true
			w.tpB.EvmKeeper.SetParams(ctx, ep)
		case "toggle-pair":
			// the pair may have been deleted meanwhile (self-destructed token)
			_, _ = k.ToggleRelay(ctx, p.voucher)
		case "pause-token", "unpause-token":
			from := aggtypes.ModuleAddress
			if p.kind != tkModule {
				from = w.deployer
			}
			other := "unpause"
			if mu == "unpause-token" {
				other = "pause"
			}
			_ = w.evmCall(ctx, from, p.token, other)
		}
	}
}

// ---------------------------------------------------------------- oracles

// judgeAcks is oracle (2): same acknowledgement from middleware and wrapped module.
func (m *monitor) judgeAcks(caseID, layer string, s *spec, mw, in ackView, detail map[string]interface{}) {
	if in.Class == "panic" {
		m.note("transfer module panicked", fmt.Sprintf("%s: %s", s.key(layer), in.Panic))
		m.count(layer + "_inner_panic_judged_none")
		if mw.Class != "panic" {
			m.count(layer + "_inner_panic_only")
		}
		return
	}
	if mw.Class == "panic" {
		m.r.Violation(caseID, "callback/mw-panic/inner="+in.Class, detail)
		return
	}
	if mw.Class != in.Class {
		m.r.Violation(caseID, fmt.Sprintf("callback/ack-differs/mw=%s,inner=%s", mw.Class, in.Class), detail)
		return
	}
	if !bytes.Equal(mw.raw, in.raw) {
		m.r.Violation(caseID, "callback/ack-bytes-differ/"+in.Class, detail)
	}
}

func sub(a, b string) (*big.Int, bool) {
	x, ok1 := new(big.Int).SetString(a, 10)
	y, ok2 := new(big.Int).SetString(b, 10)
	if !ok1 || !ok2 {
		return nil, a == b // both the same non-numeric observation (e.g. destroyed contract): "unchanged"
	}
	return x.Sub(x, y), true
}

func classify(d *big.Int, same bool, amt *big.Int) string {
	if d == nil {
		if same {
			return "0"
		}
		return "unreadable"
	}
	switch {
	case d.Sign() == 0:
		return "0"
	case d.Cmp(amt) == 0:
		return "+amount"
	case new(big.Int).Neg(d).Cmp(amt) == 0:
		return "-amount"
	}
	return "other"
}

// judgeConversion is oracle (3). ref is the branch on which only the transfer
// application ran (the receiver holds the received vouchers there), got is the
// branch on which the middleware ran. It returns "converted", "untouched" or ""
// (violation reported / not judged).
func (m *monitor) judgeConversion(caseID, layer string, s *spec, pre, ref, got obs, detail map[string]interface{}) string {
	amt := s.amt
	// harness sanity: the reference branch must show the plain ICS-20 effect
	if d, _ := sub(ref.Voucher, pre.Voucher); d == nil || d.Cmp(amt) != 0 {
		m.count(layer + "_reference_without_plain_effect")
		m.note("reference branch without the plain ICS-20 effect", fmt.Sprintf("%s pre=%s ref=%s", s.key(layer), pre.Voucher, ref.Voucher))
		return ""
	}
	dv, _ := sub(got.Voucher, ref.Voucher)
	de, _ := sub(got.Escrow, ref.Escrow)
	ds, _ := sub(got.Supply, ref.Supply)
	if len(s.recvAcc) != 20 {
		// which EVM account belongs to such a receiver is not pinned (see Assume), so the token side is not judged; the
		// coin side is: either the receiver's vouchers are untouched and the module's voucher escrow / the voucher supply did
		// not move either, or the receiver lost exactly the amount
		vc, ec, sc := classify(dv, true, s.amt), classify(de, true, s.amt), classify(ds, true, s.amt)
		detail["shape"] = fmt.Sprintf("voucher=%s,module-voucher=%s,voucher-supply=%s", vc, ec, sc)
		switch {
		case vc == "0" && ec == "0" && sc == "0":
			m.count(layer + "_receiver_not_20_bytes_untouched")
		case vc == "-amount" && (ec == "+amount" && sc == "0" || ec == "0" && sc == "-amount"):
			m.count(layer + "_receiver_not_20_bytes_coin_side_converted")
		default:
			m.r.Violation(caseID, fmt.Sprintf("atomicity/receiver-not-20-bytes/voucher=%s,module-voucher=%s,voucher-supply=%s", vc, ec, sc), detail)
		}
		return ""
	}
	p := m.w.pairs[s.Voucher]
	vc, ec, sc := classify(dv, true, amt), classify(de, true, amt), classify(ds, true, amt)
	tokChanged := []string{}
	pairTok := "0"
	modTok := "0"
	for _, t := range m.w.tokens {
		h := t.Hex()
		d, same := sub(got.Tokens[h], ref.Tokens[h])
		c := classify(d, same, amt)
		dm, samem := sub(got.ModTokens[h], ref.ModTokens[h])
		cm := classify(dm, samem, amt)
		dt, samet := sub(got.TokSupply[h], ref.TokSupply[h])
		ct := classify(dt, samet, amt)
		if p != nil && t == p.token {
			pairTok, modTok = c, cm
			// token supply must move with the mint for module-owned tokens and not at all otherwise
			if p.kind == tkModule && ct != c {
				tokChanged = append(tokChanged, "supply("+ct+")")
			}
			if p.kind != tkModule && ct != "0" {
				tokChanged = append(tokChanged, "supply("+ct+")")
			}
			continue
		}
		if c != "0" || cm != "0" || ct != "0" {
			tokChanged = append(tokChanged, "other-token")
		}
	}
	sort.Strings(tokChanged)
	shape := fmt.Sprintf("voucher=%s,token=%s,module-voucher=%s,voucher-supply=%s,module-token=%s", vc, pairTok, ec, sc, modTok)
	if len(tokChanged) > 0 {
		shape += ",also=" + strings.Join(tokChanged, "+")
	}
	detail["shape"] = shape
	switch {
	case shape == "voucher=0,token=0,module-voucher=0,voucher-supply=0,module-token=0":
		return "untouched"
	case p != nil && p.kind == tkModule && shape == "voucher=-amount,token=+amount,module-voucher=+amount,voucher-supply=0,module-token=0":
		return "converted"
	case p != nil && p.kind != tkModule && shape == "voucher=-amount,token=+amount,module-voucher=0,voucher-supply=-amount,module-token=-amount":
		// pair owned by an external contract: the module releases escrowed tokens and burns the vouchers
		return "converted"
	case p != nil && s.RecvKind == "token-contract" && common20(s.recvAcc) == p.token.Hex():
		// the receiver is the pair's own token contract: its token balance and the
		// supply views coincide in ways the shapes above do not enumerate; not judged
		m.count(layer + "_receiver_is_pair_token_unjudged")
		return ""
	}
	m.r.Violation(caseID, "atomicity/partial/"+shape, detail)
	return ""
}

func common20(a sdk.AccAddress) string { return "0x" + fmt.Sprintf("%x", []byte(a)) }

// expectation cross-checks the generator's ground truth against the reference module.
func (m *monitor) expectation(layer string, s *spec, in ackView) {
	if s.Expect == "either" || in.Class == "panic" {
		return
	}
	if s.Expect != in.Class {
		m.count("expectation_mismatch")
		if len(m.mismatch) < 6 {
			m.mismatch = append(m.mismatch, fmt.Sprintf("%s: expect=%s inner=%s %s", s.key(layer), s.Expect, in.Class, in.Bytes))
		}
	}
}

// ---------------------------------------------------------------- callback level

func (m *monitor) packetFor(s *spec, seq uint64) channeltypes.Packet {
	c := m.w.chans[s.Ch]
	th := clienttypes.NewHeight(clienttypes.ParseChainID(m.w.B.ChainID), uint64(m.w.B.CurrentHeader.Height)+100000)
	return channeltypes.NewPacket(s.data(), seq, c.srcPort, c.srcChan, c.dstPort, c.dstChan, th, 0)
}

func (m *monitor) callbackCase(id string) {
	w := m.w
	rng := m.r.Rng(id)
	s := w.genSpec(rng, false)
	base, _ := w.bctx().CacheContext()
	done := m.applyMuts(base, s)
	pkt := m.packetFor(s, 7_000_000+uint64(rng.Intn(1000)))

	ctxM, _ := base.CacheContext()
	ctxI, _ := base.CacheContext()
	ctxM = ctxM.WithEventManager(sdk.NewEventManager())
	ctxI = ctxI.WithEventManager(sdk.NewEventManager())
	ackI := m.runModule(w.inner, ctxI, pkt)
	ackM := m.runModule(w.mw, ctxM, pkt)

	detail := map[string]interface{}{"layer": "callback", "case": s, "mutations_applied": done, "mw_ack": ackM, "inner_ack": ackI}
	m.r.Eval(s.key("cb"), ackI.Class != "panic" && ackM.Class != "panic")
	m.count("cb_cases")
	m.count("cb_inner_" + ackI.Class)
	m.count("cb_mw_" + ackM.Class)
	m.expectation("cb", s, ackI)
	m.judgeAcks(id, "cb", s, ackM, ackI, detail)

	for _, d := range done {
		if d == "evm-calls-disabled" {
			// the harness reads token balances through the EVM as well: with calls switched off only the acknowledgement
			// (and a panic of the middleware) is judged
			m.count("cb_evm_calls_disabled_ack_only")
			return
		}
	}
	if ackI.Class != "success" || ackM.Class == "panic" || s.amt == nil || s.recvAcc == nil {
		return
	}
	pre := w.observe(base, s.recvAcc, s.Voucher)
	ref := w.observe(ctxI, s.recvAcc, s.Voucher)
	got := w.observe(ctxM, s.recvAcc, s.Voucher)
	detail["pre"], detail["transfer_only"], detail["with_middleware"] = pre, ref, got
	out := m.judgeConversion(id, "cb", s, pre, ref, got, detail)
	p := w.pairs[s.Voucher]
	switch out {
	case "converted":
		m.count("cb_converted")
		m.count("cb_converted_" + string(p.kind))
	case "untouched":
		m.count("cb_untouched")
		if p != nil {
			m.count("cb_untouched_registered_" + s.DenomKind)
			if failsHalfWay(s, done) {
				m.count("cb_untouched_after_failed_conversion")
			}
		}
		// strong form of "untouched": apart from events nothing distinguishes the two branches
		// (a pair whose token contract was destroyed may be removed from the registry)
		m.judgeStateEqual(id, "cb", s, done, ctxI, ctxM, detail)
	}
	if m.cnt["cb_cases"] <= 3 {
		m.r.Sample(map[string]interface{}{"layer": "callback", "case": s, "mw_ack": ackM, "inner_ack": ackI, "conversion": out})
	}
}

// failsHalfWay tells whether the conversion of this case gets past the escrow
// of the vouchers and then fails (paused token, siphoning / approving token,
// dry module escrow): the cases in which only the cache context protects the receiver.
func failsHalfWay(s *spec, done []string) bool {
	switch s.DenomKind {
	case "paused", "siphon", "delay", "extdry", "returns-false":
		return true
	}
	for _, d := range done {
		if d == "pause-token" || d == "drain-module-tokens" {
			return true
		}
	}
	return false
}

var diffStores = []string{"bank", "evm", "aggregate", "transfer", "acc", "ibc", "params", "capability"}

func (m *monitor) judgeStateEqual(caseID, layer string, s *spec, done []string, ctxRef, ctxGot sdk.Context, detail map[string]interface{}) {
	// full dumps are expensive: always in quick, every 4th case in thorough
	if m.r.Thorough() && m.cnt[layer+"_untouched"]%4 != 0 {
		return
	}
	a := m.w.node.Snap(ctxRef, diffStores...)
	b := m.w.node.Snap(ctxGot, diffStores...)
	diff := core.DiffSnap(a, b)
	m.count(layer + "_untouched_full_state_compared")
	if len(diff) == 0 {
		return
	}
	dead := s.DenomKind == "dead"
	for _, d := range done {
		if d == "suicide-token" {
			dead = true
		}
	}
	stores := map[string]bool{}
	for _, d := range diff {
		stores[d.Store] = true
	}
	if dead && len(stores) == 1 && stores["aggregate"] {
		m.count(layer + "_dead_pair_removed")
		return
	}
	var names []string
	for k := range stores {
		names = append(names, k)
	}
	sort.Strings(names)
	detail["state_diff"] = core.TrimDiff(diff, 12)
	m.r.Violation(caseID, "atomicity/vouchers-untouched-but-state-differs/"+strings.Join(names, "+"), detail)
}

// ---------------------------------------------------------------- full stack

type fsItem struct {
	s    *spec
	pkt  channeltypes.Packet
	mode string // honest | forged
}

func (m *monitor) fullStack(caseID string, n int) {
	w := m.w
	rng := m.r.Rng(caseID)
	step := 0
	for step < n {
		// ---- a batch of packets committed on A
		batch := 1 + rng.Intn(4)
		var items []fsItem
		byChan := map[int]bool{}
		for i := 0; i < batch && step+i < n; i++ {
			s := w.genSpec(rng, true)
			if s.Raw != nil && len(s.Raw) == 0 {
				// IBC core refuses packets without data before any application sees them (Packet.ValidateBasic)
				s.Raw, s.RawKind = []byte("{}"), "empty-object"
			}
			it := fsItem{s: s, mode: "forged"}
			if s.honest && rng.Intn(10) < 7 {
				it.mode = "honest"
			}
			ok := false
			if it.mode == "honest" {
				it.pkt, ok = m.sendHonest(s)
				if !ok {
					it.mode = "forged"
				}
			}
			if it.mode == "forged" {
				w.forgedSeq++
				it.pkt = m.packetFor(s, w.forgedSeq)
				if err := it.pkt.ValidateBasic(); err != nil {
					panic(fmt.Sprintf("generated a packet IBC core would not carry: %v", err))
				}
				w.tpA.IBCKeeper.ChannelKeeper.SetPacketCommitment(w.A.GetContext(), it.pkt.SourcePort, it.pkt.SourceChannel, it.pkt.Sequence, channeltypes.CommitPacket(w.A.Codec, it.pkt))
			}
			items = append(items, it)
			byChan[s.Ch] = true
		}
		step += len(items)
		// the commitments must be in a committed version of A's store before the header that B learns is produced
		w.commit(w.A)
		// honest relaying: commit A, update B's clients of the channels used
		proofAt := map[int]int64{}
		for ch := range w.chans {
			if byChan[ch] {
				must(w.chans[ch].path.EndpointB.UpdateClient(), "update client on B")
				fixHeader(w.B)
				fixHeader(w.A)
				proofAt[ch] = w.A.App.LastBlockHeight() // the height B's client of this channel now knows
			}
		}
		// harness check: A really committed what will be proven
		for i := range items {
			p := items[i].pkt
			got := w.tpA.IBCKeeper.ChannelKeeper.GetPacketCommitment(w.A.GetContext(), p.SourcePort, p.SourceChannel, p.Sequence)
			if !bytes.Equal(got, channeltypes.CommitPacket(w.A.Codec, p)) {
				m.r.Inconclusive("full stack: packet %d/%s/%d is not committed on A as constructed", i, p.SourceChannel, p.Sequence)
				return
			}
		}

		// ---- one block on B carrying the MsgRecvPackets
		w.beginJudgedBlock(w.B)
		for i := range items {
			m.recvOne(caseID, &items[i], proofAt[items[i].s.Ch])
		}
		if err := w.endJudgedBlock(w.B); err != nil {
			m.r.Inconclusive("full stack: EndBlock on B panicked after step %d (x/crisis invariants are asserted there): %v", step, err)
			return
		}
	}
}

// sendHonest performs a real MsgTransfer on A (through A's own middleware stack)
// and returns the packet A committed.
func (m *monitor) sendHonest(s *spec) (channeltypes.Packet, bool) {
	w := m.w
	c := w.chans[s.Ch]
	if s.amt == nil || s.Raw != nil || !s.amt.IsInt64() {
		return channeltypes.Packet{}, false
	}
	// denomination as A's bank knows it
	denomOnA := s.Denom
	if tr := transfertypes.ParseDenomTrace(s.Denom); tr.Path != "" {
		denomOnA = tr.IBCDenom()
	}
	coin := sdk.Coin{Denom: denomOnA, Amount: sdk.NewIntFromBigInt(s.amt)}
	if coin.Validate() != nil || w.tpA.BankKeeper.GetBalance(w.A.GetContext(), w.A.SenderAccount.GetAddress(), denomOnA).Amount.LT(coin.Amount) {
		return channeltypes.Packet{}, false
	}
	seq, found := w.tpA.IBCKeeper.ChannelKeeper.GetNextSequenceSend(w.A.GetContext(), c.srcPort, c.srcChan)
	if !found {
		return channeltypes.Packet{}, false
	}
	th := clienttypes.NewHeight(clienttypes.ParseChainID(w.B.ChainID), uint64(w.B.CurrentHeader.Height)+100000)
	msg := transfertypes.NewMsgTransfer(c.srcPort, c.srcChan, coin, s.Sender, s.Receiver, th, 0)
	if msg.ValidateBasic() != nil {
		return channeltypes.Packet{}, false
	}
	w.beginJudgedBlock(w.A)
	res, err := w.deliverOne(w.A, msg)
	if e := w.endJudgedBlock(w.A); e != nil {
		panic(fmt.Sprintf("EndBlock on A: %v", e))
	}
	if err != nil || res.Code != 0 {
		m.count("fs_honest_send_refused")
		return channeltypes.Packet{}, false
	}
	m.count("fs_honest_sends")
	return channeltypes.NewPacket(s.data(), seq, c.srcPort, c.srcChan, c.dstPort, c.dstChan, th, 0), true
}

func (m *monitor) recvOne(caseID string, it *fsItem, proofAt int64) {
	w := m.w
	s := it.s
	ck := w.tpB.IBCKeeper.ChannelKeeper
	pkt := it.pkt

	// registry mutations go into B's deliver state (they are part of the history)
	done := m.applyMuts(w.bctx(), s)
	defer func() { m.undoMuts(w.bctx(), s, done) }()

	// reference: the transfer application alone on a twin branch of the state the transaction will see
	ctxI, _ := w.bctx().CacheContext()
	ackI := m.runModule(w.inner, ctxI.WithEventManager(sdk.NewEventManager()), pkt)
	var pre, ref obs
	preBal := ""
	if s.recvAcc != nil {
		preBal = w.bankBalance(w.bctx(), s.recvAcc, s.Voucher)
	}
	judgeConv := ackI.Class == "success" && s.amt != nil && s.recvAcc != nil
	if judgeConv {
		pre = w.observe(w.bctx(), s.recvAcc, s.Voucher)
		ref = w.observe(ctxI, s.recvAcc, s.Voucher)
	}

	key := host.PacketCommitmentKey(pkt.SourcePort, pkt.SourceChannel, pkt.Sequence)
	proof, proofHeight := w.A.QueryProofAtHeight(key, proofAt)
	msg := channeltypes.NewMsgRecvPacket(pkt, proof, proofHeight, w.relayer.String())
	res, err := w.deliverOne(w.B, msg)
	if err != nil {
		m.r.Inconclusive("full stack: cannot build the MsgRecvPacket transaction: %v", err)
		return
	}

	ctx := w.bctx()
	_, receipt := ck.GetPacketReceipt(ctx, pkt.DestinationPort, pkt.DestinationChannel, pkt.Sequence)
	stored, ackFound := ck.GetPacketAcknowledgement(ctx, pkt.DestinationPort, pkt.DestinationChannel, pkt.Sequence)
	wroteAckEvent := hasEvent(res.Events, channeltypes.EventTypeWriteAck)
	detail := map[string]interface{}{"layer": "full-stack", "mode": it.mode, "case": s, "mutations_applied": done, "sequence": pkt.Sequence,
		"inner_ack": ackI, "tx_code": res.Code, "tx_log": trunc(res.Log, 300), "receipt_present": receipt, "ack_present": ackFound,
		"stored_ack_commitment": core.Hex(stored), "write_acknowledgement_event": wroteAckEvent}

	m.r.Eval(s.key("fs"), ackI.Class != "panic" && res.Code == 0)
	m.count("fs_cases")
	m.count("fs_" + it.mode)
	m.count("fs_inner_" + ackI.Class)
	m.expectation("fs", s, ackI)
	if m.cnt["fs_cases"] <= 3 {
		m.r.Sample(map[string]interface{}{"layer": "full-stack", "mode": it.mode, "case": s, "inner_ack": ackI, "tx_code": res.Code, "ack_present": ackFound, "receipt_present": receipt})
	}

	if ackI.Class == "panic" {
		// the transfer application itself cannot process the packet (arithmetic overflow in bank): nothing to compare
		return
	}
	if res.Code != 0 {
		// proof and packet are genuine and the transfer application alone handles the packet
		m.r.Violation(caseID, "recv/tx-failed-although-transfer-app-acknowledges/inner="+ackI.Class, detail)
		return
	}
	if !receipt {
		m.r.Violation(caseID, "recv/no-receipt-after-accepted-recv", detail)
		return
	}
	// oracle (1): the committed acknowledgement is the transfer application's
	want := channeltypes.CommitAcknowledgement(ackI.raw)
	detail["expected_ack_commitment"] = core.Hex(want)
	switch {
	case !ackFound && ackI.Class == "success":
		m.r.Violation(caseID, "ack/missing-after-successful-recv", detail)
	case !ackFound:
		m.r.Violation(caseID, "ack/missing-after-failed-recv", detail)
	case !bytes.Equal(stored, want):
		m.r.Violation(caseID, "ack/differs-from-transfer-app/inner="+ackI.Class, detail)
	default:
		m.count("fs_ack_committed_as_produced")
	}

	if ackI.Class == "error" && s.recvAcc != nil {
		// a failed receive changes no balance
		now := w.bankBalance(ctx, s.recvAcc, s.Voucher)
		before := preBal
		if now != before {
			detail["receiver_voucher_before"], detail["receiver_voucher_after"] = before, now
			m.r.Violation(caseID, "recv/balance-changed-by-failed-recv", detail)
		}
	}
	if !judgeConv {
		return
	}
	got := w.observe(ctx, s.recvAcc, s.Voucher)
	detail["pre"], detail["transfer_only"], detail["with_middleware"] = pre, ref, got
	switch m.judgeConversion(caseID, "fs", s, pre, ref, got, detail) {
	case "converted":
		m.count("fs_converted")
	case "untouched":
		m.count("fs_untouched")
		if p := w.pairs[s.Voucher]; p != nil && failsHalfWay(s, done) {
			m.count("fs_untouched_after_failed_conversion")
		}
	}
}

func hasEvent(evs []abci.Event, typ string) bool {
	for _, e := range evs {
		if e.Type == typ {
			return true
		}
	}
	return false
}
