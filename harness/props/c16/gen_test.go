package c16

import (
	"encoding/json"
	"fmt"
	"math/big"
	"math/rand"
	"strings"

	sdk "github.com/cosmos/cosmos-sdk/types"
	"github.com/cosmos/cosmos-sdk/types/bech32"
	authtypes "github.com/cosmos/cosmos-sdk/x/auth/types"
	distrtypes "github.com/cosmos/cosmos-sdk/x/distribution/types"
	govtypes "github.com/cosmos/cosmos-sdk/x/gov/types"
	stakingtypes "github.com/cosmos/cosmos-sdk/x/staking/types"

	transfertypes "github.com/cosmos/ibc-go/v3/modules/apps/transfer/types"

	aggtypes "github.com/teleport-network/teleport/x/aggregate/types"

	"verif/harness/core"
)

// spec is one generated ICS-20 packet together with the registry mutations
// applied before it and the generator's ground truth.
type spec struct {
	Ch        int      `json:"channel"`
	DenomKind string   `json:"denom_kind"`
	Denom     string   `json:"denom"`
	Voucher   string   `json:"voucher_on_B"`
	Returning bool     `json:"returning"`
	AmtKind   string   `json:"amount_kind"`
	Amount    string   `json:"amount"`
	RecvKind  string   `json:"receiver_kind"`
	Receiver  string   `json:"receiver"`
	Sender    string   `json:"sender"`
	RawKind   string   `json:"raw_kind,omitempty"`
	Raw       []byte   `json:"raw,omitempty"`
	Muts      []string `json:"mutations"`
	// Expect is what the generator knows about the transfer application's
	// verdict: "success", "error" or "either".
	Expect string `json:"expect"`

	recvAcc sdk.AccAddress
	amt     *big.Int // nil when the amount is not a positive integer <= 2^256-1
	honest  bool     // can be produced by an honest MsgTransfer on A
}

func (s *spec) key(layer string) string {
	return fmt.Sprintf("%s|ch%d|%s|%q|%s|%q|%s|%s|%q|%v", layer, s.Ch, s.DenomKind, s.Denom, s.AmtKind, s.Amount, s.RecvKind, s.RawKind, s.Raw, s.Muts)
}

func (s *spec) data() []byte {
	if s.Raw != nil {
		return s.Raw
	}
	return transfertypes.NewFungibleTokenPacketData(s.Denom, s.Amount, s.Sender, s.Receiver).GetBytes()
}

var two = big.NewInt(2)

func pow2(n int64) *big.Int { return new(big.Int).Exp(two, big.NewInt(n), nil) }

type weighted struct {
	w int
	k string
}

func pick(r *rand.Rand, ws []weighted) string {
	t := 0
	for _, x := range ws {
		t += x.w
	}
	n := r.Intn(t)
	for _, x := range ws {
		if n < x.w {
			return x.k
		}
		n -= x.w
	}
	return ws[len(ws)-1].k
}

var denomKinds = []weighted{
	{26, "enabled"}, {7, "multi2nd"}, {5, "hop"}, {5, "hop-via-our-own-channel-id"}, {6, "disabled"}, {8, "paused"}, {4, "dead"}, {8, "ext"}, {4, "extdry"}, {5, "siphon"}, {5, "delay"}, {6, "returns-false"},
	{6, "unregistered"}, {4, "a-native"}, {5, "fresh"}, {5, "returning-stake"}, {5, "returning-bcoin"}, {2, "returning-overdraw"},
	{2, "returning-unknown"}, {6, "hostile"},
}

var amountKinds = []weighted{
	{48, "small"}, {8, "one"}, {8, "1e18"}, {4, "2^63..2^64"}, {4, "2^64"}, {4, "2^128"}, {4, "2^255"}, {1, "2^256-1"}, {3, "2^256"}, {2, "2^300"},
	{4, "zero"}, {3, "negative"}, {2, "empty"}, {2, "alpha"}, {2, "decimal"}, {1, "exp"}, {2, "plus"}, {2, "leading-zeros"}, {1, "space"},
	{1, "hex"}, {1, "base-prefix"}, {1, "underscore"}, {1, "arabic"}, {1, "long-digits"},
}

var recvKinds = []weighted{
	{60, "user"}, {30, "fresh"}, {4, "fresh32"}, {5, "user32"}, {6, "module-blocked"}, {2, "distribution"}, {3, "bad-checksum"}, {3, "wrong-prefix"},
	{2, "empty"}, {2, "hex"}, {2, "uppercase"}, {2, "garbage"}, {2, "token-contract"}, {1, "spaces"},
}

var rawKinds = []string{"binary", "empty-bytes", "empty-object", "array", "null", "truncated", "unknown-field", "amount-number", "reordered", "whitespace", "duplicate-key", "nested"}

var mutKinds = []weighted{
	{3, "evm-calls-disabled"},
	{10, "params-off"}, {10, "toggle-pair"}, {10, "pause-token"}, {6, "unpause-token"}, {6, "suicide-token"}, {4, "receive-disabled"},
	{4, "drain-module-tokens"}, {4, "evm-hook-off"},
}

// genSpec draws one case. fullStack restricts the choices to what can be
// carried by a committed block of B without breaking unrelated invariants.
func (w *world) genSpec(r *rand.Rand, fullStack bool) *spec {
	s := &spec{Ch: r.Intn(len(w.chans)), Sender: w.A.SenderAccount.GetAddress().String(), Expect: "success", honest: true}
	c := w.chans[s.Ch]
	retPrefix := c.srcPort + "/" + c.srcChan + "/"

	// ---- denomination
	s.DenomKind = pick(r, denomKinds)
	lbl := func(l string) *pairInfo { return w.byLabel[l] }
	usePair := func(p *pairInfo) { s.Ch = p.ch; s.Denom = p.base }
	switch s.DenomKind {
	case "enabled":
		usePair(lbl([]string{"enabled0", "enabled1"}[r.Intn(2)]))
	case "multi2nd":
		usePair(lbl("multi1"))
	case "hop":
		usePair(lbl("hop0"))
		s.honest = false
	case "hop-via-our-own-channel-id":
		// a two-hop coin whose FIRST hop happens to read like our own end of this channel (identifiers are per chain,
		// channel-0 exists everywhere); not a returning coin: the source prefix is another one. The voucher it becomes is
		// not the registered one-hop voucher, which receivers hold as well
		p := lbl("multi0") // every user holds a few million of its one-hop voucher
		s.Ch = p.ch
		cc := w.chans[s.Ch]
		s.Denom = cc.dstPort + "/" + cc.dstChan + "/" + p.base
		s.honest = false
	case "disabled":
		usePair(lbl("disabled0"))
	case "paused":
		usePair(lbl("paused0"))
	case "dead":
		usePair(lbl("dead0"))
	case "ext":
		usePair(lbl("ext0"))
	case "extdry":
		usePair(lbl("extdry1"))
	case "siphon":
		usePair(lbl("siphon0"))
	case "delay":
		usePair(lbl("delay0"))
	case "returns-false":
		usePair(lbl([]string{"lie0", "liemove0"}[r.Intn(2)]))
	case "unregistered":
		s.Denom = "ufree"
	case "a-native":
		s.Denom = sdk.DefaultBondDenom
	case "fresh":
		s.Denom = fmt.Sprintf("unew%d", r.Intn(1000))
		if r.Intn(3) == 0 {
			s.Denom = "unew"
		} else {
			s.honest = false
		}
	case "returning-stake":
		s.Denom = retPrefix + sdk.DefaultBondDenom
	case "returning-bcoin":
		s.Denom = retPrefix + "bcoin"
	case "returning-overdraw":
		s.Denom = retPrefix + "bcoin"
		s.Expect = "error"
		s.honest = false
	case "returning-unknown":
		s.Denom = retPrefix + "transfer/channel-77/uxyz"
		s.Expect = "error" // nothing escrowed under that denomination
		s.honest = false
	case "hostile":
		s.honest = false
		s.Expect = "either"
		switch r.Intn(9) {
		case 0:
			s.Denom = ""
			s.Expect = "error"
		case 1:
			s.Denom = "ibc/" + strings.Repeat("AB", 32)
		case 2:
			s.Denom = "transfer/"
		case 3:
			s.Denom = "UATOM"
		case 4:
			s.Denom = "u atom" // un-prefixed base denominations are not validated by ICS-20
		case 5:
			s.Denom = "a/b/c"
		case 6:
			s.Denom = "u" + strings.Repeat("x", 150+r.Intn(100))
		case 7:
			s.Denom = core.GenUTF8(r, 20)
		default:
			s.Denom = retPrefix // returning prefix with an empty base
		}
	}
	c = w.chans[s.Ch]
	s.Voucher, s.Returning = w.voucherOf(s.Ch, s.Denom)

	// ---- amount
	s.AmtKind = pick(r, amountKinds)
	valid := true
	switch s.AmtKind {
	case "small":
		s.amt = big.NewInt(int64(2 + r.Intn(1_000_000)))
	case "one":
		s.amt = big.NewInt(1)
	case "1e18":
		s.amt = new(big.Int).Mul(big.NewInt(int64(1+r.Intn(9))), new(big.Int).Exp(big.NewInt(10), big.NewInt(18), nil))
	case "2^63..2^64":
		// above the signed, within the unsigned 64-bit range (9.2 to 18.4 whole coins at 18 decimals)
		s.amt = new(big.Int).Add(pow2(63), new(big.Int).SetUint64(r.Uint64()>>1))
		if r.Intn(3) == 0 {
			s.amt = new(big.Int).Add(pow2(63), big.NewInt(int64(r.Intn(2))))
		}
	case "2^64":
		s.amt = new(big.Int).Add(pow2(64), big.NewInt(int64(r.Intn(3)-1)))
	case "2^128":
		s.amt = new(big.Int).Add(pow2(128), big.NewInt(int64(r.Intn(1000))))
	case "2^255":
		s.amt = new(big.Int).Add(pow2(255), big.NewInt(int64(r.Intn(3)-1)))
	case "2^256-1":
		s.amt = new(big.Int).Sub(pow2(256), big.NewInt(1))
	case "2^256":
		s.Amount, valid = pow2(256).String(), false
	case "2^300":
		s.Amount, valid = pow2(300).String(), false
	case "zero":
		s.Amount, valid = "0", false
	case "negative":
		s.Amount, valid = fmt.Sprint(-1-r.Intn(1000)), false
	case "empty":
		s.Amount, valid = "", false
	case "alpha":
		s.Amount, valid = []string{"abc", "NaN", "ten", "1O"}[r.Intn(4)], false
	case "decimal":
		s.Amount, valid = []string{"1.0", "0.5", "10,5"}[r.Intn(3)], false
	case "exp":
		s.Amount, valid = "1e3", false
	case "space":
		s.Amount, valid = " 5", false
	case "hex", "base-prefix", "underscore", "plus", "leading-zeros":
		// sdk.Int parses with base 0: sign, 0x/0o/0b prefixes, a leading 0 (octal) and '_' separators are accepted
		v := int64(1 + r.Intn(100000))
		switch s.AmtKind {
		case "hex":
			s.Amount = fmt.Sprintf("0x%x", v)
		case "base-prefix":
			s.Amount = []string{fmt.Sprintf("0b%b", v), fmt.Sprintf("0o%o", v), fmt.Sprintf("0X%X", v)}[r.Intn(3)]
		case "underscore":
			s.Amount = fmt.Sprintf("%d_000", v)
		case "plus":
			s.Amount = fmt.Sprintf("+%d", v)
		case "leading-zeros":
			s.Amount = fmt.Sprintf("00%d", v)
		}
		if x, ok := new(big.Int).SetString(s.Amount, 0); ok {
			s.amt = x
		}
		s.honest = false
		s.Expect = "either"
	case "arabic":
		s.Amount, valid = "١٢٣", false
	case "long-digits":
		s.Amount, valid = strings.Repeat("9", 100+r.Intn(100)), false
	}
	if !valid {
		s.Expect = "error"
		s.honest = false
	} else if s.Amount == "" {
		s.Amount = s.amt.String()
	}
	valid = valid && s.amt != nil
	if s.DenomKind == "returning-overdraw" && valid {
		// more than was ever escrowed on this channel
		s.amt = new(big.Int).Add(big.NewInt(400_000_001), big.NewInt(int64(r.Intn(1000))))
		s.Amount = s.amt.String()
		s.AmtKind = "overdraw"
	}
	if valid && s.amt.BitLen() > 200 && s.Expect == "success" {
		// supply or balance arithmetic may overflow inside bank/ERC-20: the statement does not pin the verdict
		s.Expect = "either"
		s.honest = false
	}
	if valid && s.amt.BitLen() > 64 {
		s.honest = false // A's sender does not hold that much
	}
	if s.Returning && valid && s.amt.Cmp(big.NewInt(100_000)) > 0 && s.Expect == "success" {
		s.Expect = "either" // the escrow account may not hold enough
		s.honest = false
	}

	// ---- receiver
	s.RecvKind = pick(r, recvKinds)
	if fullStack && s.RecvKind == "distribution" {
		s.RecvKind = "user" // would (rightly, and independently of the middleware) break the distribution invariant asserted by x/crisis
	}
	hrp := sdk.GetConfig().GetBech32AccountAddrPrefix()
	freshBytes := func(n int) []byte {
		b := make([]byte, n)
		r.Read(b)
		return b
	}
	badRecv := false
	switch s.RecvKind {
	case "user":
		s.recvAcc = w.users[r.Intn(len(w.users))]
		s.Receiver = s.recvAcc.String()
	case "fresh":
		s.recvAcc = sdk.AccAddress(freshBytes(20))
		s.Receiver = s.recvAcc.String()
	case "fresh32":
		s.recvAcc = sdk.AccAddress(freshBytes(32))
		s.Receiver = s.recvAcc.String()
	case "user32":
		// a 32-byte account whose last 20 bytes are those of an existing user (who holds vouchers and tokens of his own)
		u := w.users[r.Intn(len(w.users))]
		s.recvAcc = sdk.AccAddress(append(freshBytes(12), u.Bytes()...))
		s.Receiver = s.recvAcc.String()
	case "module-blocked":
		names := []string{transfertypes.ModuleName, aggtypes.ModuleName, authtypes.FeeCollectorName, govtypes.ModuleName, stakingtypes.BondedPoolName}
		s.recvAcc = authtypes.NewModuleAddress(names[r.Intn(len(names))])
		s.Receiver = s.recvAcc.String()
		badRecv = true
	case "distribution":
		s.recvAcc = authtypes.NewModuleAddress(distrtypes.ModuleName)
		s.Receiver = s.recvAcc.String()
		if s.Expect == "success" {
			s.Expect = "either"
		}
	case "bad-checksum":
		a := sdk.AccAddress(freshBytes(20)).String()
		last := a[len(a)-1]
		repl := byte('q')
		if last == 'q' {
			repl = 'p'
		}
		s.Receiver = a[:len(a)-1] + string(repl)
		badRecv = true
	case "wrong-prefix":
		s.Receiver, _ = bech32.ConvertAndEncode("x"+hrp, freshBytes(20))
		badRecv = true
	case "empty":
		s.Receiver = ""
		badRecv = true
	case "spaces":
		s.Receiver = "   "
		badRecv = true
	case "hex":
		s.Receiver = "0x" + fmt.Sprintf("%x", freshBytes(20))
		badRecv = true
	case "uppercase":
		s.recvAcc = sdk.AccAddress(freshBytes(20))
		s.Receiver = strings.ToUpper(s.recvAcc.String())
		if s.Expect == "success" {
			s.Expect = "either"
		}
	case "garbage":
		s.Receiver = core.GenUTF8(r, 30)
		if _, err := sdk.AccAddressFromBech32(s.Receiver); err == nil {
			s.Receiver = "!" + s.Receiver
		}
		badRecv = true
	case "token-contract":
		s.recvAcc = sdk.AccAddress(w.tokens[r.Intn(len(w.tokens))].Bytes())
		s.Receiver = s.recvAcc.String()
		if s.Expect == "success" {
			s.Expect = "either"
		}
	}
	if badRecv {
		s.Expect = "error"
		s.recvAcc = nil
		if strings.TrimSpace(s.Receiver) == "" {
			s.honest = false // MsgTransfer.ValidateBasic on A refuses it
		}
	}

	// ---- malformed / unusual packet data
	if r.Intn(12) == 0 {
		s.honest = false
		s.RawKind = rawKinds[r.Intn(len(rawKinds))]
		good := transfertypes.NewFungibleTokenPacketData(s.Denom, s.Amount, s.Sender, s.Receiver)
		goodJSON := good.GetBytes()
		q := func(v string) string { b, _ := json.Marshal(v); return string(b) }
		switch s.RawKind {
		case "binary":
			s.Raw = core.GenBytes(r, 60)
			if len(s.Raw) == 0 {
				s.Raw = []byte{0}
			}
			s.Expect = "error"
		case "empty-bytes":
			s.Raw = []byte{}
			s.Expect = "error"
		case "empty-object":
			s.Raw = []byte("{}")
			s.Expect = "error"
		case "array":
			s.Raw = []byte("[]")
			s.Expect = "error"
		case "null":
			s.Raw = []byte("null")
			s.Expect = "error"
		case "truncated":
			s.Raw = goodJSON[:len(goodJSON)-1-r.Intn(len(goodJSON)/2)]
			s.Expect = "error"
		case "unknown-field":
			s.Raw = []byte(strings.Replace(string(goodJSON), "{", `{"memo":"x",`, 1))
			s.Expect = "error"
		case "amount-number":
			s.Raw = []byte(fmt.Sprintf(`{"amount":7,"denom":%s,"receiver":%s,"sender":%s}`, q(s.Denom), q(s.Receiver), q(s.Sender)))
			s.Expect = "error"
		case "reordered":
			s.Raw = []byte(fmt.Sprintf(`{"sender":%s,"receiver":%s,"denom":%s,"amount":%s}`, q(s.Sender), q(s.Receiver), q(s.Denom), q(s.Amount)))
		case "whitespace":
			s.Raw = []byte(fmt.Sprintf("  {\n \"amount\" : %s ,\t\"denom\":%s,\"receiver\":%s,\"sender\":%s }\n", q(s.Amount), q(s.Denom), q(s.Receiver), q(s.Sender)))
		case "duplicate-key":
			s.Raw = []byte(fmt.Sprintf(`{"amount":"1","amount":%s,"denom":%s,"receiver":%s,"sender":%s}`, q(s.Amount), q(s.Denom), q(s.Receiver), q(s.Sender)))
			s.Expect = "either"
		case "nested":
			s.Raw = []byte(fmt.Sprintf(`{"amount":{"v":%s},"denom":%s,"receiver":%s,"sender":%s}`, q(s.Amount), q(s.Denom), q(s.Receiver), q(s.Sender)))
			s.Expect = "error"
		}
	}

	// ---- registry / parameter mutations applied before the packet
	nm := 0
	switch r.Intn(10) {
	case 0, 1, 2:
		nm = 1
	case 3:
		nm = 2
	}
	for i := 0; i < nm; i++ {
		m := pick(r, mutKinds)
		dup := false
		for _, x := range s.Muts {
			if x == m {
				dup = true
			}
		}
		if dup {
			continue
		}
		if fullStack && m == "evm-calls-disabled" {
			continue // the full-stack layer needs the EVM for its own observations
		}
		if fullStack && m == "suicide-token" {
			continue // irreversible; the persistent "dead" pair covers it in committed histories
		}
		s.Muts = append(s.Muts, m)
		if m == "receive-disabled" {
			s.Expect = "error"
		}
	}
	if !fullStack && (s.DenomKind == "dead" || contains(s.Muts, "suicide-token")) && r.Intn(4) != 0 {
		// somebody sends a coin to the address of the destroyed token contract: a plain account (no code) now lives there
		s.Muts = append(s.Muts, "coin-sent-to-destroyed-token-address")
	}
	if s.Muts == nil {
		s.Muts = []string{}
	}
	return s
}

func contains(l []string, x string) bool {
	for _, y := range l {
		if y == x {
			return true
		}
	}
	return false
}
