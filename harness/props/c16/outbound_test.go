package c16

import (
	"fmt"
	"strings"

	sdk "github.com/cosmos/cosmos-sdk/types"
	transfertypes "github.com/cosmos/ibc-go/v3/modules/apps/transfer/types"
	clienttypes "github.com/cosmos/ibc-go/v3/modules/core/02-client/types"
	channeltypes "github.com/cosmos/ibc-go/v3/modules/core/04-channel/types"

	"verif/harness/core"
)

// outboundCase is the sending direction of "the middleware never changes the outcome of an ICS-20 transfer":
// for a transfer that left this chain, the acknowledgement and the timeout are handed to the middleware and to
// the wrapped transfer module on twin branches of one state; the returned error and the complete resulting state
// (refund or no refund) must be the same.
func (m *monitor) outboundCase(id string) {
	w := m.w
	rng := m.r.Rng(id)
	ch := rng.Intn(len(w.chans))
	c := w.chans[ch]
	sender := w.users[rng.Intn(len(w.users))].String()
	var denom, dk string
	switch rng.Intn(6) {
	case 0:
		denom, dk = sdk.DefaultBondDenom, "native-escrowed"
	case 1:
		denom, dk = "bcoin", "native-escrowed-2"
	case 2:
		denom, dk = "ghostcoin", "native-not-escrowed"
	case 3:
		denom, dk = c.dstPort+"/"+c.dstChan+"/"+aDenoms[rng.Intn(len(aDenoms))], "voucher-of-this-channel"
	case 4:
		denom, dk = "transfer/channel-77/other", "voucher-of-other-channel"
	default:
		denom, dk = core.GenUTF8(rng, 30), "hostile"
	}
	var amount, ak string
	switch rng.Intn(6) {
	case 0:
		amount, ak = "0", "zero"
	case 1:
		amount, ak = "999999999999999999999999999999", "above-escrow"
	case 2:
		amount, ak = pickS(rng.Intn(5), "", "-5", "1e3", "0x10", " 7"), "unparsable"
	default:
		amount, ak = fmt.Sprintf("%d", 1+rng.Intn(100000)), "ordinary"
	}
	sk := "account"
	switch rng.Intn(8) {
	case 0:
		sender, sk = core.GenUTF8(rng, 44), "hostile-sender"
	case 1:
		sender, sk = strings.ToUpper(sender), "upper-case-sender"
	}
	data := transfertypes.NewFungibleTokenPacketData(denom, amount, sender, "receiver-on-the-other-side").GetBytes()
	dataKind := "canonical"
	if rng.Intn(10) == 0 {
		data, dataKind = core.GenBytes(rng, 60), "garbage"
	}
	th := clienttypes.NewHeight(clienttypes.ParseChainID(w.A.ChainID), 1_000_000)
	pkt := channeltypes.NewPacket(data, 9_000_000+uint64(rng.Intn(1000)), c.dstPort, c.dstChan, c.srcPort, c.srcChan, th, 0)

	var ack []byte
	var ackKind string
	switch rng.Intn(6) {
	case 0, 1:
		ack, ackKind = channeltypes.NewResultAcknowledgement([]byte{1}).Acknowledgement(), "result"
	case 2, 3:
		ack, ackKind = channeltypes.NewErrorAcknowledgement("refused on the other side").Acknowledgement(), "error"
	case 4:
		ack, ackKind = core.GenBytes(rng, 40), "garbage"
	default:
		// (an acknowledgement naming BOTH oneof fields is not generated: gogoproto's jsonpb picks the field in Go map
		// order, so the wrapped ibc-go module itself answers differently from call to call - third-party behaviour)
		ack, ackKind = []byte(pickS(rng.Intn(4), `{"error":""}`, `{"result":""}`, `{"result":"AQ==","extra":1}`, ` {"result" : "AQ=="} `)), "odd-shape"
	}
	timeout := rng.Intn(3) == 0
	op := "ack/" + ackKind
	if timeout {
		op = "timeout"
	}
	key := fmt.Sprintf("out/%s/ch%d/%s/%s/%s/%s", op, ch, dk, ak, sk, dataKind)

	base, _ := w.bctx().CacheContext()
	ctxM, _ := base.CacheContext()
	ctxI, _ := base.CacheContext()
	ctxM = ctxM.WithEventManager(sdk.NewEventManager())
	ctxI = ctxI.WithEventManager(sdk.NewEventManager())
	run := func(mod interface {
		OnAcknowledgementPacket(sdk.Context, channeltypes.Packet, []byte, sdk.AccAddress) error
		OnTimeoutPacket(sdk.Context, channeltypes.Packet, sdk.AccAddress) error
	}, ctx sdk.Context) (string, string) {
		var res error
		err, panicked := core.Catch(func() error {
			if timeout {
				res = mod.OnTimeoutPacket(ctx, pkt, w.relayer)
			} else {
				res = mod.OnAcknowledgementPacket(ctx, pkt, ack, w.relayer)
			}
			return nil
		})
		switch {
		case panicked:
			return "panic", trunc(err.Error(), 160)
		case res != nil:
			return "error", trunc(res.Error(), 160)
		}
		return "ok", ""
	}
	clsI, msgI := run(w.inner, ctxI)
	clsM, msgM := run(w.mw, ctxM)
	m.r.Eval(key, clsI != "panic" && clsM != "panic")
	m.count("out_cases")
	m.count("out_inner_" + clsI)
	if timeout {
		m.count("out_timeouts")
	} else {
		m.count("out_acks_" + ackKind)
	}
	detail := map[string]interface{}{"layer": "callback-outbound", "op": op, "channel": ch, "denom": denom, "amount": amount, "sender": sender,
		"data_kind": dataKind, "ack": string(ack), "inner": clsI + " " + msgI, "middleware": clsM + " " + msgM}
	if clsI != clsM {
		m.r.Violation(id, fmt.Sprintf("outbound/%s/result-differs/mw=%s,inner=%s", strings.Split(op, "/")[0], clsM, clsI), detail)
		return
	}
	if clsI == "panic" {
		return
	}
	a := w.node.Snap(ctxI, diffStores...)
	b := w.node.Snap(ctxM, diffStores...)
	if diff := core.DiffSnap(a, b); len(diff) > 0 {
		detail["state_diff"] = core.TrimDiff(diff, 12)
		m.r.Violation(id, "outbound/"+strings.Split(op, "/")[0]+"/state-differs-from-transfer-module", detail)
		return
	}
	// how often something actually moved (a refund): the comparison above is only telling when it did
	pre := w.node.Snap(base, diffStores...)
	if len(core.DiffSnap(pre, a)) > 0 {
		m.count("out_refunds_compared")
	}
}

func pickS(i int, l ...string) string { return l[i%len(l)] }
