// Package c08 monitors C08: EVM storage proofs bind contract, slot, value, root
// and height (ETH and BSC light clients).
//
// mpt.go is the independent world-state generator: it builds EVM world states
// (account trie + per-contract storage tries) with go-ethereum's trie package,
// keeps the plain maps the tries were built from (the ground truth of the
// oracle) and derives honest eth_getProof-shaped proofs.
package c08

import (
	"encoding/hex"
	"math"
	"math/big"
	"math/rand"
	"sort"
	"strconv"
	"strings"

	"github.com/ethereum/go-ethereum/common"
	"github.com/ethereum/go-ethereum/common/hexutil"
	gethtypes "github.com/ethereum/go-ethereum/core/types"
	"github.com/ethereum/go-ethereum/crypto"
	"github.com/ethereum/go-ethereum/ethdb/memorydb"
	"github.com/ethereum/go-ethereum/rlp"
	"github.com/ethereum/go-ethereum/trie"

	"verif/harness/core"
)

var (
	emptyRoot = common.HexToHash("56e81f171bcc55a6ff8345e692c0f86e5b48e01b996cadc001622fb5e363b421")
	emptyCode = crypto.Keccak256(nil)
)

// State indices of a world.
const (
	stOld       = 0 // head - delay - gap: delay passed
	stBoundary  = 1 // head - delay: delay passed exactly
	stNotPassed = 2 // head - delay + 1: delay not passed (or above head when delay == 0)
	stAboveHead = 3 // above the client's head
	stNoA       = 4 // like stOld, but the XIBC contract account does not exist (old height)
	stForged    = 5 // like stOld, plus the never-committed packet in A's storage; its root is NOT installed anywhere
	stEmptyA    = 6 // like stOld, but A's storage is empty (old height)
	numStates   = 7
)

// nodeRec records proof nodes in the order trie.Prove emits them (root first).
type nodeRec struct{ nodes [][]byte }

func (r *nodeRec) Put(_ []byte, v []byte) error {
	r.nodes = append(r.nodes, common.CopyBytes(v))
	return nil
}
func (r *nodeRec) Delete([]byte) error { return nil }

func newTrie() *trie.Trie {
	t, err := trie.New(common.Hash{}, trie.NewDatabase(memorydb.New()))
	if err != nil {
		panic(err)
	}
	return t
}

func prove(t *trie.Trie, key []byte) [][]byte {
	rec := &nodeRec{}
	if err := t.Prove(key, 0, rec); err != nil {
		panic(err)
	}
	return rec.nodes
}

// account is one EVM account; storage maps slot -> the byte string stored in
// the trie leaf (before RLP). A real EVM stores the value with leading zeros
// stripped and never stores an empty string.
type account struct {
	nonce      uint64
	balance    *big.Int
	codeHash   []byte
	isContract bool
	storage    map[common.Hash][]byte
	raw        map[string][]byte // storage entries whose key preimage is not a 32-byte slot number (preimage -> value)
	storTrie   *trie.Trie
	storRoot   common.Hash
}

func (a *account) clone() *account {
	b := &account{nonce: a.nonce, balance: new(big.Int).Set(a.balance), codeHash: a.codeHash, isContract: a.isContract}
	if a.storage != nil {
		b.storage = make(map[common.Hash][]byte, len(a.storage))
		for k, v := range a.storage {
			b.storage[k] = v
		}
	}
	if a.raw != nil {
		b.raw = make(map[string][]byte, len(a.raw))
		for k, v := range a.raw {
			b.raw[k] = v
		}
	}
	return b
}

func (a *account) build() {
	if !a.isContract {
		a.storRoot = emptyRoot
		a.storTrie = nil
		return
	}
	t := newTrie()
	for slot, v := range a.storage {
		enc, err := rlp.EncodeToBytes(v)
		if err != nil {
			panic(err)
		}
		t.Update(crypto.Keccak256(slot[:]), enc)
	}
	for pre, v := range a.raw {
		enc, err := rlp.EncodeToBytes(v)
		if err != nil {
			panic(err)
		}
		t.Update(crypto.Keccak256([]byte(pre)), enc)
	}
	a.storTrie = t
	a.storRoot = t.Hash()
}

func (a *account) rlp() []byte {
	enc, err := rlp.EncodeToBytes(&gethtypes.StateAccount{Nonce: a.nonce, Balance: a.balance, Root: a.storRoot, CodeHash: a.codeHash})
	if err != nil {
		panic(err)
	}
	return enc
}

// evmState is one world state.
type evmState struct {
	accounts map[common.Address]*account
	tr       *trie.Trie
	root     common.Hash
}

func (s *evmState) clone() *evmState {
	c := &evmState{accounts: make(map[common.Address]*account, len(s.accounts))}
	for k, v := range s.accounts {
		c.accounts[k] = v.clone()
	}
	return c
}

func (s *evmState) build() {
	t := newTrie()
	for addr, a := range s.accounts {
		a.build()
		t.Update(crypto.Keccak256(addr[:]), a.rlp())
	}
	s.tr = t
	s.root = t.Hash()
}

// packet is one (src,dst,seq) with its commitment and acknowledgement hashes.
type packet struct {
	src, dst    string
	seq         uint64
	commit, ack []byte // 32 bytes each
}

// ref names one fact candidate: the commitment or ack slot of a packet.
type ref struct {
	p   *packet
	ack bool
}

func (r ref) slot() common.Hash { return slotOf(r.ack, r.p.src, r.p.dst, r.p.seq) }
func (r ref) val() []byte {
	if r.ack {
		return r.p.ack
	}
	return r.p.commit
}

// slotOf is the oracle's own derivation of the storage slot: the XIBC packet
// contract keeps `mapping(bytes => bytes32)` at slot index 208, keyed by the
// commitment / ack path, so the slot is keccak256(path || uint256(208)).
func slotOf(ack bool, src, dst string, seq uint64) common.Hash {
	prefix := "commitments"
	if ack {
		prefix = "acks"
	}
	path := prefix + "/" + src + "/" + dst + "/sequences/" + strconv.FormatUint(seq, 10)
	var idx [32]byte
	idx[31] = 208
	return crypto.Keccak256Hash([]byte(path), idx[:])
}

func trimZeros(b []byte) []byte {
	i := 0
	for i < len(b) && b[i] == 0 {
		i++
	}
	return b[i:]
}

func isZero(b []byte) bool { return len(trimZeros(b)) == 0 }

// world is one generated scenario.
type world struct {
	id           string
	A, B         common.Address
	hasB         bool
	explicitZero bool
	fillers      []common.Address
	packets      []*packet // 0..: see newWorld
	absent       *packet   // never committed in A (present in B and in the forged state)
	states       [numStates]*evmState
	truths       [numStates][]ref // facts that hold in A's storage per state (canonical, non-zero values)
	junk         []common.Hash    // junk slots of A in stOld
	overlong     []byte           // key preimage (longer than 32 bytes, ending in the absent packet's slot) of an entry of A
	tiny         int              // 0 normal; 1: A holds only P0,P2,P3; 2: A holds only commit(P0)
	foreign      *evmState        // unrelated state: source of foreign nodes
	nAccounts    int
	nSlotsA      int
}

func genAddr(rng *rand.Rand) common.Address {
	var a common.Address
	rng.Read(a[:])
	switch rng.Intn(8) {
	case 0:
		a[0] = 0
	case 1:
		a[0], a[1] = 0, 0
	case 2:
		a[19] = 0
	}
	return a
}

func gen32(rng *rand.Rand) []byte {
	b := make([]byte, 32)
	rng.Read(b)
	if b[0] == 0 {
		b[0] = 1
	}
	return b
}

// genLeadingZero returns a 32-byte value with 1..31 leading zero bytes.
func genLeadingZero(rng *rand.Rand) []byte {
	b := gen32(rng)
	var k int
	switch rng.Intn(4) {
	case 0:
		k = 1
	case 1:
		k = 31
	default:
		k = 1 + rng.Intn(31)
	}
	for i := 0; i < k; i++ {
		b[i] = 0
	}
	if b[k] == 0 {
		b[k] = 0x7f
	}
	return b
}

func pick(rng *rand.Rand, xs []int) int { return xs[rng.Intn(len(xs))] }

func genSeq(rng *rand.Rand) uint64 {
	switch rng.Intn(6) {
	case 0:
		return 1
	case 1:
		return uint64(1 + rng.Intn(20))
	case 2:
		return math.MaxUint64
	}
	return core.GenUint64(rng)
}

func (w *world) setPacket(a *account, p *packet, commit, ack bool) {
	if commit {
		v := trimZeros(p.commit)
		if len(v) > 0 || w.explicitZero {
			a.storage[slotOf(false, p.src, p.dst, p.seq)] = v
		}
	}
	if ack {
		v := trimZeros(p.ack)
		if len(v) > 0 || w.explicitZero {
			a.storage[slotOf(true, p.src, p.dst, p.seq)] = v
		}
	}
}

func newWorld(rng *rand.Rand, id string) *world {
	w := &world{id: id}
	w.A = genAddr(rng)
	for {
		w.B = genAddr(rng)
		if w.B != w.A {
			break
		}
	}
	// one world in three: B is a LOOK-ALIKE of A - the two 20-byte addresses differ in one byte only, and in a way that
	// text-style comparisons fold away (an ASCII letter in the other case; two bytes that are both invalid UTF-8). The
	// decision is drawn from A's own bytes, so the stream of the generator is the same as before.
	switch w.A[7] % 6 {
	case 0:
		i := int(w.A[8]) % 20
		w.A[i] = 0x6c
		w.B = w.A
		w.B[i] = 0x4c
	case 1:
		w.A[19] = 0xf8
		w.B = w.A
		w.B[19] = 0xf9
	}
	w.hasB = rng.Intn(8) != 0
	w.explicitZero = rng.Intn(3) == 0

	names := []string{}
	for len(names) < 3 {
		n := core.GenChainName(rng)
		if strings.Contains(n, "/") {
			continue
		}
		dup := false
		for _, m := range names {
			dup = dup || m == n
		}
		if !dup {
			names = append(names, n)
		}
	}
	seen := map[string]bool{}
	// want: 0 any triple, 1 a triple whose COMMITMENT slot hash starts with a zero byte, 2 one whose ACK slot does
	// (slot keys are 32-byte words: code that handles them as numbers loses the leading zeros)
	mkSlot := func(commit, ack []byte, want int) *packet {
		for {
			p := &packet{src: names[rng.Intn(3)], dst: names[rng.Intn(3)], seq: genSeq(rng), commit: commit, ack: ack}
			if want == 1 && slotOf(false, p.src, p.dst, p.seq)[0] != 0 {
				continue
			}
			if want == 2 && slotOf(true, p.src, p.dst, p.seq)[0] != 0 {
				continue
			}
			k := p.src + "|" + p.dst + "|" + strconv.FormatUint(p.seq, 10)
			// also keep seq+1 and the swapped pair free so that "neighbour" claims are about unwritten slots
			k2 := p.src + "|" + p.dst + "|" + strconv.FormatUint(p.seq+1, 10)
			k3 := p.dst + "|" + p.src + "|" + strconv.FormatUint(p.seq, 10)
			if seen[k] || seen[k2] || (p.src != p.dst && seen[k3]) {
				continue
			}
			seen[k], seen[k2] = true, true
			if p.src != p.dst {
				seen[k3] = true
			}
			return p
		}
	}
	mk := func(commit, ack []byte) *packet { return mkSlot(commit, ack, 0) }
	v0 := gen32(rng)
	w.packets = []*packet{
		mk(v0, gen32(rng)),                             // P0 everywhere
		mk(genLeadingZero(rng), genLeadingZero(rng)),   // P1 leading-zero hashes, everywhere
		mk(gen32(rng), gen32(rng)),                     // P2 commit only from stBoundary on, never acked
		mk(gen32(rng), gen32(rng)),                     // P3 in stOld only (deleted later)
		mkSlot(append([]byte{}, v0...), gen32(rng), 2), // P4 same commitment value as P0, everywhere; its ACK slot hash has a leading zero byte
		mk(make([]byte, 32), genLeadingZero(rng)),      // P5 all-zero commitment
		mkSlot(gen32(rng), gen32(rng), 1),              // P6 everywhere; its COMMITMENT slot hash has a leading zero byte
		mk(genLeadingZero(rng), gen32(rng)),            // P7 random presence
		mk(gen32(rng), append([]byte{}, v0...)),        // P8 random presence; ack equals P0's commitment
	}
	w.absent = mk(gen32(rng), gen32(rng))
	nExtra := rng.Intn(4)
	for i := 0; i < nExtra; i++ {
		w.packets = append(w.packets, mk(gen32(rng), gen32(rng)))
	}

	nFill := pick(rng, []int{0, 0, 1, 2, 5, 16, 40, 120, 298})
	nJunk := pick(rng, []int{0, 0, 1, 2, 7, 30, 90, 200})
	switch rng.Intn(8) {
	case 0:
		w.tiny, nJunk = 1, 0
	case 1:
		w.tiny, nJunk = 2, 0
	}

	base := &evmState{accounts: map[common.Address]*account{}}
	for i := 0; i < nFill; i++ {
		ad := genAddr(rng)
		if ad == w.A || ad == w.B || base.accounts[ad] != nil {
			continue
		}
		bal := new(big.Int)
		if rng.Intn(4) != 0 {
			bz := make([]byte, 1+rng.Intn(12))
			rng.Read(bz)
			bal.SetBytes(bz)
		}
		base.accounts[ad] = &account{nonce: uint64(rng.Intn(1000)), balance: bal, codeHash: emptyCode}
		w.fillers = append(w.fillers, ad)
	}
	code := make([]byte, 40)
	rng.Read(code)
	balA := new(big.Int)
	if rng.Intn(2) == 0 {
		balA.SetUint64(rng.Uint64())
	}
	A := &account{nonce: 1, balance: balA, codeHash: crypto.Keccak256(code), isContract: true, storage: map[common.Hash][]byte{}}
	for i := 0; i < nJunk; i++ {
		var s common.Hash
		rng.Read(s[:])
		v := make([]byte, 1+rng.Intn(32))
		rng.Read(v)
		if v[0] == 0 {
			v[0] = 9
		}
		A.storage[s] = v
		w.junk = append(w.junk, s)
	}
	// an entry whose key preimage is "<some bytes> || slot of the never-committed packet" and which holds that packet's
	// commitment: a verifier that checks the LAST 32 bytes of a longer key field but looks the whole field up in the trie
	// would take a proof of this entry for a proof of the slot
	w.overlong = append(randBytes(rng, 1+rng.Intn(8)), slotOf(false, w.absent.src, w.absent.dst, w.absent.seq).Bytes()...)
	A.raw = map[string][]byte{string(w.overlong): trimZeros(w.absent.commit)}
	base.accounts[w.A] = A
	if w.hasB {
		rng.Read(code)
		B := &account{nonce: 1, balance: big.NewInt(int64(rng.Intn(5))), codeHash: crypto.Keccak256(code), isContract: true, storage: map[common.Hash][]byte{}}
		for _, p := range w.packets {
			w.setPacket(B, p, true, true)
		}
		w.setPacket(B, w.absent, true, true)
		for i, s := range w.junk {
			if i%3 == 0 {
				B.storage[s] = A.storage[s]
			}
		}
		base.accounts[w.B] = B
	}

	// presence of the packets in A per timeline state
	present := func(st, i int) (bool, bool) {
		switch i {
		case 2:
			return st >= stBoundary, false
		case 3:
			return st == stOld, st == stOld
		case 7, 8:
			return true, true // refined below by randomPresence
		}
		return true, true
	}
	randomPresence := map[[2]int][2]bool{}
	for st := stOld; st <= stAboveHead; st++ {
		for i := 7; i < len(w.packets); i++ {
			randomPresence[[2]int{st, i}] = [2]bool{rng.Intn(3) != 0, rng.Intn(2) == 0}
		}
	}
	prev := base
	for st := stOld; st <= stAboveHead; st++ {
		s := prev.clone()
		a := s.accounts[w.A]
		a.nonce = uint64(1 + st)
		// rewrite the packet slots of this state
		for i, p := range w.packets {
			delete(a.storage, slotOf(false, p.src, p.dst, p.seq))
			delete(a.storage, slotOf(true, p.src, p.dst, p.seq))
			c, k := present(st, i)
			if i >= 7 {
				rp := randomPresence[[2]int{st, i}]
				c, k = rp[0], rp[1]
			}
			if w.tiny == 1 && i != 0 && i != 2 && i != 3 {
				c, k = false, false
			}
			if w.tiny == 2 {
				c, k = i == 0, false
			}
			w.setPacket(a, p, c, k)
		}
		if st > stOld {
			// a few junk slots and filler balances move between states
			for j := 0; j < 3 && len(w.junk) > 0; j++ {
				sl := w.junk[rng.Intn(len(w.junk))]
				switch rng.Intn(3) {
				case 0:
					delete(a.storage, sl)
				default:
					v := make([]byte, 1+rng.Intn(32))
					rng.Read(v)
					if v[0] == 0 {
						v[0] = 3
					}
					a.storage[sl] = v
				}
			}
			for j := 0; j < 3 && len(w.fillers) > 0; j++ {
				f := s.accounts[w.fillers[rng.Intn(len(w.fillers))]]
				f.balance = new(big.Int).Add(f.balance, big.NewInt(int64(1+rng.Intn(1000))))
				f.nonce++
			}
		}
		s.build()
		w.states[st] = s
		prev = s
	}
	// stNoA: stOld without the contract account
	{
		s := w.states[stOld].clone()
		delete(s.accounts, w.A)
		if len(s.accounts) == 0 {
			// keep the trie non-empty so that a non-membership proof exists
			ad := genAddr(rng)
			s.accounts[ad] = &account{nonce: 7, balance: big.NewInt(1), codeHash: emptyCode}
		}
		s.build()
		w.states[stNoA] = s
	}
	// stForged: stOld plus the never-committed packet (an attacker's fabricated state)
	{
		s := w.states[stOld].clone()
		w.setPacket(s.accounts[w.A], w.absent, true, true)
		s.build()
		w.states[stForged] = s
	}
	// stEmptyA: the contract exists but has no storage at all
	{
		s := w.states[stOld].clone()
		s.accounts[w.A].storage = map[common.Hash][]byte{}
		s.accounts[w.A].nonce = 99
		s.build()
		w.states[stEmptyA] = s
	}
	// foreign state: unrelated tries of similar shape
	{
		s := &evmState{accounts: map[common.Address]*account{}}
		for i := 0; i < 1+nFill/2; i++ {
			s.accounts[genAddr(rng)] = &account{nonce: uint64(rng.Intn(50)), balance: big.NewInt(int64(rng.Intn(100000))), codeHash: emptyCode}
		}
		fa := &account{nonce: 5, balance: big.NewInt(0), codeHash: crypto.Keccak256([]byte("foreign")), isContract: true, storage: map[common.Hash][]byte{}}
		for _, p := range w.packets {
			w.setPacket(fa, p, true, true)
		}
		for i := 0; i < 1+nJunk/2; i++ {
			var sl common.Hash
			rng.Read(sl[:])
			fa.storage[sl] = gen32(rng)
		}
		s.accounts[w.A] = fa
		s.build()
		w.foreign = s
	}

	// ground truth list of facts per state (read from the plain maps)
	for st := 0; st < numStates; st++ {
		a := w.states[st].accounts[w.A]
		if a == nil {
			continue
		}
		for _, p := range w.packets {
			for _, isAck := range []bool{false, true} {
				r := ref{p: p, ack: isAck}
				if v, ok := a.storage[r.slot()]; ok && len(v) > 0 && !isZero(r.val()) && string(v) == string(trimZeros(r.val())) {
					w.truths[st] = append(w.truths[st], r)
				}
			}
		}
	}
	w.nAccounts = len(w.states[stOld].accounts)
	w.nSlotsA = len(w.states[stOld].accounts[w.A].storage)
	return w
}

// ---------------------------------------------------------------- proof JSON

// storageJSON / proofJSON mirror the JSON shape the light clients unmarshal
// (the json tags of their Proof / StorageResult messages).
type storageJSON struct {
	Key   string   `json:"key"`
	Value string   `json:"value"`
	Proof []string `json:"proof"`
}

type proofJSON struct {
	Address      string         `json:"address"`
	Balance      string         `json:"balance"`
	CodeHash     string         `json:"code_hash"`
	Nonce        string         `json:"nonce"`
	StorageHash  string         `json:"storage_hash"`
	AccountProof []string       `json:"account_proof"`
	StorageProof []*storageJSON `json:"storage_proof"`
}

func (p *proofJSON) clone() *proofJSON {
	c := *p
	c.AccountProof = append([]string{}, p.AccountProof...)
	c.StorageProof = nil
	for _, s := range p.StorageProof {
		if s == nil {
			c.StorageProof = append(c.StorageProof, nil)
			continue
		}
		d := *s
		d.Proof = append([]string{}, s.Proof...)
		c.StorageProof = append(c.StorageProof, &d)
	}
	return &c
}

func hexNodes(ns [][]byte) []string {
	out := make([]string, 0, len(ns))
	for _, n := range ns {
		out = append(out, hexutil.Encode(n))
	}
	return out
}

// needed is the Merkle path an honest prover would send for (state, contract, slot).
type needed struct {
	acct, stor [][]byte
	exists     bool // account exists
	has        bool // slot exists in the account's storage
}

// honest derives the canonical eth_getProof answer for one slot of one account
// in one state.
func (w *world) honest(st *evmState, addr common.Address, slot common.Hash) (*proofJSON, needed) {
	var nd needed
	nd.acct = prove(st.tr, crypto.Keccak256(addr[:]))
	p := &proofJSON{Address: hexutil.Encode(addr[:]), AccountProof: hexNodes(nd.acct)}
	a := st.accounts[addr]
	sp := &storageJSON{Key: hexutil.Encode(slot[:]), Value: "0x0", Proof: []string{}}
	if a == nil {
		p.Balance, p.Nonce = "0x0", "0x0"
		p.CodeHash = hexutil.Encode(emptyCode)
		p.StorageHash = hexutil.Encode(emptyRoot[:])
		p.StorageProof = []*storageJSON{sp}
		return p, nd
	}
	nd.exists = true
	p.Balance = hexutil.EncodeBig(a.balance)
	p.Nonce = hexutil.EncodeUint64(a.nonce)
	p.CodeHash = hexutil.Encode(a.codeHash)
	p.StorageHash = hexutil.Encode(a.storRoot[:])
	if a.storTrie != nil {
		nd.stor = prove(a.storTrie, crypto.Keccak256(slot[:]))
		sp.Proof = hexNodes(nd.stor)
		if v, ok := a.storage[slot]; ok {
			nd.has = true
			sp.Value = hexutil.EncodeBig(new(big.Int).SetBytes(v))
		}
	}
	p.StorageProof = []*storageJSON{sp}
	return p, nd
}

// generousDecode returns every byte string a lenient hex decoder could read
// out of s (optional 0x/0X prefix, any case, odd length, trailing garbage).
func generousDecode(s string) [][]byte {
	t := strings.TrimSpace(s)
	if strings.HasPrefix(t, "0x") || strings.HasPrefix(t, "0X") {
		t = t[2:]
	}
	n := 0
	for n < len(t) {
		c := t[n]
		if !(c >= '0' && c <= '9' || c >= 'a' && c <= 'f' || c >= 'A' && c <= 'F') {
			break
		}
		n++
	}
	t = t[:n]
	var out [][]byte
	if len(t)%2 == 0 {
		b, _ := hex.DecodeString(t)
		out = append(out, b)
	} else {
		b, _ := hex.DecodeString("0" + t)
		out = append(out, b)
		b2, _ := hex.DecodeString(t[:len(t)-1])
		out = append(out, b2)
	}
	return out
}

func containsNode(list []string, node []byte) bool {
	for _, e := range list {
		for _, d := range generousDecode(e) {
			if string(d) == string(node) {
				return true
			}
		}
	}
	return false
}

// pathMissing reports whether the submitted proof object lacks a node of the
// Merkle path (no verifier could check the claim from it).
func pathMissing(obj *proofJSON, nd needed) bool {
	if obj == nil {
		return true
	}
	for _, n := range nd.acct {
		if !containsNode(obj.AccountProof, n) {
			return true
		}
	}
	var all []string
	for _, sp := range obj.StorageProof {
		if sp != nil {
			all = append(all, sp.Proof...)
		}
	}
	for _, n := range nd.stor {
		if !containsNode(all, n) {
			return true
		}
	}
	return false
}

func sortedAddrs(m map[common.Address]*account) []common.Address {
	out := make([]common.Address, 0, len(m))
	for a := range m {
		out = append(out, a)
	}
	sort.Slice(out, func(i, j int) bool { return string(out[i][:]) < string(out[j][:]) })
	return out
}
