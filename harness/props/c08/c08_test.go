package c08

import (
	"bytes"
	"crypto/sha256"
	"encoding/hex"
	"encoding/json"
	"fmt"
	"math"
	"math/rand"
	"sort"
	"strings"
	"testing"
	"time"

	sdk "github.com/cosmos/cosmos-sdk/types"
	"github.com/ethereum/go-ethereum/common"
	"github.com/ethereum/go-ethereum/crypto"
	"github.com/ethereum/go-ethereum/trie"

	bsctypes "github.com/teleport-network/teleport/x/xibc/clients/light-clients/bsc/types"
	ethtypes "github.com/teleport-network/teleport/x/xibc/clients/light-clients/eth/types"
	clienttypes "github.com/teleport-network/teleport/x/xibc/core/client/types"
	"github.com/teleport-network/teleport/x/xibc/exported"

	"verif/harness/core"
)

const (
	mustAccept = "MUST_ACCEPT"
	mustReject = "MUST_REJECT"
	either     = "EITHER"
)

// clientView is one light client (ETH or BSC) that tracks the generated chain.
type clientView struct {
	typ       string
	name      string
	rev       uint64 // revision number of the client's head and of its ordinary consensus states
	noContr   bool   // the client state names no XIBC contract at all (never validated): then no proof proves "the configured contract's account"
	head      uint64
	delay     uint64
	heights   [numStates]uint64
	installed map[clienttypes.Height]int
	// the consensus state's own Height field: redundant with the key it is stored under and never validated (a create /
	// upgrade / toggle proposal stores whatever it carries), so the verdict must not depend on it
	consField map[clienttypes.Height]clienttypes.Height
	cs        exported.ClientState
	store     sdk.KVStore
}

func (c *clientView) height(hs heightSpec) clienttypes.Height {
	if hs.abs {
		return clienttypes.NewHeight(hs.rev, hs.absV)
	}
	rev := c.rev + hs.rev
	if hs.lower && c.rev > 0 {
		rev = c.rev - 1
	}
	return clienttypes.NewHeight(rev, uint64(int64(c.heights[hs.st])+hs.delta))
}

// fact is the three-valued ground truth of a claim.
type fact struct {
	v   string // "true" / "false" / "unclear"
	why string
	st  int
}

// holds decides from the generator's plain maps whether
// "(configured contract, slot(path), 32-byte hash) is in the state whose root
// the client stored at the claimed height, height <= head, head-height >= delay".
func holds(w *world, c *clientView, cl claim) fact {
	h := c.height(cl.hs)
	st, ok := c.installed[h]
	if c.noContr {
		return fact{"false", "no-contract-configured", st}
	}
	if !ok {
		return fact{"false", "no-root-at-height", -1}
	}
	if h.RevisionNumber > c.rev || (h.RevisionNumber == c.rev && h.RevisionHeight > c.head) {
		return fact{"false", "height-above-head", st}
	}
	if c.head-h.RevisionHeight < c.delay {
		return fact{"false", "delay-not-passed", st}
	}
	a := w.states[st].accounts[w.A]
	if a == nil {
		return fact{"false", "contract-absent", st}
	}
	slot := slotOf(cl.ack, cl.src, cl.dst, cl.seq)
	v, present := a.storage[slot]
	if isZero(cl.commitment) && (!present || isZero(v)) {
		// an unwritten slot reads as zero in the EVM: the statement does not pin a zero hash
		return fact{"unclear", "zero-hash-vs-unwritten-slot", st}
	}
	if !present {
		return fact{"false", "slot-absent", st}
	}
	if !bytes.Equal(trimZeros(v), trimZeros(cl.commitment)) {
		return fact{"false", "value-differs", st}
	}
	if len(cl.commitment) != 32 || len(v) > 32 || (len(v) > 0 && v[0] == 0) {
		return fact{"unclear", "same-number-other-length", st}
	}
	return fact{"true", "", st}
}

type verdict struct {
	expect string
	why    string
}

func judge(w *world, c *clientView, cs *caseSpec, raw []byte) verdict {
	f := holds(w, c, cs.claim)
	switch f.v {
	case "false":
		return verdict{mustReject, f.why}
	case "unclear":
		return verdict{either, f.why}
	}
	canon, nd := w.honest(w.states[f.st], w.A, slotOf(cs.claim.ack, cs.claim.src, cs.claim.dst, cs.claim.seq))
	cbz, _ := json.Marshal(canon)
	if cs.rawClass == rawFromObj && bytes.Equal(cbz, raw) {
		return verdict{mustAccept, "canonical-honest"}
	}
	if cs.rawClass == rawBroken || pathMissing(cs.obj, nd) {
		return verdict{mustReject, "merkle-path-missing-from-proof"}
	}
	if cs.rawClass == rawFromObj && cs.obj != nil && len(cs.obj.StorageProof) != 1 {
		// "the storage proof proves ...": one storage proof. A list that is empty (truncated) or carries further entries
		// (padded) is one of the shapes the statement names as rejected, whatever else is true
		return verdict{mustReject, "storage-proof-list-truncated-or-padded"}
	}
	return verdict{either, "true-fact-noncanonical-proof"}
}

func group(kind string) string {
	if i := strings.Index(kind, "/"); i > 0 {
		return kind[:i]
	}
	return kind
}

func TestC08(t *testing.T) {
	r := core.NewRun(t, "C08")
	r.Rule = "per world: random EVM states (account trie of 1..300 accounts, XIBC contract storage of 0..200+ slots, commitments incl. leading-zero and all-zero hashes) at 6 heights around head/delay, installed as consensus states of a real ETH and a real BSC client store; ~190 case kinds (honest proofs, and mutations of address, account fields, account/storage proof nodes, key, value, number of storage proofs, absent keys, other root/height, head/delay, path confusion, raw bytes) evaluated on both clients through VerifyPacketCommitment/VerifyPacketAcknowledgement. Non-trivial = distinct (client, claim, proof bytes, head, delay) for which the real verifier was invoked on a fully installed client."
	r.Assume("a panic inside VerifyPacket* counts as a rejection (the only caller runs inside DeliverTx, which recovers)")
	r.Assume("chain names are those accepted by host.ClientIdentifierValidator (no '/')")
	r.Assume("proof heights use revision number 0 (the ETH/BSC clients only ever store revision 0); a differing revision is only used as a 'no root stored' case")
	defer r.Finish()
	r.MinNontrivial(r.N(6000, 150000))

	n := core.NewNode(core.NodeConfig{ChainID: "teleport_9000-1", XIBCName: "native-chain", Accounts: []*core.Account{core.NewAccount("a")}})
	n.Begin(time.Date(2022, 1, 2, 0, 0, 5, 0, time.UTC))

	worlds := r.N(40, 1100)
	kinds := allKinds()
	r.Set("case_kinds", len(kinds))
	eitherAccepted := map[string]int{}
	eitherRejected := map[string]int{}
	panicKinds := map[string]int{}
	sizes := map[string]int{}
	for wi := 0; wi < worlds; wi++ {
		cid := fmt.Sprintf("w%d", wi)
		if !r.Want(cid) {
			continue
		}
		runWorld(r, n, cid, kinds, eitherAccepted, eitherRejected, panicKinds, sizes)
	}
	r.Set("either_accepted_by_kind", eitherAccepted)
	r.Set("either_rejected_by_kind", eitherRejected)
	r.Set("panics_by_kind", panicKinds)
	r.Set("world_shapes", sizes)
}

func runWorld(r *core.Run, n *core.Node, cid string, kinds []kind, eitherAccepted, eitherRejected, panicKinds, sizes map[string]int) {
	rng := r.Rng(cid)
	w := newWorld(rng, cid)
	r.Count("worlds", 1)
	sizes[fmt.Sprintf("accounts<=%d", bucket(w.nAccounts))]++
	sizes[fmt.Sprintf("slots<=%d", bucket(w.nSlotsA))]++

	// generator self-check: the honest proof of P0 verifies with go-ethereum directly
	if err := selfCheck(w); err != nil {
		r.Inconclusive("world %s: generator self-check failed: %v", cid, err)
		return
	}

	ctx, _ := n.Ctx().CacheContext() // every world works on its own discarded branch
	ck := n.App.XIBCKeeper.ClientKeeper
	cdc := n.App.AppCodec()

	clients := []*clientView{newClient(rng, "eth", cid), newClient(rng, "bsc", cid)}
	for _, c := range clients {
		install(ctx, n, w, c)
		cs, ok := ck.GetClientState(ctx, c.name)
		if !ok {
			r.Inconclusive("world %s: client state %s not readable", cid, c.name)
			return
		}
		c.cs = cs
		c.store = ck.ClientStore(ctx, c.name)
		if cs.GetLatestHeight().GetRevisionHeight() != c.head {
			r.Inconclusive("world %s: client %s reports head %s, harness configured %d", cid, c.name, cs.GetLatestHeight(), c.head)
			return
		}
		// The number of confirmation blocks the client itself reports is NOT taken over: the oracle keeps its own
		// reading of "the required number" (ETH: the configured BlockDelay; BSC: floor(N/2)+1 for N validators, the
		// Parlia finality heuristic the client documents), so that a client that derives another number is judged by the
		// height cases (a proof one block short of the required confirmations must be refused).
		if uint64(cs.GetDelayBlock()) != c.delay {
			r.Count("client_reports_other_delay_than_the_oracle/"+c.typ, 1)
		}
	}

	g := &gen{w: w, rng: rng}
	for ki, k := range kinds {
		cs := k.f(g)
		if cs == nil {
			r.Count("not_applicable", 1)
			continue
		}
		if cs.kind == "" {
			cs.kind = k.name
		}
		raw := cs.raw
		if cs.rawClass == rawFromObj {
			raw, _ = json.Marshal(cs.obj)
		}
		if cs.rawClass == rawFuzz {
			// the harness's own reading of the mutated JSON decides whether the Merkle path is still carried
			var po proofJSON
			if err := json.Unmarshal(raw, &po); err != nil {
				cs.rawClass, cs.obj = rawBroken, nil
				r.Count("fuzz/unparseable", 1)
			} else {
				cs.rawClass, cs.obj = rawReencode, &po
				r.Count("fuzz/parseable", 1)
			}
		}
		outcomes := map[string]string{}
		expects := map[string]string{}
		for _, c := range clients {
			v := judge(w, c, cs, raw)
			h := c.height(cs.claim.hs)
			var err error
			var panicked bool
			if cs.claim.ack {
				err, panicked = core.Catch(func() error {
					return c.cs.VerifyPacketAcknowledgement(ctx, c.store, cdc, h, raw, cs.claim.src, cs.claim.dst, cs.claim.seq, cs.claim.commitment)
				})
			} else {
				err, panicked = core.Catch(func() error {
					return c.cs.VerifyPacketCommitment(ctx, c.store, cdc, h, raw, cs.claim.src, cs.claim.dst, cs.claim.seq, cs.claim.commitment)
				})
			}
			accepted := err == nil
			out := "rejected"
			if accepted {
				out = "accepted"
			}
			outcomes[c.typ], expects[c.typ] = out, v.expect
			fn := "commit"
			if cs.claim.ack {
				fn = "ack"
			}
			ph := sha256.Sum256(raw)
			key := fmt.Sprintf("%s|%s|%s|%s|%s|%d|%x|%s|%x|%d|%d", c.typ, fn, h, cs.claim.src, cs.claim.dst, cs.claim.seq, cs.claim.commitment, w.A.Hex(), ph[:], c.head, c.delay)
			r.Eval(key, true)
			r.Count(fmt.Sprintf("%s/%s/%s", c.typ, v.expect, out), 1)
			r.Count(fmt.Sprintf("group/%s/%s/%s", group(cs.kind), v.expect, out), 1)
			if v.why == "canonical-honest" || v.why == "merkle-path-missing-from-proof" || v.why == "true-fact-noncanonical-proof" || v.why == "slot-absent" || v.why == "value-differs" || v.why == "contract-absent" {
				r.Count("reached_merkle_stage/"+c.typ, 1)
			}
			if panicked {
				r.Count("panics/"+c.typ, 1)
				panicKinds[c.typ+"/"+cs.kind]++
			}
			if v.expect == either {
				if accepted {
					eitherAccepted[c.typ+"/"+cs.kind]++
				} else {
					eitherRejected[c.typ+"/"+cs.kind]++
				}
			}
			if accepted && cs.obj != nil && len(cs.obj.StorageProof) != 1 && cs.rawClass == rawFromObj {
				r.Count("accepted_with_storage_proof_count_ne_1/"+c.typ, 1)
			}
			detail := func() map[string]interface{} {
				d := map[string]interface{}{
					"world": cid, "kind_index": ki, "kind": cs.kind, "client": c.typ, "fn": fn, "expect": v.expect, "why": v.why, "outcome": out,
					"head": c.head, "delay": c.delay, "proof_height": h.String(), "installed_heights": fmt.Sprint(c.heights),
					"src": cs.claim.src, "dst": cs.claim.dst, "seq": cs.claim.seq, "commitment": hex.EncodeToString(cs.claim.commitment),
					"contract": w.A.Hex(), "proof": trunc(string(raw), 3000), "accounts": w.nAccounts, "slots": w.nSlotsA,
				}
				if err != nil {
					d["error"] = trunc(err.Error(), 300)
				}
				return d
			}
			switch {
			case v.expect == mustReject && accepted:
				r.Violation(cid, fmt.Sprintf("%s/%s/false-accept/%s/%s", c.typ, fn, v.why, cs.kind), detail())
			case v.expect == mustAccept && !accepted:
				sig := "false-reject"
				if panicked {
					sig = "false-reject-panic"
				}
				r.Violation(cid, fmt.Sprintf("%s/%s/%s/%s", c.typ, fn, sig, cs.kind), detail())
			}
			if ki%37 == 0 && c.typ == "eth" {
				d := detail()
				d["proof"] = trunc(string(raw), 200)
				r.Sample(d)
			}
		}
		if expects["eth"] == expects["bsc"] && outcomes["eth"] != outcomes["bsc"] {
			r.Count("differential/eth-bsc-disagree-on-same-expectation", 1)
		} else {
			r.Count("differential/compared", 1)
		}
	}
}

func bucket(n int) int {
	for _, b := range []int{1, 3, 10, 30, 100, 300} {
		if n <= b {
			return b
		}
	}
	return 1000
}

func trunc(s string, n int) string {
	if len(s) > n {
		return s[:n] + "..."
	}
	return s
}

func newClient(rng *rand.Rand, typ, cid string) *clientView {
	c := &clientView{typ: typ, name: typ + "-" + cid, installed: map[clienttypes.Height]int{}, consField: map[clienttypes.Height]clienttypes.Height{}}
	if typ == "eth" {
		c.delay = uint64(pick(rng, []int{0, 0, 1, 1, 2, 3, 6, 12, 64}))
	} else {
		nv := pick(rng, []int{1, 2, 3, 4, 7, 11, 21})
		c.delay = uint64(nv/2 + 1)
	}
	if rng.Intn(3) == 0 {
		c.rev = uint64(1 + rng.Intn(3))
	}
	c.noContr = rng.Intn(10) == 0
	gap := uint64(3 + rng.Intn(50))
	minHead := c.delay + gap + 5
	switch rng.Intn(5) {
	case 0:
		c.head = minHead
	case 1:
		c.head = minHead + uint64(rng.Intn(100))
	case 2:
		c.head = uint64(1)<<62 + uint64(rng.Intn(1000))
	case 3:
		c.head = math.MaxUint64 - 10 - uint64(rng.Intn(100))
	default:
		c.head = minHead + uint64(rng.Intn(20_000_000))
	}
	c.heights[stBoundary] = c.head - c.delay
	c.heights[stOld] = c.heights[stBoundary] - gap
	c.heights[stNotPassed] = c.heights[stBoundary] + 1
	top := c.head
	if c.heights[stNotPassed] > top {
		top = c.heights[stNotPassed]
	}
	c.heights[stAboveHead] = top + 1 + uint64(rng.Intn(5))
	c.heights[stNoA] = c.heights[stOld] - 1
	c.heights[stEmptyA] = c.heights[stOld] - 2
	c.heights[stForged] = 0 // never installed
	for _, st := range []int{stOld, stBoundary, stNotPassed, stAboveHead, stNoA, stEmptyA} {
		h := clienttypes.NewHeight(c.rev, c.heights[st])
		c.installed[h] = st
		c.consField[h] = h
		if rng.Intn(3) == 0 {
			c.consField[h] = []clienttypes.Height{{}, clienttypes.NewHeight(0, c.heights[stOld]), clienttypes.NewHeight(0, c.head), clienttypes.NewHeight(0, c.head+7), clienttypes.NewHeight(1, c.heights[st])}[rng.Intn(5)]
		}
	}
	if c.rev > 0 {
		// states the client kept from the revision before: the SAME block numbers, other roots
		lo, lb := clienttypes.NewHeight(c.rev-1, c.heights[stOld]), clienttypes.NewHeight(c.rev-1, c.heights[stBoundary])
		c.installed[lo], c.installed[lb] = stBoundary, stOld
		c.consField[lo], c.consField[lb] = lo, lb
	}
	return c
}

func contractOf(w *world, c *clientView) []byte {
	if c.noContr {
		return nil
	}
	return w.A[:]
}

// install writes the client state and the consensus states straight into the
// real client store (no header verification is involved in this property).
func install(ctx sdk.Context, n *core.Node, w *world, c *clientView) {
	ck := n.App.XIBCKeeper.ClientKeeper
	head := clienttypes.NewHeight(c.rev, c.head)
	if c.typ == "eth" {
		ck.SetClientState(ctx, c.name, &ethtypes.ClientState{
			Header:  ethtypes.Header{Height: head, Root: w.states[stBoundary].root[:]},
			ChainId: 1, ContractAddress: contractOf(w, c), TrustingPeriod: 1 << 40, BlockDelay: c.delay,
			// a time delay is configurable but is not what this client counts its confirmations in: whatever it says, the
			// block distance decides (derived from the head so that it differs from the block delay in both directions)
			TimeDelay: []uint64{0, 0, 1, 600, 1 << 40}[(c.head+uint64(c.rev))%5],
		})
	} else {
		nv := int(c.delay-1) * 2
		if nv == 0 {
			nv = 1
		}
		vals := make([][]byte, nv)
		for i := range vals {
			vals[i] = crypto.Keccak256([]byte(fmt.Sprintf("val-%d", i)))[:20]
		}
		ck.SetClientState(ctx, c.name, &bsctypes.ClientState{
			Header:  bsctypes.Header{Height: head, Root: w.states[stBoundary].root[:]},
			ChainId: 56, Epoch: 200, BlockInteval: 3, Validators: vals, ContractAddress: contractOf(w, c), TrustingPeriod: 1 << 40,
		})
	}
	for h, st := range c.installed {
		root := w.states[st].root
		if c.typ == "eth" {
			ck.SetClientConsensusState(ctx, c.name, h, &ethtypes.ConsensusState{Timestamp: 1641081600, Height: c.consField[h], Root: root[:]})
		} else {
			ck.SetClientConsensusState(ctx, c.name, h, &bsctypes.ConsensusState{Timestamp: 1641081600, Height: c.consField[h], Root: root[:]})
		}
	}
}

// selfCheck verifies the generator against go-ethereum's own proof verifier
// (sanity of the harness, not part of the oracle).
func selfCheck(w *world) error {
	for _, st := range []int{stOld, stBoundary} {
		for _, r := range w.truths[st] {
			_, nd := w.honest(w.states[st], w.A, r.slot())
			if !nd.exists || !nd.has {
				return fmt.Errorf("truth without path in state %d", st)
			}
			db := &mapDB{m: map[string][]byte{}}
			for _, nn := range nd.acct {
				db.m[string(crypto.Keccak256(nn))] = nn
			}
			av, err := trie.VerifyProof(w.states[st].root, crypto.Keccak256(w.A[:]), db)
			if err != nil || !bytes.Equal(av, w.states[st].accounts[w.A].rlp()) {
				return fmt.Errorf("account proof does not verify: %v", err)
			}
			db = &mapDB{m: map[string][]byte{}}
			for _, nn := range nd.stor {
				db.m[string(crypto.Keccak256(nn))] = nn
			}
			sl := r.slot()
			sv, err := trie.VerifyProof(w.states[st].accounts[w.A].storRoot, crypto.Keccak256(sl[:]), db)
			if err != nil || len(sv) == 0 {
				return fmt.Errorf("storage proof does not verify: %v", err)
			}
			break // one per state is enough
		}
	}
	roots := map[common.Hash]bool{}
	for st := 0; st < numStates; st++ {
		if roots[w.states[st].root] {
			return fmt.Errorf("two states share a root")
		}
		roots[w.states[st].root] = true
	}
	if len(w.truths[stOld]) == 0 || len(w.truths[stBoundary]) == 0 || len(w.truths[stNotPassed]) == 0 || len(w.truths[stAboveHead]) == 0 {
		return fmt.Errorf("a timeline state has no true fact")
	}
	return nil
}

type mapDB struct{ m map[string][]byte }

func (d *mapDB) Has(k []byte) (bool, error) { _, ok := d.m[string(k)]; return ok, nil }
func (d *mapDB) Get(k []byte) ([]byte, error) {
	v, ok := d.m[string(k)]
	if !ok {
		return nil, fmt.Errorf("not found")
	}
	return v, nil
}

var _ = sort.Strings
