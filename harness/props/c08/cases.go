package c08

// cases.go: the case catalogue. Every kind builds (claim, proof) from the
// generated world; none of them states an expectation – the oracle in
// c08_test.go derives it from the world's ground truth.

import (
	"bytes"
	"encoding/hex"
	"encoding/json"
	"math"
	"math/big"
	"math/rand"
	"strings"

	"github.com/ethereum/go-ethereum/common"
	"github.com/ethereum/go-ethereum/common/hexutil"
	"github.com/ethereum/go-ethereum/crypto"
)

// heightSpec names the proof height relative to a client's installed states.
type heightSpec struct {
	st    int    // state whose installed height is the base
	delta int64  // added to it
	rev   uint64 // added to the client's revision number
	lower bool   // the revision before the client's (only for clients whose revision is not 0)
	abs   bool   // use absVal instead
	absV  uint64
}

type claim struct {
	hs         heightSpec
	ack        bool
	src, dst   string
	seq        uint64
	commitment []byte
}

const (
	rawFromObj  = 0 // proof bytes = json.Marshal(obj)
	rawBroken   = 1 // proof bytes carry no usable proof (nil, garbage, truncated JSON)
	rawReencode = 2 // proof bytes are another JSON rendering of obj
	rawFuzz     = 3 // byte-level mutation of a JSON proof: the runner re-parses it (unparseable = broken)
)

type caseSpec struct {
	kind     string
	claim    claim
	obj      *proofJSON
	raw      []byte
	rawClass int
}

type gen struct {
	w   *world
	rng *rand.Rand
}

func (g *gen) okState() int {
	if g.rng.Intn(2) == 0 {
		return stOld
	}
	return stBoundary
}

func (g *gen) pickTrue(st int) ref {
	t := g.w.truths[st]
	return t[g.rng.Intn(len(t))]
}

func (g *gen) claimOf(st int, r ref) claim {
	return claim{hs: heightSpec{st: st}, ack: r.ack, src: r.p.src, dst: r.p.dst, seq: r.p.seq, commitment: append([]byte{}, r.val()...)}
}

// honestCase: the canonical honest proof for ref r in state st, claimed at st's height.
func (g *gen) honestCase(kind string, st int, r ref) *caseSpec {
	obj, _ := g.w.honest(g.w.states[st], g.w.A, r.slot())
	return &caseSpec{kind: kind, claim: g.claimOf(st, r), obj: obj}
}

// trueBase: an honest case for a random true fact at a height whose delay has passed.
func (g *gen) trueBase(kind string) *caseSpec {
	st := g.okState()
	return g.honestCase(kind, st, g.pickTrue(st))
}

// p0 / leading-zero helpers
func (g *gen) refOf(i int, ack bool) ref { return ref{p: g.w.packets[i], ack: ack} }

// ------------------------------------------------------------ list mutators

func flipHexBit(rng *rand.Rand, s string) string {
	b := common.FromHex(s)
	if len(b) == 0 {
		return "0x01"
	}
	i := rng.Intn(len(b))
	b[i] ^= 1 << uint(rng.Intn(8))
	return hexutil.Encode(b)
}

func upperHex(s string) string {
	if strings.HasPrefix(s, "0x") {
		return "0x" + strings.ToUpper(s[2:])
	}
	return strings.ToUpper(s)
}

func no0x(s string) string { return strings.TrimPrefix(s, "0x") }

type listMut struct {
	name string
	f    func(g *gen, l []string, foreign []string) []string
}

func midIndex(rng *rand.Rand, n int) int {
	if n >= 3 {
		return 1 + rng.Intn(n-2)
	}
	return rng.Intn(n)
}

var listMuts = []listMut{
	{"drop-first", func(g *gen, l, _ []string) []string { return append([]string{}, l[1:]...) }},
	{"drop-last", func(g *gen, l, _ []string) []string { return append([]string{}, l[:len(l)-1]...) }},
	{"drop-middle", func(g *gen, l, _ []string) []string {
		i := midIndex(g.rng, len(l))
		return append(append([]string{}, l[:i]...), l[i+1:]...)
	}},
	{"drop-all", func(g *gen, l, _ []string) []string { return []string{} }},
	{"nil-list", func(g *gen, l, _ []string) []string { return nil }},
	{"dup", func(g *gen, l, _ []string) []string {
		i := g.rng.Intn(len(l))
		out := append([]string{}, l[:i+1]...)
		return append(out, l[i:]...)
	}},
	{"reverse", func(g *gen, l, _ []string) []string {
		out := make([]string, len(l))
		for i := range l {
			out[len(l)-1-i] = l[i]
		}
		return out
	}},
	{"shuffle", func(g *gen, l, _ []string) []string {
		out := append([]string{}, l...)
		g.rng.Shuffle(len(out), func(i, j int) { out[i], out[j] = out[j], out[i] })
		return out
	}},
	{"extra-foreign", func(g *gen, l, fo []string) []string {
		i := g.rng.Intn(len(l) + 1)
		out := append([]string{}, l[:i]...)
		out = append(out, fo[g.rng.Intn(len(fo))])
		return append(out, l[i:]...)
	}},
	{"extra-garbage", func(g *gen, l, _ []string) []string {
		junk := []string{"", "0x", "zz", "0xzz", "0x80", "0xc0", "null"}
		return append(append([]string{}, l...), junk[g.rng.Intn(len(junk))])
	}},
	{"bitflip", func(g *gen, l, _ []string) []string {
		out := append([]string{}, l...)
		i := g.rng.Intn(len(out))
		out[i] = flipHexBit(g.rng, out[i])
		return out
	}},
	{"replace-foreign", func(g *gen, l, fo []string) []string {
		out := append([]string{}, l...)
		i := g.rng.Intn(len(out))
		j := i
		if j >= len(fo) {
			j = len(fo) - 1
		}
		out[i] = fo[j]
		return out
	}},
	{"all-foreign", func(g *gen, l, fo []string) []string { return append([]string{}, fo...) }},
	{"trunc-node", func(g *gen, l, _ []string) []string {
		out := append([]string{}, l...)
		i := g.rng.Intn(len(out))
		out[i] = out[i][:len(out[i])-2]
		return out
	}},
	{"append-byte", func(g *gen, l, _ []string) []string {
		out := append([]string{}, l...)
		i := g.rng.Intn(len(out))
		out[i] = out[i] + "00"
		return out
	}},
	{"prepend-byte", func(g *gen, l, _ []string) []string {
		out := append([]string{}, l...)
		i := g.rng.Intn(len(out))
		out[i] = "0x00" + out[i][2:]
		return out
	}},
	{"empty-entry", func(g *gen, l, _ []string) []string {
		out := append([]string{}, l...)
		out[g.rng.Intn(len(out))] = ""
		return out
	}},
	{"upper", func(g *gen, l, _ []string) []string {
		out := make([]string, len(l))
		for i := range l {
			out[i] = upperHex(l[i])
		}
		return out
	}},
	{"no0x", func(g *gen, l, _ []string) []string {
		out := make([]string, len(l))
		for i := range l {
			out[i] = no0x(l[i])
		}
		return out
	}},
	{"trailing-garbage", func(g *gen, l, _ []string) []string {
		out := append([]string{}, l...)
		i := g.rng.Intn(len(out))
		out[i] = out[i] + "zz"
		return out
	}},
}

// ---------------------------------------------------------------- the kinds

type kind struct {
	name string
	f    func(g *gen) *caseSpec // nil result = not applicable in this world
}

func (g *gen) foreignNodes(acct bool, r ref) []string {
	fs := g.w.foreign
	_, nd := g.w.honest(fs, g.w.A, r.slot())
	if acct {
		return hexNodes(nd.acct)
	}
	if len(nd.stor) == 0 {
		return []string{"0x80"}
	}
	return hexNodes(nd.stor)
}

func randBytes(rng *rand.Rand, n int) []byte {
	b := make([]byte, n)
	rng.Read(b)
	return b
}

func allKinds() []kind {
	ks := []kind{
		// ------------------------------------------------------------ honest
		{"honest/old", func(g *gen) *caseSpec { return g.honestCase("", stOld, g.pickTrue(stOld)) }},
		{"honest/old-2", func(g *gen) *caseSpec { return g.honestCase("", stOld, g.pickTrue(stOld)) }},
		{"honest/boundary", func(g *gen) *caseSpec { return g.honestCase("", stBoundary, g.pickTrue(stBoundary)) }},
		{"honest/boundary-2", func(g *gen) *caseSpec { return g.honestCase("", stBoundary, g.pickTrue(stBoundary)) }},
		{"honest/p0-commit", func(g *gen) *caseSpec { return g.honestCase("", g.okState(), g.refOf(0, false)) }},
		{"honest/p0-ack", func(g *gen) *caseSpec { return g.honestCase("", g.okState(), g.refOf(0, true)) }},
		{"honest/leading-zero-commit", func(g *gen) *caseSpec { return g.honestCase("", g.okState(), g.refOf(1, false)) }},
		{"honest/leading-zero-ack", func(g *gen) *caseSpec { return g.honestCase("", g.okState(), g.refOf(1, true)) }},
		{"honest/dup-value", func(g *gen) *caseSpec { return g.honestCase("", g.okState(), g.refOf(4, false)) }},
		{"honest/p6", func(g *gen) *caseSpec { return g.honestCase("", g.okState(), g.refOf(6, g.rng.Intn(2) == 0)) }},
		{"honest/leading-zero-slot-commit", func(g *gen) *caseSpec { return g.honestCase("", g.okState(), g.refOf(6, false)) }},
		{"honest/leading-zero-slot-ack", func(g *gen) *caseSpec { return g.honestCase("", g.okState(), g.refOf(4, true)) }},
		{"honest/p5-ack", func(g *gen) *caseSpec { return g.honestCase("", g.okState(), g.refOf(5, true)) }},

		// ------------------------------------------------------------ height / root
		{"height/delay-not-passed", func(g *gen) *caseSpec { return g.honestCase("", stNotPassed, g.pickTrue(stNotPassed)) }},
		{"height/above-head", func(g *gen) *caseSpec { return g.honestCase("", stAboveHead, g.pickTrue(stAboveHead)) }},
		{"height/no-root+1", func(g *gen) *caseSpec {
			c := g.honestCase("", stOld, g.pickTrue(stOld))
			c.claim.hs.delta = 1
			return c
		}},
		{"height/no-root-rev1", func(g *gen) *caseSpec {
			c := g.trueBase("")
			c.claim.hs.rev = 1
			return c
		}},
		{"height/lower-revision/honest-for-the-root-stored-there", func(g *gen) *caseSpec {
			// the client keeps, from the revision before, a state at the block number of stOld whose root is stBoundary's
			c := g.honestCase("", stBoundary, g.pickTrue(stBoundary))
			c.claim.hs = heightSpec{st: stOld, lower: true}
			return c
		}},
		{"height/lower-revision/proof-for-the-current-revision's-root", func(g *gen) *caseSpec {
			c := g.honestCase("", stOld, g.pickTrue(stOld))
			c.claim.hs = heightSpec{st: stOld, lower: true}
			return c
		}},
		{"height/zero", func(g *gen) *caseSpec {
			c := g.trueBase("")
			c.claim.hs = heightSpec{abs: true, absV: 0}
			return c
		}},
		{"height/max", func(g *gen) *caseSpec {
			c := g.trueBase("")
			c.claim.hs = heightSpec{abs: true, absV: math.MaxUint64}
			return c
		}},
		{"height/old-proof-at-boundary", func(g *gen) *caseSpec {
			c := g.honestCase("", stOld, g.refOf(0, g.rng.Intn(2) == 0))
			c.claim.hs.st = stBoundary
			return c
		}},
		{"height/boundary-proof-at-old", func(g *gen) *caseSpec {
			c := g.honestCase("", stBoundary, g.refOf(0, g.rng.Intn(2) == 0))
			c.claim.hs.st = stOld
			return c
		}},
		{"height/above-head-proof-at-old", func(g *gen) *caseSpec {
			c := g.honestCase("", stAboveHead, g.refOf(0, false))
			c.claim.hs.st = stOld
			return c
		}},
		{"height/deleted-later/old-proof", func(g *gen) *caseSpec {
			c := g.honestCase("", stOld, g.refOf(3, g.rng.Intn(2) == 0))
			c.claim.hs.st = stBoundary
			return c
		}},
		{"height/deleted-later/nonmembership", func(g *gen) *caseSpec {
			return g.honestCase("", stBoundary, g.refOf(3, g.rng.Intn(2) == 0))
		}},
		{"height/not-yet/later-proof", func(g *gen) *caseSpec {
			c := g.honestCase("", stBoundary, g.refOf(2, false))
			c.claim.hs.st = stOld
			return c
		}},
		{"height/not-yet/honest-later", func(g *gen) *caseSpec { return g.honestCase("", stBoundary, g.refOf(2, false)) }},
		{"height/forged-state", func(g *gen) *caseSpec {
			r := ref{p: g.w.absent, ack: g.rng.Intn(2) == 0}
			obj, _ := g.w.honest(g.w.states[stForged], g.w.A, r.slot())
			return &caseSpec{claim: g.claimOf(stOld, r), obj: obj}
		}},
		{"height/foreign-state", func(g *gen) *caseSpec {
			r := g.refOf(0, false)
			obj, _ := g.w.honest(g.w.foreign, g.w.A, r.slot())
			return &caseSpec{claim: g.claimOf(g.okState(), r), obj: obj}
		}},

		// ------------------------------------------------------------ address
		{"addr/field-other-contract", func(g *gen) *caseSpec {
			c := g.trueBase("")
			c.obj.Address = hexutil.Encode(g.w.B[:])
			return c
		}},
		{"addr/other-contract-honest", func(g *gen) *caseSpec {
			if !g.w.hasB {
				return nil
			}
			st := g.okState()
			r := ref{p: g.w.absent, ack: g.rng.Intn(2) == 0}
			obj, _ := g.w.honest(g.w.states[st], g.w.B, r.slot())
			return &caseSpec{claim: g.claimOf(st, r), obj: obj}
		}},
		{"addr/other-contract-honest-p3", func(g *gen) *caseSpec {
			if !g.w.hasB {
				return nil
			}
			r := g.refOf(3, false) // deleted in A at stBoundary, still in B
			obj, _ := g.w.honest(g.w.states[stBoundary], g.w.B, r.slot())
			return &caseSpec{claim: g.claimOf(stBoundary, r), obj: obj}
		}},
		{"addr/other-contract-proof-addrA", func(g *gen) *caseSpec {
			if !g.w.hasB {
				return nil
			}
			st := g.okState()
			r := ref{p: g.w.absent}
			obj, _ := g.w.honest(g.w.states[st], g.w.B, r.slot())
			obj.Address = hexutil.Encode(g.w.A[:])
			return &caseSpec{claim: g.claimOf(st, r), obj: obj}
		}},
		{"addr/eoa-honest", func(g *gen) *caseSpec {
			if len(g.w.fillers) == 0 {
				return nil
			}
			st := g.okState()
			r := ref{p: g.w.absent}
			obj, _ := g.w.honest(g.w.states[st], g.w.fillers[g.rng.Intn(len(g.w.fillers))], r.slot())
			return &caseSpec{claim: g.claimOf(st, r), obj: obj}
		}},
		{"addr/absent-contract", func(g *gen) *caseSpec {
			r := g.refOf(0, g.rng.Intn(2) == 0)
			return g.honestCase("", stNoA, r)
		}},
		{"addr/absent-contract-old-fields", func(g *gen) *caseSpec {
			// account fields and storage proof of stOld, account proof of the state without A
			r := g.refOf(0, false)
			c := g.honestCase("", stOld, r)
			no, _ := g.w.honest(g.w.states[stNoA], g.w.A, r.slot())
			c.obj.AccountProof = no.AccountProof
			c.claim.hs.st = stNoA
			return c
		}},
		{"addr/upper", func(g *gen) *caseSpec { c := g.trueBase(""); c.obj.Address = upperHex(c.obj.Address); return c }},
		{"addr/0X", func(g *gen) *caseSpec { c := g.trueBase(""); c.obj.Address = "0X" + c.obj.Address[2:]; return c }},
		{"addr/no0x", func(g *gen) *caseSpec { c := g.trueBase(""); c.obj.Address = no0x(c.obj.Address); return c }},
		{"addr/checksum", func(g *gen) *caseSpec { c := g.trueBase(""); c.obj.Address = g.w.A.Hex(); return c }},
		{"addr/padded32", func(g *gen) *caseSpec {
			c := g.trueBase("")
			c.obj.Address = "0x" + strings.Repeat("00", 12) + c.obj.Address[2:]
			return c
		}},
		{"addr/trunc", func(g *gen) *caseSpec {
			c := g.trueBase("")
			if g.rng.Intn(2) == 0 {
				c.obj.Address = "0x" + c.obj.Address[4:]
			} else {
				c.obj.Address = c.obj.Address[:len(c.obj.Address)-2]
			}
			return c
		}},
		{"addr/empty", func(g *gen) *caseSpec { c := g.trueBase(""); c.obj.Address = ""; return c }},
		{"addr/random", func(g *gen) *caseSpec {
			c := g.trueBase("")
			c.obj.Address = hexutil.Encode(randBytes(g.rng, 20))
			return c
		}},

		// ------------------------------------------------------------ account fields
		{"acct/nonce+1", func(g *gen) *caseSpec {
			c := g.trueBase("")
			n, _ := hexutil.DecodeUint64(c.obj.Nonce)
			c.obj.Nonce = hexutil.EncodeUint64(n + 1)
			return c
		}},
		{"acct/nonce-0", func(g *gen) *caseSpec { c := g.trueBase(""); c.obj.Nonce = "0x0"; return c }},
		{"acct/balance+1", func(g *gen) *caseSpec {
			c := g.trueBase("")
			b, _ := hexutil.DecodeBig(c.obj.Balance)
			c.obj.Balance = hexutil.EncodeBig(new(big.Int).Add(b, big.NewInt(1)))
			return c
		}},
		{"acct/codehash-flip", func(g *gen) *caseSpec {
			c := g.trueBase("")
			c.obj.CodeHash = flipHexBit(g.rng, c.obj.CodeHash)
			return c
		}},
		{"acct/codehash-empty", func(g *gen) *caseSpec { c := g.trueBase(""); c.obj.CodeHash = hexutil.Encode(emptyCode); return c }},
		{"acct/storagehash-flip", func(g *gen) *caseSpec {
			c := g.trueBase("")
			c.obj.StorageHash = flipHexBit(g.rng, c.obj.StorageHash)
			return c
		}},
		{"acct/storagehash-emptyroot", func(g *gen) *caseSpec {
			c := g.trueBase("")
			c.obj.StorageHash = hexutil.Encode(emptyRoot[:])
			return c
		}},
		{"acct/forged-storage", func(g *gen) *caseSpec {
			// honest account proof, fabricated storage trie that contains the claimed slot
			r := ref{p: g.w.absent, ack: g.rng.Intn(2) == 0}
			c := g.honestCase("", stOld, r)
			fo, _ := g.w.honest(g.w.states[stForged], g.w.A, r.slot())
			c.obj.StorageHash = fo.StorageHash
			c.obj.StorageProof = fo.StorageProof
			return c
		}},
		{"acct/borrowed-storage-of-B", func(g *gen) *caseSpec {
			if !g.w.hasB {
				return nil
			}
			st := g.okState()
			r := ref{p: g.w.absent, ack: g.rng.Intn(2) == 0}
			c := g.honestCase("", st, r)
			bo, _ := g.w.honest(g.w.states[st], g.w.B, r.slot())
			c.obj.StorageHash = bo.StorageHash
			c.obj.StorageProof = bo.StorageProof
			return c
		}},
		{"acct/all-fields-of-B", func(g *gen) *caseSpec {
			if !g.w.hasB {
				return nil
			}
			st := g.okState()
			r := ref{p: g.w.absent}
			c := g.honestCase("", st, r)
			bo, _ := g.w.honest(g.w.states[st], g.w.B, r.slot())
			acctProof := c.obj.AccountProof
			*c.obj = *bo
			c.obj.Address = hexutil.Encode(g.w.A[:])
			c.obj.AccountProof = acctProof
			return c
		}},
		{"acct/borrowed-storage-of-other-height", func(g *gen) *caseSpec {
			// P2 is not yet committed in stOld; take storage root + proof of stBoundary
			r := g.refOf(2, false)
			c := g.honestCase("", stOld, r)
			la, _ := g.w.honest(g.w.states[stBoundary], g.w.A, r.slot())
			c.obj.StorageHash = la.StorageHash
			c.obj.StorageProof = la.StorageProof
			return c
		}},
		{"acct/empty-storage-nonmembership", func(g *gen) *caseSpec { return g.honestCase("", stEmptyA, g.refOf(0, false)) }},
		{"acct/empty-storage-borrowed", func(g *gen) *caseSpec {
			r := g.refOf(0, false)
			c := g.honestCase("", stEmptyA, r)
			old, _ := g.w.honest(g.w.states[stOld], g.w.A, r.slot())
			c.obj.StorageHash = old.StorageHash
			c.obj.StorageProof = old.StorageProof
			return c
		}},
		{"acct/enc/nonce-leading-zero", func(g *gen) *caseSpec { c := g.trueBase(""); c.obj.Nonce = "0x0" + c.obj.Nonce[2:]; return c }},
		{"acct/enc/balance-pad32", func(g *gen) *caseSpec {
			c := g.trueBase("")
			b, _ := hexutil.DecodeBig(c.obj.Balance)
			c.obj.Balance = hexutil.Encode(common.LeftPadBytes(b.Bytes(), 32))
			return c
		}},
		{"acct/enc/upper", func(g *gen) *caseSpec {
			c := g.trueBase("")
			c.obj.CodeHash, c.obj.StorageHash = upperHex(c.obj.CodeHash), upperHex(c.obj.StorageHash)
			c.obj.Balance, c.obj.Nonce = upperHex(c.obj.Balance), upperHex(c.obj.Nonce)
			return c
		}},
		{"acct/enc/no0x", func(g *gen) *caseSpec {
			c := g.trueBase("")
			c.obj.CodeHash, c.obj.StorageHash = no0x(c.obj.CodeHash), no0x(c.obj.StorageHash)
			c.obj.Balance, c.obj.Nonce = no0x(c.obj.Balance), no0x(c.obj.Nonce)
			return c
		}},

		// ------------------------------------------------------------ key
		{"key/field-other-slot", func(g *gen) *caseSpec {
			c := g.trueBase("")
			c.obj.StorageProof[0].Key = hexutil.Encode(randBytes(g.rng, 32))
			return c
		}},
		{"key/other-slot-same-value", func(g *gen) *caseSpec {
			// never-committed packet claimed with P0's commitment, honest proof of P0's slot
			st := g.okState()
			c := g.honestCase("", st, g.refOf(0, false))
			ab := g.w.absent
			c.claim.src, c.claim.dst, c.claim.seq, c.claim.ack = ab.src, ab.dst, ab.seq, g.rng.Intn(2) == 0
			return c
		}},
		{"key/other-slot-same-value-dup", func(g *gen) *caseSpec {
			// P3 (deleted at stBoundary) claimed with its own commitment, proven with a junk/other slot of equal value? use P4==P0 value:
			// claim P2@stOld (not yet committed) with P0's value and P4's honest proof
			c := g.honestCase("", stOld, g.refOf(4, false))
			p := g.w.packets[2]
			c.claim.src, c.claim.dst, c.claim.seq, c.claim.ack = p.src, p.dst, p.seq, false
			return c
		}},
		{"key/pad-left", func(g *gen) *caseSpec {
			c := g.trueBase("")
			c.obj.StorageProof[0].Key = "0x" + hex.EncodeToString(randBytes(g.rng, 1+g.rng.Intn(4))) + c.obj.StorageProof[0].Key[2:]
			return c
		}},
		{"key/pad-right", func(g *gen) *caseSpec {
			c := g.trueBase("")
			c.obj.StorageProof[0].Key += "00"
			return c
		}},
		{"key/trunc-last", func(g *gen) *caseSpec {
			c := g.trueBase("")
			k := c.obj.StorageProof[0].Key
			c.obj.StorageProof[0].Key = k[:len(k)-2]
			return c
		}},
		{"key/trunc-first", func(g *gen) *caseSpec {
			c := g.trueBase("")
			c.obj.StorageProof[0].Key = "0x" + c.obj.StorageProof[0].Key[4:]
			return c
		}},
		{"key/strip-zeros", func(g *gen) *caseSpec {
			c := g.trueBase("")
			k := strings.TrimLeft(c.obj.StorageProof[0].Key[2:], "0")
			c.obj.StorageProof[0].Key = "0x" + k
			return c
		}},
		{"key/upper", func(g *gen) *caseSpec {
			c := g.trueBase("")
			c.obj.StorageProof[0].Key = upperHex(c.obj.StorageProof[0].Key)
			return c
		}},
		{"key/no0x", func(g *gen) *caseSpec {
			c := g.trueBase("")
			c.obj.StorageProof[0].Key = no0x(c.obj.StorageProof[0].Key)
			return c
		}},
		{"key/empty", func(g *gen) *caseSpec { c := g.trueBase(""); c.obj.StorageProof[0].Key = ""; return c }},
		{"key/hashed", func(g *gen) *caseSpec {
			c := g.trueBase("")
			c.obj.StorageProof[0].Key = hexutil.Encode(crypto.Keccak256(common.FromHex(c.obj.StorageProof[0].Key)))
			return c
		}},
		{"key/overlong-key-of-another-entry", func(g *gen) *caseSpec {
			// the never-committed packet is claimed with its own commitment; the proof is a genuine proof of ANOTHER storage
			// entry (key preimage = some bytes || the packet's slot) that holds that value, with that preimage as key field
			st := g.okState()
			a := g.w.states[st].accounts[g.w.A]
			if a == nil || a.storTrie == nil || len(trimZeros(g.w.absent.commit)) == 0 {
				return nil
			}
			c := g.honestCase("", st, ref{p: g.w.absent})
			sp := c.obj.StorageProof[0]
			sp.Key = hexutil.Encode(g.w.overlong)
			sp.Value = hexutil.EncodeBig(new(big.Int).SetBytes(g.w.absent.commit))
			sp.Proof = hexNodes(prove(a.storTrie, crypto.Keccak256(g.w.overlong)))
			return c
		}},
		{"key/junk-slot-holding-claimed-value", func(g *gen) *caseSpec {
			// the value sits in a slot derived with another mapping index; the claim's real slot is unwritten
			// (uses the forged-free approach: claim absent packet, prove a junk slot) – only when junk exists
			if len(g.w.junk) == 0 {
				return nil
			}
			a := g.w.states[stOld].accounts[g.w.A]
			sl := g.w.junk[g.rng.Intn(len(g.w.junk))]
			v := a.storage[sl]
			if len(v) == 0 || len(v) > 32 {
				return nil
			}
			obj, _ := g.w.honest(g.w.states[stOld], g.w.A, sl)
			ab := g.w.absent
			return &caseSpec{claim: claim{hs: heightSpec{st: stOld}, src: ab.src, dst: ab.dst, seq: ab.seq, commitment: common.LeftPadBytes(v, 32)}, obj: obj}
		}},

		// ------------------------------------------------------------ value
		{"val/json-other", func(g *gen) *caseSpec {
			c := g.trueBase("")
			c.obj.StorageProof[0].Value = hexutil.Encode(randBytes(g.rng, 32))
			return c
		}},
		{"val/json-empty", func(g *gen) *caseSpec { c := g.trueBase(""); c.obj.StorageProof[0].Value = ""; return c }},
		{"val/commit-random", func(g *gen) *caseSpec { c := g.trueBase(""); c.claim.commitment = gen32(g.rng); return c }},
		{"val/commit-bitflip", func(g *gen) *caseSpec {
			c := g.trueBase("")
			c.claim.commitment[g.rng.Intn(32)] ^= 1 << uint(g.rng.Intn(8))
			return c
		}},
		{"val/commit-last-bit", func(g *gen) *caseSpec { c := g.trueBase(""); c.claim.commitment[31] ^= 1; return c }},
		{"val/commit-first-bit", func(g *gen) *caseSpec { c := g.trueBase(""); c.claim.commitment[0] ^= 0x80; return c }},
		{"val/commit-strip-zeros", func(g *gen) *caseSpec {
			c := g.honestCase("", g.okState(), g.refOf(1, g.rng.Intn(2) == 0))
			c.claim.commitment = append([]byte{}, trimZeros(c.claim.commitment)...)
			return c
		}},
		{"val/commit-pad-left", func(g *gen) *caseSpec {
			c := g.trueBase("")
			c.claim.commitment = append(make([]byte, 1+g.rng.Intn(3)), c.claim.commitment...)
			return c
		}},
		{"val/commit-suffix", func(g *gen) *caseSpec {
			c := g.honestCase("", g.okState(), g.refOf(0, g.rng.Intn(2) == 0))
			c.claim.commitment = c.claim.commitment[1+g.rng.Intn(31):]
			return c
		}},
		{"val/commit-prefix", func(g *gen) *caseSpec {
			c := g.honestCase("", g.okState(), g.refOf(0, g.rng.Intn(2) == 0))
			c.claim.commitment = c.claim.commitment[:1+g.rng.Intn(31)]
			return c
		}},
		{"val/commit-pad-right", func(g *gen) *caseSpec {
			c := g.trueBase("")
			c.claim.commitment = append(c.claim.commitment, 0)
			return c
		}},
		{"val/commit-shifted", func(g *gen) *caseSpec {
			// leading-zero value shifted left: same significant bytes, other number
			c := g.honestCase("", g.okState(), g.refOf(1, false))
			t := trimZeros(c.claim.commitment)
			s := make([]byte, 32)
			copy(s, t)
			c.claim.commitment = s
			return c
		}},
		{"val/commit-empty", func(g *gen) *caseSpec { c := g.trueBase(""); c.claim.commitment = []byte{}; return c }},
		{"val/commit-nil", func(g *gen) *caseSpec { c := g.trueBase(""); c.claim.commitment = nil; return c }},
		{"val/commit-zero32", func(g *gen) *caseSpec { c := g.trueBase(""); c.claim.commitment = make([]byte, 32); return c }},
		{"val/commit-doubled", func(g *gen) *caseSpec {
			c := g.trueBase("")
			c.claim.commitment = append(append([]byte{}, c.claim.commitment...), c.claim.commitment...)
			return c
		}},
		{"val/commit-of-other-packet", func(g *gen) *caseSpec {
			c := g.honestCase("", g.okState(), g.refOf(0, false))
			c.claim.commitment = append([]byte{}, g.w.packets[6].commit...)
			return c
		}},
		{"val/commit-rlp-of-value", func(g *gen) *caseSpec {
			c := g.trueBase("")
			c.claim.commitment = append([]byte{0xa0}, c.claim.commitment...)
			return c
		}},
		{"val/zero-absent-slot", func(g *gen) *caseSpec {
			c := g.honestCase("", g.okState(), ref{p: g.w.absent})
			c.claim.commitment = make([]byte, 32)
			return c
		}},
		{"val/zero-p5", func(g *gen) *caseSpec { return g.honestCase("", g.okState(), g.refOf(5, false)) }},
		{"val/nonzero-claim-on-p5", func(g *gen) *caseSpec {
			c := g.honestCase("", g.okState(), g.refOf(5, false))
			c.claim.commitment = gen32(g.rng)
			return c
		}},

		// ------------------------------------------------------------ number of storage proofs
		{"sp/zero", func(g *gen) *caseSpec { c := g.trueBase(""); c.obj.StorageProof = []*storageJSON{}; return c }},
		{"sp/nil", func(g *gen) *caseSpec { c := g.trueBase(""); c.obj.StorageProof = nil; return c }},
		{"sp/two-honest-first", func(g *gen) *caseSpec {
			c := g.trueBase("")
			o, _ := g.w.honest(g.w.states[c.claim.hs.st], g.w.A, g.refOf(6, false).slot())
			c.obj.StorageProof = append(c.obj.StorageProof, o.StorageProof[0])
			return c
		}},
		{"sp/two-honest-second", func(g *gen) *caseSpec {
			c := g.trueBase("")
			o, _ := g.w.honest(g.w.states[c.claim.hs.st], g.w.A, ref{p: g.w.absent}.slot())
			c.obj.StorageProof = []*storageJSON{o.StorageProof[0], c.obj.StorageProof[0]}
			return c
		}},
		{"sp/two-same", func(g *gen) *caseSpec {
			c := g.trueBase("")
			c.obj.StorageProof = append(c.obj.StorageProof, c.obj.StorageProof[0])
			return c
		}},
		{"sp/null-entry", func(g *gen) *caseSpec { c := g.trueBase(""); c.obj.StorageProof = []*storageJSON{nil}; return c }},
		{"sp/null-then-honest", func(g *gen) *caseSpec {
			c := g.trueBase("")
			c.obj.StorageProof = []*storageJSON{nil, c.obj.StorageProof[0]}
			return c
		}},
		{"sp/two-false-claim", func(g *gen) *caseSpec {
			// claim the never-committed packet; first entry: honest non-membership, second: honest P0
			st := g.okState()
			c := g.honestCase("", st, ref{p: g.w.absent})
			o, _ := g.w.honest(g.w.states[st], g.w.A, g.refOf(0, false).slot())
			c.obj.StorageProof = append(c.obj.StorageProof, o.StorageProof[0])
			c.claim.commitment = append([]byte{}, g.w.packets[0].commit...)
			return c
		}},

		// ------------------------------------------------------------ absent key
		{"absent/nonmembership", func(g *gen) *caseSpec {
			return g.honestCase("", g.okState(), ref{p: g.w.absent, ack: g.rng.Intn(2) == 0})
		}},
		{"absent/nonmembership-p0-value", func(g *gen) *caseSpec {
			c := g.honestCase("", g.okState(), ref{p: g.w.absent})
			c.claim.commitment = append([]byte{}, g.w.packets[0].commit...)
			return c
		}},
		{"absent/nonmembership-keyed-as-p0", func(g *gen) *caseSpec {
			// non-membership path of the claimed slot, key field and value borrowed from P0
			c := g.honestCase("", g.okState(), ref{p: g.w.absent})
			c.obj.StorageProof[0].Key = hexutil.Encode(g.refOf(0, false).slot().Bytes())
			c.claim.commitment = append([]byte{}, g.w.packets[0].commit...)
			return c
		}},
		{"absent/seq+1", func(g *gen) *caseSpec {
			st := g.okState()
			r := g.pickTrue(st)
			q := *r.p
			q.seq++
			c := g.honestCase("", st, ref{p: &q, ack: r.ack})
			c.claim.commitment = append([]byte{}, r.val()...)
			return c
		}},

		// ------------------------------------------------------------ path confusion
		{"path/commit-proof-for-ack-claim", func(g *gen) *caseSpec {
			c := g.honestCase("", g.okState(), g.refOf(0, false))
			c.claim.ack = true
			return c
		}},
		{"path/ack-proof-for-commit-claim", func(g *gen) *caseSpec {
			c := g.honestCase("", g.okState(), g.refOf(0, true))
			c.claim.ack = false
			return c
		}},
		{"path/ack-claim-with-commit-value-own-proof", func(g *gen) *caseSpec {
			// honest proof of the ack slot, but the claimed hash is the commitment
			c := g.honestCase("", g.okState(), g.refOf(0, true))
			c.claim.commitment = append([]byte{}, g.w.packets[0].commit...)
			return c
		}},
		{"path/p8-ack-equals-p0-commit", func(g *gen) *caseSpec {
			// P8's ack hash equals P0's commitment: claim commit(P8) with that value and the ack proof
			st := g.okState()
			c := g.honestCase("", st, g.refOf(8, true))
			c.claim.ack = false
			return c
		}},
		{"path/seq+1", func(g *gen) *caseSpec { c := g.trueBase(""); c.claim.seq++; return c }},
		{"path/seq-1", func(g *gen) *caseSpec { c := g.trueBase(""); c.claim.seq--; return c }},
		{"path/swap-src-dst", func(g *gen) *caseSpec {
			c := g.trueBase("")
			if c.claim.src == c.claim.dst {
				c.claim.src += "x"
			} else {
				c.claim.src, c.claim.dst = c.claim.dst, c.claim.src
			}
			return c
		}},
		// the chain names of a packet are free strings: spellings a path cleaner would fold onto the proven pair ("x/..",
		// "./", doubled or trailing slashes) name OTHER pairs and other slots
		{"path/names-a-path-cleaner-would-fold", func(g *gen) *caseSpec {
			c := g.trueBase("")
			switch g.rng.Intn(8) {
			case 0:
				c.claim.src += "/x/.."
			case 1:
				c.claim.dst = "./" + c.claim.dst
			case 2:
				c.claim.src += "/"
			case 3:
				c.claim.dst += "/."
			case 4:
				c.claim.src = "y/../" + c.claim.src
			case 5:
				c.claim.dst = c.claim.dst + "//"
			case 6:
				c.claim.src, c.claim.dst = c.claim.src+"/"+c.claim.dst, "."
			default:
				c.claim.src, c.claim.dst = ".", c.claim.src+"/"+c.claim.dst
			}
			return c
		}},
		{"path/other-src", func(g *gen) *caseSpec { c := g.trueBase(""); c.claim.src += "a"; return c }},
		{"path/other-dst", func(g *gen) *caseSpec { c := g.trueBase(""); c.claim.dst = "z" + c.claim.dst; return c }},
		{"path/other-packet-proof", func(g *gen) *caseSpec {
			st := g.okState()
			c := g.honestCase("", st, g.refOf(6, false))
			p := g.w.packets[0]
			c.claim.src, c.claim.dst, c.claim.seq = p.src, p.dst, p.seq
			return c
		}},
		{"path/other-packet-proof-own-value", func(g *gen) *caseSpec {
			st := g.okState()
			c := g.honestCase("", st, g.refOf(6, false))
			p := g.w.packets[0]
			c.claim.src, c.claim.dst, c.claim.seq = p.src, p.dst, p.seq
			c.claim.commitment = append([]byte{}, p.commit...)
			return c
		}},

		// ------------------------------------------------------------ raw proof bytes
		{"raw/nil", func(g *gen) *caseSpec { c := g.trueBase(""); c.raw, c.rawClass, c.obj = nil, rawBroken, nil; return c }},
		{"raw/empty", func(g *gen) *caseSpec {
			c := g.trueBase("")
			c.raw, c.rawClass, c.obj = []byte{}, rawBroken, nil
			return c
		}},
		{"raw/garbage", func(g *gen) *caseSpec {
			c := g.trueBase("")
			c.raw, c.rawClass, c.obj = randBytes(g.rng, 1+g.rng.Intn(300)), rawBroken, nil
			return c
		}},
		{"raw/trunc-json", func(g *gen) *caseSpec {
			c := g.trueBase("")
			bz, _ := json.Marshal(c.obj)
			c.raw, c.rawClass, c.obj = bz[:1+g.rng.Intn(len(bz)-1)], rawBroken, nil
			return c
		}},
		{"raw/valid-proof-followed-by-data", func(g *gen) *caseSpec {
			// the proof field is ONE JSON value: an acceptable proof with anything but white space behind it is padded
			c := g.trueBase("")
			bz, _ := json.Marshal(c.obj)
			tail := [][]byte{{0}, []byte("{"), []byte(" {}"), []byte("\n\"x\""), bz, randBytes(g.rng, 1+g.rng.Intn(40)), []byte("]")}[g.rng.Intn(7)]
			if len(bytes.TrimSpace(tail)) == 0 {
				tail = []byte("0")
			}
			c.raw, c.rawClass, c.obj = append(append([]byte{}, bz...), tail...), rawBroken, nil
			return c
		}},
		{"raw/null", func(g *gen) *caseSpec {
			c := g.trueBase("")
			c.raw, c.rawClass, c.obj = []byte("null"), rawBroken, nil
			return c
		}},
		{"raw/empty-object", func(g *gen) *caseSpec {
			c := g.trueBase("")
			c.raw, c.rawClass, c.obj = []byte("{}"), rawBroken, nil
			return c
		}},
		{"raw/array", func(g *gen) *caseSpec {
			c := g.trueBase("")
			c.raw, c.rawClass, c.obj = []byte("[]"), rawBroken, nil
			return c
		}},
		{"raw/string", func(g *gen) *caseSpec {
			c := g.trueBase("")
			c.raw, c.rawClass, c.obj = []byte(`"0x00"`), rawBroken, nil
			return c
		}},
		{"raw/camel-case-keys", func(g *gen) *caseSpec {
			c := g.trueBase("")
			bz, _ := json.Marshal(c.obj)
			s := string(bz)
			for _, kv := range [][2]string{{"code_hash", "codeHash"}, {"storage_hash", "storageHash"}, {"account_proof", "accountProof"}, {"storage_proof", "storageProof"}} {
				s = strings.Replace(s, `"`+kv[0]+`"`, `"`+kv[1]+`"`, 1)
			}
			c.raw, c.rawClass = []byte(s), rawReencode
			return c
		}},
		{"raw/upper-case-keys", func(g *gen) *caseSpec {
			c := g.trueBase("")
			bz, _ := json.Marshal(c.obj)
			s := string(bz)
			for _, k := range []string{"address", "balance", "code_hash", "nonce", "storage_hash", "account_proof", "storage_proof", "key", "value", "proof"} {
				s = strings.Replace(s, `"`+k+`"`, `"`+strings.ToUpper(k)+`"`, -1)
			}
			c.raw, c.rawClass = []byte(s), rawReencode
			return c
		}},
		{"raw/extra-fields", func(g *gen) *caseSpec {
			c := g.trueBase("")
			bz, _ := json.Marshal(c.obj)
			c.raw, c.rawClass = []byte(`{"extra":[1,2,{"a":null}],`+string(bz[1:])), rawReencode
			return c
		}},
		{"raw/indent", func(g *gen) *caseSpec {
			c := g.trueBase("")
			bz, _ := json.MarshalIndent(c.obj, " ", "\t")
			c.raw, c.rawClass = append([]byte("\n  "), append(bz, '\n')...), rawReencode
			return c
		}},
		{"raw/dup-address-key", func(g *gen) *caseSpec {
			c := g.trueBase("")
			bz, _ := json.Marshal(c.obj)
			c.raw, c.rawClass = []byte(`{"address":"0x`+hex.EncodeToString(g.w.B[:])+`",`+string(bz[1:])), rawReencode
			return c
		}},
		{"raw/trailing-bytes", func(g *gen) *caseSpec {
			c := g.trueBase("")
			bz, _ := json.Marshal(c.obj)
			c.raw, c.rawClass = append(bz, []byte("{}")...), rawReencode
			return c
		}},
	}

	// byte-level fuzzing of the JSON
	for i := 0; i < 4; i++ {
		ks = append(ks,
			kind{"fuzz/true-claim", func(g *gen) *caseSpec {
				c := g.trueBase("")
				bz, _ := json.Marshal(c.obj)
				c.raw, c.rawClass, c.obj = fuzzBytes(g.rng, bz), rawFuzz, nil
				return c
			}},
			kind{"fuzz/false-value", func(g *gen) *caseSpec {
				c := g.trueBase("")
				c.claim.commitment = gen32(g.rng)
				bz, _ := json.Marshal(c.obj)
				c.raw, c.rawClass, c.obj = fuzzBytes(g.rng, bz), rawFuzz, nil
				return c
			}},
			kind{"fuzz/false-absent", func(g *gen) *caseSpec {
				c := g.honestCase("", g.okState(), ref{p: g.w.absent, ack: g.rng.Intn(2) == 0})
				bz, _ := json.Marshal(c.obj)
				c.raw, c.rawClass, c.obj = fuzzBytes(g.rng, bz), rawFuzz, nil
				return c
			}},
			kind{"fuzz/false-height", func(g *gen) *caseSpec {
				st := stNotPassed
				if g.rng.Intn(2) == 0 {
					st = stAboveHead
				}
				c := g.honestCase("", st, g.pickTrue(st))
				bz, _ := json.Marshal(c.obj)
				c.raw, c.rawClass, c.obj = fuzzBytes(g.rng, bz), rawFuzz, nil
				return c
			}},
		)
	}

	// account-proof and storage-proof node mutations
	for _, lm := range listMuts {
		lm := lm
		ks = append(ks, kind{"accp/" + lm.name, func(g *gen) *caseSpec {
			c := g.trueBase("")
			if len(c.obj.AccountProof) == 0 {
				return nil
			}
			c.obj.AccountProof = lm.f(g, c.obj.AccountProof, g.foreignNodes(true, ref{p: g.w.packets[0]}))
			return c
		}})
		ks = append(ks, kind{"stop/" + lm.name, func(g *gen) *caseSpec {
			c := g.trueBase("")
			sp := c.obj.StorageProof[0]
			if len(sp.Proof) == 0 {
				return nil
			}
			r := ref{p: &packet{src: c.claim.src, dst: c.claim.dst, seq: c.claim.seq}, ack: c.claim.ack}
			sp.Proof = lm.f(g, sp.Proof, g.foreignNodes(false, r))
			return c
		}})
	}
	ks = append(ks,
		kind{"accp/swap-lists", func(g *gen) *caseSpec {
			c := g.trueBase("")
			c.obj.AccountProof, c.obj.StorageProof[0].Proof = c.obj.StorageProof[0].Proof, c.obj.AccountProof
			return c
		}},
		kind{"accp/merge-lists", func(g *gen) *caseSpec {
			c := g.trueBase("")
			all := append(append([]string{}, c.obj.AccountProof...), c.obj.StorageProof[0].Proof...)
			c.obj.AccountProof = all
			c.obj.StorageProof[0].Proof = append([]string{}, all...)
			return c
		}},
		// the storage proof must stand on its own: its nodes handed over in the ACCOUNT proof list instead (all of them, or
		// only the last / the first one), the storage proof itself left empty or truncated
		kind{"stop/nodes-moved-into-account-proof/all", func(g *gen) *caseSpec {
			c := g.trueBase("")
			sp := c.obj.StorageProof[0]
			if len(sp.Proof) == 0 {
				return nil
			}
			c.obj.AccountProof = append(append([]string{}, c.obj.AccountProof...), sp.Proof...)
			sp.Proof = []string{}
			return c
		}},
		kind{"stop/nodes-moved-into-account-proof/last", func(g *gen) *caseSpec {
			c := g.trueBase("")
			sp := c.obj.StorageProof[0]
			if len(sp.Proof) == 0 {
				return nil
			}
			n := len(sp.Proof) - 1
			c.obj.AccountProof = append(append([]string{}, c.obj.AccountProof...), sp.Proof[n])
			sp.Proof = append([]string{}, sp.Proof[:n]...)
			return c
		}},
		kind{"stop/nodes-moved-into-account-proof/first", func(g *gen) *caseSpec {
			c := g.trueBase("")
			sp := c.obj.StorageProof[0]
			if len(sp.Proof) < 2 {
				return nil
			}
			c.obj.AccountProof = append([]string{sp.Proof[0]}, c.obj.AccountProof...)
			sp.Proof = append([]string{}, sp.Proof[1:]...)
			return c
		}},
		// two random object-level mutations of a true base
		kind{"combo/two-list-muts", func(g *gen) *caseSpec {
			c := g.trueBase("")
			a, b := listMuts[g.rng.Intn(len(listMuts))], listMuts[g.rng.Intn(len(listMuts))]
			if len(c.obj.AccountProof) > 0 {
				c.obj.AccountProof = a.f(g, c.obj.AccountProof, g.foreignNodes(true, ref{p: g.w.packets[0]}))
			}
			if len(c.obj.StorageProof[0].Proof) > 0 {
				c.obj.StorageProof[0].Proof = b.f(g, c.obj.StorageProof[0].Proof, g.foreignNodes(false, ref{p: g.w.packets[0]}))
			}
			c.kind = "combo/" + a.name + "+" + b.name
			return c
		}},
		kind{"combo/harmless-encodings", func(g *gen) *caseSpec {
			c := g.trueBase("")
			c.obj.Address = upperHex(c.obj.Address)
			c.obj.StorageProof[0].Key = upperHex(c.obj.StorageProof[0].Key)
			for i := range c.obj.AccountProof {
				c.obj.AccountProof[i] = no0x(c.obj.AccountProof[i])
			}
			c.obj.Nonce = "0x0" + c.obj.Nonce[2:]
			return c
		}},
	)
	return ks
}

// fuzzBytes applies 1..3 byte-level edits.
func fuzzBytes(rng *rand.Rand, in []byte) []byte {
	b := append([]byte{}, in...)
	for n := 1 + rng.Intn(3); n > 0 && len(b) > 0; n-- {
		i := rng.Intn(len(b))
		switch rng.Intn(5) {
		case 0:
			b[i] ^= 1 << uint(rng.Intn(8))
		case 1:
			b[i] = byte(rng.Intn(256))
		case 2:
			b = append(b[:i], b[i+1:]...)
		case 3:
			b = append(b[:i], append([]byte{"0123456789abcdefx\",:[]{}"[rng.Intn(24)]}, b[i:]...)...)
		default:
			j := i + rng.Intn(40)
			if j > len(b) {
				j = len(b)
			}
			b = append(b[:j], append(append([]byte{}, b[i:j]...), b[j:]...)...)
		}
	}
	return b
}
