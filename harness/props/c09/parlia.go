// Package c09 monitors C09: the BSC (Parlia) light client accepts only the next
// block sealed by an eligible validator, switches validator sets only to the
// list of the last epoch header at the prescribed offset, and records every
// accepted header's state root as the consensus state of its height.
//
// This file is the harness' own side: header hashing / sealing written from
// the Parlia specification (fixed-width fields, chain id prepended, extra
// without the 65-byte seal) and the Parlia-lite reference model that decides
// what the client must do. Nothing here calls the verification code of the
// repository.
package c09

import (
	"bytes"
	"crypto/ecdsa"
	"math/big"
	"math/rand"
	"sort"

	"github.com/ethereum/go-ethereum/common"
	"github.com/ethereum/go-ethereum/crypto"
	"github.com/ethereum/go-ethereum/rlp"

	bsctypes "github.com/teleport-network/teleport/x/xibc/clients/light-clients/bsc/types"
)

const (
	vanityLen = 32
	sealLen   = 65
	addrLen   = 20

	minGasLimit = 5000
	gasDivisor  = 256
	gasCap      = uint64(0x7fffffffffffffff)
)

// keccak256(rlp([])): the uncle hash of a block without uncles.
var emptyUncle = crypto.Keccak256Hash([]byte{0xc0})

// secp256k1 group order, for the high-s twin of a signature.
var secpN, _ = new(big.Int).SetString("fffffffffffffffffffffffffffffffebaaedce6af48a03bbfd25e8cd0364141", 16)

// ---------------------------------------------------------------- validators

type val struct {
	key  *ecdsa.PrivateKey
	addr common.Address
}

func newVal(rng *rand.Rand) *val {
	for {
		b := make([]byte, 32)
		rng.Read(b)
		k, err := crypto.ToECDSA(b)
		if err == nil {
			return &val{key: k, addr: crypto.PubkeyToAddress(k.PublicKey)}
		}
	}
}

func sortedAddrs(in []common.Address) []common.Address {
	out := append([]common.Address{}, in...)
	sort.Slice(out, func(i, j int) bool { return bytes.Compare(out[i][:], out[j][:]) < 0 })
	return out
}

func contains(set []common.Address, a common.Address) bool {
	for _, x := range set {
		if x == a {
			return true
		}
	}
	return false
}

func sameList(a, b []common.Address) bool {
	if len(a) != len(b) {
		return false
	}
	for i := range a {
		if a[i] != b[i] {
			return false
		}
	}
	return true
}

// inTurn is the Parlia turn rule: the validator at index number % N of the
// ascending validator list is in turn for block `number`.
func inTurn(set []common.Address, number uint64) common.Address {
	s := sortedAddrs(set)
	return s[number%uint64(len(s))]
}

func turnDifficulty(set []common.Address, number uint64, signer common.Address) uint64 {
	if inTurn(set, number) == signer {
		return 2
	}
	return 1
}

// ------------------------------------------------------------------- hashing

func bloomArr(b []byte) (out [256]byte) {
	if len(b) > 256 {
		b = b[len(b)-256:]
	}
	copy(out[256-len(b):], b)
	return
}

func nonceArr(b []byte) (out [8]byte) {
	if len(b) > 8 {
		b = b[len(b)-8:]
	}
	copy(out[8-len(b):], b)
	return
}

func headerFields(h *bsctypes.Header, extra []byte) []interface{} {
	return []interface{}{
		common.BytesToHash(h.ParentHash),
		common.BytesToHash(h.UncleHash),
		common.BytesToAddress(h.Coinbase),
		common.BytesToHash(h.Root),
		common.BytesToHash(h.TxHash),
		common.BytesToHash(h.ReceiptHash),
		bloomArr(h.Bloom),
		new(big.Int).SetBytes(h.Difficulty),
		new(big.Int).SetUint64(h.Height.RevisionHeight),
		h.GasLimit,
		h.GasUsed,
		h.Time,
		extra,
		common.BytesToHash(h.MixDigest),
		nonceArr(h.Nonce),
	}
}

// blockHash is keccak256(rlp(header)) of the 15-field BSC header.
func blockHash(h *bsctypes.Header) common.Hash {
	bz, err := rlp.EncodeToBytes(headerFields(h, h.Extra))
	if err != nil {
		panic(err)
	}
	return crypto.Keccak256Hash(bz)
}

// parliaSealHash is the hash a Parlia validator signs: the header fields with
// the chain id in front and the extra data without its last 65 bytes.
func parliaSealHash(h *bsctypes.Header, chainID uint64) (common.Hash, bool) {
	if len(h.Extra) < sealLen {
		return common.Hash{}, false
	}
	fields := append([]interface{}{new(big.Int).SetUint64(chainID)}, headerFields(h, h.Extra[:len(h.Extra)-sealLen])...)
	bz, err := rlp.EncodeToBytes(fields)
	if err != nil {
		panic(err)
	}
	return crypto.Keccak256Hash(bz), true
}

// seal signs the header with key and writes the signature into the last 65
// bytes of the extra data.
func seal(h *bsctypes.Header, chainID uint64, key *ecdsa.PrivateKey) {
	sh, ok := parliaSealHash(h, chainID)
	if !ok {
		return
	}
	sig, err := crypto.Sign(sh[:], key)
	if err != nil {
		panic(err)
	}
	copy(h.Extra[len(h.Extra)-sealLen:], sig)
}

// sealer recovers who sealed the header (under the Parlia seal hash).
func sealer(h *bsctypes.Header, chainID uint64) (common.Address, bool) {
	sh, ok := parliaSealHash(h, chainID)
	if !ok {
		return common.Address{}, false
	}
	pub, err := crypto.SigToPub(sh[:], h.Extra[len(h.Extra)-sealLen:])
	if err != nil {
		return common.Address{}, false
	}
	return crypto.PubkeyToAddress(*pub), true
}

func cloneHeader(h *bsctypes.Header) *bsctypes.Header {
	c := *h
	cp := func(b []byte) []byte {
		if b == nil {
			return nil
		}
		return append([]byte{}, b...)
	}
	c.ParentHash, c.UncleHash, c.Coinbase, c.Root, c.TxHash, c.ReceiptHash = cp(h.ParentHash), cp(h.UncleHash), cp(h.Coinbase), cp(h.Root), cp(h.TxHash), cp(h.ReceiptHash)
	c.Bloom, c.Difficulty, c.Extra, c.MixDigest, c.Nonce = cp(h.Bloom), cp(h.Difficulty), cp(h.Extra), cp(h.MixDigest), cp(h.Nonce)
	return &c
}

func parseList(extra []byte) []common.Address {
	body := extra[vanityLen : len(extra)-sealLen]
	out := make([]common.Address, 0, len(body)/addrLen)
	for i := 0; i+addrLen <= len(body); i += addrLen {
		out = append(out, common.BytesToAddress(body[i:i+addrLen]))
	}
	return out
}

// --------------------------------------------------------------------- model

const (
	mustAccept = iota
	mustReject
	either
	knownGap // ineligible by the statement, reported under its own signature (see known_findings.json)
)

func verdictName(v int) string {
	return [...]string{"MUST_ACCEPT", "MUST_REJECT", "EITHER", "MUST_REJECT(known-gap)"}[v]
}

// model is the Parlia-lite reference: what a client that was created at
// `anchor` and has accepted the blocks recorded here must hold and do next.
type model struct {
	chainID uint64
	epoch   uint64
	anchor  uint64

	cur  []common.Address // validator set in force for the next block (list order as carried)
	pend []common.Address // list carried by the last epoch header
	prev []common.Address // set in force before the last switch (only used to build mutants)

	head     *bsctypes.Header
	headHash common.Hash

	signers map[uint64]common.Address // who sealed every block since the anchor (ground truth)
	recents map[uint64]common.Address // Parlia's bounded recent-signer table
	// kept is the recent-signer table of a client that prunes with the window of the set in force AFTER the
	// block (what the statement needs: at a growing switch the entry that the old, smaller window would drop
	// on the switch block is still inside the new window and must be remembered)
	kept map[uint64]common.Address
	roots   map[uint64][]byte         // state root per accepted height
	history []*bsctypes.Header        // last few accepted headers (for replay mutants)

	switches int
}

func (m *model) clone() *model {
	c := *m
	c.cur = append([]common.Address{}, m.cur...)
	c.pend = append([]common.Address{}, m.pend...)
	c.prev = append([]common.Address{}, m.prev...)
	c.signers = make(map[uint64]common.Address, len(m.signers)+1)
	for k, v := range m.signers {
		c.signers[k] = v
	}
	c.recents = make(map[uint64]common.Address, len(m.recents)+1)
	for k, v := range m.recents {
		c.recents[k] = v
	}
	c.roots = make(map[uint64][]byte, len(m.roots)+1)
	for k, v := range m.roots {
		c.roots[k] = v
	}
	c.kept = make(map[uint64]common.Address, len(m.kept)+1)
	for k, v := range m.kept {
		c.kept[k] = v
	}
	c.history = append([]*bsctypes.Header{}, m.history...)
	return &c
}

func (m *model) next() uint64 { return m.head.Height.RevisionHeight + 1 }

// window is floor(N/2): how many most recent blocks a validator must not have sealed.
func (m *model) window() uint64 { return uint64(len(m.cur) / 2) }

// signedRecently answers the property's "has sealed one of the last floor(N/2)
// blocks" (strict) and whether Parlia's own bounded table still remembers it
// (after the set grew, Parlia has forgotten blocks that the larger window
// would cover – those cases are not judged).
// keptRecently: an entry of a (within the window) survives in the table pruned with the post-block window.
func (m *model) keptRecently(a common.Address, number uint64) bool {
	limit := m.window() + 1
	for seen, s := range m.kept {
		if s == a && seen+limit > number {
			return true
		}
	}
	return false
}

func (m *model) signedRecently(a common.Address, number uint64) (strict, parlia bool) {
	w := m.window()
	for k := uint64(1); k <= w && k <= number; k++ {
		h := number - k
		if h < m.anchor {
			break
		}
		if s, ok := m.signers[h]; ok && s == a {
			strict = true
		}
	}
	limit := w + 1
	for seen, s := range m.recents {
		if s == a && seen+limit > number {
			parlia = true
		}
	}
	return
}

// judge decides a candidate header from the property text alone.
func (m *model) judge(h *bsctypes.Header) (int, string) {
	number := h.Height.RevisionHeight
	// direct child of the head
	if number != m.next() {
		return mustReject, "link/number"
	}
	if common.BytesToHash(h.ParentHash) != m.headHash {
		return mustReject, "link/parent-hash"
	}
	// structure
	if len(h.Extra) < vanityLen+sealLen {
		return mustReject, "extra/short"
	}
	listBytes := len(h.Extra) - vanityLen - sealLen
	isEpoch := number%m.epoch == 0
	if !isEpoch && listBytes != 0 {
		return mustReject, "extra/list-on-non-epoch"
	}
	if isEpoch && listBytes%addrLen != 0 {
		return mustReject, "extra/epoch-ragged"
	}
	if common.BytesToHash(h.MixDigest) != (common.Hash{}) {
		return mustReject, "mix-digest"
	}
	if !bytes.Equal(h.UncleHash, emptyUncle[:]) {
		return mustReject, "uncle-hash"
	}
	if h.GasLimit > gasCap {
		return mustReject, "gas/cap"
	}
	if h.GasUsed > h.GasLimit {
		return mustReject, "gas/used>limit"
	}
	pl := m.head.GasLimit
	var d uint64
	if pl > h.GasLimit {
		d = pl - h.GasLimit
	} else {
		d = h.GasLimit - pl
	}
	if d >= pl/gasDivisor {
		return mustReject, "gas/limit-jump"
	}
	if h.GasLimit < minGasLimit {
		return mustReject, "gas/below-min"
	}
	// seal
	signer, ok := sealer(h, m.chainID)
	if !ok {
		return mustReject, "seal/unrecoverable"
	}
	if len(h.Coinbase) != addrLen || signer != common.BytesToAddress(h.Coinbase) {
		return mustReject, "seal/coinbase-mismatch"
	}
	if !contains(m.cur, signer) {
		return mustReject, "signer/not-in-set"
	}
	strict, parlia := m.signedRecently(signer, number)
	kept := m.keptRecently(signer, number)
	if strict && (parlia || kept) {
		return mustReject, "signer/recently-signed"
	}
	diff := new(big.Int).SetBytes(h.Difficulty)
	if !diff.IsUint64() || diff.Uint64() != turnDifficulty(m.cur, number, signer) {
		return mustReject, "difficulty/turn"
	}
	// everything the statement names holds; what is left is not pinned by it
	if strict && !parlia && !kept {
		// sealed one of the last floor(N/2) blocks of the NEW set, but that block had already left the old, smaller
		// window before the switch: by the statement ineligible, yet no bounded table (nor upstream Parlia) remembers it
		return knownGap, "signer/recent-but-pruned-under-smaller-window-before-growing-switch"
	}
	if isEpoch && listBytes == 0 {
		return either, "extra/epoch-empty-list"
	}
	if h.Height.RevisionNumber != 0 {
		return either, "free/revision-number"
	}
	if h.Time <= m.head.Time || h.Time > m.head.Time+3600 {
		return either, "free/time"
	}
	if s := new(big.Int).SetBytes(h.Extra[len(h.Extra)-sealLen+32 : len(h.Extra)-1]); s.Cmp(new(big.Int).Rsh(secpN, 1)) > 0 {
		return either, "seal/high-s"
	}
	if len(h.Difficulty) > 0 && h.Difficulty[0] == 0 {
		return either, "difficulty/non-minimal-encoding"
	}
	return mustAccept, "eligible"
}

// apply advances the model over an accepted header (Parlia's snapshot.apply).
func (m *model) apply(h *bsctypes.Header) {
	number := h.Height.RevisionHeight
	signer := common.BytesToAddress(h.Coinbase)
	limit := uint64(len(m.cur)/2 + 1)
	if number >= limit {
		delete(m.recents, number-limit)
	}
	m.recents[number] = signer
	m.signers[number] = signer
	if m.kept == nil {
		m.kept = map[uint64]common.Address{}
	}
	m.kept[number] = signer
	m.roots[number] = append([]byte{}, h.Root...)
	if number%m.epoch == 0 {
		m.pend = parseList(h.Extra)
	}
	// the set announced by the last epoch header takes over floor(N/2) blocks
	// after it, N being the size of the set that is being replaced
	if number%m.epoch == uint64(len(m.cur)/2) {
		newLimit := uint64(len(m.pend)/2 + 1)
		if newLimit < limit {
			for i := uint64(0); i < limit-newLimit; i++ {
				if number >= newLimit+i {
					delete(m.recents, number-newLimit-i)
				}
			}
		}
		if !sameList(m.cur, m.pend) {
			m.prev = m.cur
			m.switches++
		}
		m.cur = append([]common.Address{}, m.pend...)
	}
	// prune kept with the window of the set in force after this block (shrinking switches drop the surplus at once)
	keepLimit := uint64(len(m.cur)/2 + 1)
	for seen := range m.kept {
		if seen+keepLimit <= number {
			delete(m.kept, seen)
		}
	}
	m.head = h
	m.headHash = blockHash(h)
	m.history = append(m.history, h)
	if len(m.history) > 6 {
		m.history = m.history[len(m.history)-6:]
	}
}
