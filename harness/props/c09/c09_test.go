package c09

import (
	"bytes"
	"encoding/hex"
	"fmt"
	"math/big"
	"math/rand"
	"os"
	"sort"
	"strings"
	"sync"
	"testing"
	"time"

	sdk "github.com/cosmos/cosmos-sdk/types"
	sdkerrors "github.com/cosmos/cosmos-sdk/types/errors"
	"github.com/ethereum/go-ethereum/common"
	"github.com/ethereum/go-ethereum/crypto"

	bsctypes "github.com/teleport-network/teleport/x/xibc/clients/light-clients/bsc/types"
	clienttypes "github.com/teleport-network/teleport/x/xibc/core/client/types"

	"verif/harness/core"
)

// ------------------------------------------------------------------ test body

func TestC09(t *testing.T) {
	r := core.NewRun(t, "C09")
	r.Rule = "generated Parlia chains (own secp256k1 validator keys, N in 1..21, epoch 2..200, chain id, anchor height 0 or k*epoch, " +
		"validator lists growing/shrinking/replaced at every epoch block) driven header by header through ClientKeeper.UpdateClient on a real BSC " +
		"client created with ClientKeeper.CreateClient; at every height one or more honest candidates plus re-sealed and unsealed mutants " +
		"(signer, coinbase, difficulty/turn, link, extra shape, mix digest, uncle hash, gas bounds, epoch-set timing, every header field). " +
		"A case = one candidate header submitted on one client state; distinct = hash of (chain, height, class, header hash); every case reaches " +
		"UpdateClient on an active client, so all are non-trivial."
	r.Assume("epoch length > floor(N/2) for every validator set of a chain whose lists change (otherwise the switch offset is never reached before the next epoch block and the statement does not say what happens); chains with epoch <= floor(N/2) keep one constant list")
	r.Assume("signers of blocks before the client's anchor header are unknown to the client and are not judged")
	r.Assume("header fields have their canonical widths (32/20/256/8 bytes); revision number 0")
	defer r.Finish()

	nChains := r.N(40, 1500)
	workers := r.N(4, 12)
	r.MinNontrivial(r.N(30000, 1200000))
	if r.Replaying() {
		workers = 1
	}

	jobs := make(chan int, nChains)
	for i := 0; i < nChains; i++ {
		jobs <- i
	}
	close(jobs)
	states := map[string]struct{}{}
	var smu sync.Mutex
	var wg sync.WaitGroup
	for w := 0; w < workers; w++ {
		wg.Add(1)
		go func(w int) {
			defer wg.Done()
			var node *core.Node
			clock := time.Date(2022, 1, 2, 0, 0, 5, 0, time.UTC)
			for i := range jobs {
				id := fmt.Sprintf("chain-%d", i)
				if !r.Want(id) {
					continue
				}
				if node == nil {
					node = core.NewNode(core.NodeConfig{ChainID: "teleport_9000-1", XIBCName: "teleport", Accounts: []*core.Account{core.NewAccount("a")}})
					node.Begin(clock)
				}
				c := newChain(r, node, id, i)
				c.run()
				smu.Lock()
				for k := range c.states {
					states[k] = struct{}{}
				}
				smu.Unlock()
				// commit what the chain wrote and go on in a new block
				node.End()
				clock = clock.Add(5 * time.Second)
				node.Begin(clock)
			}
		}(w)
	}
	wg.Wait()
	pins := pinnedChains
	if os.Getenv("VERIF_C09_PIN_SCAN") != "" {
		pins = nil
		for k := 0; k < 60; k++ {
			pins = append(pins, k)
		}
	}
	{
		node := core.NewNode(core.NodeConfig{ChainID: "teleport_9000-1", XIBCName: "teleport", Accounts: []*core.Account{core.NewAccount("a")}})
		node.Begin(time.Date(2022, 1, 2, 0, 0, 5, 0, time.UTC))
		for _, k := range pins {
			id := fmt.Sprintf("pinned-%d", k)
			if !r.Want(id) {
				continue
			}
			before := r.KnownHits()
			c := newChain(r, node, id, 100000+k)
			c.run()
			if os.Getenv("VERIF_C09_PIN_SCAN") != "" {
				fmt.Printf("PINSCAN %d known_hits=%d\n", k, r.KnownHits()-before)
			}
			r.Count("pinned_chains", 1)
		}
		node.End()
	}
	r.Set("distinct_model_states", len(states))
	if !r.Replaying() {
		reachabilityProbe(r)
	}
}

// reachabilityProbe records (evidence only, no verdict) whether a client can be
// anchored at height 0 with a genuine Parlia genesis header (all-zero seal) or
// only with a sealed block 0: the recents underflow needs an anchor below floor(N/2).
func reachabilityProbe(r *core.Run) {
	node := core.NewNode(core.NodeConfig{ChainID: "teleport_9000-1", XIBCName: "teleport", Accounts: []*core.Account{core.NewAccount("a")}})
	node.Begin(time.Date(2022, 1, 2, 0, 0, 5, 0, time.UTC))
	c := newChain(r, node, "probe", 0)
	cur := c.order(c.fresh(nil, 21))
	mk := func(sealed bool) error {
		h := &bsctypes.Header{
			ParentHash: make([]byte, 32), UncleHash: emptyUncle[:], Coinbase: cur[0][:], Root: rnd(c.rng, 32), TxHash: rnd(c.rng, 32), ReceiptHash: rnd(c.rng, 32),
			Bloom: make([]byte, 256), Difficulty: []byte{1}, Height: clienttypes.NewHeight(0, 0), GasLimit: 40000000, Time: 1650000000, Extra: c.extra(cur),
			MixDigest: make([]byte, 32), Nonce: make([]byte, 8),
		}
		if sealed {
			seal(h, 56, c.byAddr[cur[0]].key)
		}
		cs := &bsctypes.ClientState{Header: *h, ChainId: 56, Epoch: 200, BlockInteval: 3, Validators: addrBytes(cur), ContractAddress: rnd(c.rng, 20), TrustingPeriod: 1 << 40}
		if err := cs.Validate(); err != nil {
			return err
		}
		cctx, _ := node.Ctx().CacheContext()
		err, _ := core.Catch(func() error {
			return node.App.XIBCKeeper.ClientKeeper.CreateClient(cctx, "bsc-probe", cs, &bsctypes.ConsensusState{Timestamp: h.Time, Height: h.Height, Root: h.Root})
		})
		return err
	}
	str := func(err error) string {
		if err == nil {
			return "accepted"
		}
		return "rejected: " + err.Error()
	}
	r.Set("create_client_at_height_0_epoch_200_N_21_with_unsealed_genesis_header", str(mk(false)))
	r.Set("create_client_at_height_0_epoch_200_N_21_with_sealed_block_0", str(mk(true)))
}

// ---------------------------------------------------------------------- chain

type cand struct {
	class  string
	h      *bsctypes.Header
	intent int // what the generator meant (-1: no opinion); the verdict always comes from model.judge
}

type chain struct {
	r    *core.Run
	id   string
	idx  int
	rng  *rand.Rand
	node *core.Node
	name string

	chainID    uint64
	epoch      uint64
	maxN       int
	heights    int
	shuffled   bool
	degenerate bool
	q          float64 // probability that an optional mutant is built at a height

	pool      []*val
	byAddr    map[common.Address]*val
	outsiders []*val
	lists     map[uint64][]common.Address // list carried by the honest epoch header of a height

	m      *model
	states map[string]struct{}

	// tp > 0: the client has a short trusting period and, once enough headers are stored, every update is delivered in a
	// block whose time is one second before the head's consensus state expires (a relayer that resumes just in time):
	// all older consensus states are expired then. What the client does with expired states must not disturb the
	// recent-signer window.
	tp      uint64
	anchorN int
}

// pinnedChains: seeds of seed-independent chains that reach the known finding of this property (found with VERIF_C09_PIN_SCAN=1).
var pinnedChains = []int{2, 17}

func newChain(r *core.Run, node *core.Node, id string, idx int) *chain {
	rng := r.Rng(id)
	if strings.HasPrefix(id, "pinned-") {
		// pinned chains do not depend on VERIF_SEED: they re-create, in every run, histories known to reach the listed
		// known finding, so that its KNOWN-FINDING line (or its disappearance after a repair) shows at every seed
		var k int64
		fmt.Sscanf(id, "pinned-%d", &k)
		rng = rand.New(rand.NewSource(7700 + k))
	}
	c := &chain{r: r, id: id, idx: idx, rng: rng, node: node, name: fmt.Sprintf("bsc-%d", idx), byAddr: map[common.Address]*val{}, lists: map[uint64][]common.Address{}, states: map[string]struct{}{}}
	switch p := rng.Intn(20); {
	case p < 9:
		c.epoch = uint64(2 + rng.Intn(11)) // 2..12
	case p < 16:
		c.epoch = uint64(13 + rng.Intn(28)) // 13..40
	case p < 19:
		c.epoch = uint64(41 + rng.Intn(160)) // 41..200
	default:
		c.epoch = 200
	}
	c.maxN = 21
	if int(2*c.epoch-1) < c.maxN {
		c.maxN = int(2*c.epoch - 1) // floor(N/2) < epoch
	}
	c.heights = 60
	if c.epoch > 50 {
		c.heights = int(c.epoch) + 25
	}
	c.q = 1.0
	c.shuffled = rng.Intn(5) == 0
	c.degenerate = c.epoch <= 10 && rng.Intn(6) == 0
	switch rng.Intn(5) {
	case 0:
		c.chainID = 56
	case 1:
		c.chainID = 97
	case 2:
		c.chainID = 1
	case 3:
		c.chainID = uint64(1 + rng.Intn(1<<20))
	default:
		c.chainID = 1 + uint64(rng.Int63n(1<<62))
	}
	for i := 0; i < 46; i++ {
		v := newVal(rng)
		c.pool = append(c.pool, v)
		c.byAddr[v.addr] = v
	}
	for i := 0; i < 3; i++ {
		c.outsiders = append(c.outsiders, newVal(rng))
	}
	return c
}

func (c *chain) order(l []common.Address) []common.Address {
	if c.shuffled {
		out := append([]common.Address{}, l...)
		c.rng.Shuffle(len(out), func(i, j int) { out[i], out[j] = out[j], out[i] })
		return out
	}
	return sortedAddrs(l)
}

// fresh picks k pool members that are not in `not`.
func (c *chain) fresh(not []common.Address, k int) []common.Address {
	var out []common.Address
	for _, i := range c.rng.Perm(len(c.pool)) {
		if len(out) == k {
			break
		}
		if !contains(not, c.pool[i].addr) {
			out = append(out, c.pool[i].addr)
		}
	}
	return out
}

func (c *chain) pickSize() int {
	sizes := []int{1, 2, 3, 4, 5, 7, 11, 20, 21}
	n := sizes[c.rng.Intn(len(sizes))]
	if c.rng.Intn(3) == 0 {
		n = 1 + c.rng.Intn(c.maxN)
	}
	if n > c.maxN {
		n = c.maxN
	}
	return n
}

// nextList is the validator list an honest epoch header announces when `cur` is in force.
func (c *chain) nextList(cur []common.Address) []common.Address {
	if c.degenerate {
		return append([]common.Address{}, cur...)
	}
	n := len(cur)
	l := append([]common.Address{}, cur...)
	c.rng.Shuffle(len(l), func(i, j int) { l[i], l[j] = l[j], l[i] })
	switch p := c.rng.Intn(20); {
	case p < 4: // unchanged
	case p < 10: // grow
		if room := c.maxN - n; room > 0 {
			k := 1
			switch c.rng.Intn(3) {
			case 0:
				k = room
			case 1:
				k = 1 + c.rng.Intn(room)
			}
			l = append(l, c.fresh(cur, k)...)
		}
	case p < 15: // shrink
		if n > 1 {
			k := 1
			switch c.rng.Intn(3) {
			case 0:
				k = n - 1
			case 1:
				k = 1 + c.rng.Intn(n-1)
			}
			l = l[:n-k]
		}
	case p < 18: // replace some members
		k := 1 + c.rng.Intn(n)
		l = append(l[:n-k], c.fresh(cur, k)...)
	case p == 18: // disjoint set of another size
		l = c.fresh(cur, c.pickSize())
	default: // a single validator
		if c.rng.Intn(2) == 0 {
			l = l[:1]
		} else {
			l = c.fresh(cur, 1)
		}
	}
	return c.order(l)
}

func rnd(rng *rand.Rand, n int) []byte {
	b := make([]byte, n)
	rng.Read(b)
	return b
}

func addrBytes(l []common.Address) [][]byte {
	out := make([][]byte, len(l))
	for i, a := range l {
		out[i] = append([]byte{}, a[:]...)
	}
	return out
}

func (c *chain) extra(list []common.Address) []byte {
	e := rnd(c.rng, vanityLen)
	for _, a := range list {
		e = append(e, a[:]...)
	}
	return append(e, make([]byte, sealLen)...)
}

func (c *chain) desc() map[string]interface{} {
	return map[string]interface{}{"chain": c.id, "epoch": c.epoch, "anchor": c.m.anchor, "chain_id": c.chainID, "degenerate": c.degenerate, "shuffled_lists": c.shuffled}
}

// create builds the anchor header and the client.
func (c *chain) create() bool {
	rng := c.rng
	var anchor uint64
	switch rng.Intn(6) {
	case 0:
		anchor = 0
	case 1:
		anchor = c.epoch * uint64(100000+rng.Intn(100000))
	default:
		anchor = c.epoch * uint64(1+rng.Intn(4))
	}
	var cur []common.Address
	if c.degenerate {
		lo := int(2 * c.epoch) // floor(N/2) >= epoch
		cur = c.order(c.fresh(nil, lo+rng.Intn(21-lo+1)))
	} else {
		cur = c.order(c.fresh(nil, c.pickSize()))
	}
	list := c.nextList(cur)
	var gl uint64
	switch rng.Intn(6) {
	case 0:
		gl = minGasLimit + uint64(rng.Intn(40))
	case 1:
		gl = gasCap - uint64(rng.Intn(1<<20))
	case 2:
		gl = uint64(1) << uint(20+rng.Intn(40))
	default:
		gl = 30000000 + uint64(rng.Intn(1<<24))
	}
	signer := c.byAddr[cur[rng.Intn(len(cur))]]
	h := &bsctypes.Header{
		ParentHash: rnd(rng, 32), UncleHash: emptyUncle[:], Coinbase: signer.addr[:], Root: rnd(rng, 32), TxHash: rnd(rng, 32), ReceiptHash: rnd(rng, 32),
		Bloom: rnd(rng, 256), Difficulty: new(big.Int).SetUint64(turnDifficulty(cur, anchor, signer.addr)).Bytes(), Height: clienttypes.NewHeight(0, anchor),
		GasLimit: gl, GasUsed: gl / 2, Time: 1650000000 + uint64(rng.Intn(1<<20)), Extra: c.extra(list), MixDigest: make([]byte, 32), Nonce: make([]byte, 8),
	}
	seal(h, c.chainID, signer.key)
	c.m = &model{
		chainID: c.chainID, epoch: c.epoch, anchor: anchor, cur: cur, pend: list, head: h, headHash: blockHash(h),
		signers: map[uint64]common.Address{anchor: signer.addr}, recents: map[uint64]common.Address{anchor: signer.addr}, kept: map[uint64]common.Address{anchor: signer.addr},
		roots: map[uint64][]byte{anchor: h.Root}, history: []*bsctypes.Header{h},
	}
	cs := &bsctypes.ClientState{Header: *h, ChainId: c.chainID, Epoch: c.epoch, BlockInteval: 3, Validators: addrBytes(cur), ContractAddress: rnd(rng, 20), TrustingPeriod: 1 << 40}
	if rng.Intn(3) == 0 {
		c.tp = 600 + uint64(rng.Intn(5000))
		cs.TrustingPeriod = c.tp
		c.r.Count("chains_with_short_trusting_period", 1)
	}
	cons := &bsctypes.ConsensusState{Timestamp: h.Time, Height: h.Height, Root: h.Root}
	if err := cs.Validate(); err != nil {
		c.r.Inconclusive("%s: anchor client state not accepted by Validate: %v", c.id, err)
		return false
	}
	ctx := c.node.Ctx()
	cctx, write := ctx.CacheContext()
	err, _ := core.Catch(func() error { return c.node.App.XIBCKeeper.ClientKeeper.CreateClient(cctx, c.name, cs, cons) })
	if err != nil {
		c.r.Inconclusive("%s: CreateClient failed: %v", c.id, err)
		return false
	}
	write()
	if key, det := c.compare(c.node.Ctx(), c.m, h); key != "" {
		c.r.Violation(c.id, "create/"+key, c.detail("create", h, mustAccept, "anchor", nil, det))
	}
	c.r.Count("chains", 1)
	if anchor == 0 {
		c.r.Count("chains_anchor_height_0", 1)
	}
	if c.degenerate {
		c.r.Count("chains_epoch_le_halfN", 1)
	}
	return true
}

// ------------------------------------------------------------ candidate menu

func (c *chain) listFor(number uint64) []common.Address {
	if l, ok := c.lists[number]; ok {
		return l
	}
	l := c.nextList(c.m.cur)
	c.lists[number] = l
	return l
}

func (c *chain) gasWalk(pl uint64, boundary bool) uint64 {
	lim := pl / gasDivisor
	if lim == 0 {
		return pl
	}
	var d uint64
	switch k := c.rng.Intn(4); {
	case boundary || k == 0:
		d = lim - 1
	case k == 1:
		d = 0
	default:
		d = uint64(c.rng.Int63n(int64(lim)))
	}
	up := c.rng.Intn(2) == 0
	if up && (pl+d > gasCap || pl+d < pl) {
		up = false
	}
	if !up && (pl < d || pl-d < minGasLimit) {
		if pl+d <= gasCap && pl+d >= pl {
			up = true
		} else {
			d = 0
		}
	}
	if up {
		return pl + d
	}
	return pl - d
}

// base is an honest-looking child of the head for `number` (which is head+1
// for everything but the link mutants), not yet attributed nor sealed.
func (c *chain) base(number uint64, honestList bool) *bsctypes.Header {
	m := c.m
	var list []common.Address
	if number%m.epoch == 0 {
		if honestList {
			list = c.listFor(number)
		} else {
			list = m.cur
		}
	}
	gl := c.gasWalk(m.head.GasLimit, false)
	gu := uint64(0)
	switch c.rng.Intn(4) {
	case 0:
		gu = gl
	case 1:
		gu = 0
	default:
		gu = uint64(c.rng.Int63n(int64(gl>>1) + 1))
	}
	nonce := make([]byte, 8)
	bloom := make([]byte, 256)
	if c.rng.Intn(2) == 0 {
		bloom = rnd(c.rng, 256)
	}
	if c.rng.Intn(8) == 0 {
		nonce = rnd(c.rng, 8)
	}
	return &bsctypes.Header{
		ParentHash: append([]byte{}, m.headHash[:]...), UncleHash: append([]byte{}, emptyUncle[:]...), Root: rnd(c.rng, 32), TxHash: rnd(c.rng, 32), ReceiptHash: rnd(c.rng, 32),
		Bloom: bloom, Height: clienttypes.NewHeight(0, number), GasLimit: gl, GasUsed: gu, Time: m.head.Time + 3, Extra: c.extra(list),
		MixDigest: make([]byte, 32), Nonce: nonce,
	}
}

func diffBytes(d uint64) []byte { return new(big.Int).SetUint64(d).Bytes() }

// by attributes the header to v (coinbase and turn difficulty under the set in force).
func (c *chain) by(h *bsctypes.Header, v *val) *bsctypes.Header {
	h.Coinbase = append([]byte{}, v.addr[:]...)
	h.Difficulty = diffBytes(turnDifficulty(c.m.cur, h.Height.RevisionHeight, v.addr))
	return h
}

func (c *chain) sealBy(h *bsctypes.Header, v *val) *bsctypes.Header {
	seal(h, c.chainID, v.key)
	return h
}

// eligible lists the validators that the property allows to seal block number.
func (c *chain) eligible(number uint64) []*val {
	var out []*val
	for _, a := range sortedAddrs(c.m.cur) {
		if strict, _ := c.m.signedRecently(a, number); !strict {
			out = append(out, c.byAddr[a])
		}
	}
	return out
}

func (c *chain) opt(p float64) bool { return c.rng.Float64() < p*c.q }

func (c *chain) candidates(full bool) (cands []cand, honestIdx []int) {
	m, rng := c.m, c.rng
	n := m.next()
	el := c.eligible(n)
	if len(el) == 0 {
		return nil, nil
	}
	// primary honest signer: mostly the in-turn validator when it is free
	primary := el[rng.Intn(len(el))]
	it := inTurn(m.cur, n)
	if rng.Intn(10) < 6 {
		for _, v := range el {
			if v.addr == it {
				primary = v
			}
		}
	}
	add := func(class string, intent int, h *bsctypes.Header) {
		cands = append(cands, cand{class: class, h: h, intent: intent})
		if intent == mustAccept {
			honestIdx = append(honestIdx, len(cands)-1)
		}
	}
	// re-sealed mutant of an honest child: f edits the attributed header, then `who` seals it
	mut := func(class string, intent int, who *val, f func(h *bsctypes.Header)) {
		h := c.by(c.base(n, true), primary)
		f(h)
		if who != nil {
			c.sealBy(h, who)
		}
		add(class, intent, h)
	}
	p := 1.0
	if !full {
		p = 0.08
	}

	honest := c.sealBy(c.by(c.base(n, true), primary), primary)
	add("honest", mustAccept, honest)
	if len(el) > 1 && c.opt(p) {
		alt := el[rng.Intn(len(el))]
		for alt == primary {
			alt = el[rng.Intn(len(el))]
		}
		add("honest/other-eligible-signer", mustAccept, c.sealBy(c.by(c.base(n, true), alt), alt))
	}
	if c.opt(p * 0.6) {
		mut("honest/gas-limit-just-inside-bound", mustAccept, primary, func(h *bsctypes.Header) {
			h.GasLimit = c.gasWalk(m.head.GasLimit, true)
			h.GasUsed = h.GasLimit
		})
	}

	// ---- who sealed
	if c.opt(p) {
		o := c.outsiders[rng.Intn(len(c.outsiders))]
		h := c.by(c.base(n, true), o)
		if rng.Intn(2) == 0 {
			h.Difficulty = diffBytes(2)
		}
		add("signer/outsider", mustReject, c.sealBy(h, o))
	}
	if c.opt(p * 1.5) {
		// a member of the set that sealed one of the last floor(N/2) blocks
		var rec []*val
		for _, a := range sortedAddrs(m.cur) {
			if strict, _ := m.signedRecently(a, n); strict {
				rec = append(rec, c.byAddr[a])
			}
		}
		if len(rec) > 0 {
			v := rec[rng.Intn(len(rec))]
			if rng.Intn(3) == 0 {
				// the most recent one: sealing two blocks in a row
				if pv, ok := c.byAddr[m.signers[n-1]]; ok && contains(m.cur, pv.addr) {
					v = pv
				}
			}
			add("signer/recently-signed", -1, c.sealBy(c.by(c.base(n, true), v), v))
		}
	}
	if c.opt(p * 1.5) {
		mut("difficulty/turn-swapped", mustReject, primary, func(h *bsctypes.Header) {
			h.Difficulty = diffBytes(3 - turnDifficulty(m.cur, n, primary.addr))
		})
	}
	if c.opt(p) {
		ds := [][]byte{{}, {0}, {3}, {255}, {1, 0, 0, 0, 0, 0, 0, 0, 2}, {1, 0}, {2, 0}}
		d := ds[rng.Intn(len(ds))]
		mut("difficulty/other-value", mustReject, primary, func(h *bsctypes.Header) { h.Difficulty = d })
	}
	if c.opt(p) && len(m.cur) > 1 {
		// sealed by the honest signer, but naming another validator (with that one's turn difficulty)
		other := c.byAddr[m.cur[rng.Intn(len(m.cur))]]
		for other == primary {
			other = c.byAddr[m.cur[rng.Intn(len(m.cur))]]
		}
		h := c.by(c.base(n, true), other)
		add("coinbase/other-validator-named", mustReject, c.sealBy(h, primary))
	}
	if c.opt(p) {
		// sealed by an outsider, naming the honest validator
		o := c.outsiders[rng.Intn(len(c.outsiders))]
		add("coinbase/outsider-seals-for-validator", mustReject, c.sealBy(c.by(c.base(n, true), primary), o))
	}
	if c.opt(p) {
		// sealed by an eligible validator, coinbase an outsider
		o := c.outsiders[rng.Intn(len(c.outsiders))]
		mut("coinbase/outsider-named", mustReject, primary, func(h *bsctypes.Header) { h.Coinbase = append([]byte{}, o.addr[:]...) })
	}
	// ---- epoch timing: validators of the announced set before the switch, of the replaced set after it
	if c.opt(p * 2) {
		var only []*val
		for _, a := range m.pend {
			if !contains(m.cur, a) {
				only = append(only, c.byAddr[a])
			}
		}
		if len(only) > 0 {
			v := only[rng.Intn(len(only))]
			h := c.by(c.base(n, true), v)
			h.Difficulty = diffBytes(turnDifficulty(m.pend, n, v.addr))
			add("epoch/announced-set-signer-before-switch", mustReject, c.sealBy(h, v))
		}
	}
	if c.opt(p * 2) {
		var only []*val
		for _, a := range m.prev {
			if !contains(m.cur, a) {
				only = append(only, c.byAddr[a])
			}
		}
		if len(only) > 0 {
			v := only[rng.Intn(len(only))]
			h := c.by(c.base(n, true), v)
			h.Difficulty = diffBytes(turnDifficulty(m.prev, n, v.addr))
			add("epoch/replaced-set-signer-after-switch", mustReject, c.sealBy(h, v))
		}
	}
	if c.opt(p * 2) {
		// eligible signer whose turn differs between the set in force and the other set; sealed with the other set's difficulty
		other := m.pend
		if sameList(sortedAddrs(other), sortedAddrs(m.cur)) {
			other = m.prev
		}
		if len(other) > 0 {
			for _, i := range rng.Perm(len(el)) {
				v := el[i]
				if contains(other, v.addr) && turnDifficulty(other, n, v.addr) != turnDifficulty(m.cur, n, v.addr) {
					h := c.by(c.base(n, true), v)
					h.Difficulty = diffBytes(turnDifficulty(other, n, v.addr))
					add("epoch/turn-of-other-set", mustReject, c.sealBy(h, v))
					break
				}
			}
		}
	}
	// ---- the seal itself
	if c.opt(p) {
		switch rng.Intn(6) {
		case 0:
			mut("seal/zero", mustReject, nil, func(h *bsctypes.Header) {})
		case 1:
			mut("seal/random", mustReject, nil, func(h *bsctypes.Header) { copy(h.Extra[len(h.Extra)-sealLen:], rnd(rng, sealLen)) })
		case 2:
			h := cloneHeader(honest)
			h.Extra[len(h.Extra)-1] += 27
			add("seal/v-27", mustReject, h)
		case 3:
			h := c.by(c.base(n, true), primary)
			seal(h, c.chainID+1, primary.key)
			add("seal/other-chain-id", mustReject, h)
		case 4:
			h := c.by(c.base(n, true), primary)
			bh := blockHash(h)
			sig, _ := crypto.Sign(bh[:], primary.key)
			copy(h.Extra[len(h.Extra)-sealLen:], sig)
			add("seal/signed-block-hash-instead", mustReject, h)
		default:
			h := cloneHeader(honest)
			sig := h.Extra[len(h.Extra)-sealLen:]
			s := new(big.Int).Sub(secpN, new(big.Int).SetBytes(sig[32:64]))
			copy(sig[32:64], common.LeftPadBytes(s.Bytes(), 32))
			sig[64] ^= 1
			add("seal/high-s-twin", -1, h)
		}
	}

	// ---- link to the head
	link := func(class string, number uint64, parent []byte) {
		h := c.base(number, false)
		h.ParentHash = parent
		var v *val
		// a signer that would be fine for that number under the set in force
		for _, i := range rng.Perm(len(m.cur)) {
			v = c.byAddr[m.cur[i]]
			if strict, _ := m.signedRecently(v.addr, number); !strict {
				break
			}
		}
		add(class, mustReject, c.sealBy(c.by(h, v), v))
	}
	hn := m.head.Height.RevisionHeight
	if c.opt(p * 2) {
		switch rng.Intn(7) {
		case 0:
			link("link/number+2", n+1, m.headHash[:])
		case 1:
			link("link/number-of-head", hn, m.headHash[:])
		case 2:
			link("link/sibling-of-head", hn, m.head.ParentHash)
		case 3:
			link("link/number+epoch", n+m.epoch, m.headHash[:])
		case 4:
			link("link/number-0", 0, m.headHash[:])
		case 5:
			if hn > 0 {
				link("link/number-1", hn-1, m.headHash[:])
			}
		default:
			link("link/number-huge", n+uint64(1)<<40, m.headHash[:])
		}
	}
	if c.opt(p * 2) {
		switch rng.Intn(6) {
		case 0:
			link("link/parent-random", n, rnd(rng, 32))
		case 1:
			ph := append([]byte{}, m.headHash[:]...)
			ph[rng.Intn(32)] ^= 1 << uint(rng.Intn(8))
			link("link/parent-bit-flip", n, ph)
		case 2:
			link("link/parent-is-grandparent", n, append([]byte{}, m.head.ParentHash...))
		case 3:
			sh, _ := parliaSealHash(m.head, c.chainID)
			link("link/parent-is-seal-hash-of-head", n, sh[:])
		case 4:
			link("link/parent-zero", n, make([]byte, 32))
		default:
			link("link/parent-empty", n, nil)
		}
	}
	if c.opt(p) {
		// a correct block n+1 on top of the honest candidate, submitted before it
		m2 := m.clone()
		m2.apply(honest)
		save := c.m
		c.m = m2
		if el2 := c.eligible(n + 1); len(el2) > 0 {
			v := el2[rng.Intn(len(el2))]
			add("link/grandchild-before-child", mustReject, c.sealBy(c.by(c.base(n+1, false), v), v))
		}
		c.m = save
	}
	if c.opt(p) {
		add("link/replay-accepted-header", mustReject, m.history[rng.Intn(len(m.history))])
	}

	// ---- structure (all re-sealed by the honest signer)
	if c.opt(p) {
		ls := []int{0, 31, 32, 64, 65, 96}
		l := ls[rng.Intn(len(ls))]
		mut(fmt.Sprintf("extra/length-%d", l), mustReject, primary, func(h *bsctypes.Header) { h.Extra = rnd(rng, l) })
	}
	if n%m.epoch != 0 {
		if c.opt(p * 1.5) {
			if rng.Intn(2) == 0 {
				mut("extra/validator-list-on-non-epoch-block", mustReject, primary, func(h *bsctypes.Header) {
					l := m.cur
					if rng.Intn(2) == 0 {
						l = c.fresh(nil, 1+rng.Intn(3))
					}
					h.Extra = c.extra(l)
				})
			} else {
				mut("extra/stray-bytes-on-non-epoch-block", mustReject, primary, func(h *bsctypes.Header) {
					h.Extra = append(append(rnd(rng, vanityLen), rnd(rng, 1+rng.Intn(40))...), make([]byte, sealLen)...)
				})
			}
		}
	} else {
		if c.opt(p * 3) {
			mut("extra/epoch-list-ragged", mustReject, primary, func(h *bsctypes.Header) {
				e := h.Extra[:len(h.Extra)-sealLen]
				if rng.Intn(2) == 0 && len(e) > vanityLen+1 {
					e = e[:len(e)-1-rng.Intn(19)]
				} else {
					e = append(append([]byte{}, e...), rnd(rng, 1+rng.Intn(19))...)
				}
				h.Extra = append(append([]byte{}, e...), make([]byte, sealLen)...)
			})
		}
		if c.opt(p * 2) {
			mut("extra/epoch-without-list", either, primary, func(h *bsctypes.Header) { h.Extra = c.extra(nil) })
		}
	}
	if c.opt(p) {
		mut("mix-digest/non-zero", mustReject, primary, func(h *bsctypes.Header) {
			if rng.Intn(2) == 0 {
				h.MixDigest = rnd(rng, 32)
			} else {
				h.MixDigest = make([]byte, 32)
				h.MixDigest[rng.Intn(32)] = 1 << uint(rng.Intn(8))
			}
		})
	}
	if c.opt(p) {
		mut("uncle-hash/not-empty-list-hash", mustReject, primary, func(h *bsctypes.Header) {
			switch rng.Intn(4) {
			case 0:
				h.UncleHash = rnd(rng, 32)
			case 1:
				h.UncleHash = make([]byte, 32)
			case 2:
				h.UncleHash = nil
			default:
				h.UncleHash[rng.Intn(32)] ^= 1 << uint(rng.Intn(8))
			}
		})
	}
	if c.opt(p * 2) {
		pl := m.head.GasLimit
		lim := pl / gasDivisor
		type g struct {
			class    string
			gl, used uint64
			ok       bool
		}
		var gs []g
		if pl+lim > pl && pl+lim <= gasCap {
			gs = append(gs, g{"gas/limit-up-by-exactly-the-bound", pl + lim, 0, true})
		}
		if pl >= lim && pl-lim >= minGasLimit {
			gs = append(gs, g{"gas/limit-down-by-exactly-the-bound", pl - lim, 0, true})
		}
		if pl <= gasCap/2 {
			gs = append(gs, g{"gas/limit-doubled", pl * 2, 0, true})
		}
		gs = append(gs, g{"gas/limit-halved", pl / 2, 0, true})
		gs = append(gs, g{"gas/limit-below-minimum", minGasLimit - 1 - uint64(rng.Intn(10)), 0, true})
		if pl > gasCap-lim {
			gs = append(gs, g{"gas/limit-above-2^63-1", gasCap + 1 + uint64(rng.Intn(1000)), 0, true})
		}
		x := gs[rng.Intn(len(gs))]
		mut(x.class, mustReject, primary, func(h *bsctypes.Header) { h.GasLimit = x.gl; h.GasUsed = x.used })
	}
	if c.opt(p) {
		mut("gas/used-above-limit", mustReject, primary, func(h *bsctypes.Header) { h.GasUsed = h.GasLimit + 1 + uint64(rng.Intn(3)) })
	}

	// ---- one field changed after sealing (the seal no longer covers the header)
	unsealed := []struct {
		name string
		f    func(h *bsctypes.Header)
	}{
		{"parent-hash", func(h *bsctypes.Header) { h.ParentHash[rng.Intn(32)] ^= 1 << uint(rng.Intn(8)) }},
		{"uncle-hash", func(h *bsctypes.Header) { h.UncleHash[rng.Intn(32)] ^= 1 << uint(rng.Intn(8)) }},
		{"coinbase", func(h *bsctypes.Header) {
			o := m.cur[rng.Intn(len(m.cur))]
			if o == common.BytesToAddress(h.Coinbase) {
				h.Coinbase[rng.Intn(20)] ^= 1 << uint(rng.Intn(8))
			} else {
				h.Coinbase = append([]byte{}, o[:]...)
			}
		}},
		{"state-root", func(h *bsctypes.Header) {
			if rng.Intn(2) == 0 {
				h.Root = rnd(rng, 32)
			} else {
				h.Root[rng.Intn(32)] ^= 1 << uint(rng.Intn(8))
			}
		}},
		{"tx-hash", func(h *bsctypes.Header) { h.TxHash[rng.Intn(32)] ^= 1 << uint(rng.Intn(8)) }},
		{"receipt-hash", func(h *bsctypes.Header) { h.ReceiptHash[rng.Intn(32)] ^= 1 << uint(rng.Intn(8)) }},
		{"bloom", func(h *bsctypes.Header) { h.Bloom[rng.Intn(256)] ^= 1 << uint(rng.Intn(8)) }},
		{"difficulty", func(h *bsctypes.Header) { h.Difficulty = diffBytes(3 - new(big.Int).SetBytes(h.Difficulty).Uint64()) }},
		{"number", func(h *bsctypes.Header) { h.Height.RevisionHeight++ }},
		{"gas-limit", func(h *bsctypes.Header) {
			if h.GasLimit > m.head.GasLimit || h.GasLimit == h.GasUsed {
				h.GasLimit--
				if h.GasUsed > h.GasLimit {
					h.GasUsed = h.GasLimit
				}
			} else {
				h.GasLimit++
			}
		}},
		{"gas-used", func(h *bsctypes.Header) {
			if h.GasUsed > 0 {
				h.GasUsed--
			} else {
				h.GasUsed++
			}
		}},
		{"time", func(h *bsctypes.Header) { h.Time++ }},
		{"extra-vanity", func(h *bsctypes.Header) { h.Extra[rng.Intn(vanityLen)] ^= 1 << uint(rng.Intn(8)) }},
		{"extra-seal-rs", func(h *bsctypes.Header) { h.Extra[len(h.Extra)-sealLen+rng.Intn(64)] ^= 1 << uint(rng.Intn(8)) }},
		{"nonce", func(h *bsctypes.Header) { h.Nonce[rng.Intn(8)] ^= 1 << uint(rng.Intn(8)) }},
		{"epoch-list", func(h *bsctypes.Header) {
			if len(h.Extra) > vanityLen+sealLen {
				h.Extra[vanityLen+rng.Intn(len(h.Extra)-vanityLen-sealLen)] ^= 1 << uint(rng.Intn(8))
			} else {
				h.Extra[rng.Intn(vanityLen)] ^= 0x80
			}
		}},
	}
	for _, i := range rng.Perm(len(unsealed)) {
		if !c.opt(p * 0.25) {
			continue
		}
		h := cloneHeader(honest)
		unsealed[i].f(h)
		add("unsealed/"+unsealed[i].name, mustReject, h)
	}
	if c.opt(p * 0.5) {
		// the security-relevant one: another state root under an honest seal
		h := cloneHeader(honest)
		h.Root = rnd(rng, 32)
		add("unsealed/state-root", mustReject, h)
	}

	// ---- fields the statement does not constrain (re-sealed): never judged, only counted
	if c.opt(p * 0.5) {
		switch rng.Intn(4) {
		case 0:
			mut("free/time-before-parent", either, primary, func(h *bsctypes.Header) { h.Time = m.head.Time - uint64(rng.Intn(5)) })
		case 1:
			mut("free/time-zero", either, primary, func(h *bsctypes.Header) { h.Time = 0 })
		case 2:
			mut("free/time-far-future", either, primary, func(h *bsctypes.Header) { h.Time = m.head.Time + 1<<33 })
		default:
			mut("free/revision-number", either, primary, func(h *bsctypes.Header) { h.Height.RevisionNumber = uint64(1 + rng.Intn(3)) })
		}
	}
	return cands, honestIdx
}

// ---------------------------------------------------------------- evaluation

func hdrJSON(h *bsctypes.Header) map[string]interface{} {
	return map[string]interface{}{
		"number": h.Height.RevisionHeight, "revision": h.Height.RevisionNumber, "parent": hex.EncodeToString(h.ParentHash), "coinbase": hex.EncodeToString(h.Coinbase),
		"difficulty": hex.EncodeToString(h.Difficulty), "root": hex.EncodeToString(h.Root), "gas_limit": h.GasLimit, "gas_used": h.GasUsed, "time": h.Time,
		"extra": hex.EncodeToString(h.Extra), "mix": hex.EncodeToString(h.MixDigest), "uncle": hex.EncodeToString(h.UncleHash), "nonce": hex.EncodeToString(h.Nonce),
		"tx_hash": hex.EncodeToString(h.TxHash), "receipt_hash": hex.EncodeToString(h.ReceiptHash), "hash": blockHash(h).Hex(),
	}
}

func addrList(l []common.Address) []string {
	out := make([]string, len(l))
	for i, a := range l {
		out[i] = a.Hex()
	}
	return out
}

func (c *chain) detail(class string, h *bsctypes.Header, verdict int, reason string, err error, extra map[string]interface{}) map[string]interface{} {
	m := c.m
	d := map[string]interface{}{
		"config": c.desc(), "class": class, "expected": verdictName(verdict), "model_reason": reason, "header": hdrJSON(h),
		"head": m.head.Height.RevisionHeight, "validators_in_force": addrList(m.cur), "announced_list": addrList(m.pend), "in_turn": inTurn(m.cur, m.next()).Hex(),
	}
	rec := map[string]string{}
	for k := uint64(0); k <= m.window()+1 && k <= m.head.Height.RevisionHeight; k++ {
		hh := m.head.Height.RevisionHeight - k
		if s, ok := m.signers[hh]; ok {
			rec[fmt.Sprint(hh)] = s.Hex()
		}
	}
	d["sealers_of_recent_blocks"] = rec
	if err != nil {
		d["error"] = err.Error()
	} else {
		d["error"] = nil
	}
	for k, v := range extra {
		d[k] = v
	}
	return d
}

func group(class string) string {
	for i := 0; i < len(class); i++ {
		if class[i] == '/' {
			return class[:i]
		}
	}
	return class
}

// try submits one candidate on a branch of the current state and judges the outcome.
func (c *chain) try(cd cand) (ok bool, m2 *model, write func()) {
	r, m, h := c.r, c.m, cd.h
	verdict, reason := m.judge(h)
	if cd.intent >= 0 && cd.intent != verdict {
		r.Count("harness_intent_mismatch", 1)
		r.Inconclusive("%s height %d class %s: generator meant %s, model says %s (%s)", c.id, m.next(), cd.class, verdictName(cd.intent), verdictName(verdict), reason)
	}
	ctx := c.node.Ctx()
	cctx, write := ctx.CacheContext()
	cctx = cctx.WithEventManager(sdk.NewEventManager())
	if c.tp > 0 && m.head.Height.RevisionHeight-m.anchor > 2*m.window()+8 {
		// the oldest stored consensus state is far outside the window by now
		cctx = cctx.WithBlockTime(time.Unix(int64(m.head.Time+c.tp-1), 0))
		r.Count("updates_delivered_one_second_before_the_head_state_expires", 1)
	}
	err, panicked := core.Catch(func() error { return c.node.App.XIBCKeeper.ClientKeeper.UpdateClient(cctx, c.name, h) })
	accepted := err == nil
	bh := blockHash(h)
	r.Eval(fmt.Sprintf("%s/%d/%s/%x", c.id, m.next(), cd.class, bh[:12]), true)
	out := "rejected"
	if accepted {
		out = "accepted"
	}
	r.Count(fmt.Sprintf("%s/%s/%s", verdictName(verdict), group(cd.class), out), 1)
	if panicked {
		r.Count("panics", 1)
	}
	if !accepted {
		_, code, _ := sdkerrors.ABCIInfo(err, false)
		r.Count(fmt.Sprintf("reject_code[%s]=%d", reason, code), 1)
	}
	switch {
	case verdict == mustReject && accepted:
		key := "accepted-ineligible/" + reason
		if reason == "signer/recently-signed" && m.next() < m.window()+1 {
			// the window test of the client computes number-limit in uint64
			key = "recents/underflow/number<limit"
			switch {
			case m.anchor == 0:
				r.Count("underflow_accepts/anchor_height_0", 1)
			case c.degenerate:
				r.Count("underflow_accepts/epoch_le_halfN_nonzero_anchor", 1)
			default:
				r.Count("underflow_accepts/other", 1)
			}
		}
		r.Violation(c.id, key, c.detail(cd.class, h, verdict, reason, err, nil))
		return false, nil, nil
	case verdict == knownGap && accepted:
		r.Violation(c.id, "accepted-ineligible/"+reason, c.detail(cd.class, h, verdict, reason, err, nil))
		return false, nil, nil
	case verdict == mustAccept && !accepted:
		r.Violation(c.id, "rejected-eligible/"+group(cd.class), c.detail(cd.class, h, verdict, reason, err, nil))
		return false, nil, nil
	}
	if verdict != mustAccept {
		return false, nil, nil
	}
	// accepted and pinned: the client's state must be the model's
	m2 = m.clone()
	m2.apply(h)
	if key, det := c.compare(cctx, m2, h); key != "" {
		r.Violation(c.id, key, c.detail(cd.class, h, verdict, reason, nil, det))
		return false, nil, nil
	}
	return true, m2, write
}

// compare checks the observable client state against the model after `h` became the head.
func (c *chain) compare(ctx sdk.Context, m *model, h *bsctypes.Header) (string, map[string]interface{}) {
	k := c.node.App.XIBCKeeper.ClientKeeper
	csI, found := k.GetClientState(ctx, c.name)
	if !found {
		return "state/client-missing", nil
	}
	cs, ok := csI.(*bsctypes.ClientState)
	if !ok {
		return "state/client-type", nil
	}
	n := h.Height.RevisionHeight
	// head
	a, _ := cs.Header.Marshal()
	b, _ := h.Marshal()
	if !bytes.Equal(a, b) {
		return "state/head-is-not-the-accepted-header", map[string]interface{}{"observed_head": hdrJSON(&cs.Header)}
	}
	if cs.Epoch != m.epoch || cs.ChainId != m.chainID {
		return "state/epoch-or-chain-id-changed", map[string]interface{}{"epoch": cs.Epoch, "chain_id": cs.ChainId}
	}
	// validator set
	obs := make([]common.Address, len(cs.Validators))
	for i, v := range cs.Validators {
		obs[i] = common.BytesToAddress(v)
	}
	if !sameList(obs, m.cur) {
		key := "state/validators/other-list"
		off := n % m.epoch
		switch {
		case sameList(obs, c.m.cur) && !sameList(c.m.cur, m.cur):
			key = "state/validators/not-switched-at-offset"
		case sameList(obs, c.m.pend) || sameList(obs, m.pend):
			key = "state/validators/switched-off-schedule"
		}
		return key, map[string]interface{}{"observed_validators": addrList(obs), "model_validators": addrList(m.cur), "offset_after_epoch_block": off, "old_set_size": len(c.m.cur)}
	}
	// recent signers
	rs, err := bsctypes.GetRecentSigners(k.ClientStore(ctx, c.name))
	if err != nil {
		return "state/recents/unreadable", map[string]interface{}{"error": err.Error()}
	}
	seen := map[uint64]common.Address{}
	stale := 0
	for _, s := range rs {
		hh := s.Height.RevisionHeight
		ad := common.BytesToAddress(s.Validator)
		seen[hh] = ad
		if truth, ok := m.signers[hh]; !ok || truth != ad {
			return "state/recents/wrong-sealer-recorded", map[string]interface{}{"height": hh, "observed": ad.Hex(), "truth": truth.Hex()}
		}
		if _, ok := m.recents[hh]; !ok {
			stale++
		}
	}
	for hh, ad := range m.recents {
		if hh+m.window() <= n {
			// the oldest entry of Parlia's table (block n - floor(N/2)) is not one of "the last floor(N/2) blocks" for
			// the next header any more: whether the client still stores it decides nothing (it drops it early when it prunes
			// an expired consensus state of that height)
			continue
		}
		if seen[hh] != ad {
			return "state/recents/sealer-missing", map[string]interface{}{"height": hh, "truth": ad.Hex(), "observed_heights": keysOf(seen)}
		}
	}
	if stale > 0 {
		c.r.Count("stale_recent_signer_entries_outside_window", stale)
	}
	// consensus state of the height
	cons, found := k.GetClientConsensusState(ctx, c.name, clienttypes.NewHeight(0, n))
	if !found {
		return "state/consensus-state-missing", map[string]interface{}{"height": n}
	}
	if !bytes.Equal(cons.GetRoot(), h.Root) {
		return "state/consensus-root-differs", map[string]interface{}{"height": n, "observed_root": hex.EncodeToString(cons.GetRoot())}
	}
	if cons.GetTimestamp() != h.Time {
		c.r.Count("consensus_timestamp_differs_from_header_time", 1)
	}
	return "", nil
}

func keysOf(m map[uint64]common.Address) []uint64 {
	out := make([]uint64, 0, len(m))
	for k := range m {
		out = append(out, k)
	}
	sort.Slice(out, func(i, j int) bool { return out[i] < out[j] })
	return out
}

// fullMenu: chains with long epochs get the whole menu only around the epoch block and the switch.
func (c *chain) fullMenu(n uint64) bool {
	if c.epoch <= 50 {
		return true
	}
	off := n % c.epoch
	return off <= 13 || off >= c.epoch-3
}

func (c *chain) run() {
	if !c.create() {
		return
	}
	r := c.r
	for step := 0; step < c.heights; step++ {
		m := c.m
		n := m.next()
		cands, honestIdx := c.candidates(c.fullMenu(n))
		if len(cands) == 0 {
			r.Inconclusive("%s: no eligible validator at height %d (harness)", c.id, n)
			return
		}
		want := honestIdx[0]
		if len(honestIdx) > 1 && c.rng.Intn(10) < 4 {
			want = honestIdx[c.rng.Intn(len(honestIdx))]
		}
		type okc struct {
			m2    *model
			write func()
		}
		good := map[int]okc{}
		for i, cd := range cands {
			ok, m2, write := c.try(cd)
			if ok {
				good[i] = okc{m2, write}
			}
		}
		pick, ok := good[want]
		if !ok {
			for _, i := range honestIdx {
				if g, ok2 := good[i]; ok2 {
					pick, ok = g, true
					break
				}
			}
		}
		if !ok {
			r.Count("chains_stuck", 1)
			return
		}
		before := m
		pick.write()
		c.m = pick.m2
		r.Count("heights_accepted", 1)
		if n%c.epoch == 0 {
			r.Count("epoch_blocks_accepted", 1)
		}
		if c.m.switches != before.switches {
			switch {
			case len(c.m.cur) > len(before.cur):
				r.Count("set_switches/grow", 1)
			case len(c.m.cur) < len(before.cur):
				r.Count("set_switches/shrink", 1)
			default:
				r.Count("set_switches/same-size", 1)
			}
		}
		inwin := 0
		for _, a := range c.m.cur {
			if s, _ := c.m.signedRecently(a, n+1); s {
				inwin++
			}
		}
		c.states[fmt.Sprintf("N=%d/pend=%d/off=%d/busy=%d", len(c.m.cur), len(c.m.pend), n%c.epoch, inwin)] = struct{}{}
		if c.idx < 3 && step == 7 {
			r.Sample(map[string]interface{}{"config": c.desc(), "height": n, "validators": len(c.m.cur), "announced": len(c.m.pend), "candidates_at_this_height": len(cands), "accepted_header": hdrJSON(c.m.head)})
		}
	}
	// every accepted header's state root is still the consensus state of its height
	ctx := c.node.Ctx()
	k := c.node.App.XIBCKeeper.ClientKeeper
	for hh, root := range c.m.roots {
		cons, found := k.GetClientConsensusState(ctx, c.name, clienttypes.NewHeight(0, hh))
		if !found && c.tp > 0 && hh != c.m.head.Height.RevisionHeight {
			// updates of this chain were delivered when every state but the head's had expired: the client may prune those
			r.Count("expired_consensus_states_pruned_by_the_client", 1)
			continue
		}
		if !found || !bytes.Equal(cons.GetRoot(), root) {
			r.Violation(c.id, "state/consensus-root-of-earlier-height-lost", map[string]interface{}{"config": c.desc(), "height": hh, "found": found})
			break
		}
		r.Count("consensus_roots_rechecked_at_end", 1)
	}
}
