// Package c05 monitors C05: one ack per delivered packet, processed at most once.
package c05

import (
	"bytes"
	"crypto/sha256"
	"fmt"
	"math/big"
	"strings"
	"testing"

	"github.com/ethereum/go-ethereum/common"

	"github.com/teleport-network/teleport/x/xibc/core/host"
	packettypes "github.com/teleport-network/teleport/x/xibc/core/packet/types"

	"github.com/teleport-network/teleport/syscontracts"
	stakingcontract "github.com/teleport-network/teleport/syscontracts/staking"
	agentcontract "github.com/teleport-network/teleport/syscontracts/xibc_agent"

	"verif/harness/core"
	"verif/harness/pkt"
)

var callKinds = []string{"", "counter", "reverter", "bad-receiver", "", "hard-failure", "agent-second-hop"}

type mon struct {
	r   *core.Run
	cid string
	s   *pkt.Sim
	// shadow copies of acks/ and commitments/ per chain
	acks  map[string]core.KV
	comms map[string]core.KV
	// per packet bookkeeping
	feePaid  map[*pkt.Pkt]int
	cbCount  map[*pkt.Pkt]int
	ackMsgOf map[*pkt.Pkt]*packettypes.MsgAcknowledgement
	nAtt     int
}

func TestC05(t *testing.T) {
	r := core.NewRun(t, "C05")
	r.Rule = "seeded relay histories over 3 chains with packets whose destination execution succeeds or fails (reverting call, bad receiver), honest receives/acks in random order, plus duplicated, re-signed, conflicting (success<->error, other packet's ack, altered ack bytes, stale/other proof) and premature acknowledgement messages, and direct keeper WriteAcknowledgement calls on already acknowledged packets. After EVERY transaction the acks/ and commitments/ prefixes of every chain are diffed against shadow copies. Non-trivial = an acknowledgement attempt or receive (distinct by history, packet, variant and position) that reached the keeper."
	defer r.Finish()
	H, L := r.N(8, 220), r.N(45, 110)
	for h := 0; h < H; h++ {
		cid := fmt.Sprintf("hist/%d", h)
		if !r.Want(cid) {
			continue
		}
		func() {
			defer func() {
				if rec := recover(); rec != nil {
					r.Violation(cid, "panic/monitor-or-code", map[string]interface{}{"panic": fmt.Sprint(rec)})
				}
			}()
			runHistory(r, cid, L, h%3 == 2)
		}()
	}
	r.MinNontrivial(r.N(100, 5000))
}

func runHistory(r *core.Run, cid string, L int, crowded bool) {
	rng := r.Rng(cid)
	s, err := pkt.NewSim(rng, pkt.Config{Chains: 3, Users: 2, Relayers: 2, Tokens: 2, Native: true})
	if err != nil {
		r.Inconclusive("%s: world construction failed: %v", cid, err)
		return
	}
	m := &mon{r: r, cid: cid, s: s, acks: map[string]core.KV{}, comms: map[string]core.KV{}, feePaid: map[*pkt.Pkt]int{}, cbCount: map[*pkt.Pkt]int{}, ackMsgOf: map[*pkt.Pkt]*packettypes.MsgAcknowledgement{}}
	for _, n := range s.W.Nodes {
		m.acks[n.Name] = n.DumpPrefix(n.Ctx(), "xibc", []byte("acks/"))
		m.comms[n.Name] = n.DumpPrefix(n.Ctx(), "xibc", []byte("commitments/"))
	}
	if crowded {
		// one path carries a dozen packets at a time: the keys of sequence 1 and of 10, 11, ... share a prefix, and the
		// acknowledgement of one of them must not touch what belongs to the others
		a, b := s.RandNodePair()
		s.Focus, s.FocusPct = []*core.Node{a, b}, 100
		for i := 0; i < 12 && r.Violations() == 0; i++ {
			m.send()
		}
		s.FocusPct = 70
		r.Count("crowded_path_histories", 1)
	}
	for i := 0; i < L; i++ {
		x := rng.Intn(100)
		switch {
		case x < 25 || len(s.Pkts) == 0:
			m.send()
		case x < 45:
			m.recv()
		case x < 60:
			m.honestAck()
		case x < 90:
			m.badAck()
		case x < 95:
			m.keeperWriteAck()
		case x < 97:
			m.ackUnderChangedRegistry()
		case x < 98:
			// governance replaces the client of one path by another type and back: stored acknowledgements and commitments
			// are not the client's to touch
			a, b := s.RandNodePair()
			before := map[string]core.KV{"acks/": a.DumpPrefix(a.Ctx(), "xibc", []byte("acks/")), "commitments/": a.DumpPrefix(a.Ctx(), "xibc", []byte("commitments/")), "receipts/": a.DumpPrefix(a.Ctx(), "xibc", []byte("receipts/"))}
			if err := s.GovClientOp(a, b); err != nil {
				r.Inconclusive("%s: client toggle / upgrade failed: %v", cid, err)
				return
			}
			r.Count("client_toggles_round_trip", 1)
			r.Eval(fmt.Sprintf("%s/%d/toggle", cid, len(s.Log)), true)
			for pfx, kv := range before {
				if d := core.Diff("xibc", kv, a.DumpPrefix(a.Ctx(), "xibc", []byte(pfx))); len(d) != 0 {
					r.Violation(cid, "toggle/packet-state-changed-by-a-client-toggle/"+pfx[:len(pfx)-1], map[string]interface{}{"chain": a.Name, "client": b.Name, "diff": core.TrimDiff(d, 8)})
				}
			}
		default:
			s.W.Roll(s.W.Nodes[rng.Intn(len(s.W.Nodes))])
		}
		if r.Violations() > 0 && !r.Replaying() {
			return
		}
	}
	r.Sample(map[string]interface{}{"history": cid, "ops": len(s.Log), "packets": len(s.Pkts), "ack_attempts": m.nAtt})
}

func (m *mon) send() {
	s := m.s
	sp := s.RandSendSpec(nil)
	kind := callKinds[s.Rng.Intn(len(callKinds))]
	switch kind {
	case "bad-receiver":
		sp.Receiver = "not-an-address"
		sp.Call = pkt.CallSpec{Kind: kind}
	case "hard-failure":
		// a staking action the packet contract cannot pay for: the EVM part succeeds, the post-processing hook fails,
		// so the module's call into the packet contract fails as a whole (not a result code from the contract)
		vals := sp.Dst.App.StakingKeeper.GetAllValidators(sp.Dst.Ctx())
		if data, err := stakingcontract.StakingContract.ABI.Pack("delegate", vals[0].OperatorAddress, big.NewInt(1_000_000)); err == nil {
			sp.Call = pkt.CallSpec{Kind: kind, Contract: syscontracts.StakingContractAddress, Data: data}
		}
	case "agent-second-hop":
		// tokens go to the agent contract of the destination, which sends them on to the third chain: the second hop is
		// a packet whose sender AND callback is a system contract (its callback consults the recorded outcome)
		if sp.Token == nil || sp.Token.Origin != sp.Src || sp.Token.Addr == core.ZeroAddr {
			sp.Call = s.CallTo(sp.Dst, "counter")
			break
		}
		var third *core.Node
		for _, n := range s.W.Nodes {
			if n != sp.Src && n != sp.Dst {
				third = n
			}
		}
		recvr := pkt.LowerHex(s.RandUser().Eth)
		if s.Rng.Intn(2) == 0 {
			recvr = "not-an-address" // the second hop then fails on the third chain: its error acknowledgement must be processed
		}
		data, err := agentcontract.AgentContract.ABI.Pack("send", sp.Token.AddrOn(sp.Dst), recvr, third.Name, big.NewInt(0))
		if err != nil {
			break
		}
		sp.Receiver = strings.ToLower(agentcontract.AgentContractAddress.Hex())
		sp.Call = pkt.CallSpec{Kind: kind, Contract: syscontracts.AgentContractAddress, Data: data}
	default:
		sp.Call = s.CallTo(sp.Dst, kind)
	}
	if sp.Token == nil && sp.Call.Kind == "" {
		sp.Call = s.CallTo(sp.Dst, "counter")
	}
	// sender callback probe: a counter contract on the source chain
	if s.Rng.Intn(2) == 0 {
		sp.Callback = s.Contracts[sp.Src.Name]["counter"]
	}
	o, ps := s.Send(sp)
	m.r.Count("sends", 1)
	m.afterTx(sp.Src, o, nil, nil)
	_ = ps
}

func (m *mon) recv() {
	s := m.s
	pr := s.PendingRecv()
	if len(pr) == 0 {
		return
	}
	p := pr[s.Rng.Intn(len(pr))]
	o, err := s.HonestRecv(p, s.RandRelayer())
	if err != nil {
		return
	}
	m.r.Eval(fmt.Sprintf("%s/%d/recv/%s", m.cid, len(s.Log), p.Key()), true)
	if o.OK() {
		m.r.Count(fmt.Sprintf("recvs/ack-code-%d/%s", p.AckCode, p.Spec.Call.Kind), 1)
		// a callback that fails (revert inside the contract, unusable receiver, failure of the module's call as a whole)
		// must be acknowledged as an ERROR
		switch p.Spec.Call.Kind {
		case "reverter", "bad-receiver", "hard-failure":
			if p.AckWritten != nil && p.AckCode == 0 {
				m.r.Violation(m.cid, "acks/success-acknowledgement-for-a-failed-callback/"+p.Spec.Call.Kind, map[string]interface{}{"packet": p.Key(), "spec": p.Spec.Describe(), "log": s.Log})
			}
		}
		// packets sent on by the destination while it executed this one (agent second hop) are packets like any other
		for _, e := range core.SendPackets(o.Result.Events) {
			if e.SrcChain != p.DstN.Name {
				continue
			}
			var q packettypes.Packet
			if q.ABIDecode(e.Packet) != nil || s.W.ByName[q.DstChain] == nil {
				continue
			}
			s.Register(&core.SentPacket{Bytes: e.Packet, Packet: q, Src: q.SrcChain, Dst: q.DstChain}, pkt.SendSpec{Src: p.DstN, Dst: s.W.ByName[q.DstChain], User: s.W.Admin, Call: pkt.CallSpec{Kind: "second-hop"}}, p.DstN)
			m.r.Count("second_hop_packets_sent_by_the_agent", 1)
		}
		m.afterTx(p.DstN, o, p, nil)
	} else {
		m.r.Count("honest_recv_rejected", 1)
		m.afterTx(p.DstN, o, nil, nil)
	}
}

// counterValue reads slot 0 of the callback probe on chain n.
func (m *mon) counterValue(n *core.Node) *big.Int {
	v := n.App.EvmKeeper.GetState(n.Ctx(), m.s.Contracts[n.Name]["counter"], common.Hash{})
	return new(big.Int).SetBytes(v.Bytes())
}

// feeBalance returns the relayer-side balance in the fee token of p.
func (m *mon) feeBalance(p *pkt.Pkt, who common.Address) *big.Int {
	if p.Spec.FeeToken == nil {
		return p.SrcN.BankBalance(who)
	}
	return p.SrcN.ERC20Balance(p.Spec.FeeToken.AddrOn(p.SrcN), who)
}

// relayerOfAck returns the account that must receive the fee: the relayer named in the written ack.
func (m *mon) relayerOfAck(p *pkt.Pkt) *core.Account {
	var a packettypes.Acknowledgement
	if err := a.ABIDecode(p.AckWritten); err != nil {
		return nil
	}
	for _, r := range m.s.W.Relayers {
		if r.Bech32() == a.Relayer {
			return r
		}
	}
	return nil
}

// deliverAck delivers an acknowledgement message for p and applies the source-side oracle.
func (m *mon) deliverAck(p *pkt.Pkt, msg *packettypes.MsgAcknowledgement, signer *core.Account, variant string, mustFail bool) {
	s := m.s
	m.nAtt++
	wasAcked := p.Acked
	feeTo := m.relayerOfAck(p)
	var feeBefore *big.Int
	if feeTo != nil {
		feeBefore = m.feeBalance(p, feeTo.Eth)
	}
	cbBefore := m.counterValue(p.SrcN)
	stBefore := p.SrcN.AckStatus(p.Dst, p.Packet.Sequence)
	o := s.Deliver(p.SrcN, signer, "ack["+variant+"] "+p.Key(), msg)
	m.r.Eval(fmt.Sprintf("%s/%d/ack/%s/%s", m.cid, len(s.Log), variant, p.Key()), o.Code != 1<<30)
	m.r.Count("ack_attempts/"+variant, 1)
	if o.OK() {
		m.r.Count("acks_accepted/"+variant, 1)
		s.NoteAck(p, o)
		if wasAcked {
			m.r.Violation(m.cid, "ack/second-acknowledgement-accepted/"+variant, map[string]interface{}{"packet": p.Key(), "log": s.Log})
		} else if mustFail {
			m.r.Violation(m.cid, "ack/unjustified-acknowledgement-accepted/"+variant, map[string]interface{}{"packet": p.Key(), "log": s.Log})
		}
		// effects exactly once
		stAfter := p.SrcN.AckStatus(p.Dst, p.Packet.Sequence)
		var a packettypes.Acknowledgement
		_ = a.ABIDecode(msg.Acknowledgement)
		want := uint8(1)
		if a.Code != 0 {
			want = 2
		}
		if stBefore != 0 || stAfter != want {
			m.r.Violation(m.cid, "ack/status-transition", map[string]interface{}{"packet": p.Key(), "before": stBefore, "after": stAfter, "ack_code": a.Code})
		}
		if feeTo != nil && p.Spec.FeeAmount != nil {
			d := new(big.Int).Sub(m.feeBalance(p, feeTo.Eth), feeBefore)
			m.feePaid[p]++
			if d.Cmp(p.Spec.FeeAmount) != 0 {
				m.r.Violation(m.cid, "ack/relayer-fee-not-paid-exactly-once", map[string]interface{}{"packet": p.Key(), "delta": d, "fee": p.Spec.FeeAmount, "log": s.Log})
			}
		}
		cb := new(big.Int).Sub(m.counterValue(p.SrcN), cbBefore)
		if p.Spec.Callback != (common.Address{}) {
			m.r.Count(fmt.Sprintf("callback_invocations_on_accepted_ack=%s", cb), 1)
			if cb.Cmp(big.NewInt(1)) > 0 {
				m.r.Violation(m.cid, "ack/sender-callback-ran-more-than-once", map[string]interface{}{"packet": p.Key(), "count": cb})
			} else if cb.Sign() == 0 {
				// the callback is the probe counter (it cannot fail): an accepted acknowledgement that did not run it
				// processed the packet only in part
				m.r.Violation(m.cid, "ack/accepted-without-running-the-sender-callback", map[string]interface{}{"packet": p.Key(), "variant": variant, "log": s.Log})
			}
		} else if cb.Sign() != 0 {
			m.r.Violation(m.cid, "ack/callback-ran-for-packet-without-callback", map[string]interface{}{"packet": p.Key(), "count": cb})
		}
		m.ackMsgOf[p] = msg
		m.afterTx(p.SrcN, o, nil, p)
		return
	}
	// rejected
	if variant == "honest" && !wasAcked && strings.EqualFold(p.Packet.Sender, agentcontract.AgentContractAddress.Hex()) {
		// the sender (and callback) of this packet is the agent system contract: an honest acknowledgement of it that can
		// never be processed leaves the forwarded value locked for good
		var a packettypes.Acknowledgement
		_ = a.ABIDecode(msg.Acknowledgement)
		m.r.Violation(m.cid, fmt.Sprintf("ack/honest-acknowledgement-of-an-agent-hop-rejected/code-%d", a.Code), map[string]interface{}{"packet": p.Key(), "vmerr": vmErr(o), "log": s.Log})
	}
	if len(o.Diff) != 0 {
		m.r.Violation(m.cid, "ack/rejected-but-state-changed/"+variant, map[string]interface{}{"packet": p.Key(), "diff": core.TrimDiff(o.Diff, 8), "log": s.Log})
	}
	m.afterTx(p.SrcN, o, nil, nil)
}

// ackUnderChangedRegistry: the relayer registry of the sending chain changes between the receive and the
// acknowledgement, so that the relayer named in the (genuine, provable) acknowledgement is not registered there for
// the moment. Whatever the chain does with such a message it must do as a whole: accepted with all effects (status,
// fee, callback) or rejected with no state change - deliverAck judges both. Afterwards the registry is restored and the
// acknowledgement can still be delivered by a later honest step.
func (m *mon) ackUnderChangedRegistry() {
	s := m.s
	pa := s.PendingAck()
	if len(pa) == 0 {
		return
	}
	p := pa[s.Rng.Intn(len(pa))]
	rel := s.RandRelayer()
	min := s.ProvableHeight(p.DstN, p.RecvBlock)
	ph, err := s.EnsureClient(p.SrcN, p.DstN, rel, min)
	if err != nil {
		return
	}
	msg, err := s.AckMsg(p, p.AckWritten, ph, rel)
	if err != nil {
		return
	}
	if s.Rng.Intn(2) == 0 {
		// the address the acknowledgement names also appears under ANOTHER relayer - for another counterparty: the fee still
		// belongs to the relayer that has it for THIS counterparty
		s.CrossRelayers(p.SrcN, p.Dst)
		m.r.Count("acks_under_crossed_registry", 1)
		m.deliverAck(p, msg, rel, "honest-under-crossed-registry", false)
		s.RestoreRelayers(p.SrcN)
		return
	}
	s.ScrambleRelayers(p.SrcN, p.Dst)
	m.r.Count("acks_under_changed_registry", 1)
	m.deliverAck(p, msg, rel, "honest-while-relayer-unregistered", false)
	s.RestoreRelayers(p.SrcN)
}

func (m *mon) honestAck() {
	s := m.s
	pa := s.PendingAck()
	if len(pa) == 0 {
		return
	}
	p := pa[s.Rng.Intn(len(pa))]
	rel := s.RandRelayer()
	min := s.ProvableHeight(p.DstN, p.RecvBlock)
	ph, err := s.EnsureClient(p.SrcN, p.DstN, rel, min)
	if err != nil {
		return
	}
	msg, err := s.AckMsg(p, p.AckWritten, ph, rel)
	if err != nil {
		return
	}
	if s.Rng.Intn(3) == 0 {
		// the address the acknowledgement names also appears under ANOTHER relayer - for another counterparty: the fee still
		// belongs to the relayer that has it for THIS counterparty
		s.CrossRelayers(p.SrcN, p.Dst)
		m.r.Count("acks_under_crossed_registry", 1)
		m.deliverAck(p, msg, rel, "honest-under-crossed-registry", false)
		s.RestoreRelayers(p.SrcN)
		return
	}
	m.deliverAck(p, msg, rel, "honest", false)
}

func (m *mon) badAck() {
	s := m.s
	if len(s.Pkts) == 0 {
		return
	}
	rel := s.RandRelayer()
	p := s.Pkts[s.Rng.Intn(len(s.Pkts))]
	if p.DstN == nil {
		return
	}
	fresh := func(ack []byte) *packettypes.MsgAcknowledgement {
		min := s.ProvableHeight(p.DstN, p.DstN.Header.Height-1)
		ph, err := s.EnsureClient(p.SrcN, p.DstN, rel, min)
		if err != nil {
			return nil
		}
		msg, err := s.AckMsg(p, ack, ph, rel)
		if err != nil {
			return nil
		}
		return msg
	}
	forge := func(code uint64, message string) []byte {
		a := packettypes.NewAcknowledgement(code, []byte{}, message, rel.Bech32(), p.Packet.FeeOption)
		bz, _ := a.ABIPack()
		return bz
	}
	switch {
	case p.Acked && m.ackMsgOf[p] != nil:
		switch s.Rng.Intn(4) {
		case 0:
			msg := *m.ackMsgOf[p]
			m.deliverAck(p, &msg, accountOf(s, msg.Signer), "duplicate-identical", true)
		case 1:
			msg := *m.ackMsgOf[p]
			msg.Signer = rel.Bech32()
			m.deliverAck(p, &msg, rel, "duplicate-other-relayer", true)
		case 2:
			if msg := fresh(p.AckWritten); msg != nil {
				m.deliverAck(p, msg, rel, "duplicate-fresh-proof", true)
			}
		case 3:
			other := uint64(0)
			if p.AckCode == 0 {
				other = 1
			}
			msg := *m.ackMsgOf[p]
			msg.Signer = rel.Bech32()
			msg.Acknowledgement = forge(other, "conflicting")
			m.deliverAck(p, &msg, rel, "conflicting-after-ack", true)
		}
	case p.Received && p.AckWritten != nil:
		switch s.Rng.Intn(6) {
		case 4, 5: // genuine ack bytes and proof for this sequence, but a packet that differs from the committed one in a non-path field
			q := p.Packet
			switch s.Rng.Intn(4) {
			case 0:
				q.Sender = pkt.LowerHex(s.RandUser().Eth) + "00"
			case 1:
				q.TransferData = append(append([]byte{}, q.TransferData...), 0)
			case 2:
				q.CallbackAddress = pkt.LowerHex(s.RandUser().Eth)
			case 3:
				q.FeeOption += 7
			}
			if bz, err := q.ABIPack(); err == nil {
				if msg := fresh(p.AckWritten); msg != nil {
					msg.Packet = bz
					m.deliverAck(p, msg, rel, "real-ack-and-proof-for-altered-packet", true)
				}
			}
		case 0: // opposite outcome with the proof of the real ack
			other := uint64(0)
			msgTxt := ""
			if p.AckCode == 0 {
				other, msgTxt = 1, "receive packet callback failed"
			}
			if msg := fresh(forge(other, msgTxt)); msg != nil {
				m.deliverAck(p, msg, rel, "opposite-outcome-with-real-proof", true)
			}
		case 1: // real ack bytes with one byte altered
			alt := append([]byte{}, p.AckWritten...)
			alt[len(alt)-1-s.Rng.Intn(32)] ^= 0x01
			if msg := fresh(alt); msg != nil {
				m.deliverAck(p, msg, rel, "altered-ack-bytes", true)
			}
		case 2: // another packet's ack + proof for this packet
			for _, q := range s.Pkts {
				if q != p && q.Received && q.AckWritten != nil && q.DstN == p.DstN && q.SrcN == p.SrcN {
					min := s.ProvableHeight(q.DstN, q.RecvBlock)
					ph, err := s.EnsureClient(p.SrcN, q.DstN, rel, min)
					if err != nil {
						return
					}
					qm, err := s.AckMsg(q, q.AckWritten, ph, rel)
					if err != nil {
						return
					}
					qm.Packet = p.Bytes
					m.deliverAck(p, qm, rel, "other-packets-ack-and-proof", !bytes.Equal(q.AckWritten, p.AckWritten) || true)
					return
				}
			}
		case 3: // honest content from a relayer, but stale proof height (before the ack existed)
			if msg := fresh(p.AckWritten); msg != nil {
				h := int64(msg.ProofHeight.RevisionHeight)
				if p.RecvBlock < h && p.RecvBlock > 1 && s.HasConsensus(p.SrcN, p.DstN, p.RecvBlock) {
					stale, _, err := s.W.Proof(p.DstN, host.PacketAcknowledgementKey(p.Src, p.Dst, p.Packet.Sequence), p.RecvBlock)
					if err == nil {
						msg.ProofAcked = stale
						msg.ProofHeight = core.HeightOf(p.DstN, p.RecvBlock)
						m.deliverAck(p, msg, rel, "stale-proof-before-ack-existed", true)
					}
				}
			}
		}
	default: // not yet received: premature acknowledgement
		if msg := fresh(forge(0, "")); msg != nil {
			m.deliverAck(p, msg, rel, "premature-ack-before-receive", true)
		}
	}
}

func accountOf(s *pkt.Sim, bech string) *core.Account {
	for _, a := range s.W.Relayers {
		if a.Bech32() == bech {
			return a
		}
	}
	return s.W.Relayers[0]
}

// keeperWriteAck exercises the keeper API a module could call: a second
// WriteAcknowledgement for a packet that already has one, and an empty ack.
func (m *mon) keeperWriteAck() {
	s := m.s
	rp := s.ReceivedPkts()
	if len(rp) == 0 {
		return
	}
	p := rp[s.Rng.Intn(len(rp))]
	n := p.DstN
	ctx, _ := n.Ctx().CacheContext()
	before := n.DumpPrefix(ctx, "xibc", []byte("acks/"))
	other, _ := packettypes.NewAcknowledgement(7, []byte{1}, "overwrite", "x", 0).ABIPack()
	acks := [][]byte{other, {}}
	ack := acks[s.Rng.Intn(2)]
	err, _ := core.Catch(func() error { return n.App.XIBCKeeper.PacketKeeper.WriteAcknowledgement(ctx, &p.Packet, ack) })
	after := n.DumpPrefix(ctx, "xibc", []byte("acks/"))
	m.r.Eval(fmt.Sprintf("%s/%d/keeper-writeack/%s/%d", m.cid, len(s.Log), p.Key(), len(ack)), true)
	m.r.Count("keeper_writeack_attempts", 1)
	if err == nil {
		m.r.Violation(m.cid, "writeack/second-or-empty-acknowledgement-written", map[string]interface{}{"packet": p.Key(), "empty": len(ack) == 0})
	}
	if d := core.Diff("xibc", before, after); len(d) != 0 {
		m.r.Violation(m.cid, "writeack/stored-acknowledgement-overwritten", map[string]interface{}{"packet": p.Key(), "diff": d})
	}
}

// afterTx diffs acks/ and commitments/ of chain n against the shadow copies.
// recvd is the packet whose receive was accepted in this tx (nil otherwise);
// acked is the packet whose acknowledgement was accepted in this tx.
func (m *mon) afterTx(n *core.Node, o *pkt.Obs, recvd, acked *pkt.Pkt) {
	ctx := n.Ctx()
	acks := n.DumpPrefix(ctx, "xibc", []byte("acks/"))
	comms := n.DumpPrefix(ctx, "xibc", []byte("commitments/"))
	// acks only grow and never change
	d := core.Diff("acks", m.acks[n.Name], acks)
	added := 0
	for _, e := range d {
		switch e.Op {
		case "del":
			m.r.Violation(m.cid, "acks/stored-acknowledgement-removed", map[string]interface{}{"key": e.Key, "log": m.s.Log})
		case "mod":
			m.r.Violation(m.cid, "acks/stored-acknowledgement-overwritten", map[string]interface{}{"key": e.Key, "log": m.s.Log})
		case "add":
			added++
			if recvd == nil || e.Key != string(host.PacketAcknowledgementKey(recvd.Src, recvd.Dst, recvd.Packet.Sequence)) {
				m.r.Violation(m.cid, "acks/acknowledgement-written-without-accepted-receive", map[string]interface{}{"key": e.Key, "log": m.s.Log})
			} else {
				h := sha256.Sum256(recvd.AckWritten)
				if recvd.AckWritten == nil || core.Hex(h[:]) != e.New {
					m.r.Violation(m.cid, "acks/stored-hash-differs-from-EventWriteAck", map[string]interface{}{"key": e.Key, "stored": e.New})
				}
			}
		}
	}
	if recvd != nil && recvd.DstN == n && added != 1 {
		m.r.Violation(m.cid, fmt.Sprintf("acks/accepted-receive-wrote-%d-acknowledgements", added), map[string]interface{}{"packet": recvd.Key(), "log": m.s.Log})
	}
	// commitments disappear only through a verified ack of exactly that packet
	for _, e := range core.Diff("commitments", m.comms[n.Name], comms) {
		switch e.Op {
		case "del":
			ok := false
			if acked != nil && e.Key == string(host.PacketCommitmentKey(acked.Src, acked.Dst, acked.Packet.Sequence)) && m.ackMsgOf[acked] != nil {
				// the acknowledged bytes must be what the destination really stored
				stored, found := acked.DstN.App.XIBCKeeper.PacketKeeper.GetPacketAcknowledgement(acked.DstN.Ctx(), acked.Src, acked.Dst, acked.Packet.Sequence)
				h := sha256.Sum256(m.ackMsgOf[acked].Acknowledgement)
				ok = found && bytes.Equal(stored, h[:])
			}
			if !ok {
				m.r.Violation(m.cid, "commitments/removed-without-verified-ack-of-that-packet", map[string]interface{}{"key": e.Key, "log": m.s.Log})
			}
		case "mod":
			m.r.Violation(m.cid, "commitments/overwritten", map[string]interface{}{"key": e.Key})
		}
	}
	if acked != nil {
		k := string(host.PacketCommitmentKey(acked.Src, acked.Dst, acked.Packet.Sequence))
		if _, still := comms[k]; still {
			m.r.Violation(m.cid, "commitments/not-removed-by-accepted-ack", map[string]interface{}{"key": k})
		}
	}
	m.acks[n.Name] = acks
	m.comms[n.Name] = comms
	m.r.Count("store_diffs_checked", 1)
}

func vmErr(o *pkt.Obs) string {
	if o.Eth != nil {
		return o.Eth.VmError
	}
	return o.Log
}
