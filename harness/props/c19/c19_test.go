// Package c19 monitors C19: canonical loss-free packet encoding and injective,
// parseable store keys.
package c19

import (
	"bytes"
	"crypto/sha256"
	"encoding/binary"
	"fmt"
	"math/big"
	"math/rand"
	"reflect"
	"sort"
	"strings"
	"testing"
	"time"

	sdk "github.com/cosmos/cosmos-sdk/types"
	"github.com/cosmos/cosmos-sdk/types/query"
	"github.com/ethereum/go-ethereum/common"

	bsctypes "github.com/teleport-network/teleport/x/xibc/clients/light-clients/bsc/types"
	ethtypes "github.com/teleport-network/teleport/x/xibc/clients/light-clients/eth/types"
	tmtypes "github.com/teleport-network/teleport/x/xibc/clients/light-clients/tendermint/types"
	clienttypes "github.com/teleport-network/teleport/x/xibc/core/client/types"
	commitmenttypes "github.com/teleport-network/teleport/x/xibc/core/commitment/types"
	"github.com/teleport-network/teleport/x/xibc/core/host"
	packettypes "github.com/teleport-network/teleport/x/xibc/core/packet/types"
	"github.com/teleport-network/teleport/x/xibc/exported"

	"verif/harness/core"
)

func eqBytes(a, b []byte) bool { return bytes.Equal(a, b) } // nil == empty

func TestC19(t *testing.T) {
	r := core.NewRun(t, "C19")
	r.Rule = "generated Packet/Acknowledgement/TransferData/CallData/Result values (valid UTF-8 strings incl. empty, multi-byte, JSON/HTML-special, U+2028; byte strings incl. empty and 0x00/0xff runs; boundary uint64) and packet bytes emitted by the real packet contract; generated valid chain-name triples and heights over all byte patterns written into the real stores and read back through every iterator. Non-trivial = distinct value/key (hash of the canonical case) that was actually encoded/stored and compared."
	r.Assume("chain names are restricted to those accepted by host.ClientIdentifierValidator")
	defer r.Finish()

	roundTrips(r)
	contractBytes(r)
	keyInjectivity(r)
	storeReadBack(r)
}

// ---------------------------------------------------------------- round trips

func roundTrips(r *core.Run) {
	if !r.Want("roundtrip") {
		return
	}
	rng := r.Rng("roundtrip")
	n := r.N(6000, 400000)
	commitments := map[[32]byte]string{}
	for i := 0; i < n; i++ {
		// Packet
		p := packettypes.Packet{
			SrcChain: core.GenUTF8(rng, 20), DstChain: core.GenUTF8(rng, 20), Sequence: core.GenUint64(rng),
			Sender: core.GenUTF8(rng, 44), TransferData: core.GenBytes(rng, 100), CallData: core.GenBytes(rng, 100),
			CallbackAddress: core.GenUTF8(rng, 44), FeeOption: core.GenUint64(rng),
		}
		key := fmt.Sprintf("packet/%q/%q/%d/%q/%x/%x/%q/%d", p.SrcChain, p.DstChain, p.Sequence, p.Sender, p.TransferData, p.CallData, p.CallbackAddress, p.FeeOption)
		bz, err := p.ABIPack()
		if err != nil {
			r.Violation("roundtrip", "encode/packet/pack-error", map[string]interface{}{"case": key, "err": err.Error()})
			continue
		}
		var q packettypes.Packet
		if err := q.ABIDecode(bz); err != nil {
			r.Violation("roundtrip", "encode/packet/decode-error", map[string]interface{}{"case": key, "err": err.Error()})
			continue
		}
		r.Eval(key, true)
		r.Count("packet_roundtrips", 1)
		if q.SrcChain != p.SrcChain || q.DstChain != p.DstChain || q.Sequence != p.Sequence || q.Sender != p.Sender ||
			!eqBytes(q.TransferData, p.TransferData) || !eqBytes(q.CallData, p.CallData) || q.CallbackAddress != p.CallbackAddress || q.FeeOption != p.FeeOption {
			r.Violation("roundtrip", "encode/packet/lossy/"+firstDiffPacket(p, q), map[string]interface{}{"in": key, "out": fmt.Sprintf("%+v", q)})
		}
		// canonical: re-encode equals
		bz2, err := q.ABIPack()
		if err != nil || !bytes.Equal(bz, bz2) {
			r.Violation("roundtrip", "encode/packet/reencode-differs", map[string]interface{}{"case": key})
		}
		// distinct packets -> distinct commitments
		c, _ := packettypes.CommitPacket(&p)
		var ck [32]byte
		copy(ck[:], c)
		if prev, ok := commitments[ck]; ok && prev != key {
			r.Violation("roundtrip", "commitment/collision", map[string]interface{}{"a": prev, "b": key})
		}
		commitments[ck] = key
		if i < 2 {
			r.Sample(map[string]interface{}{"kind": "packet", "value": key, "encoded_len": len(bz)})
		}

		// Acknowledgement
		a := packettypes.Acknowledgement{Code: core.GenUint64(rng), Result: core.GenBytes(rng, 80), Message: core.GenUTF8(rng, 40), Relayer: core.GenUTF8(rng, 44), FeeOption: core.GenUint64(rng)}
		if i%8 == 3 {
			// texts as error paths produce them: white space at the edges (a newline-terminated revert reason, padding)
			a.Message = []string{"\n", "reverted\n", " x", "x ", "\t", "execution reverted: insufficient balance\n", "\r\n", "  "}[(i/8)%8]
			if i%16 == 3 {
				a.Relayer = " " + a.Relayer + "\n"
			}
		}
		akey := fmt.Sprintf("ack/%d/%x/%q/%q/%d", a.Code, a.Result, a.Message, a.Relayer, a.FeeOption)
		abz, err := a.ABIPack()
		if err != nil {
			r.Violation("roundtrip", "encode/ack/pack-error", map[string]interface{}{"case": akey, "err": err.Error()})
		} else {
			var b packettypes.Acknowledgement
			if err := b.ABIDecode(abz); err != nil {
				r.Violation("roundtrip", "encode/ack/decode-error", map[string]interface{}{"case": akey, "err": err.Error()})
			} else {
				r.Eval(akey, true)
				r.Count("ack_roundtrips", 1)
				if d := firstDiffAck(a, b); d != "" {
					r.Violation("roundtrip", "encode/ack/lossy/"+d, map[string]interface{}{"in": akey, "out": fmt.Sprintf("%+v", b)})
				}
			}
		}
		// TransferData
		td := packettypes.TransferData{Receiver: core.GenUTF8(rng, 44), Amount: core.GenBytes(rng, 40), Token: core.GenUTF8(rng, 44), OriToken: core.GenUTF8(rng, 44)}
		tkey := fmt.Sprintf("td/%q/%x/%q/%q", td.Receiver, td.Amount, td.Token, td.OriToken)
		tbz, err := td.ABIPack()
		if err != nil {
			r.Violation("roundtrip", "encode/transferdata/pack-error", map[string]interface{}{"case": tkey, "err": err.Error()})
		} else {
			var td2 packettypes.TransferData
			if err := td2.ABIDecode(tbz); err != nil {
				r.Violation("roundtrip", "encode/transferdata/decode-error", map[string]interface{}{"case": tkey, "err": err.Error()})
			} else {
				r.Eval(tkey, true)
				r.Count("transferdata_roundtrips", 1)
				if td2.Receiver != td.Receiver || !eqBytes(td2.Amount, td.Amount) || td2.Token != td.Token || td2.OriToken != td.OriToken {
					r.Violation("roundtrip", "encode/transferdata/lossy", map[string]interface{}{"in": tkey, "out": fmt.Sprintf("%+v", td2)})
				}
			}
		}
		// CallData
		cd := packettypes.CallData{ContractAddress: core.GenUTF8(rng, 44), CallData: core.GenBytes(rng, 120)}
		ckey := fmt.Sprintf("cd/%q/%x", cd.ContractAddress, cd.CallData)
		cbz, err := cd.ABIPack()
		if err != nil {
			r.Violation("roundtrip", "encode/calldata/pack-error", map[string]interface{}{"case": ckey, "err": err.Error()})
		} else {
			var cd2 packettypes.CallData
			if err := cd2.ABIDecode(cbz); err != nil {
				r.Violation("roundtrip", "encode/calldata/decode-error", map[string]interface{}{"case": ckey, "err": err.Error()})
			} else {
				r.Eval(ckey, true)
				r.Count("calldata_roundtrips", 1)
				if cd2.ContractAddress != cd.ContractAddress || !eqBytes(cd2.CallData, cd.CallData) {
					r.Violation("roundtrip", "encode/calldata/lossy", map[string]interface{}{"in": ckey, "out": fmt.Sprintf("%+v", cd2)})
				}
			}
		}
		// Result
		rs := packettypes.Result{Code: core.GenUint64(rng), Result: core.GenBytes(rng, 80), Message: core.GenUTF8(rng, 40)}
		rkey := fmt.Sprintf("res/%d/%x/%q", rs.Code, rs.Result, rs.Message)
		rbz, err := rs.ABIPack()
		if err != nil {
			r.Violation("roundtrip", "encode/result/pack-error", map[string]interface{}{"case": rkey, "err": err.Error()})
		} else {
			var rs2 packettypes.Result
			if err := rs2.ABIDecode(rbz); err != nil {
				r.Violation("roundtrip", "encode/result/decode-error", map[string]interface{}{"case": rkey, "err": err.Error()})
			} else {
				r.Eval(rkey, true)
				r.Count("result_roundtrips", 1)
				if rs2.Code != rs.Code || !eqBytes(rs2.Result, rs.Result) || rs2.Message != rs.Message {
					r.Violation("roundtrip", "encode/result/lossy", map[string]interface{}{"in": rkey, "out": fmt.Sprintf("%+v", rs2)})
				}
			}
		}
	}
}

func firstDiffPacket(p, q packettypes.Packet) string {
	switch {
	case p.SrcChain != q.SrcChain:
		return "src_chain"
	case p.DstChain != q.DstChain:
		return "dst_chain"
	case p.Sequence != q.Sequence:
		return "sequence"
	case p.Sender != q.Sender:
		return "sender"
	case !eqBytes(p.TransferData, q.TransferData):
		return "transfer_data"
	case !eqBytes(p.CallData, q.CallData):
		return "call_data"
	case p.CallbackAddress != q.CallbackAddress:
		return "callback_address"
	case p.FeeOption != q.FeeOption:
		return "fee_option"
	}
	return ""
}

func firstDiffAck(a, b packettypes.Acknowledgement) string {
	switch {
	case a.Code != b.Code:
		return "code"
	case !eqBytes(a.Result, b.Result):
		return "result"
	case a.Message != b.Message:
		return "message"
	case a.Relayer != b.Relayer:
		return "relayer"
	case a.FeeOption != b.FeeOption:
		return "fee_option"
	}
	return ""
}

// ------------------------------------------------- bytes emitted by the contract

func contractBytes(r *core.Run) {
	if !r.Want("contract") {
		return
	}
	rng := r.Rng("contract")
	w := core.NewWorld(core.WorldConfig{Chains: 2, Users: 2})
	a, b := w.Nodes[0], w.Nodes[1]
	tok, err := w.NewToken("t", a, false, 0, new(big.Int).Lsh(big.NewInt(1), 200))
	if err != nil {
		r.Inconclusive("world construction failed: %v", err)
		return
	}
	w.Roll(a)
	n := r.N(60, 1500)
	emitted := 0
	for i := 0; i < n; i++ {
		u := w.Users[rng.Intn(len(w.Users))]
		d := packettypes.CrossChainData{DstChain: b.Name, TokenAddress: tok.Addr, Receiver: core.GenUTF8(rng, 50), Amount: new(big.Int).SetUint64(1 + uint64(rng.Intn(100000))), CallbackAddress: common.Address{}, FeeOption: core.GenUint64(rng)}
		if rng.Intn(2) == 0 {
			d.TokenAddress = core.ZeroAddr
		}
		switch rng.Intn(4) {
		case 0:
			d.Amount = big.NewInt(0)
			d.ContractAddress = core.GenUTF8(rng, 44)
			d.CallData = core.GenBytes(rng, 200)
		case 1:
			d.ContractAddress = core.GenUTF8(rng, 44)
			d.CallData = core.GenBytes(rng, 200)
		default:
			d.CallData = []byte{}
		}
		if rng.Intn(3) == 0 {
			d.CallbackAddress = common.BytesToAddress(core.GenBytes(rng, 20))
		}
		fee := packettypes.Fee{TokenAddress: tok.Addr, Amount: big.NewInt(int64(rng.Intn(50)))}
		if rng.Intn(2) == 0 {
			fee.TokenAddress = core.ZeroAddr
		}
		tx, err := w.CrossChainTx(a, u, d, fee)
		if err != nil {
			continue
		}
		res := core.DecodeEthResult(a.Deliver(tx))
		for _, raw := range core.PacketSentBytes(res.Logs) {
			emitted++
			var p packettypes.Packet
			key := fmt.Sprintf("contract/%x", sha256.Sum256(raw))
			if err := p.ABIDecode(raw); err != nil {
				r.Violation("contract", "contract-bytes/decode-error", map[string]interface{}{"bytes": core.Hex(raw), "err": err.Error()})
				continue
			}
			re, err := p.ABIPack()
			r.Eval(key, true)
			r.Count("contract_emitted_packets", 1)
			if err != nil || !bytes.Equal(re, raw) {
				r.Violation("contract", "contract-bytes/reencode-differs", map[string]interface{}{"bytes": core.Hex(raw), "reencoded": core.Hex(re)})
			}
			// the stored commitment is the hash of exactly the emitted bytes
			c := a.App.XIBCKeeper.PacketKeeper.GetPacketCommitment(a.Ctx(), p.SrcChain, p.DstChain, p.Sequence)
			h := sha256.Sum256(raw)
			if !bytes.Equal(c, h[:]) {
				r.Violation("contract", "contract-bytes/commitment-not-hash-of-emitted", map[string]interface{}{"bytes": core.Hex(raw), "stored": core.Hex(c)})
			}
			if emitted <= 2 {
				r.Sample(map[string]interface{}{"kind": "contract-emitted", "packet": fmt.Sprintf("%+v", p)})
			}
		}
		if i%10 == 9 {
			w.Roll(a)
		}
	}
	if emitted < n/4 {
		r.Inconclusive("only %d packets emitted by the contract out of %d calls", emitted, n)
	}
}

// ------------------------------------------------------------ key injectivity

func keyInjectivity(r *core.Run) {
	if !r.Want("keys") {
		return
	}
	rng := r.Rng("keys")
	n := r.N(3000, 200000)
	type ctor struct {
		name string
		f    func(s, d string, q uint64) []byte
	}
	ctors := []ctor{
		{"PacketCommitmentKey", host.PacketCommitmentKey},
		{"PacketReceiptKey", host.PacketReceiptKey},
		{"PacketAcknowledgementKey", host.PacketAcknowledgementKey},
		{"PacketRelayerKey", host.PacketRelayerKey},
	}
	seen := map[string]string{}
	pool := make([]string, 0, 40)
	for i := 0; i < 40; i++ {
		pool = append(pool, core.GenChainName(rng))
	}
	// adversarial near-collisions: names that are prefixes/suffixes of each other
	pool = append(pool, "abc", "abc1", "1abc", "abc-", "abc.", "ab", "abcabc", "sequences", "commitments", "acks", "receipts")
	for i := 0; i < n; i++ {
		s, d := pool[rng.Intn(len(pool))], pool[rng.Intn(len(pool))]
		if host.ClientIdentifierValidator(s) != nil || host.ClientIdentifierValidator(d) != nil {
			continue
		}
		q := core.GenUint64(rng)
		triple := fmt.Sprintf("%s|%s|%d", s, d, q)
		for _, c := range ctors {
			k := c.name + ":" + string(c.f(s, d, q))
			if prev, ok := seen[k]; ok && prev != triple {
				r.Violation("keys", "keys/collision/"+c.name, map[string]interface{}{"a": prev, "b": triple})
			}
			seen[k] = triple
		}
		k := "NextSequenceSendKey:" + string(host.NextSequenceSendKey(s, d))
		pair := s + "|" + d
		if prev, ok := seen[k]; ok && prev != pair {
			r.Violation("keys", "keys/collision/NextSequenceSendKey", map[string]interface{}{"a": prev, "b": pair})
		}
		seen[k] = pair
		r.Eval("triple/"+triple, true)
		r.Count("triples_keyed", 1)
	}
	// different prefixes never collide with each other either
	all := map[string]string{}
	for k, v := range seen {
		raw := k[strings.Index(k, ":")+1:]
		if prev, ok := all[raw]; ok && prev != k[:strings.Index(k, ":")]+"/"+v {
			r.Violation("keys", "keys/cross-constructor-collision", map[string]interface{}{"key": raw, "a": prev, "b": k})
		}
		all[raw] = k[:strings.Index(k, ":")] + "/" + v
	}
	hseen := map[string]clienttypes.Height{}
	for i := 0; i < n; i++ {
		h := core.GenHeight(rng)
		k := string(host.ConsensusStateKey(h))
		if prev, ok := hseen[k]; ok && prev != h {
			r.Violation("keys", "keys/collision/ConsensusStateKey", map[string]interface{}{"a": prev.String(), "b": h.String()})
		}
		hseen[k] = h
		fk := string(host.FullConsensusStateKey("chain", h))
		if !strings.HasSuffix(fk, k) {
			r.Violation("keys", "keys/FullConsensusStateKey-mismatch", map[string]interface{}{"h": h.String()})
		}
		r.Eval("height/"+h.String(), true)
		r.Count("heights_keyed", 1)
	}
	// keys are values: a key that was built stays what it is when the next key is built (callers keep several at once, and
	// the stores keep the slices they are given), and appending to one key never writes into another
	type builder struct {
		name string
		f    func(i int) []byte
	}
	hs := make([]clienttypes.Height, 64)
	for i := range hs {
		hs[i] = core.GenHeight(rng)
	}
	nm := func(i int) string { return fmt.Sprintf("chain-%d", i%7) }
	builders := []builder{
		{"ConsensusStateKey", func(i int) []byte { return host.ConsensusStateKey(hs[i%len(hs)]) }},
		{"FullConsensusStateKey", func(i int) []byte { return host.FullConsensusStateKey(nm(i), hs[i%len(hs)]) }},
		{"ClientStateKey", func(i int) []byte { return host.ClientStateKey() }},
		{"FullClientStateKey", func(i int) []byte { return host.FullClientStateKey(nm(i)) }},
		{"NextSequenceSendKey", func(i int) []byte { return host.NextSequenceSendKey(nm(i), nm(i+1)) }},
		{"PacketCommitmentKey", func(i int) []byte { return host.PacketCommitmentKey(nm(i), nm(i+1), uint64(i)*7919) }},
		{"PacketReceiptKey", func(i int) []byte { return host.PacketReceiptKey(nm(i), nm(i+1), uint64(i)*7919) }},
		{"PacketAcknowledgementKey", func(i int) []byte { return host.PacketAcknowledgementKey(nm(i), nm(i+1), uint64(i)*7919) }},
		{"PacketRelayerKey", func(i int) []byte { return host.PacketRelayerKey(nm(i), nm(i+1), uint64(i)*7919) }},
		{"tendermint.ProcessedTimeKey", func(i int) []byte { return tmtypes.ProcessedTimeKey(hs[i%len(hs)]) }},
		{"tendermint.IterationKey", func(i int) []byte { return tmtypes.IterationKey(hs[i%len(hs)]) }},
		{"eth.EthHeaderIndexKey", func(i int) []byte {
			return ethtypes.EthHeaderIndexKey(common.BigToHash(big.NewInt(int64(i)*104729)), uint64(i))
		}},
		{"eth.EthRootMainKey", func(i int) []byte {
			return ethtypes.EthRootMainKey(common.BigToHash(big.NewInt(int64(i)*104729)), uint64(i))
		}},
	}
	for _, b := range builders {
		const k = 24
		held := make([][]byte, k)
		want := make([]string, k)
		for i := 0; i < k; i++ {
			held[i] = b.f(i)
			want[i] = string(held[i]) // a copy
		}
		for i := 0; i < k; i++ {
			if string(held[i]) != want[i] {
				r.Violation("keys", "keys/aliasing/"+b.name+"/a-key-changed-when-a-later-key-was-built", map[string]interface{}{"index": i, "built_as": core.Hex([]byte(want[i])), "now": core.Hex(held[i])})
				break
			}
		}
		// appending to a returned key (as ProcessedTimeKey-style helpers do) must not reach the next key of the same builder
		a := b.f(1)
		_ = append(a, []byte("/tail-written-by-the-caller")...)
		c := b.f(2)
		_ = append(a, []byte("/other-tail")...)
		if string(c) != want[2] || string(b.f(1)) != want[1] {
			r.Violation("keys", "keys/aliasing/"+b.name+"/append-to-one-key-reaches-another", map[string]interface{}{"built_as": core.Hex([]byte(want[2])), "now": core.Hex(c)})
		}
		r.Eval("aliasing/"+b.name, true)
		r.Count("key_builders_checked_for_aliasing", 1)
	}
}

// --------------------------------------------------------- store read-back

type tripleRec struct {
	S, D string
	Q    uint64
	V    []byte
}

func (t tripleRec) key() string { return fmt.Sprintf("%s|%s|%d", t.S, t.D, t.Q) }

func storeReadBack(r *core.Run) {
	if !r.Want("readback") {
		return
	}
	rounds := r.N(6, 150)
	for round := 0; round < rounds; round++ {
		cid := fmt.Sprintf("readback/%d", round)
		rng := r.Rng(cid)
		n := core.NewNode(core.NodeConfig{ChainID: "teleport_9000-1", XIBCName: "native-chain", Accounts: []*core.Account{core.NewAccount("a")}})
		n.Begin(time.Date(2022, 1, 2, 0, 0, 5, 0, time.UTC))
		ctx := n.Ctx()
		pk := n.App.XIBCKeeper.PacketKeeper
		ck := n.App.XIBCKeeper.ClientKeeper

		// --- packet state
		names := []string{}
		for i := 0; i < 6; i++ {
			names = append(names, core.GenChainName(rng))
		}
		// two pairs of names in a proper-prefix relation: a scan "by path" for the shorter name must not see the longer one's keys
		for i := 0; i < 2; i++ {
			if len(names[i]) > 60 {
				names[i] = names[i][:60]
			}
		}
		names = append(names, names[0]+"x", names[1]+"-2")
		mk := func() map[string]tripleRec {
			out := map[string]tripleRec{}
			nEntries := 40
			if round%3 == 1 {
				nEntries = 260 // more than any page size a list helper might default to
			}
			for i := 0; i < nEntries; i++ {
				t := tripleRec{S: names[rng.Intn(len(names))], D: names[rng.Intn(len(names))], Q: core.GenUint64(rng), V: core.GenBytes(rng, 32)}
				if len(t.V) == 0 {
					t.V = []byte{1}
				}
				out[t.key()] = t
			}
			return out
		}
		// every character a chain name may carry appears in some name ('+' and '#' mean something else to URL decoders)
		for i, ch := range []string{"+", "#", "<", "[", "."} {
			j := 2 + i%4
			if cand := names[j][:minI(len(names[j]), 50)] + ch + "n"; host.ClientIdentifierValidator(cand) == nil {
				names[j] = cand
			}
		}
		comm, acks, recs := mk(), mk(), mk()
		for _, t := range comm {
			pk.SetPacketCommitment(ctx, t.S, t.D, t.Q, t.V)
		}
		// the path a membership proof of a stored commitment / acknowledgement is verified under (store prefix + host path,
		// turned back into a key) is the key the entry was written under
		for kind, set := range map[string]map[string]tripleRec{"commitment": comm, "acknowledgement": acks} {
			for _, t := range set {
				pth, key := host.PacketCommitmentPath(t.S, t.D, t.Q), host.PacketCommitmentKey(t.S, t.D, t.Q)
				if kind == "acknowledgement" {
					pth, key = host.PacketAcknowledgementPath(t.S, t.D, t.Q), host.PacketAcknowledgementKey(t.S, t.D, t.Q)
				}
				mp, err := commitmenttypes.ApplyPrefix(commitmenttypes.MerklePrefix{KeyPrefix: []byte(host.StoreKey)}, commitmenttypes.NewMerklePath(pth))
				var got []byte
				if err == nil {
					got, err = mp.GetKey(1)
				}
				r.Eval("proof-path/"+kind+"/"+t.key(), true)
				if err != nil || !bytes.Equal(got, key) {
					r.Violation(cid, "readback/proof-path-of-a-stored-"+kind+"-is-not-its-store-key", map[string]interface{}{"triple": t.key(), "store_key": string(key), "proof_path_key": string(got), "err": fmt.Sprint(err)})
					break
				}
			}
		}
		r.Count("proof_paths_compared_with_store_keys", len(comm)+len(acks))
		for _, t := range acks {
			pk.SetPacketAcknowledgement(ctx, t.S, t.D, t.Q, t.V)
		}
		for _, t := range recs {
			pk.SetPacketReceipt(ctx, t.S, t.D, t.Q)
		}
		seqs := map[string]uint64{}
		for i := 0; i < 15; i++ {
			s, d := names[rng.Intn(len(names))], names[rng.Intn(len(names))]
			v := core.GenUint64(rng)
			seqs[s+"|"+d] = v
			pk.SetNextSequenceSend(ctx, s, d, v)
		}
		comparePacketStates(r, cid, "GetAllPacketCommitments", comm, func() ([]packettypes.PacketState, error) {
			var out []packettypes.PacketState
			err, _ := core.Catch(func() error { out = pk.GetAllPacketCommitments(ctx); return nil })
			return out, err
		}, true)
		comparePacketStates(r, cid, "GetAllPacketAcks", acks, func() ([]packettypes.PacketState, error) {
			var out []packettypes.PacketState
			err, _ := core.Catch(func() error { out = pk.GetAllPacketAcks(ctx); return nil })
			return out, err
		}, true)
		comparePacketStates(r, cid, "GetAllPacketReceipts", recs, func() ([]packettypes.PacketState, error) {
			var out []packettypes.PacketState
			err, _ := core.Catch(func() error { out = pk.GetAllPacketReceipts(ctx); return nil })
			return out, err
		}, false)
		// per-path reads: keeper scan and the two list queries, for every (source, destination) pair
		for _, sName := range names {
			for _, dName := range names {
				sub := func(all map[string]tripleRec) map[string]tripleRec {
					out := map[string]tripleRec{}
					for k, t := range all {
						if t.S == sName && t.D == dName {
							out[k] = t
						}
					}
					return out
				}
				comparePacketStates(r, cid, "GetAllPacketCommitmentsByPath", sub(comm), func() ([]packettypes.PacketState, error) {
					var out []packettypes.PacketState
					err, _ := core.Catch(func() error { out = pk.GetAllPacketCommitmentsByPath(ctx, sName, dName); return nil })
					return out, err
				}, true)
				paged := func(which string) func() ([]packettypes.PacketState, error) {
					return func() ([]packettypes.PacketState, error) {
						var out []packettypes.PacketState
						err, _ := core.Catch(func() error {
							var next []byte
							for page := 0; page < 100; page++ {
								var got []*packettypes.PacketState
								var pr *query.PageResponse
								if which == "commitments" {
									res, err := pk.PacketCommitments(sdk.WrapSDKContext(ctx), &packettypes.QueryPacketCommitmentsRequest{SrcChain: sName, DstChain: dName, Pagination: &query.PageRequest{Key: next, Limit: 5}})
									if err != nil {
										return err
									}
									got, pr = res.Commitments, res.Pagination
								} else {
									res, err := pk.PacketAcknowledgements(sdk.WrapSDKContext(ctx), &packettypes.QueryPacketAcknowledgementsRequest{SrcChain: sName, DstChain: dName, Pagination: &query.PageRequest{Key: next, Limit: 5}})
									if err != nil {
										return err
									}
									got, pr = res.Acknowledgements, res.Pagination
								}
								for _, g := range got {
									out = append(out, *g)
								}
								if pr == nil || len(pr.NextKey) == 0 {
									break
								}
								next = pr.NextKey
							}
							return nil
						})
						return out, err
					}
				}
				if sName != dName {
					comparePacketStates(r, cid, "Query/PacketCommitments", sub(comm), paged("commitments"), true)
					comparePacketStates(r, cid, "Query/PacketAcknowledgements", sub(acks), paged("acks"), true)
				}
			}
		}
		var gotSeqs []packettypes.PacketSequence
		if err, _ := core.Catch(func() error { gotSeqs = pk.GetAllPacketSendSeqs(ctx); return nil }); err != nil {
			r.Violation(cid, "readback/GetAllPacketSendSeqs/panic", map[string]interface{}{"err": err.Error()})
		}
		gs := map[string]uint64{}
		for _, s := range gotSeqs {
			gs[s.SrcChain+"|"+s.DstChain] = s.Sequence
		}
		if !reflect.DeepEqual(gs, seqs) {
			r.Violation(cid, "readback/GetAllPacketSendSeqs/mismatch", map[string]interface{}{"written": seqs, "read": gs})
		}
		r.Count("packet_state_entries_read_back", len(comm)+len(acks)+len(recs)+len(seqs))

		// --- consensus states over all byte patterns, for every client type
		type clientSpec struct {
			name string
			typ  string
		}
		clients := []clientSpec{{core.GenChainName(rng), exported.Tendermint}, {core.GenChainName(rng), exported.BSC}, {core.GenChainName(rng), exported.ETH}}
		// chain names are case sensitive: a second Tendermint client whose name differs from the first one's only in
		// letter case (or, for a name without letters, by one appended letter) has key ranges of its own
		twin := strings.ToUpper(clients[0].name)
		if twin == clients[0].name {
			twin = strings.ToLower(clients[0].name)
		}
		if twin == clients[0].name {
			twin = clients[0].name + "A"
			clients[0].name += "a"
		}
		if host.ClientIdentifierValidator(twin) == nil && host.ClientIdentifierValidator(clients[0].name) == nil {
			clients = append(clients, clientSpec{twin, exported.Tendermint})
		}
		written := map[string]map[string]clienttypes.Height{}
		cons := tmtypes.NewConsensusState(time.Unix(1700000000, 0).UTC(), []byte("root-bytes-0123456789abcdefghijkl"), make([]byte, 32))
		for _, c := range clients {
			heights := map[string]clienttypes.Height{}
			ptWritten := map[string]uint64{} // processed time last written per height
			store := ck.ClientStore(ctx, c.name)
			for i := 0; i < 60; i++ {
				h := core.GenHeight(rng)
				if i%7 == 0 { // make sure the separator byte is exercised in every round
					h.RevisionHeight = h.RevisionHeight&^0xff | 0x2f
				}
				if i == 1 { // 16 height bytes ending in "/clientState": looks like a client-state key to a '/'-splitter
					h = clienttypes.NewHeight(uint64(rng.Uint32())<<32|0x2f636c69, 0x656e745374617465)
				}
				if i == 2 { // 16 height bytes ending in "/processedTime"-like tail
					h = clienttypes.NewHeight(0x2f70726f63657373, 0x656454696d652f2f)
				}
				if i >= 3 && i < 3+len(keyWords) {
					// 16 height bytes that END with (or, every other round, BEGIN with) a word of the client stores' own key
					// vocabulary: such a consensus-state key looks like a key of another kind to suffix / prefix matching
					h = heightSpelling(rng, keyWords[i-3], (round+i)%2 == 0)
				}
				if i == 49 && c.typ != exported.Tendermint {
					// an EVM chain numbers its blocks from 0 (revision 0): the client anchored at its first block keeps a state at 0-0
					h = clienttypes.ZeroHeight()
				}
				if i >= 50 && i < 56 {
					// height bytes that a path cleaner would rewrite: "/x/" vs "//x", "/.." and "/./" inside the 16 raw bytes
					h = clienttypes.NewHeight(uint64(round%3), []uint64{0x2f012f, 0x2f2f01, 0x2f2e2e, 0x012f2e2e, 0x2f2e2f, 0x2e2e2f41}[i-50])
				}
				heights[h.String()] = h
				ck.SetClientConsensusState(ctx, c.name, h, cons)
				if c.typ == exported.Tendermint {
					pt := 1 + uint64(rng.Int63())
					ptWritten[h.String()] = pt
					tmtypes.SetProcessedTime(store, h, pt)
					tmtypes.SetIterationKey(store, h)
				}
				r.Eval(fmt.Sprintf("cons/%s/%s", c.typ, h), true)
			}
			written[c.name] = heights
			// keeper-level iterator
			got := map[string]bool{}
			err, _ := core.Catch(func() error {
				ck.IterateConsensusStates(ctx, func(chain string, cs clienttypes.ConsensusStateWithHeight) bool {
					if chain == c.name {
						got[cs.Height.String()] = true
					}
					return false
				})
				return nil
			})
			reportHeights(r, cid, "ClientKeeper.IterateConsensusStates", heights, got, err)
			// the query service reads the same keys back (paginated)
			gotQ := map[string]bool{}
			err, _ = core.Catch(func() error {
				var next []byte
				for page := 0; page < 50; page++ {
					res, err := ck.ConsensusStates(sdk.WrapSDKContext(ctx), &clienttypes.QueryConsensusStatesRequest{ChainName: c.name, Pagination: &query.PageRequest{Key: next, Limit: 7}})
					if err != nil {
						return err
					}
					for _, cs := range res.ConsensusStates {
						gotQ[cs.Height.String()] = true
					}
					if res.Pagination == nil || len(res.Pagination.NextKey) == 0 {
						break
					}
					next = res.Pagination.NextKey
				}
				return nil
			})
			reportHeights(r, cid, "Query/ConsensusStates", heights, gotQ, err)
			// per-type iterators
			switch c.typ {
			case exported.Tendermint:
				got := map[string]bool{}
				var order []exported.Height
				err, _ := core.Catch(func() error {
					tmtypes.IterateConsensusStateAscending(store, func(h exported.Height) bool { got[h.String()] = true; order = append(order, h); return false })
					return nil
				})
				reportHeights(r, cid, "tendermint.IterateConsensusStateAscending", heights, got, err)
				for i := 1; i < len(order); i++ {
					if !order[i-1].LT(order[i]) {
						r.Violation(cid, "readback/tendermint.IterateConsensusStateAscending/not-ascending", map[string]interface{}{"a": order[i-1].String(), "b": order[i].String()})
						break
					}
				}
				gotPT := map[string]bool{}
				err, _ = core.Catch(func() error {
					tmtypes.IterateProcessedTime(store, func(key, val []byte) bool {
						// the stored key is read back by its documented layout ("consensusStates/" + 16 raw big-endian bytes +
						// "/processedTime"), not through the builder that wrote it
						known := false
						const pre, suf = "consensusStates/", "/processedTime"
						if len(key) == len(pre)+16+len(suf) && bytes.HasPrefix(key, []byte(pre)) && bytes.HasSuffix(key, []byte(suf)) {
							ph := clienttypes.NewHeight(binary.BigEndian.Uint64(key[len(pre):]), binary.BigEndian.Uint64(key[len(pre)+8:]))
							if _, ok := heights[ph.String()]; ok {
								gotPT[ph.String()] = true
								known = true
							}
						}
						if !known {
							r.Violation(cid, "readback/tendermint.IterateProcessedTime/returned-a-key-that-is-not-a-processed-time-key", map[string]interface{}{"key": core.Hex(key), "value_len": len(val)})
						}
						return false
					})
					return nil
				})
				reportHeights(r, cid, "tendermint.IterateProcessedTime", heights, gotPT, err)
				// two different heights never share a processed-time entry: each reads back the value written for it
				for hs, want := range ptWritten {
					if got, ok := tmtypes.GetProcessedTime(store, heights[hs]); !ok || got != want {
						r.Violation(cid, "readback/tendermint.GetProcessedTime/not-the-value-written-for-this-height", map[string]interface{}{"height": hs, "written": want, "read": got, "found": ok})
						break
					}
				}
				// the iteration entry of every height still holds that height's consensus-state key after all the others were written
				for _, h := range heights {
					want := append([]byte("consensusStates/"), make([]byte, 16)...)
					binary.BigEndian.PutUint64(want[16:], h.RevisionNumber)
					binary.BigEndian.PutUint64(want[24:], h.RevisionHeight)
					if got := tmtypes.GetIterationKey(store, h); !bytes.Equal(got, want) {
						r.Violation(cid, "readback/tendermint.GetIterationKey/entry-holds-the-key-of-another-height", map[string]interface{}{"height": h.String(), "want": core.Hex(want), "got": core.Hex(got)})
						break
					}
				}
			case exported.BSC:
				got := map[string]bool{}
				err, _ := core.Catch(func() error {
					bsctypes.IterateConsensusStateAscending(store, func(h exported.Height) bool { got[h.String()] = true; return false })
					return nil
				})
				reportHeights(r, cid, "bsc.IterateConsensusStateAscending", heights, got, err)
				// recent signers keyed by height
				signers := map[string]clienttypes.Height{}
				for i := 0; i < 20; i++ {
					h := core.GenHeight(rng)
					signers[h.String()] = h
					bsctypes.SetSigner(store, bsctypes.Signer{Height: h, Validator: []byte{byte(i), 2, 3}})
				}
				gotS := map[string]bool{}
				err, _ = core.Catch(func() error {
					rs, e := bsctypes.GetRecentSigners(store)
					for _, s := range rs {
						gotS[s.Height.String()] = true
					}
					return e
				})
				reportHeights(r, cid, "bsc.GetRecentSigners", signers, gotS, err)
			case exported.ETH:
				got := map[string]bool{}
				err, _ := core.Catch(func() error {
					ethtypes.IterateConsensusStateAscending(store, func(h exported.Height) bool { got[h.String()] = true; return false })
					return nil
				})
				reportHeights(r, cid, "eth.IterateConsensusStateAscending", heights, got, err)
			}
		}
		// the grouped view (what genesis export is made from): every chain with exactly its own heights
		var grouped clienttypes.ClientsConsensusStates
		if err, _ := core.Catch(func() error { grouped = ck.GetAllConsensusStates(ctx); return nil }); err != nil {
			r.Violation(cid, "readback/GetAllConsensusStates/panic", map[string]interface{}{"err": err.Error()})
		}
		seenChain := map[string]bool{}
		for _, g := range grouped {
			w, mine := written[g.ChainName]
			if !mine {
				continue
			}
			seenChain[g.ChainName] = true
			got := map[string]bool{}
			for _, cs := range g.ConsensusStates {
				got[cs.Height.String()] = true
			}
			if len(got) != len(w) {
				r.Violation(cid, "readback/GetAllConsensusStates/chain-read-back-with-other-heights", map[string]interface{}{"chain": g.ChainName, "written": len(w), "read": len(got)})
			}
			reportHeights(r, cid, "GetAllConsensusStates", w, got, nil)
		}
		for name := range written {
			if !seenChain[name] {
				r.Violation(cid, "readback/GetAllConsensusStates/chain-missing", map[string]interface{}{"chain": name})
			}
		}
		// client iterator
		for _, c := range clients {
			ck.SetClientState(ctx, c.name, tmtypes.NewClientState("x-1", tmtypes.DefaultTrustLevel, time.Hour, 2*time.Hour, time.Second, clienttypes.NewHeight(1, 5), nil, commitmenttypes.MerklePrefix{KeyPrefix: []byte("xibc")}, 0))
		}
		gotClients := map[string]bool{}
		err, _ := core.Catch(func() error {
			ck.IterateClients(ctx, func(name string, _ exported.ClientState) bool { gotClients[name] = true; return false })
			return nil
		})
		if err != nil {
			r.Violation(cid, "readback/IterateClients/panic", map[string]interface{}{"err": err.Error()})
		}
		for _, c := range clients {
			if !gotClients[c.name] {
				r.Violation(cid, "readback/IterateClients/lost", map[string]interface{}{"client": c.name})
			}
		}
		if len(gotClients) != len(clients) {
			r.Violation(cid, "readback/IterateClients/extra", map[string]interface{}{"read": fmt.Sprint(gotClients)})
		}
		if round == 0 {
			r.Sample(map[string]interface{}{"kind": "readback", "clients": fmt.Sprint(clients), "names": names})
		}
		_ = sdk.Context{}
	}
}

func comparePacketStates(r *core.Run, cid, name string, written map[string]tripleRec, read func() ([]packettypes.PacketState, error), withValue bool) {
	got, err := read()
	if err != nil {
		r.Violation(cid, "readback/"+name+"/panic", map[string]interface{}{"err": err.Error()})
		return
	}
	seen := map[string]bool{}
	for _, g := range got {
		k := fmt.Sprintf("%s|%s|%d", g.SrcChain, g.DstChain, g.Sequence)
		w, ok := written[k]
		if !ok {
			r.Violation(cid, "readback/"+name+"/read-unwritten", map[string]interface{}{"read": k})
			continue
		}
		if withValue && !bytes.Equal(w.V, g.Data) {
			r.Violation(cid, "readback/"+name+"/value-mismatch", map[string]interface{}{"key": k})
		}
		seen[k] = true
	}
	for k := range written {
		if !seen[k] {
			r.Violation(cid, "readback/"+name+"/lost", map[string]interface{}{"written": k})
		}
	}
	for k := range written {
		r.Eval(name+"/"+k, true)
	}
}

func reportHeights(r *core.Run, cid, iter string, written map[string]clienttypes.Height, got map[string]bool, err error) {
	if err != nil {
		r.Violation(cid, "readback/"+iter+"/panic", map[string]interface{}{"err": err.Error()})
		return
	}
	r.Count("heights_read_back/"+iter, len(got))
	var lostSep, lostOther []string
	for k, h := range written {
		if got[k] {
			continue
		}
		if core.HasByte(h, 0x2f) {
			lostSep = append(lostSep, k)
		} else {
			lostOther = append(lostOther, k)
		}
	}
	sort.Strings(lostSep)
	sort.Strings(lostOther)
	if len(lostSep) > 0 {
		r.Violation(cid, "readback/"+iter+"/lost-height-containing-byte-0x2f", map[string]interface{}{"lost": lostSep})
	}
	if len(lostOther) > 0 {
		r.Violation(cid, "readback/"+iter+"/lost-height", map[string]interface{}{"lost": lostOther})
	}
	for k := range got {
		if _, ok := written[k]; !ok {
			r.Violation(cid, "readback/"+iter+"/read-unwritten-height", map[string]interface{}{"read": k})
		}
	}
}

// keyWords: the vocabulary of the light clients' store keys (at most 16 bytes each, the size of an encoded height).
var keyWords = []string{"/processedTime", "/clientState", "clientState", "processedTime", "consensusStates/", "/consensusStates", "recentSingers/", "iterateConsensus", "/"}

// heightSpelling returns a height whose 16 encoded bytes end (tail) or begin with word; the rest is random.
func heightSpelling(rng *rand.Rand, word string, tail bool) clienttypes.Height {
	b := make([]byte, 16)
	rng.Read(b)
	if tail {
		copy(b[16-len(word):], word)
	} else {
		copy(b, word)
	}
	return clienttypes.NewHeight(binary.BigEndian.Uint64(b[:8]), binary.BigEndian.Uint64(b[8:]))
}

func minI(a, b int) int {
	if a < b {
		return a
	}
	return b
}
