package c13

// Sealing of BSC (Parlia) headers written from the Parlia specification (as in
// the C09 monitor): the signed hash covers the chain id followed by the header
// fields with the extra data cut before its last 65 bytes.

import (
	"crypto/ecdsa"
	"math/big"
	"math/rand"

	"github.com/ethereum/go-ethereum/common"
	"github.com/ethereum/go-ethereum/crypto"
	"github.com/ethereum/go-ethereum/rlp"

	bsctypes "github.com/teleport-network/teleport/x/xibc/clients/light-clients/bsc/types"
	clienttypes "github.com/teleport-network/teleport/x/xibc/core/client/types"
)

const (
	vanityLen = 32
	sealLen   = 65
)

var emptyUncle = crypto.Keccak256Hash([]byte{0xc0})

type bscVal struct {
	key  *ecdsa.PrivateKey
	addr common.Address
}

func newBscVal(rng *rand.Rand) *bscVal {
	for {
		b := make([]byte, 32)
		rng.Read(b)
		k, err := crypto.ToECDSA(b)
		if err == nil {
			return &bscVal{key: k, addr: crypto.PubkeyToAddress(k.PublicKey)}
		}
	}
}

func bloomArr(b []byte) (out [256]byte) {
	if len(b) > 256 {
		b = b[len(b)-256:]
	}
	copy(out[256-len(b):], b)
	return
}

func nonceArr(b []byte) (out [8]byte) {
	if len(b) > 8 {
		b = b[len(b)-8:]
	}
	copy(out[8-len(b):], b)
	return
}

func bscSealHash(h *bsctypes.Header, chainID uint64) common.Hash {
	fields := []interface{}{
		new(big.Int).SetUint64(chainID),
		common.BytesToHash(h.ParentHash), common.BytesToHash(h.UncleHash), common.BytesToAddress(h.Coinbase),
		common.BytesToHash(h.Root), common.BytesToHash(h.TxHash), common.BytesToHash(h.ReceiptHash),
		bloomArr(h.Bloom), new(big.Int).SetBytes(h.Difficulty), new(big.Int).SetUint64(h.Height.RevisionHeight),
		h.GasLimit, h.GasUsed, h.Time, h.Extra[:len(h.Extra)-sealLen], common.BytesToHash(h.MixDigest), nonceArr(h.Nonce),
	}
	bz, err := rlp.EncodeToBytes(fields)
	if err != nil {
		panic(err)
	}
	return crypto.Keccak256Hash(bz)
}

func rnd(rng *rand.Rand, n int) []byte {
	b := make([]byte, n)
	rng.Read(b)
	return b
}

// sealedBscHeader builds a header at `height` that lists `list` as the next
// validator set and is sealed by `signer`.
func sealedBscHeader(rng *rand.Rand, chainID uint64, height clienttypes.Height, list []common.Address, signer *bscVal) *bsctypes.Header {
	extra := make([]byte, 0, vanityLen+20*len(list)+sealLen)
	extra = append(extra, rnd(rng, vanityLen)...)
	for _, a := range list {
		extra = append(extra, a[:]...)
	}
	extra = append(extra, make([]byte, sealLen)...)
	h := &bsctypes.Header{
		ParentHash: rnd(rng, 32), UncleHash: emptyUncle[:], Coinbase: signer.addr[:], Root: rnd(rng, 32), TxHash: rnd(rng, 32), ReceiptHash: rnd(rng, 32),
		Bloom: rnd(rng, 256), Difficulty: []byte{byte(1 + rng.Intn(2))}, Height: height,
		GasLimit: 30000000 + uint64(rng.Intn(1<<20)), GasUsed: uint64(rng.Intn(30000000)), Time: 1640995200 + uint64(rng.Intn(1<<20)),
		Extra: extra, MixDigest: make([]byte, 32), Nonce: make([]byte, 8),
	}
	sh := bscSealHash(h, chainID)
	sig, err := crypto.Sign(sh[:], signer.key)
	if err != nil {
		panic(err)
	}
	copy(h.Extra[len(h.Extra)-sealLen:], sig)
	return h
}
