// Package c13 monitors C13: exporting the state of the XIBC, aggregate and
// reward-vesting modules and initialising a fresh chain from that export
// reproduces the same module state; the export passes the modules' own genesis
// validation; exporting the re-imported state yields the same genesis again.
//
// Workload (one evaluated case = one module state that was exported):
//   - "direct": a fresh deterministic chain populated through the real keeper
//     entry points (CreateClient / UpdateClient / UpgradeClient / ToggleClient,
//     HandleRegisterRelayer, packet setters, registry setters, parameter
//     updates) with generated contents – all four client types, heights and
//     revision numbers over all byte patterns, key look-alike chain names,
//     boundary sequences, multi-denomination pairs, hostile reward lists;
//   - "world": every chain of a three-chain relay history (pkt.Sim: real sends,
//     receives, acks, client updates) at several points of the history;
//   - "agg": a chain whose token-pair registry was produced by a governance
//     history (RegisterCoin / AddCoin / RegisterERC20 / Toggle / UpdateERC20).
//
// Oracle (differential, at the boundary): raw dumps of the xibc and aggregate
// stores and of the aggregate / rvesting / xibc parameter subspaces, taken from
// the committed state; `ExportAppStateAndValidators` (what `teleport export`
// runs) → the three modules' own ValidateGenesis must accept → a fresh chain is
// started with exactly these three genesis sections → raw dumps after InitChain
// must be key-for-key, byte-for-byte equal → after one block the fresh chain is
// exported again and the three sections must be identical JSON.
package c13

import (
	"bytes"
	"encoding/json"
	"fmt"
	"regexp"
	"sort"
	"strings"
	"testing"
	"time"

	tmproto "github.com/tendermint/tendermint/proto/tendermint/types"

	"github.com/cosmos/cosmos-sdk/simapp"
	sdk "github.com/cosmos/cosmos-sdk/types"

	"github.com/teleport-network/teleport/app"
	bsctypes "github.com/teleport-network/teleport/x/xibc/clients/light-clients/bsc/types"
	ethtypes "github.com/teleport-network/teleport/x/xibc/clients/light-clients/eth/types"
	tmtypes "github.com/teleport-network/teleport/x/xibc/clients/light-clients/tendermint/types"
	tsstypes "github.com/teleport-network/teleport/x/xibc/clients/tss-client/types"
	clienttypes "github.com/teleport-network/teleport/x/xibc/core/client/types"
	"github.com/teleport-network/teleport/x/xibc/core/host"
	"github.com/teleport-network/teleport/x/xibc/exported"
	xibctypes "github.com/teleport-network/teleport/x/xibc/types"

	"verif/harness/core"
)

var modules = []string{"xibc", "aggregate", "rvesting"}

func TestC13(t *testing.T) {
	r := core.NewRun(t, "C13")
	r.Rule = "one case = one committed module state that was exported, validated, imported into a fresh chain and exported again. " +
		"States: (direct) fresh chain populated through CreateClient/UpdateClient/UpgradeClient/ToggleClient, HandleRegisterRelayer, packet and registry setters, parameter updates with generated contents " +
		"(Tendermint/BSC/ETH/TSS clients, heights and revision numbers over all byte patterns incl. forced 0x00/0x2f/0xff and key look-alikes, toggled and upgraded clients, BSC/ETH/TM metadata, relayers with odd addresses, boundary sequences, multi-denomination pairs, hostile reward lists); " +
		"(world) each chain of a 3-chain relay history at several points; (agg) registries produced by governance histories. " +
		"Distinct = hash of the raw dumps of the exported state; non-trivial = the export succeeded, held non-default content and InitChain of the fresh chain was reached."
	r.Assume("strings that governance content can carry (relayer addresses on other chains) are valid UTF-8")
	r.Assume("EVM contract storage, bank balances/metadata and accounts belong to other modules' genesis sections and are not compared")
	r.Assume("states are reachable ones: sequence 0 and nil/empty commitment, ack and receipt values are never written by the keepers and are not generated")
	defer r.Finish()

	nDirect, nWorld, nAgg := r.N(66, 2200), r.N(2, 40), r.N(6, 240)
	r.MinNontrivial(r.N(45, 1500))

	for i := 0; i < nDirect; i++ {
		cid := fmt.Sprintf("direct/%d", i)
		if !r.Want(cid) {
			continue
		}
		guard(r, cid, func() { directCase(r, cid, i) })
	}
	for i := 0; i < nWorld; i++ {
		cid := fmt.Sprintf("world/%d", i)
		if !r.Want(cid) {
			continue
		}
		guard(r, cid, func() { worldCase(r, cid) })
	}
	for i := 0; i < nAgg; i++ {
		cid := fmt.Sprintf("agg/%d", i)
		if !r.Want(cid) {
			continue
		}
		guard(r, cid, func() { aggCase(r, cid) })
	}
}

// guard keeps a panic of the harness itself from ending the monitor without a verdict.
func guard(r *core.Run, cid string, f func()) {
	defer func() {
		if rec := recover(); rec != nil {
			r.Inconclusive("%s: harness panic: %v", cid, rec)
		}
	}()
	f()
}

// ---------------------------------------------------------------- observation

type dump struct {
	Stores map[string]core.KV // "xibc", "aggregate", "params/aggregate", "params/rvesting", "params/xibc"
}

var dumpNames = []string{"xibc", "aggregate", "params/aggregate", "params/rvesting", "params/xibc"}

func takeDump(n *core.Node, ctx sdk.Context) *dump {
	d := &dump{Stores: map[string]core.KV{}}
	d.Stores["xibc"] = n.DumpStore(ctx, "xibc")
	d.Stores["aggregate"] = n.DumpStore(ctx, "aggregate")
	for _, sub := range []string{"aggregate", "rvesting", "xibc"} {
		d.Stores["params/"+sub] = n.DumpPrefix(ctx, "params", []byte(sub+"/"))
	}
	return d
}

func (d *dump) digest() string {
	var sb strings.Builder
	for _, s := range dumpNames {
		sb.WriteString(s + "=" + d.Stores[s].Digest() + ";")
	}
	return sb.String()
}

func (d *dump) size() int {
	n := 0
	for _, kv := range d.Stores {
		n += len(kv)
	}
	return n
}

// committedCtx is a read-only context over the last committed state (the state
// `teleport export` sees).
func committedCtx(n *core.Node) sdk.Context {
	return n.App.BaseApp.NewContext(true, tmproto.Header{Height: n.App.LastBlockHeight(), ChainID: n.ChainID})
}

// exportSections runs the application export and returns the three sections.
func exportSections(n *core.Node) (map[string]json.RawMessage, error) {
	var out map[string]json.RawMessage
	err, _ := core.Catch(func() error {
		exp, err := n.App.ExportAppStateAndValidators(false, nil)
		if err != nil {
			return err
		}
		var all map[string]json.RawMessage
		if err := json.Unmarshal(exp.AppState, &all); err != nil {
			return err
		}
		out = map[string]json.RawMessage{}
		for _, m := range modules {
			raw, ok := all[m]
			if !ok {
				return fmt.Errorf("export has no section %q", m)
			}
			var buf bytes.Buffer
			if err := json.Compact(&buf, raw); err != nil {
				return err
			}
			out[m] = buf.Bytes()
		}
		return nil
	})
	return out, err
}

// clientKinds maps every client of the dumped chain to the type of its current client state.
func clientKinds(n *core.Node, ctx sdk.Context) map[string]string {
	out := map[string]string{}
	_, _ = core.Catch(func() error {
		n.App.XIBCKeeper.ClientKeeper.IterateClients(ctx, func(name string, cs exported.ClientState) bool {
			out[name] = cs.ClientType()
			return false
		})
		return nil
	})
	return out
}

// info is what the generator knows about the state (evidence + violation detail only).
type info struct {
	Class    string   `json:"class"`
	Features []string `json:"features"`
	Ops      []string `json:"ops,omitempty"`
}

func (in *info) feat(f string) {
	for _, x := range in.Features {
		if x == f {
			return
		}
	}
	in.Features = append(in.Features, f)
}

func (in *info) op(format string, a ...interface{}) {
	if len(in.Ops) < 80 {
		in.Ops = append(in.Ops, fmt.Sprintf(format, a...))
	}
}

var freshCounter int

// roundTrip is the oracle. n must not be inside a block, or – for world nodes,
// which are always inside one – must have just been rolled: only the committed
// state is read.
func roundTrip(r *core.Run, cid string, n *core.Node, in *info) { roundTripAt(r, cid, cid, n, in) }

// roundTripAt: cid is the replayable case, label names the exported state inside it.
func roundTripAt(r *core.Run, cid, label string, n *core.Node, in *info) {
	ctx := committedCtx(n)
	orig := takeDump(n, ctx)
	kinds := clientKinds(n, ctx)
	detail := func(extra map[string]interface{}) map[string]interface{} {
		m := map[string]interface{}{"state": label, "class": in.Class, "features": in.Features, "ops": in.Ops, "chain": n.Name, "entries": orig.size()}
		for k, v := range extra {
			m[k] = v
		}
		return m
	}
	r.Count("states/"+in.Class, 1)
	for _, f := range in.Features {
		r.Count("feature/"+f, 1)
	}
	for _, k := range kinds {
		r.Count("clients_exported/"+k, 1)
	}
	r.Count("entries_exported/xibc", len(orig.Stores["xibc"]))
	for k := range orig.Stores["xibc"] {
		if strings.HasPrefix(classifyXIBCKey(k, kinds), "consensus-state/") {
			hb := k[len(k)-16:]
			r.Count("consensus_heights_exported", 1)
			if strings.IndexByte(hb, 0x2f) >= 0 {
				r.Count("consensus_heights_exported/containing-0x2f", 1)
			}
			if hb[8]&0x80 != 0 || hb[0]&0x80 != 0 {
				r.Count("consensus_heights_exported/revision-or-height-above-2^63", 1)
			}
		}
	}
	r.Count("entries_exported/aggregate", len(orig.Stores["aggregate"]))

	// 1. export (exactly what `teleport export` runs)
	sec, err := exportSections(n)
	if err != nil {
		r.Eval(label+"/"+orig.digest(), false)
		r.Violation(cid, "export/fails/"+normMsg(err.Error()), detail(map[string]interface{}{"err": trunc(err.Error(), 400)}))
		return
	}
	r.Count("exports", 1)

	// 2. the modules' own validation
	cdc := n.App.AppCodec()
	for _, m := range modules {
		var verr error
		perr, panicked := core.Catch(func() error {
			verr = app.ModuleBasics[m].ValidateGenesis(cdc, n.TxConfig, sec[m])
			return nil
		})
		if panicked {
			verr = perr
		}
		if verr == nil {
			r.Count("validate_ok/"+m, 1)
			continue
		}
		r.Count("validate_failed/"+m, 1)
		key := "validate/" + m + "/" + normMsg(verr.Error())
		if m == "xibc" {
			key = "validate/xibc/" + explainXIBC(n, sec[m], verr)
		}
		r.Violation(cid, key, detail(map[string]interface{}{"err": trunc(verr.Error(), 500)}))
	}

	// 3. a fresh chain started from the exported sections
	freshCounter++
	var fresh *core.Node
	ierr, _ := core.Catch(func() error {
		fresh = core.NewNode(core.NodeConfig{
			ChainID: "teleport_9000-77", XIBCName: "fresh-default", Accounts: []*core.Account{core.NewAccount("fresh-a")},
			GenesisTime: time.Date(2023, 3, 4, 5, 6, 7, 0, time.UTC),
			MutateGenesis: func(_ *app.Teleport, gs simapp.GenesisState) {
				for _, m := range modules {
					gs[m] = append(json.RawMessage{}, sec[m]...)
				}
			},
		})
		return nil
	})
	nontrivial := orig.size() > 6
	if ierr != nil {
		r.Eval(label+"/"+orig.digest(), nontrivial)
		r.Violation(cid, "import/initchain-fails/"+normMsg(ierr.Error()), detail(map[string]interface{}{"err": trunc(ierr.Error(), 500)}))
		return
	}
	r.Eval(label+"/"+orig.digest(), nontrivial)
	r.Count("imports", 1)

	// 4. raw comparison right after InitChain (deliver state of the genesis)
	gctx := fresh.App.BaseApp.NewContext(false, tmproto.Header{Height: 1, ChainID: fresh.ChainID, Time: fresh.Cfg.GenesisTime})
	got := takeDump(fresh, gctx)
	compareDumps(r, cid, "roundtrip", orig, got, kinds, detail)

	// 5. first block of the fresh chain, export again
	var sec2 map[string]json.RawMessage
	berr, _ := core.Catch(func() error {
		fresh.Begin(fresh.Cfg.GenesisTime.Add(5 * time.Second))
		fresh.End()
		return nil
	})
	if berr != nil {
		r.Violation(cid, "import/first-block-fails/"+normMsg(berr.Error()), detail(map[string]interface{}{"err": trunc(berr.Error(), 500)}))
		return
	}
	after := takeDump(fresh, committedCtx(fresh))
	if d := diffDumps(got, after); len(d) > 0 {
		// not the export's fault, but it would invalidate the re-export comparison: tell apart
		r.Count("first_block_changed_module_state", 1)
		in.feat("first-block-changed-state")
	}
	sec2, err = exportSections(fresh)
	if err != nil {
		r.Violation(cid, "reexport/fails/"+normMsg(err.Error()), detail(map[string]interface{}{"err": trunc(err.Error(), 400)}))
		return
	}
	for _, m := range modules {
		if !bytes.Equal(sec[m], sec2[m]) {
			r.Count("reexport_differs/"+m, 1)
			r.Violation(cid, "reexport/"+m+"/differs/"+firstJSONDiff(sec[m], sec2[m]), detail(map[string]interface{}{
				"first": trunc(string(sec[m]), 300), "second": trunc(string(sec2[m]), 300)}))
		} else {
			r.Count("reexport_identical/"+m, 1)
		}
	}
	if freshCounter <= 3 {
		r.Sample(map[string]interface{}{"case": label, "class": in.Class, "features": in.Features, "chain": n.Name,
			"xibc_entries": len(orig.Stores["xibc"]), "aggregate_entries": len(orig.Stores["aggregate"]), "clients": kinds,
			"xibc_genesis_bytes": len(sec["xibc"]), "rvesting_genesis": trunc(string(sec["rvesting"]), 200)})
	}
}

func diffDumps(a, b *dump) []core.DiffEntry {
	var out []core.DiffEntry
	for _, s := range dumpNames {
		out = append(out, core.Diff(s, a.Stores[s], b.Stores[s])...)
	}
	return out
}

// compareDumps reports one violation per (store, operation, kind of key).
func compareDumps(r *core.Run, cid, what string, orig, got *dump, kinds map[string]string, detail func(map[string]interface{}) map[string]interface{}) {
	type group struct {
		n       int
		example []core.DiffEntry
	}
	groups := map[string]*group{}
	total := 0
	for _, s := range dumpNames {
		a, b := orig.Stores[s], got.Stores[s]
		keys := map[string]struct{}{}
		for k := range a {
			keys[k] = struct{}{}
		}
		for k := range b {
			keys[k] = struct{}{}
		}
		for k := range keys {
			av, aok := a[k]
			bv, bok := b[k]
			op := ""
			switch {
			case aok && !bok:
				op = "lost"
			case !aok && bok:
				op = "added"
			case !bytes.Equal(av, bv):
				op = "changed"
			default:
				continue
			}
			total++
			kind := s
			switch s {
			case "xibc":
				kind = classifyXIBCKey(k, kinds)
			case "aggregate":
				kind = classifyAggKey(k)
			default:
				kind = "param-" + strings.TrimPrefix(k, strings.TrimPrefix(s, "params/")+"/")
			}
			gk := fmt.Sprintf("%s/%s/%s/%s", what, s, op, kind)
			g := groups[gk]
			if g == nil {
				g = &group{}
				groups[gk] = g
			}
			g.n++
			if len(g.example) < 3 {
				g.example = append(g.example, core.Diff(s, core.KV{k: av}, core.KV{k: bv})...)
				if !aok {
					g.example[len(g.example)-1] = core.DiffEntry{Store: s, Key: printable(k), New: core.Hex(bv), Op: "add"}
				} else if !bok {
					g.example[len(g.example)-1] = core.DiffEntry{Store: s, Key: printable(k), Old: core.Hex(av), Op: "del"}
				}
			}
		}
		r.Count("entries_compared/"+s, len(keys))
	}
	if total == 0 {
		r.Count(what+"_identical", 1)
		return
	}
	r.Count(what+"_differs", 1)
	gks := make([]string, 0, len(groups))
	for k := range groups {
		gks = append(gks, k)
	}
	sort.Strings(gks)
	for _, gk := range gks {
		g := groups[gk]
		r.Count("diff/"+gk, g.n)
		r.Violation(cid, gk, detail(map[string]interface{}{"entries": g.n, "examples": g.example}))
	}
}

func printable(k string) string {
	for _, c := range []byte(k) {
		if c < 0x20 || c > 0x7e {
			return "0x" + core.Hex([]byte(k))
		}
	}
	return k
}

// classifyXIBCKey names the kind of a raw xibc store key. Chain names cannot
// contain '/', so the client name ends at the first '/' after "clients/".
func classifyXIBCKey(k string, kinds map[string]string) string {
	switch {
	case k == clienttypes.KeyClientName:
		return "chain-name"
	case strings.HasPrefix(k, "clients/"):
		rest := k[len("clients/"):]
		i := strings.IndexByte(rest, '/')
		if i < 0 {
			return "client-store-other"
		}
		name, sub := rest[:i], rest[i+1:]
		cur := kindOr(kinds[name], "no")
		under := "/under-" + cur + "-client"
		cp := host.KeyConsensusStatePrefix + "/"
		// metadata written by a client type other than the client's current one can
		// only be what a toggled client left behind: one signature per old type
		meta := func(family, kind string) string {
			if family != cur {
				return "toggled-client-residue/" + family + "-metadata"
			}
			return kind
		}
		switch {
		case sub == host.KeyClientState:
			return "client-state" + under
		case strings.HasPrefix(sub, cp) && len(sub) == len(cp)+16:
			return "consensus-state" + under
		case strings.HasPrefix(sub, cp) && len(sub) == len(cp)+16+len(tmtypes.KeyProcessedTime) && strings.HasSuffix(sub, string(tmtypes.KeyProcessedTime)):
			return meta(exported.Tendermint, "tm-processed-time")
		case strings.HasPrefix(sub, tmtypes.KeyIterateConsensusStatePrefix):
			return meta(exported.Tendermint, "tm-iteration-key")
		case strings.HasPrefix(sub, bsctypes.PrefixKeyRecentSingers):
			return meta(exported.BSC, "bsc-recent-signer")
		case strings.HasPrefix(sub, bsctypes.PrefixPendingValidators):
			return meta(exported.BSC, "bsc-pending-validators")
		case strings.HasPrefix(sub, ethtypes.KeyIndexEthHeaderPrefix):
			return meta(exported.ETH, "eth-header-index")
		case strings.HasPrefix(sub, ethtypes.KeyMainRootPrefix):
			return meta(exported.ETH, "eth-root-main")
		}
		return "client-store-other" + under
	case strings.HasPrefix(k, clienttypes.KeyRelayers):
		return "relayer"
	case strings.HasPrefix(k, host.KeyNextSeqSendPrefix+"/"):
		return "next-sequence-send"
	case strings.HasPrefix(k, host.KeyPacketCommitmentPrefix+"/"):
		return "packet-commitment"
	case strings.HasPrefix(k, host.KeyPacketAckPrefix+"/"):
		return "packet-ack"
	case strings.HasPrefix(k, host.KeyPacketReceiptPrefix+"/"):
		return "packet-receipt"
	case strings.HasPrefix(k, host.KeyPacketRelayerPrefix+"/"):
		return "packet-relayer"
	}
	return "other"
}

func kindOr(s, d string) string {
	if s == "" {
		return d
	}
	return s
}

func classifyAggKey(k string) string {
	if len(k) == 0 {
		return "other"
	}
	switch k[0] {
	case 1:
		return "token-pair"
	case 2:
		return "erc20-index"
	case 3:
		return "denom-index"
	}
	return "other"
}

// ---------------------------------------------------------------- labelling of validation failures

func consKind(cs exported.ConsensusState) string {
	switch cs.(type) {
	case *tmtypes.ConsensusState:
		return exported.Tendermint
	case *bsctypes.ConsensusState:
		return exported.BSC
	case *ethtypes.ConsensusState:
		return exported.ETH
	case *tsstypes.ConsensusState:
		return exported.TSS
	}
	return fmt.Sprintf("%T", cs)
}

// explainXIBC walks the exported genesis in the order of GenesisState.Validate
// and names the first condition that does not hold. It only labels a failure
// that the module's own validation reported; it never produces one.
func explainXIBC(n *core.Node, raw json.RawMessage, verr error) string {
	var gs xibctypes.GenesisState
	if err := n.App.AppCodec().UnmarshalJSON(raw, &gs); err != nil {
		return "undecodable/" + normMsg(err.Error())
	}
	cg := gs.ClientGenesis
	types := map[string]string{}
	for _, c := range cg.Clients {
		cs, ok := c.ClientState.GetCachedValue().(exported.ClientState)
		if !ok {
			return "client-state-not-unpacked"
		}
		if host.ClientIdentifierValidator(c.ChainName) != nil {
			return "client-name-invalid"
		}
		if err := cs.Validate(); err != nil {
			return "client-state-invalid/" + cs.ClientType() + "/" + normMsg(err.Error())
		}
		types[c.ChainName] = cs.ClientType()
	}
	for _, cc := range cg.ClientsConsensus {
		ct, ok := types[cc.ChainName]
		if !ok {
			return "consensus-states-without-client"
		}
		for _, c := range cc.ConsensusStates {
			cs, ok := c.ConsensusState.GetCachedValue().(exported.ConsensusState)
			if c.Height.IsZero() {
				k := "?"
				if ok {
					k = consKind(cs)
				}
				_ = k
				return "consensus-state-at-zero-height/under-" + ct + "-client"
			}
			if !ok {
				return "consensus-state-not-unpacked"
			}
			if err := cs.ValidateBasic(); err != nil {
				return "consensus-state-invalid/" + consKind(cs) + "/" + normMsg(err.Error())
			}
			if ct != cs.ClientType() {
				if consKind(cs) == ct {
					// the consensus state IS of the client's type but reports another one
					return ct + "-consensus-state-reports-client-type-" + cs.ClientType()
				}
				return "toggled-client-keeps-consensus-states-of-old-type"
			}
		}
	}
	for _, md := range cg.ClientsMetadata {
		if _, ok := types[md.ChainName]; !ok {
			return "metadata-without-client"
		}
		for _, gm := range md.Metadata {
			if err := gm.Validate(); err != nil {
				kind := classifyXIBCKey("clients/"+md.ChainName+"/"+string(gm.Key), types)
				return "client-metadata-invalid/" + kind + "/" + normMsg(err.Error())
			}
		}
	}
	if err := host.ClientIdentifierValidator(cg.NativeChainName); err != nil {
		return "native-chain-name-invalid"
	}
	if err := gs.PacketGenesis.Validate(); err != nil {
		return "packet-genesis/" + normMsg(err.Error())
	}
	return "unexplained/" + normMsg(verr.Error())
}

var (
	reHex    = regexp.MustCompile(`0x[0-9a-fA-F]+|[0-9a-fA-F]{16,}`)
	reNum    = regexp.MustCompile(`[0-9]+`)
	reQuoted = regexp.MustCompile(`"[^"]*"|'[^']*'`)
	reNonKey = regexp.MustCompile(`[^a-zA-Z0-9#._-]+`)
)

// normMsg turns an error message into a stable signature fragment: the part of
// the message that does not depend on generated values.
func normMsg(s string) string {
	s = strings.TrimPrefix(s, "PANIC: ")
	// messages of the form "invalid X {...generated...} index N: reason": keep head and reason
	if i := strings.Index(s, "{"); i >= 0 {
		if j := strings.LastIndex(s, "}"); j > i {
			s = s[:i] + s[j+1:]
		}
	}
	s = reQuoted.ReplaceAllString(s, "Q")
	s = reHex.ReplaceAllString(s, "H")
	s = reNum.ReplaceAllString(s, "N")
	s = reNonKey.ReplaceAllString(s, "-")
	s = strings.Trim(s, "-")
	if len(s) > 90 {
		s = s[:90]
	}
	return s
}

func trunc(s string, n int) string {
	if len(s) > n {
		return s[:n] + "..."
	}
	return s
}

// firstJSONDiff names the top-level (and one level below) field in which two
// JSON objects differ.
func firstJSONDiff(a, b []byte) string {
	var ma, mb map[string]json.RawMessage
	if json.Unmarshal(a, &ma) != nil || json.Unmarshal(b, &mb) != nil {
		return "not-objects"
	}
	var ks []string
	for k := range ma {
		ks = append(ks, k)
	}
	for k := range mb {
		if _, ok := ma[k]; !ok {
			ks = append(ks, k)
		}
	}
	sort.Strings(ks)
	for _, k := range ks {
		if !bytes.Equal(ma[k], mb[k]) {
			if sub := firstJSONDiff(ma[k], mb[k]); sub != "not-objects" && sub != "" {
				return k + "." + sub
			}
			return k
		}
	}
	return ""
}
