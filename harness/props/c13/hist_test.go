package c13

// States reached by real histories: packet traffic between three chains with
// Tendermint clients (pkt.Sim) and token-pair registries produced by
// governance actions.

import (
	"fmt"
	"strings"
	"time"

	banktypes "github.com/cosmos/cosmos-sdk/x/bank/types"
	"github.com/ethereum/go-ethereum/common"

	aggtypes "github.com/teleport-network/teleport/x/aggregate/types"

	"verif/harness/core"
	"verif/harness/pkt"
	ac "verif/harness/props/aggcommon"
)

var callKinds = []string{"counter", "reverter", "counter", ""}

func worldCase(r *core.Run, cid string) {
	rng := r.Rng(cid)
	s, err := pkt.NewSim(rng, pkt.Config{Chains: 3, Users: 2, Relayers: 2, Tokens: 2, Native: true})
	if err != nil {
		r.Inconclusive("%s: world construction failed: %v", cid, err)
		return
	}
	s.Watch = []string{"xibc"} // observations of single transactions are not needed here
	L := r.N(36, 60)
	checkpoints := map[int]bool{L/3 - 1: true, 2*L/3 - 1: true, L - 1: true}
	for i := 0; i < L; i++ {
		x := rng.Intn(100)
		switch {
		case x < 35 || len(s.Pkts) == 0:
			o, ps := s.Send(s.RandSendSpec(callKinds))
			if o.OK() {
				r.Count("world/packets_sent", len(ps))
			}
		case x < 65:
			if pr := s.PendingRecv(); len(pr) > 0 {
				if o, err := s.HonestRecv(pr[rng.Intn(len(pr))], s.RandRelayer()); err == nil && o.OK() {
					r.Count("world/receives", 1)
				}
			}
		case x < 85:
			if pa := s.PendingAck(); len(pa) > 0 {
				if o, err := s.HonestAck(pa[rng.Intn(len(pa))], s.RandRelayer()); err == nil && o.OK() {
					r.Count("world/acks", 1)
				}
			}
		case x < 93:
			a, b := s.RandNodePair()
			if o, _, err := s.UpdateClient(a, b, s.RandRelayer(), 0); err == nil && o.OK() {
				r.Count("world/client_updates", 1)
			}
		default:
			s.W.Roll(s.W.Nodes[rng.Intn(len(s.W.Nodes))])
		}
		if checkpoints[i] {
			for _, n := range s.W.Nodes {
				s.W.Roll(n) // commit: the export reads the committed state
				in := &info{Class: "world", Features: []string{"client/tendermint", "relayers", "packet-state", "real-history"}}
				in.Ops = tail(s.Log, 12)
				roundTripAt(r, cid, fmt.Sprintf("%s@%d/%s", cid, i+1, n.Name), n, in)
			}
		}
	}
}

func tail(l []string, n int) []string {
	if len(l) > n {
		l = l[len(l)-n:]
	}
	return append([]string{}, l...)
}

// ---------------------------------------------------------------- aggregate history

type tokClass struct {
	Name, Symbol string
	Dec          uint8
}

var tokClasses = []tokClass{{"tokx", "TKX", 6}, {"toky", "TKY", 18}, {"tokz", "TKZ", 0}}

func coinMetadata(base string) banktypes.Metadata {
	b := base
	if strings.HasPrefix(b, "ibc/") {
		b = "ibcatom"
	}
	md := banktypes.Metadata{
		Description: "coin " + base, Base: base, Display: "disp" + b, Name: strings.ToUpper(b) + " coin", Symbol: strings.ToUpper(b),
		DenomUnits: []*banktypes.DenomUnit{{Denom: base, Exponent: 0}, {Denom: "m" + b, Exponent: 3, Aliases: []string{"milli" + b}}, {Denom: "disp" + b, Exponent: 18}},
	}
	if strings.HasPrefix(base, "ibc/") {
		md.Name, md.Symbol = "atom via channel-0", "ibcATOM"
	}
	return md
}

func aggCase(r *core.Run, cid string) {
	rng := r.Rng(cid)
	in := &info{Class: "agg", Features: []string{"registry", "real-history"}}
	users := []*core.Account{core.NewAccount("u0"), core.NewAccount("u1"), core.NewAccount("dep")}
	coins := []string{"acoin", "bcoin", "ccoin", "dcoin", "ecoin", ac.IBCCoin}
	native := core.GenChainName(rng)
	n := core.NewNode(core.NodeConfig{ChainID: "teleport_9000-1", XIBCName: native, Accounts: users, MutateGenesis: ac.FundGenesis(users, coins, ac.UserFunds)})
	clk := time.Date(2022, 1, 2, 0, 0, 5, 0, time.UTC)
	n.Begin(clk)
	var pool []common.Address
	cls := map[common.Address]int{}
	deploy := func(c int) (common.Address, error) {
		a, err := n.DeployERC20(tokClasses[c].Name, tokClasses[c].Symbol, tokClasses[c].Dec)
		if err == nil {
			pool = append(pool, a)
			cls[a] = c
		}
		return a, err
	}
	if err, _ := core.Catch(func() error {
		for _, c := range []int{0, 0, 1, 2, 1} {
			if _, err := deploy(c); err != nil {
				return err
			}
		}
		return nil
	}); err != nil {
		r.Inconclusive("%s: world construction failed: %v", cid, err)
		return
	}
	steps := r.N(14, 30)
	for s := 0; s < steps; s++ {
		ctx := n.Ctx()
		reg, err := ac.ReadRegistry(n, ctx)
		if err != nil {
			r.Inconclusive("%s: registry undecodable: %v", cid, err)
			return
		}
		var pairs []aggtypes.TokenPair
		for _, p := range reg.Pairs {
			pairs = append(pairs, p)
		}
		sortPairs(pairs)
		var res ac.GovResult
		what := ""
		switch x := rng.Intn(100); {
		case x < 22:
			base := coins[rng.Intn(len(coins))]
			what = "register-coin " + base
			res = ac.Gov(n, ctx, aggtypes.NewRegisterCoinProposal("t", "d", coinMetadata(base)))
		case x < 45 && len(pairs) > 0:
			base := coins[rng.Intn(len(coins))]
			p := pairs[rng.Intn(len(pairs))]
			what = "add-coin " + base + " to " + p.ERC20Address
			res = ac.Gov(n, ctx, aggtypes.NewAddCoinProposal("t", "d", coinMetadata(base), p.ERC20Address))
		case x < 65:
			a := pool[rng.Intn(len(pool))]
			what = "register-erc20 " + a.Hex()
			res = ac.Gov(n, ctx, aggtypes.NewRegisterERC20Proposal("t", "d", a.Hex()))
		case x < 78 && len(pairs) > 0:
			p := pairs[rng.Intn(len(pairs))]
			tok := p.ERC20Address
			if rng.Intn(2) == 0 {
				tok = p.Denoms[rng.Intn(len(p.Denoms))]
			}
			what = "toggle " + tok
			res = ac.Gov(n, ctx, aggtypes.NewToggleTokenRelayProposal("t", "d", tok))
		case x < 92 && len(pairs) > 0:
			p := pairs[rng.Intn(len(pairs))]
			old := common.HexToAddress(p.ERC20Address)
			c, ok := cls[old]
			if !ok {
				c = rng.Intn(len(tokClasses))
			}
			na, err := deploy(c)
			if err != nil {
				continue
			}
			what = "update-erc20 " + old.Hex() + " -> " + na.Hex()
			res = ac.Gov(n, ctx, aggtypes.NewUpdateTokenPairERC20Proposal("t", "d", old.Hex(), na.Hex()))
		default:
			p := aggtypes.NewParams(rng.Intn(4) > 0, rng.Intn(2) == 0)
			n.App.AggregateKeeper.SetParams(ctx, p)
			in.op("aggregate params %v/%v", p.EnableAggregate, p.EnableEVMHook)
			continue
		}
		if what == "" {
			continue
		}
		if res.Validated && res.Err == nil {
			res.Write()
			r.Count("agg/accepted", 1)
			in.op("%s: accepted", what)
		} else {
			r.Count("agg/refused", 1)
		}
		if s%5 == 4 {
			n.End()
			clk = clk.Add(5 * time.Second)
			n.Begin(clk)
		}
	}
	n.End()
	reg, err := ac.ReadRegistry(n, committedCtx(n))
	if err == nil {
		for _, p := range reg.Pairs {
			if len(p.Denoms) > 1 {
				in.feat("multi-denomination-pair")
			}
		}
		r.Count("agg/pairs_exported", len(reg.Pairs))
	}
	roundTrip(r, cid, n, in)
}

func sortPairs(ps []aggtypes.TokenPair) {
	for i := 1; i < len(ps); i++ {
		for j := i; j > 0 && ps[j].ERC20Address < ps[j-1].ERC20Address; j-- {
			ps[j], ps[j-1] = ps[j-1], ps[j]
		}
	}
}
