package c13

// Direct population of a fresh chain through the real keeper entry points.

import (
	"fmt"
	"math"
	"math/big"
	"math/rand"
	"sort"
	"strings"
	"time"

	tmtm "github.com/tendermint/tendermint/types"

	"github.com/cosmos/cosmos-sdk/crypto/keys/ed25519"
	sdk "github.com/cosmos/cosmos-sdk/types"
	"github.com/ethereum/go-ethereum/common"

	aggtypes "github.com/teleport-network/teleport/x/aggregate/types"
	rvtypes "github.com/teleport-network/teleport/x/rvesting/types"
	bsctypes "github.com/teleport-network/teleport/x/xibc/clients/light-clients/bsc/types"
	ethtypes "github.com/teleport-network/teleport/x/xibc/clients/light-clients/eth/types"
	tmtypes "github.com/teleport-network/teleport/x/xibc/clients/light-clients/tendermint/types"
	tsstypes "github.com/teleport-network/teleport/x/xibc/clients/tss-client/types"
	clienttypes "github.com/teleport-network/teleport/x/xibc/core/client/types"
	commitmenttypes "github.com/teleport-network/teleport/x/xibc/core/commitment/types"
	"github.com/teleport-network/teleport/x/xibc/core/host"
	"github.com/teleport-network/teleport/x/xibc/exported"
	"github.com/teleport-network/teleport/x/xibc/testing/mock"

	"verif/harness/core"
)

const maxI64 = uint64(math.MaxInt64)

// lookalikeNames are valid chain names that equal path elements of the store layout.
var lookalikeNames = []string{
	"clientState", "consensusStates", "iterateConsensusStates", "processedTime", "relayers", "chainName", "clients",
	"sequences", "commitments", "acks", "receipts", "nextSequenceSend", "recentSingers", "pendingValidators",
	"ethHeaderIndex", "ethRootMain", "0-1", "abc", "abc-", "abc.1", "relayer",
}

// lookalikeHeights are heights whose 16 key bytes look like other keys to a parser that splits on '/'.
var lookalikeHeights = []clienttypes.Height{
	{RevisionNumber: 0x414243442f636c69, RevisionHeight: 0x656e745374617465}, // "ABCD/clientState"
	{RevisionNumber: 0x2f70726f63657373, RevisionHeight: 0x656454696d652f2f}, // "/processedTime//"
	{RevisionNumber: 0x2f2f2f2f2f2f2f2f, RevisionHeight: 0x2f2f2f2f2f2f2f2f},
	{RevisionNumber: 0, RevisionHeight: 0x2f},
	{RevisionNumber: 1, RevisionHeight: 47<<8 | 5},
	{RevisionNumber: 47, RevisionHeight: 5},
	{RevisionNumber: 0x00ff00ff00ff00ff, RevisionHeight: 0x7f0000000000002f},
	{RevisionNumber: math.MaxUint64, RevisionHeight: maxI64},
	{RevisionNumber: 0x2f, RevisionHeight: 0x2f00000000000000},
}

type clientRec struct {
	Name    string
	Type    string
	From    string // type before a toggle
	Rev     uint64
	Anchor  uint64
	ChainID string // tendermint
	Heights []uint64
	bscVals []*bscVal
	bscID   uint64
	epoch   uint64
}

type gen struct {
	r       *core.Run
	rng     *rand.Rand
	n       *core.Node
	ctx     sdk.Context
	in      *info
	native  string
	names   map[string]bool
	clients []*clientRec
	vals    *tmtm.ValidatorSet
	signers []tmtm.PrivValidator
	now     time.Time
}

func newGen(r *core.Run, rng *rand.Rand, in *info) *gen {
	g := &gen{r: r, rng: rng, in: in, names: map[string]bool{}}
	g.native = g.name(rng.Intn(3) == 0)
	g.now = time.Date(2022, 1, 2, 0, 0, 5, 0, time.UTC)
	g.n = core.NewNode(core.NodeConfig{ChainID: "teleport_9000-1", XIBCName: g.native, Accounts: []*core.Account{core.NewAccount("c13-a"), core.NewAccount("c13-b")}})
	g.n.Begin(g.now)
	g.ctx = g.n.Ctx()
	// validator set of the simulated Tendermint counterparties
	var vs []*tmtm.Validator
	byAddr := map[string]tmtm.PrivValidator{}
	for i := 0; i < 3; i++ {
		pv := mock.PV{PrivKey: ed25519.GenPrivKeyFromSecret([]byte(fmt.Sprintf("c13-val/%d", i)))}
		pk, _ := pv.GetPubKey()
		v := tmtm.NewValidator(pk, int64(1+i))
		vs = append(vs, v)
		byAddr[string(v.Address)] = pv
	}
	g.vals = tmtm.NewValidatorSet(vs)
	for _, v := range g.vals.Validators {
		g.signers = append(g.signers, byAddr[string(v.Address)])
	}
	return g
}

// name draws an unused valid chain name; lookalike selects from the key look-alikes.
func (g *gen) name(lookalike bool) string {
	for k := 0; ; k++ {
		var s string
		if lookalike && k < 20 {
			s = lookalikeNames[g.rng.Intn(len(lookalikeNames))]
		} else {
			s = core.GenChainName(g.rng)
		}
		if host.ClientIdentifierValidator(s) != nil || g.names[s] {
			continue
		}
		g.names[s] = true
		return s
	}
}

// try runs one keeper call on a branch and writes the branch when the call succeeded.
func (g *gen) try(what string, f func(ctx sdk.Context) error) bool {
	cctx, write := g.ctx.CacheContext()
	err, _ := core.Catch(func() error { return f(cctx) })
	if err != nil {
		g.r.Count("op_refused/"+what, 1)
		g.in.op("%s REFUSED: %s", what, trunc(err.Error(), 120))
		return false
	}
	write()
	g.r.Count("op_ok/"+what, 1)
	return true
}

// patt draws a non-zero value ≤ max over byte patterns.
func (g *gen) patt(max uint64) uint64 {
	for {
		v := core.GenPatternUint64(g.rng)
		switch g.rng.Intn(5) {
		case 0:
			v = v&^0xff | 0x2f
		case 1:
			v = v&^(0xff<<uint(8*g.rng.Intn(8))) | 0x2f<<uint(8*g.rng.Intn(8))
		}
		if max != math.MaxUint64 {
			v &= max
		}
		if v != 0 {
			return v
		}
	}
}

// heightSet draws k distinct heights ≤ max for revision rev (look-alike heights of that revision included).
func (g *gen) heightSet(rev uint64, k int, max uint64) []uint64 {
	set := map[uint64]bool{}
	for _, l := range lookalikeHeights {
		if l.RevisionNumber == rev && l.RevisionHeight <= max {
			set[l.RevisionHeight] = true
		}
	}
	set[g.patt(max)&^0xff|0x2f] = true
	for len(set) < k {
		set[g.patt(max)] = true
	}
	var out []uint64
	for h := range set {
		out = append(out, h)
	}
	sort.Slice(out, func(i, j int) bool { return out[i] < out[j] })
	return out
}

func (g *gen) rev() uint64 {
	switch g.rng.Intn(4) {
	case 0:
		return lookalikeHeights[g.rng.Intn(len(lookalikeHeights))].RevisionNumber
	case 1:
		return uint64(g.rng.Intn(3))
	}
	return g.patt(math.MaxUint64)
}

// ---------------------------------------------------------------- Tendermint

func (g *gen) tmChainID(idx int, rev uint64) string {
	if rev == 0 {
		return fmt.Sprintf("tmchain%d", idx)
	}
	return fmt.Sprintf("tmchain%d-%d", idx, rev)
}

func (g *gen) tmClientState(chainID string, latest clienttypes.Height) *tmtypes.ClientState {
	return tmtypes.NewClientState(chainID, tmtypes.DefaultTrustLevel, 14*24*time.Hour, 21*24*time.Hour, 10*time.Second, latest,
		commitmenttypes.GetSDKSpecs(), commitmenttypes.MerklePrefix{KeyPrefix: []byte("xibc")}, uint64(g.rng.Intn(3))*uint64(time.Second))
}

func (g *gen) tmCons(i int, root []byte) *tmtypes.ConsensusState {
	return tmtypes.NewConsensusState(g.now.Add(-time.Hour).Add(time.Duration(i)*time.Second), root, g.vals.Hash())
}

// tmCreate creates a Tendermint client through CreateClient and feeds it real
// signed headers through UpdateClient (heights < 2^63, any byte pattern).
func (g *gen) tmCreate(name string, updates int, emptyAppHash bool) *clientRec {
	ck := g.n.App.XIBCKeeper.ClientKeeper
	rev := g.rev()
	if updates > 0 && rev > maxI64 {
		// SetRevisionNumber formats the revision through int: headers of such a chain cannot be verified
		rev &= maxI64
	}
	c := &clientRec{Name: name, Type: exported.Tendermint, Rev: rev, ChainID: g.tmChainID(len(g.clients), rev)}
	hs := g.heightSet(rev, 1+updates, maxI64)
	c.Anchor = hs[0]
	anchor := clienttypes.NewHeight(rev, c.Anchor)
	if !g.try("create/tendermint", func(ctx sdk.Context) error {
		cs := g.tmClientState(c.ChainID, anchor)
		if err := cs.Validate(); err != nil { // CreateClientProposal.ValidateBasic
			return err
		}
		return ck.CreateClient(ctx, name, cs, g.tmCons(0, rnd(g.rng, 32)))
	}) {
		return nil
	}
	c.Heights = append(c.Heights, c.Anchor)
	g.in.op("create tendermint %s chain-id=%s anchor=%s", name, c.ChainID, anchor)
	g.clients = append(g.clients, c)
	for i, h := range hs[1:] {
		appHash := rnd(g.rng, 32)
		if emptyAppHash && i == 0 {
			appHash = []byte{}
		}
		hdr, err := core.MakeTMHeader(c.ChainID, int64(h), g.now.Add(-time.Hour).Add(time.Duration(i+1)*time.Second), appHash, g.vals, g.vals, g.signers, anchor)
		if err != nil {
			g.r.Count("harness/tm-header-build-failed", 1)
			continue
		}
		if g.try("update/tendermint", func(ctx sdk.Context) error {
			if err := hdr.ValidateBasic(); err != nil { // MsgUpdateClient.ValidateBasic
				return err
			}
			return ck.UpdateClient(ctx, name, hdr)
		}) {
			c.Heights = append(c.Heights, h)
		}
	}
	g.in.op("updated %s to %d heights, latest %d", name, len(c.Heights), c.Heights[len(c.Heights)-1])
	return c
}

// tmEmulated writes consensus states the way update() does (consensus state,
// processed time, iteration key, latest height) at heights a signed header
// cannot carry (≥ 2^63); governance can anchor a client there.
func (g *gen) tmEmulated(c *clientRec, k int) {
	ck := g.n.App.XIBCKeeper.ClientKeeper
	g.try("emulated-update/tendermint", func(ctx sdk.Context) error {
		store := ck.ClientStore(ctx, c.Name)
		latest := uint64(0)
		for i := 0; i < k; i++ {
			h := g.patt(math.MaxUint64) | 1<<63
			H := clienttypes.NewHeight(c.Rev, h)
			ck.SetClientConsensusState(ctx, c.Name, H, g.tmCons(100+i, rnd(g.rng, 32)))
			tmtypes.SetProcessedTime(store, H, uint64(g.now.UnixNano()))
			tmtypes.SetIterationKey(store, H)
			c.Heights = append(c.Heights, h)
			if h > latest {
				latest = h
			}
		}
		ck.SetClientState(ctx, c.Name, g.tmClientState(c.ChainID, clienttypes.NewHeight(c.Rev, latest)))
		return nil
	})
	g.in.feat("tm-heights-above-2^63")
}

func (g *gen) tmUpgrade(c *clientRec) {
	ck := g.n.App.XIBCKeeper.ClientKeeper
	rev := g.rev()
	h := g.patt(math.MaxUint64)
	sameNumber := false
	if len(c.Heights) > 0 && g.rng.Intn(3) != 0 {
		// the new revision is anchored at a block number the client still holds a consensus state for in the old revision:
		// (r1,h) and (r2,h) are two different heights
		h = c.Heights[g.rng.Intn(len(c.Heights))]
		if rev == c.Rev {
			rev = c.Rev + 1
		}
		sameNumber = true
	}
	chainID := g.tmChainID(100+len(g.clients), rev)
	if g.try("upgrade/tendermint", func(ctx sdk.Context) error {
		cs := g.tmClientState(chainID, clienttypes.NewHeight(rev, h))
		if err := cs.Validate(); err != nil {
			return err
		}
		return ck.UpgradeClient(ctx, c.Name, cs, g.tmCons(50, rnd(g.rng, 32)))
	}) {
		g.in.op("upgrade tendermint %s to %d-%d", c.Name, rev, h)
		g.in.feat("upgraded-tendermint")
		if sameNumber {
			g.in.feat("same-block-number-in-two-revisions")
		}
		c.ChainID, c.Rev = chainID, rev
	}
}

// ---------------------------------------------------------------- BSC

func addrBytes(vs []*bscVal) [][]byte {
	out := make([][]byte, len(vs))
	for i, v := range vs {
		out[i] = append([]byte{}, v.addr[:]...)
	}
	return out
}

func addrsOf(vs []*bscVal) []common.Address {
	out := make([]common.Address, len(vs))
	for i, v := range vs {
		out[i] = v.addr
	}
	return out
}

func (g *gen) bscStates(c *clientRec, rev, height uint64, emptyList bool) (*bsctypes.ClientState, *bsctypes.ConsensusState) {
	list := addrsOf(c.bscVals)
	if emptyList {
		list = nil
	}
	h := sealedBscHeader(g.rng, c.bscID, clienttypes.NewHeight(rev, height), list, c.bscVals[g.rng.Intn(len(c.bscVals))])
	cs := &bsctypes.ClientState{Header: *h, ChainId: c.bscID, Epoch: c.epoch, BlockInteval: 3, Validators: addrBytes(c.bscVals), ContractAddress: rnd(g.rng, 20), TrustingPeriod: 1 << 40}
	return cs, &bsctypes.ConsensusState{Timestamp: h.Time, Height: h.Height, Root: h.Root}
}

func (g *gen) epochHeight(epoch uint64) uint64 {
	h := g.patt(maxI64)
	h -= h % epoch
	if h == 0 {
		h = epoch
	}
	return h
}

// bscCreate creates a BSC client through CreateClient (sealed epoch header) and
// adds consensus states the way update() does (consensus state + recent signer,
// pending validators at epoch blocks).
func (g *gen) bscCreate(name string, more int, emptyList bool) *clientRec {
	ck := g.n.App.XIBCKeeper.ClientKeeper
	c := &clientRec{Name: name, Type: exported.BSC, Rev: g.rev(), bscID: []uint64{56, 97, 1}[g.rng.Intn(3)], epoch: []uint64{1, 200}[g.rng.Intn(2)]}
	for i := 0; i < 1+g.rng.Intn(4); i++ {
		c.bscVals = append(c.bscVals, newBscVal(g.rng))
	}
	c.Anchor = g.epochHeight(c.epoch)
	cs, cons := g.bscStates(c, c.Rev, c.Anchor, emptyList)
	if !g.try("create/bsc", func(ctx sdk.Context) error {
		if err := cs.Validate(); err != nil {
			return err
		}
		return ck.CreateClient(ctx, name, cs, cons)
	}) {
		return nil
	}
	c.Heights = append(c.Heights, c.Anchor)
	g.clients = append(g.clients, c)
	g.in.op("create bsc %s anchor=%d-%d epoch=%d validators=%d", name, c.Rev, c.Anchor, c.epoch, len(c.bscVals))
	if emptyList {
		g.in.feat("bsc-empty-validator-list-in-epoch-header")
	}
	if more > 0 {
		g.try("emulated-update/bsc", func(ctx sdk.Context) error {
			store := ck.ClientStore(ctx, name)
			top := uint64(0)
			for _, h := range g.heightSet(c.Rev, more, maxI64) {
				H := clienttypes.NewHeight(c.Rev, h)
				ck.SetClientConsensusState(ctx, name, H, &bsctypes.ConsensusState{Timestamp: 1640995200 + uint64(g.rng.Intn(1<<20)), Height: H, Root: rnd(g.rng, 32)})
				bsctypes.SetSigner(store, bsctypes.Signer{Height: H, Validator: append([]byte{}, c.bscVals[g.rng.Intn(len(c.bscVals))].addr[:]...)})
				if h%c.epoch == 0 && g.rng.Intn(2) == 0 {
					bsctypes.SetPendingValidators(store, g.n.App.AppCodec(), addrBytes(c.bscVals))
				}
				c.Heights = append(c.Heights, h)
				if h > top {
					top = h
				}
			}
			if top > c.Anchor && g.rng.Intn(2) == 0 {
				// a real update also makes the accepted header the client state's header: the client's head is then (for all
				// but one block in `epoch`) NOT an epoch block any more
				var list []common.Address
				if top%c.epoch == 0 {
					list = addrsOf(c.bscVals)
				}
				moved := *cs
				moved.Header = *sealedBscHeader(g.rng, c.bscID, clienttypes.NewHeight(c.Rev, top), list, c.bscVals[g.rng.Intn(len(c.bscVals))])
				ck.SetClientState(ctx, name, &moved)
				g.in.feat("bsc-client-head-moved-past-its-anchor")
			}
			return nil
		})
	}
	return c
}

func (g *gen) bscUpgrade(c *clientRec) {
	ck := g.n.App.XIBCKeeper.ClientKeeper
	rev, h := g.rev(), g.epochHeight(c.epoch)
	cs, cons := g.bscStates(c, rev, h, false)
	if g.try("upgrade/bsc", func(ctx sdk.Context) error {
		if err := cs.Validate(); err != nil {
			return err
		}
		return ck.UpgradeClient(ctx, c.Name, cs, cons)
	}) {
		g.in.op("upgrade bsc %s to %d-%d", c.Name, rev, h)
		g.in.feat("upgraded-bsc")
		c.Rev = rev
		c.Heights = append(c.Heights, h)
	}
}

// ---------------------------------------------------------------- ETH

func (g *gen) ethHeader(rev, height uint64) *ethtypes.Header {
	gl := uint64(30000000 + g.rng.Intn(1<<20))
	return &ethtypes.Header{
		ParentHash: rnd(g.rng, 32), UncleHash: emptyUncle[:], Coinbase: rnd(g.rng, 20), Root: rnd(g.rng, 32), TxHash: rnd(g.rng, 32), ReceiptHash: rnd(g.rng, 32),
		Bloom: rnd(g.rng, 256), Difficulty: []byte{1 + byte(g.rng.Intn(200)), byte(g.rng.Intn(256))}, Height: clienttypes.NewHeight(rev, height),
		GasLimit: gl, GasUsed: gl / uint64(1+g.rng.Intn(4)), Time: 1640995200 + uint64(g.rng.Intn(1<<20)), Extra: rnd(g.rng, g.rng.Intn(32)),
		MixDigest: rnd(g.rng, 32), Nonce: g.rng.Uint64(), BaseFee: []byte{byte(1 + g.rng.Intn(255)), 7},
	}
}

func (g *gen) ethStates(h *ethtypes.Header) (*ethtypes.ClientState, *ethtypes.ConsensusState) {
	cs := &ethtypes.ClientState{Header: *h, ChainId: []uint64{1, 4}[g.rng.Intn(2)], ContractAddress: rnd(g.rng, 20), TrustingPeriod: 1 << 40, TimeDelay: uint64(g.rng.Intn(3)), BlockDelay: uint64(g.rng.Intn(12))}
	return cs, &ethtypes.ConsensusState{Timestamp: h.Time, Height: h.Height, Root: h.Root}
}

// ethCreate creates an ETH client through CreateClient and adds headers the way
// update() does (consensus state + header index + main root + client header).
func (g *gen) ethCreate(name string, more int) *clientRec {
	ck := g.n.App.XIBCKeeper.ClientKeeper
	c := &clientRec{Name: name, Type: exported.ETH, Rev: g.rev()}
	c.Anchor = g.patt(maxI64)
	if g.rng.Intn(5) == 0 {
		// anchored at block 0 of its chain
		c.Anchor = 0
		if g.rng.Intn(2) == 0 {
			c.Rev = 0
			g.in.feat("eth-client-anchored-at-height-0-0")
		}
		g.in.feat("eth-client-anchored-at-block-0")
	}
	ah := g.ethHeader(c.Rev, c.Anchor)
	if c.Anchor == 0 && g.rng.Intn(2) == 0 {
		// the first block of Ethereum main net (and of most EVM chains) carries timestamp 0
		ah.Time = 0
		g.in.feat("eth-anchor-block-with-timestamp-0")
	}
	cs, cons := g.ethStates(ah)
	if !g.try("create/eth", func(ctx sdk.Context) error {
		if err := cs.Validate(); err != nil {
			return err
		}
		return ck.CreateClient(ctx, name, cs, cons)
	}) {
		return nil
	}
	c.Heights = append(c.Heights, c.Anchor)
	g.clients = append(g.clients, c)
	g.in.op("create eth %s anchor=%d-%d", name, c.Rev, c.Anchor)
	if more > 0 {
		g.try("emulated-update/eth", func(ctx sdk.Context) error {
			store := ck.ClientStore(ctx, name)
			cdc := g.n.App.AppCodec()
			for _, h := range g.heightSet(c.Rev, more, maxI64) {
				hdr := g.ethHeader(c.Rev, h)
				bz, err := cdc.MarshalInterface(hdr)
				if err != nil {
					return err
				}
				ck.SetClientConsensusState(ctx, name, hdr.Height, &ethtypes.ConsensusState{Timestamp: hdr.Time, Height: hdr.Height, Root: hdr.Root})
				ethtypes.SetEthHeaderIndex(store, *hdr, bz)
				ethtypes.SetEthConsensusRoot(store, h, hdr.ToEthHeader().Root, hdr.Hash())
				ncs := *cs
				ncs.Header = *hdr
				ck.SetClientState(ctx, name, &ncs)
				c.Heights = append(c.Heights, h)
			}
			return nil
		})
	}
	return c
}

func (g *gen) ethUpgrade(c *clientRec) {
	ck := g.n.App.XIBCKeeper.ClientKeeper
	rev, h := g.rev(), g.patt(maxI64)
	cs, cons := g.ethStates(g.ethHeader(rev, h))
	if g.try("upgrade/eth", func(ctx sdk.Context) error {
		if err := cs.Validate(); err != nil {
			return err
		}
		return ck.UpgradeClient(ctx, c.Name, cs, cons)
	}) {
		g.in.op("upgrade eth %s to %d-%d", c.Name, rev, h)
		g.in.feat("upgraded-eth")
		c.Rev = rev
		c.Heights = append(c.Heights, h)
	}
}

// ---------------------------------------------------------------- TSS

func (g *gen) tssState() *tsstypes.ClientState {
	a := core.NewAccount(fmt.Sprintf("tss/%d", g.rng.Int63()))
	var parts [][]byte
	for i := 0; i < g.rng.Intn(4); i++ {
		parts = append(parts, core.GenBytes(g.rng, 64))
	}
	return &tsstypes.ClientState{TssAddress: a.Bech32(), Pubkey: core.GenBytes(g.rng, 64), PartPubkeys: parts, Threshold: core.GenUint64(g.rng)}
}

func (g *gen) tssCreate(name string) *clientRec {
	ck := g.n.App.XIBCKeeper.ClientKeeper
	c := &clientRec{Name: name, Type: exported.TSS}
	cs := g.tssState()
	if !g.try("create/tss", func(ctx sdk.Context) error {
		if err := cs.Validate(); err != nil {
			return err
		}
		return ck.CreateClient(ctx, name, cs, &tsstypes.ConsensusState{})
	}) {
		return nil
	}
	g.clients = append(g.clients, c)
	g.in.op("create tss %s", name)
	return c
}

// ---------------------------------------------------------------- toggle

// toggle replaces the client by one of another type through ToggleClient. The
// honest form (new consensus state of the new type) is tried first; a
// Tendermint client can only be toggled with a Tendermint consensus state
// (ToggleClient initialises with the old client state), which is tried next.
func (g *gen) toggle(c *clientRec, to string) {
	ck := g.n.App.XIBCKeeper.ClientKeeper
	if c.Type == to {
		return
	}
	var cs exported.ClientState
	var cons exported.ConsensusState
	nc := &clientRec{Name: c.Name, Type: to, From: c.Type, Rev: g.rev()}
	switch to {
	case exported.Tendermint:
		nc.ChainID = g.tmChainID(200+len(g.clients), nc.Rev)
		nc.Anchor = g.patt(math.MaxUint64)
		cs, cons = g.tmClientState(nc.ChainID, clienttypes.NewHeight(nc.Rev, nc.Anchor)), g.tmCons(70, rnd(g.rng, 32))
	case exported.BSC:
		nc.bscID, nc.epoch = 56, 1
		nc.bscVals = []*bscVal{newBscVal(g.rng), newBscVal(g.rng)}
		nc.Anchor = g.epochHeight(1)
		cs, cons = g.bscStates(nc, nc.Rev, nc.Anchor, false)
	case exported.ETH:
		nc.Anchor = g.patt(maxI64)
		cs, cons = g.ethStates(g.ethHeader(nc.Rev, nc.Anchor))
	case exported.TSS:
		cs, cons = g.tssState(), &tsstypes.ConsensusState{}
	}
	label := c.Type + "-to-" + to
	ok := g.try("toggle/"+label, func(ctx sdk.Context) error {
		if err := cs.Validate(); err != nil { // ToggleClientProposal.ValidateBasic
			return err
		}
		return ck.ToggleClient(ctx, c.Name, cs, cons)
	})
	if !ok && c.Type == exported.Tendermint {
		ok = g.try("toggle/"+label+"/with-tendermint-consensus-state", func(ctx sdk.Context) error {
			return ck.ToggleClient(ctx, c.Name, cs, g.tmCons(71, rnd(g.rng, 32)))
		})
	}
	if !ok {
		return
	}
	g.in.op("toggle %s %s (%d old consensus heights)", c.Name, label, len(c.Heights))
	g.in.feat("toggled/" + label)
	*c = *nc
}

// ---------------------------------------------------------------- relayers

func (g *gen) relayers(k int) {
	ck := g.n.App.XIBCKeeper.ClientKeeper
	for i := 0; i < k; i++ {
		addr := core.NewAccount(fmt.Sprintf("relayer/%d", g.rng.Int63())).Bech32()
		if g.rng.Intn(5) == 0 {
			addr = strings.ToUpper(addr)
		}
		m := 1 + g.rng.Intn(4)
		var chains, addrs []string
		for j := 0; j < m; j++ {
			switch {
			case len(g.clients) > 0 && g.rng.Intn(3) > 0:
				chains = append(chains, g.clients[g.rng.Intn(len(g.clients))].Name)
			case g.rng.Intn(3) == 0:
				chains = append(chains, lookalikeNames[g.rng.Intn(len(lookalikeNames))])
			default:
				chains = append(chains, core.GenChainName(g.rng))
			}
			switch g.rng.Intn(4) {
			case 0:
				addrs = append(addrs, "0x"+core.Hex(rnd(g.rng, 20)))
			case 1:
				addrs = append(addrs, core.NewAccount(fmt.Sprintf("r2/%d", g.rng.Int63())).Bech32())
			default:
				addrs = append(addrs, core.GenUTF8(g.rng, 44))
			}
		}
		p := clienttypes.NewRegisterRelayerProposal("t", "d", addr, chains, addrs)
		g.try("register-relayer", func(ctx sdk.Context) error {
			if err := p.ValidateBasic(); err != nil {
				return err
			}
			return ck.HandleRegisterRelayer(ctx, p)
		})
	}
	g.in.feat("relayers")
}

// ---------------------------------------------------------------- packets

func (g *gen) seq(boundary bool) uint64 {
	if boundary {
		switch g.rng.Intn(6) {
		case 0:
			return 1
		case 1:
			return 2
		case 2:
			return math.MaxUint64
		case 3:
			return math.MaxUint64 - 1
		case 4:
			return 1 << 63
		}
	}
	for {
		if v := core.GenUint64(g.rng); v != 0 {
			return v
		}
	}
}

func (g *gen) hash32() []byte {
	switch g.rng.Intn(8) {
	case 0:
		return make([]byte, 32)
	case 1:
		b := make([]byte, 32)
		for i := range b {
			b[i] = 0xff
		}
		return b
	case 2:
		b := rnd(g.rng, 32)
		b[g.rng.Intn(32)] = 0x2f
		b[g.rng.Intn(32)] = 0
		return b
	}
	return rnd(g.rng, 32)
}

// packets writes packet state the way the keeper does on send (commitment +
// next sequence), receive (receipt + ack hash) – values are 32-byte hashes,
// receipts the single byte the keeper writes.
func (g *gen) packets(k int, boundary bool) {
	pk := g.n.App.XIBCKeeper.PacketKeeper
	var peers []string
	for _, c := range g.clients {
		peers = append(peers, c.Name)
	}
	for len(peers) < 2 {
		peers = append(peers, g.name(g.rng.Intn(2) == 0))
	}
	g.try("packet-state", func(ctx sdk.Context) error {
		for i := 0; i < k; i++ {
			peer := peers[g.rng.Intn(len(peers))]
			s := g.seq(boundary)
			switch g.rng.Intn(4) {
			case 0:
				pk.SetPacketCommitment(ctx, g.native, peer, s, g.hash32())
			case 1:
				pk.SetPacketReceipt(ctx, peer, g.native, s)
				pk.SetPacketAcknowledgement(ctx, peer, g.native, s, g.hash32())
			case 2:
				pk.SetPacketReceipt(ctx, peer, g.native, s)
			case 3:
				pk.SetNextSequenceSend(ctx, g.native, peer, s)
				if s > 1 && g.rng.Intn(2) == 0 {
					pk.SetPacketCommitment(ctx, g.native, peer, s-1, g.hash32())
				}
			}
		}
		return nil
	})
	g.in.feat("packet-state")
	if boundary {
		g.in.feat("boundary-sequences")
	}
}

// ---------------------------------------------------------------- aggregate registry and parameters

var denomAlphabet = "abcdefghijklmnopqrstuvwxyzABCDEFGHIJKLMNOPQRSTUVWXYZ0123456789/:._-"

func (g *gen) denom(used map[string]bool) string {
	for {
		var d string
		switch g.rng.Intn(5) {
		case 0:
			d = "ibc/" + strings.ToUpper(core.Hex(rnd(g.rng, 32)))
		case 1:
			d = aggtypes.CreateDenom(common.BytesToAddress(rnd(g.rng, 20)).String())
		default:
			n := 3 + g.rng.Intn(12)
			if g.rng.Intn(10) == 0 {
				n = 128
			}
			b := make([]byte, n)
			b[0] = denomAlphabet[g.rng.Intn(52)]
			for i := 1; i < n; i++ {
				b[i] = denomAlphabet[g.rng.Intn(len(denomAlphabet))]
			}
			d = string(b)
		}
		if sdk.ValidateDenom(d) != nil || used[d] || d == core.BondDenom {
			continue
		}
		used[d] = true
		return d
	}
}

// registry writes token pairs exactly as RegisterCoin / RegisterERC20 / AddCoin
// leave them: record under GetID(), address index, one index entry per denomination.
func (g *gen) registry(k int) {
	ak := g.n.App.AggregateKeeper
	used := map[string]bool{}
	g.try("registry", func(ctx sdk.Context) error {
		for i := 0; i < k; i++ {
			addr := common.BytesToAddress(rnd(g.rng, 20))
			if g.rng.Intn(6) == 0 {
				addr = common.BytesToAddress(append(make([]byte, 19), byte(i+1)))
			}
			var denoms []string
			for j := 0; j < 1+g.rng.Intn(4); j++ {
				denoms = append(denoms, g.denom(used))
			}
			pair := aggtypes.NewTokenPair(addr, denoms, g.rng.Intn(3) > 0, aggtypes.Owner(1+g.rng.Intn(2)))
			id := pair.GetID()
			ak.SetTokenPair(ctx, pair)
			ak.SetDenomsMap(ctx, pair.Denoms, id)
			ak.SetERC20Map(ctx, pair.GetERC20Contract(), id)
			if len(denoms) > 1 {
				g.in.feat("multi-denomination-pair")
			}
		}
		return nil
	})
	g.in.feat("registry")
}

func (g *gen) aggParams() {
	p := aggtypes.NewParams(g.rng.Intn(2) == 0, g.rng.Intn(2) == 0)
	g.try("aggregate-params", func(ctx sdk.Context) error { g.n.App.AggregateKeeper.SetParams(ctx, p); return nil })
	g.in.feat(fmt.Sprintf("aggregate-params/%v/%v", p.EnableAggregate, p.EnableEVMHook))
}

// rvParams sets reward-vesting parameters accepted by the module's own rule:
// unique valid denominations, non-negative amounts, any order, any size.
func (g *gen) rvParams() {
	used := map[string]bool{}
	var coins sdk.Coins
	for i := 0; i < 1+g.rng.Intn(5); i++ {
		var amt sdk.Int
		switch g.rng.Intn(5) {
		case 0:
			amt = sdk.ZeroInt()
		case 1:
			amt = sdk.NewIntFromBigInt(new(big.Int).Lsh(big.NewInt(1), uint(100+g.rng.Intn(150))))
		default:
			amt = sdk.NewIntFromUint64(core.GenUint64(g.rng))
		}
		coins = append(coins, sdk.Coin{Denom: g.denom(used), Amount: amt})
	}
	p := rvtypes.Params{EnableVesting: g.rng.Intn(2) == 0, PerBlockReward: coins}
	if g.try("rvesting-params", func(ctx sdk.Context) error { g.n.App.RVestingKeeper.SetParams(ctx, p); return nil }) {
		g.in.feat("rvesting-params")
		g.in.op("rvesting params enable=%v reward=%s", p.EnableVesting, trunc(fmt.Sprint(coins), 100))
	}
}

// ---------------------------------------------------------------- profiles

var profiles = []string{
	"tm", "tm-upgrade", "tm-high", "bsc", "bsc-upgrade", "eth", "eth-upgrade", "tss", "toggle-from-tm", "toggle-from-bsc",
	"toggle-from-eth-tss", "toggle-to-tss", "relayers-packets", "registry-params", "lookalike-names", "bsc-empty-list", "tm-empty-apphash",
	"mixed", "mixed", "mixed", "mixed", "mixed",
}

func directCase(r *core.Run, cid string, i int) {
	rng := r.Rng(cid)
	prof := profiles[i%len(profiles)]
	v := i / len(profiles) // variant: the defect-revealing shapes do not depend on the seed
	in := &info{Class: "direct/" + prof}
	g := newGen(r, rng, in)
	k := func(lo, hi int) int { return lo + rng.Intn(hi-lo+1) }
	nm := func() string { return g.name(rng.Intn(4) == 0) }
	others := func() {
		if rng.Intn(2) == 0 {
			g.relayers(k(1, 3))
		}
		if rng.Intn(2) == 0 {
			g.packets(k(2, 10), rng.Intn(2) == 0)
		}
		if rng.Intn(3) == 0 {
			g.registry(k(1, 3))
		}
		if rng.Intn(3) == 0 {
			g.rvParams()
		}
	}
	switch prof {
	case "tm":
		g.tmCreate(nm(), k(2, 7), false)
		if rng.Intn(2) == 0 {
			g.tmCreate(nm(), k(1, 4), false)
		}
		others()
	case "tm-upgrade":
		if c := g.tmCreate(nm(), k(1, 4), false); c != nil {
			g.tmUpgrade(c)
			if rng.Intn(2) == 0 {
				g.tmUpgrade(c)
			}
		}
		others()
	case "tm-high":
		if c := g.tmCreate(nm(), k(0, 2), false); c != nil {
			n := k(2, 6)
			if rng.Intn(2) == 0 {
				n = 101 + rng.Intn(60) // more consensus states under one client than any page of a list
				g.in.feat("client-with-more-than-100-consensus-states")
			}
			g.tmEmulated(c, n)
		}
		others()
	case "bsc":
		g.bscCreate(nm(), k(2, 7), false)
		others()
	case "bsc-upgrade":
		if c := g.bscCreate(nm(), k(1, 4), false); c != nil {
			g.bscUpgrade(c)
		}
		others()
	case "eth":
		g.ethCreate(nm(), k(1, 6))
	case "eth-upgrade":
		if c := g.ethCreate(nm(), k(0, 3)); c != nil {
			g.ethUpgrade(c)
		}
	case "tss":
		g.tssCreate(nm())
		if rng.Intn(2) == 0 {
			g.tssCreate(nm())
		}
		g.packets(k(6, 16), true)
		g.relayers(k(1, 3))
	case "toggle-from-tm":
		if c := g.tmCreate(nm(), k(1, 3), false); c != nil {
			g.toggle(c, []string{exported.BSC, exported.ETH, exported.TSS}[v%3])
		}
	case "toggle-from-bsc":
		if c := g.bscCreate(nm(), k(0, 3), false); c != nil {
			g.toggle(c, []string{exported.Tendermint, exported.ETH}[v%2])
		}
	case "toggle-from-eth-tss":
		if v%2 == 0 {
			if c := g.ethCreate(nm(), k(0, 2)); c != nil {
				g.toggle(c, []string{exported.Tendermint, exported.BSC}[(v/2)%2])
			}
		} else if c := g.tssCreate(nm()); c != nil {
			g.toggle(c, []string{exported.Tendermint, exported.BSC, exported.ETH}[(v/2)%3])
		}
	case "toggle-to-tss":
		var c *clientRec
		if v%2 == 0 {
			c = g.bscCreate(nm(), 0, false)
		} else {
			c = g.tmCreate(nm(), 0, false)
		}
		if c != nil {
			g.toggle(c, exported.TSS)
		}
	case "relayers-packets":
		g.relayers(k(2, 6))
		g.packets(k(8, 30), true)
		if rng.Intn(3) == 0 {
			// many entries per kind (several hundred): export must not stop after a page
			g.packets(300+rng.Intn(200), false)
			g.in.feat("packet-state-hundreds-of-entries")
		}
	case "registry-params":
		g.registry(k(2, 8))
		g.aggParams()
		g.rvParams()
	case "lookalike-names":
		g.tmCreate(g.name(true), k(1, 4), false)
		g.bscCreate(g.name(true), k(1, 4), false)
		g.tssCreate(g.name(true))
		g.packets(k(4, 12), true)
		g.relayers(k(1, 3))
		g.in.feat("lookalike-names")
	case "bsc-empty-list":
		g.bscCreate(nm(), k(0, 2), true)
	case "tm-empty-apphash":
		g.tmCreate(nm(), k(1, 3), true)
		g.in.feat("tm-header-with-empty-apphash")
	default:
		if rng.Intn(2) == 0 {
			if c := g.tmCreate(nm(), k(1, 5), false); c != nil && rng.Intn(4) == 0 {
				g.tmUpgrade(c)
			}
		}
		if rng.Intn(2) == 0 {
			if c := g.bscCreate(nm(), k(1, 5), false); c != nil && rng.Intn(4) == 0 {
				g.bscUpgrade(c)
			}
		}
		if rng.Intn(3) == 0 {
			g.ethCreate(nm(), k(0, 3))
		}
		if rng.Intn(2) == 0 {
			g.tssCreate(nm())
		}
		if rng.Intn(4) == 0 && len(g.clients) > 0 {
			c := g.clients[rng.Intn(len(g.clients))]
			g.toggle(c, []string{exported.Tendermint, exported.BSC, exported.ETH, exported.TSS}[rng.Intn(4)])
		}
		g.relayers(k(0, 4))
		g.packets(k(0, 20), rng.Intn(2) == 0)
		if rng.Intn(2) == 0 {
			g.registry(k(1, 6))
		}
		if rng.Intn(2) == 0 {
			g.aggParams()
		}
		if rng.Intn(2) == 0 {
			g.rvParams()
		}
	}
	for _, c := range g.clients {
		g.in.feat("client/" + c.Type)
	}
	g.n.End()
	roundTrip(r, cid, g.n, in)
}
