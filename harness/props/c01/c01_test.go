// Package c01 monitors C01: exactly-once packet delivery per (src, dst, seq).
package c01

import (
	"bytes"
	"fmt"
	"math/big"
	"sort"
	"strings"
	"testing"
	"time"

	sdk "github.com/cosmos/cosmos-sdk/types"

	tsstypes "github.com/teleport-network/teleport/x/xibc/clients/tss-client/types"
	clienttypes "github.com/teleport-network/teleport/x/xibc/core/client/types"
	packettypes "github.com/teleport-network/teleport/x/xibc/core/packet/types"

	"verif/harness/core"
	"verif/harness/pkt"
)

var callKinds = []string{"counter", "reverter", "counter", ""}

type hist struct {
	r    *core.Run
	cid  string
	s    *pkt.Sim
	orig map[*pkt.Pkt]*packettypes.MsgRecvPacket // the accepted receive message per packet
	nRep int
	// TSS-secured counterparty: accepted receives per chain and sequence
	tss     *core.Account
	tssOrig map[string]*packettypes.MsgRecvPacket
	tssPkt  map[string]*pkt.Pkt
	tssSeq  uint64
	// the last accepted TSS receive (replayed right away by the closing steps of a history)
	forceGap    uint64
	tssLastNode *core.Node
	tssLastKey  string
}

const tssChain = "tss-chain"

func TestC01(t *testing.T) {
	r := core.NewRun(t, "C01")
	r.Rule = "seeded relay histories over 3 chains (sends of ERC-20/native/call-only packets, honest receives and acks, client updates) interleaved with replay attempts on already received triples: byte-identical, other relayer, fresh proof at a later height (before and after the ack removed the commitment), non-canonical re-encodings, altered payloads, doubled in one tx, twice in one block. Non-trivial = a replay attempt (distinct by history, triple, variant and position) that passed ValidateBasic and reached Keeper.RecvPacket on a triple that had been accepted before."
	defer r.Finish()
	H, L := r.N(8, 220), r.N(45, 110)
	for h := 0; h < H; h++ {
		cid := fmt.Sprintf("hist/%d", h)
		if !r.Want(cid) {
			continue
		}
		func() {
			defer func() {
				if rec := recover(); rec != nil {
					r.Violation(cid, "panic/monitor-or-code", map[string]interface{}{"panic": fmt.Sprint(rec)})
				}
			}()
			runHistory(r, cid, L)
		}()
	}
	r.MinNontrivial(r.N(40, 2000))
}

func runHistory(r *core.Run, cid string, L int) {
	rng := r.Rng(cid)
	s, err := pkt.NewSim(rng, pkt.Config{Chains: 3, Users: 2, Relayers: 3, Tokens: 2, Native: true})
	if err != nil {
		r.Inconclusive("%s: world construction failed: %v", cid, err)
		return
	}
	h := &hist{r: r, cid: cid, s: s, orig: map[*pkt.Pkt]*packettypes.MsgRecvPacket{}, tssOrig: map[string]*packettypes.MsgRecvPacket{}, tssPkt: map[string]*pkt.Pkt{}}
	if err := h.setupTSS(); err != nil {
		r.Inconclusive("%s: TSS counterparty setup failed: %v", cid, err)
		return
	}
	for i := 0; i < L; i++ {
		x := rng.Intn(100)
		switch {
		case x < 25 || len(s.Pkts) == 0:
			sp := s.RandSendSpec(callKinds)
			o, ps := s.Send(sp)
			r.Count("sends", 1)
			if o.OK() {
				r.Count("packets_sent", len(ps))
			}
		case x < 45:
			h.honestRecv()
		case x < 55:
			if pa := s.PendingAck(); len(pa) > 0 {
				p := pa[rng.Intn(len(pa))]
				if o, err := s.HonestAck(p, s.RandRelayer()); err == nil && o.OK() {
					r.Count("honest_acks", 1)
				} else {
					r.Count("honest_ack_failed", 1)
				}
			}
		case x < 60:
			a, b := s.RandNodePair()
			if o, _, err := s.UpdateClient(a, b, s.RandRelayer(), 0); err == nil && o.OK() {
				r.Count("client_updates", 1)
			}
		case x < 62:
			s.W.Roll(s.W.Nodes[rng.Intn(len(s.W.Nodes))])
		case x < 64:
			// governance replaces the client of one path by another type and back: whatever was accepted stays accepted
			a, b := s.RandNodePair()
			if err := s.GovClientOp(a, b); err != nil {
				r.Inconclusive("%s: client toggle / upgrade failed: %v", cid, err)
				return
			}
			r.Count("client_toggles_round_trip", 1)
		case x < 70:
			h.doubleFresh()
		case x < 80:
			h.tssTraffic("")
		default:
			h.replay()
		}
		if r.Violations() > 0 && !r.Replaying() {
			break
		}
	}
	if strings.HasSuffix(cid, "/0") {
		// one history per run ends with well over a hundred accepted receives on one chain, so that the comparison of
		// the receipt / acknowledgement lists with the accepted set below covers lists longer than any page size
		for k := 0; k < 130; k++ {
			h.tssTraffic("fresh-bulk")
		}
	}
	// the light clients expire (nobody updated them for longer than the trusting period) and a receive is presented to a
	// chain in that state; governance revives the clients below, after which the packet is presented again: whatever the
	// first attempt was answered with, the triple is accepted once, with one receive and one acknowledgement event
	expired := h.recvUnderExpiredClients()
	// closing steps: every client of every chain goes through each governance operation once (whatever was accepted from
	// that counterparty stays accepted: finalCheck compares the stored receipts and acknowledgements with the accepted set)
	for _, a := range s.W.Nodes {
		for _, b := range s.W.Nodes {
			if a == b {
				continue
			}
			for _, op := range []func(*core.Node, *core.Node) error{s.UpgradeClientRevisionRoundTrip, s.ToggleRoundTrip, s.UpgradeClient} {
				if err := op(a, b); err != nil {
					r.Inconclusive("%s: closing governance operation failed: %v", cid, err)
					return
				}
				r.Count("client_governance_operations_at_history_close", 1)
			}
		}
	}
	if expired != nil {
		p := expired
		rel := s.RandRelayer()
		if ph, err := s.EnsureClient(p.DstN, p.SrcN, rel, s.ProvableHeight(p.SrcN, p.SendBlock)); err == nil {
			if msg, err := s.RecvMsg(p, ph, rel); err == nil {
				o := s.Deliver(p.DstN, rel, "recv-after-revival "+p.Key(), msg)
				if p.Received {
					h.judgeReplay(p, o, "after-client-revival")
				} else {
					h.afterRecvAttempt(p, o, "after-client-revival", false)
					r.Count(fmt.Sprintf("recv_after_client_revival/accepted=%v", o.OK()), 1)
				}
			}
		}
	}
	// after an accepted sequence b, b+gap for every gap of the list, each followed by b again
	for _, g := range seqGaps {
		h.forceGap = g
		h.tssTraffic("gap")
	}
	h.forceGap = 0
	// a TSS-numbered packet with a sequence >= 2^63 and its immediate replay
	h.tssTraffic("fresh-high")
	h.tssTraffic("replay-last")
	h.finalCheck()
	if h.nRep > 0 {
		r.Count("histories_with_replays", 1)
	}
}

// recvUnderExpiredClients lets more than the trusting period pass without any client update and presents a pending
// packet's receive (built while the client was still alive) to its destination. It returns that packet.
func (h *hist) recvUnderExpiredClients() *pkt.Pkt {
	s := h.s
	pr := s.PendingRecv()
	if len(pr) == 0 {
		s.Send(s.RandSendSpec(callKinds))
		pr = s.PendingRecv()
	}
	if len(pr) == 0 {
		return nil
	}
	p := pr[s.Rng.Intn(len(pr))]
	rel := s.RandRelayer()
	ph, err := s.EnsureClient(p.DstN, p.SrcN, rel, s.ProvableHeight(p.SrcN, p.SendBlock))
	if err != nil {
		return nil
	}
	msg, err := s.RecvMsg(p, ph, rel)
	if err != nil {
		return nil
	}
	s.W.Advance(40 * 24 * time.Hour)
	for _, n := range s.W.Nodes {
		s.W.Roll(n)
	}
	o := s.Deliver(p.DstN, rel, "recv-under-expired-client "+p.Key(), msg)
	h.r.Eval(fmt.Sprintf("%s/%s/expired-client/%d", h.cid, p.Key(), len(s.Log)), o.Code != 1<<30)
	h.r.Count(fmt.Sprintf("recv_under_expired_client/accepted=%v", o.OK()), 1)
	h.afterRecvAttempt(p, o, "under-expired-client", false)
	if o.OK() {
		h.orig[p] = msg
	} else if len(o.Diff) != 0 {
		h.r.Violation(h.cid, "recv/under-expired-client/rejected-but-state-changed", map[string]interface{}{"packet": p.Key(), "diff": core.TrimDiff(o.Diff, 8)})
	}
	return p
}

// setupTSS gives every chain a TSS-secured counterparty whose account is a registered relayer, and a token bound to it.
func (h *hist) setupTSS() error {
	s := h.s
	h.tss = s.W.Relayers[len(s.W.Relayers)-1]
	for _, n := range s.W.Nodes {
		cs := &tsstypes.ClientState{TssAddress: h.tss.Bech32()}
		if err := n.App.XIBCKeeper.ClientKeeper.CreateClient(n.Ctx(), tssChain, cs, &tsstypes.ConsensusState{}); err != nil {
			return err
		}
		chains, addrs := []string{tssChain}, []string{h.tss.Bech32()}
		for _, o := range s.W.Nodes {
			if o != n {
				chains = append(chains, o.Name)
				addrs = append(addrs, h.tss.Bech32())
			}
		}
		n.App.XIBCKeeper.ClientKeeper.RegisterRelayers(n.Ctx(), h.tss.Bech32(), chains, addrs)
		for _, t := range s.Tokens {
			if t.Origin != n {
				if err := n.App.AggregateKeeper.RegisterERC20Trace(n.Ctx(), t.Wrapped[n.Name], "0x00000000000000000000000000000000000000aa", tssChain, 0); err != nil {
					return err
				}
				break
			}
		}
		s.W.Roll(n)
	}
	return nil
}

// tssTraffic delivers a fresh packet "from" the TSS-secured chain or replays an accepted one in several forms.
// seqGaps: distances at which a window of recent sequences, a page of a list or a ring of slots would wrap.
var seqGaps = []uint64{1, 2, 16, 64, 100, 128, 255, 256, 257, 512, 1000, 1024, 4096, 65536, 1 << 32}

func (h *hist) tssTraffic(mode string) {
	s := h.s
	n := s.W.Nodes[s.Rng.Intn(len(s.W.Nodes))]
	if mode == "replay-last" {
		if h.tssLastNode == nil {
			return
		}
		n = h.tssLastNode
	}
	if mode == "fresh-bulk" {
		n = s.W.Nodes[0]
	}
	mk := func(seq uint64, amount int64, receiver string) []byte {
		td := packettypes.TransferData{Receiver: receiver, Amount: big.NewInt(amount).FillBytes(make([]byte, 32)), Token: "0x00000000000000000000000000000000000000aa", OriToken: ""}
		tdb, _ := td.ABIPack()
		p := packettypes.Packet{SrcChain: tssChain, DstChain: n.Name, Sequence: seq, Sender: "0xtss-sender", TransferData: tdb, CallData: []byte{}, CallbackAddress: "", FeeOption: 0}
		bz, _ := p.ABIPack()
		return bz
	}
	var accepted []string
	for k := range h.tssOrig {
		if strings.HasPrefix(k, n.Name+"|") {
			accepted = append(accepted, k)
		}
	}
	sort.Strings(accepted)
	if mode == "replay-last" {
		accepted = []string{h.tssLastKey}
	}
	if mode != "replay-last" && (len(accepted) == 0 || s.Rng.Intn(3) == 0 || mode == "fresh-high" || mode == "fresh-bulk" || mode == "gap") {
		// a TSS-secured chain numbers its packets itself: any uint64, in any order (boundary values included)
		h.tssSeq++
		seq := h.tssSeq
		if s.Rng.Intn(2) == 0 && mode != "fresh-bulk" && mode != "gap" {
			seq = core.GenUint64(s.Rng)
		}
		neighbourOf := ""
		if (mode == "" && len(accepted) > 0 && s.Rng.Intn(3) == 0) || (mode == "gap" && len(accepted) > 0) {
			// a sequence at a fixed distance from an accepted one (anything that keeps only a window of recent sequences,
			// a page of a list or a ring of slots shows when an old number is presented again right afterwards)
			base := accepted[s.Rng.Intn(len(accepted))]
			gap := seqGaps[s.Rng.Intn(len(seqGaps))]
			if h.forceGap != 0 {
				gap = h.forceGap
			}
			if b := h.tssPkt[base].Packet.Sequence; b+gap > b {
				seq, neighbourOf = b+gap, base
			}
		}
		if mode == "fresh-high" {
			// sequences at and above 2^63 (where a signed conversion changes the number)
			seq = []uint64{1 << 63, 1<<63 + 1, ^uint64(0), ^uint64(0) - 1, 1<<63 + uint64(s.Rng.Int63())}[s.Rng.Intn(5)]
		}
		if _, dup := h.tssOrig[fmt.Sprintf("%s|%d", n.Name, seq)]; dup || seq == 0 {
			return
		}
		bz := mk(seq, 1000+int64(s.Rng.Intn(1000)), pkt.LowerHex(s.RandUser().Eth))
		msg := packettypes.NewMsgRecvPacket(bz, []byte("unused"), clienttypes.NewHeight(0, 1), h.tss.Acc)
		o := s.Deliver(n, h.tss, fmt.Sprintf("tss recv #%d", seq), msg)
		if o.OK() {
			var p packettypes.Packet
			_ = p.ABIDecode(bz)
			pk := s.Register(&core.SentPacket{Bytes: bz, Packet: p, Src: tssChain, Dst: n.Name}, pkt.SendSpec{}, n)
			pk.SrcN, pk.DstN, pk.Received, pk.RecvCount, pk.RecvBlock = nil, n, true, 1, o.Block
			key := fmt.Sprintf("%s|%d", n.Name, seq)
			h.tssOrig[key], h.tssPkt[key] = msg, pk
			h.tssLastNode, h.tssLastKey = n, key
			h.r.Count("tss_recvs_accepted", 1)
			if neighbourOf != "" {
				h.r.Count("tss_recvs_at_a_fixed_distance_from_an_accepted_sequence", 1)
				m := *h.tssOrig[neighbourOf]
				h.judgeReplay(h.tssPkt[neighbourOf], s.Deliver(n, h.tss, "replay tss/identical-after-a-later-sequence "+h.tssPkt[neighbourOf].Key(), &m), "tss/identical-after-a-later-sequence")
			}
		} else {
			h.r.Count("tss_recvs_rejected", 1)
		}
		return
	}
	key := accepted[s.Rng.Intn(len(accepted))]
	orig, pk := h.tssOrig[key], h.tssPkt[key]
	m := *orig
	variant := ""
	switch s.Rng.Intn(5) {
	case 0:
		variant = "tss/identical"
	case 1:
		m.Packet = mk(pk.Packet.Sequence, 777, pkt.LowerHex(s.RandUser().Eth))
		variant = "tss/altered-payload"
	case 2:
		m.ProofCommitment = []byte(h.tss.Bech32())
		m.ProofHeight = clienttypes.NewHeight(uint64(s.Rng.Intn(3)), uint64(1+s.Rng.Intn(50)))
		variant = "tss/other-proof-and-height"
	case 3:
		if encs := pkt.Reencodings(pk.Bytes); len(encs) > 0 {
			m.Packet = encs[s.Rng.Intn(len(encs))]
		}
		variant = "tss/re-encoded"
	case 4:
		s.W.Roll(n)
		variant = "tss/identical-in-later-block"
	}
	h.judgeReplay(pk, s.Deliver(n, h.tss, "replay "+variant+" "+pk.Key(), &m), variant)
}

func (h *hist) honestRecv() {
	s := h.s
	pr := s.PendingRecv()
	if len(pr) == 0 {
		return
	}
	p := pr[s.Rng.Intn(len(pr))]
	rel := s.RandRelayer()
	min := s.ProvableHeight(p.SrcN, p.SendBlock)
	ph, err := s.EnsureClient(p.DstN, p.SrcN, rel, min)
	if err != nil {
		h.r.Count("honest_recv_setup_failed", 1)
		return
	}
	msg, err := s.RecvMsg(p, ph, rel)
	if err != nil {
		return
	}
	o := s.Deliver(p.DstN, rel, "recv "+p.Key(), msg)
	h.afterRecvAttempt(p, o, "honest", false)
	if o.OK() {
		h.orig[p] = msg
		h.r.Count("honest_recvs", 1)
		// second transaction in the SAME block
		if s.Rng.Intn(3) == 0 {
			o2 := s.Deliver(p.DstN, s.RandRelayer(), "recv-again-same-block "+p.Key(), msg)
			h.judgeReplay(p, o2, "same-block-identical")
		}
	} else {
		h.r.Count("honest_recv_rejected", 1)
	}
}

// afterRecvAttempt updates the model and checks event counts of an accepted receive.
func (h *hist) afterRecvAttempt(p *pkt.Pkt, o *pkt.Obs, variant string, wasReceived bool) {
	if !o.OK() {
		return
	}
	nRecv, nAck := 0, 0
	for _, e := range core.RecvPackets(o.Result.Events) {
		if e.SrcChain == p.Src && e.DstChain == p.Dst && e.Sequence == fmt.Sprint(p.Packet.Sequence) {
			nRecv++
		}
	}
	for _, e := range core.WriteAcks(o.Result.Events) {
		if e.SrcChain == p.Src && e.DstChain == p.Dst && e.Sequence == fmt.Sprint(p.Packet.Sequence) {
			nAck++
		}
	}
	h.s.NoteRecv(p, o)
	if !wasReceived && (nRecv != 1 || nAck != 1) {
		h.r.Violation(h.cid, fmt.Sprintf("events/accepted-recv-with-%d-recv-%d-writeack-events", nRecv, nAck), map[string]interface{}{"packet": p.Key(), "variant": variant, "log": h.s.Log})
	}
}

// judgeReplay applies the C01 oracle to an attempt on a triple that had been accepted before.
func (h *hist) judgeReplay(p *pkt.Pkt, o *pkt.Obs, variant string) {
	h.nRep++
	reached := o.Code != 1<<30
	h.r.Eval(fmt.Sprintf("%s/%s/%s/%d", h.cid, p.Key(), variant, len(h.s.Log)), reached)
	h.r.Count("replays/"+variant, 1)
	if o.OK() {
		h.s.NoteRecv(p, o)
		h.r.Violation(h.cid, "replay/"+variant+"/accepted", map[string]interface{}{"packet": p.Key(), "acked": p.Acked, "log": h.s.Log})
		return
	}
	if len(o.Diff) != 0 {
		h.r.Violation(h.cid, "replay/"+variant+"/rejected-but-state-changed", map[string]interface{}{"packet": p.Key(), "diff": core.TrimDiff(o.Diff, 8), "log": h.s.Log})
	}
}

func (h *hist) replay() {
	s := h.s
	var cands []*pkt.Pkt
	for _, p := range s.ReceivedPkts() {
		if h.orig[p] != nil {
			cands = append(cands, p)
		}
	}
	if len(cands) == 0 {
		h.honestRecv()
		return
	}
	p := cands[s.Rng.Intn(len(cands))]
	orig := h.orig[p]
	rel := s.RandRelayer()
	suffix := "/before-ack"
	if p.Acked {
		suffix = "/after-ack"
	}
	fresh := func() (*packettypes.MsgRecvPacket, bool) {
		ph, err := s.EnsureClient(p.DstN, p.SrcN, rel, p.SrcN.Header.Height)
		if err != nil {
			return nil, false
		}
		m, err := s.RecvMsg(p, ph, rel)
		return m, err == nil
	}
	switch v := s.Rng.Intn(9); v {
	case 0:
		m := *orig
		h.judgeReplay(p, s.Deliver(p.DstN, accountOf(s, orig.Signer), "replay identical "+p.Key(), &m), "identical"+suffix)
	case 1:
		m := *orig
		m.Signer = rel.Bech32()
		h.judgeReplay(p, s.Deliver(p.DstN, rel, "replay other-relayer "+p.Key(), &m), "other-relayer"+suffix)
	case 2:
		if m, ok := fresh(); ok {
			h.judgeReplay(p, s.Deliver(p.DstN, rel, "replay fresh-proof "+p.Key(), m), "fresh-proof"+suffix)
		}
	case 3, 4:
		encs := pkt.Reencodings(p.Bytes)
		if len(encs) == 0 {
			return
		}
		m := *orig
		if v == 4 {
			if f, ok := fresh(); ok {
				m = *f
			}
		}
		m.Signer = rel.Bech32()
		k := s.Rng.Intn(len(encs))
		m.Packet = encs[k]
		h.judgeReplay(p, s.Deliver(p.DstN, rel, fmt.Sprintf("replay reencoded-%d %s", k, p.Key()), &m), "re-encoded"+suffix)
	case 5:
		q := p.Packet
		switch s.Rng.Intn(4) {
		case 0:
			q.Sender = pkt.LowerHex(s.RandUser().Eth) + "0"
		case 1:
			q.TransferData = append([]byte{}, q.TransferData...)
			if len(q.TransferData) > 0 {
				q.TransferData[len(q.TransferData)-1] ^= 1
			} else {
				q.TransferData = []byte{1}
			}
		case 2:
			q.CallData = append(append([]byte{}, q.CallData...), 7)
		case 3:
			q.FeeOption++
		}
		bz, err := q.ABIPack()
		if err != nil {
			return
		}
		m := *orig
		m.Signer = rel.Bech32()
		m.Packet = bz
		h.judgeReplay(p, s.Deliver(p.DstN, rel, "replay altered-payload "+p.Key(), &m), "altered-payload"+suffix)
	case 6:
		m1, m2 := *orig, *orig
		m1.Signer, m2.Signer = rel.Bech32(), rel.Bech32()
		h.judgeReplay(p, s.Deliver(p.DstN, rel, "replay doubled-in-tx "+p.Key(), &m1, &m2), "doubled-in-one-tx"+suffix)
	case 7:
		m := *orig
		m.Signer = rel.Bech32()
		m.ProofHeight.RevisionHeight += uint64(1 + s.Rng.Intn(3))
		h.judgeReplay(p, s.Deliver(p.DstN, rel, "replay other-height "+p.Key(), &m), "other-proof-height"+suffix)
	case 8:
		// after traffic on other paths and a client update
		a, b := s.RandNodePair()
		_, _, _ = s.UpdateClient(a, b, rel, 0)
		m := *orig
		m.Signer = rel.Bech32()
		h.judgeReplay(p, s.Deliver(p.DstN, rel, "replay after-update "+p.Key(), &m), "identical-after-client-update"+suffix)
	}
}

// doubleFresh puts two receives of a NOT yet received packet into one
// transaction: the second must make the whole transaction fail, leaving no
// receipt behind (the triple stays receivable exactly once).
func (h *hist) doubleFresh() {
	s := h.s
	pr := s.PendingRecv()
	if len(pr) == 0 {
		return
	}
	p := pr[s.Rng.Intn(len(pr))]
	rel := s.RandRelayer()
	min := s.ProvableHeight(p.SrcN, p.SendBlock)
	ph, err := s.EnsureClient(p.DstN, p.SrcN, rel, min)
	if err != nil {
		return
	}
	m1, err := s.RecvMsg(p, ph, rel)
	if err != nil {
		return
	}
	m2 := *m1
	msgs := []sdk.Msg{m1, &m2}
	o := s.Deliver(p.DstN, rel, "double-fresh "+p.Key(), msgs...)
	h.r.Eval(fmt.Sprintf("%s/%s/double-fresh/%d", h.cid, p.Key(), len(s.Log)), true)
	h.r.Count("replays/two-receives-of-fresh-packet-in-one-tx", 1)
	h.nRep++
	if o.OK() {
		// both receives of the same triple accepted in one transaction
		n := 0
		for _, e := range core.RecvPackets(o.Result.Events) {
			if e.SrcChain == p.Src && e.DstChain == p.Dst && e.Sequence == fmt.Sprint(p.Packet.Sequence) {
				n++
			}
		}
		s.NoteRecv(p, o)
		h.orig[p] = m1
		h.r.Violation(h.cid, "replay/doubled-fresh-in-one-tx/accepted", map[string]interface{}{"packet": p.Key(), "recv_events": n, "log": s.Log})
		return
	}
	if len(o.Diff) != 0 {
		h.r.Violation(h.cid, "replay/doubled-fresh-in-one-tx/rejected-but-state-changed", map[string]interface{}{"packet": p.Key(), "diff": core.TrimDiff(o.Diff, 8), "log": s.Log})
	}
}

func accountOf(s *pkt.Sim, bech string) *core.Account {
	for _, a := range s.W.Relayers {
		if a.Bech32() == bech {
			return a
		}
	}
	return s.W.Relayers[0]
}

// finalCheck compares the receipt set of every chain with the model.
func (h *hist) finalCheck() {
	s := h.s
	for _, n := range s.W.Nodes {
		var got, want []string
		for _, rc := range n.App.XIBCKeeper.PacketKeeper.GetAllPacketReceipts(n.Ctx()) {
			got = append(got, fmt.Sprintf("%s/%s/%d", rc.SrcChain, rc.DstChain, rc.Sequence))
		}
		for _, p := range s.Pkts {
			if p.Received && p.DstN == n {
				want = append(want, p.Key())
			}
			if p.RecvCount > 1 {
				h.r.Violation(h.cid, "model/packet-accepted-more-than-once", map[string]interface{}{"packet": p.Key(), "count": p.RecvCount})
			}
		}
		sort.Strings(got)
		sort.Strings(want)
		if fmt.Sprint(got) != fmt.Sprint(want) {
			h.r.Violation(h.cid, "receipts/store-differs-from-accepted-set", map[string]interface{}{"chain": n.Name, "store": got, "model": want, "log": s.Log})
		}
		h.r.Count("receipts_checked", len(got))
	}
	if len(s.Pkts) > 0 && h.r != nil {
		h.r.Sample(map[string]interface{}{"history": h.cid, "ops": len(s.Log), "packets": len(s.Pkts), "first_ops": firstN(s.Log, 6)})
	}
	_ = bytes.Equal
}

func firstN(l []string, n int) []string {
	if len(l) > n {
		return l[:n]
	}
	return l
}
