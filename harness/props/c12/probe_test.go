package c12

import (
	"fmt"
	"math/big"
	"testing"
	"time"

	sdk "github.com/cosmos/cosmos-sdk/types"
	banktypes "github.com/cosmos/cosmos-sdk/x/bank/types"
	"github.com/ethereum/go-ethereum/common"
	"github.com/ethereum/go-ethereum/crypto"

	aggtypes "github.com/teleport-network/teleport/x/aggregate/types"

	"verif/harness/core"
	ac "verif/harness/props/aggcommon"
)

func TestProbe(t *testing.T) {
	st := time.Now()
	accs := []*core.Account{core.NewAccount("u0"), core.NewAccount("u1"), core.NewAccount("dep")}
	coins := []string{"acoin", "bcoin", "ccoin", ac.IBCCoin}
	n := core.NewNode(core.NodeConfig{ChainID: "teleport_9000-1", XIBCName: "teleport", Accounts: accs, MutateGenesis: ac.FundGenesis(accs, coins, ac.UserFunds)})
	fmt.Println("node in", time.Since(st))
	n.Begin(time.Date(2022, 1, 2, 0, 0, 5, 0, time.UTC))
	u := accs[0]
	md := banktypes.Metadata{Description: "d", Base: "acoin", Display: "acoin-disp", Name: "A coin", Symbol: "AC",
		DenomUnits: []*banktypes.DenomUnit{{Denom: "acoin", Exponent: 0}, {Denom: "macoin", Exponent: 3}, {Denom: "acoin-disp", Exponent: 18}}}
	nonce, _ := n.App.AccountKeeper.GetSequence(n.Ctx(), aggtypes.ModuleAddress.Bytes())
	pred := crypto.CreateAddress(aggtypes.ModuleAddress, nonce)
	g := ac.Gov(n, n.Ctx(), aggtypes.NewRegisterCoinProposal("t", "d", md))
	fmt.Println("register coin", g.Validated, g.Err, "pred", pred)
	g.Write()
	reg, _ := ac.ReadRegistry(n, n.Ctx())
	fmt.Println(reg.Digest(), reg.Check())
	// again
	g = ac.Gov(n, n.Ctx(), aggtypes.NewRegisterCoinProposal("t", "d", md))
	fmt.Println("register coin again", g.Validated, g.Err)
	md2 := md
	md2.Base = "bcoin"
	md2.Name = "B coin"
	md2.DenomUnits = []*banktypes.DenomUnit{{Denom: "bcoin", Exponent: 0}, {Denom: "acoin-disp", Exponent: 18}}
	g = ac.Gov(n, n.Ctx(), aggtypes.NewAddCoinProposal("t", "d", md2, pred.Hex()))
	fmt.Println("add coin", g.Validated, g.Err)
	if g.Err == nil {
		g.Write()
	}
	reg, _ = ac.ReadRegistry(n, n.Ctx())
	fmt.Println(reg.Digest(), reg.Check())

	// conversion as tx
	msg := aggtypes.NewMsgConvertCoin(sdk.NewCoin("bcoin", sdk.NewInt(1000)), u.Eth, u.Acc)
	tx, err := n.CosmosTx(u, 3_000_000, msg)
	if err != nil {
		t.Fatal(err)
	}
	st = time.Now()
	res := n.Deliver(tx)
	fmt.Println("convert coin", res.Code, res.Codespace, res.Log[:min(len(res.Log), 200)], "gas", res.GasUsed, time.Since(st), "bal", n.ERC20Balance(pred, u.Eth))
	msg2 := aggtypes.NewMsgConvertERC20(sdk.NewInt(10), u.Acc, pred, u.Eth, "acoin")
	tx, _ = n.CosmosTx(u, 3_000_000, msg2)
	res = n.Deliver(tx)
	fmt.Println("convert erc20 to acoin (none escrowed)", res.Code, res.Codespace, res.Log[:min(len(res.Log), 300)])
	msg2 = aggtypes.NewMsgConvertERC20(sdk.NewInt(10), u.Acc, pred, u.Eth, "bcoin")
	tx, _ = n.CosmosTx(u, 3_000_000, msg2)
	res = n.Deliver(tx)
	fmt.Println("convert erc20 to bcoin", res.Code, res.Codespace, res.Log[:min(len(res.Log), 300)], n.ERC20Balance(pred, u.Eth))
	msg2 = aggtypes.NewMsgConvertERC20(sdk.NewInt(10), u.Acc, pred, u.Eth, "ccoin")
	tx, _ = n.CosmosTx(u, 3_000_000, msg2)
	res = n.Deliver(tx)
	fmt.Println("convert erc20 to ccoin (unregistered)", res.Code, res.Codespace, res.Log[:min(len(res.Log), 300)])

	// honest external tokens
	h1, err := n.DeployERC20("tokx", "TKX", 6)
	fmt.Println("h1", h1, err)
	h2, _ := n.DeployERC20("tokx", "TKX", 6)
	_ = n.MintERC20(h1, u.Eth, big.NewInt(1_000_000))
	_ = n.MintERC20(h2, u.Eth, big.NewInt(1_000_000))
	g = ac.Gov(n, n.Ctx(), aggtypes.NewRegisterERC20Proposal("t", "d", h1.Hex()))
	fmt.Println("register erc20", g.Validated, g.Err)
	g.Write()
	md3 := md
	md3.Base = "ccoin"
	md3.Name = "C coin"
	md3.DenomUnits = []*banktypes.DenomUnit{{Denom: "ccoin", Exponent: 0}, {Denom: "acoin-disp", Exponent: 18}}
	g = ac.Gov(n, n.Ctx(), aggtypes.NewAddCoinProposal("t", "d", md3, h1.Hex()))
	fmt.Println("add coin to ext", g.Validated, g.Err)
	if g.Err == nil {
		g.Write()
	}
	g = ac.Gov(n, n.Ctx(), aggtypes.NewUpdateTokenPairERC20Proposal("t", "d", h1.Hex(), h2.Hex()))
	fmt.Println("update", g.Validated, g.Err)
	if g.Err == nil {
		reg, _ = ac.ReadRegistry(n, g.Ctx)
		fmt.Println(reg.Digest())
		for _, p := range reg.Check() {
			fmt.Println("  PROBLEM", p)
		}
	}
	// facade
	fac, err := n.DeployRuntime(accs[2].Eth, ac.DestructibleFacade(h2))
	fmt.Println("facade", fac, err)
	g = ac.Gov(n, n.Ctx(), aggtypes.NewRegisterERC20Proposal("t", "d", fac.Hex()))
	fmt.Println("register facade", g.Validated, g.Err)
	g.Write()
	etx, err := n.EthTx(u, &fac, nil, 500000, ac.KillSelector)
	if err != nil {
		t.Fatal(err)
	}
	er := core.DecodeEthResult(n.Deliver(etx))
	fmt.Println("kill", er.Code, er.VmError, er.Log)
	acc := n.App.EvmKeeper.GetAccountWithoutBalance(n.Ctx(), fac)
	fmt.Println("acc after kill", acc)
	msg = aggtypes.NewMsgConvertCoin(sdk.NewCoin("aggregate/"+fac.Hex(), sdk.NewInt(1)), u.Eth, u.Acc)
	tx, _ = n.CosmosTx(u, 3_000_000, msg)
	res = n.Deliver(tx)
	fmt.Println("cleanup convert", res.Code, res.Codespace, res.Log[:min(len(res.Log), 300)])
	reg, _ = ac.ReadRegistry(n, n.Ctx())
	fmt.Println(reg.Digest(), reg.Check())
	n.End()
	_ = common.Address{}
}

func min(a, b int) int {
	if a < b {
		return a
	}
	return b
}
