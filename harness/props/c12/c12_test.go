// Package c12 monitors C12: the token-pair registry of x/aggregate stays
// self-consistent under every sequence of governance actions, conversions and
// self-destruct clean-ups.
//
// Workload: per history a fresh deterministic chain (core.Node) with funded
// coins and a pool of ERC-20 contracts (honest ERC20MinterBurnerDecimals of
// three metadata classes, the repository's two malicious tokens, destructible
// facades). A seeded, state-dependent generator issues RegisterCoin / AddCoin /
// RegisterERC20 / ToggleTokenRelay / UpdateTokenPairERC20 proposal contents
// (executed like x/gov does: ValidateBasic, handler on a cache context, written
// on nil error), real SELFDESTRUCT transactions and MsgConvertCoin /
// MsgConvertERC20 delivered through DeliverTx.
//
// Oracle: after every step the three raw prefixes of the aggregate store are
// parsed independently of the keeper and checked against the statement; every
// denomination that was converted coin->token earlier is probed for the way
// back (token->coin) on a discarded branch and must not fail with "token pair
// not found".
package c12

import (
	"os"
	"errors"
	"fmt"
	"math/big"
	"math/rand"
	"sort"
	"strings"

	"github.com/cosmos/cosmos-sdk/simapp"

	"github.com/teleport-network/teleport/app"
	"testing"
	"time"

	sdk "github.com/cosmos/cosmos-sdk/types"
	banktypes "github.com/cosmos/cosmos-sdk/x/bank/types"
	govtypes "github.com/cosmos/cosmos-sdk/x/gov/types"
	"github.com/ethereum/go-ethereum/common"
	"github.com/ethereum/go-ethereum/crypto"

	erc20contracts "github.com/teleport-network/teleport/syscontracts/erc20"
	aggtypes "github.com/teleport-network/teleport/x/aggregate/types"

	"verif/harness/core"
	ac "verif/harness/props/aggcommon"
)

// class is the (name, symbol, decimals) triple of an ERC-20; UpdateTokenPairERC20
// only accepts a new contract of the same class as the pair's metadata.
type class struct {
	Name, Symbol string
	Dec          uint8
}

var classes = []class{{"tokx", "TKX", 6}, {"toky", "TKY", 18}, {"tokz", "TKZ", 0}}

type token struct {
	Addr   common.Address
	Class  int    // index into classes, -1 for the repository's malicious tokens
	Kind   string // honest | direct | delayed | facade
	Killed bool
}

type hist struct {
	r      *core.Run
	id     string
	rng    *rand.Rand
	n      *core.Node
	users  []*core.Account
	dep    *core.Account
	coins  []string
	pool   []*token
	clk    time.Time
	ops    []string
	fwd    map[string]*core.Account // denomination -> user whose coin->token conversion succeeded
	fresh  int
	ended  bool
	modCls map[common.Address]int // module-owned contracts registered with metadata crafted for a class
}

func TestC12(t *testing.T) {
	r := core.NewRun(t, "C12")
	r.Rule = "seeded histories on a fresh chain each: state-dependent generator over RegisterCoin (metadata Name≠Base, Name=Base, Name=other pair's denomination, description/display crafted so that a later address update is acceptable), AddCoin (module-owned and external pairs, already registered denominations, unregistered contracts), RegisterERC20 (honest tokens of three metadata classes, repository's malicious tokens, destructible facades, non-contracts, registered addresses), ToggleTokenRelay (by address / any denomination), UpdateTokenPairERC20 (fresh same-class contract, contract already registered for another pair, same address, other class, non-contract; single- and multi-denomination pairs), real SELFDESTRUCT + clean-up by conversion, MsgConvertCoin / MsgConvertERC20 through DeliverTx. One evaluated case = one step; key = hash(raw registry before, action); non-trivial = the action was accepted by the handler / the transaction succeeded (i.e. it really changed or used the registry)."
	r.Assume("governance contents are executed as x/gov does (ValidateBasic at submission, handler on a cache context, written on nil error); the vote itself is not replayed")
	r.Assume("a governance action that breaks the registry is reported and then discarded, so that the rest of the history runs from a consistent registry (one root cause per report)")
	r.MinNontrivial(r.N(900, 20000))
	defer r.Finish()

	nh := r.N(100, 1000)
	steps := r.N(25, 60)
	for i := 0; i < nh; i++ {
		id := fmt.Sprintf("h%d", i)
		if !r.Want(id) {
			continue
		}
		h := newHist(r, id)
		if h == nil {
			continue
		}
		for s := 0; s < steps && !h.ended; s++ {
			h.step()
			if (s+1)%5 == 0 {
				h.roll()
			}
		}
		h.n.End()
		r.Count("histories", 1)
		if i < 2 {
			r.Sample(map[string]interface{}{"history": id, "ops": h.ops})
		}
	}
}

func newHist(r *core.Run, id string) *hist {
	h := &hist{r: r, id: id, rng: r.Rng(id), fwd: map[string]*core.Account{}, modCls: map[common.Address]int{}}
	h.users = []*core.Account{core.NewAccount("u0"), core.NewAccount("u1"), core.NewAccount("u2")}
	h.dep = core.NewAccount("dep")
	accs := append(append([]*core.Account{}, h.users...), h.dep)
	h.coins = []string{"acoin", "bcoin", "ccoin", "dcoin", "ecoin", ac.IBCCoin}
	// "squatter" coins: bank denominations that carry the very name the module would give the voucher of an ERC-20
	// contract deployed later (aggregate/<address>); registering such a coin and then the contract (or the other way
	// round) must not end with one denomination in two pairs
	for nonce := uint64(0); nonce < 2; nonce++ {
		h.coins = append(h.coins, aggtypes.CreateDenom(crypto.CreateAddress(h.dep.Eth, nonce).String()))
	}
	genesisDenom := ""
	withGenesisPair := h.rng.Intn(2) == 0
	if withGenesisPair {
		// (its voucher denomination has a supply - users hold it - but no bank metadata: the import writes none)
		genesisDenom = aggtypes.CreateDenom(crypto.CreateAddress(h.dep.Eth, 2).String())
		h.coins = append(h.coins, genesisDenom, "gcoin")
	}
	fund := ac.FundGenesis(accs, h.coins, ac.UserFunds)
	mut := fund
	if withGenesisPair {
		// the chain starts with a pair in its genesis file: the externally owned contract the deployer creates third, its
		// address written in lower case (genesis validation only asks for a hex address and the import stores the string as
		// given; pairs made on chain carry the mixed-case form)
		ga := crypto.CreateAddress(h.dep.Eth, 2)
		mut = func(tp *app.Teleport, gs simapp.GenesisState) {
			fund(tp, gs)
			var ag aggtypes.GenesisState
			tp.AppCodec().MustUnmarshalJSON(gs[aggtypes.ModuleName], &ag)
			ag.TokenPairs = append(ag.TokenPairs, aggtypes.TokenPair{ERC20Address: strings.ToLower(ga.Hex()), Denoms: []string{aggtypes.CreateDenom(ga.String())}, Enabled: true, ContractOwner: aggtypes.OWNER_EXTERNAL})
			// ... and a pair of a plain coin ("gcoin": supplied, no bank metadata) with the contract the deployer creates fourth
			ag.TokenPairs = append(ag.TokenPairs, aggtypes.TokenPair{ERC20Address: crypto.CreateAddress(h.dep.Eth, 3).Hex(), Denoms: []string{"gcoin"}, Enabled: true, ContractOwner: aggtypes.OWNER_MODULE})
			if err := ag.Validate(); err != nil {
				panic(err)
			}
			gs[aggtypes.ModuleName] = tp.AppCodec().MustMarshalJSON(&ag)
		}
		r.Count("histories_starting_from_a_genesis_pair_with_lower_case_address", 1)
	}
	h.n = core.NewNode(core.NodeConfig{ChainID: "teleport_9000-1", XIBCName: "teleport", Accounts: accs, MutateGenesis: mut})

	h.clk = time.Date(2022, 1, 2, 0, 0, 5, 0, time.UTC)
	h.n.Begin(h.clk)
	err, _ := core.Catch(func() error {
		for _, c := range []int{0, 0, 1, 2} {
			if _, err := h.deployHonest(c); err != nil {
				return err
			}
		}
		d, err := ac.DeployCompiled(h.n, h.dep.Eth, erc20contracts.ERC20DirectBalanceManipulationContract, big.NewInt(1_000_000_000))
		if err != nil {
			return err
		}
		h.pool = append(h.pool, &token{Addr: d, Class: -1, Kind: "direct"})
		m, err := ac.DeployCompiled(h.n, h.dep.Eth, erc20contracts.ERC20MaliciousDelayedContract, big.NewInt(1_000_000_000))
		if err != nil {
			return err
		}
		h.pool = append(h.pool, &token{Addr: m, Class: -1, Kind: "delayed"})
		for _, t := range []*token{h.pool[4], h.pool[5]} {
			for _, u := range h.users {
				if err := ac.Call(h.n, core.ERC20ABI, h.dep.Eth, t.Addr, "transfer", u.Eth, big.NewInt(1_000_000)); err != nil {
					return err
				}
			}
		}
		for _, ti := range []int{0, 1, 2} {
			if _, err := h.deployFacade(h.pool[ti]); err != nil {
				return err
			}
		}
		return nil
	})
	if err != nil {
		r.Inconclusive("world construction failed in %s: %v", id, err)
		return nil
	}
	return h
}

func (h *hist) deployHonest(c int) (*token, error) {
	cl := classes[c]
	a, err := h.n.DeployERC20(cl.Name, cl.Symbol, cl.Dec)
	if err != nil {
		return nil, err
	}
	for _, u := range h.users {
		if err := h.n.MintERC20(a, u.Eth, big.NewInt(1_000_000)); err != nil {
			return nil, err
		}
	}
	t := &token{Addr: a, Class: c, Kind: "honest"}
	h.pool = append(h.pool, t)
	return t, nil
}

func (h *hist) deployFacade(target *token) (*token, error) {
	a, err := h.n.DeployRuntime(h.dep.Eth, ac.DestructibleFacade(target.Addr))
	if err != nil {
		return nil, err
	}
	t := &token{Addr: a, Class: target.Class, Kind: "facade"}
	h.pool = append(h.pool, t)
	return t, nil
}

func (h *hist) roll() {
	h.n.End()
	h.clk = h.clk.Add(5 * time.Second)
	h.n.Begin(h.clk)
}

func (h *hist) tokenAt(a common.Address) *token {
	for _, t := range h.pool {
		if t.Addr == a {
			return t
		}
	}
	return nil
}

// ---------------------------------------------------------------- registry view for the generator

type pairView struct {
	ID   string
	Pair aggtypes.TokenPair
}

func sortedPairs(reg *ac.Registry) []pairView {
	var out []pairView
	for id, p := range reg.Pairs {
		out = append(out, pairView{id, p})
	}
	sort.Slice(out, func(i, j int) bool { return out[i].ID < out[j].ID })
	return out
}

func (h *hist) registry(ctx sdk.Context) *ac.Registry {
	reg, err := ac.ReadRegistry(h.n, ctx)
	if err != nil {
		h.r.Violation(h.id, "registry/undecodable-record", map[string]interface{}{"err": err.Error(), "ops": h.ops})
		h.ended = true
		return &ac.Registry{Pairs: map[string]aggtypes.TokenPair{}, ByERC20: map[string]string{}, ByDenom: map[string]string{}}
	}
	return reg
}

func (h *hist) classOfPair(p aggtypes.TokenPair) int {
	a := common.HexToAddress(p.ERC20Address)
	if t := h.tokenAt(a); t != nil {
		return t.Class
	}
	if c, ok := h.modCls[a]; ok {
		return c
	}
	return -1
}

// ---------------------------------------------------------------- metadata

func unitName(base, suffix string) string {
	b := base
	if strings.HasPrefix(b, "ibc/") {
		b = "ibcatom"
	}
	return suffix + b
}

// metadata builds coin metadata for base. variant: 0 Name≠Base, 1 Name=Base,
// 2 Name=other (a denomination of an existing pair), 3 crafted for class cls and
// contract address addr (description/display/symbol/unit as an ERC-20 voucher has).
func metadata(base string, variant int, other string, cls int, addr common.Address) banktypes.Metadata {
	md := banktypes.Metadata{
		Description: "coin " + base,
		Base:        base,
		Display:     unitName(base, "disp"),
		Name:        strings.ToUpper(unitName(base, "")) + " coin",
		Symbol:      strings.ToUpper(unitName(base, "")),
		DenomUnits: []*banktypes.DenomUnit{
			{Denom: base, Exponent: 0},
			{Denom: unitName(base, "m"), Exponent: 3, Aliases: []string{unitName(base, "milli")}},
			{Denom: unitName(base, "disp"), Exponent: 18},
		},
	}
	switch variant {
	case 1:
		md.Name = base
	case 2:
		md.Name = other
	case 3:
		cl := classes[cls]
		md.Description = aggtypes.CreateDenomDescription(addr.String())
		md.Symbol = cl.Symbol
		if cl.Dec > 0 {
			md.Display = cl.Name
			md.DenomUnits = []*banktypes.DenomUnit{{Denom: base, Exponent: 0}, {Denom: cl.Name, Exponent: uint32(cl.Dec)}}
		} else {
			md.Display = base
			md.DenomUnits = []*banktypes.DenomUnit{{Denom: base, Exponent: 0}}
		}
	}
	if strings.HasPrefix(base, "ibc/") {
		// validateIBC: name must mention the channel, symbol must start with "ibc"
		if variant != 2 {
			md.Name = "atom via channel-0"
			if variant == 1 {
				md.Name = base + " channel-0"
			}
		}
		if variant != 3 {
			md.Symbol = "ibcATOM"
		}
	}
	return md
}

// ---------------------------------------------------------------- steps

func (h *hist) pick(n int) int { return h.rng.Intn(n) }

func (h *hist) step() {
	ctx := h.n.Ctx()
	reg := h.registry(ctx)
	if h.ended {
		return
	}
	pairs := sortedPairs(reg)
	w := h.pick(100)
	switch {
	case w < 14:
		h.opRegisterCoin(reg, pairs)
	case w < 30:
		h.opAddCoin(reg, pairs)
	case w < 44:
		h.opRegisterERC20(reg, pairs)
	case w < 52:
		h.opToggle(reg, pairs)
	case w < 68:
		h.opUpdate(reg, pairs)
	case w < 72:
		h.opDestruct(reg, pairs)
	case w < 87:
		h.opConvertCoin(reg, pairs)
	default:
		h.opConvertERC20(reg, pairs)
	}
}

func (h *hist) registeredDenoms(pairs []pairView) []string {
	var out []string
	for _, p := range pairs {
		out = append(out, p.Pair.Denoms...)
	}
	return out
}

func (h *hist) pickCoin(reg *ac.Registry, preferFree int) string {
	var free []string
	for _, c := range h.coins {
		if _, ok := reg.ByDenom[c]; !ok {
			free = append(free, c)
		}
	}
	if len(free) > 0 && h.pick(100) < preferFree {
		return free[h.pick(len(free))]
	}
	return h.coins[h.pick(len(h.coins))]
}

func (h *hist) opRegisterCoin(reg *ac.Registry, pairs []pairView) {
	base := h.pickCoin(reg, 75)
	variant := []int{0, 0, 0, 1, 2, 3, 3}[h.pick(7)]
	other := ""
	if ds := h.registeredDenoms(pairs); variant == 2 {
		if len(ds) == 0 {
			variant = 0
		} else {
			other = ds[h.pick(len(ds))]
		}
	}
	cls := h.pick(len(classes))
	nonce, _ := h.n.App.AccountKeeper.GetSequence(h.n.Ctx(), aggtypes.ModuleAddress.Bytes())
	pred := crypto.CreateAddress(aggtypes.ModuleAddress, nonce)
	md := metadata(base, variant, other, cls, pred)
	desc := fmt.Sprintf("register-coin base=%s variant=%d name=%q", base, variant, md.Name)
	ok := h.gov("register-coin", desc, reg, aggtypes.NewRegisterCoinProposal("t", "d", md))
	if ok && variant == 3 {
		h.modCls[pred] = cls
	}
	if !ok && variant == 2 {
		h.r.Count("register_refused_name_equals_other_denom", 1)
	}
}

func (h *hist) opAddCoin(reg *ac.Registry, pairs []pairView) {
	base := h.pickCoin(reg, 65)
	if ds := h.registeredDenoms(pairs); len(ds) > 0 && h.pick(100) < 20 {
		// a denomination that already belongs to a pair (with or without bank metadata - a genesis pair's has none)
		base = ds[h.pick(len(ds))]
	}
	variant := []int{0, 0, 0, 1, 2}[h.pick(5)]
	other := ""
	if ds := h.registeredDenoms(pairs); variant == 2 {
		if len(ds) == 0 {
			variant = 0
		} else {
			other = ds[h.pick(len(ds))]
		}
	}
	var contract string
	x := h.pick(100)
	switch {
	case len(pairs) > 0 && x < 88:
		contract = pairs[h.pick(len(pairs))].Pair.ERC20Address
		if h.pick(4) == 0 {
			contract = strings.ToLower(contract)
		}
	case x < 95:
		contract = h.pool[h.pick(len(h.pool))].Addr.Hex()
	default:
		contract = h.users[0].Eth.Hex()
	}
	md := metadata(base, variant, other, 0, common.Address{})
	desc := fmt.Sprintf("add-coin base=%s variant=%d name=%q contract=%s", base, variant, md.Name, contract)
	h.gov("add-coin", desc, reg, aggtypes.NewAddCoinProposal("t", "d", md, contract))
}

func (h *hist) opRegisterERC20(reg *ac.Registry, pairs []pairView) {
	var addr common.Address
	x := h.pick(100)
	var free []*token
	for _, t := range h.pool {
		if _, ok := reg.ByERC20[ac.AddrKey(t.Addr.Hex())]; !ok && !t.Killed {
			free = append(free, t)
		}
	}
	switch {
	case x < 75 && len(free) > 0:
		addr = free[h.pick(len(free))].Addr
	case x < 90 && len(pairs) > 0:
		addr = common.HexToAddress(pairs[h.pick(len(pairs))].Pair.ERC20Address)
	case x < 95:
		addr = h.users[1].Eth
	default:
		addr = h.pool[h.pick(len(h.pool))].Addr
	}
	h.gov("register-erc20", "register-erc20 "+addr.Hex(), reg, aggtypes.NewRegisterERC20Proposal("t", "d", addr.Hex()))
}

func (h *hist) opToggle(reg *ac.Registry, pairs []pairView) {
	tok := "unknowncoin"
	if len(pairs) > 0 && h.pick(10) > 0 {
		p := pairs[h.pick(len(pairs))].Pair
		if h.pick(2) == 0 {
			tok = p.ERC20Address
		} else {
			tok = p.Denoms[h.pick(len(p.Denoms))]
		}
	}
	h.gov("toggle", "toggle "+tok, reg, aggtypes.NewToggleTokenRelayProposal("t", "d", tok))
}

func (h *hist) opUpdate(reg *ac.Registry, pairs []pairView) {
	if len(pairs) == 0 {
		h.opRegisterERC20(reg, pairs)
		return
	}
	// prefer pairs whose metadata admits an update (external or crafted module pairs)
	var cand []pairView
	for _, p := range pairs {
		if h.classOfPair(p.Pair) >= 0 {
			cand = append(cand, p)
		}
	}
	if len(cand) == 0 && h.pick(10) < 7 {
		h.opRegisterERC20(reg, pairs)
		return
	}
	// multi-denomination candidates get extra weight: they are the shape the
	// repository's tests never exercise
	for _, p := range append([]pairView{}, cand...) {
		if len(p.Pair.Denoms) > 1 {
			cand = append(cand, p)
		}
	}
	pv := pairs[h.pick(len(pairs))]
	if len(cand) > 0 && h.pick(10) < 8 {
		pv = cand[h.pick(len(cand))]
	}
	old := common.HexToAddress(pv.Pair.ERC20Address)
	cls := h.classOfPair(pv.Pair)
	var nu common.Address
	kind := ""
	x := h.pick(100)
	sameClass := func(registered bool) []*token {
		var out []*token
		for _, t := range h.pool {
			_, isReg := reg.ByERC20[ac.AddrKey(t.Addr.Hex())]
			if t.Class == cls && cls >= 0 && !t.Killed && t.Addr != old && isReg == registered {
				out = append(out, t)
			}
		}
		return out
	}
	switch {
	case x < 45 && cls >= 0:
		kind = "fresh"
		free := sameClass(false)
		if len(free) > 0 && (h.fresh >= 10 || h.pick(2) == 0) {
			nu = free[h.pick(len(free))].Addr
		} else if h.fresh < 10 {
			t, err := h.deployHonest(cls)
			if err != nil {
				h.r.Inconclusive("deploy failed in %s: %v", h.id, err)
				h.ended = true
				return
			}
			h.fresh++
			nu = t.Addr
		} else {
			nu = old
			kind = "same"
		}
	case x < 75 && cls >= 0:
		kind = "registered"
		regd := sameClass(true)
		if len(regd) == 0 {
			// register one of the same class first next time; fall back to any registered address
			nu = common.HexToAddress(pairs[h.pick(len(pairs))].Pair.ERC20Address)
		} else {
			nu = regd[h.pick(len(regd))].Addr
		}
	case x < 80:
		kind = "same"
		nu = old
	case x < 92:
		kind = "any"
		nu = h.pool[h.pick(len(h.pool))].Addr
	default:
		kind = "non-contract"
		nu = h.users[2].Eth
	}
	_, nuReg := reg.ByERC20[ac.AddrKey(nu.Hex())]
	desc := fmt.Sprintf("update-erc20 old=%s denoms=%d owner=%d new=%s (%s, registered=%v)", old.Hex(), len(pv.Pair.Denoms), pv.Pair.ContractOwner, nu.Hex(), kind, nuReg && nu != old)
	ok := h.gov("update-erc20", desc, reg, aggtypes.NewUpdateTokenPairERC20Proposal("t", "d", old.Hex(), nu.Hex()))
	if ok {
		if len(pv.Pair.Denoms) > 1 {
			h.r.Count("update_accepted_multi_denom", 1)
		}
		if nuReg && nu != old {
			h.r.Count("update_accepted_to_registered_address", 1)
		}
		if c, isMod := h.modCls[old]; isMod {
			h.modCls[nu] = c
		}
	}
}

func (h *hist) opDestruct(reg *ac.Registry, pairs []pairView) {
	var live, liveReg []*token
	for _, t := range h.pool {
		if t.Kind == "facade" && !t.Killed {
			live = append(live, t)
			if _, ok := reg.ByERC20[ac.AddrKey(t.Addr.Hex())]; ok {
				liveReg = append(liveReg, t)
			}
		}
	}
	if len(live) == 0 {
		h.opConvertCoin(reg, pairs)
		return
	}
	t := live[h.pick(len(live))]
	if len(liveReg) == 0 && h.pick(4) > 0 {
		// killing an unregistered contract teaches nothing about the registry: register it first
		h.gov("register-erc20", "register-erc20 "+t.Addr.Hex(), reg, aggtypes.NewRegisterERC20Proposal("t", "d", t.Addr.Hex()))
		return
	}
	if len(liveReg) > 0 && h.pick(4) > 0 {
		t = liveReg[h.pick(len(liveReg))]
	}
	if _, ok := reg.ByERC20[ac.AddrKey(t.Addr.Hex())]; ok && h.pick(4) != 0 {
		// first aggregate one more coin into the pair that is about to lose its contract (its first denomination is the
		// voucher "aggregate/0x...", coins like "acoin" sort before it): the clean-up then has a multi-denomination pair
		base := h.pickCoin(reg, 100)
		md := metadata(base, 0, "", 0, common.Address{})
		h.gov("add-coin", fmt.Sprintf("add-coin base=%s variant=0 name=%q contract=%s (before selfdestruct)", base, md.Name, t.Addr.Hex()), reg, aggtypes.NewAddCoinProposal("t", "d", md, t.Addr.Hex()))
		if h.ended {
			return
		}
		reg = h.registry(h.n.Ctx())
	}
	u := h.users[h.pick(len(h.users))]
	tx, err := h.n.EthTx(u, &t.Addr, nil, 500000, ac.KillSelector)
	if err != nil {
		h.r.Inconclusive("cannot build kill tx: %v", err)
		h.ended = true
		return
	}
	res := core.DecodeEthResult(h.n.Deliver(tx))
	desc := "selfdestruct " + t.Addr.Hex()
	h.ops = append(h.ops, desc)
	if !res.OK() {
		h.r.Inconclusive("kill transaction failed in %s: %d %s %s", h.id, res.Code, res.VmError, res.Log)
		h.ended = true
		return
	}
	t.Killed = true
	h.r.Count("selfdestructs", 1)
	h.r.Eval(reg.Digest()+"|"+desc, true)
	h.after("selfdestruct", desc, h.n.Ctx(), nil, true)
	// often clean up right away (otherwise a later conversion picks the pair by chance)
	if !h.ended && h.pick(4) != 0 {
		reg2 := h.registry(h.n.Ctx())
		for _, pv := range sortedPairs(reg2) {
			if common.HexToAddress(pv.Pair.ERC20Address) != t.Addr {
				continue
			}
			d := pv.Pair.Denoms[h.pick(len(pv.Pair.Denoms))]
			if h.pick(2) == 0 {
				msg := aggtypes.NewMsgConvertCoin(sdk.Coin{Denom: d, Amount: sdk.NewInt(1)}, u.Eth, u.Acc)
				h.tx("selfdestruct-cleanup", fmt.Sprintf("selfdestruct-cleanup %s 1%s", u.Name, d), reg2, u, msg)
			} else {
				msg := aggtypes.NewMsgConvertERC20(sdk.NewInt(1), u.Acc, t.Addr, u.Eth, d)
				h.tx("selfdestruct-cleanup", fmt.Sprintf("selfdestruct-cleanup %s 1 of %s as %s", u.Name, t.Addr.Hex(), d), reg2, u, msg)
			}
			break
		}
	}
	// replace the facade so that later histories keep having destructible contracts
	if h.fresh < 10 {
		for _, p := range h.pool {
			if p.Kind == "honest" && p.Class == t.Class {
				if _, err := h.deployFacade(p); err == nil {
					h.fresh++
				}
				break
			}
		}
	}
}

// pairOfDenom finds the pair records listing a denomination.
func pairsListing(pairs []pairView, denom string) []pairView {
	var out []pairView
	for _, p := range pairs {
		for _, d := range p.Pair.Denoms {
			if d == denom {
				out = append(out, p)
				break
			}
		}
	}
	return out
}

func (h *hist) contractDead(p aggtypes.TokenPair) bool {
	t := h.tokenAt(common.HexToAddress(p.ERC20Address))
	return t != nil && t.Killed
}

func (h *hist) opConvertCoin(reg *ac.Registry, pairs []pairView) {
	u := h.users[h.pick(len(h.users))]
	ds := h.registeredDenoms(pairs)
	denom := h.coins[h.pick(len(h.coins))]
	if len(ds) > 0 && h.pick(10) > 0 {
		denom = ds[h.pick(len(ds))]
		// prefer denominations that have not been converted yet (more way-back expectations)
		var todo []string
		for _, d := range ds {
			if _, done := h.fwd[d]; !done {
				todo = append(todo, d)
			}
		}
		if len(todo) > 0 && h.pick(3) > 0 {
			denom = todo[h.pick(len(todo))]
		}
	}
	amt := int64(100 + h.pick(900))
	msg := aggtypes.NewMsgConvertCoin(sdk.Coin{Denom: denom, Amount: sdk.NewInt(amt)}, u.Eth, u.Acc)
	action := "convert-coin"
	for _, p := range pairsListing(pairs, denom) {
		if h.contractDead(p.Pair) {
			action = "selfdestruct-cleanup"
		}
	}
	desc := fmt.Sprintf("%s %s %d%s", action, u.Name, amt, denom)
	before := h.n.App.BankKeeper.GetBalance(h.n.Ctx(), u.Acc, denom).Amount
	ok := h.tx(action, desc, reg, u, msg)
	if ok && action == "convert-coin" {
		after := h.n.App.BankKeeper.GetBalance(h.n.Ctx(), u.Acc, denom).Amount
		if before.Sub(after).Equal(sdk.NewInt(amt)) {
			h.fwd[denom] = u
			h.r.Count("forward_conversions_recorded", 1)
		}
	}
}

func (h *hist) opConvertERC20(reg *ac.Registry, pairs []pairView) {
	if len(pairs) == 0 {
		h.opRegisterCoin(reg, pairs)
		return
	}
	u := h.users[h.pick(len(h.users))]
	p := pairs[h.pick(len(pairs))].Pair
	denom := p.Denoms[h.pick(len(p.Denoms))]
	if h.pick(12) == 0 {
		denom = h.coins[h.pick(len(h.coins))]
	}
	amt := int64(1 + h.pick(60))
	msg := aggtypes.NewMsgConvertERC20(sdk.NewInt(amt), u.Acc, common.HexToAddress(p.ERC20Address), u.Eth, denom)
	action := "convert-erc20"
	if h.contractDead(p) {
		action = "selfdestruct-cleanup"
	}
	desc := fmt.Sprintf("%s %s %d of %s as %s", action, u.Name, amt, p.ERC20Address, denom)
	h.tx(action, desc, reg, u, msg)
}

// gov executes a proposal content like x/gov; returns whether it was accepted
// (and written).
func (h *hist) gov(action, desc string, reg *ac.Registry, content govtypes.Content) bool {
	h.ops = append(h.ops, desc)
	g := ac.Gov(h.n, h.n.Ctx(), content)
	if os.Getenv("C12_DEBUG") != "" && strings.Contains(desc, "add-coin base=aggregate/") {
		fmt.Println("DBG2", desc, g.Validated, g.Panicked, g.Err)
	}
	h.r.Count("gov_"+action, 1)
	if !g.Validated {
		h.r.Count("gov_"+action+"_invalid_basic", 1)
		h.r.Eval(reg.Digest()+"|"+desc, false)
		return false
	}
	if g.Panicked {
		// a panic in a proposal handler halts the chain (x/gov does not recover):
		// not what C12 states, so it is only counted here.
		h.r.Count("gov_"+action+"_panicked", 1)
		h.r.Eval(reg.Digest()+"|"+desc, false)
		return false
	}
	if g.Err != nil {
		h.r.Count("gov_"+action+"_rejected", 1)
		h.r.Eval(reg.Digest()+"|"+desc, true)
		h.ops[len(h.ops)-1] += " -> rejected: " + firstLine(g.Err.Error())
		if os.Getenv("C12_DEBUG") != "" && strings.Contains(desc, "add-coin base=aggregate/") {
			fmt.Println("DBG", h.ops[len(h.ops)-1])
		}
		return false
	}
	h.r.Count("gov_"+action+"_accepted", 1)
	h.r.Eval(reg.Digest()+"|"+desc, true)
	clean := h.after(action, desc, g.Ctx, reg, false)
	if clean {
		g.Write()
		h.ops[len(h.ops)-1] += " -> accepted"
		return true
	}
	h.ops[len(h.ops)-1] += " -> accepted, BROKE THE REGISTRY, discarded"
	h.r.Count("gov_discarded_after_violation", 1)
	return false
}

// tx delivers a conversion through DeliverTx.
func (h *hist) tx(action, desc string, reg *ac.Registry, from *core.Account, msg sdk.Msg) bool {
	h.ops = append(h.ops, desc)
	bz, err := h.n.CosmosTx(from, 5_000_000, msg)
	if err != nil {
		h.r.Inconclusive("cannot build tx in %s: %v", h.id, err)
		h.ended = true
		return false
	}
	res := h.n.Deliver(bz)
	h.r.Count("tx_"+action, 1)
	if res.Code != 0 {
		h.r.Count("tx_"+action+"_failed", 1)
		h.r.Eval(reg.Digest()+"|"+desc, false)
		h.ops[len(h.ops)-1] += fmt.Sprintf(" -> failed %s/%d", res.Codespace, res.Code)
		// a failed transaction must not have touched the registry
		if d := h.registry(h.n.Ctx()).Digest(); d != reg.Digest() {
			h.r.Violation(h.id, action+"/failed-tx-changed-registry", map[string]interface{}{"ops": h.ops, "before": reg.Digest(), "after": d})
			h.ended = true
		}
		return false
	}
	h.r.Count("tx_"+action+"_ok", 1)
	h.r.Eval(reg.Digest()+"|"+desc, true)
	h.ops[len(h.ops)-1] += " -> ok"
	if !h.after(action, desc, h.n.Ctx(), reg, true) {
		h.ended = true // the broken state is committed; stop this history (one root cause per report)
	}
	return true
}

// after judges the state in ctx reached by the last step. It returns false
// when the registry is inconsistent.
func (h *hist) after(action, desc string, ctx sdk.Context, before *ac.Registry, committed bool) bool {
	reg := h.registry(ctx)
	if h.ended {
		return false
	}
	clean := true
	probs := reg.Check()
	h.r.Count("invariant_checks", 1)
	h.r.Count("pairs_checked", len(reg.Pairs))
	multi := 0
	for _, p := range reg.Pairs {
		if len(p.Denoms) > 1 {
			multi++
		}
	}
	h.r.Count("multi_denom_pairs_checked", multi)
	if len(probs) > 0 {
		clean = false
		byKind := map[string][]string{}
		for _, p := range probs {
			byKind[p.Kind] = append(byKind[p.Kind], p.Detail)
		}
		kinds := make([]string, 0, len(byKind))
		for k := range byKind {
			kinds = append(kinds, k)
		}
		sort.Strings(kinds)
		for _, k := range kinds {
			d := map[string]interface{}{"step": desc, "problems": byKind[k], "registry_after": reg.Digest(), "ops": h.ops}
			if before != nil {
				d["registry_before"] = before.Digest()
			}
			h.r.Violation(h.id, action+"/"+k, d)
		}
	}
	// the code's own look-ups must agree with the raw analysis, and every
	// denomination converted coin->token earlier must still find its way back
	k := h.n.App.AggregateKeeper
	bad := map[string]bool{}
	for _, p := range probs {
		bad[p.Detail] = true
	}
	pairs := sortedPairs(reg)
	if len(probs) == 0 {
		for _, pv := range pairs {
			for _, d := range pv.Pair.Denoms {
				_, err := k.MintingEnabled(ctx, h.users[0].Acc, h.users[0].Acc, pv.Pair.ERC20Address, d)
				h.r.Count("lookup_probes", 1)
				if err != nil && errors.Is(err, aggtypes.ErrTokenPairNotFound) {
					clean = false
					h.r.Violation(h.id, action+"/lookup-disagrees-with-raw-registry", map[string]interface{}{"step": desc, "pair": pv.Pair.String(), "denom": d, "err": err.Error(), "ops": h.ops})
				}
			}
		}
	}
	var fd []string
	for d := range h.fwd {
		fd = append(fd, d)
	}
	sort.Strings(fd)
	for _, d := range fd {
		u := h.fwd[d]
		owners := pairsListing(pairs, d)
		if len(owners) == 0 {
			// the pair was removed (self-destruct clean-up): nothing left to convert back into
			delete(h.fwd, d)
			h.r.Count("expectation_dropped_pair_deleted", 1)
			continue
		}
		for _, pv := range owners {
			msg := aggtypes.NewMsgConvertERC20(sdk.NewInt(1), u.Acc, common.HexToAddress(pv.Pair.ERC20Address), u.Eth, d)
			bctx, _ := ctx.CacheContext()
			bctx = bctx.WithEventManager(sdk.NewEventManager())
			err, _ := core.Catch(func() error {
				_, e := k.ConvertERC20(sdk.WrapSDKContext(bctx), msg)
				return e
			})
			h.r.Count("convert_back_probes", 1)
			switch {
			case err == nil:
				h.r.Count("convert_back_ok", 1)
			case errors.Is(err, aggtypes.ErrTokenPairNotFound):
				clean = false
				h.r.Violation(h.id, action+"/convert-back-not-registered", map[string]interface{}{
					"step": desc, "denom": d, "pair": pv.Pair.String(), "err": firstLine(err.Error()), "registry_after": reg.Digest(), "ops": h.ops,
				})
			default:
				h.r.Count("convert_back_failed_other_reason", 1)
			}
		}
	}
	return clean
}

func firstLine(s string) string {
	if i := strings.IndexByte(s, '\n'); i >= 0 {
		s = s[:i]
	}
	if len(s) > 240 {
		s = s[:240]
	}
	return s
}
