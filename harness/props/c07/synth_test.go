package c07

// Synthetic counterparty chain for C07: deterministic ed25519 validators,
// evolving validator sets, and a commit builder that controls exactly which
// validator produced which kind of signature.

import (
	"crypto/sha256"
	"encoding/binary"
	"fmt"
	"math/rand"
	"sort"
	"strings"
	"time"

	tmed "github.com/tendermint/tendermint/crypto/ed25519"
	"github.com/tendermint/tendermint/crypto/tmhash"
	tmproto "github.com/tendermint/tendermint/proto/tendermint/types"
	tmprotoversion "github.com/tendermint/tendermint/proto/tendermint/version"
	tmtypes "github.com/tendermint/tendermint/types"
	"github.com/tendermint/tendermint/version"

	xtm "github.com/teleport-network/teleport/x/xibc/clients/light-clients/tendermint/types"
	clienttypes "github.com/teleport-network/teleport/x/xibc/core/client/types"
)

const poolSize = 12
const maxVals = 8

type member struct {
	K int   // key index in the pool
	P int64 // voting power
}

// vset is a validator set whose composition the generator knows by key index.
type vset struct {
	ms    []member
	tm    *tmtypes.ValidatorSet
	keyAt []int         // key index at position i of tm.Validators
	pow   map[int]int64 // key index -> power
	total int64
	hash  []byte
	desc  string
}

// cpty is the synthetic counterparty.
type cpty struct {
	base   string // chain id without "-<revision>"
	keys   []tmed.PrivKey
	addrK  map[string]int
	t0     time.Time // time origin of revision 1
	t0r2   time.Time // time origin of revision 2 (set at upgrade)
	step   time.Duration
	sets   map[uint64][]*vset // revision -> sets by height (index = height, 0 unused)
	evo    *rand.Rand
	maxH   int64
	hasR2  bool
	salt   string
	change float64 // probability that the validator set changes between two heights
}

func newCpty(salt string, rng *rand.Rand, t0 time.Time, step time.Duration) *cpty {
	c := &cpty{
		base: "c07net" + fmt.Sprint(rng.Intn(1000)), addrK: map[string]int{}, t0: t0, step: step,
		sets: map[uint64][]*vset{}, maxH: 400, salt: salt,
		evo:    rand.New(rand.NewSource(rng.Int63())),
		change: []float64{0, 0.1, 0.25, 0.5}[rng.Intn(4)],
	}
	for i := 0; i < poolSize; i++ {
		k := tmed.GenPrivKeyFromSecret([]byte(fmt.Sprintf("c07-val/%s/%d", salt, i)))
		c.keys = append(c.keys, k)
		c.addrK[string(k.PubKey().Address())] = i
	}
	c.sets[1] = []*vset{nil, c.mkSet(initialMembers(rng))}
	return c
}

func (c *cpty) chainID(rev uint64) string { return fmt.Sprintf("%s-%d", c.base, rev) }

// initialMembers draws a power profile that sits around the 1/3 and 2/3 boundaries.
func initialMembers(rng *rand.Rand) []member {
	n := 1 + rng.Intn(maxVals)
	perm := rng.Perm(poolSize)[:n]
	ps := make([]int64, n)
	switch rng.Intn(7) {
	case 0: // equal powers
		p := []int64{1, 1, 10, 1000000}[rng.Intn(4)]
		for i := range ps {
			ps[i] = p
		}
	case 1: // small random
		for i := range ps {
			ps[i] = 1 + int64(rng.Intn(9))
		}
	case 2: // total divisible by 3 (exact thirds reachable)
		var tot int64
		for i := range ps {
			ps[i] = 1 + int64(rng.Intn(6))
			tot += ps[i]
		}
		ps[0] += (3 - tot%3) % 3
	case 3: // one validator holds exactly 2/3 (or everything when alone)
		var rest int64
		for i := 1; i < n; i++ {
			ps[i] = 1 + int64(rng.Intn(5))
			rest += ps[i]
		}
		if rest == 0 {
			ps[0] = 3
		} else {
			ps[0] = 2 * rest
		}
	case 4: // one validator holds exactly 1/3, total divisible by 6
		var rest int64
		for i := 1; i < n; i++ {
			ps[i] = 2 * (1 + int64(rng.Intn(5)))
			rest += ps[i]
		}
		if rest == 0 {
			ps[0] = 6
		} else {
			ps[0] = rest / 2
		}
	case 5: // large powers
		for i := range ps {
			ps[i] = 1 + rng.Int63n(1000000000000)
		}
	default: // descending 1..n (total n(n+1)/2)
		for i := range ps {
			ps[i] = int64(n - i)
		}
	}
	ms := make([]member, n)
	for i := range ms {
		if ps[i] < 1 {
			ps[i] = 1
		}
		ms[i] = member{K: perm[i], P: ps[i]}
	}
	return ms
}

func (c *cpty) mkSet(ms []member) *vset {
	ms = append([]member{}, ms...)
	sort.Slice(ms, func(i, j int) bool { return ms[i].K < ms[j].K })
	vals := make([]*tmtypes.Validator, len(ms))
	s := &vset{ms: ms, pow: map[int]int64{}}
	var parts []string
	for i, m := range ms {
		vals[i] = tmtypes.NewValidator(c.keys[m.K].PubKey(), m.P)
		s.pow[m.K] = m.P
		s.total += m.P
		parts = append(parts, fmt.Sprintf("k%d:%d", m.K, m.P))
	}
	s.tm = tmtypes.NewValidatorSet(vals)
	for _, v := range s.tm.Validators {
		s.keyAt = append(s.keyAt, c.addrK[string(v.Address)])
	}
	s.hash = s.tm.Hash()
	s.desc = strings.Join(parts, ",")
	return s
}

// evolve derives the validator set of the next height.
func (c *cpty) evolve(prev *vset) *vset {
	r := c.evo
	if r.Float64() >= c.change {
		return prev
	}
	ms := append([]member{}, prev.ms...)
	in := map[int]bool{}
	for _, m := range ms {
		in[m.K] = true
	}
	freeKey := func() int {
		for _, k := range r.Perm(poolSize) {
			if !in[k] {
				return k
			}
		}
		return -1
	}
	switch op := r.Intn(10); {
	case op < 4: // power change of one member
		i := r.Intn(len(ms))
		switch r.Intn(5) {
		case 0:
			ms[i].P++
		case 1:
			if ms[i].P > 1 {
				ms[i].P--
			}
		case 2:
			ms[i].P *= 2
		case 3:
			ms[i].P = prev.total * 2 // takes over 2/3 of the new set
		default:
			ms[i].P = 1 + int64(r.Intn(10))
		}
	case op < 6: // add
		if k := freeKey(); k >= 0 && len(ms) < maxVals {
			p := int64(1 + r.Intn(10))
			if r.Intn(3) == 0 {
				p = prev.total
			}
			ms = append(ms, member{K: k, P: p})
		}
	case op < 8: // remove
		if len(ms) > 1 {
			i := r.Intn(len(ms))
			ms = append(ms[:i], ms[i+1:]...)
		}
	case op < 9: // replace one member by a fresh key with the same power
		if k := freeKey(); k >= 0 {
			ms[r.Intn(len(ms))].K = k
		}
	default: // replace everything
		n := 1 + r.Intn(4)
		var nm []member
		for _, k := range r.Perm(poolSize) {
			if !in[k] && len(nm) < n {
				nm = append(nm, member{K: k, P: int64(1 + r.Intn(5))})
			}
		}
		if len(nm) > 0 {
			ms = nm
		}
	}
	return c.mkSet(ms)
}

// setAt returns the validator set of (rev, h); h is clamped to [1, maxH+1].
func (c *cpty) setAt(rev uint64, h int64) *vset {
	if h < 1 {
		h = 1
	}
	if h > c.maxH+1 {
		h = c.maxH + 1
	}
	ss := c.sets[rev]
	if ss == nil {
		// unknown revision: derive from revision 1 height 1 (only used by mutated cases)
		return c.sets[1][1]
	}
	for int64(len(ss)) <= h {
		ss = append(ss, c.evolve(ss[len(ss)-1]))
	}
	c.sets[rev] = ss
	return ss[h]
}

// startRev2 begins revision 2 at time origin t with the given first set.
func (c *cpty) startRev2(t time.Time, first *vset) {
	c.hasR2 = true
	c.t0r2 = t
	c.sets[2] = []*vset{nil, first}
}

func (c *cpty) timeAt(rev uint64, h int64) time.Time {
	origin := c.t0
	if rev == 2 {
		origin = c.t0r2
	}
	hs := sha256.Sum256([]byte(fmt.Sprintf("jit/%s/%d/%d", c.salt, rev, h)))
	jit := time.Duration(binary.BigEndian.Uint64(hs[:8]) % uint64(c.step/2))
	return origin.Add(time.Duration(h) * c.step).Add(jit).UTC()
}

// heightAt is the largest height whose block time is <= t.
func (c *cpty) heightAt(rev uint64, t time.Time) int64 {
	origin := c.t0
	if rev == 2 {
		origin = c.t0r2
	}
	h := int64(t.Sub(origin) / c.step)
	for h > 0 && c.timeAt(rev, h).After(t) {
		h--
	}
	if h > c.maxH {
		h = c.maxH
	}
	return h
}

func (c *cpty) appAt(rev uint64, h int64) []byte {
	hs := sha256.Sum256([]byte(fmt.Sprintf("app/%s/%d/%d", c.salt, rev, h)))
	return hs[:]
}

// ------------------------------------------------------------------ header spec

// signature kinds, per position of the supplied validator set
const (
	sigAbsent = iota
	sigCommit // valid signature for the block
	sigNil    // valid nil vote
	sigCorrupt
	sigWrongKey
	sigWrongChain
	sigWrongBlock
	sigGarbageAbsent // a validator that did not sign, presented with flag Commit and random bytes
)

var sigNames = []string{"absent", "commit", "nil", "corrupt", "wrongkey", "wrongchain", "wrongblock", "garbage"}

type spec struct {
	mode      string
	chainID   string
	signChain string
	height    int64
	time      time.Time
	appHash   []byte
	nextHash  []byte
	valHash   []byte
	supplied  *vset
	kinds     []int
	trusted   clienttypes.Height
	tvals     *tmproto.ValidatorSet
	ownProto  func(*tmproto.ValidatorSet) // optional tweak of the supplied set proto
	post      []string
	rehash    bool
	muts      []string
	subset    string
}

// truth is what the generator knows about the built header.
type truth struct {
	signers   map[int]bool // key indices that validly signed exactly this header
	anomalies []string
}

func (c *cpty) tmHeader(s *spec) tmtypes.Header {
	return tmtypes.Header{
		Version: tmprotoversion.Consensus{Block: version.BlockProtocol, App: 2},
		ChainID: s.chainID, Height: s.height, Time: s.time,
		LastBlockID:    tmtypes.BlockID{Hash: make([]byte, tmhash.Size), PartSetHeader: tmtypes.PartSetHeader{Total: 10000, Hash: make([]byte, tmhash.Size)}},
		LastCommitHash: tmhash.Sum([]byte("last_commit")), DataHash: tmhash.Sum([]byte("data_hash")),
		ValidatorsHash: s.valHash, NextValidatorsHash: s.nextHash, ConsensusHash: tmhash.Sum([]byte("consensus_hash")),
		AppHash: s.appHash, LastResultsHash: tmhash.Sum([]byte("last_results_hash")), EvidenceHash: tmhash.Sum([]byte("evidence_hash")),
		ProposerAddress: s.supplied.tm.Proposer.Address,
	}
}

func signBytes(chainID string, height int64, round int32, bid tmtypes.BlockID, ts time.Time, addr []byte, idx int32) []byte {
	v := &tmtypes.Vote{Type: tmproto.PrecommitType, Height: height, Round: round, BlockID: bid, Timestamp: ts, ValidatorAddress: addr, ValidatorIndex: idx}
	return tmtypes.VoteSignBytes(chainID, v.ToProto())
}

// build produces the wire header for a spec together with the ground truth.
func (c *cpty) build(s *spec, rng *rand.Rand) (*xtm.Header, truth) {
	tr := truth{signers: map[int]bool{}}
	h := c.tmHeader(s)
	blockID := tmtypes.BlockID{Hash: h.Hash(), PartSetHeader: tmtypes.PartSetHeader{Total: 3, Hash: tmhash.Sum([]byte("part_set"))}}
	commit := &tmtypes.Commit{Height: s.height, Round: 1, BlockID: blockID, Signatures: make([]tmtypes.CommitSig, len(s.kinds))}
	for i, kind := range s.kinds {
		val := s.supplied.tm.Validators[i]
		k := s.supplied.keyAt[i]
		ts := s.time.Add(time.Duration(i) * time.Millisecond)
		switch kind {
		case sigAbsent:
			commit.Signatures[i] = tmtypes.NewCommitSigAbsent()
			continue
		case sigNil:
			sig, _ := c.keys[k].Sign(signBytes(s.signChain, s.height, 1, tmtypes.BlockID{}, ts, val.Address, int32(i)))
			commit.Signatures[i] = tmtypes.CommitSig{BlockIDFlag: tmtypes.BlockIDFlagNil, ValidatorAddress: val.Address, Timestamp: ts, Signature: sig}
			continue
		}
		chain, bid, signer := s.signChain, blockID, k
		switch kind {
		case sigWrongKey:
			signer = (k + 1 + rng.Intn(poolSize-1)) % poolSize
		case sigWrongChain:
			chain = "elsewhere-" + fmt.Sprint(clienttypes.ParseChainID(s.chainID))
		case sigWrongBlock:
			bid = tmtypes.BlockID{Hash: tmhash.Sum([]byte("another block")), PartSetHeader: blockID.PartSetHeader}
		}
		sig, _ := c.keys[signer].Sign(signBytes(chain, s.height, 1, bid, ts, val.Address, int32(i)))
		switch kind {
		case sigCorrupt:
			sig = append([]byte{}, sig...)
			sig[rng.Intn(len(sig))] ^= 1 << uint(rng.Intn(8))
		case sigGarbageAbsent:
			sig = make([]byte, 64)
			rng.Read(sig)
		}
		commit.Signatures[i] = tmtypes.CommitSig{BlockIDFlag: tmtypes.BlockIDFlagCommit, ValidatorAddress: val.Address, Timestamp: ts, Signature: sig}
		if kind == sigCommit {
			if s.signChain == s.chainID {
				tr.signers[k] = true
			}
		} else {
			tr.anomalies = append(tr.anomalies, "sig-"+sigNames[kind])
		}
	}
	if s.signChain != s.chainID {
		tr.anomalies = append(tr.anomalies, "signed-for-other-chain-id")
	}
	vs, err := s.supplied.tm.ToProto()
	if err != nil {
		panic(err)
	}
	if s.ownProto != nil {
		s.ownProto(vs)
		tr.anomalies = append(tr.anomalies, "own-proto-tweak")
	}
	hdr := &xtm.Header{
		SignedHeader:      &tmproto.SignedHeader{Header: h.ToProto(), Commit: commit.ToProto()},
		ValidatorSet:      vs,
		TrustedHeight:     s.trusted,
		TrustedValidators: s.tvals,
	}
	// tampering after the validators signed
	ph, pc := hdr.SignedHeader.Header, hdr.SignedHeader.Commit
	for _, op := range s.post {
		switch op {
		case "hdr.time+1ns":
			ph.Time = ph.Time.Add(time.Nanosecond)
		case "hdr.time-1s":
			ph.Time = ph.Time.Add(-time.Second)
		case "hdr.apphash":
			ph.AppHash = flip(ph.AppHash, rng)
		case "hdr.height+1":
			ph.Height++
		case "hdr.height-1":
			ph.Height--
		case "hdr.chainid":
			ph.ChainID = "tampered-" + fmt.Sprint(clienttypes.ParseChainID(ph.ChainID))
		case "hdr.nextvalhash":
			ph.NextValidatorsHash = flip(ph.NextValidatorsHash, rng)
		case "hdr.datahash":
			ph.DataHash = flip(ph.DataHash, rng)
		case "hdr.lastresults":
			ph.LastResultsHash = flip(ph.LastResultsHash, rng)
		case "commit.blockid.hash":
			pc.BlockID.Hash = flip(pc.BlockID.Hash, rng)
		case "commit.blockid.parts":
			pc.BlockID.PartSetHeader.Total++
		case "commit.round":
			pc.Round++
		case "commit.height":
			pc.Height++
		}
	}
	if len(s.post) > 0 {
		tr.signers = map[int]bool{} // nobody signed the header as submitted
		tr.anomalies = append(tr.anomalies, "tampered-after-signing")
		if s.rehash {
			if th, err := tmtypes.HeaderFromProto(ph); err == nil {
				pc.BlockID.Hash = th.Hash()
				pc.Height = ph.Height
			}
		}
	}
	return hdr, tr
}

func flip(b []byte, rng *rand.Rand) []byte {
	out := append([]byte{}, b...)
	if len(out) == 0 {
		return []byte{1}
	}
	out[rng.Intn(len(out))] ^= 1 << uint(rng.Intn(8))
	return out
}

func mustProto(s *vset) *tmproto.ValidatorSet {
	p, err := s.tm.ToProto()
	if err != nil {
		panic(err)
	}
	return p
}
