package c07

import (
	"bytes"
	"fmt"
	"strings"
	"time"

	sdk "github.com/cosmos/cosmos-sdk/types"

	xtm "github.com/teleport-network/teleport/x/xibc/clients/light-clients/tendermint/types"
	clienttypes "github.com/teleport-network/teleport/x/xibc/core/client/types"
	"github.com/teleport-network/teleport/x/xibc/core/host"

	"verif/harness/core"
)

func errClass(err error) string {
	if err == nil {
		return "nil"
	}
	s := err.Error()
	for _, p := range []string{"PANIC", "status Expired", "status Unknown", "not enough voting power", "does not hash to latest trusted validators",
		"could not get consensus state", "old header has expired", "from the future", "to be after old header time", "wrong signature",
		"header height ≤", "revision", "another chain", "commit signs block", "validator set does not match hash", "TrustedHeight",
		"to match those from new header", "commit height mismatch", "invalid commit", "invalid header", "cannot be trusted"} {
		if strings.Contains(s, p) {
			return strings.ReplaceAll(p, " ", "-")
		}
	}
	if len(s) > 40 {
		s = s[len(s)-40:]
	}
	return s
}

func (h *hist) detail(s *spec, v verdict, err error) map[string]interface{} {
	m := h.m
	var hs []string
	for _, ht := range m.heights() {
		rec := m.cons[ht]
		hs = append(hs, fmt.Sprintf("%s@%s", ht, rec.time.Format(time.RFC3339Nano)))
	}
	d := map[string]interface{}{
		"history": h.cid, "step": h.step, "attempt": h.att, "now": h.now.Format(time.RFC3339Nano),
		"trust_level": fmt.Sprintf("%d/%d", m.tlNum, m.tlDen), "trusting_period": m.tp.String(), "max_clock_drift": m.drift.String(),
		"client_latest": m.latest.String(), "stored": hs,
		"order": s.mode, "signer_choice": s.subset, "mutations": s.muts, "header_chain_id": s.chainID, "header_height": s.height,
		"header_time": s.time.Format(time.RFC3339Nano), "trusted_height": s.trusted.String(), "own_set": s.supplied.desc, "sig_kinds": fmt.Sprint(s.kinds),
		"oracle": v.v, "reject_reasons": v.reasons, "not_pinned": v.soft,
	}
	if err != nil {
		d["error"] = err.Error()
	}
	return d
}

func (h *hist) shapeKey(s *spec, v verdict) string {
	m := h.m
	rec := m.cons[s.trusted]
	var sp []string
	for i, k := range s.kinds {
		sp = append(sp, fmt.Sprintf("%d:%s", s.supplied.pow[s.supplied.keyAt[i]], sigNames[k]))
	}
	return fmt.Sprintf("tl=%d/%d|%s|T=%s|H=%d|sigs=%s|muts=%v|dtT=%d|tp=%d|dH=%d|drift=%d|latest=%s|n=%d|%s%v",
		m.tlNum, m.tlDen, s.mode, s.trusted, s.height, strings.Join(sp, ","), s.muts, h.now.Sub(rec.time), m.tp, s.time.Sub(h.now), m.drift,
		m.latest, len(m.cons), v.v, v.reasons)
}

// attempt submits one header the way a delivered transaction would (ValidateBasic,
// then the keeper on a cache context written only on success) and judges it.
func (h *hist) attempt(pre *spec) bool {
	m, c, n, r := h.m, h.c, h.n, h.r
	s := pre
	if s == nil {
		rev, T, H, mode := h.plan()
		s = h.honest(rev, T, H, mode)
		h.mutate(s, rev, T, H)
	}
	hdr, tr := c.build(s, h.rng)
	v := judge(m, c, hdr, tr, h.now)
	h.att++

	ctx := n.Ctx()
	before := n.DumpPrefix(ctx, "xibc", h.prefix)
	cctx, write := ctx.CacheContext()
	reached := false
	err, panicked := core.Catch(func() error {
		if e := hdr.ValidateBasic(); e != nil {
			return e
		}
		reached = true
		return h.ck().UpdateClient(cctx, m.name, hdr)
	})
	r.Eval(h.shapeKey(s, v), reached)
	r.Count("header_cases", 1)
	r.Count("oracle/"+v.v, 1)
	r.Count("order/"+s.mode, 1)
	r.Count("signers/"+s.subset, 1)
	if len(s.muts) == 0 {
		r.Count("mutation/none", 1)
	}
	for _, mu := range s.muts {
		if i := strings.IndexAny(mu, "@/"); i > 0 && (strings.HasPrefix(mu, "sig.") || strings.HasPrefix(mu, "post.")) {
			mu = mu[:i]
		}
		r.Count("mutation/"+mu, 1)
	}
	for _, reason := range v.reasons {
		r.Count("must_reject_reason/"+reason, 1)
	}
	if len(v.reasons) == 1 {
		r.Count("must_reject_single_reason/"+v.reasons[0], 1)
	}
	for _, sft := range v.soft {
		if sft == "adjacent-not-above-trust-level" || strings.HasSuffix(sft, "-boundary") {
			r.Count("not_pinned/"+sft, 1)
		}
	}
	if panicked {
		r.Count("panics_in_update", 1)
	}
	if !reached {
		r.Count("stopped_by_validate_basic", 1)
	}
	for _, reason := range v.reasons {
		if reason == "client-expired" {
			h.afterEx++
		}
	}

	if err != nil {
		r.Count("rejected/"+v.v, 1)
		r.Count("reject_error/"+errClass(err), 1)
		if v.v == mustAccept {
			r.Violation(h.cid, "header/rejected/must-accept/"+errClass(err), h.detail(s, v, err))
			h.dead = true
		}
		after := n.DumpPrefix(cctx, "xibc", h.prefix)
		if d := core.Diff("xibc", before, after); len(d) > 0 {
			det := h.detail(s, v, err)
			det["diff"] = core.TrimDiff(d, 8)
			r.Violation(h.cid, "reject/client-store-changed", det)
			h.dead = true
		}
		return false
	}

	r.Count("accepted/"+v.v, 1)
	if v.v == either {
		r.Count("accepted_either/"+v.soft[0], 1)
	}
	if v.v == mustReject {
		r.Violation(h.cid, "header/accepted/"+v.first(), h.detail(s, v, nil))
		h.dead = true
		return true
	}
	after := n.DumpPrefix(cctx, "xibc", h.prefix)
	if !h.checkAccepted(before, after, hdr, cctx, s, v) {
		h.dead = true
		return true
	}
	write()
	if h.att%7 == 1 {
		r.Sample(map[string]interface{}{"kind": "accepted-header", "case": h.detail(s, v, nil)})
	}
	return true
}

// checkAccepted verifies the stored effects of an accepted header and advances the model.
func (h *hist) checkAccepted(before, after core.KV, hdr *xtm.Header, cctx sdk.Context, s *spec, v verdict) bool {
	m, r := h.m, h.r
	ok := true
	viol := func(key string, extra map[string]interface{}) {
		det := h.detail(s, v, nil)
		for k, x := range extra {
			det[k] = x
		}
		r.Violation(h.cid, key, det)
		ok = false
	}
	ph := hdr.SignedHeader.Header
	ht := clienttypes.NewHeight(clienttypes.ParseChainID(ph.ChainID), uint64(ph.Height))
	pfx := string(h.prefix)
	kCS := pfx + string(host.ClientStateKey())
	kCons := pfx + string(host.ConsensusStateKey(ht))
	kPT := pfx + string(xtm.ProcessedTimeKey(ht))
	kIter := pfx + string(xtm.IterationKey(ht))
	own := map[string]bool{kCS: true, kCons: true, kPT: true, kIter: true}

	oldest, hasOld := m.oldestWithMeta()
	oldKeys := map[string]bool{}
	prunable := false
	if hasOld && !oldest.EQ(ht) {
		oldKeys[pfx+string(host.ConsensusStateKey(oldest))] = true
		oldKeys[pfx+string(xtm.ProcessedTimeKey(oldest))] = true
		oldKeys[pfx+string(xtm.IterationKey(oldest))] = true
		prunable = !m.cons[oldest].time.Add(m.tp).After(h.now)
	}
	deletedOld := 0
	keys := map[string]bool{}
	for k := range before {
		keys[k] = true
	}
	for k := range after {
		keys[k] = true
	}
	for k := range keys {
		bv, bok := before[k]
		av, aok := after[k]
		if bok && aok && bytes.Equal(bv, av) {
			continue
		}
		if own[k] && aok {
			continue
		}
		if oldKeys[k] && !aok {
			if !prunable {
				viol("prune/unexpired-oldest-state-deleted", map[string]interface{}{"deleted_key": fmt.Sprintf("%q", k), "oldest": oldest.String()})
			}
			deletedOld++
			continue
		}
		op := "modified"
		if !aok {
			op = "deleted"
		} else if !bok {
			op = "added"
		}
		viol("accept/unexpected-store-change/"+op, map[string]interface{}{"key": fmt.Sprintf("%q", k)})
	}
	if deletedOld != 0 && deletedOld != 3 {
		viol("prune/state-and-metadata-not-deleted-together", map[string]interface{}{"deleted": deletedOld, "oldest": oldest.String()})
	}

	// consensus state at exactly the header's height
	if _, found := after[kCons]; !found {
		viol("accept/consensus-state-not-stored-at-header-height", nil)
	} else {
		csI, _ := h.ck().GetClientConsensusState(cctx, m.name, ht)
		got, isTM := csI.(*xtm.ConsensusState)
		switch {
		case !isTM:
			viol("accept/stored-consensus-state-differs/type", nil)
		case !got.Timestamp.Equal(ph.Time):
			viol("accept/stored-consensus-state-differs/time", map[string]interface{}{"stored": got.Timestamp.String()})
		case !bytes.Equal(got.Root, ph.AppHash):
			viol("accept/stored-consensus-state-differs/app-hash", map[string]interface{}{"stored": core.Hex(got.Root)})
		case !bytes.Equal(got.NextValidatorsHash, ph.NextValidatorsHash):
			viol("accept/stored-consensus-state-differs/next-validators-hash", map[string]interface{}{"stored": core.Hex(got.NextValidatorsHash)})
		}
	}
	// processed time = block time, iteration key
	wantPT := sdk.Uint64ToBigEndian(uint64(h.now.UnixNano()))
	if pt, found := after[kPT]; !found {
		viol("accept/processed-time-missing", nil)
	} else if !bytes.Equal(pt, wantPT) {
		viol("accept/processed-time-not-block-time", map[string]interface{}{"stored": core.Hex(pt), "block_time_ns": h.now.UnixNano()})
	}
	if it, found := after[kIter]; !found {
		viol("accept/iteration-key-missing", nil)
	} else if !bytes.Equal(it, host.ConsensusStateKey(ht)) {
		viol("accept/iteration-key-wrong", nil)
	}
	// client state: only LatestHeight may change, to max(old, new)
	cdc := h.n.App.AppCodec()
	oldI, err1 := clienttypes.UnmarshalClientState(cdc, before[kCS])
	newI, err2 := clienttypes.UnmarshalClientState(cdc, after[kCS])
	if err1 != nil || err2 != nil {
		viol("accept/client-state-unreadable", nil)
		return false
	}
	oldCS, newCS := oldI.(*xtm.ClientState), newI.(*xtm.ClientState)
	if !oldCS.LatestHeight.EQ(m.latest) {
		r.Inconclusive("%s: model latest %s != stored %s before update", h.cid, m.latest, oldCS.LatestHeight)
		return false
	}
	want := oldCS.LatestHeight
	if ht.GT(want) {
		want = ht
	}
	switch {
	case newCS.LatestHeight.LT(oldCS.LatestHeight):
		viol("accept/latest-height-lowered", map[string]interface{}{"old": oldCS.LatestHeight.String(), "new": newCS.LatestHeight.String()})
	case !newCS.LatestHeight.EQ(want):
		viol("accept/latest-height-not-max", map[string]interface{}{"old": oldCS.LatestHeight.String(), "new": newCS.LatestHeight.String(), "want": want.String()})
	default:
		exp := *oldCS
		exp.LatestHeight = want
		if !bytes.Equal(clienttypes.MustMarshalClientState(cdc, &exp), after[kCS]) {
			viol("accept/client-state-changed-beyond-latest-height", nil)
		}
	}
	if !ok {
		return false
	}
	// advance the model
	if deletedOld == 3 {
		delete(m.cons, oldest)
		r.Count("pruned_expired_oldest", 1)
	} else if prunable {
		r.Count("prunable_not_pruned", 1)
	}
	m.cons[ht] = consRec{time: ph.Time, root: ph.AppHash, nvh: ph.NextValidatorsHash, hasMeta: true, procTime: uint64(h.now.UnixNano())}
	if ht.GT(m.latest) {
		m.latest = ht
		r.Count("latest_height_raised", 1)
	} else {
		r.Count("accepted_at_or_below_latest", 1)
	}
	return true
}

// expiryInversion scripts a history in which the latest consensus state is older
// (in time) than a lower stored height, then lets the client expire while that
// lower state is still inside the trusting period: only the keeper's status gate
// stands between an honest header trusted on the lower height and acceptance.
func (h *hist) expiryInversion(h0 int64) {
	c, m := h.c, h.m
	all := func(s *spec) *spec {
		for i := range s.kinds {
			s.kinds[i] = sigCommit
		}
		s.subset = "all(scripted)"
		return s
	}
	h.block(c.timeAt(1, h0+7))
	if !h.attempt(all(h.honest(1, h0, h0+5, "scripted-skip"))) || h.dead {
		return
	}
	s := all(h.honest(1, h0, h0+9, "scripted-time-inversion"))
	s.time = m.cons[clienttypes.NewHeight(1, uint64(h0))].time.Add(time.Second)
	s.muts = append(s.muts, "pre.time-before-lower-stored-height")
	if !h.attempt(s) || h.dead {
		return
	}
	h.block(s.time.Add(m.tp + time.Second))
	h.r.Count("expiry_inversion_scripts", 1)
	h.attempt(all(h.honest(1, h0+5, h0+11, "scripted-after-client-expiry")))
}
