package c07

// Reference acceptance predicate for C07, written from the property statement.
// Three-valued: MUST_ACCEPT / MUST_REJECT / EITHER.

import (
	"bytes"
	"fmt"
	"math/big"
	"sort"
	"strings"
	"time"

	tmproto "github.com/tendermint/tendermint/proto/tendermint/types"
	tmtypes "github.com/tendermint/tendermint/types"

	xtm "github.com/teleport-network/teleport/x/xibc/clients/light-clients/tendermint/types"
	clienttypes "github.com/teleport-network/teleport/x/xibc/core/client/types"
)

const (
	mustAccept = "MUST_ACCEPT"
	mustReject = "MUST_REJECT"
	either     = "EITHER"
)

// consRec is the model's record of one stored consensus state.
type consRec struct {
	time     time.Time
	root     []byte
	nvh      []byte
	hasMeta  bool
	procTime uint64
}

// clientModel is the reference state of one Tendermint client.
type clientModel struct {
	name   string
	base   string // chain id without revision
	tlNum  uint64
	tlDen  uint64
	tp     time.Duration
	drift  time.Duration
	latest clienttypes.Height
	cons   map[clienttypes.Height]consRec
}

func (m *clientModel) heights() []clienttypes.Height {
	out := make([]clienttypes.Height, 0, len(m.cons))
	for h := range m.cons {
		out = append(out, h)
	}
	sort.Slice(out, func(i, j int) bool { return out[i].LT(out[j]) })
	return out
}

// oldestWithMeta is the first height the implementation's ascending iteration can see.
func (m *clientModel) oldestWithMeta() (clienttypes.Height, bool) {
	for _, h := range m.heights() {
		if m.cons[h].hasMeta {
			return h, true
		}
	}
	return clienttypes.Height{}, false
}

// setView is a validator set as read from the wire form by the generator's key table.
type setView struct {
	pow   map[int]int64
	total *big.Int
	hash  []byte
}

func (c *cpty) viewSet(p *tmproto.ValidatorSet) (*setView, error) {
	vs, err := tmtypes.ValidatorSetFromProto(p)
	if err != nil {
		return nil, err
	}
	v := &setView{pow: map[int]int64{}, total: new(big.Int), hash: vs.Hash()}
	for _, val := range vs.Validators {
		v.total.Add(v.total, big.NewInt(val.VotingPower))
		if k, ok := c.addrK[string(val.PubKey.Address())]; ok {
			v.pow[k] += val.VotingPower
		}
	}
	return v, nil
}

func (v *setView) signed(signers map[int]bool) *big.Int {
	s := new(big.Int)
	for k := range signers {
		s.Add(s, big.NewInt(v.pow[k]))
	}
	return s
}

// moreThan reports signed/total > num/den.
func moreThan(signed, total *big.Int, num, den uint64) bool {
	l := new(big.Int).Mul(signed, new(big.Int).SetUint64(den))
	r := new(big.Int).Mul(total, new(big.Int).SetUint64(num))
	return l.Cmp(r) > 0
}

type verdict struct {
	v       string
	reasons []string // why MUST_REJECT
	soft    []string // why not MUST_ACCEPT (outcome not pinned by the statement)
}

func (v verdict) first() string {
	if len(v.reasons) > 0 {
		return v.reasons[0]
	}
	return ""
}

// judge evaluates the property's acceptance conditions for a header as submitted.
func judge(m *clientModel, c *cpty, hdr *xtm.Header, tr truth, now time.Time) verdict {
	var out verdict
	rej := func(s string) { out.reasons = append(out.reasons, s) }
	soft := func(s string) { out.soft = append(out.soft, s) }
	ph := hdr.SignedHeader.Header

	// an expired client accepts nothing
	if lat, ok := m.cons[m.latest]; ok {
		exp := lat.time.Add(m.tp)
		if now.After(exp) {
			rej("client-expired")
		} else if now.Equal(exp) {
			soft("client-expiry-boundary")
		}
	} else {
		soft("latest-consensus-state-missing")
	}

	th := hdr.TrustedHeight
	rec, haveRec := m.cons[th]
	if !haveRec {
		rej("no-consensus-state-at-trusted-height")
	}
	tset, terr := c.viewSet(hdr.TrustedValidators)
	if terr != nil {
		rej("trusted-validators-unhashable")
	} else if haveRec && !bytes.Equal(tset.hash, rec.nvh) {
		rej("trusted-validators-hash-mismatch")
	}

	hrev := clienttypes.ParseChainID(ph.ChainID)
	sameRev := hrev == th.RevisionNumber
	if !sameRev {
		rej("other-revision")
	} else if ph.Height <= 0 || uint64(ph.Height) <= th.RevisionHeight {
		rej("not-newer-than-trusted-height")
	}
	adjacent := sameRev && ph.Height > 0 && uint64(ph.Height) == th.RevisionHeight+1

	if haveRec {
		exp := rec.time.Add(m.tp)
		if now.After(exp) {
			rej("trusted-state-outside-trusting-period")
		} else if now.Equal(exp) {
			soft("trusted-expiry-boundary")
		}
		if !ph.Time.After(rec.time) {
			soft("header-time-not-after-trusted-time")
		}
	}
	lim := now.Add(m.drift)
	if ph.Time.After(lim) {
		rej("header-time-beyond-clock-drift")
	} else if ph.Time.Equal(lim) {
		soft("clock-drift-boundary")
	}
	hexp := ph.Time.Add(m.tp)
	if now.After(hexp) {
		rej("header-outside-trusting-period")
	} else if now.Equal(hexp) {
		soft("header-expiry-boundary")
	}

	own, oerr := c.viewSet(hdr.ValidatorSet)
	if oerr != nil || !bytes.Equal(own.hash, ph.ValidatorsHash) {
		// the supplied set is not the header's own set: which set is meant is not pinned
		soft("supplied-set-is-not-the-headers-own-set")
	} else {
		if !moreThan(own.signed(tr.signers), own.total, 2, 3) {
			rej("not-more-than-two-thirds-of-own-set")
		}
		if adjacent && haveRec && !bytes.Equal(own.hash, rec.nvh) {
			soft("adjacent-with-different-validator-set")
		}
	}
	if terr == nil {
		if !moreThan(tset.signed(tr.signers), tset.total, m.tlNum, m.tlDen) {
			if adjacent {
				// tendermint verifies adjacent headers by next-validators equality + 2/3, not by trust level
				soft("adjacent-not-above-trust-level")
			} else {
				rej("not-more-than-trust-level-of-trusted-set")
			}
		}
	}

	if ph.ChainID != fmt.Sprintf("%s-%d", m.base, hrev) {
		if !strings.HasPrefix(ph.ChainID, m.base+"-") && ph.ChainID != m.base {
			// a header of ANOTHER chain (whoever signed it, and for whichever chain id): the client follows one chain,
			// "signed it" can only mean a commit for a header of that chain
			rej("header-of-another-chain")
		} else {
			soft("other-chain-id")
		}
	}
	for _, a := range tr.anomalies {
		soft(a)
	}
	if len(ph.AppHash) == 0 {
		// the statement does not say whether a header without app hash is acceptable (since fix fe1bea8 the
		// client refuses it because the resulting consensus state could never be exported or used for proofs)
		soft("empty-app-hash")
	}
	switch {
	case len(out.reasons) > 0:
		out.v = mustReject
	case len(out.soft) > 0:
		out.v = either
	default:
		out.v = mustAccept
	}
	return out
}
