// Package c07 monitors C07: the Tendermint light client accepts only
// sufficiently signed, fresh, newer headers; stores exactly what it accepted;
// never lowers its latest height; and honours proofs only at stored heights
// not above the latest and only after the configured delay.
package c07

import (
	"bytes"
	"fmt"
	"math/rand"
	"sort"
	"strings"
	"testing"
	"time"

	tmproto "github.com/tendermint/tendermint/proto/tendermint/types"

	xtm "github.com/teleport-network/teleport/x/xibc/clients/light-clients/tendermint/types"
	clientkeeper "github.com/teleport-network/teleport/x/xibc/core/client/keeper"
	clienttypes "github.com/teleport-network/teleport/x/xibc/core/client/types"
	commitmenttypes "github.com/teleport-network/teleport/x/xibc/core/commitment/types"
	"github.com/teleport-network/teleport/x/xibc/core/host"

	"verif/harness/core"
)

func TestC07(t *testing.T) {
	r := core.NewRun(t, "C07")
	r.Rule = "histories of UpdateClient attempts against a synthetic counterparty (1-8 seeded ed25519 validators, powers around the 1/3 and 2/3 boundaries, evolving sets, trust levels 1/3,1/2,2/3,1, signer subsets picked at/just below/just above each threshold, adjacent/skipping/back-filling/overwriting orders, block times around trusting-period expiry and clock drift, pre-sign and post-sign field mutators, trusted-height/trusted-validators mutators, bad signatures, a revision upgrade) judged by a three-valued reference predicate, plus a proof gate driven with real packet-commitment proofs over stored/unstored heights and block times swept across processedTime+delay. Non-trivial = distinct case shape (trust level, sets, signer powers, mutators, time relations) whose header passed ValidateBasic and reached the client's verification, or a gate call on a real proof."
	r.Assume("a header counts as signed by a validator only if the commit carries that validator's valid ed25519 signature over exactly the submitted header (chain id, height, round, block id)")
	r.Assume("outcome at exact equality of a clock boundary (expiry instant, now+drift) is not judged; equality of voting power with a threshold is judged (must reject)")
	r.Assume("adjacent headers (trusted height + 1) signed by more than 2/3 of the stored next validator set but not more than a trust level above 2/3 are not judged (tendermint's sequential verification)")
	defer r.Finish()
	r.MinNontrivial(r.N(700, 20000))

	headerCases(r)
	gateCases(r)
}

// ------------------------------------------------------------------ histories

func headerCases(r *core.Run) {
	nh := r.N(60, 1600)
	var n *core.Node
	for i := 0; i < nh; i++ {
		cid := fmt.Sprintf("hist/%d", i)
		if !r.Want(cid) {
			continue
		}
		if n == nil {
			n = core.NewNode(core.NodeConfig{ChainID: "teleport_9000-1", XIBCName: "host-chain", Accounts: []*core.Account{core.NewAccount("a")}})
		}
		runHistory(r, n, cid, i)
	}
	if n != nil && n.InBlock {
		n.End()
	}
}

type hist struct {
	r       *core.Run
	n       *core.Node
	cid     string
	rng     *rand.Rand
	c       *cpty
	m       *clientModel
	now     time.Time
	rev     uint64 // active revision of the counterparty
	step    int
	att     int
	dead    bool
	prefix  []byte
	afterEx int // attempts made after the client expired
	aimT    int64
	aimH    int64
}

var trustLevels = [][2]uint64{{1, 3}, {1, 2}, {2, 3}, {1, 1}, {1, 3}, {2, 3}}

func (h *hist) block(t time.Time) {
	if h.n.InBlock {
		h.n.End()
	}
	h.n.Begin(t)
	h.now = h.n.Header.Time
}

func runHistory(r *core.Run, n *core.Node, cid string, idx int) {
	rng := r.Rng(cid)
	step := []time.Duration{time.Second, 7 * time.Second, time.Minute, 10 * time.Minute, time.Hour}[rng.Intn(5)]
	t0 := time.Date(2022, 3, 1, 0, 0, 0, 0, time.UTC).Add(time.Duration(rng.Intn(1000)) * time.Millisecond)
	h := &hist{r: r, n: n, cid: cid, rng: rng, rev: 1}
	h.c = newCpty(fmt.Sprintf("%d/%s", r.Seed, cid), rng, t0, step)
	tl := trustLevels[rng.Intn(len(trustLevels))]
	h.m = &clientModel{
		name: fmt.Sprintf("c07h%d", idx), base: h.c.base, tlNum: tl[0], tlDen: tl[1],
		tp:    step * time.Duration(25+rng.Intn(50)),
		drift: []time.Duration{time.Nanosecond, step / 2, step, 3 * step}[rng.Intn(4)],
		cons:  map[clienttypes.Height]consRec{},
	}
	h.prefix = []byte("clients/" + h.m.name + "/")
	h0 := int64(1 + rng.Intn(6))
	h.block(h.c.timeAt(1, h0+int64(rng.Intn(3))))
	if !h.create(h0) {
		return
	}
	flavour := rng.Intn(12)
	if flavour == 0 {
		h.expiryInversion(h0)
	}
	upgradeAt := -1
	if flavour == 1 || flavour == 2 {
		upgradeAt = 3 + rng.Intn(8)
	}
	steps := 12 + rng.Intn(14)
	for h.step = 0; h.step < steps && !h.dead; h.step++ {
		if h.step == upgradeAt {
			h.upgrade()
		}
		h.advanceClock()
		k := 1 + rng.Intn(3)
		for j := 0; j < k && !h.dead; j++ {
			h.attempt(nil)
		}
		if h.afterEx > 3 {
			break
		}
	}
}

func (h *hist) ck() clientkeeper.Keeper { return h.n.App.XIBCKeeper.ClientKeeper }

func (h *hist) create(h0 int64) bool {
	m, c := h.m, h.c
	latest := clienttypes.NewHeight(1, uint64(h0))
	cs := xtm.NewClientState(c.chainID(1), xtm.Fraction{Numerator: m.tlNum, Denominator: m.tlDen}, m.tp, 2*m.tp, m.drift, latest,
		commitmenttypes.GetSDKSpecs(), commitmenttypes.MerklePrefix{KeyPrefix: []byte("xibc")}, 0)
	cons := &xtm.ConsensusState{Timestamp: c.timeAt(1, h0), Root: c.appAt(1, h0), NextValidatorsHash: c.setAt(1, h0+1).hash}
	if err := h.ck().CreateClient(h.n.Ctx(), m.name, cs, cons); err != nil {
		h.r.Inconclusive("%s: CreateClient failed: %v", h.cid, err)
		return false
	}
	m.latest = latest
	m.cons[latest] = consRec{time: cons.Timestamp, root: cons.Root, nvh: cons.NextValidatorsHash, hasMeta: true, procTime: uint64(h.now.UnixNano())}
	store := h.ck().ClientStore(h.n.Ctx(), m.name)
	if pt, ok := xtm.GetProcessedTime(store, latest); !ok || pt != uint64(h.now.UnixNano()) {
		h.r.Violation(h.cid, "create/processed-time-not-block-time", map[string]interface{}{"stored": pt, "found": ok, "block_time": h.now.UnixNano()})
	}
	if !bytes.Equal(xtm.GetIterationKey(store, latest), host.ConsensusStateKey(latest)) {
		h.r.Violation(h.cid, "create/iteration-key-missing", map[string]interface{}{"height": latest.String()})
	}
	h.r.Count("clients_created", 1)
	return true
}

// upgrade moves the counterparty (and the client, through the keeper's upgrade path) to revision 2.
func (h *hist) upgrade() {
	m, c := h.m, h.c
	if h.rev != 1 {
		return
	}
	c.startRev2(h.now, c.setAt(1, int64(m.latest.RevisionHeight)+1))
	latest := clienttypes.NewHeight(2, 1)
	cs := xtm.NewClientState(c.chainID(2), xtm.Fraction{Numerator: m.tlNum, Denominator: m.tlDen}, m.tp, 2*m.tp, m.drift, latest,
		commitmenttypes.GetSDKSpecs(), commitmenttypes.MerklePrefix{KeyPrefix: []byte("xibc")}, 0)
	cons := &xtm.ConsensusState{Timestamp: c.timeAt(2, 1), Root: c.appAt(2, 1), NextValidatorsHash: c.setAt(2, 2).hash}
	// the upgraded state's time must lie in the past of the next block
	h.block(c.timeAt(2, 2))
	if err := h.ck().UpgradeClient(h.n.Ctx(), m.name, cs, cons); err != nil {
		h.r.Count("upgrade_failed", 1)
		return
	}
	h.rev = 2
	m.latest = latest
	m.cons[latest] = consRec{time: cons.Timestamp, root: cons.Root, nvh: cons.NextValidatorsHash, hasMeta: true, procTime: uint64(h.now.UnixNano())} // UpgradeState records the metadata of the installed height (fix f27930c)
	h.r.Count("clients_upgraded_to_revision_2", 1)
}

// advanceClock begins the next block at a generated time; sometimes it aims at
// an instant where a verdict flips and remembers which plan makes use of it.
func (h *hist) advanceClock() {
	m, c, rng := h.m, h.c, h.rng
	h.aimT, h.aimH = -1, -1
	t := h.now.Add(time.Duration(rng.Intn(3))*c.step + time.Duration(rng.Int63n(int64(c.step))))
	if rng.Intn(3) == 0 {
		type aim struct {
			x    time.Time
			T, H int64
		}
		var xs []aim
		if lat, ok := m.cons[m.latest]; ok {
			if rng.Intn(10) == 0 {
				xs = append(xs, aim{lat.time.Add(m.tp), -1, -1}) // client expiry
			}
			nh := int64(m.latest.RevisionHeight) + 1 + int64(rng.Intn(4))
			xs = append(xs, aim{c.timeAt(h.rev, nh).Add(-m.drift), -1, nh}) // header time = now + drift
		}
		S := h.storedIn(h.rev)
		if len(S) > 1 {
			T := S[rng.Intn(len(S)-1)]
			xs = append(xs, aim{m.cons[clienttypes.NewHeight(h.rev, uint64(T))].time.Add(m.tp), T, -1}) // trusted state expiry
		}
		if len(xs) > 0 {
			a := xs[rng.Intn(len(xs))]
			x := a.x.Add([]time.Duration{-time.Second, -time.Nanosecond, 0, time.Nanosecond, time.Second}[rng.Intn(5)])
			if x.After(h.now) {
				t = x
				h.aimT, h.aimH = a.T, a.H
			}
		}
	}
	h.block(t)
}

// ------------------------------------------------------------------ planning

func (h *hist) storedIn(rev uint64) []int64 {
	var out []int64
	for ht := range h.m.cons {
		if ht.RevisionNumber == rev {
			out = append(out, int64(ht.RevisionHeight))
		}
	}
	sort.Slice(out, func(i, j int) bool { return out[i] < out[j] })
	return out
}

// plan picks (revision, trusted height, header height, order label).
func (h *hist) plan() (uint64, int64, int64, string) {
	rng, c := h.rng, h.c
	rev := h.rev
	if h.rev == 2 && rng.Intn(3) == 0 {
		rev = 1 // back-fill in the previous revision
	}
	S := h.storedIn(rev)
	if len(S) == 0 {
		rev = h.rev
		S = h.storedIn(rev)
	}
	L := S[len(S)-1]
	hmax := c.heightAt(rev, h.now)
	clampH := func(x int64) int64 {
		if x > c.maxH {
			return c.maxH
		}
		return x
	}
	if rev == h.rev && rng.Intn(10) < 7 {
		if h.aimH > L {
			return rev, L, clampH(h.aimH), "skipping"
		}
		if h.aimT > 0 && h.aimT < L {
			return rev, h.aimT, clampH(L + 1 + int64(rng.Intn(3))), "forward-from-older-trusted"
		}
	}
	d := rng.Intn(100)
	switch {
	case d < 22:
		return rev, L, clampH(L + 1), "adjacent"
	case d < 55:
		H := L + 2 + int64(rng.Intn(6))
		if hmax > L+2 {
			H = L + 2 + rng.Int63n(hmax-L-1)
		}
		return rev, L, clampH(H), "skipping"
	case d < 65:
		T := S[rng.Intn(len(S))]
		H := L + 1 + int64(rng.Intn(5))
		return rev, T, clampH(H), "forward-from-older-trusted"
	case d < 87:
		if len(S) >= 2 {
			i := rng.Intn(len(S) - 1)
			T := S[i]
			if L-T >= 2 {
				H := T + 1 + rng.Int63n(L-T-1)
				if rng.Intn(4) == 0 {
					H = T + 1
				}
				lbl := "back-fill"
				if H == T+1 {
					lbl = "back-fill-adjacent"
				}
				return rev, T, H, lbl
			}
		}
		return rev, L, clampH(L + 2 + int64(rng.Intn(3))), "skipping"
	case d < 93:
		if len(S) >= 2 {
			j := 1 + rng.Intn(len(S)-1)
			return rev, S[rng.Intn(j)], S[j], "overwrite-stored-height"
		}
		return rev, L, clampH(L + 1), "adjacent"
	default:
		H := hmax + 1 + int64(rng.Intn(3))
		if H <= L {
			H = L + 1
		}
		return rev, L, clampH(H), "future"
	}
}

// pickSigners chooses which positions of `own` sign, aiming at the thresholds.
func (h *hist) pickSigners(own, trusted *vset) (uint, string) {
	rng, m := h.rng, h.m
	n := len(own.keyAt)
	full := uint(1)<<uint(n) - 1
	cat := rng.Intn(12)
	if cat < 4 {
		return full, "all"
	}
	if cat == 4 {
		var mask uint
		for i := 0; i < n; i++ {
			if rng.Intn(10) < 7 {
				mask |= 1 << uint(i)
			}
		}
		return mask, "random"
	}
	type cand struct {
		mask   uint
		po, pt int64
	}
	cs := make([]cand, 0, full+1)
	for mask := uint(0); mask <= full; mask++ {
		var po, pt int64
		for i := 0; i < n; i++ {
			if mask&(1<<uint(i)) != 0 {
				k := own.keyAt[i]
				po += own.pow[k]
				pt += trusted.pow[k]
			}
		}
		cs = append(cs, cand{mask, po, pt})
	}
	// exact rational comparisons on small numbers (powers <= 1e12*8, factors <= 3)
	ownAbove := func(c cand) bool { return 3*c.po > 2*own.total }
	tAbove := func(c cand) bool { return c.pt*int64(m.tlDen) > trusted.total*int64(m.tlNum) }
	best := func(keep func(cand) bool, less func(a, b cand) bool) (cand, bool) {
		var b cand
		found := false
		for _, c := range cs {
			if !keep(c) {
				continue
			}
			if !found || less(c, b) || (!less(b, c) && rng.Intn(3) == 0) {
				b, found = c, true
			}
		}
		return b, found
	}
	var c cand
	var ok bool
	var lbl string
	switch cat {
	case 5:
		lbl = "own-just-above-2/3"
		c, ok = best(ownAbove, func(a, b cand) bool { return a.po < b.po })
	case 6, 7:
		lbl = "own-at-or-below-2/3"
		c, ok = best(func(c cand) bool { return !ownAbove(c) }, func(a, b cand) bool { return a.po > b.po })
	case 8:
		lbl = "own-ok-trusted-minimal"
		c, ok = best(ownAbove, func(a, b cand) bool { return a.pt < b.pt })
	case 9:
		lbl = "own-ok-trusted-at-or-below-level"
		c, ok = best(func(c cand) bool { return ownAbove(c) && !tAbove(c) }, func(a, b cand) bool { return a.pt > b.pt })
	case 10:
		lbl = "own-ok-trusted-just-above-level"
		c, ok = best(func(c cand) bool { return ownAbove(c) && tAbove(c) }, func(a, b cand) bool { return a.pt < b.pt })
	default:
		lbl = "trusted-ok-own-at-or-below-2/3"
		c, ok = best(func(c cand) bool { return tAbove(c) && !ownAbove(c) }, func(a, b cand) bool { return a.po > b.po })
	}
	if !ok {
		return full, "all(fallback)"
	}
	return c.mask, lbl
}

// honest builds the spec of the counterparty's real header for the plan.
func (h *hist) honest(rev uint64, T, H int64, mode string) *spec {
	c := h.c
	own := c.setAt(rev, H)
	tv := c.setAt(rev, T+1)
	s := &spec{
		mode: mode, chainID: c.chainID(rev), signChain: c.chainID(rev), height: H, time: c.timeAt(rev, H),
		appHash: c.appAt(rev, H), nextHash: c.setAt(rev, H+1).hash, valHash: own.hash, supplied: own,
		trusted: clienttypes.NewHeight(rev, uint64(T)), tvals: mustProto(tv),
	}
	mask, lbl := h.pickSigners(own, tv)
	s.subset = lbl
	s.kinds = make([]int, len(own.keyAt))
	for i := range s.kinds {
		switch {
		case mask&(1<<uint(i)) != 0:
			s.kinds[i] = sigCommit
		case h.rng.Intn(10) < 3:
			s.kinds[i] = sigNil
		}
	}
	return s
}

// mutate applies hostile changes to an honest spec.
func (h *hist) mutate(s *spec, rev uint64, T, H int64) {
	rng, c, m := h.rng, h.c, h.m
	mut := func(l string) { s.muts = append(s.muts, l) }
	d := rng.Intn(100)
	switch {
	case d < 45:
		// none
	case d < 60: // fields changed before the validators sign (a fork signed by whoever signs)
		switch rng.Intn(9) {
		case 0:
			s.appHash = make([]byte, 32)
			rng.Read(s.appHash)
			if rng.Intn(6) == 0 {
				s.appHash = []byte{}
			}
			mut("pre.apphash")
		case 1:
			rec := m.cons[s.trusted]
			opts := []time.Time{rec.time, rec.time.Add(-time.Second), rec.time.Add(time.Nanosecond), h.now.Add(m.drift), h.now.Add(m.drift + time.Nanosecond),
				h.now.Add(m.drift - time.Nanosecond), h.now.Add(-m.tp - time.Second), h.now.Add(-m.tp), h.now}
			s.time = opts[rng.Intn(len(opts))].UTC()
			mut("pre.time")
		case 2:
			s.nextHash = make([]byte, 32)
			rng.Read(s.nextHash)
			mut("pre.nextvalshash")
		case 3:
			s.height = []int64{T, T - 1, 1, H + 1}[rng.Intn(4)]
			if s.height < 1 {
				s.height = 1
			}
			mut("pre.height")
		case 4:
			s.chainID = []string{"othernet-" + fmt.Sprint(rev), c.chainID(rev + 1), c.base, c.chainID(rev) + "0"}[rng.Intn(4)]
			s.signChain = s.chainID
			mut("pre.chainid")
		case 5:
			s.chainID = c.chainID(rev + 1)
			s.signChain = s.chainID
			if rng.Intn(2) == 0 {
				s.trusted = clienttypes.NewHeight(rev+1, s.trusted.RevisionHeight)
			}
			mut("pre.revision")
		case 6:
			other := c.setAt(rev, H+1+int64(rng.Intn(5)))
			s.valHash = other.hash
			mut("pre.validatorshash")
		case 7:
			s.signChain = "elsewhere-" + fmt.Sprint(rev)
			mut("pre.signed-for-other-chain")
		default:
			s.nextHash = s.valHash
			mut("pre.nextvalshash=own")
		}
	case d < 75: // trusted height / trusted validators
		switch rng.Intn(10) {
		case 0:
			s.trusted = clienttypes.NewHeight(rev, uint64(T)+1+uint64(rng.Intn(3)))
			mut("trusted.height-unstored-or-other")
		case 1:
			s.trusted = clienttypes.NewHeight(rev, uint64(s.height))
			mut("trusted.height=header")
		case 2:
			s.trusted = clienttypes.NewHeight(rev, uint64(s.height)+1+uint64(rng.Intn(3)))
			mut("trusted.height>header")
		case 3:
			s.trusted = clienttypes.NewHeight([]uint64{0, rev + 1, rev + 7}[rng.Intn(3)], uint64(T))
			mut("trusted.revision")
		case 4:
			s.tvals = mustProto(s.supplied)
			mut("trusted.vals=own-set")
		case 5:
			s.tvals = mustProto(c.setAt(rev, T))
			mut("trusted.vals=set-of-trusted-height")
		case 6:
			ms := append([]member{}, c.setAt(rev, T+1).ms...)
			ms[rng.Intn(len(ms))].P++
			s.tvals = mustProto(c.mkSet(ms))
			mut("trusted.vals-power+1")
		case 7:
			tv := c.setAt(rev, T+1)
			if len(tv.ms) > 1 {
				s.tvals = mustProto(c.mkSet(tv.ms[:len(tv.ms)-1]))
				mut("trusted.vals-dropped-member")
			} else {
				p := mustProto(tv)
				p.Validators[0].VotingPower += 2
				s.tvals = p
				mut("trusted.vals-power+2")
			}
		case 8:
			p := mustProto(c.setAt(rev, T+1))
			if len(p.Validators) > 1 {
				p.Validators[0], p.Validators[1] = p.Validators[1], p.Validators[0]
				mut("trusted.vals-reordered")
			} else {
				p.TotalVotingPower = 1
				mut("trusted.vals-fake-total")
			}
			s.tvals = p
		default:
			p := mustProto(c.setAt(rev, T+1))
			p.TotalVotingPower = 1
			p.Proposer = p.Validators[len(p.Validators)-1]
			s.tvals = p
			mut("trusted.vals-fake-total-and-proposer")
		}
	case d < 87: // tampering after signing
		ops := []string{"hdr.time+1ns", "hdr.time-1s", "hdr.apphash", "hdr.height+1", "hdr.height-1", "hdr.chainid", "hdr.nextvalhash", "hdr.datahash",
			"hdr.lastresults", "commit.blockid.hash", "commit.blockid.parts", "commit.round", "commit.height"}
		op := ops[rng.Intn(len(ops))]
		s.post = []string{op}
		s.rehash = strings.HasPrefix(op, "hdr.") && rng.Intn(3) != 0
		mut(fmt.Sprintf("post.%s/rehash=%v", op, s.rehash))
	default: // one bad signature
		var signers, others []int
		for i, k := range s.kinds {
			if k == sigCommit {
				signers = append(signers, i)
			} else if k == sigAbsent {
				others = append(others, i)
			}
		}
		if len(others) > 0 && (len(signers) == 0 || rng.Intn(4) == 0) {
			i := others[rng.Intn(len(others))]
			s.kinds[i] = sigGarbageAbsent
			mut(fmt.Sprintf("sig.garbage@%d", i))
		} else if len(signers) > 0 {
			i := signers[rng.Intn(len(signers))]
			s.kinds[i] = []int{sigCorrupt, sigWrongKey, sigWrongChain, sigWrongBlock}[rng.Intn(4)]
			mut(fmt.Sprintf("sig.%s@%d/%d", sigNames[s.kinds[i]], i, len(s.kinds)))
		}
	}
	// independently: the supplied validator set is not the header's own set
	if rng.Intn(40) == 0 {
		s.ownProto = func(p *tmproto.ValidatorSet) {
			p.Validators[0].VotingPower++
		}
		mut("supplied-set-power+1")
	}
}
