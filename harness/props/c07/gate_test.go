package c07

// Proof gate: VerifyPacketCommitment with real packet-commitment proofs of a
// partner chain, over stored/unstored heights, heights above the latest, and
// block times swept across processedTime + TimeDelay.

import (
	"crypto/sha256"
	"fmt"
	"math/big"
	"sort"
	"strings"
	"time"

	sdk "github.com/cosmos/cosmos-sdk/types"

	xtm "github.com/teleport-network/teleport/x/xibc/clients/light-clients/tendermint/types"
	clienttypes "github.com/teleport-network/teleport/x/xibc/core/client/types"
	commitmenttypes "github.com/teleport-network/teleport/x/xibc/core/commitment/types"
	"github.com/teleport-network/teleport/x/xibc/core/host"
	packettypes "github.com/teleport-network/teleport/x/xibc/core/packet/types"
	"github.com/teleport-network/teleport/x/xibc/exported"

	"verif/harness/core"
)

type sdkCtx = sdk.Context

type gatePacket struct {
	src, dst   string
	seq        uint64
	commitment []byte
	ack        []byte // hash of an acknowledgement stored on the source chain under the same triple (keeper write)
	committed  int64 // height of the source chain whose state first contains the commitment
}

type gateWorld struct {
	r    *core.Run
	w    *core.World
	a, b *core.Node
	tok  *core.Token
	pks  []gatePacket
}

func (g *gateWorld) send() bool {
	w, a, b := g.w, g.a, g.b
	u := w.Users[0]
	d := packettypes.CrossChainData{DstChain: b.Name, TokenAddress: g.tok.Addr, Receiver: strings.ToLower(w.Users[1].Eth.String()), Amount: big.NewInt(1000), CallData: []byte{}}
	fee := packettypes.Fee{TokenAddress: g.tok.Addr, Amount: big.NewInt(1)}
	tx, err := w.CrossChainTx(a, u, d, fee)
	if err != nil {
		g.r.Inconclusive("gate: cannot build crossChainCall: %v", err)
		return false
	}
	res := core.DecodeEthResult(a.Deliver(tx))
	sent := core.ParseSent(res)
	if len(sent) != 1 {
		g.r.Inconclusive("gate: crossChainCall emitted %d packets (code %d, vm error %q)", len(sent), res.Code, res.VmError)
		return false
	}
	p := sent[0]
	// an acknowledgement commitment in the same block, so that the acknowledgement side of the gate
	// (VerifyPacketAcknowledgement) can be driven with real proofs as well
	ak := sha256.Sum256(append([]byte("ack of "), p.Bytes...))
	a.App.XIBCKeeper.PacketKeeper.SetPacketAcknowledgement(a.Ctx(), p.Src, p.Dst, p.Packet.Sequence, ak[:])
	w.Roll(a)
	c := sha256.Sum256(p.Bytes)
	g.pks = append(g.pks, gatePacket{src: p.Src, dst: p.Dst, seq: p.Packet.Sequence, commitment: c[:], ack: ak[:], committed: a.Height()})
	return true
}

// beginB starts B's next block at exactly t (must be later than the current block).
func (g *gateWorld) beginB(t time.Time) bool {
	if !t.After(g.b.Header.Time) {
		return false
	}
	g.w.Clock = t.Add(-g.w.Step)
	g.w.Roll(g.b)
	return g.b.Header.Time.Equal(t)
}

func gateCases(r *core.Run) {
	if !r.Want("gate") {
		return
	}
	rng := r.Rng("gate")
	w := core.NewWorld(core.WorldConfig{Chains: 2, Users: 2})
	g := &gateWorld{r: r, w: w, a: w.Nodes[0], b: w.Nodes[1]}
	a, b := g.a, g.b
	tok, err := w.NewToken("t", a, false, 0, new(big.Int).Lsh(big.NewInt(1), 100))
	if err != nil {
		r.Inconclusive("gate: world construction failed: %v", err)
		return
	}
	g.tok = tok
	w.Roll(a)
	w.Roll(b)
	for i := 0; i < 3; i++ {
		w.Roll(a)
	}
	ck := b.App.XIBCKeeper.ClientKeeper
	cdc := b.App.AppCodec()
	rounds := r.N(2, 30)
	fixed := []uint64{0, 1, uint64(time.Second), 7300000001, uint64(time.Hour)}
	for round := 0; round < rounds; round++ {
		c0 := a.Height() // creation height: before this round's packet exists
		if !g.send() {
			return
		}
		pk := g.pks[len(g.pks)-1]
		// heights of A after the commitment: H1 < gap < H2 < H3(latest)
		for i := 0; i < 5; i++ {
			w.Roll(a)
		}
		H1 := pk.committed + 1 + int64(rng.Intn(2))
		H2 := H1 + 2
		H3 := a.Height()
		for ci := 0; ci < 7; ci++ {
			huge := ci >= 5
			delay := uint64(0)
			if huge {
				// delays of centuries (processed time + delay no longer fits 63 bits, for the largest ones not even 64): never
				// reached, so a proof is refused whenever it is presented
				below := []uint64{1 << 63, 1<<63 - 1, 8_000_000_000_000_000_000, 15_000_000_000_000_000_000, 1<<63 + uint64(rng.Int63n(1<<62))}
				beyond := []uint64{^uint64(0), ^uint64(0) - uint64(rng.Intn(1000)), 17_500_000_000_000_000_000}
				if ci == 5 {
					delay = below[(round+int(rng.Int63n(2)))%len(below)] // the sum still fits 64 bits
				} else {
					delay = beyond[round%len(beyond)] // the sum does not even fit 64 bits
				}
			} else {
				delay = fixed[ci]
			}
			if round > 0 && !huge {
				switch rng.Intn(4) {
				case 0:
					delay = uint64(rng.Int63n(int64(10 * time.Second)))
				case 1:
					delay = uint64(rng.Int63n(int64(2 * time.Hour)))
				case 2:
					delay = uint64(1 + rng.Intn(3))
				}
			}
			name := fmt.Sprintf("gate%d-%d", round, ci)
			cid := fmt.Sprintf("gate/%s", name)
			rev := a.Revision()
			mk := func(h int64) clienttypes.Height { return clienttypes.NewHeight(rev, uint64(h)) }
			hdr0, err := a.SignedHeader(c0, mk(c0))
			if err != nil {
				r.Inconclusive("gate: %v", err)
				return
			}
			cs := xtm.NewClientState(a.ChainID, xtm.DefaultTrustLevel, 365*24*time.Hour, 400*24*time.Hour, 10*time.Second, mk(c0),
				commitmenttypes.GetSDKSpecs(), commitmenttypes.MerklePrefix{KeyPrefix: []byte("xibc")}, delay)
			w.Roll(b)
			if err := ck.CreateClient(b.Ctx(), name, cs, hdr0.ConsensusState()); err != nil {
				r.Inconclusive("gate: CreateClient: %v", err)
				return
			}
			processed := map[int64]time.Time{c0: b.Header.Time}
			latest := c0
			update := func(h, trusted int64) bool {
				w.Roll(b)
				hdr, err := a.SignedHeader(h, mk(trusted))
				if err == nil {
					err = ck.UpdateClient(b.Ctx(), name, hdr)
				}
				if err != nil {
					r.Inconclusive("gate: honest update to %d failed: %v", h, err)
					return false
				}
				processed[h] = b.Header.Time
				if h > latest {
					latest = h
				}
				return true
			}
			proofAt := map[int64][]byte{}
			ackProofAt := map[string][]byte{} // commitment proof bytes -> acknowledgement proof of the same height
			for _, h := range []int64{H1, H2, H3} {
				p, _, err := w.Proof(a, host.PacketCommitmentKey(pk.src, pk.dst, pk.seq), h)
				if err != nil {
					r.Inconclusive("gate: proof query at %d failed: %v", h, err)
					return
				}
				proofAt[h] = p
				pa, _, err := w.Proof(a, host.PacketAcknowledgementKey(pk.src, pk.dst, pk.seq), h)
				if err != nil {
					r.Inconclusive("gate: ack proof query at %d failed: %v", h, err)
					return
				}
				ackProofAt[string(p)] = pa
			}
			// one gate call, judged
			var future time.Duration // added to the block time of the judged call (0: the chain's own clock)
			call := func(label string, height exported.Height, proof []byte, expect, why string, mutate func(ctx sdkCtx) error) {
				cctx, _ := b.Ctx().CacheContext()
				if future != 0 {
					cctx = cctx.WithBlockTime(cctx.BlockTime().Add(future))
				}
				if mutate != nil {
					if err := mutate(cctx); err != nil {
						r.Count("gate_setup_failed/"+label, 1)
						return
					}
				}
				csI, found := ck.GetClientState(cctx, name)
				if !found {
					r.Inconclusive("gate: client %s vanished", name)
					return
				}
				tmcs := csI.(*xtm.ClientState)
				err, _ := core.Catch(func() error {
					return tmcs.VerifyPacketCommitment(cctx, ck.ClientStore(cctx, name), cdc, height, proof, pk.src, pk.dst, pk.seq, pk.commitment)
				})
				now := b.Header.Time
				key := fmt.Sprintf("gate|%s|delay=%d|h=%s|latest=%d|now-ref=%s|%s", label, delay, height, latest, why, expect)
				r.Eval(key, true)
				r.Count("gate_cases", 1)
				r.Count("gate/"+label+"/"+expect, 1)
				det := map[string]interface{}{"client": name, "delay_ns": delay, "height": height.String(), "client_latest": tmcs.LatestHeight.String(),
					"block_time": now.Format(time.RFC3339Nano), "expect": expect, "why": why, "label": label}
				if err != nil {
					det["error"] = err.Error()
				}
				switch {
				case expect == mustAccept && err != nil:
					r.Violation(cid, "gate/refused/"+label, det)
				case expect == mustReject && err == nil:
					r.Violation(cid, "gate/honoured/"+label, det)
				}
				// the same gate for acknowledgement proofs
				if ap, ok := ackProofAt[string(proof)]; ok {
					aerr, _ := core.Catch(func() error {
						return tmcs.VerifyPacketAcknowledgement(cctx, ck.ClientStore(cctx, name), cdc, height, ap, pk.src, pk.dst, pk.seq, pk.ack)
					})
					r.Eval(key+"|ack", true)
					r.Count("gate_cases_ack", 1)
					switch {
					case expect == mustAccept && aerr != nil:
						det["error"] = aerr.Error()
						r.Violation(cid, "gate/ack/refused/"+label, det)
					case expect == mustReject && aerr == nil:
						r.Violation(cid, "gate/ack/honoured/"+label, det)
					}
				}
				if ci == 2 && round == 0 && strings.HasPrefix(label, "delay") {
					r.Sample(map[string]interface{}{"kind": "gate", "case": det})
				}
			}
			// sweep block times across processed+delay for a stored height
			sweep := func(h int64) {
				pt := processed[h]
				valid := pt.Add(time.Duration(delay))
				for _, off := range []time.Duration{-time.Second, -time.Nanosecond, 0, time.Nanosecond, time.Second} {
					t := valid.Add(off)
					if !g.beginB(t) {
						r.Count("gate_sweep_instant_in_the_past", 1)
						continue
					}
					for _, sh := range []int64{H1, H2, H3} {
						spt, stored := processed[sh]
						if !stored {
							continue
						}
						svalid := spt.Add(time.Duration(delay))
						switch {
						case t.Before(svalid):
							call("delay-not-passed", mk(sh), proofAt[sh], mustReject, fmt.Sprintf("%dns-before", svalid.Sub(t)), nil)
						default:
							call("delay-passed", mk(sh), proofAt[sh], mustAccept, fmt.Sprintf("%dns-after", t.Sub(svalid)), nil)
						}
					}
				}
			}
			// the creation-time block: delay 0 is honoured in the very block that processed the height
			if !update(H1, c0) {
				return
			}
			if delay == 0 {
				call("delay-passed", mk(H1), proofAt[H1], mustAccept, "same-block", nil)
			} else {
				call("delay-not-passed", mk(H1), proofAt[H1], mustReject, "same-block", nil)
			}
			if huge {
				if g.beginB(b.Header.Time.Add(time.Duration(1+rng.Intn(3600)) * time.Second)) {
					call("delay-not-passed", mk(H1), proofAt[H1], mustReject, "centuries-before", nil)
				}
				r.Count("gate_clients_with_a_delay_of_centuries", 1)
				continue
			}
			sweep(H1)
			if !update(H3, H1) {
				return
			}
			sweep(H3)
			if !update(H2, H1) { // back-fill below latest
				return
			}
			sweep(H2)
			// all delays have passed now: height variants
			done := b.Header.Time
			for _, sh := range []int64{H1, H2, H3} {
				if done.Before(processed[sh].Add(time.Duration(delay))) {
					r.Inconclusive("gate: sweep ended before the delay of %d passed", sh)
					return
				}
			}
			var unstored []int64
			for h := c0 + 1; h < H3; h++ {
				if _, ok := processed[h]; !ok {
					unstored = append(unstored, h)
				}
			}
			sort.Slice(unstored, func(i, j int) bool { return unstored[i] < unstored[j] })
			for _, h := range unstored {
				p := proofAt[H1]
				if h > pk.committed {
					if q, _, err := w.Proof(a, host.PacketCommitmentKey(pk.src, pk.dst, pk.seq), h); err == nil {
						p = q // a proof that is true for that height of the source chain
					}
				}
				call("unstored-height-below-latest", mk(h), p, mustReject, "no-consensus-state", nil)
			}
			for _, h := range []int64{H3 + 1, H3 + 2, H3 + 1000} {
				p := proofAt[H3]
				if h <= a.Height() {
					if q, _, err := w.Proof(a, host.PacketCommitmentKey(pk.src, pk.dst, pk.seq), h); err == nil {
						p = q
					}
				}
				call("above-latest", mk(h), p, mustReject, "above-latest", nil)
			}
			call("above-latest", clienttypes.NewHeight(rev+1, uint64(H1)), proofAt[H1], mustReject, "later-revision", nil)
			call("unstored-height-below-latest", clienttypes.NewHeight(0, uint64(H1)), proofAt[H1], mustReject, "earlier-revision", nil)
			// a stored height above a latest height that an upgrade lowered
			lower := func(to int64) func(ctx sdkCtx) error {
				return func(ctx sdkCtx) error {
					csI, _ := ck.GetClientState(ctx, name)
					ncs := *(csI.(*xtm.ClientState))
					ncs.LatestHeight = mk(to)
					cons, ok := ck.GetClientConsensusState(ctx, name, mk(to))
					if !ok {
						return fmt.Errorf("no consensus state at %d", to)
					}
					return ck.UpgradeClient(ctx, name, &ncs, cons)
				}
			}
			call("stored-height-above-lowered-latest", mk(H3), proofAt[H3], mustReject, "latest-lowered-to-H1-by-upgrade", lower(H1))
			call("stored-height-above-lowered-latest", mk(H2), proofAt[H2], mustReject, "latest-lowered-to-H1-by-upgrade", lower(H1))
			// the upgrade (re)installs H1, which counts as processing it now (fix f27930c): whether the delay has passed is not pinned here
			call("stored-height-at-lowered-latest", mk(H1), proofAt[H1], either, "latest-lowered-to-H1-by-upgrade", lower(H1))
			call("stored-height-below-lowered-latest", mk(H1), proofAt[H1], mustAccept, "latest-lowered-to-H2-by-upgrade", lower(H2))
			// long after the trusting period (365 days) has run out for every stored consensus state: a proof that does not
			// prove the commitment under the root stored for its height stays refused, however old that state is
			future = 366 * 24 * time.Hour
			call("expired-consensus-state/proof-of-another-height", mk(H1), proofAt[H3], mustReject, "366-days-later", nil)
			call("expired-consensus-state/proof-of-another-height", mk(H3), proofAt[H1], mustReject, "366-days-later", nil)
			call("expired-consensus-state/genuine-proof", mk(H2), proofAt[H2], either, "366-days-later", nil)
			future = 0
			call("stored-height-at-latest", mk(H3), proofAt[H3], mustAccept, "all-delays-passed", nil)
			call("stored-height-below-latest", mk(H2), proofAt[H2], mustAccept, "all-delays-passed", nil)
			// stored processed time must be the block time of the update
			store := ck.ClientStore(b.Ctx(), name)
			for sh, pt := range processed {
				got, ok := xtm.GetProcessedTime(store, mk(sh))
				if !ok || got != uint64(pt.UnixNano()) {
					r.Violation(cid, "gate/processed-time-not-block-time", map[string]interface{}{"client": name, "height": sh, "stored": got, "found": ok, "block_time_ns": pt.UnixNano()})
				}
			}
			r.Count("gate_clients", 1)
		}
	}
}
