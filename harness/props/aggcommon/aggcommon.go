// Package aggcommon holds the helpers shared by the C11 and C12 monitors of
// the x/aggregate module: genesis funding with extra coins, governance-style
// execution of proposal contents, raw parsing of the token-pair registry,
// bank / ERC-20 observation and a few adversarial token contracts.
package aggcommon

import (
	"encoding/hex"
	"fmt"
	"math/big"
	"sort"
	"strings"

	"github.com/cosmos/cosmos-sdk/simapp"
	sdk "github.com/cosmos/cosmos-sdk/types"
	banktypes "github.com/cosmos/cosmos-sdk/x/bank/types"
	govtypes "github.com/cosmos/cosmos-sdk/x/gov/types"
	transfertypes "github.com/cosmos/ibc-go/v3/modules/apps/transfer/types"
	"github.com/ethereum/go-ethereum/accounts/abi"
	"github.com/ethereum/go-ethereum/common"
	evmtypes "github.com/tharsis/ethermint/x/evm/types"

	"github.com/teleport-network/teleport/app"
	"github.com/teleport-network/teleport/x/aggregate"
	aggtypes "github.com/teleport-network/teleport/x/aggregate/types"

	"verif/harness/core"
)

// IBCTracePath / IBCBaseDenom describe the one IBC voucher coin of the harness.
const (
	IBCPort      = "transfer"
	IBCChannel   = "channel-0"
	IBCBaseDenom = "uatom"
)

// IBCCoin is the ibc/HASH denomination received over transfer/channel-0.
var IBCCoin = transfertypes.ParseDenomTrace(transfertypes.GetDenomPrefix(IBCPort, IBCChannel) + IBCBaseDenom).IBCDenom()

// UserFunds is the genesis balance of every funded extra coin per account.
var UserFunds, _ = sdk.NewIntFromString("1000000000000000000000000")

// FundGenesis returns a MutateGenesis function that gives every account the
// given amount of every listed denomination (and fixes the bank supply).
func FundGenesis(accounts []*core.Account, denoms []string, amount sdk.Int) func(tp *app.Teleport, gs simapp.GenesisState) {
	return func(tp *app.Teleport, gs simapp.GenesisState) {
		var bg banktypes.GenesisState
		tp.AppCodec().MustUnmarshalJSON(gs[banktypes.ModuleName], &bg)
		for i := range bg.Balances {
			for _, a := range accounts {
				if bg.Balances[i].Address != a.Acc.String() {
					continue
				}
				for _, d := range denoms {
					c := sdk.NewCoin(d, amount)
					bg.Balances[i].Coins = bg.Balances[i].Coins.Add(c)
					bg.Supply = bg.Supply.Add(c)
				}
			}
		}
		gs[banktypes.ModuleName] = tp.AppCodec().MustMarshalJSON(&bg)
	}
}

// Gov executes a proposal content the way x/gov does after a vote passed:
// ValidateBasic was checked at submission (contents failing it never reach the
// handler), the handler runs on a cache context. The caller decides whether to
// write. Returned: validated=false when ValidateBasic rejected the content.
type GovResult struct {
	Validated bool
	Err       error
	Panicked  bool
	Ctx       sdk.Context // state after the handler (only meaningful when Err == nil)
	Write     func()
}

// Gov runs the aggregate proposal handler on a branch of ctx.
func Gov(n *core.Node, ctx sdk.Context, content govtypes.Content) GovResult {
	if err := content.ValidateBasic(); err != nil {
		return GovResult{Validated: false, Err: err}
	}
	h := aggregate.NewAggregateProposalHandler(n.App.AggregateKeeper)
	cctx, write := ctx.CacheContext()
	err, panicked := core.Catch(func() error { return h(cctx, content) })
	return GovResult{Validated: true, Err: err, Panicked: panicked, Ctx: cctx, Write: write}
}

// ---------------------------------------------------------------- registry

// Registry is the raw content of the three prefixes of the aggregate store.
type Registry struct {
	Pairs   map[string]aggtypes.TokenPair // hex(id) -> record
	ByERC20 map[string]string             // lower-case hex address (no 0x) -> hex(id)
	ByDenom map[string]string             // denomination -> hex(id)
	Other   int                           // keys under no known prefix
}

// ReadRegistry parses a raw dump of the aggregate store.
func ReadRegistry(n *core.Node, ctx sdk.Context) (*Registry, error) {
	kv := n.DumpStore(ctx, aggtypes.StoreKey)
	r := &Registry{Pairs: map[string]aggtypes.TokenPair{}, ByERC20: map[string]string{}, ByDenom: map[string]string{}}
	for k, v := range kv {
		if len(k) == 0 {
			r.Other++
			continue
		}
		body := k[1:]
		switch k[0] {
		case aggtypes.KeyPrefixTokenPair[0]:
			var p aggtypes.TokenPair
			if err := p.Unmarshal(v); err != nil {
				return nil, fmt.Errorf("undecodable pair record %x: %v", k, err)
			}
			r.Pairs[hex.EncodeToString([]byte(body))] = p
		case aggtypes.KeyPrefixTokenPairByERC20[0]:
			r.ByERC20[hex.EncodeToString([]byte(body))] = hex.EncodeToString(v)
		case aggtypes.KeyPrefixTokenPairByDenom[0]:
			r.ByDenom[body] = hex.EncodeToString(v)
		default:
			r.Other++
		}
	}
	return r, nil
}

// AddrKey is the canonical form of an address used as map key in Registry.
func AddrKey(a string) string { return hex.EncodeToString(common.HexToAddress(a).Bytes()) }

// Problem is one inconsistency of the registry.
type Problem struct {
	Kind   string `json:"kind"`
	Detail string `json:"detail"`
}

func (p Problem) String() string { return p.Kind + ": " + p.Detail }

// Check lists every inconsistency of the registry as stated by C12:
// every pair reachable by its address and by each denomination, every index
// entry points to an existing pair that lists it, no denomination / contract
// in two pairs.
func (r *Registry) Check() []Problem {
	var out []Problem
	ids := make([]string, 0, len(r.Pairs))
	for id := range r.Pairs {
		ids = append(ids, id)
	}
	sort.Strings(ids)
	addrOwners := map[string][]string{}
	denomOwners := map[string][]string{}
	for _, id := range ids {
		p := r.Pairs[id]
		a := AddrKey(p.ERC20Address)
		addrOwners[a] = append(addrOwners[a], id)
		if got, ok := r.ByERC20[a]; !ok || got != id {
			out = append(out, Problem{"pair-unreachable-by-address", fmt.Sprintf("pair %s (%s %v): address index = %q", short(id), p.ERC20Address, p.Denoms, short(got))})
		}
		seen := map[string]bool{}
		for _, d := range p.Denoms {
			if seen[d] {
				continue
			}
			seen[d] = true
			denomOwners[d] = append(denomOwners[d], id)
			if got, ok := r.ByDenom[d]; !ok || got != id {
				out = append(out, Problem{"pair-unreachable-by-denom", fmt.Sprintf("pair %s (%s %v): denom index[%s] = %q", short(id), p.ERC20Address, p.Denoms, d, short(got))})
			}
		}
	}
	var as []string
	for a := range r.ByERC20 {
		as = append(as, a)
	}
	sort.Strings(as)
	for _, a := range as {
		id := r.ByERC20[a]
		p, ok := r.Pairs[id]
		if !ok {
			out = append(out, Problem{"address-index-dangling", fmt.Sprintf("address index[%s] -> %s: no such pair", a, short(id))})
		} else if AddrKey(p.ERC20Address) != a {
			out = append(out, Problem{"address-index-unlisted", fmt.Sprintf("address index[%s] -> pair %s whose contract is %s", a, short(id), p.ERC20Address)})
		}
	}
	var ds []string
	for d := range r.ByDenom {
		ds = append(ds, d)
	}
	sort.Strings(ds)
	for _, d := range ds {
		id := r.ByDenom[d]
		p, ok := r.Pairs[id]
		if !ok {
			out = append(out, Problem{"denom-index-dangling", fmt.Sprintf("denom index[%s] -> %s: no such pair", d, short(id))})
			continue
		}
		listed := false
		for _, x := range p.Denoms {
			listed = listed || x == d
		}
		if !listed {
			out = append(out, Problem{"denom-index-unlisted", fmt.Sprintf("denom index[%s] -> pair %s which lists %v", d, short(id), p.Denoms)})
		}
	}
	for a, o := range addrOwners {
		if len(o) > 1 {
			out = append(out, Problem{"contract-in-two-pairs", fmt.Sprintf("contract %s is the contract of pairs %v", a, shorts(o))})
		}
	}
	for d, o := range denomOwners {
		if len(o) > 1 {
			out = append(out, Problem{"denom-in-two-pairs", fmt.Sprintf("denomination %s is listed by pairs %v", d, shorts(o))})
		}
	}
	sort.Slice(out, func(i, j int) bool {
		if out[i].Kind != out[j].Kind {
			return out[i].Kind < out[j].Kind
		}
		return out[i].Detail < out[j].Detail
	})
	return out
}

// Digest is a canonical description of the registry (used for distinctness).
func (r *Registry) Digest() string {
	var parts []string
	for id, p := range r.Pairs {
		parts = append(parts, fmt.Sprintf("P%s=%s|%v|%v|%d", short(id), AddrKey(p.ERC20Address), p.Denoms, p.Enabled, p.ContractOwner))
	}
	for a, id := range r.ByERC20 {
		parts = append(parts, fmt.Sprintf("A%s=%s", a, short(id)))
	}
	for d, id := range r.ByDenom {
		parts = append(parts, fmt.Sprintf("D%s=%s", d, short(id)))
	}
	sort.Strings(parts)
	return strings.Join(parts, ";")
}

func short(id string) string {
	if len(id) > 8 {
		return id[:8]
	}
	return id
}

func shorts(ids []string) []string {
	out := make([]string, len(ids))
	for i, s := range ids {
		out[i] = short(s)
	}
	sort.Strings(out)
	return out
}

// ---------------------------------------------------------------- bank / erc20 observation

// BankState is the decoded bank module state relevant to conservation.
type BankState struct {
	Bal    map[string]sdk.Int // "addr/denom" -> amount (non-zero only)
	Supply map[string]sdk.Int
}

// ReadBank lists every balance and the supply of every denomination.
func ReadBank(n *core.Node, ctx sdk.Context) BankState {
	s := BankState{Bal: map[string]sdk.Int{}, Supply: map[string]sdk.Int{}}
	n.App.BankKeeper.IterateAllBalances(ctx, func(addr sdk.AccAddress, c sdk.Coin) bool {
		if !c.Amount.IsZero() {
			s.Bal[hex.EncodeToString(addr)+"/"+c.Denom] = c.Amount
		}
		return false
	})
	n.App.BankKeeper.IterateTotalSupply(ctx, func(c sdk.Coin) bool {
		if !c.Amount.IsZero() {
			s.Supply[c.Denom] = c.Amount
		}
		return false
	})
	return s
}

// BalKey builds the key used in BankState.Bal.
func BalKey(addr []byte, denom string) string { return hex.EncodeToString(addr) + "/" + denom }

// Delta maps a quantity (balance key, denomination, token holder) to its signed change.
type Delta map[string]*big.Int

// Add accumulates d into the delta of key k (zero entries are dropped).
func (m Delta) Add(k string, d *big.Int) {
	if d.Sign() == 0 {
		return
	}
	cur, ok := m[k]
	if !ok {
		cur = new(big.Int)
	}
	cur = new(big.Int).Add(cur, d)
	if cur.Sign() == 0 {
		delete(m, k)
	} else {
		m[k] = cur
	}
}

// DiffInts returns after-before for two amount tables (missing = 0).
func DiffInts(before, after map[string]sdk.Int) Delta {
	out := Delta{}
	for k, a := range after {
		b, ok := before[k]
		if !ok {
			b = sdk.ZeroInt()
		}
		out.Add(k, new(big.Int).Sub(a.BigInt(), b.BigInt()))
	}
	for k, b := range before {
		if _, ok := after[k]; !ok {
			out.Add(k, new(big.Int).Neg(b.BigInt()))
		}
	}
	return out
}

// Equal compares two deltas.
func (m Delta) Equal(o Delta) bool {
	if len(m) != len(o) {
		return false
	}
	for k, v := range m {
		w, ok := o[k]
		if !ok || v.Cmp(w) != 0 {
			return false
		}
	}
	return true
}

// String renders a delta deterministically.
func (m Delta) String() string {
	var ks []string
	for k := range m {
		ks = append(ks, k)
	}
	sort.Strings(ks)
	var sb strings.Builder
	for _, k := range ks {
		fmt.Fprintf(&sb, "%s:%s ", k, m[k].String())
	}
	return strings.TrimSpace(sb.String())
}

// ---------------------------------------------------------------- contracts

// DeployCompiled deploys one of the repository's compiled contracts with the
// given constructor arguments from an existing account (inside a block).
func DeployCompiled(n *core.Node, from common.Address, c evmtypes.CompiledContract, args ...interface{}) (common.Address, error) {
	ctor, err := c.ABI.Pack("", args...)
	if err != nil {
		return common.Address{}, err
	}
	code := append(append([]byte{}, c.Bin...), ctor...)
	return n.DeployAs(from, code)
}

// Call performs a committed call of a contract method from an account.
func Call(n *core.Node, a abi.ABI, from, to common.Address, method string, args ...interface{}) error {
	data, err := a.Pack(method, args...)
	if err != nil {
		return err
	}
	return n.CallAs(from, to, data)
}

// KillSelector is the 4-byte selector that makes a DestructibleFacade self-destruct.
var KillSelector = []byte{0x41, 0xc0, 0xe1, 0xb5} // kill()

// DestructibleFacade returns runtime code of a contract that forwards every
// call (calldata unchanged, bubbling reverts and return data) to target, except
// for the selector kill() on which it executes SELFDESTRUCT(caller). It looks
// like the ERC-20 behind it for name/symbol/decimals/balanceOf and can really
// be destroyed by a transaction, which is what the registry clean-up reacts to.
func DestructibleFacade(target common.Address) []byte {
	a := core.NewAsm()
	// selector := calldataload(0) >> 224
	a.Push(0).Op(0x35).Push(0xe0).Op(0x1c) // CALLDATALOAD, SHR
	a.PushBytes(KillSelector).Op(0x14)     // EQ
	a.PushLabel("kill").Op(0x57)           // JUMPI
	// forward
	a.Op(0x36).Push(0).Push(0).Op(0x37) // CALLDATACOPY(0,0,size)
	a.Push(0).Push(0).Op(0x36).Push(0).Push(0).PushBytes(target.Bytes()).Op(0x5a, 0xf1)
	a.Op(0x3d).Push(0).Push(0).Op(0x3e) // RETURNDATACOPY(0,0,rds)
	a.PushLabel("ok").Op(0x57)
	a.Op(0x3d).Push(0).Op(0xfd) // REVERT(0,rds)
	a.Label("ok").Op(0x3d).Push(0).Op(0xf3)
	a.Label("kill").Op(0x33, 0xff) // CALLER SELFDESTRUCT
	return a.Bytes()
}
