package c15

import (
	"encoding/binary"
	"encoding/json"
	"fmt"
	"math/big"
	"math/rand"
	"strings"

	sdk "github.com/cosmos/cosmos-sdk/types"
	banktypes "github.com/cosmos/cosmos-sdk/x/bank/types"
	govtypes "github.com/cosmos/cosmos-sdk/x/gov/types"
	paramproposal "github.com/cosmos/cosmos-sdk/x/params/types/proposal"
	"github.com/ethereum/go-ethereum/common"

	aggtypes "github.com/teleport-network/teleport/x/aggregate/types"
	clienttypes "github.com/teleport-network/teleport/x/xibc/core/client/types"
	"github.com/teleport-network/teleport/x/xibc/exported"

	"verif/harness/core"
	ac "verif/harness/props/aggcommon"
)

// prop is one generated proposal content with what the generator knows about it.
type prop struct {
	Content govtypes.Content
	Kind    string // create-client, upgrade-client, toggle-client, register-relayer, register-coin, ..., param-change
	Sub     string // client type of the carried client state / parameter subspace / token kind
	Desc    string // short canonical description (shape, twists, target)
	Chain   string // target chain name of a client proposal
}

var chainPool = []string{"chain-a", "chain-b", "chain-c", "chain-d", "chain-e", "chain-f"}

func genTitle(rng *rand.Rand) (string, string) {
	switch rng.Intn(40) {
	case 0:
		return strings.Repeat("T", 140), strings.Repeat("d", 10000)
	case 1:
		return strings.Repeat("T", 141), "d"
	case 2:
		return " ", "d"
	case 3:
		return "té <>&\"", "\x00\n\r中"
	}
	return "t", "d"
}

// ---------------------------------------------------------------- client proposals

func otherType(rng *rand.Rand, not string) string {
	for {
		t := clientTypes[rng.Intn(len(clientTypes))]
		if t != not {
			return t
		}
	}
}

func consOfType(rng *rand.Rand, ctype string) exported.ConsensusState {
	_, cons, _ := genClient(rng, ctype, rng.Intn(3) == 0)
	return cons
}

func (h *hist) pickChain(preferUsed bool, focus string) string {
	if focus != "" && h.rng.Intn(100) < 80 {
		return focus
	}
	var used, free []string
	for _, c := range chainPool {
		if h.clientType(c) != "" {
			used = append(used, c)
		} else {
			free = append(free, c)
		}
	}
	w := h.rng.Intn(100)
	switch {
	case w < 3:
		return core.GenChainName(h.rng)
	case w < 6:
		return pickStr(h.rng, "", "ab", "a/b", "bad name", strings.Repeat("x", 65), h.n.Name)
	}
	first, second := free, used
	if preferUsed {
		first, second = used, free
	}
	if len(first) > 0 && (len(second) == 0 || h.rng.Intn(100) < 85) {
		return first[h.rng.Intn(len(first))]
	}
	if len(second) > 0 {
		return second[h.rng.Intn(len(second))]
	}
	return chainPool[h.rng.Intn(len(chainPool))]
}

func (h *hist) genClientProposal(focus string) prop {
	rng := h.rng
	title, descr := genTitle(rng)
	w := rng.Intn(100)
	if focus != "" && rng.Intn(2) == 0 {
		// several proposals on one chain in flight: toggles are what makes the stored state change under a later proposal
		w = 60 + rng.Intn(40)
	}
	switch {
	case w < 8:
		// register relayer
		n := 1 + rng.Intn(3)
		var chains, addrs []string
		for i := 0; i < n; i++ {
			chains = append(chains, h.pickChain(rng.Intn(2) == 0, ""))
			addrs = append(addrs, pickStr(rng, h.a0.Bech32(), "0x"+strings.Repeat("ab", 20), "", strings.Repeat("z", 3000), "é"))
		}
		addr := h.u1.Bech32()
		tw := "plain"
		switch rng.Intn(8) {
		case 0:
			addrs = addrs[:len(addrs)-1]
			tw = "lengths-differ"
		case 1:
			chains, addrs = nil, nil
			tw = "empty-lists"
		case 2:
			addr = pickStr(rng, "", "cosmos1", strings.ToUpper(addr), sdk.AccAddress(rbytes(rng, 255)).String())
			tw = "address-odd"
		case 3:
			for i := 0; i < 200; i++ {
				chains = append(chains, chainPool[i%len(chainPool)])
				addrs = append(addrs, h.a0.Bech32())
			}
			tw = "many-chains"
		}
		c := clienttypes.NewRegisterRelayerProposal(title, descr, addr, chains, addrs)
		return prop{Content: c, Kind: "register-relayer", Sub: "-", Desc: fmt.Sprintf("%s n=%d", tw, len(chains))}
	case w < 40:
		name := h.pickChain(false, focus)
		ctype := clientTypes[rng.Intn(len(clientTypes))]
		cs, cons, tw := genClient(rng, ctype, rng.Intn(100) < 75)
		consT := ctype
		if rng.Intn(100) < 12 {
			consT = otherType(rng, ctype)
			cons = consOfType(rng, consT)
		}
		c, err := clienttypes.NewCreateClientProposal(title, descr, name, cs, cons)
		if err != nil {
			return prop{Kind: "create-client", Sub: ctype, Desc: "unpackable: " + err.Error()}
		}
		consT = dropCons(rng, c, consT)
		return prop{Content: c, Kind: "create-client", Sub: ctype, Chain: name, Desc: fmt.Sprintf("chain=%s cons=%s twists=%v existing=%q", name, consT, tw, h.clientType(name))}
	case w < 60:
		name := h.pickChain(true, focus)
		stored := h.clientType(name)
		ctype := stored
		if ctype == "" || rng.Intn(100) < 15 {
			ctype = clientTypes[rng.Intn(len(clientTypes))]
		}
		cs, cons, tw := genClient(rng, ctype, rng.Intn(100) < 75)
		consT := ctype
		if rng.Intn(100) < 12 {
			consT = otherType(rng, ctype)
			cons = consOfType(rng, consT)
		}
		c, err := clienttypes.NewUpgradeClientProposal(title, descr, name, cs, cons)
		if err != nil {
			return prop{Kind: "upgrade-client", Sub: ctype, Desc: "unpackable: " + err.Error()}
		}
		consT = dropCons(rng, c, consT)
		return prop{Content: c, Kind: "upgrade-client", Sub: ctype, Chain: name, Desc: fmt.Sprintf("chain=%s cons=%s twists=%v stored=%q", name, consT, tw, stored)}
	}
	// toggle: the STORED client's Initialize runs on the new consensus state, at submission (dry run) on
	// the state of then and at execution on the state of then: when another accepted proposal is going to
	// change the chain's client before this one executes, aim part of the toggles at that future state
	name := h.pickChain(true, focus)
	stored := h.clientType(name)
	fut := h.futureType(name)
	ctype := clientTypes[rng.Intn(len(clientTypes))]
	if stored != "" && rng.Intn(100) < 88 {
		ctype = otherType(rng, stored)
	}
	// whichever state's Initialize the keeper runs (the new one's, or - as it once did - the stored one's),
	// it wants a consensus state of its own type
	consT := stored
	switch x := rng.Intn(100); {
	case stored == "" || x < 55:
		consT = ctype
	case x < 63:
		consT = clientTypes[rng.Intn(len(clientTypes))]
	}
	aim := ""
	if fut != "" && fut != stored && rng.Intn(100) < 35 {
		consT = fut
		for try := 0; try < 8 && (ctype == fut || ctype == stored); try++ {
			ctype = clientTypes[rng.Intn(len(clientTypes))]
		}
		aim = " aimed-at-future=" + fut
	}
	cs, _, tw := genClient(rng, ctype, rng.Intn(100) < 75)
	cons := consOfType(rng, consT)
	c, err := clienttypes.NewToggleClientProposal(title, descr, name, cs, cons)
	if err != nil {
		return prop{Kind: "toggle-client", Sub: ctype, Desc: "unpackable: " + err.Error()}
	}
	consT = dropCons(rng, c, consT)
	return prop{Content: c, Kind: "toggle-client", Sub: ctype, Chain: name, Desc: fmt.Sprintf("chain=%s cons=%s twists=%v stored=%q%s", name, consT, tw, stored, aim)}
}

// dropCons removes, now and then, the consensus state from a client proposal altogether (the field is optional on the
// wire and stateless validation does not ask for it): whatever the handler does with the absent value, it must not panic.
func dropCons(rng *rand.Rand, c govtypes.Content, consT string) string {
	if rng.Intn(100) >= 9 {
		return consT
	}
	switch p := c.(type) {
	case *clienttypes.CreateClientProposal:
		p.ConsensusState = nil
	case *clienttypes.UpgradeClientProposal:
		p.ConsensusState = nil
	case *clienttypes.ToggleClientProposal:
		p.ConsensusState = nil
	default:
		return consT
	}
	return "absent"
}

// futureType is the client type the chain will have once the accepted,
// not yet executed proposals have run (the carried type of the last pending
// create/toggle; empty when none is pending).
func (h *hist) futureType(name string) string {
	var best uint64
	out := ""
	for id, pe := range h.pend {
		if pe.P.Chain != name || (pe.P.Kind != "toggle-client" && pe.P.Kind != "create-client") {
			continue
		}
		if out == "" || id > best {
			best, out = id, pe.P.Sub
		}
	}
	return out
}

// ---------------------------------------------------------------- aggregate proposals

var longDenom128 = "L" + strings.Repeat("x", 127)

func unitName(base, prefix string) string {
	b := base
	if strings.HasPrefix(b, "ibc/") {
		b = "ibcatom"
	}
	if len(b) > 100 {
		b = b[:100]
	}
	return prefix + b
}

// storedMetadata is what bank genesis holds for base: the honest description, optionally with longer alias lists.
func storedMetadata(base string, moreAliases bool) banktypes.Metadata {
	md := plainMetadata(base)
	if moreAliases {
		md.DenomUnits[1].Aliases = append(md.DenomUnits[1].Aliases, unitName(base, "milli-"))
		md.DenomUnits[2].Aliases = []string{unitName(base, "whole")}
	}
	return md
}

// genMetadata builds coin metadata for base (valid by construction) and then twists it.
func genMetadata(rng *rand.Rand, base string, registered []string) (banktypes.Metadata, string) {
	md := plainMetadata(base)
	return twistMetadata(rng, md, base, registered)
}

func plainMetadata(base string) banktypes.Metadata {
	md := banktypes.Metadata{
		Description: "coin " + base, Base: base, Display: unitName(base, "disp"),
		Name: strings.ToUpper(unitName(base, "")) + " coin", Symbol: strings.ToUpper(unitName(base, "")),
		DenomUnits: []*banktypes.DenomUnit{
			{Denom: base, Exponent: 0},
			{Denom: unitName(base, "m"), Exponent: 3, Aliases: []string{unitName(base, "milli")}},
			{Denom: unitName(base, "disp"), Exponent: 18},
		},
	}
	if strings.HasPrefix(base, "ibc/") {
		md.Name = "atom via channel-0"
		md.Symbol = "ibcATOM"
	}
	return md
}

func twistMetadata(rng *rand.Rand, md banktypes.Metadata, base string, registered []string) (banktypes.Metadata, string) {
	tw := "plain"
	switch rng.Intn(22) {
	case 0:
		md.DenomUnits[2].Exponent = pickU32(rng, 255, 256, 257, 1<<31, 1<<32-1)
		tw = "exponent-huge"
	case 1:
		md.DenomUnits[0].Exponent = pickU32(rng, 1, 300)
		tw = "base-exponent-nonzero"
	case 2:
		md.DenomUnits = md.DenomUnits[:1]
		md.Display = base
		tw = "single-unit"
	case 3:
		md.DenomUnits = nil
		tw = "no-units"
	case 4:
		for i := 0; i < 60; i++ {
			md.DenomUnits = append(md.DenomUnits, &banktypes.DenomUnit{Denom: fmt.Sprintf("u%d%s", i, unitName(base, "")), Exponent: uint32(19 + i)})
		}
		tw = "many-units"
	case 5:
		md.Name = strings.Repeat("N", pickInt(rng, 1000, 100000))
		md.Symbol = strings.Repeat("S", pickInt(rng, 1000, 100000))
		tw = "long-name-symbol"
	case 6:
		md.Name, md.Symbol = "n\x00é \"\\", "\xff\xfe"
		tw = "name-symbol-bytes"
	case 7:
		if len(registered) > 0 {
			md.Name = registered[rng.Intn(len(registered))]
			tw = "name=registered-denom"
		}
	case 8:
		md.Name = base
		tw = "name=base"
	case 9:
		md.DenomUnits[1].Aliases = []string{"dup", "dup"}
		tw = "alias-dup"
	case 10:
		md.DenomUnits[2].Denom = longDenom128
		md.Display = longDenom128
		tw = "unit-denom-128"
	case 11:
		md.DenomUnits[1].Denom = base
		tw = "unit-dup-base"
	case 12:
		md.Display = pickStr(rng, "", "nope", base)
		tw = "display-odd"
	case 13:
		md.DenomUnits[0], md.DenomUnits[1] = md.DenomUnits[1], md.DenomUnits[0]
		tw = "units-unordered"
	case 14:
		md.Description = strings.Repeat("D", 200000)
		tw = "description-long"
	case 15:
		md.Name, md.Symbol = " ", " "
		tw = "blank-name"
	case 16:
		md.DenomUnits[1] = nil
		tw = "nil-unit"
	case 17:
		md.DenomUnits[1].Aliases = append(md.DenomUnits[1].Aliases, unitName(base, "milli-"), unitName(base, "milli--"))
		md.DenomUnits[2].Aliases = []string{unitName(base, "whole"), unitName(base, "entire")}
		tw = "aliases-longer"
	case 18:
		md.DenomUnits[1].Aliases = nil
		tw = "aliases-none"
	}
	return md, tw
}

func pickU32(rng *rand.Rand, xs ...uint32) uint32 { return xs[rng.Intn(len(xs))] }

func addrSpelling(rng *rand.Rand, a common.Address) string {
	switch rng.Intn(12) {
	case 0:
		return strings.ToLower(a.Hex())
	case 1:
		return "0X" + strings.ToUpper(a.Hex()[2:])
	case 2:
		return a.Hex()[2:]
	case 3:
		return ""
	case 4:
		return a.Hex() + "00"
	}
	return a.Hex()
}

func genDecimal(rng *rand.Rand) string {
	switch rng.Intn(14) {
	case 0:
		return "0"
	case 1:
		return "-5"
	case 2:
		return "+7"
	case 3:
		return "0009"
	case 4:
		return new(big.Int).Sub(new(big.Int).Lsh(big.NewInt(1), 256), big.NewInt(1)).String()
	case 5:
		return new(big.Int).Lsh(big.NewInt(1), 256).String()
	case 6:
		return "1" + strings.Repeat("0", pickInt(rng, 80, 400, 20000))
	case 7:
		return pickStr(rng, "", "1e18", "0x10", "1_000", "1.5", " 5", "٣")
	}
	return fmt.Sprintf("%d", 1+rng.Intn(1_000_000))
}

func (h *hist) genAggProposal() prop {
	rng := h.rng
	title, descr := genTitle(rng)
	reg, err := ac.ReadRegistry(h.n, h.n.Ctx())
	var regAddrs []common.Address
	var regDenoms []string
	if err == nil {
		for _, p := range reg.Pairs {
			regAddrs = append(regAddrs, common.HexToAddress(p.ERC20Address))
			regDenoms = append(regDenoms, p.Denoms...)
		}
		sortAddrs(regAddrs)
		sortStrs(regDenoms)
	}
	anyAddr := func(preferRegistered bool) (common.Address, string) {
		if preferRegistered && len(regAddrs) > 0 && rng.Intn(100) < 75 {
			return regAddrs[rng.Intn(len(regAddrs))], "registered"
		}
		t := h.tokens[rng.Intn(len(h.tokens))]
		return t.Addr, t.Kind
	}
	pickBase := func() (string, string) {
		switch w := rng.Intn(100); {
		case w < 70:
			isReg := map[string]bool{}
			for _, d := range regDenoms {
				isReg[d] = true
			}
			for try := 0; try < 4; try++ {
				if c := h.coins[rng.Intn(len(h.coins))]; !isReg[c] {
					return c, "funded"
				}
			}
			return h.coins[rng.Intn(len(h.coins))], "funded"
		case w < 78:
			return core.BondDenom, "evm-denom"
		case w < 86:
			return pickStr(rng, "nosupply", "ibc/"+strings.Repeat("AB", 32), longDenom128), "no-supply"
		case w < 92 && len(regDenoms) > 0:
			return regDenoms[rng.Intn(len(regDenoms))], "registered-denom"
		}
		return pickStr(rng, "", "a", "1abc", "ibc/xyz", "UPPER/x:y", "a b"), "odd"
	}
	switch w := rng.Intn(100); {
	case w < 20:
		base, bk := pickBase()
		md, tw := genMetadata(rng, base, regDenoms)
		return prop{Content: aggtypes.NewRegisterCoinProposal(title, descr, md), Kind: "register-coin", Sub: bk, Desc: fmt.Sprintf("base=%.40s %s", base, tw)}
	case w < 34:
		base, bk := pickBase()
		md, tw := genMetadata(rng, base, regDenoms)
		a, ak := anyAddr(true)
		return prop{Content: aggtypes.NewAddCoinProposal(title, descr, md, addrSpelling(rng, a)), Kind: "add-coin", Sub: bk, Desc: fmt.Sprintf("base=%.40s %s contract=%s", base, tw, ak)}
	case w < 52:
		a, ak := anyAddr(false)
		return prop{Content: aggtypes.NewRegisterERC20Proposal(title, descr, addrSpelling(rng, a)), Kind: "register-erc20", Sub: ak, Desc: "contract=" + ak}
	case w < 62:
		var tok, tk string
		switch x := rng.Intn(100); {
		case x < 40 && len(regDenoms) > 0:
			tok, tk = regDenoms[rng.Intn(len(regDenoms))], "registered-denom"
		case x < 75:
			a, ak := anyAddr(true)
			tok, tk = addrSpelling(rng, a), ak
		default:
			tok, tk = pickStr(rng, "unregistered", "", "a", longDenom128, "0x"), "odd"
		}
		return prop{Content: aggtypes.NewToggleTokenRelayProposal(title, descr, tok), Kind: "toggle-relay", Sub: tk, Desc: "token=" + tk}
	case w < 74:
		a, ak := anyAddr(true)
		b, bk := anyAddr(false)
		if rng.Intn(100) < 60 {
			// a registered honest token and a fresh contract of the same class: the only update the keeper accepts
			isReg := map[common.Address]bool{}
			for _, x := range regAddrs {
				isReg[x] = true
			}
			var olds, news []token
			for _, t := range h.tokens {
				if t.Class < 0 {
					continue
				}
				if isReg[t.Addr] {
					olds = append(olds, t)
				} else {
					news = append(news, t)
				}
			}
			if len(olds) > 0 {
				o := olds[rng.Intn(len(olds))]
				for _, t := range news {
					if t.Class == o.Class {
						a, ak, b, bk = o.Addr, "registered-honest", t.Addr, "fresh-same-class"
						break
					}
				}
			}
		}
		return prop{Content: aggtypes.NewUpdateTokenPairERC20Proposal(title, descr, addrSpelling(rng, a), addrSpelling(rng, b)), Kind: "update-erc20", Sub: ak, Desc: fmt.Sprintf("old=%s new=%s", ak, bk)}
	case w < 86:
		a, ak := anyAddr(false)
		ot := pickStr(rng, strings.ToLower(common.BytesToAddress(rbytes(rng, 20)).Hex()), "", " ", strings.Repeat("o", 100000), "é\x00", "0x0000000000000000000000000000000000000000")
		oc := pickStr(rng, "chain-a", "chain-b", h.n.Name, "", " ", "a/b", strings.Repeat("c", 100000), "é")
		scale := uint64(rng.Intn(19))
		if rng.Intn(10) == 0 {
			scale = pickU64(rng, 19, 255, 256, 1<<63)
		}
		return prop{Content: aggtypes.NewRegisterERC20TraceProposal(title, descr, addrSpelling(rng, a), ot, oc, scale), Kind: "register-trace", Sub: ak,
			Desc: fmt.Sprintf("contract=%s token-len=%d chain-len=%d scale=%d", ak, len(ot), len(oc), scale)}
	case w < 95:
		a, ak := anyAddr(false)
		if len(h.bound) > 0 && rng.Intn(100) < 70 {
			a, ak = h.bound[rng.Intn(len(h.bound))], "bound"
		}
		var tp, lim, mx, mn string
		if rng.Intn(100) < 60 {
			// ordered: 0 < min < max < limit
			m := big.NewInt(int64(1 + rng.Intn(1000)))
			x := new(big.Int).Add(m, big.NewInt(int64(1+rng.Intn(1000))))
			l := new(big.Int).Add(x, big.NewInt(int64(1+rng.Intn(1000))))
			if rng.Intn(4) == 0 {
				l = new(big.Int).Lsh(l, uint(pickInt(rng, 200, 255, 256, 300, 5000)))
			}
			if rng.Intn(6) == 0 {
				x = new(big.Int).Lsh(x, 256)
				l = new(big.Int).Add(x, big.NewInt(1))
			}
			tp, lim, mx, mn = fmt.Sprintf("%d", 1+rng.Intn(100000)), l.String(), x.String(), m.String()
			if rng.Intn(5) == 0 {
				tp = pickStr(rng, "+"+tp, "000"+tp, new(big.Int).Lsh(big.NewInt(1), 300).String())
				mn = "+" + mn
			}
		} else {
			tp, lim, mx, mn = genDecimal(rng), genDecimal(rng), genDecimal(rng), genDecimal(rng)
		}
		return prop{Content: aggtypes.NewEnableTimeBasedSupplyLimitProposal(title, descr, addrSpelling(rng, a), tp, lim, mx, mn), Kind: "enable-limit", Sub: ak,
			Desc: fmt.Sprintf("contract=%s period=%.30s limit=%.30s max=%.30s min=%.30s", ak, tp, lim, mx, mn)}
	}
	a, ak := anyAddr(false)
	if len(h.bound) > 0 && rng.Intn(100) < 40 {
		a, ak = h.bound[rng.Intn(len(h.bound))], "bound"
	}
	if len(h.limited) > 0 && rng.Intn(100) < 70 {
		a, ak = h.limited[rng.Intn(len(h.limited))], "limited"
	}
	return prop{Content: aggtypes.NewDisableTimeBasedSupplyLimitProposal(title, descr, addrSpelling(rng, a)), Kind: "disable-limit", Sub: ak, Desc: "contract=" + ak}
}

// ---------------------------------------------------------------- parameter changes

var rewardDenoms = []string{"stake", "acoin", "bcoin", "ccoin", "reward/x-1", longDenom128}
var oddDenoms = []string{"a", "ab", "1ab", "a b", "é", "abc!", "", " ", "L" + strings.Repeat("y", 128), "0"}

func genAmountJSON(rng *rand.Rand) string {
	switch rng.Intn(24) {
	case 0:
		return `"0"`
	case 1:
		return `"-1"`
	case 2:
		return `"+5"`
	case 3:
		return `"007"`
	case 4:
		return `"1e3"`
	case 5:
		return `"0x10"`
	case 6:
		return `""`
	case 7:
		return `"` + new(big.Int).Sub(new(big.Int).Lsh(big.NewInt(1), 256), big.NewInt(1)).String() + `"`
	case 8:
		return `"` + new(big.Int).Lsh(big.NewInt(1), 256).String() + `"`
	case 9:
		return `"1.5"`
	case 10:
		return `null`
	case 11:
		return `12`
	case 12:
		return `"` + new(big.Int).Lsh(big.NewInt(1), 255).String() + `"`
	case 13, 14:
		return `"100000000000000000"`
	}
	return fmt.Sprintf(`"%d"`, 1+rng.Intn(100000))
}

// genRewardJSON draws the raw JSON text of a PerBlockReward value.
func genRewardJSON(rng *rand.Rand) (string, string) {
	switch rng.Intn(30) {
	case 0:
		return `[]`, "empty-list"
	case 1:
		return `null`, "null"
	case 2:
		return pickStr(rng, `{}`, `"x"`, `[[]]`, `[null]`, `[{}]`, `[1]`, `{"denom":"stake","amount":"1"}`), "wrong-shape"
	case 3, 4, 5:
		// one denomination twice with another one in between (a duplicate check that only looks at neighbours, or at a
		// sorted copy, behaves differently here); small amounts, so that funded pools get into the "less than two
		// rewards left" zone within a few blocks
		perm := rng.Perm(4)
		a, b := rewardDenoms[perm[0]], rewardDenoms[perm[1]]
		x, y := 1+rng.Intn(3000), 1+rng.Intn(3000)
		return fmt.Sprintf(`[{"denom":%q,"amount":"%d"},{"denom":%q,"amount":"%d"},{"denom":%q,"amount":"%d"}]`, a, x, b, y, a, x), "dup-non-adjacent"
	}
	n := 1 + rng.Intn(4)
	shape := "multi"
	if n == 1 {
		shape = "single"
	}
	var ds []string
	perm := rng.Perm(len(rewardDenoms))
	for i := 0; i < n; i++ {
		ds = append(ds, rewardDenoms[perm[i]])
	}
	switch rng.Intn(10) {
	case 0:
		ds = append(ds, ds[rng.Intn(len(ds))])
		shape += "+dup"
	case 1:
		ds[rng.Intn(len(ds))] = oddDenoms[rng.Intn(len(oddDenoms))]
		shape += "+odd-denom"
	case 2:
		ds = append(ds, pickStr(rng, "ghost", "nobody/has-this"))
		shape += "+unheld"
	}
	if rng.Intn(2) == 0 {
		sortStrs(ds)
	} else {
		shape += "+unsorted"
	}
	var parts []string
	for _, d := range ds {
		dj, _ := json.Marshal(d)
		a := genAmountJSON(rng)
		switch rng.Intn(40) {
		case 0:
			parts = append(parts, fmt.Sprintf(`{"denom":%s}`, dj))
			shape += "+no-amount"
		case 1:
			parts = append(parts, fmt.Sprintf(`{"amount":%s}`, a))
			shape += "+no-denom"
		case 2:
			parts = append(parts, fmt.Sprintf(`{"denom":%s,"amount":%s,"amount":"3","x":1}`, dj, a))
			shape += "+dup-keys"
		default:
			parts = append(parts, fmt.Sprintf(`{"denom":%s,"amount":%s}`, dj, a))
		}
	}
	return "[" + strings.Join(parts, ",") + "]", shape
}

func genBoolJSON(rng *rand.Rand) string {
	switch rng.Intn(12) {
	case 0:
		return pickStr(rng, `"true"`, `1`, `null`, `{}`, `[]`, ` true `, `TRUE`)
	case 1, 2, 3:
		return "false"
	}
	return "true"
}

func (h *hist) genParamProposal() prop {
	rng := h.rng
	title, descr := genTitle(rng)
	n := 1
	if rng.Intn(3) == 0 {
		n = 2 + rng.Intn(2)
	}
	var chs []paramproposal.ParamChange
	var ds []string
	sub := "rvesting"
	for i := 0; i < n; i++ {
		switch w := rng.Intn(100); {
		case w < 45:
			v, shape := genRewardJSON(rng)
			chs = append(chs, paramproposal.NewParamChange("rvesting", "PerBlockReward", v))
			ds = append(ds, "reward:"+shape)
		case w < 75:
			v := genBoolJSON(rng)
			chs = append(chs, paramproposal.NewParamChange("rvesting", "EnableVesting", v))
			ds = append(ds, "enable:"+v)
		case w < 86:
			v := genBoolJSON(rng)
			chs = append(chs, paramproposal.NewParamChange("aggregate", pickStr(rng, "EnableAggregate", "EnableEVMHook"), v))
			ds = append(ds, "aggregate:"+v)
			sub = "aggregate"
		case w < 92:
			// the EVM's own switches: contract creation / calls refused for everybody, the modules included. Proposals that
			// were dry-run while they were on execute after they went off (and the other way round)
			k := pickStr(rng, "EnableCreate", "EnableCall")
			v := pickStr(rng, "false", "false", "true")
			chs = append(chs, paramproposal.NewParamChange("evm", k, v))
			ds = append(ds, "evm:"+k+"="+v)
			sub = "evm"
		case w < 96:
			chs = append(chs, paramproposal.NewParamChange(pickStr(rng, "rvesting", "aggregate"), pickStr(rng, "Nope", "enablevesting", " "), "true"))
			ds = append(ds, "unknown-key")
		default:
			chs = append(chs, paramproposal.NewParamChange(pickStr(rng, "nosuch", "xibc", ""), "EnableVesting", pickStr(rng, "true", "")))
			ds = append(ds, "unknown-subspace")
		}
	}
	if rng.Intn(40) == 0 {
		chs = nil
		ds = []string{"no-changes"}
	}
	return prop{Content: paramproposal.NewParameterChangeProposal(title, descr, chs), Kind: "param-change", Sub: sub, Desc: strings.Join(ds, ",")}
}

// ---------------------------------------------------------------- adversarial token contracts

// abiStringBlob is the ABI encoding of one dynamic string (also readable as a
// uint8: the first word is the offset 0x20).
func abiStringBlob(s []byte) []byte {
	out := make([]byte, 64)
	out[31] = 0x20
	binary.BigEndian.PutUint64(out[56:], uint64(len(s)))
	out = append(out, s...)
	for len(out)%32 != 0 {
		out = append(out, 0)
	}
	return out
}

// craftedBlobs are return values meant to upset an ABI decoder.
func craftedBlob(rng *rand.Rand) ([]byte, string) {
	word := func(fill byte) []byte {
		w := make([]byte, 32)
		for i := range w {
			w[i] = fill
		}
		return w
	}
	switch rng.Intn(9) {
	case 0:
		return nil, "empty-return"
	case 1:
		return append(word(0xff), word(0)...), "offset-max"
	case 2:
		b := make([]byte, 64)
		b[31] = 0x20
		for i := 56; i < 64; i++ {
			b[i] = 0xff
		}
		return b, "length-2^64-1"
	case 3:
		b := make([]byte, 64)
		b[31] = 0x20
		b[60] = 0x7f
		return b, "length-2^31-no-data"
	case 4:
		b := abiStringBlob([]byte("hello"))
		return b[:66], "data-truncated"
	case 5:
		return abiStringBlob([]byte{0xff, 0xfe, 0x00, 0x80}), "invalid-utf8"
	case 6:
		return abiStringBlob([]byte(strings.Repeat("n", 20000))), "name-20k"
	case 7:
		return abiStringBlob(nil), "empty-string"
	}
	b := make([]byte, 64)
	b[0] = 0x80
	b[31] = 0x20
	return b, "offset-2^255"
}

// timeSwitch returns runtime code that answers every call with blob `early`
// while block.timestamp < t and with blob `late` afterwards.
func timeSwitch(t uint64, early, late []byte) []byte {
	a := core.NewAsm()
	var tb [8]byte
	binary.BigEndian.PutUint64(tb[:], t)
	a.PushBytes(tb[:]).Op(0x42, 0x10) // TIMESTAMP < t
	a.PushLabel("early").Op(0x57)     // JUMPI
	a.Push(uint64(len(late))).PushLabel("dlate").Push(0).Op(0x39)
	a.Push(uint64(len(late))).Push(0).Op(0xf3)
	a.Label("early")
	a.Push(uint64(len(early))).PushLabel("dearly").Push(0).Op(0x39)
	a.Push(uint64(len(early))).Push(0).Op(0xf3)
	a.Mark("dearly").Data(early)
	a.Mark("dlate").Data(late)
	return a.Bytes()
}

func sortStrs(xs []string) {
	for i := 1; i < len(xs); i++ {
		for j := i; j > 0 && xs[j-1] > xs[j]; j-- {
			xs[j-1], xs[j] = xs[j], xs[j-1]
		}
	}
}

func sortAddrs(xs []common.Address) {
	for i := 1; i < len(xs); i++ {
		for j := i; j > 0 && strings.Compare(xs[j-1].Hex(), xs[j].Hex()) > 0; j-- {
			xs[j-1], xs[j] = xs[j], xs[j-1]
		}
	}
}
