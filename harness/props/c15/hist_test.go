package c15

import (
	"crypto/sha256"
	"encoding/hex"
	"encoding/json"
	"fmt"
	"math/rand"
	"os"
	"sort"
	"strings"
	"time"

	"github.com/cosmos/cosmos-sdk/simapp"
	sdk "github.com/cosmos/cosmos-sdk/types"
	authtypes "github.com/cosmos/cosmos-sdk/x/auth/types"
	banktypes "github.com/cosmos/cosmos-sdk/x/bank/types"
	govtypes "github.com/cosmos/cosmos-sdk/x/gov/types"
	"github.com/ethereum/go-ethereum/common"
	"github.com/gogo/protobuf/proto"
	"github.com/tharsis/ethermint/encoding"
	evmtypes "github.com/tharsis/ethermint/x/evm/types"

	"github.com/teleport-network/teleport/app"
	aggtypes "github.com/teleport-network/teleport/x/aggregate/types"
	rvestingtypes "github.com/teleport-network/teleport/x/rvesting/types"
	"github.com/teleport-network/teleport/x/xibc/exported"

	"verif/harness/core"
	ac "verif/harness/props/aggcommon"
)

// ---------------------------------------------------------------- child log

// rec is one line of the child's log file.
type rec struct {
	T      string                 `json:"t"`           // case | res | cnts | sample | inc | done
	C      string                 `json:"c,omitempty"` // case id (history)
	S      string                 `json:"s,omitempty"` // step inside the history
	Kind   string                 `json:"k,omitempty"`
	Desc   string                 `json:"d,omitempty"`
	O      string                 `json:"o,omitempty"`  // outcome
	EK     string                 `json:"ek,omitempty"` // evaluation key (distinctness)
	NT     bool                   `json:"nt,omitempty"` // non-trivial
	Key    string                 `json:"key,omitempty"`
	Detail map[string]interface{} `json:"detail,omitempty"`
	M      map[string]int         `json:"m,omitempty"`
	V      interface{}            `json:"v,omitempty"`
}

type clog struct {
	f    *os.File
	cnts map[string]int
}

func (l *clog) write(r rec) {
	bz, err := json.Marshal(r)
	if err != nil {
		bz, _ = json.Marshal(rec{T: "inc", Desc: "unencodable log record: " + err.Error()})
	}
	bz = append(bz, '\n')
	_, _ = l.f.Write(bz) // unbuffered: the line is in the file before the case runs
}

func (l *clog) count(name string, n int) { l.cnts[name] += n }

func (l *clog) flushCounts() {
	if len(l.cnts) == 0 {
		return
	}
	l.write(rec{T: "cnts", M: l.cnts})
	l.cnts = map[string]int{}
}

// ---------------------------------------------------------------- history

type token struct {
	Addr  common.Address
	Kind  string
	Class int // metadata class of an honest ERC-20 (name/symbol/decimals), -1 otherwise
}

type pending struct {
	ID      uint64
	P       prop
	EK      string
	Content string // hex of the proto-encoded content (first bytes), for witnesses
}

type hist struct {
	id      string
	rng     *rand.Rand
	n       *core.Node
	l       *clog
	a0, u1  *core.Account
	u2      *core.Account
	clk     time.Time
	coins   []string
	tokens  []token
	bound   []common.Address
	limited []common.Address
	pend    map[uint64]*pending
	dead    bool
	blk     int
	thor    bool
	variant string
}

var (
	genesisT = time.Date(2022, 1, 2, 0, 0, 0, 0, time.UTC)
	deposit  = sdk.NewCoins(sdk.NewInt64Coin(core.BondDenom, 10_000_000))
	poolAddr = authtypes.NewModuleAddress(rvestingtypes.ModuleName)
)

const errPanicCode = 111222

func hashKey(parts ...string) string {
	h := sha256.Sum256([]byte(strings.Join(parts, "\x00")))
	return hex.EncodeToString(h[:10])
}

func trunc(s string, n int) string {
	if len(s) > n {
		return s[:n] + "..."
	}
	return s
}

// violation records a refuted case in the log; the parent turns it into Run.Violation.
func (h *hist) violation(step, key string, detail map[string]interface{}) {
	detail["history"] = h.id
	detail["step"] = step
	detail["world"] = h.variant
	h.l.write(rec{T: "res", C: h.id, S: step, O: "panic", Key: key, Detail: detail})
	h.l.count("violations_seen", 1)
}

func (h *hist) inconclusive(format string, a ...interface{}) {
	h.l.write(rec{T: "inc", C: h.id, Desc: fmt.Sprintf(format, a...)})
}

func (h *hist) clientType(name string) string {
	var out string
	_, _ = catchStack(func() error {
		cs, ok := h.n.App.XIBCKeeper.ClientKeeper.GetClientState(h.n.Ctx(), name)
		if ok {
			out = cs.ClientType()
		}
		return nil
	})
	return out
}

// newHist builds the world of one history. A generated genesis (when the
// real ValidateGenesis of every module accepts it) replaces the default one.
func newHist(id string, rng *rand.Rand, l *clog, thorough bool, genesisOnly bool) *hist {
	h := &hist{id: id, rng: rng, l: l, pend: map[uint64]*pending{}, thor: thorough}
	h.a0, h.u1, h.u2 = core.NewAccount("c15-a0"), core.NewAccount("c15-u1"), core.NewAccount("c15-u2")
	accs := []*core.Account{h.a0, h.u1, h.u2}
	h.coins = []string{"acoin", "bcoin", "ccoin", "dcoin", ac.IBCCoin}
	funded := append(append([]string{}, h.coins...), "reward/x-1", longDenom128)
	fundCoins := ac.FundGenesis(accs, funded, ac.UserFunds)
	// x/bank already describes two of the funded coins (chains list their coins in bank genesis): "dcoin" exactly the way an honest
	// proposal describes it, "ccoin" with alias lists that strictly extend the proposal's
	fund := func(tp *app.Teleport, g simapp.GenesisState) {
		fundCoins(tp, g)
		var bg banktypes.GenesisState
		tp.AppCodec().MustUnmarshalJSON(g[banktypes.ModuleName], &bg)
		bg.DenomMetadata = append(bg.DenomMetadata, storedMetadata("ccoin", true), storedMetadata("dcoin", false))
		g[banktypes.ModuleName] = tp.AppCodec().MustMarshalJSON(&bg)
	}

	var plan *genesisPlan
	useGen := genesisOnly || rng.Intn(4) == 0
	h.variant = "default-genesis"
	if useGen {
		encCdc := encoding.MakeConfig(app.ModuleBasics)
		pl, ok := genGenesisPlan(rng, encCdc.Marshaler, "teleport", h.u1.Bech32())
		if !ok {
			l.count("genesis/unencodable", 1)
			l.write(rec{T: "res", C: id, S: "genesis", O: "unencodable", EK: hashKey("genesis-unencodable", id)})
		} else {
			ek := hashKey("genesis", string(pl.XIBC), string(pl.Aggregate), string(pl.RVesting))
			// the gate: every module's ValidateGenesis over the complete genesis, as `validate-genesis` runs it
			gs := app.NewDefaultGenesisState()
			if pl.XIBC != nil {
				gs["xibc"] = pl.XIBC
			}
			if pl.Aggregate != nil {
				gs[aggtypes.ModuleName] = pl.Aggregate
			}
			if pl.RVesting != nil {
				gs[rvestingtypes.ModuleName] = pl.RVesting
			}
			verr, vc := catchStack(func() error { return app.ModuleBasics.ValidateGenesis(encCdc.Marshaler, encCdc.TxConfig, gs) })
			switch {
			case vc != nil:
				l.count("genesis/gate-panicked", 1)
				l.count("genesis/gate-panicked/"+topFrame(vc.Stack), 1)
				l.write(rec{T: "res", C: id, S: "genesis", O: "gate-panicked", EK: ek})
			case verr != nil:
				l.count("genesis/gate-refused", 1)
				l.write(rec{T: "res", C: id, S: "genesis", O: "gate-refused", EK: ek})
			default:
				plan = pl
				h.variant = "generated-genesis: " + strings.Join(pl.Desc, "; ")
			}
			if plan == nil && genesisOnly {
				return nil
			}
			if plan != nil {
				l.count("genesis/validated", 1)
				l.write(rec{T: "case", C: id, S: "initchain", Kind: "genesis", Desc: trunc(h.variant, 900)})
				var n *core.Node
				_, c := catchStack(func() error {
					n = core.NewNode(core.NodeConfig{ChainID: "teleport_9000-1", XIBCName: "teleport", Accounts: accs, GenesisTime: genesisT,
						MutateGenesis: func(tp *app.Teleport, g simapp.GenesisState) {
							fund(tp, g)
							if plan.XIBC != nil {
								g["xibc"] = plan.XIBC
							}
							if plan.Aggregate != nil {
								g[aggtypes.ModuleName] = plan.Aggregate
							}
							if plan.RVesting != nil {
								g[rvestingtypes.ModuleName] = plan.RVesting
							}
						}})
					return nil
				})
				if c != nil {
					if !strings.Contains(c.Stack, ".InitChain(") {
						h.inconclusive("%s: world construction panicked before InitChain: %s", id, trunc(c.Msg, 300))
						return nil
					}
					h.l.write(rec{T: "res", C: id, S: "genesis", O: "initchain-panic", EK: ek, NT: true})
					h.violation("initchain", sigKey("genesis", c), map[string]interface{}{
						"panic": trunc(c.Msg, 400), "frames": repoFrames(c.Stack, 6), "genesis": strings.Join(plan.Desc, "; "),
						"xibc_genesis": trunc(string(plan.XIBC), 1500), "aggregate_genesis": trunc(string(plan.Aggregate), 600), "rvesting_genesis": trunc(string(plan.RVesting), 600),
					})
					return nil
				}
				l.count("genesis/initchain-ok", 1)
				l.write(rec{T: "res", C: id, S: "genesis", O: "initchain-ok", EK: ek, NT: true})
				h.n = n
			}
		}
	}
	if h.n == nil {
		if genesisOnly {
			return nil
		}
		_, c := catchStack(func() error {
			h.n = core.NewNode(core.NodeConfig{ChainID: "teleport_9000-1", XIBCName: "teleport", Accounts: accs, GenesisTime: genesisT, MutateGenesis: fund})
			return nil
		})
		if c != nil {
			h.inconclusive("%s: default world could not be built: %s", id, trunc(c.Msg, 300))
			return nil
		}
	}
	h.clk = genesisT
	return h
}

// begin starts the next block (violation when BeginBlock panics).
func (h *hist) begin(d time.Duration) bool {
	h.clk = h.clk.Add(d)
	h.blk++
	step := fmt.Sprintf("b%d/begin", h.blk)
	var poolBefore sdk.Coins
	var enabled bool
	_, _ = catchStack(func() error {
		ctx := h.prectx()
		poolBefore = h.n.App.BankKeeper.GetAllBalances(ctx, poolAddr)
		enabled = h.n.App.RVestingKeeper.GetParams(ctx).EnableVesting
		return nil
	})
	h.l.write(rec{T: "case", C: h.id, S: step, Kind: "beginblock", Desc: fmt.Sprintf("t=%s vesting=%v pool=%s", h.clk.Format(time.RFC3339), enabled, trunc(poolBefore.String(), 200))})
	_, c := catchStack(func() error { h.n.Begin(h.clk); return nil })
	if c != nil {
		h.dead = true
		var params string
		_, _ = catchStack(func() error { pp := h.n.App.RVestingKeeper.GetParams(h.prectx()); params = pp.String(); return nil })
		h.violation(step, sigKey("beginblock", c), map[string]interface{}{"panic": trunc(c.Msg, 400), "frames": repoFrames(c.Stack, 6), "rvesting_params": trunc(params, 400), "pool": trunc(poolBefore.String(), 300)})
		return false
	}
	h.l.count("blocks_begun", 1)
	if enabled {
		h.l.count("beginblock/vesting-enabled", 1)
		after := h.n.App.BankKeeper.GetAllBalances(h.n.Ctx(), poolAddr)
		if !after.IsEqual(poolBefore) {
			h.l.count("beginblock/vesting-released", 1)
		}
	}
	return true
}

// prectx is the committed state between blocks.
func (h *hist) prectx() sdk.Context {
	if h.n.Height() == 0 && !h.n.InBlock {
		return h.n.App.BaseApp.NewContext(false, h.n.Header)
	}
	return h.n.Ctx()
}

// setup deploys the token contracts and, in the populated variant, creates
// one valid client of every type (world construction, not judged).
func (h *hist) setup() bool {
	if !h.begin(5 * time.Second) {
		return false
	}
	err, c := catchStack(func() error {
		for _, cl := range []struct {
			n, s string
			d    uint8
			c    int
		}{{"tokx", "TKX", 6, 0}, {"tokx", "TKX", 6, 0}, {"tokx", "TKX", 6, 0}, {"toky", "TKY", 18, 1}, {"toky", "TKY", 18, 1}, {"tokz", "TKZ", 0, 2}, {"tokz", "TKZ", 0, 2}} {
			a, err := h.n.DeployERC20(cl.n, cl.s, cl.d)
			if err != nil {
				return err
			}
			h.tokens = append(h.tokens, token{a, "honest", cl.c})
		}
		dep := func(kind string, code []byte) error {
			a, err := h.n.DeployRuntime(h.a0.Eth, code)
			if err != nil {
				return err
			}
			h.tokens = append(h.tokens, token{a, kind, -1})
			return nil
		}
		if err := dep("reverter", core.Reverter()); err != nil {
			return err
		}
		if err := dep("return-word", core.ReturnWord(common.BytesToHash(rbytes(h.rng, 32)))); err != nil {
			return err
		}
		if err := dep("counter", core.Counter()); err != nil {
			return err
		}
		for i := 0; i < 3; i++ {
			blob, bk := craftedBlob(h.rng)
			if err := dep("fixed:"+bk, timeSwitch(0, nil, blob)); err != nil {
				return err
			}
		}
		for i := 0; i < 2; i++ {
			blob, bk := craftedBlob(h.rng)
			t := uint64(h.clk.Add(time.Duration(1+2*i) * 24 * time.Hour).Unix())
			if err := dep("switch:"+bk, timeSwitch(t, abiStringBlob([]byte("Switch Token")), blob)); err != nil {
				return err
			}
		}
		return nil
	})
	if err != nil || c != nil {
		h.inconclusive("%s: token deployment failed: %v %v", h.id, err, c)
		return false
	}
	h.tokens = append(h.tokens,
		token{core.PacketAddr, "system:packet", -1}, token{core.EndpointAddr, "system:endpoint", -1}, token{common.Address{}, "zero", -1},
		token{common.BytesToAddress([]byte{1}), "precompile:1", -1}, token{common.BytesToAddress([]byte{9}), "precompile:9", -1},
		token{h.a0.Eth, "eoa", -1}, token{common.BytesToAddress(rbytes(h.rng, 20)), "random", -1}, token{aggtypes.ModuleAddress, "module-account", -1})
	if h.rng.Intn(2) == 0 && strings.HasPrefix(h.variant, "default") {
		h.variant = "populated"
		k := h.n.App.XIBCKeeper.ClientKeeper
		for i, ct := range []string{exported.Tendermint, exported.BSC, exported.ETH, exported.TSS, exported.TSS, exported.Tendermint} {
			cs, cons, _ := genClient(h.rng, ct, false)
			err, c := catchStack(func() error { return k.CreateClient(h.n.Ctx(), chainPool[i], cs, cons) })
			if err != nil || c != nil {
				h.inconclusive("%s: cannot pre-create a valid %s client: %v %v", h.id, ct, err, c)
			}
		}
	}
	return true
}

func (h *hist) topUpPool() {
	var cs sdk.Coins
	for _, d := range rewardDenoms {
		if h.rng.Intn(3) == 0 {
			cs = cs.Add(sdk.NewInt64Coin(d, int64(1+h.rng.Intn(5000))))
		}
	}
	if cs.IsZero() {
		return
	}
	err, c := catchStack(func() error {
		if err := h.n.App.BankKeeper.MintCoins(h.n.Ctx(), evmtypes.ModuleName, cs); err != nil {
			return err
		}
		return h.n.App.BankKeeper.SendCoinsFromModuleToModule(h.n.Ctx(), evmtypes.ModuleName, rvestingtypes.ModuleName, cs)
	})
	if err != nil || c != nil {
		h.inconclusive("%s: pool top-up failed: %v %v", h.id, err, c)
		return
	}
	h.l.count("pool_topups", 1)
}

// submit sends one generated proposal through the real submission path.
func (h *hist) submit(j int, p prop) {
	step := fmt.Sprintf("b%d/p%d", h.blk, j)
	cnt := func(s string) { h.l.count(s, 1); h.l.count(s+"/"+p.Kind, 1) }
	h.l.count("proposals_generated", 1)
	if p.Content == nil {
		cnt("gate/unencodable")
		h.l.write(rec{T: "res", C: h.id, S: step, Kind: p.Kind, O: "unencodable", EK: hashKey(h.id, step)})
		return
	}
	var tx, cbz []byte
	err, c := catchStack(func() error {
		var err error
		pm, ok := p.Content.(proto.Message)
		if !ok {
			return fmt.Errorf("content is not a proto message")
		}
		if cbz, err = h.n.App.AppCodec().MarshalInterface(pm); err != nil {
			return err
		}
		msg, err := govtypes.NewMsgSubmitProposal(p.Content, deposit, h.a0.Acc)
		if err != nil {
			return err
		}
		tx, err = h.n.CosmosTx(h.a0, 80_000_000, msg)
		return err
	})
	if err != nil || c != nil {
		cnt("gate/unencodable")
		h.l.write(rec{T: "res", C: h.id, S: step, Kind: p.Kind, O: "unencodable", EK: hashKey(h.id, step)})
		return
	}
	ek := hashKey(p.Kind, string(cbz))
	// what the chain decodes from the wire is what ValidateBasic judges
	var decoded govtypes.Content
	var refusal string
	verr, vc := catchStack(func() error {
		dtx, err := h.n.TxConfig.TxDecoder()(tx)
		if err != nil {
			return fmt.Errorf("decode: %w", err)
		}
		for _, m := range dtx.GetMsgs() {
			if sp, ok := m.(*govtypes.MsgSubmitProposal); ok {
				decoded = sp.GetContent()
			}
			if err := m.ValidateBasic(); err != nil {
				return err
			}
		}
		return nil
	})
	switch {
	case vc != nil:
		refusal = "stateless-panicked"
		h.l.count("gate/stateless-panicked-at/"+p.Kind+"/"+topFrame(vc.Stack), 1)
	case verr != nil:
		refusal = "stateless-refused"
	}
	if refusal != "" {
		cnt("gate/" + refusal)
		if h.rng.Intn(6) != 0 {
			h.l.write(rec{T: "res", C: h.id, S: step, Kind: p.Kind, O: refusal, EK: ek})
			return
		}
	}
	id, _ := h.n.App.GovKeeper.GetProposalID(h.n.Ctx())
	h.l.write(rec{T: "case", C: h.id, S: step, Kind: "submit:" + p.Kind + "/" + p.Sub, Desc: trunc(p.Desc, 400)})
	var code uint32
	var logmsg string
	_, dc := catchStack(func() error {
		res := h.n.Deliver(tx)
		code, logmsg = res.Code, res.Log
		return nil
	})
	if dc != nil {
		h.dead = true
		h.violation(step, sigKey("delivertx-escaped/"+p.Kind, dc), map[string]interface{}{"panic": trunc(dc.Msg, 400), "frames": repoFrames(dc.Stack, 6), "proposal": p.Desc})
		return
	}
	if refusal != "" {
		if code == 0 {
			h.inconclusive("%s %s: ValidateBasic refused the decoded message (%s) but the transaction was accepted", h.id, step, refusal)
		} else {
			h.l.count("gate/stateless-refusal-confirmed-by-tx", 1)
		}
		h.l.write(rec{T: "res", C: h.id, S: step, Kind: p.Kind, O: refusal, EK: ek})
		return
	}
	switch {
	case code == 0:
		cnt("submit/accepted")
		pe := &pending{ID: id, P: p, EK: ek, Content: trunc(hex.EncodeToString(cbz), 1600)}
		h.pend[id] = pe
		vtx, err := h.n.CosmosTx(h.a0, 2_000_000, govtypes.NewMsgVote(h.a0.Acc, id, govtypes.OptionYes))
		if err == nil {
			if res := h.n.Deliver(vtx); res.Code != 0 {
				h.inconclusive("%s %s: vote refused: %s", h.id, step, trunc(res.Log, 200))
			}
		}
	case code == errPanicCode:
		// refused because the submission-time dry run of the handler panicked inside DeliverTx:
		// never reaches EndBlock. Re-run the handler on a discarded branch only to name the site.
		cnt("submit/latent-panic-in-dry-run")
		key := "latent/" + p.Kind + "/unattributed"
		detail := map[string]interface{}{"proposal": p.Desc, "kind": p.Kind, "sub": p.Sub}
		if decoded != nil {
			cctx, _ := h.n.Ctx().CacheContext()
			handler := h.n.App.GovKeeper.Router().GetRoute(decoded.ProposalRoute())
			if _, lc := catchStack(func() error { return handler(cctx, decoded) }); lc != nil {
				key = sigKey("latent/"+p.Kind, lc)
				detail["panic"] = trunc(lc.Msg, 300)
				detail["frames"] = repoFrames(lc.Stack, 5)
			}
		}
		h.l.count(key, 1)
		h.l.write(rec{T: "res", C: h.id, S: step, Kind: p.Kind, O: "latent", EK: ek, Key: key, Detail: detail})
	default:
		cnt("submit/refused-by-dry-run")
		if code == 11 {
			h.l.count("submit/refused-out-of-gas", 1)
		}
		h.l.write(rec{T: "res", C: h.id, S: step, Kind: p.Kind, O: "dry-run-refused", EK: ek, Desc: trunc(logmsg, 160)})
	}
}

type attribution struct {
	ID uint64
	C  *caught
}

// emulateDue runs the proposals that the coming EndBlock will execute, in gov's
// order and gov's way, on a discarded branch: only to learn which proposal a
// panic of the real EndBlock belongs to.
func (h *hist) emulateDue() (due []uint64, at *attribution) {
	_, c := catchStack(func() error {
		bctx, _ := h.n.Ctx().CacheContext()
		k := h.n.App.GovKeeper
		var props []govtypes.Proposal
		k.IterateActiveProposalsQueue(bctx, h.n.Header.Time, func(p govtypes.Proposal) bool { props = append(props, p); return false })
		for _, p := range props {
			due = append(due, p.ProposalId)
		}
		for _, p := range props {
			passes, _, _ := k.Tally(bctx, p)
			if !passes {
				continue
			}
			handler := k.Router().GetRoute(p.ProposalRoute())
			cctx, write := bctx.CacheContext()
			pe := h.pend[p.ProposalId]
			d := ""
			if pe != nil {
				d = pe.P.Kind + "/" + pe.P.Sub + " " + pe.P.Desc
			}
			h.l.write(rec{T: "case", C: h.id, S: fmt.Sprintf("b%d/exec-branch/%d", h.blk, p.ProposalId), Kind: "execute", Desc: trunc(d, 400)})
			err, pc := catchStack(func() error { return handler(cctx, p.GetContent()) })
			if pc != nil {
				at = &attribution{ID: p.ProposalId, C: pc}
				return nil
			}
			if err == nil {
				write()
			}
		}
		return nil
	})
	if c != nil {
		h.inconclusive("%s b%d: branch execution of due proposals failed outside a handler: %s", h.id, h.blk, trunc(c.Msg, 200))
	}
	return
}

// end runs the real EndBlock + Commit (violation when it panics).
func (h *hist) end() bool {
	due, at := h.emulateDue()
	step := fmt.Sprintf("b%d/end", h.blk)
	h.l.write(rec{T: "case", C: h.id, S: step, Kind: "endblock", Desc: fmt.Sprintf("due=%v", due)})
	_, c := catchStack(func() error { h.n.End(); return nil })
	if c != nil {
		h.dead = true
		kind := "unattributed"
		detail := map[string]interface{}{"panic": trunc(c.Msg, 400), "frames": repoFrames(c.Stack, 8), "due_proposals": due}
		if !strings.Contains(c.Stack, "x/gov.EndBlocker") {
			h.violation(step, sigKey("endblock", c), detail)
			return false
		}
		if at != nil {
			if pe := h.pend[at.ID]; pe != nil {
				kind = pe.P.Kind
				detail["proposal"] = map[string]interface{}{"id": at.ID, "kind": pe.P.Kind, "carries": pe.P.Sub, "shape": pe.P.Desc, "content_hex": pe.Content}
				h.l.write(rec{T: "res", C: h.id, S: step, Kind: pe.P.Kind, O: "executed-panic", EK: pe.EK, NT: true})
			}
			var earlier []string
			for _, id := range due {
				if id == at.ID {
					break
				}
				if pe := h.pend[id]; pe != nil {
					earlier = append(earlier, fmt.Sprintf("#%d %s/%s %s", id, pe.P.Kind, pe.P.Sub, trunc(pe.P.Desc, 200)))
				}
			}
			detail["executed_before_in_same_endblock"] = earlier
			if topFrame(at.C.Stack) != topFrame(c.Stack) {
				detail["branch_execution_panicked_at"] = topFrame(at.C.Stack)
			}
		} else {
			h.l.count("endblock_panic_not_reproduced_on_branch", 1)
		}
		h.l.count("e2e_endblock_panics", 1)
		h.violation(step, sigKey("proposal/"+kind, c), detail)
		return false
	}
	if at != nil {
		h.inconclusive("%s %s: proposal %d panicked on the branch (%s) but the real EndBlock did not", h.id, step, at.ID, trunc(at.C.Msg, 120))
	}
	h.l.count("blocks_committed", 1)
	ctx := h.n.Ctx()
	for _, id := range due {
		pe := h.pend[id]
		if pe == nil {
			continue
		}
		delete(h.pend, id)
		pr, ok := h.n.App.GovKeeper.GetProposal(ctx, id)
		o := "gone"
		if ok {
			switch pr.Status {
			case govtypes.StatusPassed:
				o = "executed-ok"
			case govtypes.StatusFailed:
				o = "executed-err"
			case govtypes.StatusRejected:
				o = "tally-rejected"
			default:
				o = "status-" + pr.Status.String()
			}
		}
		h.l.count("exec/"+o, 1)
		h.l.count("exec/"+o+"/"+pe.P.Kind, 1)
		if pe.P.Kind == "create-client" || pe.P.Kind == "upgrade-client" || pe.P.Kind == "toggle-client" {
			h.l.count("exec/"+o+"/"+pe.P.Kind+"/"+pe.P.Sub, 1)
		}
		nt := o == "executed-ok" || o == "executed-err"
		h.l.write(rec{T: "res", C: h.id, S: fmt.Sprintf("b%d/exec/%d", h.blk, id), Kind: pe.P.Kind, O: o, EK: pe.EK, NT: nt})
		if o == "executed-ok" && pe.P.Kind == "register-trace" {
			if c, ok := pe.P.Content.(*aggtypes.RegisterERC20TraceProposal); ok && common.IsHexAddress(c.ERC20Address) {
				h.bound = append(h.bound, common.HexToAddress(c.ERC20Address))
			}
		}
		if o == "executed-ok" && pe.P.Kind == "enable-limit" {
			if c, ok := pe.P.Content.(*aggtypes.EnableTimeBasedSupplyLimitProposal); ok && common.IsHexAddress(c.ERC20Address) {
				h.limited = append(h.limited, common.HexToAddress(c.ERC20Address))
			}
		}
	}
	return true
}

// run drives the whole history.
func (h *hist) run(blocks int) {
	if !h.setup() {
		return
	}
	if !h.end() {
		return
	}
	for b := 0; b < blocks && !h.dead; b++ {
		d := []time.Duration{5 * time.Second, 5 * time.Second, 24 * time.Hour, 24 * time.Hour, 48*time.Hour + 5*time.Second}[h.rng.Intn(5)]
		if !h.begin(d) {
			return
		}
		if h.rng.Intn(100) < 30 {
			h.topUpPool()
		}
		if h.rng.Intn(100) < 20 {
			blob, bk := craftedBlob(h.rng)
			t := uint64(h.clk.Add(24 * time.Hour).Unix())
			if _, c := catchStack(func() error {
				a, err := h.n.DeployRuntime(h.a0.Eth, timeSwitch(t, abiStringBlob([]byte("Late Switch")), blob))
				if err == nil {
					h.tokens = append(h.tokens, token{a, "switch:" + bk, -1})
				}
				return err
			}); c != nil {
				h.inconclusive("%s: switch token deployment panicked: %s", h.id, trunc(c.Msg, 200))
			}
		}
		if h.rng.Intn(100) < 70 {
			k := 1 + h.rng.Intn(5)
			focus := ""
			if h.rng.Intn(100) < 55 {
				focus = chainPool[h.rng.Intn(len(chainPool))]
			}
			fam := h.rng.Intn(100)
			for j := 0; j < k && !h.dead; j++ {
				var p prop
				f := fam
				if h.rng.Intn(3) == 0 {
					f = h.rng.Intn(100)
				}
				_, c := catchStack(func() error {
					switch {
					case f < 50:
						p = h.genClientProposal(focus)
					case f < 80:
						p = h.genAggProposal()
					default:
						p = h.genParamProposal()
					}
					return nil
				})
				if c != nil {
					h.inconclusive("%s: generator panicked: %s", h.id, trunc(c.Msg+" "+strings.Join(repoFrames(c.Stack, 3), ","), 300))
					continue
				}
				h.submit(j, p)
			}
		}
		if h.dead || !h.end() {
			return
		}
	}
	// drain: let everything that was accepted be executed
	for i := 0; i < 3 && !h.dead && len(h.pend) > 0; i++ {
		if !h.begin(48*time.Hour + 5*time.Second) {
			return
		}
		if !h.end() {
			return
		}
	}
	if len(h.pend) > 0 && !h.dead {
		var ids []uint64
		for id := range h.pend {
			ids = append(ids, id)
		}
		sort.Slice(ids, func(i, j int) bool { return ids[i] < ids[j] })
		h.inconclusive("%s: accepted proposals %v were never executed", h.id, ids)
	}
}

// ---------------------------------------------------------------- child main

type childSpec struct {
	Log      string `json:"log"`
	Fam      string `json:"fam"` // gov | gen
	From     int    `json:"from"`
	To       int    `json:"to"`
	Step     int    `json:"step"`
	Off      int    `json:"off"`
	Only     string `json:"only,omitempty"`
	Blocks   int    `json:"blocks"`
	Thorough bool   `json:"thorough"`
}

func childMain(r *core.Run, spec childSpec) {
	f, err := os.OpenFile(spec.Log, os.O_CREATE|os.O_WRONLY|os.O_APPEND, 0o644)
	if err != nil {
		fmt.Fprintf(os.Stderr, "child: cannot open log: %v\n", err)
		os.Exit(3)
	}
	l := &clog{f: f, cnts: map[string]int{}}
	for i := spec.From; i < spec.To; i++ {
		if spec.Step > 1 && i%spec.Step != spec.Off {
			continue
		}
		id := fmt.Sprintf("%s/%d", spec.Fam, i)
		if spec.Only != "" && spec.Only != id {
			continue
		}
		l.write(rec{T: "case", C: id, S: "start", Kind: "history"})
		rng := r.Rng(id)
		h := newHist(id, rng, l, spec.Thorough, spec.Fam == "gen")
		if h != nil {
			if spec.Fam == "gen" {
				// a validated genesis: a few blocks on top of it
				for b := 0; b < 3 && !h.dead; b++ {
					if !h.begin(5 * time.Second) {
						break
					}
					if !h.end() {
						break
					}
				}
			} else {
				h.run(spec.Blocks)
			}
			if i < spec.From+spec.Step*2 {
				l.write(rec{T: "sample", V: map[string]interface{}{"history": id, "world": trunc(h.variant, 300), "blocks": h.blk, "dead": h.dead}})
			}
		}
		l.count("histories/"+spec.Fam, 1)
		l.write(rec{T: "res", C: id, S: "finish", O: "history-finished"})
		l.flushCounts()
	}
	l.write(rec{T: "done"})
	_ = f.Close()
}
