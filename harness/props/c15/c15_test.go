// Package c15 monitors C15: code that runs outside per-transaction panic
// recovery (BeginBlock / EndBlock, the execution of passed governance
// proposals inside gov's EndBlocker, InitGenesis of a validated genesis) never
// panics.
//
// The parent test process only orchestrates: every case runs in a child
// process (the same test binary re-executed with C15_CHILD set) that logs each
// step to a file before executing it, so that neither a Go panic nor a dead
// process can end the monitor. See hist_test.go for what a child drives.
package c15

import (
	"bufio"
	"context"
	"encoding/json"
	"fmt"
	"os"
	"os/exec"
	"path/filepath"
	"sort"
	"strings"
	"sync"
	"testing"
	"time"

	"verif/harness/core"
)

const childEnv = "C15_CHILD"

// teleportFrames tells whether the recorded stack of a handler panic passes through teleport's own modules
// (anything but the handler closures app.go hands to gov).
func teleportFrames(detail map[string]interface{}) bool {
	fs, _ := detail["frames"].([]interface{})
	for _, f := range fs {
		if s, ok := f.(string); ok && !strings.HasPrefix(s, "app.") {
			return true
		}
	}
	return false
}

type latentInfo struct {
	Count   int                    `json:"count"`
	Example map[string]interface{} `json:"example"`
}

type parent struct {
	envRetries int // children lost to resource exhaustion of the machine (re-run)
	r          *core.Run
	mu         sync.Mutex
	latent     map[string]*latentInfo
	dir        string
	nchild     int
}

func TestC15(t *testing.T) {
	if s := os.Getenv(childEnv); s != "" {
		var spec childSpec
		if err := json.Unmarshal([]byte(s), &spec); err != nil {
			fmt.Fprintf(os.Stderr, "child: bad spec: %v\n", err)
			os.Exit(3)
		}
		r := core.NewRun(t, "C15") // only for the seeded PRNG; the child never calls Finish
		childMain(r, spec)
		return
	}

	r := core.NewRun(t, "C15")
	r.Rule = "governance histories on a real chain in child processes: generated proposal contents of every type (4 XIBC client proposals x tendermint/bsc/eth/tss client states with degenerate shapes, 8 aggregate proposals with boundary metadata/addresses/decimal strings, param-change proposals for rvesting and aggregate with raw JSON values) are SUBMITTED through DeliverTx (MsgSubmitProposal: ValidateBasic + gov's submission-time dry run of the handler), voted, and EXECUTED by the real gov EndBlocker after the voting period, several proposals in flight at once so that the state changes between submission and execution; every BeginBlock/EndBlock of the histories (rvesting BeginBlocker under the accepted parameters, funded and empty pools) is observed; generated genesis states of xibc (client+packet), aggregate and rvesting that pass every module's ValidateGenesis are initialised by the real InitChain. One evaluated case = one generated proposal / one generated genesis; non-trivial = accepted at submission and executed by EndBlock (success or ordinary error), resp. accepted by ValidateGenesis and run through InitChain; distinct by hash of the encoded content / genesis."
	r.Assume("\"accepted at submission\" is what the real chain accepts: MsgSubmitProposal delivered in a transaction (message ValidateBasic, then gov.Keeper.SubmitProposal which dry-runs the handler on a cache context inside DeliverTx's panic recovery). Contents that pass ValidateBasic but panic in that dry run never reach EndBlock; they are reported as latent (evidence key latent_panics_behind_dry_run), not as violations")
	r.Assume("generated genesis files are cross-module consistent (funded rvesting From account, module accounts present); the gate is ModuleBasics.ValidateGenesis over the whole genesis")
	r.Assume("the rvesting pool is topped up by the harness through a minter module; all proposals get a yes vote from the only delegator")
	defer r.Finish()

	dir, err := os.MkdirTemp("", "c15-")
	if err != nil {
		r.Inconclusive("cannot create scratch directory: %v", err)
		return
	}
	defer os.RemoveAll(dir)
	p := &parent{r: r, latent: map[string]*latentInfo{}, dir: dir}

	nGov := r.N(600, 22000)
	nGen := r.N(800, 40000)
	blocks := r.N(12, 14)
	workers := r.N(8, 12)
	r.MinNontrivial(r.N(1500, 60000))
	r.Set("bounds", map[string]int{"gov_histories": nGov, "genesis_cases": nGen, "blocks_per_history": blocks, "child_processes_in_parallel": workers})

	type job struct {
		fam      string
		n, off   int
		step     int
		only     string
		blocks   int
		thorough bool
	}
	var jobs []job
	if r.Replaying() {
		// the replay file names one history
		for _, fam := range []string{"gov", "gen"} {
			n := nGov
			if fam == "gen" {
				n = nGen
			}
			for i := 0; i < n; i++ {
				id := fmt.Sprintf("%s/%d", fam, i)
				if r.Want(id) {
					jobs = append(jobs, job{fam: fam, n: i + 1, off: 0, step: 1, only: id, blocks: blocks, thorough: r.Thorough()})
				}
			}
		}
	} else {
		for w := 0; w < workers; w++ {
			jobs = append(jobs, job{fam: "gov", n: nGov, off: w, step: workers, blocks: blocks, thorough: r.Thorough()})
		}
		for w := 0; w < workers; w++ {
			jobs = append(jobs, job{fam: "gen", n: nGen, off: w, step: workers, blocks: blocks, thorough: r.Thorough()})
		}
	}
	sem := make(chan struct{}, workers)
	var wg sync.WaitGroup
	for _, j := range jobs {
		wg.Add(1)
		sem <- struct{}{}
		go func(j job) {
			defer wg.Done()
			defer func() { <-sem }()
			from := 0
			for respawn := 0; from < j.n; respawn++ {
				if respawn > 200 {
					r.Inconclusive("child for %s/%d-of-%d died more than 200 times", j.fam, j.off, j.step)
					return
				}
				next := p.runChild(childSpec{Fam: j.fam, From: from, To: j.n, Step: j.step, Off: j.off, Only: j.only, Blocks: j.blocks, Thorough: j.thorough})
				if next < 0 {
					return
				}
				from = next
			}
		}(j)
	}
	wg.Wait()

	keys := make([]string, 0, len(p.latent))
	for k := range p.latent {
		keys = append(keys, k)
	}
	sort.Strings(keys)
	lat := map[string]*latentInfo{}
	for _, k := range keys {
		lat[k] = p.latent[k]
	}
	r.Set("latent_panics_behind_dry_run", lat)
	r.Set("child_processes", p.nchild)
}

// runChild executes one child and digests its log. It returns -1 when the
// child finished its range, otherwise the history index to resume from (the
// one after the history in which the child died).
func (p *parent) runChild(spec childSpec) int {
	p.mu.Lock()
	p.nchild++
	tag := fmt.Sprintf("%s-%d-%d-%d", spec.Fam, spec.Off, spec.From, p.nchild)
	p.mu.Unlock()
	spec.Log = filepath.Join(p.dir, tag+".log")
	errPath := filepath.Join(p.dir, tag+".stderr")
	sb, _ := json.Marshal(spec)

	limit := 40 * time.Minute
	ctx, cancel := context.WithTimeout(context.Background(), limit)
	defer cancel()
	cmd := exec.CommandContext(ctx, os.Args[0], append([]string{"-test.run", "^TestC15$", "-test.timeout", "0", "-test.count", "1"}, core.ChildCoverArgs()...)...)
	cmd.Env = append(os.Environ(), childEnv+"="+string(sb))
	ef, err := os.Create(errPath)
	if err != nil {
		p.r.Inconclusive("cannot create child stderr file: %v", err)
		return -1
	}
	cmd.Stdout = nil
	cmd.Stderr = ef
	runErr := cmd.Run()
	_ = ef.Close()
	timedOut := ctx.Err() != nil

	done, last := p.digest(spec.Log)
	defer os.Remove(spec.Log)
	defer os.Remove(errPath)
	if done && runErr == nil {
		return -1
	}
	if done {
		// everything was processed and logged; the process only failed to exit cleanly
		return -1
	}
	// the child died
	resume := spec.To
	if last != nil {
		var idx int
		if i := strings.LastIndexByte(last.C, '/'); i >= 0 {
			fmt.Sscanf(last.C[i+1:], "%d", &idx)
		}
		resume = idx + 1
	}
	if timedOut {
		p.r.Inconclusive("child %s exceeded its watchdog (%s); last logged case: %+v", tag, limit, last)
		return resume
	}
	stderr := ""
	if bz, err := os.ReadFile(errPath); err == nil {
		stderr = string(bz)
	}
	// a process that could not get a thread or memory from the operating system (the machine was out of process ids /
	// memory) did not die of the code under test: the same histories are run again, a few times at most
	for _, mark := range []string{"pthread_create failed", "failed to create new OS thread", "Resource temporarily unavailable", "resource temporarily unavailable", "cannot allocate memory", "out of memory", "newosproc"} {
		if strings.Contains(stderr, mark) {
			p.mu.Lock()
			p.envRetries++
			n := p.envRetries
			p.mu.Unlock()
			p.r.Count("children_killed_by_resource_exhaustion_of_the_machine", 1)
			if n > 6 {
				p.r.Inconclusive("child %s: the machine keeps running out of threads / memory (%q in stderr); last logged case: %+v", tag, mark, last)
				return resume
			}
			time.Sleep(5 * time.Second)
			if last == nil {
				return spec.From
			}
			return resume - 1
		}
	}
	if last == nil {
		p.r.Inconclusive("child %s died before logging a case: %v; stderr: %s", tag, runErr, tail(stderr, 600))
		return -1
	}
	c := fatalFromStderr(stderr)
	scope := "fatal/" + last.Kind
	if i := strings.IndexAny(scope[6:], ":/"); i >= 0 {
		scope = scope[:6+i]
	}
	p.r.Count("dead_children", 1)
	p.r.Eval("dead/"+last.C+"/"+last.S, true)
	p.r.Violation(last.C, sigKey(scope, c), map[string]interface{}{
		"what": "the child process died while executing the logged case (process-fatal error, not a recoverable panic)", "exit": fmt.Sprint(runErr),
		"last_logged_case": map[string]string{"history": last.C, "step": last.S, "kind": last.Kind, "desc": last.Desc},
		"fatal":            trunc(c.Msg, 300), "frames": repoFrames(c.Stack, 8), "stderr_tail": tail(stderr, 1500),
	})
	return resume
}

func tail(s string, n int) string {
	if len(s) > n {
		return "..." + s[len(s)-n:]
	}
	return s
}

// digest folds a child's log into the Run. Returns whether the child wrote
// its "done" line and the last case it logged before executing it.
func (p *parent) digest(path string) (done bool, last *rec) {
	f, err := os.Open(path)
	if err != nil {
		return false, nil
	}
	defer f.Close()
	sc := bufio.NewScanner(f)
	sc.Buffer(make([]byte, 1<<20), 1<<26)
	r := p.r
	for sc.Scan() {
		var x rec
		if err := json.Unmarshal(sc.Bytes(), &x); err != nil {
			continue // a torn last line of a dead child
		}
		switch x.T {
		case "case":
			c := x
			last = &c
		case "res":
			if x.EK != "" {
				r.Eval(x.EK, x.NT)
			}
			switch x.O {
			case "panic":
				r.Violation(x.C, x.Key, x.Detail)
			case "latent":
				// A content that passes stateless validation and makes its handler panic when the handler is invoked the
				// way gov.EndBlocker invokes it. On this chain the submission-time dry run refuses it, but that dry run is
				// cosmos-sdk behaviour the property does not lean on (its gate is the stateless validation; a proposal
				// imported through the gov genesis reaches EndBlock without any dry run). Judged as a violation when the
				// panic is raised under teleport's own code; panics raised entirely inside cosmos-sdk handlers (unknown
				// parameter keys of a ParameterChangeProposal) stay "latent" evidence.
				if teleportFrames(x.Detail) {
					r.Violation(x.C, strings.Replace(x.Key, "latent/", "handler/", 1), x.Detail)
					break
				}
				p.mu.Lock()
				li := p.latent[x.Key]
				if li == nil {
					li = &latentInfo{Example: x.Detail}
					p.latent[x.Key] = li
				}
				li.Count++
				p.mu.Unlock()
			}
		case "cnts":
			for k, v := range x.M {
				r.Count(k, v)
			}
		case "sample":
			r.Sample(x.V)
		case "inc":
			r.Inconclusive("%s", x.Desc)
		case "done":
			done = true
		}
	}
	return done, last
}
