package c15

import (
	"fmt"
	"math"
	"math/rand"
	"strings"

	"github.com/cosmos/cosmos-sdk/codec"
	codectypes "github.com/cosmos/cosmos-sdk/codec/types"
	sdk "github.com/cosmos/cosmos-sdk/types"
	"github.com/ethereum/go-ethereum/common"

	aggtypes "github.com/teleport-network/teleport/x/aggregate/types"
	rvestingtypes "github.com/teleport-network/teleport/x/rvesting/types"
	clienttypes "github.com/teleport-network/teleport/x/xibc/core/client/types"
	packettypes "github.com/teleport-network/teleport/x/xibc/core/packet/types"
	"github.com/teleport-network/teleport/x/xibc/exported"
	xibctypes "github.com/teleport-network/teleport/x/xibc/types"

	"verif/harness/core"
)

// genesisPlan is a generated genesis of the three modules (as JSON, the form a
// genesis file has) with a description of what was put in.
type genesisPlan struct {
	XIBC      []byte
	Aggregate []byte
	RVesting  []byte
	Desc      []string
}

func anyOf(v interface{}) *codectypes.Any {
	type pm interface {
		Reset()
		String() string
		ProtoMessage()
	}
	m, ok := v.(pm)
	if !ok {
		return nil
	}
	a, err := codectypes.NewAnyWithValue(m)
	if err != nil {
		return nil
	}
	return a
}

func genChainNameG(rng *rand.Rand) string {
	switch w := rng.Intn(100); {
	case w < 80:
		return chainPool[rng.Intn(len(chainPool))]
	case w < 98:
		return core.GenChainName(rng)
	}
	return pickStr(rng, "", "ab", "a/b", "bad name", strings.Repeat("x", 65))
}

func genXIBCGenesis(rng *rand.Rand, native string, relayerAddr string) (*xibctypes.GenesisState, []string) {
	var desc []string
	cg := clienttypes.GenesisState{NativeChainName: native}
	if rng.Intn(60) == 0 {
		cg.NativeChainName = pickStr(rng, "", "x", "a/b", strings.Repeat("n", 65))
		desc = append(desc, "native-name-odd")
	}
	type cl struct {
		name, ctype string
		latest      exported.Height
	}
	var cls []cl
	nc := rng.Intn(4)
	for i := 0; i < nc; i++ {
		name := genChainNameG(rng)
		ctype := clientTypes[rng.Intn(len(clientTypes))]
		cs, _, tw := genClient(rng, ctype, rng.Intn(100) < 50)
		a := anyOf(cs)
		if rng.Intn(60) == 0 {
			a = nil
			tw = append(tw, "nil-any")
		}
		cg.Clients = append(cg.Clients, clienttypes.IdentifiedClientState{ChainName: name, ClientState: a})
		cls = append(cls, cl{name, ctype, cs.GetLatestHeight()})
		desc = append(desc, fmt.Sprintf("client %s/%s%v", name, ctype, tw))
	}
	for _, c := range cls {
		if rng.Intn(100) < 55 {
			continue
		}
		if c.ctype == exported.ETH && rng.Intn(10) != 0 {
			// eth ConsensusState.ClientType() answers "bsc", so ValidateGenesis refuses every consensus
			// state listed for an eth client (see report, blind spots): mostly list none
			continue
		}
		var states []clienttypes.ConsensusStateWithHeight
		for j, n := 0, 1+rng.Intn(3); j < n; j++ {
			ct := c.ctype
			if rng.Intn(30) == 0 {
				ct = clientTypes[rng.Intn(len(clientTypes))]
			}

			cons := consOfType(rng, ct)
			hgt := clienttypes.NewHeight(pickU64(rng, 0, 0, 1, math.MaxUint64), pickU64(rng, 1, 5, uint64(rng.Intn(100000)), math.MaxUint64, 0x2f2f2f2f2f2f2f2f))
			if rng.Intn(50) == 0 {
				hgt = clienttypes.Height{}
			}
			if rng.Intn(3) == 0 {
				if lh, ok := c.latest.(clienttypes.Height); ok && !lh.IsZero() {
					hgt = lh
				}
			}
			states = append(states, clienttypes.ConsensusStateWithHeight{Height: hgt, ConsensusState: anyOf(cons)})
		}
		name := c.name
		if rng.Intn(50) == 0 {
			name = "chain-unlisted"
		}
		cg.ClientsConsensus = append(cg.ClientsConsensus, clienttypes.ClientConsensusStates{ChainName: name, ConsensusStates: states})
		desc = append(desc, fmt.Sprintf("cons %s n=%d", name, len(states)))
	}
	for _, c := range cls {
		if rng.Intn(100) < 70 {
			continue
		}
		var md []clienttypes.GenesisMetadata
		for j, n := 0, 1+rng.Intn(3); j < n; j++ {
			k := [][]byte{[]byte("clientState"), []byte("consensusStates/" + string(rbytes(rng, 16))), []byte("ethHeaderIndex/0x" + strings.Repeat("00", 32) + "5"), rbytes(rng, 1+rng.Intn(40)),
				[]byte("processedTime/" + string(rbytes(rng, 16))), {0}, []byte("signers/x")}[rng.Intn(7)]
			v := rbytes(rng, 1+rng.Intn(60))
			if rng.Intn(50) == 0 {
				k = nil
			}
			if rng.Intn(50) == 0 {
				v = nil
			}
			md = append(md, clienttypes.NewGenesisMetadata(k, v))
		}
		cg.ClientsMetadata = append(cg.ClientsMetadata, clienttypes.NewIdentifiedGenesisMetadata(c.name, md))
		desc = append(desc, fmt.Sprintf("metadata %s n=%d", c.name, len(md)))
	}
	for i, n := 0, rng.Intn(4); i < n && rng.Intn(2) == 0; i++ {
		r := clienttypes.IdentifiedRelayer{Address: relayerAddr, Chains: []string{genChainNameG(rng)}, Addresses: []string{"0x" + strings.Repeat("ab", 20)}}
		tw := "plain"
		switch rng.Intn(10) {
		case 0:
			r.Address = ""
			tw = "address-empty"
		case 1:
			r.Address = pickStr(rng, "x", " ", strings.Repeat("r", 5000), "relayers/x", "é")
			tw = "address-odd"
		case 2:
			r.Chains, r.Addresses = nil, nil
			tw = "no-chains"
		case 3:
			r.Chains = append(r.Chains, "another", "")
			tw = "lengths-differ"
		case 4:
			r.Address = sdk.AccAddress(rbytes(rng, 20)).String()
			tw = "other-address"
		}
		cg.Relayers = append(cg.Relayers, r)
		desc = append(desc, "relayer "+tw)
	}

	pg := packettypes.GenesisState{}
	ps := func(withData bool) packettypes.PacketState {
		p := packettypes.PacketState{SrcChain: genChainNameG(rng), DstChain: genChainNameG(rng), Sequence: pickU64(rng, 1, 2, uint64(1+rng.Intn(1000)), math.MaxUint64, uint64(rng.Intn(12)))}
		if withData || rng.Intn(2) == 0 {
			p.Data = rbytes(rng, 1+rng.Intn(64))
		}
		if rng.Intn(40) == 0 {
			p.Data = nil
		}
		return p
	}
	for i, n := 0, rng.Intn(3); i < n; i++ {
		pg.Acknowledgements = append(pg.Acknowledgements, ps(true))
	}
	for i, n := 0, rng.Intn(3); i < n; i++ {
		pg.Commitments = append(pg.Commitments, ps(true))
	}
	for i, n := 0, rng.Intn(3); i < n; i++ {
		pg.Receipts = append(pg.Receipts, ps(true))
	}
	for i, n := 0, rng.Intn(3); i < n; i++ {
		pg.SendSequences = append(pg.SendSequences, packettypes.PacketSequence{SrcChain: genChainNameG(rng), DstChain: genChainNameG(rng), Sequence: pickU64(rng, 1, math.MaxUint64, uint64(rng.Intn(15)), 7)})
	}
	if n := len(pg.Acknowledgements) + len(pg.Commitments) + len(pg.Receipts) + len(pg.SendSequences); n > 0 {
		desc = append(desc, fmt.Sprintf("packet-entries=%d", n))
	}
	return &xibctypes.GenesisState{ClientGenesis: cg, PacketGenesis: pg}, desc
}

func genAggregateGenesis(rng *rand.Rand) (*aggtypes.GenesisState, []string) {
	var desc []string
	g := &aggtypes.GenesisState{Params: aggtypes.NewParams(rng.Intn(5) != 0, rng.Intn(5) != 0)}
	for i, n := 0, rng.Intn(5); i < n; i++ {
		addr := common.BytesToAddress(rbytes(rng, 20))
		spell := addr.Hex()
		if rng.Intn(6) == 0 {
			spell = addrSpelling(rng, addr)
		}
		first := pickStr(rng, "acoin", "bcoin", "ccoin", "dcoin", longDenom128, "aggregate/"+addr.Hex())
		for _, q := range g.TokenPairs {
			if len(q.Denoms) > 0 && q.Denoms[0] == first && rng.Intn(8) != 0 {
				first = fmt.Sprintf("coin%d", i)
			}
		}
		p := aggtypes.TokenPair{ERC20Address: spell, Denoms: []string{first},
			Enabled: rng.Intn(2) == 0, ContractOwner: aggtypes.Owner(pickInt(rng, 0, 1, 2, 2, 1, 1, 2, 2, 1, 7))}
		tw := "plain"
		switch rng.Intn(24) {
		case 0:
			p.Denoms = nil
			tw = "no-denoms"
		case 1:
			p.Denoms = append(p.Denoms, p.Denoms[0], "zcoin")
			tw = "denoms-dup"
		case 2:
			p.Denoms = []string{pickStr(rng, "", "a", "1x", "a b")}
			tw = "denom-invalid"
		case 3:
			if len(g.TokenPairs) > 0 {
				p.Denoms = append([]string{"fresh" + fmt.Sprint(i)}, g.TokenPairs[0].Denoms...)
				tw = "shares-second-denom"
			}
		case 4:
			if len(g.TokenPairs) > 0 {
				p.ERC20Address = strings.ToLower(g.TokenPairs[0].ERC20Address)
				tw = "same-contract-other-case"
			}
		}
		g.TokenPairs = append(g.TokenPairs, p)
		desc = append(desc, "pair "+tw)
	}
	return g, desc
}

// genRVestingGenesis: the From account (a funded user holding every coin an
// InitReward may name) keeps the genesis consistent across modules.
func genRVestingGenesis(rng *rand.Rand, from string) (*rvestingtypes.GenesisState, []string) {
	var desc []string
	g := &rvestingtypes.GenesisState{Params: rvestingtypes.DefaultParams(), InitReward: sdk.Coins{}}
	g.Params.EnableVesting = rng.Intn(100) < 60
	shape := "default-reward"
	sw := rng.Intn(14)
	if g.Params.EnableVesting && sw < 8 && rng.Intn(4) != 0 {
		sw = 8 + rng.Intn(6) // an enabled schedule is validated by the gate: keep most of them well-formed
	}
	switch sw {
	case 0:
		g.Params.PerBlockReward = sdk.Coins{}
		shape = "reward-empty"
	case 1:
		g.Params.PerBlockReward = nil
		shape = "reward-nil"
	case 2:
		g.Params.PerBlockReward = sdk.Coins{sdk.NewInt64Coin("acoin", 5), sdk.NewInt64Coin("acoin", 7)}
		shape = "reward-dup"
	case 3:
		g.Params.PerBlockReward = sdk.Coins{sdk.NewInt64Coin("stake", 5), sdk.NewInt64Coin("acoin", 7)}
		shape = "reward-unsorted"
	case 4:
		g.Params.PerBlockReward = sdk.Coins{{Denom: oddDenoms[rng.Intn(len(oddDenoms))], Amount: sdk.NewInt(3)}}
		shape = "reward-odd-denom"
	case 5:
		g.Params.PerBlockReward = sdk.Coins{{Denom: "acoin", Amount: sdk.NewInt(-3)}}
		shape = "reward-negative"
	case 6:
		g.Params.PerBlockReward = sdk.Coins{{Denom: "acoin", Amount: sdk.ZeroInt()}, {Denom: "bcoin", Amount: sdk.NewInt(1)}}
		shape = "reward-zero-amount"
	case 7:
		g.Params.PerBlockReward = sdk.Coins{{Denom: "acoin"}}
		shape = "reward-nil-amount"
	case 8, 9:
		g.Params.PerBlockReward = sdk.NewCoins(sdk.NewInt64Coin("acoin", int64(1+rng.Intn(1000))), sdk.NewInt64Coin("stake", int64(1+rng.Intn(1000))))
		shape = "reward-two"
	}
	desc = append(desc, fmt.Sprintf("vesting=%v %s", g.Params.EnableVesting, shape))
	if rng.Intn(100) < 55 {
		g.From = from
		switch rng.Intn(16) {
		case 0:
			g.InitReward = sdk.Coins{}
			desc = append(desc, "from+no-init-reward")
		case 1:
			g.InitReward = nil
			desc = append(desc, "from+nil-init-reward")
		case 2:
			g.InitReward = sdk.Coins{sdk.NewInt64Coin("stake", 5), sdk.NewInt64Coin("acoin", 7)}
			desc = append(desc, "from+init-unsorted")
		case 3:
			g.InitReward = sdk.Coins{{Denom: "acoin", Amount: sdk.ZeroInt()}}
			desc = append(desc, "from+init-zero")
		default:
			g.InitReward = sdk.NewCoins(sdk.NewInt64Coin("acoin", int64(1+rng.Intn(100000))), sdk.NewInt64Coin("stake", int64(1+rng.Intn(100000))))
			if rng.Intn(3) == 0 {
				g.InitReward = g.InitReward.Add(sdk.NewInt64Coin("reward/x-1", 1000))
			}
			desc = append(desc, "from+init-reward")
		}
		if rng.Intn(20) == 0 {
			g.From = pickStr(rng, "x", "cosmos1", strings.ToUpper(from))
			desc = append(desc, "from-odd")
		}
	}
	return g, desc
}

// marshalJSONSafe marshals a genesis struct with the application codec; a
// value the codec cannot encode is not a genesis file.
func marshalJSONSafe(cdc codec.JSONCodec, m codec.ProtoMarshaler) (bz []byte, ok bool) {
	err, c := catchStack(func() error {
		var e error
		bz, e = cdc.MarshalJSON(m)
		return e
	})
	return bz, err == nil && c == nil
}

func genGenesisPlan(rng *rand.Rand, cdc codec.JSONCodec, native, from string) (*genesisPlan, bool) {
	pl := &genesisPlan{}
	which := rng.Intn(8) // bit set of modules that get a generated genesis; 0 -> all
	if which == 0 {
		which = 7
	}
	if which&1 != 0 {
		xg, d := genXIBCGenesis(rng, native, from)
		bz, ok := marshalJSONSafe(cdc, xg)
		if !ok {
			return nil, false
		}
		pl.XIBC = bz
		pl.Desc = append(pl.Desc, d...)
	}
	if which&2 != 0 {
		ag, d := genAggregateGenesis(rng)
		bz, ok := marshalJSONSafe(cdc, ag)
		if !ok {
			return nil, false
		}
		pl.Aggregate = bz
		pl.Desc = append(pl.Desc, d...)
	}
	if which&4 != 0 {
		rg, d := genRVestingGenesis(rng, from)
		bz, ok := marshalJSONSafe(cdc, rg)
		if !ok {
			return nil, false
		}
		pl.RVesting = bz
		pl.Desc = append(pl.Desc, d...)
	}
	return pl, true
}
