package c15

import (
	"errors"
	"fmt"
	"regexp"
	"runtime/debug"
	"strings"
)

// caught describes a panic of the code under test.
type caught struct {
	Msg   string // fmt.Sprint of the recovered value
	Root  string // when the value is an error: the message of the innermost wrapped error (its class)
	Stack string // debug.Stack() taken inside the deferred recover (contains the panicking frames)
}

// catchStack runs f; a panic is converted into *caught (with the stack of the
// panicking goroutine), an ordinary error is returned as err.
func catchStack(f func() error) (err error, c *caught) {
	defer func() {
		if rec := recover(); rec != nil {
			c = &caught{Msg: fmt.Sprint(rec), Stack: string(debug.Stack())}
			if e, ok := rec.(error); ok {
				root := e
				for i := 0; i < 20; i++ {
					u := errors.Unwrap(root)
					if u == nil {
						break
					}
					root = u
				}
				if root != e {
					c.Root = root.Error()
				}
			}
		}
	}()
	return f(), nil
}

const repoModule = "github.com/teleport-network/teleport/"

var digits = regexp.MustCompile(`[0-9]+`)
var nonAlnum = regexp.MustCompile(`[^a-zA-Z0-9]+`)
var hexAddr = regexp.MustCompile(`0x[0-9a-fA-F]{6,}`)

// msgClass normalises a panic message: the leading "runtime error: " is
// dropped, the message is cut at the first ": " (what follows is usually the
// offending value), numbers become N.
func msgClass(msg string) string {
	m := strings.TrimSpace(msg)
	m = strings.TrimPrefix(m, "runtime error: ")
	if i := strings.Index(m, ": "); i > 0 {
		m = m[:i]
	}
	if i := strings.IndexByte(m, '\n'); i > 0 {
		m = m[:i]
	}
	m = hexAddr.ReplaceAllString(m, "ADDR")
	m = digits.ReplaceAllString(m, "N")
	m = nonAlnum.ReplaceAllString(m, "-")
	m = strings.Trim(strings.ToLower(m), "-")
	if len(m) > 48 {
		m = m[:48]
	}
	if m == "" {
		m = "panic"
	}
	return m
}

// frames lists the function names of a Go stack dump, innermost first.
func frames(stack string) []string {
	var out []string
	for _, ln := range strings.Split(stack, "\n") {
		if ln == "" || ln[0] == '\t' || ln[0] == ' ' || strings.HasPrefix(ln, "goroutine ") || strings.HasPrefix(ln, "created by ") {
			continue
		}
		// "pkg/path.(*T).Func(args...)" or "pkg/path.Func(...)"
		if i := strings.LastIndexByte(ln, '('); i > 0 {
			ln = ln[:i]
		}
		out = append(out, ln)
	}
	return out
}

// shortFunc turns "github.com/teleport-network/teleport/x/xibc/clients/light-clients/eth/types.Header.ToEthHeader"
// into "eth/types.Header.ToEthHeader" (last path element of the package + function).
func shortFunc(fn string) string {
	fn = strings.TrimPrefix(fn, repoModule)
	slash := strings.LastIndexByte(fn, '/')
	pkgAndFn := fn
	dir := ""
	if slash >= 0 {
		pkgAndFn = fn[slash+1:]
		d := fn[:slash]
		if j := strings.LastIndexByte(d, '/'); j >= 0 {
			d = d[j+1:]
		}
		dir = d + "/"
	}
	pkgAndFn = strings.NewReplacer("(*", "", ")", "", "·", ".").Replace(pkgAndFn)
	// closures: "...BeginBlocker.func1" -> keep
	return dir + pkgAndFn
}

// topFrame returns the innermost frame inside the repository (the harness and
// the runtime excluded); when no repository frame is on the stack, the
// innermost frame that is neither runtime nor harness, prefixed with "dep:".
func topFrame(stack string) string {
	fs := frames(stack)
	for _, f := range fs {
		if strings.HasPrefix(f, repoModule) {
			return shortFunc(f)
		}
	}
	for _, f := range fs {
		if strings.HasPrefix(f, "runtime.") || strings.HasPrefix(f, "runtime/") || strings.HasPrefix(f, "panic") ||
			strings.HasPrefix(f, "verif/") || strings.HasPrefix(f, "testing.") || strings.HasPrefix(f, "math/big.") || strings.HasPrefix(f, "reflect.") {
			continue
		}
		return "dep:" + shortFunc(f)
	}
	return "unknown-frame"
}

// repoFrames returns the first n repository frames (for the violation detail).
func repoFrames(stack string, n int) []string {
	var out []string
	for _, f := range frames(stack) {
		if strings.HasPrefix(f, repoModule) {
			out = append(out, shortFunc(f))
			if len(out) == n {
				break
			}
		}
	}
	return out
}

// sigKey builds the signature of a panic: where it ran (scope, e.g.
// "proposal/toggle-client/eth"), the innermost repository function and the
// class of the message. The same root cause always gives the same key; a new
// panic site gives a new key.
func sigKey(scope string, c *caught) string {
	m := c.Msg
	if c.Root != "" {
		m = c.Root // panic(err) with a wrapped error: the registered root error names the class, the wrapping text carries values
	}
	return scope + "/" + topFrame(c.Stack) + "/" + msgClass(m)
}

// fatalFromStderr extracts (message, stack) from the stderr of a child that
// died of a Go fatal error or an unrecovered panic.
func fatalFromStderr(stderr string) *caught {
	idx := -1
	for _, mark := range []string{"fatal error: ", "panic: "} {
		if i := strings.Index(stderr, mark); i >= 0 && (idx < 0 || i < idx) {
			idx = i
		}
	}
	if idx < 0 {
		return &caught{Msg: "child died without a Go trace", Stack: ""}
	}
	rest := stderr[idx:]
	line := rest
	if i := strings.IndexByte(rest, '\n'); i > 0 {
		line = rest[:i]
	}
	line = strings.TrimPrefix(strings.TrimPrefix(line, "fatal error: "), "panic: ")
	return &caught{Msg: line, Stack: rest}
}
