package c15

import (
	"crypto/ecdsa"
	"math"
	"math/big"
	"math/rand"
	"strings"
	"time"

	ics23 "github.com/confio/ics23/go"
	sdk "github.com/cosmos/cosmos-sdk/types"
	"github.com/ethereum/go-ethereum/crypto"
	"github.com/ethereum/go-ethereum/rlp"

	bsctypes "github.com/teleport-network/teleport/x/xibc/clients/light-clients/bsc/types"
	ethtypes "github.com/teleport-network/teleport/x/xibc/clients/light-clients/eth/types"
	tmtypes "github.com/teleport-network/teleport/x/xibc/clients/light-clients/tendermint/types"
	tsstypes "github.com/teleport-network/teleport/x/xibc/clients/tss-client/types"
	clienttypes "github.com/teleport-network/teleport/x/xibc/core/client/types"
	commitmenttypes "github.com/teleport-network/teleport/x/xibc/core/commitment/types"
	"github.com/teleport-network/teleport/x/xibc/exported"
)

// client types in generator order
var clientTypes = []string{exported.Tendermint, exported.BSC, exported.ETH, exported.TSS}

// keccak256(rlp([])): uncle hash of a block without uncles
var emptyUncle = crypto.Keccak256([]byte{0xc0})

func rbytes(rng *rand.Rand, n int) []byte {
	b := make([]byte, n)
	rng.Read(b)
	return b
}

func pickInt(rng *rand.Rand, xs ...int) int                     { return xs[rng.Intn(len(xs))] }
func pickU64(rng *rand.Rand, xs ...uint64) uint64               { return xs[rng.Intn(len(xs))] }
func pickStr(rng *rand.Rand, xs ...string) string               { return xs[rng.Intn(len(xs))] }
func pickDur(rng *rand.Rand, xs ...time.Duration) time.Duration { return xs[rng.Intn(len(xs))] }

// nTwists decides how many degenerate twists a generated value gets.
func nTwists(rng *rand.Rand) int {
	switch w := rng.Intn(100); {
	case w < 30:
		return 0
	case w < 78:
		return 1
	case w < 93:
		return 2
	}
	return 3
}

func newKey(rng *rand.Rand) *ecdsa.PrivateKey {
	for {
		k, err := crypto.ToECDSA(rbytes(rng, 32))
		if err == nil {
			return k
		}
	}
}

// ---------------------------------------------------------------- tendermint

func genTM(rng *rand.Rand, degenerate bool) (*tmtypes.ClientState, *tmtypes.ConsensusState, []string) {
	cs := tmtypes.NewClientState(
		"tmchain-"+pickStr(rng, "1", "2", "77"), tmtypes.DefaultTrustLevel, 14*24*time.Hour, 21*24*time.Hour, 10*time.Second,
		clienttypes.NewHeight(uint64(rng.Intn(3)), uint64(1+rng.Intn(1000))), commitmenttypes.GetSDKSpecs(),
		commitmenttypes.MerklePrefix{KeyPrefix: []byte("xibc")}, 0,
	)
	cons := tmtypes.NewConsensusState(time.Unix(1641081600+int64(rng.Intn(100000)), 0).UTC(), rbytes(rng, 32), rbytes(rng, 32))
	var tw []string
	if !degenerate {
		return cs, cons, tw
	}
	for i, n := 0, nTwists(rng); i < n; i++ {
		switch rng.Intn(16) {
		case 0:
			cs.TrustLevel = []tmtypes.Fraction{{Numerator: 2, Denominator: 3}, {Numerator: 1, Denominator: 1}, {Numerator: math.MaxUint64, Denominator: math.MaxUint64},
				{Numerator: 1 << 62, Denominator: 1 << 63}, {Numerator: math.MaxUint64 / 3, Denominator: math.MaxUint64}}[rng.Intn(5)]
			tw = append(tw, "trustlevel-extreme")
		case 1:
			cs.TrustLevel = []tmtypes.Fraction{{}, {Numerator: 1, Denominator: 4}, {Numerator: 2, Denominator: 1}, {Numerator: 1, Denominator: 0}}[rng.Intn(4)]
			tw = append(tw, "trustlevel-invalid")
		case 2:
			cs.TrustingPeriod = pickDur(rng, -1, math.MinInt64, 1, 2, math.MaxInt64-1)
			tw = append(tw, "trusting-extreme")
		case 3:
			cs.UnbondingPeriod = pickDur(rng, math.MaxInt64, 2, -1, 14*24*time.Hour+1)
			tw = append(tw, "unbonding-extreme")
		case 4:
			cs.MaxClockDrift = pickDur(rng, -1, 1, math.MaxInt64, math.MinInt64)
			tw = append(tw, "drift-extreme")
		case 5:
			cs.LatestHeight = clienttypes.NewHeight(pickU64(rng, 0, 1, math.MaxUint64), pickU64(rng, 1, math.MaxUint64, 1<<63, 0x2f2f2f2f2f2f2f2f))
			tw = append(tw, "height-extreme")
		case 6:
			cs.LatestHeight.RevisionHeight = 0
			tw = append(tw, "height-zero")
		case 7:
			cs.ChainId = pickStr(rng, "   ", "", "é中 ", strings.Repeat("c", 5000), "x", "a/b/c-1", "chain-18446744073709551615")
			tw = append(tw, "chainid-odd")
		case 8:
			switch rng.Intn(4) {
			case 0:
				cs.ProofSpecs = []*ics23.ProofSpec{{}}
			case 1:
				cs.ProofSpecs = []*ics23.ProofSpec{commitmenttypes.GetSDKSpecs()[0]}
			case 2:
				var sp []*ics23.ProofSpec
				for j := 0; j < 20; j++ {
					sp = append(sp, commitmenttypes.GetSDKSpecs()[j%2])
				}
				cs.ProofSpecs = sp
			default:
				cs.ProofSpecs = []*ics23.ProofSpec{{LeafSpec: &ics23.LeafOp{}, InnerSpec: &ics23.InnerSpec{ChildOrder: []int32{-1, 7, 7}, ChildSize: -5, MinPrefixLength: 9, MaxPrefixLength: 1}, MaxDepth: -1, MinDepth: 99}}
			}
			tw = append(tw, "proofspecs-odd")
		case 9:
			cs.ProofSpecs = nil
			tw = append(tw, "proofspecs-empty")
		case 10:
			cs.MerklePrefix = commitmenttypes.MerklePrefix{KeyPrefix: [][]byte{nil, {0}, rbytes(rng, 3000)}[rng.Intn(3)]}
			tw = append(tw, "prefix-odd")
		case 11:
			cs.TimeDelay = pickU64(rng, 1, math.MaxUint64, 1<<63)
			tw = append(tw, "timedelay-extreme")
		case 12:
			cons.Timestamp = []time.Time{{}, time.Unix(0, 0).UTC(), time.Date(9999, 12, 31, 23, 59, 59, 999999999, time.UTC), time.Unix(-62135596800, 0).UTC()}[rng.Intn(4)]
			tw = append(tw, "cons-time-extreme")
		case 13:
			cons.Root = [][]byte{nil, {}, rbytes(rng, 1), rbytes(rng, 1500)}[rng.Intn(4)]
			tw = append(tw, "cons-root-odd")
		case 14:
			cons.NextValidatorsHash = [][]byte{nil, rbytes(rng, 5), rbytes(rng, 64)}[rng.Intn(3)]
			tw = append(tw, "cons-nextvals-odd")
		default:
			cs.TrustingPeriod, cs.UnbondingPeriod = cs.UnbondingPeriod, cs.TrustingPeriod
			tw = append(tw, "trusting>=unbonding")
		}
	}
	return cs, cons, tw
}

// ---------------------------------------------------------------- bsc

// bscSealHash is the hash the repository's BSC client recovers the sealer
// from: the raw (not width-normalised) header fields with the chain id in
// front and the extra data without its last 65 bytes. Written here only to
// construct inputs that get past the signature check; nothing is judged by it.
func bscSealHash(h *bsctypes.Header, chainID uint64) ([]byte, bool) {
	if len(h.Extra) < 65 || chainID > math.MaxInt64 {
		return nil, false
	}
	bz, err := rlp.EncodeToBytes([]interface{}{
		new(big.Int).SetUint64(chainID), h.ParentHash, h.UncleHash, h.Coinbase, h.Root, h.TxHash, h.ReceiptHash, h.Bloom, h.Difficulty,
		h.Height.RevisionHeight, h.GasLimit, h.GasUsed, h.Time, h.Extra[:len(h.Extra)-65], h.MixDigest, h.Nonce,
	})
	if err != nil {
		return nil, false
	}
	return crypto.Keccak256(bz), true
}

func bscSeal(h *bsctypes.Header, chainID uint64, key *ecdsa.PrivateKey) bool {
	sh, ok := bscSealHash(h, chainID)
	if !ok {
		return false
	}
	sig, err := crypto.Sign(sh, key)
	if err != nil {
		return false
	}
	copy(h.Extra[len(h.Extra)-65:], sig)
	return true
}

func bscExtra(rng *rand.Rand, nVals int, ragged int) []byte {
	ex := make([]byte, 0, 32+nVals*20+ragged+65)
	ex = append(ex, rbytes(rng, 32)...)
	ex = append(ex, rbytes(rng, nVals*20+ragged)...)
	ex = append(ex, make([]byte, 65)...)
	return ex
}

func genBSC(rng *rand.Rand, degenerate bool) (*bsctypes.ClientState, *bsctypes.ConsensusState, []string) {
	key := newKey(rng)
	epoch := pickU64(rng, 200, 200, 5, 10)
	number := epoch * uint64(1+rng.Intn(50))
	nVals := 1 + rng.Intn(7)
	h := bsctypes.Header{
		ParentHash: rbytes(rng, 32), UncleHash: append([]byte{}, emptyUncle...), Coinbase: crypto.PubkeyToAddress(key.PublicKey).Bytes(),
		Root: rbytes(rng, 32), TxHash: rbytes(rng, 32), ReceiptHash: rbytes(rng, 32), Bloom: make([]byte, 256), Difficulty: []byte{2},
		Height: clienttypes.NewHeight(0, number), GasLimit: 30_000_000, GasUsed: 1_000_000, Time: 1641081600 + number*3,
		Extra: bscExtra(rng, nVals, 0), MixDigest: make([]byte, 32), Nonce: make([]byte, 8),
	}
	var vals [][]byte
	for i := 0; i < nVals; i++ {
		vals = append(vals, h.Extra[32+i*20:32+(i+1)*20])
	}
	cs := &bsctypes.ClientState{Header: h, ChainId: 56, Epoch: epoch, BlockInteval: 3, Validators: vals, ContractAddress: rbytes(rng, 20), TrustingPeriod: 14 * 24 * 3600}
	cons := &bsctypes.ConsensusState{Timestamp: h.Time, Height: h.Height, Root: h.Root}
	var tw []string
	sign := true
	if degenerate {
		for i, n := 0, nTwists(rng); i < n; i++ {
			switch rng.Intn(34) {
			case 32, 33:
				// longer than the seal, shorter than vanity+seal
				cs.Header.Extra = rbytes(rng, 65+rng.Intn(32))
				tw = append(tw, "extra-below-vanity+seal")
			case 0, 1, 30, 31:
				cs.Epoch = 0
				tw = append(tw, "epoch-zero")
			case 2:
				cs.Epoch = pickU64(rng, 1, math.MaxUint64, 1<<63, 3)
				tw = append(tw, "epoch-extreme")
			case 3:
				cs.Header.Height.RevisionHeight = 0
				tw = append(tw, "height-zero")
			case 4:
				cs.Header.Height.RevisionHeight = 0
				cs.Header.Bloom = make([]byte, pickInt(rng, 257, 300, 4096))
				tw = append(tw, "height-zero+bloom-oversized")
			case 5:
				cs.Header.Height.RevisionHeight = 0
				cs.Header.Nonce = rbytes(rng, pickInt(rng, 9, 32))
				tw = append(tw, "height-zero+nonce-oversized")
			case 6:
				cs.Header.Bloom = make([]byte, pickInt(rng, 257, 300))
				tw = append(tw, "bloom-oversized")
			case 7:
				cs.Header.Bloom = rbytes(rng, pickInt(rng, 0, 1, 255))
				tw = append(tw, "bloom-undersized")
			case 8:
				cs.Header.Nonce = rbytes(rng, pickInt(rng, 0, 1, 7, 9))
				tw = append(tw, "nonce-odd")
			case 9:
				cs.Header.Extra = bscExtra(rng, 0, 0)
				tw = append(tw, "extra-no-validators")
			case 10:
				cs.Header.Extra = bscExtra(rng, rng.Intn(3), 1+rng.Intn(19))
				tw = append(tw, "extra-ragged")
			case 11:
				cs.Header.Extra = bscExtra(rng, 300, 0)
				tw = append(tw, "extra-300-validators")
			case 12:
				cs.Header.Extra = rbytes(rng, pickInt(rng, 0, 5, 31, 32, 64, 96))
				tw = append(tw, "extra-short")
			case 13:
				cs.ChainId = pickU64(rng, 0, 1<<63, math.MaxUint64, math.MaxInt64)
				tw = append(tw, "chainid-extreme")
			case 14:
				cs.Header.Coinbase = [][]byte{nil, rbytes(rng, 5), rbytes(rng, 32)}[rng.Intn(3)]
				tw = append(tw, "coinbase-odd")
			case 15:
				cs.Header.ParentHash = rbytes(rng, pickInt(rng, 0, 31, 33, 64))
				cs.Header.Root = rbytes(rng, pickInt(rng, 0, 31, 33))
				cs.Header.TxHash = rbytes(rng, pickInt(rng, 0, 33))
				cs.Header.ReceiptHash = rbytes(rng, pickInt(rng, 0, 33))
				tw = append(tw, "hash-lengths-odd")
			case 16:
				cs.Header.Difficulty = [][]byte{nil, {0, 0}, rbytes(rng, 40), {0, 2}, {1}}[rng.Intn(5)]
				tw = append(tw, "difficulty-odd")
			case 17:
				cs.Header.GasLimit, cs.Header.GasUsed = math.MaxUint64, pickU64(rng, 0, math.MaxUint64)
				tw = append(tw, "gas-extreme")
			case 18:
				cs.Header.Time = pickU64(rng, 0, math.MaxUint64)
				cons.Timestamp = pickU64(rng, 0, math.MaxUint64)
				tw = append(tw, "time-extreme")
			case 19:
				cs.Validators = [][][]byte{nil, {{}}, {rbytes(rng, 5), rbytes(rng, 33)}}[rng.Intn(3)]
				tw = append(tw, "validators-odd")
			case 20:
				cs.ContractAddress = [][]byte{nil, rbytes(rng, 5), rbytes(rng, 100)}[rng.Intn(3)]
				tw = append(tw, "contract-odd")
			case 21:
				cs.TrustingPeriod = pickU64(rng, 0, math.MaxUint64)
				cs.BlockInteval = pickU64(rng, 0, math.MaxUint64)
				tw = append(tw, "periods-extreme")
			case 22:
				cs.Header.Height.RevisionNumber = pickU64(rng, 1, math.MaxUint64)
				tw = append(tw, "revision-nonzero")
			case 23:
				cs.Header.Height.RevisionHeight = math.MaxUint64 - math.MaxUint64%epochOr1(cs.Epoch)
				tw = append(tw, "height-max")
			case 24:
				cs.Header.Height.RevisionHeight++
				tw = append(tw, "height-off-epoch")
			case 25:
				sign = false
				tw = append(tw, "unsigned")
			case 26:
				cs.Header.MixDigest = rbytes(rng, 32)
				tw = append(tw, "mixdigest-nonzero")
			case 27:
				cs.Header.UncleHash = [][]byte{nil, rbytes(rng, 32)}[rng.Intn(2)]
				tw = append(tw, "unclehash-odd")
			case 28:
				cons.Root = [][]byte{nil, rbytes(rng, 5), rbytes(rng, 100)}[rng.Intn(3)]
				cons.Height = clienttypes.NewHeight(pickU64(rng, 0, 7), pickU64(rng, 0, math.MaxUint64))
				tw = append(tw, "cons-odd")
			default:
				cs.Header.MixDigest = nil
				cs.Header.Nonce = nil
				cs.Header.Bloom = nil
				tw = append(tw, "optional-fields-empty")
			}
		}
	}
	if sign {
		if !bscSeal(&cs.Header, cs.ChainId, key) {
			tw = append(tw, "(unsealable)")
		}
	} else if len(cs.Header.Extra) >= 65 {
		copy(cs.Header.Extra[len(cs.Header.Extra)-65:], rbytes(rng, 65))
		if rng.Intn(2) == 0 {
			cs.Header.Extra[len(cs.Header.Extra)-1] = byte(4 + rng.Intn(200)) // impossible recovery id
		}
	}
	return cs, cons, tw
}

func epochOr1(e uint64) uint64 {
	if e == 0 {
		return 1
	}
	return e
}

// ---------------------------------------------------------------- eth

func genETH(rng *rand.Rand, degenerate bool) (*ethtypes.ClientState, *ethtypes.ConsensusState, []string) {
	number := uint64(1 + rng.Intn(15_000_000))
	h := ethtypes.Header{
		ParentHash: rbytes(rng, 32), UncleHash: append([]byte{}, emptyUncle...), Coinbase: rbytes(rng, 20), Root: rbytes(rng, 32), TxHash: rbytes(rng, 32),
		ReceiptHash: rbytes(rng, 32), Bloom: rbytes(rng, 256), Difficulty: big.NewInt(int64(1 + rng.Intn(1<<40))).Bytes(), Height: clienttypes.NewHeight(0, number),
		GasLimit: 30_000_000, GasUsed: uint64(rng.Intn(30_000_000)), Time: 1641081600 + number, Extra: rbytes(rng, rng.Intn(33)), MixDigest: rbytes(rng, 32),
		Nonce: rng.Uint64(), BaseFee: big.NewInt(int64(1 + rng.Intn(1<<40))).Bytes(),
	}
	cs := &ethtypes.ClientState{Header: h, ChainId: pickU64(rng, 1, 4, 5), ContractAddress: rbytes(rng, 20), TrustingPeriod: 14 * 24 * 3600, TimeDelay: 0, BlockDelay: 12}
	cons := &ethtypes.ConsensusState{Timestamp: h.Time, Height: h.Height, Root: h.Root}
	var tw []string
	if !degenerate {
		return cs, cons, tw
	}
	for i, n := 0, nTwists(rng); i < n; i++ {
		switch rng.Intn(20) {
		case 0:
			cs.Header.Height.RevisionHeight = 0
			tw = append(tw, "height-zero")
		case 1, 2:
			cs.Header.Height.RevisionHeight = 0
			cs.Header.Bloom = rbytes(rng, pickInt(rng, 257, 300, 5000))
			tw = append(tw, "height-zero+bloom-oversized")
		case 3:
			cs.Header.Bloom = rbytes(rng, pickInt(rng, 257, 300))
			tw = append(tw, "bloom-oversized")
		case 4:
			cs.Header.Bloom = rbytes(rng, pickInt(rng, 0, 5, 255))
			tw = append(tw, "bloom-undersized")
		case 5:
			cs.Header.Height.RevisionHeight = 0
			cs.Header.Difficulty = nil
			tw = append(tw, "height-zero+difficulty-empty")
		case 6:
			cs.Header.Difficulty = [][]byte{nil, {0, 0, 0}, rbytes(rng, 40), {0, 9}}[rng.Intn(4)]
			tw = append(tw, "difficulty-odd")
		case 7:
			cs.Header.GasLimit = pickU64(rng, 0x7fffffffffffffff, 0x8000000000000000, math.MaxUint64, 0)
			cs.Header.GasUsed = pickU64(rng, 0, cs.Header.GasLimit, math.MaxUint64)
			tw = append(tw, "gas-extreme")
		case 8:
			cs.Header.BaseFee = [][]byte{nil, rbytes(rng, 40), {0, 0, 1}, rbytes(rng, 300)}[rng.Intn(4)]
			tw = append(tw, "basefee-odd")
		case 9:
			cs.Header.Extra = rbytes(rng, pickInt(rng, 0, 1000, 20000))
			tw = append(tw, "extra-odd")
		case 10:
			cs.Header.ParentHash = rbytes(rng, pickInt(rng, 0, 31, 33, 64))
			cs.Header.UncleHash = rbytes(rng, pickInt(rng, 0, 31, 33))
			cs.Header.Root = rbytes(rng, pickInt(rng, 0, 33))
			cs.Header.TxHash = rbytes(rng, pickInt(rng, 0, 33))
			cs.Header.ReceiptHash = rbytes(rng, pickInt(rng, 0, 33))
			cs.Header.MixDigest = rbytes(rng, pickInt(rng, 0, 33, 100))
			tw = append(tw, "hash-lengths-odd")
		case 11:
			cs.Header.Coinbase = [][]byte{nil, rbytes(rng, 5), rbytes(rng, 32)}[rng.Intn(3)]
			tw = append(tw, "coinbase-odd")
		case 12:
			cs.Header.Nonce = pickU64(rng, 0, math.MaxUint64)
			cs.Header.Time = pickU64(rng, 0, math.MaxUint64)
			cons.Timestamp = pickU64(rng, 0, math.MaxUint64)
			tw = append(tw, "nonce-time-extreme")
		case 13:
			cs.ChainId = pickU64(rng, 0, math.MaxUint64, 1<<63)
			tw = append(tw, "chainid-extreme")
		case 14:
			cs.ContractAddress = [][]byte{nil, rbytes(rng, 5), rbytes(rng, 100)}[rng.Intn(3)]
			tw = append(tw, "contract-odd")
		case 15:
			cs.TrustingPeriod, cs.TimeDelay, cs.BlockDelay = pickU64(rng, 0, math.MaxUint64), pickU64(rng, 0, math.MaxUint64), pickU64(rng, 0, math.MaxUint64)
			tw = append(tw, "periods-extreme")
		case 16:
			cs.Header.Height = clienttypes.NewHeight(pickU64(rng, 0, 1, math.MaxUint64), pickU64(rng, math.MaxUint64, 1<<63, 0x2f2f2f2f2f2f2f2f))
			tw = append(tw, "height-extreme")
		case 17:
			cons.Root = [][]byte{nil, rbytes(rng, 5), rbytes(rng, 100)}[rng.Intn(3)]
			cons.Height = clienttypes.NewHeight(pickU64(rng, 0, 7), pickU64(rng, 0, math.MaxUint64))
			tw = append(tw, "cons-odd")
		case 18:
			cs.Header.Height.RevisionHeight = 0
			cs.Header = ethtypes.Header{Bloom: make([]byte, pickInt(rng, 0, 300))}
			tw = append(tw, "header-all-empty")
		default:
			cs.Header.Bloom, cs.Header.Extra, cs.Header.MixDigest, cs.Header.BaseFee = nil, nil, nil, nil
			tw = append(tw, "optional-fields-empty")
		}
	}
	return cs, cons, tw
}

// ---------------------------------------------------------------- tss

func genTSS(rng *rand.Rand, degenerate bool) (*tsstypes.ClientState, *tsstypes.ConsensusState, []string) {
	cs := &tsstypes.ClientState{TssAddress: sdk.AccAddress(rbytes(rng, 20)).String(), Pubkey: rbytes(rng, 33), PartPubkeys: [][]byte{rbytes(rng, 33), rbytes(rng, 33), rbytes(rng, 33)}, Threshold: 2}
	var tw []string
	if !degenerate {
		return cs, &tsstypes.ConsensusState{}, tw
	}
	for i, n := 0, nTwists(rng); i < n; i++ {
		switch rng.Intn(6) {
		case 0:
			cs.TssAddress = pickStr(rng, "", " ", "teleport1qqqqqqqqqqqqqqqqqqqqqqqqqqqqqqqq5p7d9l", strings.ToUpper(cs.TssAddress), cs.TssAddress+"x", "cosmos1", "0x0000000000000000000000000000000000000000")
			tw = append(tw, "address-odd")
		case 1:
			cs.TssAddress = sdk.AccAddress(rbytes(rng, pickInt(rng, 1, 32, 255))).String()
			tw = append(tw, "address-length-odd")
		case 2:
			cs.Pubkey = [][]byte{nil, rbytes(rng, 1), rbytes(rng, 5000)}[rng.Intn(3)]
			tw = append(tw, "pubkey-odd")
		case 3:
			cs.PartPubkeys = nil
			if rng.Intn(2) == 0 {
				for j := 0; j < 300; j++ {
					cs.PartPubkeys = append(cs.PartPubkeys, rbytes(rng, rng.Intn(40)))
				}
			}
			tw = append(tw, "parts-odd")
		case 4:
			cs.Threshold = pickU64(rng, 0, math.MaxUint64, 1<<63)
			tw = append(tw, "threshold-extreme")
		default:
			cs.Pubkey, cs.PartPubkeys, cs.Threshold = nil, nil, 0
			tw = append(tw, "only-address")
		}
	}
	return cs, &tsstypes.ConsensusState{}, tw
}

// genClient draws a client state of the given type with its own consensus state.
func genClient(rng *rand.Rand, ctype string, degenerate bool) (exported.ClientState, exported.ConsensusState, []string) {
	switch ctype {
	case exported.Tendermint:
		return genTM(rng, degenerate)
	case exported.BSC:
		return genBSC(rng, degenerate)
	case exported.ETH:
		return genETH(rng, degenerate)
	}
	return genTSS(rng, degenerate)
}
