package c14

import (
	"crypto/ecdsa"
	"crypto/sha256"
	"encoding/json"
	"fmt"
	"math/big"
	"math/rand"
	"os"
	"path/filepath"
	"sort"
	"strings"
	"time"

	"github.com/cosmos/cosmos-sdk/simapp"
	sdk "github.com/cosmos/cosmos-sdk/types"
	banktypes "github.com/cosmos/cosmos-sdk/x/bank/types"
	govtypes "github.com/cosmos/cosmos-sdk/x/gov/types"
	paramproposal "github.com/cosmos/cosmos-sdk/x/params/types/proposal"
	upgradetypes "github.com/cosmos/cosmos-sdk/x/upgrade/types"
	"github.com/ethereum/go-ethereum/common"
	gethtypes "github.com/ethereum/go-ethereum/core/types"
	"github.com/ethereum/go-ethereum/crypto"
	"github.com/ethereum/go-ethereum/rlp"

	transfertypes "github.com/cosmos/ibc-go/v3/modules/apps/transfer/types"
	"github.com/teleport-network/teleport/app"
	erc20contracts "github.com/teleport-network/teleport/syscontracts/erc20"
	govcontract "github.com/teleport-network/teleport/syscontracts/gov"
	stakingcontract "github.com/teleport-network/teleport/syscontracts/staking"

	aggregatetypes "github.com/teleport-network/teleport/x/aggregate/types"
	rvestingtypes "github.com/teleport-network/teleport/x/rvesting/types"
	bsctypes "github.com/teleport-network/teleport/x/xibc/clients/light-clients/bsc/types"
	ethtypes "github.com/teleport-network/teleport/x/xibc/clients/light-clients/eth/types"
	tmtypes "github.com/teleport-network/teleport/x/xibc/clients/light-clients/tendermint/types"
	tsstypes "github.com/teleport-network/teleport/x/xibc/clients/tss-client/types"
	clienttypes "github.com/teleport-network/teleport/x/xibc/core/client/types"
	commitmenttypes "github.com/teleport-network/teleport/x/xibc/core/commitment/types"
	packettypes "github.com/teleport-network/teleport/x/xibc/core/packet/types"
	xibctypes "github.com/teleport-network/teleport/x/xibc/types"

	"verif/harness/core"
	"verif/harness/pkt"
)

const votingPeriod = 30 * time.Second

// ibcVoucher is the denomination under which "uatom" arrives over transfer/channel-0.
var ibcVoucher = transfertypes.ParseDenomTrace(transfertypes.GetDenomPrefix("transfer", "channel-0") + "uatom").IBCDenom()

// Scenario records chain A (pure ABCI from genesis) while chain B plays the counterparty.
type Scenario struct {
	rng      *rand.Rand
	W        *core.World
	S        *pkt.Sim
	A, B     *core.Node
	Coverage map[string]int // what was exercised: message types, proposal types executed, hooks
	Failed   []string       // scenario steps that did not behave as scripted
	pow      bool
	nextProp uint64
	// FinalHash is the app hash after the last recorded block.
	FinalHash []byte
}

func (sc *Scenario) cover(k string) { sc.Coverage[k]++ }

func (sc *Scenario) fail(format string, a ...interface{}) {
	sc.Failed = append(sc.Failed, fmt.Sprintf(format, a...))
}

// tx signs and delivers msgs on A, expecting success.
func (sc *Scenario) tx(from *core.Account, what string, msgs ...sdk.Msg) core.TxResult {
	res := sc.W.DeliverMsgs(sc.A, from, msgs...)
	for _, m := range msgs {
		sc.cover("msg:" + sdk.MsgTypeURL(m))
	}
	if !res.OK() {
		sc.fail("%s: code=%d %s", what, res.Code, trunc(res.Log))
	}
	return res
}

// eth delivers an EVM transaction on A.
func (sc *Scenario) eth(from *core.Account, to *common.Address, value *big.Int, data []byte, what string, expectOK bool) *core.EthResult {
	tx, err := sc.A.EthTx(from, to, value, 4_000_000, data)
	if err != nil {
		sc.fail("%s: build: %v", what, err)
		return &core.EthResult{Code: 1 << 30}
	}
	res := core.DecodeEthResult(sc.A.Deliver(tx))
	sc.cover("msg:/ethermint.evm.v1.MsgEthereumTx")
	if res.OK() != expectOK {
		sc.fail("%s: ok=%v code=%d vmerr=%s %s", what, res.OK(), res.Code, res.VmError, trunc(res.Log))
	}
	return res
}

// ethAny delivers an EVM transaction whose outcome is not scripted (it only has to be the same everywhere).
func (sc *Scenario) ethAny(from *core.Account, to *common.Address, value *big.Int, data []byte) bool {
	tx, err := sc.A.EthTx(from, to, value, 4_000_000, data)
	if err != nil {
		return false
	}
	res := core.DecodeEthResult(sc.A.Deliver(tx))
	sc.cover("msg:/ethermint.evm.v1.MsgEthereumTx")
	return res.OK()
}

func trunc(s string) string {
	if len(s) > 200 {
		return s[:200]
	}
	return s
}

// gov submits a proposal, votes yes with the validator's delegator and lets the voting period pass.
func (sc *Scenario) gov(content govtypes.Content, what string, expectPass bool) {
	admin := sc.W.Admin
	msg, err := govtypes.NewMsgSubmitProposal(content, sdk.NewCoins(sdk.NewInt64Coin(core.BondDenom, 10_000_000)), admin.Acc)
	if err != nil {
		sc.fail("%s: %v", what, err)
		return
	}
	if res := sc.tx(admin, "submit "+what, msg); !res.OK() {
		return
	}
	sc.nextProp++
	id := sc.nextProp
	sc.tx(admin, "vote "+what, govtypes.NewMsgVote(admin.Acc, id, govtypes.OptionYes))
	sc.W.Roll(sc.A)
	sc.W.Advance(votingPeriod + time.Second)
	sc.W.Roll(sc.A) // the next block begins after the voting period ...
	sc.W.Roll(sc.A) // ... and its EndBlock executes the handler
	p, ok := sc.A.App.GovKeeper.GetProposal(sc.A.Ctx(), id)
	if !ok {
		sc.fail("%s: proposal %d vanished", what, id)
		return
	}
	sc.cover(fmt.Sprintf("proposal:%s:%s", content.ProposalType(), p.Status))
	if (p.Status == govtypes.StatusPassed) != expectPass {
		sc.fail("%s: proposal status %s", what, p.Status)
	}
}

// govAny is gov for proposals whose outcome is not scripted (refused at submission, failed or passed – all are fine,
// the point is that every node decides the same).
func (sc *Scenario) govAny(content govtypes.Content, what string) {
	admin := sc.W.Admin
	msg, err := govtypes.NewMsgSubmitProposal(content, sdk.NewCoins(sdk.NewInt64Coin(core.BondDenom, 10_000_000)), admin.Acc)
	if err != nil {
		return
	}
	res := sc.W.DeliverMsgs(sc.A, admin, msg)
	sc.cover("msg:" + sdk.MsgTypeURL(msg))
	if !res.OK() {
		sc.cover(fmt.Sprintf("proposal:%s:refused-at-submission", content.ProposalType()))
		return
	}
	sc.nextProp++
	id := sc.nextProp
	sc.tx(admin, "vote "+what, govtypes.NewMsgVote(admin.Acc, id, govtypes.OptionYes))
	sc.W.Roll(sc.A)
	sc.W.Advance(votingPeriod + time.Second)
	sc.W.Roll(sc.A)
	sc.W.Roll(sc.A)
	if p, ok := sc.A.App.GovKeeper.GetProposal(sc.A.Ctx(), id); ok {
		sc.cover(fmt.Sprintf("proposal:%s:%s", content.ProposalType(), p.Status))
	}
}

// noise inserts seeded unrelated traffic and block boundaries between the scripted steps.
func (sc *Scenario) noise() {
	w := sc.W
	for i := sc.rng.Intn(3); i > 0; i-- {
		from := w.Users[sc.rng.Intn(len(w.Users))]
		to := w.Users[sc.rng.Intn(len(w.Users))]
		amt := int64(1 + sc.rng.Intn(100000))
		sc.tx(from, "noise send", banktypes.NewMsgSend(from.Acc, to.Acc, sdk.NewCoins(sdk.NewInt64Coin(core.BondDenom, amt))))
	}
	if sc.rng.Intn(2) == 0 {
		w.Roll(sc.A)
	}
}

// BuildScenario constructs the two chains and runs the scripted history.
func BuildScenario(seed int64, pow bool) (*Scenario, error) {
	sc := &Scenario{rng: rand.New(rand.NewSource(seed)), Coverage: map[string]int{}, pow: pow}
	w := &core.World{ByName: map[string]*core.Node{}, Clock: time.Date(2022, 1, 2, 0, 0, 0, 0, time.UTC), Step: 5 * time.Second}
	w.Admin = core.NewAccount("admin")
	accts := []*core.Account{w.Admin}
	for i := 0; i < 3; i++ {
		u := core.NewAccount(fmt.Sprintf("user%d", i))
		w.Users = append(w.Users, u)
		accts = append(accts, u)
	}
	for i := 0; i < 2; i++ {
		r := core.NewAccount(fmt.Sprintf("relayer%d", i))
		w.Relayers = append(w.Relayers, r)
		accts = append(accts, r)
	}
	sc.W = w
	nameA, nameB := core.ChainNames[0], core.ChainNames[1]

	// ---- chain B (counterparty, set up through keepers; not recorded)
	b := core.NewNode(core.NodeConfig{ChainID: "teleport_9000-2", XIBCName: nameB, Accounts: accts, GenesisTime: w.Clock})
	w.Nodes = append(w.Nodes, b)
	w.ByName[nameB] = b
	w.Clock = w.Clock.Add(w.Step)
	b.Begin(w.Clock)
	setChainName(b, nameB)
	w.Roll(b)
	w.Roll(b)
	hB := b.Height()
	hdrB, err := b.SignedHeader(hB, clienttypes.NewHeight(b.Revision(), uint64(hB)))
	if err != nil {
		return nil, err
	}

	// ---- chain A: everything that is not a transaction comes from genesis
	relayerEntries := func(chains []string) []clienttypes.IdentifiedRelayer {
		var out []clienttypes.IdentifiedRelayer
		for _, r := range w.Relayers {
			addrs := make([]string, len(chains))
			for i := range chains {
				addrs[i] = r.Bech32()
				if chains[i] == nameB {
					// every relayer uses the same account on chain B (an operator running several relayers): the
					// acknowledgement fee then has more than one candidate recipient on this chain
					addrs[i] = w.Relayers[0].Bech32()
				}
			}
			out = append(out, clienttypes.IdentifiedRelayer{Address: r.Bech32(), Chains: chains, Addresses: addrs})
		}
		return out
	}
	mutate := func(tp *app.Teleport, gs simapp.GenesisState) {
		cdc := tp.AppCodec()
		hgt := clienttypes.NewHeight(b.Revision(), uint64(hB))
		cs := tmtypes.NewClientState(b.ChainID, tmtypes.DefaultTrustLevel, 14*24*time.Hour, 21*24*time.Hour, 10*time.Second, hgt,
			commitmenttypes.GetSDKSpecs(), commitmenttypes.MerklePrefix{KeyPrefix: []byte("xibc")}, 0)
		pt := make([]byte, 8)
		copy(pt, sdk.Uint64ToBigEndian(uint64(w.Clock.UnixNano())))
		xg := xibctypes.GenesisState{
			ClientGenesis: clienttypes.GenesisState{
				Clients: []clienttypes.IdentifiedClientState{clienttypes.NewIdentifiedClientState(nameB, cs)},
				ClientsConsensus: clienttypes.ClientsConsensusStates{clienttypes.NewClientConsensusStates(nameB,
					[]clienttypes.ConsensusStateWithHeight{clienttypes.NewConsensusStateWithHeight(hgt, hdrB.ConsensusState())})},
				ClientsMetadata: []clienttypes.IdentifiedGenesisMetadata{clienttypes.NewIdentifiedGenesisMetadata(nameB, []clienttypes.GenesisMetadata{
					clienttypes.NewGenesisMetadata(tmtypes.ProcessedTimeKey(hgt), pt),
					clienttypes.NewGenesisMetadata(tmtypes.IterationKey(hgt), hostConsKey(hgt)),
				})},
				NativeChainName: nameA,
				Relayers:        relayerEntries([]string{nameB}),
			},
			PacketGenesis: packettypes.DefaultGenesisState(),
		}
		gs["xibc"] = cdc.MustMarshalJSON(&xg)
		gg := govtypes.DefaultGenesisState()
		gg.VotingParams.VotingPeriod = votingPeriod
		gg.DepositParams.MinDeposit = sdk.NewCoins(sdk.NewInt64Coin(core.BondDenom, 1_000_000))
		gs[govtypes.ModuleName] = cdc.MustMarshalJSON(gg)
		rg := rvestingtypes.DefaultGenesisState()
		rg.From = w.Admin.Bech32()
		rg.InitReward = sdk.NewCoins(sdk.NewInt64Coin(core.BondDenom, 5_000))
		gs[rvestingtypes.ModuleName] = cdc.MustMarshalJSON(rg)
		// a second coin denomination held by users, with metadata, for RegisterCoin / ConvertCoin
		var bg banktypes.GenesisState
		cdc.MustUnmarshalJSON(gs[banktypes.ModuleName], &bg)
		for i := range bg.Balances {
			if bg.Balances[i].Address == w.Users[0].Bech32() {
				bg.Balances[i].Coins = bg.Balances[i].Coins.Add(sdk.NewInt64Coin("acoin", 1_000_000), sdk.NewInt64Coin("bcoin", 1_000_000), sdk.NewInt64Coin(ibcVoucher, 1_000_000))
				bg.Supply = bg.Supply.Add(sdk.NewInt64Coin("acoin", 1_000_000), sdk.NewInt64Coin("bcoin", 1_000_000), sdk.NewInt64Coin(ibcVoucher, 1_000_000))
			}
		}
		gs[banktypes.ModuleName] = cdc.MustMarshalJSON(&bg)
	}
	a := core.NewNode(core.NodeConfig{ChainID: "teleport_9000-1", XIBCName: nameA, Accounts: accts, GenesisTime: w.Clock, MutateGenesis: mutate})
	a.Tape = &core.Tape{}
	w.Nodes = append([]*core.Node{a}, w.Nodes...)
	w.ByName[nameA] = a
	sc.A, sc.B = a, b
	w.Clock = w.Clock.Add(w.Step)
	a.Begin(w.Clock)
	setChainName(a, nameA) // mirrored by Replay in the first block
	w.Roll(a)

	// B's side of the path (keeper level)
	if err := w.CreateTMClient(b, a, 14*24*time.Hour); err != nil {
		return nil, err
	}
	for _, r := range w.Relayers {
		b.App.XIBCKeeper.ClientKeeper.RegisterRelayers(b.Ctx(), r.Bech32(), []string{nameA}, []string{r.Bech32()})
	}
	w.Roll(b)

	s := &pkt.Sim{W: w, Rng: sc.rng, ByKey: map[string]*pkt.Pkt{}, Contracts: map[string]map[string]common.Address{}, Watch: []string{"xibc"}}
	sc.S = s
	u0, u1, u2 := w.Users[0], w.Users[1], w.Users[2]
	rel := w.Relayers[0]

	// ---- block: bank traffic
	sc.tx(u0, "bank send", banktypes.NewMsgSend(u0.Acc, u1.Acc, sdk.NewCoins(sdk.NewInt64Coin(core.BondDenom, 12345))))
	sc.tx(u1, "bank multi", banktypes.NewMsgSend(u1.Acc, u2.Acc, sdk.NewCoins(sdk.NewInt64Coin(core.BondDenom, 777))))
	w.Roll(a)

	// ---- contracts deployed by users through real transactions
	deploy := func(from *core.Account, code []byte, what string) common.Address {
		nonce := a.App.EvmKeeper.GetNonce(a.Ctx(), from.Eth)
		sc.eth(from, nil, nil, code, "deploy "+what, true)
		return crypto.CreateAddress(from.Eth, nonce)
	}
	erc20Init := func(name, sym string) []byte {
		ctor, _ := core.ERC20ABI.Pack("", name, sym, uint8(18))
		return append(append([]byte{}, erc20contracts.ERC20MinterBurnerDecimalsContract.Bin...), ctor...)
	}
	tokA := deploy(u0, erc20Init("tok-a", "TKA"), "tokA")
	wrapB := deploy(u1, erc20Init("wtok-b", "WTB"), "wrapped tokB")
	counter := deploy(u2, core.InitCode(core.Counter()), "counter")
	reverter := deploy(u2, core.InitCode(core.Reverter()), "reverter")
	s.Contracts[nameA] = map[string]common.Address{"counter": counter, "reverter": reverter}
	pack := func(method string, args ...interface{}) []byte {
		d, err := core.ERC20ABI.Pack(method, args...)
		if err != nil {
			panic(err)
		}
		return d
	}
	sc.eth(u0, &tokA, nil, pack("mint", u0.Eth, big.NewInt(1_000_000_000)), "mint tokA", true)
	maxU := new(big.Int).Sub(new(big.Int).Lsh(big.NewInt(1), 255), big.NewInt(1))
	sc.eth(u0, &tokA, nil, pack("approve", core.EndpointAddr, maxU), "approve tokA", true)
	burner := common.BytesToHash(crypto.Keccak256([]byte("BURNER_ROLE")))
	sc.eth(u1, &wrapB, nil, pack("grantRole", core.MinterRole, core.EndpointAddr), "grant minter", true)
	sc.eth(u1, &wrapB, nil, pack("grantRole", burner, core.EndpointAddr), "grant burner", true)
	sc.eth(u1, &wrapB, nil, pack("approve", core.EndpointAddr, maxU), "approve wrapB", true)
	w.Roll(a)

	// B: counterparts (keeper level)
	wrapA, err := b.DeployERC20("wtok-a", "WTA", 18)
	if err != nil {
		return nil, err
	}
	if err := b.App.AggregateKeeper.RegisterERC20Trace(b.Ctx(), wrapA, strings.ToLower(tokA.Hex()), nameA, 0); err != nil {
		return nil, err
	}
	tokB, err := b.DeployERC20("tok-b", "TKB", 18)
	if err != nil {
		return nil, err
	}
	for _, u := range w.Users {
		if err := b.MintERC20(tokB, u.Eth, big.NewInt(1_000_000)); err != nil {
			return nil, err
		}
		d, _ := core.ERC20ABI.Pack("approve", core.EndpointAddr, maxU)
		if err := b.CallAs(u.Eth, tokB, d); err != nil {
			return nil, err
		}
		if err := b.CallAs(u.Eth, wrapA, d); err != nil {
			return nil, err
		}
	}
	cb, err := b.DeployRuntime(w.Admin.Eth, core.Counter())
	if err != nil {
		return nil, err
	}
	rb, err := b.DeployRuntime(w.Admin.Eth, core.Reverter())
	if err != nil {
		return nil, err
	}
	s.Contracts[nameB] = map[string]common.Address{"counter": cb, "reverter": rb}
	w.Roll(b)
	tA := &core.Token{ID: "tokA", Origin: a, Addr: tokA, Wrapped: map[string]common.Address{nameB: wrapA}, Scale: map[string]uint8{nameB: 0}}
	tB := &core.Token{ID: "tokB", Origin: b, Addr: tokB, Wrapped: map[string]common.Address{nameA: wrapB}, Scale: map[string]uint8{nameA: 0}}
	s.Tokens = []*core.Token{tA, tB}

	// ---- governance: every XIBC client proposal type and every aggregate proposal type
	sc.gov(aggregatetypes.NewRegisterERC20TraceProposal("t", "d", wrapB.Hex(), strings.ToLower(tokB.Hex()), nameB, 0), "register trace", true)
	tssCS := &tsstypes.ClientState{TssAddress: w.Relayers[1].Bech32()}
	if p, err := clienttypes.NewCreateClientProposal("t", "d", "tss-chain", tssCS, &tsstypes.ConsensusState{}); err == nil {
		sc.gov(p, "create tss client", true)
	}
	bscCS, bscCons, bscSteps := buildBSC(sc.rng, 45)
	if p, err := clienttypes.NewCreateClientProposal("t", "d", "bsc-test", bscCS, bscCons); err == nil {
		sc.gov(p, "create bsc client", true)
	}
	chains := []string{nameB, "tss-chain", "bsc-test", "eth-main", "eth-rinkeby"}
	for _, r := range relayerEntries(chains) {
		sc.gov(clienttypes.NewRegisterRelayerProposal("t", "d", r.Address, r.Chains, r.Addresses), "register relayer", true)
	}
	// a registration as an operator may well write it: lines repeated, the same counterparty address once in mixed and once
	// in lower case, one chain listed with several addresses (whatever is stored for it, every node must store the same)
	{
		extra := core.NewAccount("c14-relayer-with-repeated-lines")
		mixed := extra.Eth.Hex()
		lower := strings.ToLower(mixed)
		var cs, as []string
		for _, c := range []string{"eth-main", "bsc-test", "eth-main", "eth-main", "bsc-test", "eth-rinkeby", "eth-main", "bsc-test", "eth-rinkeby", "eth-rinkeby"} {
			cs = append(cs, c)
		}
		as = []string{mixed, mixed, lower, mixed, lower, mixed, "0x00000000000000000000000000000000000000a1", "0x00000000000000000000000000000000000000A2", lower, "0x00000000000000000000000000000000000000a3"}
		sc.govAny(clienttypes.NewRegisterRelayerProposal("t", "d", extra.Bech32(), cs, as), "register relayer with repeated lines")
	}
	// Rinkeby-mode ETH client + one header
	rk0 := rinkebyGenesis()
	rkCS := &ethtypes.ClientState{Header: rk0, ChainId: 4, ContractAddress: make([]byte, 20), TrustingPeriod: 1 << 40, BlockDelay: 0}
	rkCons := &ethtypes.ConsensusState{Timestamp: rk0.Time, Height: rk0.Height, Root: rk0.Root}
	if p, err := clienttypes.NewCreateClientProposal("t", "d", "eth-rinkeby", rkCS, rkCons); err == nil {
		sc.gov(p, "create eth rinkeby client", true)
	}
	// upgrade (same type) and toggle (other type) of existing clients
	if p, err := clienttypes.NewUpgradeClientProposal("t", "d", "tss-chain", &tsstypes.ClientState{TssAddress: w.Relayers[0].Bech32()}, &tsstypes.ConsensusState{}); err == nil {
		sc.gov(p, "upgrade tss client", true)
	}
	{
		hgt := clienttypes.NewHeight(b.Revision(), uint64(b.Height()))
		w.Roll(b)
		if hdr, err := b.SignedHeader(int64(hgt.RevisionHeight), hgt); err == nil {
			tmCS := tmtypes.NewClientState(b.ChainID, tmtypes.DefaultTrustLevel, 14*24*time.Hour, 21*24*time.Hour, 10*time.Second, hgt,
				commitmenttypes.GetSDKSpecs(), commitmenttypes.MerklePrefix{KeyPrefix: []byte("xibc")}, 0)
			if p, err := clienttypes.NewToggleClientProposal("t", "d", "tss-chain", tmCS, hdr.ConsensusState()); err == nil {
				sc.govAny(p, "toggle tss->tendermint")
			}
		}
	}
	sc.noise()
	coinMeta := banktypes.Metadata{Description: "a coin", Base: "acoin", Display: "coin", Name: "acoin", Symbol: "ACN",
		DenomUnits: []*banktypes.DenomUnit{{Denom: "acoin", Exponent: 0}, {Denom: "coin", Exponent: 18}}}
	sc.gov(aggregatetypes.NewRegisterCoinProposal("t", "d", coinMeta), "register coin", true)
	// an ICS-20 voucher denomination registered as well (used by the receive-hook probe after the recording)
	ibcMeta := banktypes.Metadata{Description: "atom via channel-0", Base: ibcVoucher, Display: "ibcatomdisp", Name: "atom via channel-0", Symbol: "ibcATOM",
		DenomUnits: []*banktypes.DenomUnit{{Denom: ibcVoucher, Exponent: 0}, {Denom: "mibcatom", Exponent: 3}, {Denom: "ibcatomdisp", Exponent: 18}}}
	sc.gov(aggregatetypes.NewRegisterCoinProposal("t", "d", ibcMeta), "register ibc voucher coin", true)
	if pair, ok := findPair(a, "acoin"); ok {
		bMeta := banktypes.Metadata{Description: "b coin", Base: "bcoin", Display: "bcoin", Name: "bcoin", Symbol: "BCN",
			DenomUnits: []*banktypes.DenomUnit{{Denom: "bcoin", Exponent: 0}}}
		sc.govAny(aggregatetypes.NewAddCoinProposal("t", "d", bMeta, pair.ERC20Address), "add coin")
	}
	sc.gov(aggregatetypes.NewRegisterERC20Proposal("t", "d", tokA.Hex()), "register erc20", true)
	sc.noise()
	sc.gov(aggregatetypes.NewToggleTokenRelayProposal("t", "d", tokA.Hex()), "toggle relay off", true)
	sc.gov(aggregatetypes.NewToggleTokenRelayProposal("t", "d", tokA.Hex()), "toggle relay on", true)
	sc.gov(aggregatetypes.NewEnableTimeBasedSupplyLimitProposal("t", "d", wrapB.Hex(), "3600", "1000000", "500000", "1"), "enable limit", true)
	sc.gov(aggregatetypes.NewDisableTimeBasedSupplyLimitProposal("t", "d", wrapB.Hex()), "disable limit", true)
	reward := sdk.NewCoins(sdk.NewInt64Coin(core.BondDenom, 300))
	rewardJSON, _ := json.Marshal(reward)
	sc.gov(paramproposal.NewParameterChangeProposal("t", "d", []paramproposal.ParamChange{
		paramproposal.NewParamChange(rvestingtypes.ModuleName, string(rvestingtypes.KeyPerBlockReward), string(rewardJSON)),
		paramproposal.NewParamChange(rvestingtypes.ModuleName, string(rvestingtypes.KeyEnableVesting), "true"),
	}), "enable vesting", true)
	// a proposal whose handler fails is refused at submission (gov dry-runs the handler): the failing tx is part of the tape
	if p, err := clienttypes.NewCreateClientProposal("t", "d", "tss-chain", tssCS, &tsstypes.ConsensusState{}); err == nil {
		if msg, err := govtypes.NewMsgSubmitProposal(p, sdk.NewCoins(sdk.NewInt64Coin(core.BondDenom, 10_000_000)), w.Admin.Acc); err == nil {
			res := w.DeliverMsgs(a, w.Admin, msg)
			sc.cover(fmt.Sprintf("submit-existing-client-code-%d", res.Code))
		}
	}

	// ---- XIBC traffic in both directions with every outcome
	recv := pkt.LowerHex(u1.Eth)
	send := func(sp pkt.SendSpec, what string) *pkt.Pkt {
		o, ps := s.Send(sp)
		if sp.Src == a {
			sc.cover("msg:/ethermint.evm.v1.MsgEthereumTx")
			sc.cover("hook:xibc-packet-send")
		}
		if !o.OK() || len(ps) != 1 {
			sc.fail("%s: send failed: %s", what, o.Eth.VmError)
			return nil
		}
		return ps[0]
	}
	relay := func(p *pkt.Pkt, what string) {
		if p == nil {
			return
		}
		if o, err := s.HonestRecv(p, rel); err != nil || !o.OK() {
			sc.fail("%s: recv failed: %v", what, err)
			return
		}
		if p.DstN == a {
			sc.cover("msg:/xibc.core.packet.v1.MsgRecvPacket")
			sc.cover(fmt.Sprintf("recv-ack-code-%d", p.AckCode))
		}
		if o, err := s.HonestAck(p, rel); err != nil || !o.OK() {
			sc.fail("%s: ack failed: %v", what, err)
			return
		}
		if p.SrcN == a {
			sc.cover("msg:/xibc.core.packet.v1.MsgAcknowledgement")
		}
	}
	p1 := send(pkt.SendSpec{Src: a, Dst: b, User: u0, Token: tA, Amount: big.NewInt(5000 + int64(sc.rng.Intn(1000))), Receiver: recv, FeeToken: tA, FeeAmount: big.NewInt(int64(1 + sc.rng.Intn(20)))}, "A->B erc20")
	p2 := send(pkt.SendSpec{Src: a, Dst: b, User: u0, Token: tA, Amount: big.NewInt(70), Receiver: recv, Call: s.CallTo(b, "reverter"), FeeToken: tA, FeeAmount: big.NewInt(int64(1 + sc.rng.Intn(9)))}, "A->B failing call")
	relay(p1, "A->B erc20")
	sc.noise()
	relay(p2, "A->B failing call")
	p3 := send(pkt.SendSpec{Src: b, Dst: a, User: u1, Token: tB, Amount: big.NewInt(4000), Receiver: pkt.LowerHex(u1.Eth), Call: s.CallTo(a, "counter")}, "B->A erc20 + call")
	relay(p3, "B->A erc20 + call")
	sc.noise()
	p4 := send(pkt.SendSpec{Src: b, Dst: a, User: u1, Token: tB, Amount: big.NewInt(30), Receiver: pkt.LowerHex(u1.Eth), Call: s.CallTo(a, "reverter")}, "B->A failing call")
	relay(p4, "B->A failing call")
	// a packet whose destination call fails AS A WHOLE (a staking action the packet contract cannot pay for: the EVM part
	// succeeds, the post-processing hook fails): the error acknowledgement is built by the module, not by the contract
	if vals := a.App.StakingKeeper.GetAllValidators(a.Ctx()); len(vals) > 0 {
		if data, err := stakingcontract.StakingContract.ABI.Pack("delegate", vals[0].OperatorAddress, big.NewInt(1_000_000)); err == nil {
			if p := send(pkt.SendSpec{Src: b, Dst: a, User: u1, Call: pkt.CallSpec{Kind: "hard-failure", Contract: strings.ToLower(stakingcontract.StakingAddress.Hex()), Data: data}}, "B->A call that fails as a whole"); p != nil {
				// (delivered only: the error acknowledgement of a call-only packet cannot be processed on the source, see 8.4)
				if o, err := s.HonestRecv(p, rel); err != nil || !o.OK() {
					sc.fail("B->A call that fails as a whole: receive failed: %v", err)
				}
				w.Roll(a)
				sc.cover("recv-whose-callback-fails-as-a-whole")
			}
		}
	}
	p5 := send(pkt.SendSpec{Src: b, Dst: a, User: u1, Token: tA, Amount: big.NewInt(1000), Receiver: pkt.LowerHex(u2.Eth)}, "B->A back transfer")
	relay(p5, "B->A back")
	p6 := send(pkt.SendSpec{Src: a, Dst: b, User: u1, Token: tB, Amount: big.NewInt(500), Receiver: pkt.LowerHex(u0.Eth)}, "A->B back transfer (burn)")
	relay(p6, "A->B back")
	// a failing send (unknown destination) and a replayed receive (must fail)
	if o, _ := s.Send(pkt.SendSpec{Src: a, Dst: b, DstName: "no-such-chain", User: u0, Token: tA, Amount: big.NewInt(5), Receiver: recv}); o.OK() {
		sc.fail("send to unknown chain succeeded")
	}
	w.Roll(a)
	// one EVM transaction that sends twice: the first send is numbered and committed inside the hook, the second names an
	// unknown chain, so the whole transaction is dropped - together with everything the first send wrote. The next send on
	// the path gets the number the dropped one had (on every node, restarted or not)
	{
		d, fee := s.CrossChainData(pkt.SendSpec{Src: a, Dst: b, User: u2, Call: s.CallTo(b, "counter")})
		step := func(dst string) core.Step {
			dd := d
			dd.DstChain = dst
			data, err := core.EndpointABI.Pack("crossChainCall", dd, fee)
			if err != nil {
				panic(err)
			}
			return core.Step{Kind: core.KindCall, Target: core.EndpointAddr, Data: data, MustOK: true}
		}
		mc := deploy(u2, core.InitCode(core.Multicall([]core.Step{step(nameB), step("no-such-chain")})), "two sends in one transaction")
		if sc.ethAny(u2, &mc, nil, nil) {
			sc.fail("a transaction whose second send names an unknown chain succeeded")
		}
		sc.cover("tx-dropped-after-its-first-send-was-numbered")
		w.Roll(a)
		if p := send(pkt.SendSpec{Src: a, Dst: b, User: u0, Call: s.CallTo(b, "counter")}, "A->B after a dropped double send"); p != nil {
			relay(p, "A->B after a dropped double send")
		}
	}

	// ---- conversions (aggregate msgs)
	sc.tx(u0, "convert coin", aggregatetypes.NewMsgConvertCoin(sdk.NewInt64Coin("acoin", 4000), u0.Eth, u0.Acc))
	if pair, ok := findPair(a, "acoin"); ok {
		sc.tx(u0, "convert erc20 back", aggregatetypes.NewMsgConvertERC20(sdk.NewInt(1500), u0.Acc, common.HexToAddress(pair.ERC20Address), u0.Eth, "acoin"))
	} else {
		sc.fail("acoin pair not found")
	}
	if pair, ok := findPairByAddr(a, tokA); ok && len(pair.Denoms) > 0 {
		sc.tx(u0, "convert external erc20", aggregatetypes.NewMsgConvertERC20(sdk.NewInt(2500), u0.Acc, tokA, u0.Eth, pair.Denoms[0]))
	} else {
		sc.fail("tokA pair not found")
	}
	w.Roll(a)

	// update of the pair's contract to a fresh, identical ERC-20 (whatever governance decides is part of the tape)
	tokA2 := deploy(u0, erc20Init("tok-a", "TKA"), "tokA2")
	sc.govAny(aggregatetypes.NewUpdateTokenPairERC20Proposal("t", "d", tokA.Hex(), tokA2.Hex()), "update pair erc20")

	// ---- light-client updates of the other client types
	for i, st := range bscSteps {
		res := w.DeliverMsgs(a, rel, mustUpdate("bsc-test", st.hdr, rel))
		sc.cover("msg:/xibc.core.client.v1.MsgUpdateClient")
		if st.honest {
			sc.cover(fmt.Sprintf("bsc-honest-update-code-%d", res.Code))
		} else {
			sc.cover(fmt.Sprintf("bsc-recently-signed-candidate-code-%d", res.Code))
		}
		if i%7 == 6 {
			w.Roll(a)
		}
	}
	rk1 := rinkebyChild(rk0, 0x11, 13)
	sc.tx(rel, "eth rinkeby update", mustUpdate("eth-rinkeby", &rk1, rel))
	// TSS update from the TSS account (known to fail at this commit; failure is deterministic too)
	tssMsg, _ := clienttypes.NewMsgUpdateClient("tss-chain", &tsstypes.Header{TssAddress: w.Relayers[0].Bech32()}, w.Relayers[0].Acc)
	res := w.DeliverMsgs(a, w.Relayers[0], tssMsg)
	sc.cover(fmt.Sprintf("tss-update-code-%d", res.Code))
	w.Roll(a)
	if pow {
		if err := sc.powUpdate(rel); err != nil {
			sc.fail("pow: %v", err)
		}
	}

	// ---- system contracts: staking and governance through the EVM
	vals := a.App.StakingKeeper.GetAllValidators(a.Ctx())
	st := stakingcontract.StakingAddress
	sabi := stakingcontract.StakingContract.ABI
	d, _ := sabi.Pack("delegate", vals[0].OperatorAddress, big.NewInt(1_000_000))
	sc.eth(u2, &st, nil, d, "staking.delegate", true)
	sc.cover("hook:staking")
	w.Roll(a)
	d, _ = sabi.Pack("withdraw", vals[0].OperatorAddress)
	sc.eth(u2, &st, nil, d, "staking.withdraw", true)
	d, _ = sabi.Pack("undelegate", vals[0].OperatorAddress, big.NewInt(400_000))
	sc.eth(u2, &st, nil, d, "staking.undelegate", true)
	d, _ = sabi.Pack("delegate", "not-a-validator", big.NewInt(1))
	sc.eth(u2, &st, nil, d, "staking.delegate bad validator", false)
	// one transaction, several staking events of different kinds in one receipt (a forwarding contract delegates and then
	// undelegates part of it): the order in which the hook executes them decides whether the transaction succeeds
	{
		mkStep := func(method string, args ...interface{}) core.Step {
			d, _ := sabi.Pack(method, args...)
			return core.Step{Kind: core.KindCall, Target: st, Data: d, MustOK: true}
		}
		fwd := deploy(u2, core.InitCode(core.Multicall([]core.Step{
			mkStep("delegate", vals[0].OperatorAddress, big.NewInt(100_000)),
			mkStep("undelegate", vals[0].OperatorAddress, big.NewInt(40_000)),
			mkStep("delegate", vals[0].OperatorAddress, big.NewInt(7)),
			mkStep("withdraw", vals[0].OperatorAddress),
		})), "staking forwarder")
		sc.tx(u2, "fund staking forwarder", banktypes.NewMsgSend(u2.Acc, sdk.AccAddress(fwd.Bytes()), sdk.NewCoins(sdk.NewInt64Coin(core.BondDenom, 1_000_000))))
		sc.eth(u2, &fwd, nil, []byte{}, "staking forwarder: delegate+undelegate+delegate+withdraw in one tx", true)
		sc.cover("hook:staking-several-events-in-one-receipt")
		w.Roll(a)
	}
	// a text proposal to vote on through the Gov contract
	if msg, err := govtypes.NewMsgSubmitProposal(govtypes.NewTextProposal("text", "text"), sdk.NewCoins(sdk.NewInt64Coin(core.BondDenom, 10_000_000)), w.Admin.Acc); err == nil {
		sc.tx(w.Admin, "submit text", msg)
		sc.nextProp++
		ga := govcontract.GovAddress
		d, err := govcontract.GovContract.ABI.Pack("vote", sc.nextProp, uint32(govtypes.OptionYes))
		if err == nil {
			sc.eth(u2, &ga, nil, d, "gov.vote", true)
			sc.cover("hook:gov")
		} else {
			sc.fail("gov.vote pack: %v", err)
		}
		// weighted votes through the contract: an ordinary one, and one that lists an option twice (refused today;
		// whatever the handler does with it, every node must do the same)
		type optionWeight struct {
			Option uint32
			Weight uint64
		}
		for i, opts := range [][]optionWeight{
			{{uint32(govtypes.OptionYes), 60}, {uint32(govtypes.OptionNo), 40}},
			{{uint32(govtypes.OptionYes), 30}, {uint32(govtypes.OptionNo), 40}, {uint32(govtypes.OptionYes), 30}},
			{{uint32(govtypes.OptionAbstain), 10}, {uint32(govtypes.OptionNoWithVeto), 20}, {uint32(govtypes.OptionAbstain), 30}, {uint32(govtypes.OptionNo), 15}, {uint32(govtypes.OptionNoWithVeto), 25}},
		} {
			d, err := govcontract.GovContract.ABI.Pack("vote0", sc.nextProp, opts)
			if err != nil {
				sc.fail("gov.voteWeighted pack: %v", err)
				break
			}
			res := sc.ethAny(u1, &ga, nil, d)
			sc.cover(fmt.Sprintf("hook:gov-weighted-%d-ok=%v", i, res))
		}
	}
	w.Roll(a)
	// unbonding completion + vesting blocks
	w.Advance(22 * 24 * time.Hour)
	for i := 0; i < 3; i++ {
		w.Roll(a)
	}
	sc.cover("blocks-with-vesting-enabled")
	// the software upgrade the binary carries a handler for: governance schedules plan "v0.2", the upgrade module's
	// BeginBlocker runs the handler at the plan height (system contract code re-set, XIBC state reset, module migrations).
	// It comes last because it wipes what the rest of the scenario works with.
	// (a binary that already carries the handler refuses to run while the plan is pending, so the plan must fire in the very
	// block after the one whose EndBlock passes the proposal: submission block + 3 with sc.gov's block pattern)
	planH := a.Header.Height + 3
	sc.gov(upgradetypes.NewSoftwareUpgradeProposal("t", "d", upgradetypes.Plan{Name: "v0.2", Height: planH}), "software upgrade v0.2", true)
	for i := 0; i < 16 && a.Height() <= planH; i++ {
		w.Roll(a)
	}
	if done := a.App.UpgradeKeeper.GetDoneHeight(a.Ctx(), "v0.2"); done == planH {
		sc.cover("software-upgrade-v0.2-handler-executed-in-begin-block")
	} else {
		sc.fail("software upgrade v0.2 was not executed (done height %d, plan height %d, height %d)", done, planH, a.Height())
	}
	w.Roll(a)
	_, sc.FinalHash = a.End() // the tape now consists of complete blocks only
	return sc, nil
}

func findPair(n *core.Node, denom string) (aggregatetypes.TokenPair, bool) {
	id := n.App.AggregateKeeper.GetDenomMap(n.Ctx(), denom)
	return n.App.AggregateKeeper.GetTokenPair(n.Ctx(), id)
}

func findPairByAddr(n *core.Node, addr common.Address) (aggregatetypes.TokenPair, bool) {
	id := n.App.AggregateKeeper.GetERC20Map(n.Ctx(), addr)
	return n.App.AggregateKeeper.GetTokenPair(n.Ctx(), id)
}

func hostConsKey(h clienttypes.Height) []byte {
	k := []byte("consensusStates/")
	k = append(k, sdk.Uint64ToBigEndian(h.RevisionNumber)...)
	return append(k, sdk.Uint64ToBigEndian(h.RevisionHeight)...)
}

type hdr interface {
	ClientType() string
}

func mustUpdate(chain string, h interface{}, signer *core.Account) sdk.Msg {
	var msg *clienttypes.MsgUpdateClient
	var err error
	switch v := h.(type) {
	case *bsctypes.Header:
		msg, err = clienttypes.NewMsgUpdateClient(chain, v, signer.Acc)
	case *ethtypes.Header:
		msg, err = clienttypes.NewMsgUpdateClient(chain, v, signer.Acc)
	}
	if err != nil {
		panic(err)
	}
	return msg
}

// ------------------------------------------------------------------- BSC

const sealLen = 65

func bscFields(h *bsctypes.Header, extra []byte) []interface{} {
	var bloom [256]byte
	copy(bloom[256-len(h.Bloom):], h.Bloom)
	var nonce [8]byte
	copy(nonce[8-len(h.Nonce):], h.Nonce)
	return []interface{}{
		common.BytesToHash(h.ParentHash), common.BytesToHash(h.UncleHash), common.BytesToAddress(h.Coinbase), common.BytesToHash(h.Root),
		common.BytesToHash(h.TxHash), common.BytesToHash(h.ReceiptHash), bloom, new(big.Int).SetBytes(h.Difficulty),
		new(big.Int).SetUint64(h.Height.RevisionHeight), h.GasLimit, h.GasUsed, h.Time, extra, common.BytesToHash(h.MixDigest), nonce,
	}
}

func bscHash(h *bsctypes.Header) common.Hash {
	bz, _ := rlp.EncodeToBytes(bscFields(h, h.Extra))
	return crypto.Keccak256Hash(bz)
}

func bscSeal(h *bsctypes.Header, chainID uint64, key *ecdsa.PrivateKey) {
	fields := append([]interface{}{new(big.Int).SetUint64(chainID)}, bscFields(h, h.Extra[:len(h.Extra)-sealLen])...)
	bz, _ := rlp.EncodeToBytes(fields)
	sig, err := crypto.Sign(crypto.Keccak256(bz), key)
	if err != nil {
		panic(err)
	}
	copy(h.Extra[len(h.Extra)-sealLen:], sig)
}

// bscStep is one MsgUpdateClient of the BSC segment: an honest next header or a header sealed by a validator
// that sealed one of the recent blocks (must be refused - deterministically).
type bscStep struct {
	hdr    *bsctypes.Header
	honest bool
}

// buildBSC returns a Parlia anchor (an epoch block, 3 validators) and a header chain that crosses several epoch
// switches with growing and shrinking validator sets; before every honest header come the headers of all
// validators that are ineligible because they sealed recently.
func buildBSC(rng *rand.Rand, heights int) (*bsctypes.ClientState, *bsctypes.ConsensusState, []bscStep) {
	return buildBSCAt(rng, heights, 1650000000)
}

// buildBSCAt is buildBSC with the anchor's timestamp given.
func buildBSCAt(rng *rand.Rand, heights int, t uint64) (*bsctypes.ClientState, *bsctypes.ConsensusState, []bscStep) {
	type val struct {
		key  *ecdsa.PrivateKey
		addr common.Address
	}
	var pool []val
	for i := 0; i < 12; i++ {
		seed := sha256.Sum256([]byte(fmt.Sprintf("c14-bsc-val-%d", i)))
		k, err := crypto.ToECDSA(seed[:])
		if err != nil {
			panic(err)
		}
		pool = append(pool, val{k, crypto.PubkeyToAddress(k.PublicKey)})
	}
	byAddr := map[common.Address]val{}
	for _, v := range pool {
		byAddr[v.addr] = v
	}
	pick := func(n int) []common.Address {
		perm := rng.Perm(len(pool))[:n]
		var out []common.Address
		for _, i := range perm {
			out = append(out, pool[i].addr)
		}
		sort.Slice(out, func(i, j int) bool { return bytesLess(out[i], out[j]) })
		return out
	}
	const chainID, epoch = 56, 10
	anchor := uint64(epoch * (2 + rng.Intn(50)))
	sizes := []int{3, 7, 4, 9, 5}
	cur := pick(sizes[0])
	si := 1
	pend := pick(sizes[si])
	listBytes := func(l []common.Address) []byte {
		var out []byte
		for _, a := range l {
			out = append(out, a.Bytes()...)
		}
		return out
	}
	inturn := func(set []common.Address, n uint64) common.Address { return set[n%uint64(len(set))] }
	mk := func(number uint64, parent []byte, list []common.Address, t uint64, signer common.Address, set []common.Address) *bsctypes.Header {
		extra := make([]byte, 32)
		if list != nil {
			extra = append(extra, listBytes(list)...)
		}
		extra = append(extra, make([]byte, sealLen)...)
		diff := byte(1)
		if inturn(set, number) == signer {
			diff = 2
		}
		h := &bsctypes.Header{
			ParentHash: parent, UncleHash: gethtypes.EmptyUncleHash.Bytes(), Coinbase: signer.Bytes(), Root: hash32(fmt.Sprintf("root-%d-%x", number, signer[:4])),
			TxHash: hash32("tx"), ReceiptHash: hash32("rc"), Bloom: make([]byte, 256), Difficulty: []byte{diff}, Height: clienttypes.NewHeight(0, number),
			GasLimit: 30000000, GasUsed: 1000000, Time: t, Extra: extra, MixDigest: make([]byte, 32), Nonce: make([]byte, 8),
		}
		bscSeal(h, chainID, byAddr[signer].key)
		return h
	}
	recents := map[uint64]common.Address{}
	a0 := inturn(cur, anchor)
	h0 := mk(anchor, hash32("parent"), pend, t, a0, cur)
	recents[anchor] = a0
	head := h0
	var addrs [][]byte
	for _, a := range cur {
		addrs = append(addrs, a.Bytes())
	}
	cs := &bsctypes.ClientState{Header: *h0, ChainId: chainID, Epoch: epoch, BlockInteval: 3, Validators: addrs, ContractAddress: make([]byte, 20), TrustingPeriod: 1 << 40}
	cons := &bsctypes.ConsensusState{Timestamp: h0.Time, Height: h0.Height, Root: h0.Root}
	var steps []bscStep
	dupAnnounced := false
	for i := 1; i <= heights; i++ {
		n := anchor + uint64(i)
		t += 3
		limit := uint64(len(cur)/2 + 1)
		recent := func(a common.Address) bool {
			for seen, s := range recents {
				if s == a && (n < limit || seen > n-limit) {
					return true
				}
			}
			return false
		}
		ph := bscHash(head)
		var list []common.Address
		if n%epoch == 0 {
			si = (si + 1) % len(sizes)
			list = pick(sizes[si])
			if anchor+uint64(heights)-n < epoch {
				// the last announced list names one validator twice (the client takes such a list as it comes); the chain
				// below ends with the header that switches to it, so nothing here depends on what a duplicate means
				list = pick(9)
				list = append(list, list[rng.Intn(len(list))])
				sort.Slice(list, func(i, j int) bool { return bytesLess(list[i], list[j]) })
				dupAnnounced = true
			}
		}
		// ineligible sealers first
		for _, a := range cur {
			if recent(a) {
				steps = append(steps, bscStep{mk(n, ph[:], list, t, a, cur), false})
			}
		}
		// the honest sealer: in turn if eligible, else the first eligible validator
		signer := inturn(cur, n)
		if recent(signer) {
			found := false
			for _, a := range cur {
				if !recent(a) {
					signer, found = a, true
					break
				}
			}
			if !found {
				break
			}
		}
		h := mk(n, ph[:], list, t, signer, cur)
		steps = append(steps, bscStep{h, true})
		// advance the model the way upstream Parlia does
		if n >= limit {
			delete(recents, n-limit)
		}
		recents[n] = signer
		if list != nil {
			pend = list
		}
		if dupAnnounced && n%epoch == uint64(len(cur)/2) {
			// this header made the client adopt the list with the duplicate: stop here
			break
		}
		if n%epoch == uint64(len(cur)/2) {
			newLimit := uint64(len(pend)/2 + 1)
			if newLimit < limit {
				for k := uint64(0); k < limit-newLimit; k++ {
					if n >= newLimit+k {
						delete(recents, n-newLimit-k)
					}
				}
			}
			cur = pend
		}
		head = h
	}
	return cs, cons, steps
}

func bytesLess(a, b common.Address) bool {
	for i := range a {
		if a[i] != b[i] {
			return a[i] < b[i]
		}
	}
	return false
}

func hash32(s string) []byte { h := sha256.Sum256([]byte(s)); return h[:] }

// ------------------------------------------------------------------- ETH

func rinkebyGenesis() ethtypes.Header {
	return ethtypes.Header{ParentHash: make([]byte, 32), UncleHash: make([]byte, 32), Coinbase: make([]byte, 20), Root: hash32("eth-root-0"),
		TxHash: make([]byte, 32), ReceiptHash: make([]byte, 32), Bloom: make([]byte, 256), Difficulty: []byte{2}, Height: clienttypes.NewHeight(0, 3),
		GasLimit: 8000000, GasUsed: 4000000, Time: 1000, MixDigest: make([]byte, 32), BaseFee: big.NewInt(1000000000).Bytes()}
}

func rinkebyChild(p ethtypes.Header, salt byte, dt uint64) ethtypes.Header {
	ph := p.Hash()
	h := ethtypes.Header{
		ParentHash: ph[:], UncleHash: p.UncleHash, Coinbase: make([]byte, 20), Root: append(make([]byte, 31), salt),
		TxHash: make([]byte, 32), ReceiptHash: make([]byte, 32), Bloom: make([]byte, 256), Difficulty: []byte{2},
		Height: clienttypes.NewHeight(0, p.Height.RevisionHeight+1), GasLimit: p.GasLimit, GasUsed: p.GasLimit / 2, Time: p.Time + dt,
		Extra: []byte{salt}, MixDigest: make([]byte, 32), Nonce: 0,
	}
	h.BaseFee = ethtypes.CalcBaseFee(&p).Bytes()
	return h
}

// powUpdate creates a main-net (chain id 1) client from the repository's recorded headers through governance and
// submits the next recorded header (full ethash verification).
func (sc *Scenario) powUpdate(rel *core.Account) error {
	var hs []*ethtypes.EthHeader
	bz, err := os.ReadFile(filepath.Join(core.RepoDir(), "x/xibc/clients/light-clients/eth/types/testdata/update_headers.json"))
	if err != nil {
		return err
	}
	if err := json.Unmarshal(bz, &hs); err != nil {
		return err
	}
	h0 := hs[0].ToHeader()
	cs := &ethtypes.ClientState{Header: h0, ChainId: 1, ContractAddress: make([]byte, 20), TrustingPeriod: 1 << 40, BlockDelay: 1}
	cons := &ethtypes.ConsensusState{Timestamp: h0.Time, Height: clienttypes.NewHeight(0, h0.Height.RevisionHeight), Root: h0.Root}
	p, err := clienttypes.NewCreateClientProposal("t", "d", "eth-main", cs, cons)
	if err != nil {
		return err
	}
	sc.gov(p, "create eth main-net client", true)
	h1 := hs[1].ToHeader()
	sc.tx(rel, "eth pow update", mustUpdate("eth-main", &h1, rel))
	sc.cover("eth-pow-verification")
	// a header with a broken nonce must be rejected – on every node alike
	h2 := hs[2].ToHeader()
	h2.Nonce++
	res := sc.W.DeliverMsgs(sc.A, rel, mustUpdate("eth-main", &h2, rel))
	sc.cover(fmt.Sprintf("eth-pow-bad-nonce-code-%d", res.Code))
	sc.W.Roll(sc.A)
	// a "slow block" (more than 900 s after its parent: the clamped branch of the difficulty formula) that is refused,
	// and in a later block the real next header. Whatever judging the first leaves behind in the process (package-level
	// values, caches) is gone on a node that was restarted in between.
	slow := hs[2].ToHeader()
	slow.Time = h1.Time + 1000
	res = sc.W.DeliverMsgs(sc.A, rel, mustUpdate("eth-main", &slow, rel))
	sc.cover(fmt.Sprintf("eth-pow-slow-header-code-%d", res.Code))
	sc.W.Roll(sc.A)
	sc.W.Roll(sc.A)
	next := hs[2].ToHeader()
	res = sc.W.DeliverMsgs(sc.A, rel, mustUpdate("eth-main", &next, rel))
	sc.cover(fmt.Sprintf("eth-pow-header-after-slow-one-code-%d", res.Code))
	sc.W.Roll(sc.A)
	return nil
}
