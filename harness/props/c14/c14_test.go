package c14

import (
	"bufio"
	"crypto/sha256"
	"encoding/json"
	"fmt"
	"os"
	"os/exec"
	"path/filepath"
	"regexp"
	"runtime"
	"runtime/debug"
	"sort"
	"strconv"
	"strings"
	"sync"
	"testing"
	"time"

	sdk "github.com/cosmos/cosmos-sdk/types"
	ibcclienttypes "github.com/cosmos/ibc-go/v3/modules/core/02-client/types"
	channeltypes "github.com/cosmos/ibc-go/v3/modules/core/04-channel/types"
	"github.com/cosmos/ibc-go/v3/modules/core/exported"
	abci "github.com/tendermint/tendermint/abci/types"

	"verif/harness/core"
)

// replica environments: name -> extra environment ("" value removes the variable)
type envSpec struct {
	name string
	env  map[string]string
}

func envMatrix(tmp string, thorough bool) []envSpec {
	mk := func(p string) string {
		d := filepath.Join(tmp, p)
		_ = os.MkdirAll(d, 0o755)
		return d
	}
	m := []envSpec{
		{"gomaxprocs-1", map[string]string{"GOMAXPROCS": "1"}},
		{"gomaxprocs-2-tz-locale", map[string]string{"GOMAXPROCS": "2", "TZ": "Asia/Tokyo", "LANG": "de_DE.UTF-8", "LC_ALL": "de_DE.UTF-8"}},
		{"gomaxprocs-16-gogc-1", map[string]string{"GOMAXPROCS": "16", "GOGC": "1"}},
		{"other-tmp-home-sleeps", map[string]string{"TMPDIR": mk("tmp-a"), "HOME": mk("home-a"), "C14_SLEEP_MS": "3", "C14_START_DELAY_MS": "700"}},
		{"tmpdir-missing", map[string]string{"TMPDIR": filepath.Join(tmp, "does-not-exist"), "HOME": filepath.Join(tmp, "no-home")}},
		{"cwd-readonly-gc-pressure", map[string]string{"C14_GC_EVERY": "1", "C14_CWD": "/", "GOMAXPROCS": "3"}},
		// a node that is restarted every few blocks (new application object over the same database): whatever the state
		// machine keeps outside the committed state is lost at every restart
		{"restarted-every-5-blocks", map[string]string{"C14_RESTART_EVERY": "5"}},
		{"restarted-every-block", map[string]string{"C14_RESTART_EVERY": "1", "GOMAXPROCS": "2"}},
	}
	if thorough {
		for i := 0; i < 10; i++ {
			m = append(m, envSpec{fmt.Sprintf("plain-%d", i), map[string]string{"GOMAXPROCS": strconv.Itoa(1 + (i*5)%16), "C14_SLEEP_MS": strconv.Itoa(i % 3)}})
		}
	}
	return m
}

func TestC14(t *testing.T) {
	switch os.Getenv("C14_CHILD") {
	case "replay":
		childReplay()
		return
	case "race":
		childRace()
		return
	}
	r := core.NewRun(t, "C14")
	r.Rule = "a scripted-plus-seeded history exercising every teleport message, EVM hook and proposal type is recorded on a chain driven only through ABCI from genesis (InitChain, BeginBlock, tx bytes, EndBlock, Commit); the request stream is replayed by independent OS processes under different GOMAXPROCS / GOGC / TMPDIR / HOME / TZ / locale / cwd / start delay / inter-block sleeps (each process also has fresh map-iteration seeds) and every replica reports per block the app hash, begin/end-block events and per tx code, data, gas and events; all replicas must agree with the reference. A race-detector pass replays the same tape while other goroutines hammer CheckTx and queries. Non-trivial = a (replica, block) pair whose fingerprint was compared."
	r.Assume("the AST observation point of the property (static inspection of reachable code) is outside this technique family; only behaviour is decided")
	defer r.Finish()
	nScen := r.N(1, 3)
	tmp, err := os.MkdirTemp("", "c14-")
	if err != nil {
		r.Inconclusive("cannot create temp dir: %v", err)
		return
	}
	defer os.RemoveAll(tmp)
	for si := 0; si < nScen; si++ {
		cid := fmt.Sprintf("scenario/%d", si)
		if !r.Want(cid) {
			continue
		}
		seedRng := r.Rng(cid)
		sc, err := BuildScenario(seedRng.Int63(), true)
		if err != nil {
			r.Inconclusive("%s: scenario construction failed: %v", cid, err)
			return
		}
		for _, f := range sc.Failed {
			r.Count("scenario_steps_not_as_scripted", 1)
			fmt.Println("scenario step not as scripted:", f)
		}
		if len(sc.Failed) > 3 {
			r.Inconclusive("%s: %d scenario steps did not behave as scripted (first: %s)", cid, len(sc.Failed), sc.Failed[0])
			return
		}
		r.Set(fmt.Sprintf("coverage_scenario_%d", si), sc.Coverage)
		tapePath := filepath.Join(tmp, fmt.Sprintf("tape-%d.json", si))
		if err := WriteTape(tapePath, sc.A, sc.A.Name); err != nil {
			r.Inconclusive("cannot write tape: %v", err)
			return
		}
		tf, err := ReadTape(tapePath)
		if err != nil {
			r.Inconclusive("cannot read tape: %v", err)
			return
		}
		ntx := 0
		for _, b := range tf.Blocks {
			ntx += len(b.Txs)
		}
		r.Count("tape_blocks", len(tf.Blocks))
		r.Count("tape_txs", ntx)
		_, ref, err := Replay(tf, nil)
		if err != nil {
			r.Inconclusive("reference replay failed: %v", err)
			return
		}
		// a second replay in this very process: any difference between two replays of the same tape is non-determinism
		_, ref2, err := Replay(tf, nil)
		if err != nil {
			r.Inconclusive("second reference replay failed: %v", err)
			return
		}
		before := r.Violations()
		compare(r, cid, envSpec{name: "same-process-second-replay"}, ref, ref2, tf)
		r.Count("replicas_compared", 1)
		if r.Violations() > before {
			continue
		}
		// the recording itself must be reproduced by the (deterministic) replay: otherwise the harness wrote state outside ABCI
		if got, want := ref[len(ref)-1].AppHash, fmt.Sprintf("%x", sc.FinalHash); got != want {
			// Either the harness wrote state outside ABCI while recording (a harness problem), or block execution is not
			// deterministic and the two replays above merely happened to agree. More replays tell the two apart.
			diverged := false
			for k := 0; k < 6 && !diverged; k++ {
				_, more, err := Replay(tf, nil)
				if err != nil {
					break
				}
				before := r.Violations()
				compare(r, cid, envSpec{name: fmt.Sprintf("same-process-replay-%d", k+3)}, ref, more, tf)
				r.Count("replicas_compared", 1)
				diverged = r.Violations() > before
			}
			if diverged {
				continue
			}
			// One more witness decides: a FRESH process. If it reproduces the recording, the replays in this process differ
			// only because the process had already executed the scenario once - block execution reads state it left behind
			// in the process (package-level values, caches) instead of the committed state.
			if fps, _, ferr := runReplica(tapePath, filepath.Join(tmp, fmt.Sprintf("out-%d-fresh.jsonl", si)), envSpec{name: "fresh-process", env: map[string]string{"GOMAXPROCS": "2"}}); ferr == nil && len(fps) > 0 && fps[len(fps)-1].AppHash == want {
				r.Eval(cid+"/recording-vs-same-process-replays", true)
				r.Violation(cid, "divergence/same-process-replays-differ-from-the-recording-which-a-fresh-process-reproduces", map[string]interface{}{
					"recorded_final_app_hash": want, "fresh_process_final_app_hash": fps[len(fps)-1].AppHash, "same_process_replays_final_app_hash": got,
					"meaning": "the same request stream gives another state in a process that has executed it before: block execution depends on state kept in process memory"})
				continue
			}
			r.Inconclusive("%s: replay of the tape does not reproduce the recorded chain although 8 replays agree with each other (harness wrote state outside ABCI): %s vs %s", cid, got, want)
			return
		}
		r.Sample(map[string]interface{}{"scenario": cid, "blocks": len(tf.Blocks), "txs": ntx, "final_app_hash": ref[len(ref)-1].AppHash, "coverage_keys": len(sc.Coverage)})

		// ---- differential replay in child processes
		envs := envMatrix(filepath.Join(tmp, fmt.Sprintf("env-%d", si)), r.Thorough())
		type result struct {
			spec envSpec
			fps  []Fingerprint
			err  error
			out  string
		}
		results := make([]result, len(envs))
		var wg sync.WaitGroup
		sem := make(chan struct{}, 8)
		for i, e := range envs {
			wg.Add(1)
			go func(i int, e envSpec) {
				defer wg.Done()
				sem <- struct{}{}
				defer func() { <-sem }()
				fps, out, err := runReplica(tapePath, filepath.Join(tmp, fmt.Sprintf("out-%d-%d.jsonl", si, i)), e)
				results[i] = result{e, fps, err, out}
			}(i, e)
		}
		wg.Wait()
		for _, res := range results {
			if res.err != nil {
				// a replica that dies or cannot finish has diverged from the others that could
				r.Violation(cid, "replica-died/"+res.spec.name, map[string]interface{}{"env": res.spec.env, "err": res.err.Error(), "output_tail": tailStr(res.out, 1500)})
				continue
			}
			r.Count("replicas_compared", 1)
			compare(r, cid, res.spec, ref, res.fps, tf)
		}

		// ---- receive hook of the ICS-20 middleware, called the way ibc core calls it (not part of the tape)
		hookProbe(r, cid, sc)

		// ---- file-system access during block execution (system-call trace of one more replica)
		traceReplica(r, cid, tapePath, filepath.Join(tmp, fmt.Sprintf("trace-%d", si)), ref, tf)

		// ---- race detector pass
		if bin := os.Getenv("VERIF_RACE_BIN"); bin != "" {
			raceTape, raceRef := tapePath, ref
			if !r.Thorough() {
				// quick tier: the race pass replays a tape of the same scenario without the proof-of-work header
				// (ethash under the race detector costs ~1 min); thorough replays the full tape
				sc2, err := BuildScenario(seedRng.Int63(), false)
				if err == nil && len(sc2.Failed) <= 3 {
					p2 := filepath.Join(tmp, fmt.Sprintf("tape-%d-nopow.json", si))
					if WriteTape(p2, sc2.A, sc2.A.Name) == nil {
						if tf2, err := ReadTape(p2); err == nil {
							if _, ref2, err := Replay(tf2, nil); err == nil {
								raceTape, raceRef = p2, ref2
							}
						}
					}
				}
			}
			racePass(r, cid, bin, raceTape, tmp, raceRef)
		} else {
			r.Count("race_pass_skipped_no_binary", 1)
		}
	}
	liveClock(r, tmp)
	r.MinNontrivial(r.N(200, 2000))
}

// liveClock records the wall-clock-tied scenario (see BuildLiveScenario), replays it at once and again after the
// wall clock has passed the live block's time, in this process and in a fresh one. Code that reads the process
// clock inside block execution makes the late replays differ from the recording.
func liveClock(r *core.Run, tmp string) {
	cid := "live-clock/0"
	if !r.Want(cid) {
		return
	}
	var sc *Scenario
	var c time.Time
	sensitive := false
	for attempt := 0; attempt < 4 && !sensitive; attempt++ {
		var left time.Duration
		var err error
		sc, c, left, err = BuildLiveScenario(r.Rng(cid).Int63(), liveAhead<<uint(attempt))
		if err != nil {
			r.Inconclusive("%s: scenario construction failed: %v", cid, err)
			return
		}
		sensitive = left > 0
		if !sensitive {
			r.Count("live_recording_too_slow_retried", 1)
		}
	}
	for _, f := range sc.Failed {
		r.Count("live_steps_not_as_scripted", 1)
		fmt.Println("live step not as scripted:", f)
	}
	r.Set("coverage_live_clock", sc.Coverage)
	if !sensitive {
		// the recording did not finish before the wall clock reached the live block's time (overloaded machine):
		// the comparison below is still sound but would not notice a wall-clock dependence
		r.Count("live_segment_insensitive_this_run", 1)
	}
	tapePath := filepath.Join(tmp, "tape-live.json")
	if err := WriteTape(tapePath, sc.A, sc.A.Name); err != nil {
		r.Inconclusive("cannot write tape: %v", err)
		return
	}
	tf, err := ReadTape(tapePath)
	if err != nil {
		r.Inconclusive("cannot read tape: %v", err)
		return
	}
	_, early, err := Replay(tf, nil)
	if err != nil {
		r.Inconclusive("live: early replay failed: %v", err)
		return
	}
	if d := time.Until(c.Add(1500 * time.Millisecond)); d > 0 {
		time.Sleep(d)
	}
	_, late, err := Replay(tf, nil)
	if err != nil {
		r.Inconclusive("live: late replay failed: %v", err)
		return
	}
	r.Count("live_blocks", len(tf.Blocks))
	spec := envSpec{name: "live-clock-replay-after-wall-clock-passed-block-time"}
	before := r.Violations()
	compare(r, cid, spec, early, late, tf)
	r.Count("replicas_compared", 1)
	if r.Violations() == before {
		if got, want := late[len(late)-1].AppHash, fmt.Sprintf("%x", sc.FinalHash); got != want {
			r.Eval("live/recording-vs-late-replay", true)
			r.Violation(cid, "divergence/live-clock/recording-differs-from-replay-after-wall-clock-passed-block-time", map[string]interface{}{
				"recorded_final_app_hash": want, "late_replay_final_app_hash": got, "early_replay_final_app_hash": early[len(early)-1].AppHash,
				"live_block_time": c.String(), "scripted_steps_that_deviated_while_recording": sc.Failed,
				"meaning": "the same request stream gave another state when executed before / after the wall clock passed the block time: block execution consults the process clock"})
		} else {
			r.Eval("live/recording-vs-late-replay", true)
		}
	}
	fps, out, err := runReplica(tapePath, filepath.Join(tmp, "out-live.jsonl"), envSpec{name: "live-clock-fresh-process", env: map[string]string{"GOMAXPROCS": "2"}})
	if err != nil {
		r.Violation(cid, "replica-died/live-clock-fresh-process", map[string]interface{}{"err": err.Error(), "output_tail": tailStr(out, 1500)})
		return
	}
	compare(r, cid, envSpec{name: "live-clock-fresh-process"}, late, fps, tf)
	r.Count("replicas_compared", 1)
	r.Sample(map[string]interface{}{"scenario": cid, "live_block_time": c.String(), "sensitive": sensitive, "blocks": len(tf.Blocks), "final_app_hash": late[len(late)-1].AppHash, "steps": sc.Coverage})
}

func tailStr(s string, n int) string {
	if len(s) > n {
		return s[len(s)-n:]
	}
	return s
}

// compare reports the first divergence of a replica from the reference.
func compare(r *core.Run, cid string, spec envSpec, ref, got []Fingerprint, tf *TapeFile) {
	if len(got) != len(ref) {
		r.Violation(cid, "divergence/"+spec.name+"/block-count", map[string]interface{}{"env": spec.env, "ref": len(ref), "got": len(got)})
		return
	}
	for i := range ref {
		r.Eval(fmt.Sprintf("%s/%s/block-%d", cid, spec.name, i), true)
		a, b := ref[i], got[i]
		what := ""
		orderOnly := ""
		detail := map[string]interface{}{"env": spec.env, "block": a.Height}
		switch {
		case len(a.Txs) != len(b.Txs):
			what = "tx-count"
		case a.BeginN != b.BeginN:
			what = "begin-block-events"
		case a.Begin != b.Begin:
			orderOnly = "begin-block"
		}
		if what == "" {
			for j := range a.Txs {
				if a.TxsN[j] != b.TxsN[j] {
					what = "tx-result"
					detail["tx_index"] = j
					detail["ref"] = a.TxsN[j]
					detail["got"] = b.TxsN[j]
					detail["tx_kind"] = txKind(unb64(tf.Blocks[i].Txs[j]))
					break
				}
				if a.Txs[j] != b.Txs[j] && orderOnly == "" {
					orderOnly = "tx"
				}
			}
		}
		if what == "" && a.EndN != b.EndN {
			what = "end-block"
		} else if what == "" && a.End != b.End && orderOnly == "" {
			orderOnly = "end-block"
		}
		if what == "" && a.AppHash != b.AppHash {
			what = "app-hash"
			detail["ref"] = a.AppHash
			detail["got"] = b.AppHash
		}
		if what != "" {
			kind := ""
			if k, ok := detail["tx_kind"]; ok {
				kind = "/" + fmt.Sprint(k)
			}
			r.Violation(cid, "divergence/"+spec.name+"/"+what+kind, detail)
			return
		}
		if orderOnly != "" {
			// same events, same attributes, but a different attribute order (or log text): not a state divergence,
			// still a violation of "same ... events on every node"
			r.Violation(cid, "events/attribute-order-or-log-differs-between-replicas/"+orderOnly, detail)
		}
	}
}

var typeURLRe = regexp.MustCompile(`/[a-z][a-zA-Z0-9_.]*\.Msg[A-Za-z0-9]+`)

// txKind extracts the message type URLs from raw tx bytes (for signatures only).
func txKind(tx []byte) string {
	m := typeURLRe.FindAll(tx, -1)
	seen := map[string]bool{}
	var out []string
	for _, x := range m {
		if !seen[string(x)] {
			seen[string(x)] = true
			out = append(out, string(x))
		}
	}
	sort.Strings(out)
	s := strings.Join(out, "+")
	if i := strings.Index(s, "MsgUpdateClient"); i >= 0 {
		// which client type the header is for
		for _, t := range []string{"eth.v1.Header", "bsc.v1.Header", "tendermint.v1.Header", "tss.v1.Header"} {
			if strings.Contains(string(tx), t) {
				s += "(" + t + ")"
			}
		}
	}
	return s
}

func buildEnv(spec envSpec, extra map[string]string) []string {
	drop := map[string]bool{}
	for k := range spec.env {
		drop[k] = true
	}
	for k := range extra {
		drop[k] = true
	}
	var env []string
	for _, kv := range os.Environ() {
		k := kv[:strings.Index(kv, "=")]
		if !drop[k] {
			env = append(env, kv)
		}
	}
	for k, v := range spec.env {
		if v != "" {
			env = append(env, k+"="+v)
		}
	}
	for k, v := range extra {
		env = append(env, k+"="+v)
	}
	return env
}

func runReplica(tape, out string, spec envSpec) ([]Fingerprint, string, error) {
	cmd := exec.Command(os.Args[0], append([]string{"-test.run", "^TestC14$", "-test.timeout", "0"}, core.ChildCoverArgs()...)...)
	cmd.Env = buildEnv(spec, map[string]string{"C14_CHILD": "replay", "C14_TAPE": tape, "C14_OUT": out})
	if d := spec.env["C14_CWD"]; d != "" {
		cmd.Dir = d
	}
	bz, err := cmd.CombinedOutput()
	if err != nil {
		return nil, string(bz), fmt.Errorf("replica exited: %v", err)
	}
	fps, err := readFingerprints(out)
	return fps, string(bz), err
}

func readFingerprints(path string) ([]Fingerprint, error) {
	f, err := os.Open(path)
	if err != nil {
		return nil, err
	}
	defer f.Close()
	var out []Fingerprint
	sc := bufio.NewScanner(f)
	sc.Buffer(make([]byte, 1<<20), 1<<26)
	done := false
	for sc.Scan() {
		line := sc.Text()
		if line == "DONE" {
			done = true
			continue
		}
		var fp Fingerprint
		if err := json.Unmarshal([]byte(line), &fp); err != nil {
			return nil, err
		}
		out = append(out, fp)
	}
	if !done {
		return out, fmt.Errorf("replica did not finish (%d blocks reported)", len(out))
	}
	return out, nil
}

// childReplay is the body of a replica process.
func childReplay() {
	if ms, _ := strconv.Atoi(os.Getenv("C14_START_DELAY_MS")); ms > 0 {
		time.Sleep(time.Duration(ms) * time.Millisecond)
	}
	tf, err := ReadTape(os.Getenv("C14_TAPE"))
	if err != nil {
		fmt.Println("child: cannot read tape:", err)
		os.Exit(3)
	}
	sleep, _ := strconv.Atoi(os.Getenv("C14_SLEEP_MS"))
	gcEvery, _ := strconv.Atoi(os.Getenv("C14_GC_EVERY"))
	out, err := os.Create(os.Getenv("C14_OUT"))
	if err != nil {
		fmt.Println("child: cannot create output:", err)
		os.Exit(3)
	}
	markers := os.Getenv("C14_MARKERS") == "1"
	restartEvery, _ := strconv.Atoi(os.Getenv("C14_RESTART_EVERY"))
	restarts := 0
	_, fps, err := Replay(tf, func(i int, n *core.Node) {
		if restartEvery > 0 && (i+1)%restartEvery == 0 {
			if err := n.Restart(); err != nil {
				fmt.Println("child: restart failed:", err)
				os.Exit(3)
			}
			restarts++
		}
		if markers && i == 0 {
			// visible in a system-call trace: from here (the application is constructed, genesis and the first block
			// are done) to the end marker the process only executes blocks
			_, _ = os.Stat("/c14-marker-begin")
		}
		if sleep > 0 {
			time.Sleep(time.Duration(sleep) * time.Millisecond)
		}
		if gcEvery > 0 && i%gcEvery == 0 {
			runtime.GC()
			debug.FreeOSMemory()
		}
	})
	if os.Getenv("C14_MARKERS") == "1" {
		_, _ = os.Stat("/c14-marker-end")
	}
	for _, fp := range fps {
		bz, _ := json.Marshal(fp)
		fmt.Fprintln(out, string(bz))
	}
	if err != nil {
		fmt.Println("child: replay error:", err)
		out.Close()
		os.Exit(4)
	}
	fmt.Fprintln(out, "DONE")
	out.Close()
	os.Exit(0)
}

// ------------------------------------------------------------------ race pass

// childRace replays the tape under the race detector while other goroutines
// issue CheckTx and Query requests against the same application.
func childRace() {
	tf, err := ReadTape(os.Getenv("C14_TAPE"))
	if err != nil {
		os.Exit(3)
	}
	out, err := os.Create(os.Getenv("C14_OUT"))
	if err != nil {
		os.Exit(3)
	}
	var txs [][]byte
	for _, b := range tf.Blocks {
		for _, tx := range b.Txs {
			txs = append(txs, unb64(tx))
		}
	}
	stop := make(chan struct{})
	var wg sync.WaitGroup
	var nodeMu sync.Mutex
	var node *core.Node
	hammer := func(id int) {
		defer wg.Done()
		i := id
		for {
			select {
			case <-stop:
				return
			default:
			}
			nodeMu.Lock()
			n := node
			nodeMu.Unlock()
			if n == nil || n.App.LastBlockHeight() < 1 {
				time.Sleep(time.Millisecond)
				continue
			}
			i++
			func() {
				defer func() { _ = recover() }()
				switch i % 4 {
				case 0:
					if len(txs) > 0 {
						n.App.CheckTx(abci.RequestCheckTx{Tx: txs[i%len(txs)], Type: abci.CheckTxType_New})
					}
				case 1:
					n.App.Query(abci.RequestQuery{Path: "/xibc.core.client.v1.Query/ClientStates", Data: nil})
				case 2:
					n.App.Query(abci.RequestQuery{Path: "/teleport.aggregate.v1.Query/TokenPairs", Data: nil})
				case 3:
					n.App.Query(abci.RequestQuery{Path: "store/xibc/key", Data: []byte("clients/" + tf.ChainName), Height: 0})
					n.App.Query(abci.RequestQuery{Path: "/xibc.core.packet.v1.Query/PacketCommitments", Data: nil})
					n.App.Query(abci.RequestQuery{Path: "/ethermint.evm.v1.Query/Params", Data: nil})
				}
			}()
		}
	}
	for g := 0; g < 4; g++ {
		wg.Add(1)
		go hammer(g)
	}
	var fps []Fingerprint
	// Replay creates the node internally; publish it to the hammer goroutines through the between hook
	n, fps, err := Replay(tf, func(i int, n *core.Node) {
		nodeMu.Lock()
		node = n
		nodeMu.Unlock()
		time.Sleep(2 * time.Millisecond)
	})
	_ = n
	close(stop)
	wg.Wait()
	for _, fp := range fps {
		bz, _ := json.Marshal(fp)
		fmt.Fprintln(out, string(bz))
	}
	if err == nil {
		fmt.Fprintln(out, "DONE")
	}
	out.Close()
	os.Exit(0)
}

var raceFrameRe = regexp.MustCompile(`^\s+(\S+)\(`)

// racePass runs the race-instrumented binary and classifies its reports.
func racePass(r *core.Run, cid, bin, tape, tmp string, ref []Fingerprint) {
	passes := r.N(1, 3)
	for p := 0; p < passes; p++ {
		logBase := filepath.Join(tmp, fmt.Sprintf("race-%d.log", p))
		out := filepath.Join(tmp, fmt.Sprintf("race-out-%d.jsonl", p))
		cmd := exec.Command(bin, "-test.run", "^TestC14$", "-test.timeout", "0")
		cmd.Env = buildEnv(envSpec{}, map[string]string{"C14_CHILD": "race", "C14_TAPE": tape, "C14_OUT": out, "GORACE": "halt_on_error=0 exitcode=0 log_path=" + logBase})
		bz, err := cmd.CombinedOutput()
		if err != nil {
			r.Inconclusive("race pass: child failed: %v %s", err, tailStr(string(bz), 800))
			return
		}
		fps, err := readFingerprints(out)
		if err != nil {
			r.Inconclusive("race pass: %v", err)
			return
		}
		r.Count("race_passes", 1)
		compare(r, cid, envSpec{name: "race-detector-with-concurrent-queries"}, ref, fps, &TapeFile{Blocks: make([]TapeBlock, len(ref))})
		logs, _ := filepath.Glob(logBase + ".*")
		seen := map[string]bool{}
		for _, lf := range logs {
			bz, _ := os.ReadFile(lf)
			for _, rep := range strings.Split(string(bz), "==================") {
				if !strings.Contains(rep, "WARNING: DATA RACE") {
					continue
				}
				r.Count("race_reports_raw", 1)
				// the two racing accesses are the first frames after the "Read/Write at" and "Previous read/write at" lines;
				// a report is attributed to teleport only when one of the ACCESSES itself is in teleport code
				// (teleport frames deeper in a stack whose racing access is inside cosmos-sdk / iavl / ethermint store code
				// only say who called the library)
				var tops []string
				lines := strings.Split(rep, "\n")
				for i, line := range lines {
					t := strings.TrimSpace(line)
					if (strings.HasPrefix(t, "Read at") || strings.HasPrefix(t, "Write at") || strings.HasPrefix(t, "Previous read at") || strings.HasPrefix(t, "Previous write at") ||
						strings.HasPrefix(t, "Atomic") || strings.HasPrefix(t, "Previous atomic")) && i+1 < len(lines) {
						if m := raceFrameRe.FindStringSubmatch(lines[i+1]); m != nil {
							tops = append(tops, m[1])
						}
					}
				}
				teleport := ""
				for _, f := range tops {
					if strings.Contains(f, "github.com/teleport-network/teleport/") {
						teleport = f
					}
				}
				sort.Strings(tops)
				key := strings.Join(tops, " <-> ")
				if seen[key] {
					continue
				}
				seen[key] = true
				if teleport != "" {
					r.Violation(cid, "data-race/"+shortFn(teleport), map[string]interface{}{"accesses": tops, "report": tailStr(rep, 3000)})
				} else {
					r.Count("race_reports_distinct_third_party_accesses(not judged)", 1)
					if len(seen) <= 8 {
						r.Sample(map[string]interface{}{"third_party_race_accesses": tops})
					}
				}
			}
		}
	}
}

func first(l []string) string {
	if len(l) > 0 {
		return l[0]
	}
	return ""
}

func firstN(l []string, n int) []string {
	if len(l) > n {
		return l[:n]
	}
	return l
}

func shortFn(f string) string {
	if i := strings.Index(f, "teleport-network/teleport/"); i >= 0 {
		f = f[i+len("teleport-network/teleport/"):]
	}
	return f
}

// traceReplica replays the tape in a child process under strace (file-name system calls only) with working directory,
// HOME and TMPDIR pointing into a fresh private tree. Between the two markers the child is executing blocks: every
// path it looks up there is an observation of "block processing depends on the local file system". Look-ups below
// the private tree (relative paths included) are violations - whatever is or is not found there can differ from node
// to node; look-ups elsewhere (outside /proc, /sys, /dev and the time-zone database) are listed in the evidence.
func traceReplica(r *core.Run, cid, tape, root string, ref []Fingerprint, tf *TapeFile) {
	strace, err := exec.LookPath("strace")
	if err != nil {
		r.Count("trace_replica_skipped_no_strace", 1)
		return
	}
	cwd, home, tmpd := filepath.Join(root, "cwd"), filepath.Join(root, "home"), filepath.Join(root, "tmp")
	for _, d := range []string{cwd, home, tmpd} {
		_ = os.MkdirAll(d, 0o755)
	}
	logPath, out := filepath.Join(root, "strace.log"), filepath.Join(root, "out.jsonl")
	cmd := exec.Command(strace, "-f", "-qq", "-e", "trace=%file,getrandom,socket,connect", "-o", logPath, os.Args[0], "-test.run", "^TestC14$", "-test.timeout", "0")
	cmd.Dir = cwd
	cmd.Env = buildEnv(envSpec{env: map[string]string{"HOME": home, "TMPDIR": tmpd, "GOMAXPROCS": "4"}}, map[string]string{"C14_CHILD": "replay", "C14_TAPE": tape, "C14_OUT": out, "C14_MARKERS": "1"})
	bz, err := cmd.CombinedOutput()
	if err != nil {
		// ptrace may be unavailable in a sandbox: not a verdict about teleport
		r.Count("trace_replica_failed_to_run", 1)
		fmt.Println("NOTE trace replica:", err, tailStr(string(bz), 300))
		return
	}
	if fps, err := readFingerprints(out); err == nil {
		compare(r, cid, envSpec{name: "traced-private-cwd-home-tmp"}, ref, fps, tf)
		r.Count("replicas_compared", 1)
	}
	f, err := os.Open(logPath)
	if err != nil {
		r.Count("trace_replica_failed_to_run", 1)
		return
	}
	defer f.Close()
	sc := bufio.NewScanner(f)
	sc.Buffer(make([]byte, 1<<20), 1<<24)
	re := regexp.MustCompile(`^\d+\s+(\w+)\((?:AT_FDCWD, )?"((?:[^"\\]|\\.)*)"`)
	sysRe := regexp.MustCompile(`^\d+\s+(getrandom|socket|connect)\(`)
	entropy := map[string]int{}
	inside, seenBegin, seenEnd := false, false, false
	private := map[string]string{} // pattern -> example
	other := map[string]int{}
	n := 0
	for sc.Scan() {
		line := sc.Text()
		if strings.Contains(line, "/c14-marker-begin") {
			inside, seenBegin = true, true
			continue
		}
		if strings.Contains(line, "/c14-marker-end") {
			inside, seenEnd = false, true
			continue
		}
		if !inside {
			continue
		}
		if sm := sysRe.FindStringSubmatch(line); sm != nil {
			// randomness from the kernel or network access while executing blocks
			entropy[sm[1]]++
			continue
		}
		m := re.FindStringSubmatch(line)
		if m == nil {
			continue
		}
		n++
		call, path := m[1], m[2]
		abs := path
		if !filepath.IsAbs(abs) {
			abs = filepath.Join(cwd, abs)
		}
		switch {
		case strings.HasPrefix(abs, root+"/"):
			rel := strings.TrimPrefix(abs, root+"/")
			pat := call + "/" + regexp.MustCompile(`[0-9a-f]{8,}`).ReplaceAllString(rel, "<hex>")
			if _, ok := private[pat]; !ok {
				private[pat] = line
			}
		case strings.HasPrefix(abs, "/proc/"), strings.HasPrefix(abs, "/sys/"), strings.HasPrefix(abs, "/dev/"),
			strings.Contains(abs, "zoneinfo"), abs == "/etc/localtime":
		default:
			other[call+" "+abs]++
		}
	}
	if !seenBegin || !seenEnd {
		r.Count("trace_replica_markers_missing", 1)
		return
	}
	r.Eval("trace/"+cid, true)
	r.Count("trace_file_syscalls_during_block_execution", n)
	var otherList []string
	for k := range other {
		otherList = append(otherList, k)
	}
	sort.Strings(otherList)
	r.Set("trace_paths_outside_private_tree_"+strings.ReplaceAll(cid, "/", "_"), firstN(otherList, 40))
	for call, c := range entropy {
		r.Violation(cid, "syscall-during-block-execution/"+call, map[string]interface{}{"count": c,
			"meaning": "while executing blocks the node asked the kernel for randomness / opened a network connection: neither is part of the replicated input"})
	}
	var pats []string
	for k := range private {
		pats = append(pats, k)
	}
	sort.Strings(pats)
	for _, pat := range pats {
		r.Violation(cid, "fs-access-during-block-execution/"+pat, map[string]interface{}{"syscall_line": private[pat],
			"meaning": "while executing blocks the node looked up a path below its working directory / HOME / TMPDIR: what is found there differs from node to node"})
	}
}

// hookProbe calls the aggregate module's ICS-20 receive hook on the recorded chain's final state, several times each on
// branches of the same state, for a packet whose conversion succeeds and for packets whose conversion fails (amount
// above the receiver's vouchers; unregistered denomination). The hook is block-execution code (ibc core calls it inside
// MsgRecvPacket): the acknowledgement it returns, the events it emits (attribute order included) and the state it
// leaves must be the same in every call.
func hookProbe(r *core.Run, cid string, sc *Scenario) {
	n := sc.A
	n.Begin(n.Header.Time.Add(5 * time.Second)) // a block of its own, after the recorded ones (not on the tape)
	u0 := sc.W.Users[0]
	mk := func(denom, amount string) channeltypes.Packet {
		bz, _ := json.Marshal(map[string]string{"denom": denom, "amount": amount, "sender": "cosmos1sender", "receiver": u0.Acc.String()})
		return channeltypes.NewPacket(bz, 1, "transfer", "channel-7", "transfer", "channel-0", ibcclienttypes.NewHeight(1, 1000), 0)
	}
	ack := channeltypes.NewResultAcknowledgement([]byte{1})
	cases := []struct {
		name string
		pkt  channeltypes.Packet
	}{
		{"conversion-succeeds", mk("uatom", "1000")},
		{"conversion-fails-amount-above-vouchers", mk("uatom", "999999999999")},
		{"unregistered-denomination", mk("uosmo", "5")},
		{"unparsable-amount", mk("uatom", "12x")},
	}
	for _, c := range cases {
		var first string
		for k := 0; k < 12; k++ {
			cctx, _ := n.Ctx().CacheContext()
			em := sdk.NewEventManager()
			cctx = cctx.WithEventManager(em)
			var got exported.Acknowledgement
			err, panicked := core.Catch(func() error { got = n.App.AggregateKeeper.OnRecvPacket(cctx, c.pkt, ack); return nil })
			fp := ""
			if panicked {
				fp = "panic: " + err.Error()
			} else {
				ackBz := []byte("nil")
				if got != nil {
					ackBz = got.Acknowledgement()
				}
				snap := n.Snap(cctx, "bank", "evm", "aggregate")
				h := sha256.New()
				for _, st := range []string{"aggregate", "bank", "evm"} {
					h.Write([]byte(snap.Stores[st].Digest()))
				}
				fp = fmt.Sprintf("ack=%x events=%s state=%x", ackBz, hashEvents(em.ABCIEvents()), h.Sum(nil))
			}
			r.Eval(fmt.Sprintf("%s/hook-probe/%s/%d", cid, c.name, k), true)
			if k == 0 {
				first = fp
				continue
			}
			if fp != first {
				r.Violation(cid, "divergence/ics20-receive-hook/"+c.name, map[string]interface{}{"call_0": first, fmt.Sprintf("call_%d", k): fp,
					"meaning": "the same hook call on the same state gave another acknowledgement / event (attribute order counts) / state"})
				break
			}
		}
		r.Count("hook_probe_calls/"+c.name, 12)
	}
	n.End()
}
