package c14

import (
	"fmt"
	"math/rand"
	"time"

	simapp "github.com/cosmos/cosmos-sdk/simapp"
	sdk "github.com/cosmos/cosmos-sdk/types"
	govtypes "github.com/cosmos/cosmos-sdk/x/gov/types"

	"github.com/teleport-network/teleport/app"
	bsctypes "github.com/teleport-network/teleport/x/xibc/clients/light-clients/bsc/types"
	ethtypes "github.com/teleport-network/teleport/x/xibc/clients/light-clients/eth/types"
	tmtypes "github.com/teleport-network/teleport/x/xibc/clients/light-clients/tendermint/types"
	clienttypes "github.com/teleport-network/teleport/x/xibc/core/client/types"
	commitmenttypes "github.com/teleport-network/teleport/x/xibc/core/commitment/types"
	packettypes "github.com/teleport-network/teleport/x/xibc/core/packet/types"
	xibctypes "github.com/teleport-network/teleport/x/xibc/types"

	"verif/harness/core"
)

// liveAhead is how far the live block's time lies ahead of the recorder's wall clock.
const liveAhead = 4 * time.Second

// BuildLiveScenario records a short chain whose clock is tied to the WALL clock of the recording process, the
// way a live network's block time is: the last ("live") block carries the time C = now + ~4 s and its
// transactions are client updates whose verdicts sit one second either side of every time rule of the light
// clients (future-block bound, trusting-period expiry, clock drift, pruning) as seen from block time C. Code that
// takes the time from the block header decides the same whenever the tape is replayed; code that consults the
// process clock decides differently before and after the wall clock has passed C. The caller replays the tape
// immediately and again once the wall clock is beyond C.
//
// Returned: the scenario, C, and how much wall time was left before C-1s when the recording ended (the recording
// is only sensitive while that is positive).
func BuildLiveScenario(seed int64, ahead time.Duration) (*Scenario, time.Time, time.Duration, error) {
	sc := &Scenario{rng: rand.New(rand.NewSource(seed)), Coverage: map[string]int{}}
	c := time.Now().Truncate(time.Second).Add(ahead + time.Second).UTC()
	w := &core.World{ByName: map[string]*core.Node{}, Clock: c.Add(-2 * time.Hour), Step: 5 * time.Second}
	w.Admin = core.NewAccount("admin")
	accts := []*core.Account{w.Admin}
	for i := 0; i < 2; i++ {
		u := core.NewAccount(fmt.Sprintf("user%d", i))
		w.Users = append(w.Users, u)
		accts = append(accts, u)
	}
	rel := core.NewAccount("relayer0")
	w.Relayers = append(w.Relayers, rel)
	accts = append(accts, rel)
	sc.W = w
	nameA, nameB := core.ChainNames[0], core.ChainNames[1]

	b := core.NewNode(core.NodeConfig{ChainID: "teleport_9000-2", XIBCName: nameB, Accounts: accts, GenesisTime: w.Clock})
	w.Nodes = append(w.Nodes, b)
	w.ByName[nameB] = b
	w.Clock = w.Clock.Add(w.Step)
	b.Begin(w.Clock)
	setChainName(b, nameB)
	w.Roll(b)
	w.Roll(b)
	hB := b.Height()
	anchor := clienttypes.NewHeight(b.Revision(), uint64(hB))
	hdrB, err := b.SignedHeader(hB, anchor)
	if err != nil {
		return nil, c, 0, err
	}
	tB := hdrB.GetTime()

	chains := []string{"tm-live", "tm-exp-1", "tm-exp-2", "eth-live", "eth-exp-1", "eth-exp-2", "bsc-exp-1", "bsc-exp-2"}
	addrs := make([]string, len(chains))
	for i := range chains {
		addrs[i] = rel.Bech32()
	}
	mutate := func(tp *app.Teleport, gs simapp.GenesisState) {
		cdc := tp.AppCodec()
		xg := xibctypes.GenesisState{
			ClientGenesis: clienttypes.GenesisState{NativeChainName: nameA,
				Relayers: []clienttypes.IdentifiedRelayer{{Address: rel.Bech32(), Chains: chains, Addresses: addrs}}},
			PacketGenesis: packettypes.DefaultGenesisState(),
		}
		gs["xibc"] = cdc.MustMarshalJSON(&xg)
		gg := govtypes.DefaultGenesisState()
		gg.VotingParams.VotingPeriod = votingPeriod
		gg.DepositParams.MinDeposit = sdk.NewCoins(sdk.NewInt64Coin(core.BondDenom, 1_000_000))
		gs[govtypes.ModuleName] = cdc.MustMarshalJSON(gg)
	}
	a := core.NewNode(core.NodeConfig{ChainID: "teleport_9000-1", XIBCName: nameA, Accounts: accts, GenesisTime: w.Clock, MutateGenesis: mutate})
	a.Tape = &core.Tape{}
	w.Nodes = append([]*core.Node{a}, w.Nodes...)
	w.ByName[nameA] = a
	sc.A, sc.B = a, b
	w.Clock = w.Clock.Add(w.Step)
	a.Begin(w.Clock)
	setChainName(a, nameA)
	w.Roll(a)

	create := func(name string, cs, cons interface{}) {
		var p govtypes.Content
		var err error
		switch v := cs.(type) {
		case *tmtypes.ClientState:
			p, err = clienttypes.NewCreateClientProposal("t", "d", name, v, cons.(*tmtypes.ConsensusState))
		case *ethtypes.ClientState:
			p, err = clienttypes.NewCreateClientProposal("t", "d", name, v, cons.(*ethtypes.ConsensusState))
		case *bsctypes.ClientState:
			p, err = clienttypes.NewCreateClientProposal("t", "d", name, v, cons.(*bsctypes.ConsensusState))
		}
		if err != nil {
			sc.fail("create %s: %v", name, err)
			return
		}
		sc.gov(p, "create "+name, true)
	}
	// ---- Tendermint: expiry is "anchor time + trusting period <= now"
	tmCS := func(trusting time.Duration) *tmtypes.ClientState {
		return tmtypes.NewClientState(b.ChainID, tmtypes.DefaultTrustLevel, trusting, 21*24*time.Hour, 10*time.Second, anchor,
			commitmenttypes.GetSDKSpecs(), commitmenttypes.MerklePrefix{KeyPrefix: []byte("xibc")}, 0)
	}
	create("tm-live", tmCS(14*24*time.Hour), hdrB.ConsensusState())
	create("tm-exp-1", tmCS(c.Sub(tB)), hdrB.ConsensusState())                  // expires exactly at C
	create("tm-exp-2", tmCS(c.Add(time.Second).Sub(tB)), hdrB.ConsensusState()) // one second later
	// ---- Ethereum (chain id 4, no proof of work): future bound "time > now + 15 s", expiry "time + period < now"
	cu := uint64(c.Unix())
	eth0 := rinkebyGenesis()
	eth0.Time = cu - 1000
	ethCS := func(trusting uint64) *ethtypes.ClientState {
		return &ethtypes.ClientState{Header: eth0, ChainId: 4, ContractAddress: make([]byte, 20), TrustingPeriod: trusting, BlockDelay: 0}
	}
	ethCons := &ethtypes.ConsensusState{Timestamp: eth0.Time, Height: eth0.Height, Root: eth0.Root}
	create("eth-live", ethCS(1<<40), ethCons)
	create("eth-exp-1", ethCS(999), ethCons)  // anchor + period = C-1 < C: expired in the live block
	create("eth-exp-2", ethCS(1000), ethCons) // = C: not expired
	// ---- BSC: expiry "time + period < now"
	bscCS1, bscCons1, steps1 := buildBSCAt(rand.New(rand.NewSource(seed)), 3, cu-1000)
	bscCS1.TrustingPeriod = 999
	create("bsc-exp-1", bscCS1, bscCons1)
	bscCS2, bscCons2, steps2 := buildBSCAt(rand.New(rand.NewSource(seed)), 3, cu-1000)
	bscCS2.TrustingPeriod = 1000
	create("bsc-exp-2", bscCS2, bscCons2)

	// B produces the headers for the live block: one at the edge of the allowed clock drift, one a second beyond it
	b.End()
	b.Begin(c.Add(-30 * time.Second))
	b.End()
	hOld := b.Height() // an unremarkable header (time C-30 s)
	b.Begin(c.Add(9 * time.Second))
	b.End()
	hEdge := b.Height() // time = C + drift - 1 s: the latest acceptable header (the rule is "time < now + drift")
	b.Begin(c.Add(10 * time.Second))
	b.End()
	hLate := b.Height() // time = C + drift: too far in the future
	b.Begin(c.Add(12 * time.Second))
	tmUpdate := func(name string, h int64) sdk.Msg {
		hdr, err := b.SignedHeader(h, anchor)
		if err != nil {
			sc.fail("signed header %d: %v", h, err)
			return nil
		}
		m, err := clienttypes.NewMsgUpdateClient(name, hdr, rel.Acc)
		if err != nil {
			sc.fail("update msg: %v", err)
			return nil
		}
		return m
	}
	ethA := rinkebyChild(eth0, 1, 1015) // time = C + 15 s: the latest acceptable header
	ethB := rinkebyChild(eth0, 2, 1016) // time = C + 16 s: in the future
	ethC := rinkebyChild(eth0, 3, 500)
	firstHonest := func(steps []bscStep) *bsctypes.Header {
		for _, s := range steps {
			if s.honest {
				return s.hdr
			}
		}
		return nil
	}

	// ---- the live block
	if w.Clock.After(c) {
		return nil, c, 0, fmt.Errorf("set-up took the chain clock beyond the live block's time")
	}
	a.End()
	a.Begin(c)
	type step struct {
		what string
		msg  sdk.Msg
		ok   bool // expected verdict when the time is taken from the block header
	}
	steps := []step{
		{"tm-live old header", tmUpdate("tm-live", hOld), true},
		{"tm-live header at now+drift-1s", tmUpdate("tm-live", hEdge), true},
		{"tm-live header at now+drift", tmUpdate("tm-live", hLate), false},
		{"tm-exp-1 (expired at C)", tmUpdate("tm-exp-1", hOld), false},
		{"tm-exp-2 (expires at C+1s)", tmUpdate("tm-exp-2", hOld), true},
		{"eth-live header at now+15s", mustUpdate("eth-live", &ethA, rel), true},
		{"eth-live header at now+16s", mustUpdate("eth-live", &ethB, rel), false},
		{"eth-exp-1 (expired)", mustUpdate("eth-exp-1", &ethC, rel), false},
		{"eth-exp-2 (not yet expired)", mustUpdate("eth-exp-2", &ethC, rel), true},
		{"bsc-exp-1 (expired)", mustUpdate("bsc-exp-1", firstHonest(steps1), rel), false},
		{"bsc-exp-2 (not yet expired)", mustUpdate("bsc-exp-2", firstHonest(steps2), rel), true},
	}
	for _, s := range steps {
		if s.msg == nil {
			continue
		}
		res := w.DeliverMsgs(a, rel, s.msg)
		sc.cover(fmt.Sprintf("live:%s:ok=%v", s.what, res.OK()))
		if res.OK() != s.ok {
			sc.fail("live step %q: ok=%v, scripted %v: %s", s.what, res.OK(), s.ok, trunc(res.Log))
		}
	}
	a.End()
	a.Begin(c.Add(5 * time.Second))
	_, sc.FinalHash = a.End()
	return sc, c, time.Until(c.Add(-time.Second)), nil
}
