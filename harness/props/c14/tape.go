// Package c14 monitors C14: the state machine is deterministic – replaying the
// same genesis and blocks on independent instances gives the same app hashes,
// results and events.
package c14

import (
	"bytes"
	"crypto/sha256"
	"encoding/base64"
	"encoding/hex"
	"encoding/json"
	"fmt"
	"os"
	"sort"

	"github.com/gogo/protobuf/proto"
	abci "github.com/tendermint/tendermint/abci/types"
	tmproto "github.com/tendermint/tendermint/proto/tendermint/types"

	packettypes "github.com/teleport-network/teleport/x/xibc/core/packet/types"

	"verif/harness/core"
)

// TapeFile is the serialised request stream of the recorded chain.
type TapeFile struct {
	Init      string      `json:"init"`       // base64(proto RequestInitChain)
	ChainName string      `json:"chain_name"` // post-InitChain setup: packet contract chain name
	Blocks    []TapeBlock `json:"blocks"`
}

// TapeBlock is one block of the tape.
type TapeBlock struct {
	Header string   `json:"header"` // base64(proto Header)
	Txs    []string `json:"txs"`
}

// Fingerprint is what a replica reports for one block.
type Fingerprint struct {
	Height  int64    `json:"h"`
	AppHash string   `json:"app_hash"`
	Begin   string   `json:"begin_events"`
	End     string   `json:"end_block"`
	Txs     []string `json:"txs"`
	// the same observations with event attributes sorted inside every event and without the
	// (event-derived) log: lets the parent tell an attribute-order difference from a real divergence
	BeginN string   `json:"begin_events_norm"`
	EndN   string   `json:"end_block_norm"`
	TxsN   []string `json:"txs_norm"`
}

func b64(b []byte) string { return base64.StdEncoding.EncodeToString(b) }

func unb64(s string) []byte {
	b, err := base64.StdEncoding.DecodeString(s)
	if err != nil {
		panic(err)
	}
	return b
}

// WriteTape serialises the tape of a recorded node.
func WriteTape(path string, n *core.Node, chainName string) error {
	initBz, err := proto.Marshal(&n.InitReq)
	if err != nil {
		return err
	}
	tf := TapeFile{Init: b64(initBz), ChainName: chainName}
	for _, b := range n.Tape.Blocks {
		hb, err := proto.Marshal(&b.Header)
		if err != nil {
			return err
		}
		tb := TapeBlock{Header: b64(hb)}
		for _, tx := range b.Txs {
			tb.Txs = append(tb.Txs, b64(tx))
		}
		tf.Blocks = append(tf.Blocks, tb)
	}
	bz, err := json.Marshal(tf)
	if err != nil {
		return err
	}
	return os.WriteFile(path, bz, 0o644)
}

// ReadTape loads a tape file.
func ReadTape(path string) (*TapeFile, error) {
	bz, err := os.ReadFile(path)
	if err != nil {
		return nil, err
	}
	var tf TapeFile
	if err := json.Unmarshal(bz, &tf); err != nil {
		return nil, err
	}
	return &tf, nil
}

func hashEventsOpt(evs []abci.Event, sortAttrs bool) string {
	h := sha256.New()
	for _, e := range evs {
		fmt.Fprintf(h, "T%d:%s;", len(e.Type), e.Type)
		attrs := e.Attributes
		if sortAttrs {
			attrs = append([]abci.EventAttribute{}, attrs...)
			sort.SliceStable(attrs, func(i, j int) bool {
				if c := bytes.Compare(attrs[i].Key, attrs[j].Key); c != 0 {
					return c < 0
				}
				return bytes.Compare(attrs[i].Value, attrs[j].Value) < 0
			})
		}
		for _, a := range attrs {
			fmt.Fprintf(h, "k%d:%s=v%d:%s;", len(a.Key), a.Key, len(a.Value), a.Value)
		}
	}
	return hex.EncodeToString(h.Sum(nil)[:10])
}

func hashEvents(evs []abci.Event) string { return hashEventsOpt(evs, false) }

// txFingerprint covers everything a node reports for a delivered tx.
func txFingerprint(r abci.ResponseDeliverTx, norm bool) string {
	d := sha256.Sum256(r.Data)
	if norm {
		return fmt.Sprintf("code=%d/%s data=%x gas=%d/%d events=%s", r.Code, r.Codespace, d[:8], r.GasWanted, r.GasUsed, hashEventsOpt(r.Events, true))
	}
	l := sha256.Sum256([]byte(r.Log))
	return fmt.Sprintf("code=%d/%s data=%x gas=%d/%d events=%s log=%x", r.Code, r.Codespace, d[:8], r.GasWanted, r.GasUsed, hashEvents(r.Events), l[:6])
}

func endFingerprint(r abci.ResponseEndBlock, norm bool) string {
	h := sha256.New()
	for _, v := range r.ValidatorUpdates { // order is part of the ABCI contract
		bz, _ := proto.Marshal(&v)
		fmt.Fprintf(h, "%d:%x;", len(bz), bz)
	}
	cp := ""
	if r.ConsensusParamUpdates != nil {
		bz, _ := proto.Marshal(r.ConsensusParamUpdates)
		cp = hex.EncodeToString(bz)
	}
	return fmt.Sprintf("vals=%d/%x params=%s events=%s", len(r.ValidatorUpdates), h.Sum(nil)[:8], cp, hashEventsOpt(r.Events, norm))
}

// setChainName is the post-InitChain setup shared by recorder and replicas.
func setChainName(n *core.Node, name string) {
	if _, err := n.App.XIBCKeeper.PacketKeeper.CallEVM(n.Ctx(), core.PacketABI, packettypes.ModuleAddress, core.PacketAddr, "setChainName", name); err != nil {
		panic(err)
	}
}

// Replay executes a tape on a fresh app and returns one fingerprint per block.
// between is called after every committed block (replicas use it to inject
// sleeps / GC pressure; the race pass to yield to query goroutines).
func Replay(tf *TapeFile, between func(i int, n *core.Node)) (*core.Node, []Fingerprint, error) {
	var req abci.RequestInitChain
	if err := proto.Unmarshal(unb64(tf.Init), &req); err != nil {
		return nil, nil, err
	}
	n := core.NewBareNode(req, nil)
	var out []Fingerprint
	for i, b := range tf.Blocks {
		var h tmproto.Header
		if err := proto.Unmarshal(unb64(b.Header), &h); err != nil {
			return n, out, err
		}
		// the header's AppHash is what the recorder saw after the previous block: a replica that
		// diverged notices it here as well, but the comparison is done by the parent on fingerprints
		n.Header = h
		rb := n.App.BeginBlock(abci.RequestBeginBlock{Header: h})
		n.InBlock = true
		if i == 0 && tf.ChainName != "" {
			setChainName(n, tf.ChainName)
		}
		fp := Fingerprint{Height: h.Height, Begin: hashEvents(rb.Events), BeginN: hashEventsOpt(rb.Events, true)}
		for _, tx := range b.Txs {
			res := n.Deliver(unb64(tx))
			fp.Txs = append(fp.Txs, txFingerprint(res, false))
			fp.TxsN = append(fp.TxsN, txFingerprint(res, true))
		}
		re, hash := n.End()
		fp.End = endFingerprint(re, false)
		fp.EndN = endFingerprint(re, true)
		fp.AppHash = hex.EncodeToString(hash)
		out = append(out, fp)
		if between != nil {
			between(i, n)
		}
	}
	return n, out, nil
}
