package c17

// World construction and workload generation for C17: a 3-validator chain
// whose blocks carry real LastCommitInfo votes (so that the distribution module
// hands out rewards), funded EOAs, persistent forwarder contracts, proposals.

import (
	"bytes"
	"fmt"
	"math"
	"math/big"
	"math/rand"
	"time"

	abci "github.com/tendermint/tendermint/abci/types"
	tmproto "github.com/tendermint/tendermint/proto/tendermint/types"
	tmprotoversion "github.com/tendermint/tendermint/proto/tendermint/version"
	"github.com/tendermint/tendermint/version"

	"github.com/cosmos/cosmos-sdk/simapp"
	sdk "github.com/cosmos/cosmos-sdk/types"
	authtypes "github.com/cosmos/cosmos-sdk/x/auth/types"
	govtypes "github.com/cosmos/cosmos-sdk/x/gov/types"
	slashingtypes "github.com/cosmos/cosmos-sdk/x/slashing/types"
	stakingtypes "github.com/cosmos/cosmos-sdk/x/staking/types"
	"github.com/ethereum/go-ethereum/common"
	"github.com/ethereum/go-ethereum/crypto"

	"github.com/teleport-network/teleport/app"

	"verif/harness/core"
)

const txGas = 30_000_000

type proposal struct {
	id         uint64
	deposit    sdk.Int
	voting     bool
	votingEnd  time.Time
	depositEnd time.Time
	voted      bool // some vote reached the store (outcome of the tally is then not predicted)
	done       bool
}

type world struct {
	proposer []byte // consensus address of the block proposer (follows the validator set)
	r        *core.Run
	hid      string
	rng      *rand.Rand
	n        *core.Node
	m        *evmModel
	now      time.Time
	eoas     []*core.Account
	dep      *core.Account // deployer of harness contracts
	fund     *core.Account // funds contracts / pays "fees"
	vals     []string      // operator addresses

	staking, gov *contract
	stEntries    []entry
	govEntries   []entry
	proxy        *contract
	actors       []common.Address // every address that may hold delegations (victims for look-alikes)

	props      []*proposal
	nextPID    uint64
	slot       uint64
	txCount    int
	slashed    bool
	rev        *contract
	dep2       *core.Account // deployer of multicall contracts (predictable addresses)
	minDeposit sdk.Int
	feeColl    sdk.AccAddress
	dead       bool
}

// entry is a persistent entry point for a system-contract payload.
type entry struct {
	c     *contract
	actor *common.Address // msg.sender the system contract will see, nil when no native action can result
}

func e18(n int64) *big.Int { return new(big.Int).Mul(big.NewInt(n), big.NewInt(1e18)) }

func newWorld(r *core.Run, hid string, rng *rand.Rand) *world {
	w := &world{r: r, hid: hid, rng: rng, nextPID: 1}
	w.m = &evmModel{contracts: map[common.Address]*contract{}, calls: map[string]*sysCall{}}
	var accs []*core.Account
	for i := 0; i < 5; i++ {
		a := core.NewAccount(fmt.Sprintf("c17/%s/eoa%d", hid, i))
		accs = append(accs, a)
		w.eoas = append(w.eoas, a)
	}
	w.dep = core.NewAccount("c17/" + hid + "/deployer")
	w.fund = core.NewAccount("c17/" + hid + "/funder")
	w.dep2 = core.NewAccount("c17/" + hid + "/deployer2")
	accs = append(accs, w.dep, w.fund, w.dep2)
	w.now = time.Date(2022, 1, 2, 0, 0, 0, 0, time.UTC)
	cfg := core.NodeConfig{
		ChainID: "teleport_9000-1", XIBCName: "teleport", NumVals: 3, ValPowers: []int64{100, 60, 40},
		Accounts: accs, GenesisTime: w.now,
		MutateGenesis: func(tp *app.Teleport, gs simapp.GenesisState) {
			// signing infos, so that blocks can carry LastCommitInfo votes and evidence
			var sg stakingtypes.GenesisState
			tp.AppCodec().MustUnmarshalJSON(gs[stakingtypes.ModuleName], &sg)
			sl := slashingtypes.DefaultGenesisState()
			for _, v := range sg.Validators {
				ca, err := v.GetConsAddr()
				if err != nil {
					panic(err)
				}
				sl.SigningInfos = append(sl.SigningInfos, slashingtypes.SigningInfo{
					Address:              ca.String(),
					ValidatorSigningInfo: slashingtypes.NewValidatorSigningInfo(ca, 0, 0, time.Unix(0, 0).UTC(), false, 0),
				})
			}
			gs[slashingtypes.ModuleName] = tp.AppCodec().MustMarshalJSON(sl)
		},
	}
	w.n = core.NewNode(cfg)
	for _, v := range w.n.Vals.Validators {
		w.vals = append(w.vals, sdk.ValAddress(v.Address).String())
	}
	w.feeColl = authtypes.NewModuleAddress(authtypes.FeeCollectorName)

	w.begin(nil)
	w.minDeposit = w.n.App.GovKeeper.GetDepositParams(w.n.Ctx()).MinDeposit.AmountOf(core.BondDenom)
	w.staking = &contract{name: "Staking", addr: stakingAddr, kind: cSys}
	w.gov = &contract{name: "Gov", addr: govAddr, kind: cSys}
	w.m.contracts[stakingAddr] = w.staking
	w.m.contracts[govAddr] = w.gov

	fwd := func(name string, kind core.CallKind, target *contract, bubble bool) *contract {
		c := &contract{name: name, kind: cFwd, call: kind, target: target, bubble: bubble}
		w.deploy(c, counterForwarder(kind, target.addr, bubble), e18(1000))
		return c
	}
	ad := func(c *contract) *common.Address { a := c.addr; return &a }
	sF1 := fwd("sF1:call>staking", core.KindCall, w.staking, true)
	sF2 := fwd("sF2:trycall>staking", core.KindCall, w.staking, false)
	sF3 := fwd("sF3:delegatecall>staking", core.KindDelegateCall, w.staking, true)
	sF4 := fwd("sF4:call>sF1", core.KindCall, sF1, true)
	sF5 := fwd("sF5:trystaticcall>staking", core.KindStaticCall, w.staking, false)
	sF6 := fwd("sF6:delegatecall>sF1", core.KindDelegateCall, sF1, true)
	sF7 := fwd("sF7:trycall>sF3", core.KindCall, sF3, false)
	sF8 := fwd("sF8:trystaticcall>sF1", core.KindStaticCall, sF1, false)
	w.stEntries = []entry{{sF1, ad(sF1)}, {sF2, ad(sF2)}, {sF3, nil}, {sF4, ad(sF1)}, {sF5, nil}, {sF6, ad(sF6)}, {sF7, nil}, {sF8, nil}}
	gF1 := fwd("gF1:call>gov", core.KindCall, w.gov, true)
	gF2 := fwd("gF2:trycall>gov", core.KindCall, w.gov, false)
	gF3 := fwd("gF3:delegatecall>gov", core.KindDelegateCall, w.gov, true)
	gF4 := fwd("gF4:trycall>gF1", core.KindCall, gF1, false)
	gF6 := fwd("gF6:delegatecall>gF1", core.KindDelegateCall, gF1, true)
	gF5 := fwd("gF5:trystaticcall>gov", core.KindStaticCall, w.gov, false)
	w.govEntries = []entry{{gF1, ad(gF1)}, {gF2, ad(gF2)}, {gF3, nil}, {gF4, ad(gF1)}, {gF6, ad(gF6)}, {gF5, nil}}
	w.proxy = &contract{name: "proxy", kind: cProxy}
	w.deploy(w.proxy, proxyCode(), e18(1000))
	for _, a := range w.eoas {
		w.actors = append(w.actors, a.Eth)
	}
	w.actors = append(w.actors, sF1.addr, sF2.addr, sF6.addr, w.proxy.addr)
	return w
}

// deploy installs runtime code (world construction, not judged) and funds the contract.
func (w *world) deploy(c *contract, runtime []byte, funds *big.Int) {
	addr, err := w.n.DeployRuntime(w.dep.Eth, runtime)
	if err != nil {
		panic(fmt.Sprintf("deploy %s: %v", c.name, err))
	}
	c.addr = addr
	w.m.contracts[addr] = c
	if funds != nil && funds.Sign() > 0 {
		w.fundAddr(addr, funds)
	}
}

func (w *world) fundAddr(addr common.Address, amt *big.Int) {
	err := w.n.App.BankKeeper.SendCoins(w.n.Ctx(), w.fund.Acc, sdk.AccAddress(addr.Bytes()), sdk.NewCoins(sdk.NewCoin(core.BondDenom, sdk.NewIntFromBigInt(amt))))
	if err != nil {
		panic(err)
	}
}

// begin starts the next block at w.now with votes of the validators bonded at
// the end of the previous block, and optional double-sign evidence.
func (w *world) begin(ev []abci.Evidence) {
	n := w.n
	if n.InBlock {
		panic("begin while in block")
	}
	rctx := n.Ctx()
	var votes []abci.VoteInfo
	if n.App.LastBlockHeight() >= 1 {
		for _, v := range n.App.StakingKeeper.GetLastValidators(rctx) {
			ca, err := v.GetConsAddr()
			if err != nil {
				panic(err)
			}
			votes = append(votes, abci.VoteInfo{
				Validator:       abci.Validator{Address: ca.Bytes(), Power: n.App.StakingKeeper.GetLastValidatorPower(rctx, v.GetOperator())},
				SignedLastBlock: true,
			})
		}
	} else {
		for _, v := range n.Vals.Validators {
			votes = append(votes, abci.VoteInfo{Validator: abci.Validator{Address: v.Address, Power: v.VotingPower}, SignedLastBlock: true})
		}
	}
	// the proposer comes from the set in force: a validator that lost all its delegations leaves the set (and is removed
	// from the store once unbonded), a real chain would not let it propose any more
	if w.proposer == nil {
		w.proposer = n.Vals.Proposer.Address
	}
	if n.App.LastBlockHeight() >= 1 {
		last := n.App.StakingKeeper.GetLastValidators(rctx)
		still := false
		for _, v := range last {
			if ca, err := v.GetConsAddr(); err == nil && bytes.Equal(ca.Bytes(), w.proposer) {
				still = true
			}
		}
		if !still && len(last) > 0 {
			ca, _ := last[0].GetConsAddr()
			w.proposer = ca.Bytes()
			w.r.Count("proposer_left_the_validator_set_and_was_replaced", 1)
		}
	}
	h := n.App.LastBlockHeight() + 1
	n.Header = tmproto.Header{
		Version: tmprotoversion.Consensus{Block: version.BlockProtocol, App: 2},
		ChainID: n.ChainID, Height: h, Time: w.now.UTC(), AppHash: n.App.LastCommitID().Hash,
		ValidatorsHash: n.Vals.Hash(), NextValidatorsHash: n.Vals.Hash(), ProposerAddress: w.proposer,
	}
	n.App.BeginBlock(abci.RequestBeginBlock{Header: n.Header, LastCommitInfo: abci.LastCommitInfo{Votes: votes}, ByzantineValidators: ev})
	n.InBlock = true
	n.Blocks[h] = core.BlockRec{Time: n.Header.Time, AppHash: n.Header.AppHash}
}

// ---------------------------------------------------------------- generators

func (w *world) reg(c *sysCall) *sysCall {
	c.pack()
	w.m.calls[string(c.data)] = c
	return c
}

func (w *world) pick(n int) int        { return w.rng.Intn(n) }
func (w *world) chance(p float64) bool { return w.rng.Float64() < p }

func randBig(r *rand.Rand, max *big.Int) *big.Int {
	if max.Sign() <= 0 {
		return big.NewInt(0)
	}
	return new(big.Int).Rand(r, max)
}

var (
	two255 = new(big.Int).Lsh(big.NewInt(1), 255)
	max256 = new(big.Int).Sub(new(big.Int).Lsh(big.NewInt(1), 256), big.NewInt(1))
)

func (w *world) hugeAmount() *big.Int {
	switch w.pick(4) {
	case 0:
		return new(big.Int).Set(two255)
	case 1:
		return new(big.Int).Set(max256)
	case 2:
		return new(big.Int).Sub(two255, big.NewInt(1))
	}
	return new(big.Int).Add(two255, randBig(w.rng, two255))
}

func (w *world) goodVal() string { return w.vals[w.pick(len(w.vals))] }

func (w *world) badVal() string {
	switch w.pick(8) {
	case 0: // well-formed operator address that is not a validator
		b := make([]byte, 20)
		w.rng.Read(b)
		return sdk.ValAddress(b).String()
	case 1: // account prefix instead of operator prefix
		va, _ := sdk.ValAddressFromBech32(w.goodVal())
		return sdk.AccAddress(va).String()
	case 2:
		return ""
	case 3:
		return core.GenUTF8(w.rng, 40)
	case 4:
		return w.goodVal() + " "
	case 5:
		va, _ := sdk.ValAddressFromBech32(w.goodVal())
		return common.BytesToAddress(va).Hex()
	case 6: // all upper case is valid bech32
		s := w.goodVal()
		up := []byte(s)
		for i, c := range up {
			if c >= 'a' && c <= 'z' {
				up[i] = c - 32
			}
		}
		return string(up)
	}
	s := []byte(w.goodVal())
	s[len(s)-1-w.pick(6)] ^= 1 // checksum failure
	return string(s)
}

// genStaking draws a staking call for the given actor. local holds what the
// same actor delegated earlier in the same transaction.
func (w *world) genStaking(actor common.Address, local map[string]*big.Int, hostile bool) *sysCall {
	ctx := w.n.Ctx()
	acc := sdk.AccAddress(actor.Bytes())
	bal := w.n.App.BankKeeper.GetBalance(ctx, acc, core.BondDenom).Amount.BigInt()
	type held struct {
		val string
		amt *big.Int
	}
	var hs []held
	for _, d := range w.n.App.StakingKeeper.GetDelegatorDelegations(ctx, acc, 20) {
		v, ok := w.n.App.StakingKeeper.GetValidator(ctx, d.GetValidatorAddr())
		if !ok {
			continue
		}
		hs = append(hs, held{d.ValidatorAddress, v.TokensFromShares(d.Shares).TruncateInt().BigInt()})
	}
	for _, v := range w.vals {
		if a, ok := local[v]; ok {
			hs = append(hs, held{v, a})
		}
	}
	c := &sysCall{Module: "staking"}
	x := w.pick(100)
	if len(hs) == 0 && x >= 10 {
		x = 0 // nothing held: mostly delegate
	}
	switch {
	case x < 40:
		c.Kind = "delegate"
	case x < 62:
		c.Kind = "undelegate"
	case x < 82:
		c.Kind = "redelegate"
	default:
		c.Kind = "withdraw"
	}
	var h *held
	if len(hs) > 0 && w.chance(0.85) {
		h = &hs[w.pick(len(hs))]
	}
	switch c.Kind {
	case "delegate":
		c.Val = w.goodVal()
		// amounts on both sides of 2^64 (1.8e19) and up to 1e24
		lim := []*big.Int{e18(2), e18(2), e18(50), e18(1000), e18(1000000)}[w.pick(5)]
		if bal.Cmp(lim) < 0 {
			lim = bal
		}
		c.Amount = new(big.Int).Add(randBig(w.rng, lim), big.NewInt(1))
		if w.chance(0.1) {
			c.Amount = big.NewInt(int64(1 + w.pick(1000)))
		}
		if local != nil && c.Amount.Cmp(bal) <= 0 {
			local[c.Val] = new(big.Int).Add(c.Amount, zeroIfNil(local[c.Val]))
		}
	case "undelegate", "redelegate":
		if h != nil {
			c.Val = h.val
			switch w.pick(4) {
			case 0:
				c.Amount = new(big.Int).Set(h.amt)
			case 1:
				c.Amount = new(big.Int).Rsh(h.amt, 1)
			case 2:
				c.Amount = big.NewInt(1)
			default:
				c.Amount = new(big.Int).Add(randBig(w.rng, h.amt), big.NewInt(1))
			}
			if c.Amount.Sign() == 0 {
				c.Amount = big.NewInt(1)
			}
		} else {
			c.Val = w.goodVal()
			c.Amount = new(big.Int).Add(randBig(w.rng, e18(1)), big.NewInt(1))
		}
		if c.Kind == "redelegate" {
			c.Val2 = w.goodVal()
			if c.Val2 == c.Val && w.chance(0.8) {
				c.Val2 = w.goodVal()
			}
		}
	case "withdraw":
		if h != nil {
			c.Val = h.val
		} else {
			c.Val = w.goodVal()
		}
	}
	if hostile {
		switch w.pick(5) {
		case 0, 1:
			if w.chance(0.5) || c.Kind != "redelegate" {
				c.Val = w.badVal()
			} else {
				c.Val2 = w.badVal()
			}
		case 2:
			if c.Amount != nil {
				c.Amount = w.hugeAmount()
			} else {
				c.Val = w.badVal()
			}
		case 3:
			if c.Amount != nil {
				if c.Kind == "delegate" {
					c.Amount = new(big.Int).Add(bal, big.NewInt(int64(1+w.pick(3))))
				} else if h != nil {
					c.Amount = new(big.Int).Add(h.amt, big.NewInt(int64(1+w.pick(3))))
				} else {
					c.Amount = w.hugeAmount()
				}
			} else {
				c.Val = w.badVal()
			}
		default:
			if c.Amount != nil {
				c.Amount = big.NewInt(0)
			} else {
				c.Val = w.badVal()
			}
		}
	}
	return w.reg(c)
}

func zeroIfNil(b *big.Int) *big.Int {
	if b == nil {
		return big.NewInt(0)
	}
	return b
}

func (w *world) openProposals() []*proposal {
	var out []*proposal
	for _, p := range w.props {
		if p.voting && !p.done && w.now.Before(p.votingEnd) {
			out = append(out, p)
		}
	}
	return out
}

func (w *world) genGov(hostile bool) *sysCall {
	c := &sysCall{Module: "gov"}
	open := w.openProposals()
	if len(open) > 0 {
		c.PID = open[w.pick(len(open))].id
	} else {
		hostile = hostile || w.chance(0.5)
		c.PID = 1
	}
	weighted := w.chance(0.4)
	if weighted {
		c.Kind = "voteWeighted"
		k := 1 + w.pick(4)
		perm := w.rng.Perm(4)
		left := uint64(100)
		for i := 0; i < k; i++ {
			wt := left
			if i < k-1 {
				wt = 1 + uint64(w.pick(int(left)-(k-1-i)))
			}
			left -= wt
			c.Opts = append(c.Opts, OptionWeight{Option: uint32(perm[i] + 1), Weight: wt})
		}
	} else {
		c.Kind = "vote"
		c.Option = uint32(1 + w.pick(4))
	}
	if hostile {
		switch w.pick(3) {
		case 0: // closed, unknown or deposit-period proposal
			var ids []uint64
			for _, p := range w.props {
				if p.done || !p.voting {
					ids = append(ids, p.id)
				}
			}
			ids = append(ids, 0, w.nextPID+uint64(w.pick(5)), math.MaxUint64, w.nextPID)
			c.PID = ids[w.pick(len(ids))]
		default:
			if !weighted {
				c.Option = []uint32{0, 5, 7, 1 << 31, math.MaxUint32, 1<<31 + 1, 257, 65538, 1<<24 + 3}[w.pick(9)]
			} else {
				switch w.pick(9) {
				case 7, 8:
					// exactly one option whose weight is not the whole vote
					c.Opts = c.Opts[:1]
					c.Opts[0].Weight = []uint64{30, 0, 250, 99, 101, 1}[w.pick(6)]
				case 0:
					c.Opts = nil
				case 1:
					c.Opts[0].Weight++
				case 2:
					c.Opts[0].Weight--
				case 3:
					c.Opts = append(c.Opts, c.Opts[0])
					c.Opts[0].Weight = 0
				case 4:
					c.Opts[w.pick(len(c.Opts))].Weight = math.MaxUint64 - uint64(w.pick(200))
				case 5:
					c.Opts[w.pick(len(c.Opts))].Option = []uint32{0, 5, 1 << 31, math.MaxUint32, 260, 65537}[w.pick(6)]
				default:
					// weights that sum to 100 only modulo 2^64
					if len(c.Opts) >= 2 {
						c.Opts[0].Weight = math.MaxUint64 - 10
						c.Opts[1].Weight = 111
					} else {
						c.Opts[0].Weight = 0
					}
				}
			}
		}
	}
	return w.reg(c)
}

func (w *world) genSys(actor common.Address, local map[string]*big.Int, hostile bool) *sysCall {
	pg := 0.38
	if len(w.openProposals()) == 0 {
		pg = 0.08
	}
	if !w.chance(pg) {
		return w.genStaking(actor, local, hostile)
	}
	return w.genGov(hostile)
}

// lookalike deploys an emitter that logs, from its own address, exactly what
// the system contract would log for a call of `victim`.
func (w *world) lookalike() (*contract, *sysCall, common.Address) {
	victim := w.actors[w.pick(len(w.actors))]
	sc := w.genSys(victim, nil, false)
	topic, data := sc.event(victim)
	c := &contract{name: "emitter", kind: cEmitter, topic: topic, data: data}
	if w.chance(0.3) {
		// the same data in a log without any topic (LOG0, an anonymous event): nothing for any hook to act on, and
		// nothing that may keep the hooks from seeing the logs that follow it in the same transaction
		c.anon = true
		w.deploy(c, core.Emitter(nil, data), nil)
		w.r.Count("topicless_emitters_deployed", 1)
		return c, sc, victim
	}
	w.deploy(c, core.Emitter([]common.Hash{topic}, data), nil)
	return c, sc, victim
}

// multicall builds a fresh multicall contract model + runtime whose system
// calls will be seen as coming from `actor`.
func (w *world) multicall(actor common.Address, txSender common.Address, allowFail bool, minSys int) (*contract, []byte, string) {
	k := 1 + w.pick(5)
	local := map[string]*big.Int{}
	var steps []mstep
	desc := ""
	statics := 0
	nsys := 0
	failAt := -1
	if allowFail && w.chance(0.3) {
		failAt = w.pick(k)
	}
	for i := 0; i < k; i++ {
		x := w.pick(100)
		if nsys < minSys && i >= k-minSys {
			x = 0
		}
		var s mstep
		switch {
		case x < 55 || i == failAt:
			sc := w.genSys(actor, local, i == failAt)
			s = mstep{kind: core.KindCall, target: w.m.contracts[sc.target()], data: sc.data, mustOK: w.chance(0.5)}
			desc += "call:" + sc.String() + ";"
			nsys++
		case x < 65:
			sc := w.genSys(txSender, nil, false)
			s = mstep{kind: core.KindDelegateCall, target: w.m.contracts[sc.target()], data: sc.data}
			desc += "delegatecall:" + sc.String() + ";"
		case x < 80:
			em, sc, victim := w.lookalike()
			s = mstep{kind: core.KindCall, target: em}
			if w.chance(0.3) {
				s.kind = core.KindDelegateCall
			}
			desc += fmt.Sprintf("emit[%s]:%s as %s;", s.kind, sc.String(), victim.Hex()[:10])
		case x < 86:
			rv := w.reverter()
			s = mstep{kind: core.KindCall, target: rv}
			desc += "reverter;"
		case x < 92 && statics == 0:
			sc := w.genSys(actor, nil, false)
			s = mstep{kind: core.KindStaticCall, target: w.m.contracts[sc.target()], data: sc.data}
			statics++
			desc += "staticcall:" + sc.String() + ";"
		case x < 96 && allowFail:
			rv := w.reverter()
			s = mstep{kind: core.KindCall, target: rv, mustOK: true}
			desc += "reverter!;"
		default:
			// plain call to an account without code
			s = mstep{kind: core.KindCall, target: nil}
			desc += "noop;"
		}
		if w.chance(0.6) {
			w.slot++
			s.thenStore = w.slot
			desc += fmt.Sprintf("store%d;", s.thenStore)
		}
		steps = append(steps, s)
	}
	return &contract{name: "multicall", kind: cMulti, steps: steps}, core.Multicall(w.coreSteps(steps)), desc
}

func (w *world) reverter() *contract {
	if w.rev == nil {
		w.rev = &contract{name: "reverter", kind: cReverter}
		w.deploy(w.rev, core.Reverter(), nil)
	}
	return w.rev
}

// nextAddr predicts the address of the next contract created by acct.
func (w *world) nextAddr(acct common.Address) common.Address {
	return crypto.CreateAddress(acct, w.n.App.EvmKeeper.GetNonce(w.n.Ctx(), acct))
}

// freshMulticall deploys a funded multicall contract whose system calls are
// made in its own name.
func (w *world) freshMulticall(txSender common.Address, allowFail bool, minSys int, forceRevert bool) (*contract, string) {
	addr := w.nextAddr(w.dep2.Eth)
	w.fundAddr(addr, e18(100))
	mc, code, desc := w.multicall(addr, txSender, allowFail, minSys)
	if forceRevert {
		rv := w.reverter()
		mc.steps = append(mc.steps, mstep{kind: core.KindCall, target: rv, mustOK: true})
		code = core.Multicall(w.coreSteps(mc.steps))
		desc += "reverter!;"
	}
	got, err := w.n.DeployRuntime(w.dep2.Eth, code)
	if err != nil || got != addr {
		panic(fmt.Sprintf("multicall deploy: %v %s %s", err, got, addr))
	}
	mc.addr = addr
	w.m.contracts[addr] = mc
	return mc, desc
}

func (w *world) coreSteps(steps []mstep) []core.Step {
	var cs []core.Step
	for _, s := range steps {
		t := w.eoas[0].Eth
		if s.target != nil {
			t = s.target.addr
		}
		cs = append(cs, core.Step{Kind: s.kind, Target: t, Data: s.data, MustOK: s.mustOK, ThenStore: s.thenStore})
	}
	return cs
}

// txPlan is one judged transaction.
type txPlan struct {
	shape   string
	from    *core.Account
	to      *common.Address
	value   *big.Int
	data    []byte
	entry   *contract // code executed by the top-level call (nil: plain account)
	create  *contract // contract creation: the constructor is a multicall
	created common.Address
	desc    string
}

func (w *world) genTx() *txPlan {
	from := w.eoas[w.pick(len(w.eoas))]
	p := &txPlan{from: from}
	hostile := w.chance(0.22)
	x := w.pick(100)
	switch {
	case x < 20: // EOA -> system contract
		sc := w.genSys(from.Eth, nil, hostile)
		t := sc.target()
		p.shape, p.to, p.data, p.entry, p.desc = "direct", &t, sc.data, w.m.contracts[t], sc.String()
	case x < 45: // EOA -> persistent forwarder chain -> system contract
		var es []entry
		var sc *sysCall
		st := w.chance(0.62) || (len(w.openProposals()) == 0 && w.chance(0.8))
		if st {
			es = w.stEntries
		} else {
			es = w.govEntries
		}
		e := es[w.pick(len(es))]
		actor := from.Eth
		if e.actor != nil {
			actor = *e.actor
		}
		if st {
			sc = w.genStaking(actor, nil, hostile)
		} else {
			sc = w.genGov(hostile)
		}
		p.shape, p.to, p.data, p.entry, p.desc = "fwd/"+e.c.name, &e.c.addr, sc.data, e.c, sc.String()
	case x < 63: // EOA -> fresh multicall
		mc, desc := w.freshMulticall(from.Eth, true, 0, false)
		p.shape, p.to, p.entry, p.desc = "multicall", &mc.addr, mc, desc
	case x < 73: // EOA -> proxy -(delegatecall)-> multicall code: calls are made in the proxy's name
		mc, code, desc := w.multicall(w.proxy.addr, from.Eth, true, 1)
		w.deploy(mc, code, nil)
		p.shape, p.to, p.entry, p.desc = "proxy", &w.proxy.addr, w.proxy, desc
		p.data = append(common.LeftPadBytes(mc.addr.Bytes(), 32), 0xca, 0xfe)
	case x < 82: // try-like: outer swallows the revert of an inner frame that already called the system contract
		inner, desc := w.freshMulticall(from.Eth, false, 1, true)
		outer := &contract{name: "try-outer", kind: cFwd, call: core.KindCall, target: inner, bubble: false}
		w.deploy(outer, counterForwarder(core.KindCall, inner.addr, false), e18(10))
		p.shape, p.to, p.entry, p.desc = "try-swallow", &outer.addr, outer, desc
	case x < 90: // look-alike emitter called directly
		em, sc, victim := w.lookalike()
		p.shape, p.to, p.entry = "emitter", &em.addr, em
		p.desc = fmt.Sprintf("%s as %s", sc.String(), victim.Hex()[:10])
	case x < 96: // contract creation whose constructor calls the system contracts
		addr := w.nextAddr(from.Eth)
		if w.chance(0.6) {
			w.fundAddr(addr, e18(50))
		}
		mc, code, desc := w.multicall(addr, from.Eth, true, 1)
		mc.addr = addr
		p.shape, p.create, p.created, p.data, p.desc = "constructor", mc, addr, code, desc
	case x < 98: // value sent to a non-payable function
		sc := w.genSys(from.Eth, nil, false)
		t := sc.target()
		p.shape, p.to, p.data, p.entry, p.desc, p.value = "payable", &t, sc.data, w.m.contracts[t], sc.String(), big.NewInt(int64(1+w.pick(1000)))
	default: // unknown selector / arguments missing
		sc := w.genSys(from.Eth, nil, false)
		t := sc.target()
		d := append([]byte{}, sc.data[:4]...)
		if w.chance(0.5) {
			d = []byte{0xde, 0xad, 0xbe, 0xef}
		}
		p.shape, p.to, p.data, p.entry, p.desc = "badcalldata", &t, d, w.m.contracts[t], fmt.Sprintf("%x", d)
	}
	return p
}

// ---------------------------------------------------------------- block-level world operations

// submitProposal delivers a real MsgSubmitProposal (world construction).
func (w *world) submitProposal(enough bool) {
	from := w.eoas[w.pick(len(w.eoas))]
	dep := w.minDeposit
	if !enough {
		dep = sdk.NewInt(int64(1000 + w.pick(100000)))
	} else {
		dep = dep.AddRaw(int64(w.pick(1000)))
	}
	if w.n.App.BankKeeper.GetBalance(w.n.Ctx(), from.Acc, core.BondDenom).Amount.LT(dep) {
		w.fundAddr(from.Eth, new(big.Int).Mul(dep.BigInt(), big.NewInt(3))) // the account delegated everything it had
	}
	msg, err := govtypes.NewMsgSubmitProposal(govtypes.NewTextProposal(fmt.Sprintf("p%d", w.nextPID), "text"), sdk.NewCoins(sdk.NewCoin(core.BondDenom, dep)), from.Acc)
	if err != nil {
		panic(err)
	}
	tx, err := w.n.CosmosTx(from, 2_000_000, msg)
	if err != nil {
		panic(err)
	}
	res := w.n.Deliver(tx)
	if res.Code != 0 {
		panic("submit proposal failed: " + res.Log)
	}
	dp := w.n.App.GovKeeper.GetDepositParams(w.n.Ctx())
	vp := w.n.App.GovKeeper.GetVotingParams(w.n.Ctx())
	pr := &proposal{id: w.nextPID, deposit: dep, voting: enough, depositEnd: w.now.Add(dp.MaxDepositPeriod), votingEnd: w.now.Add(vp.VotingPeriod)}
	w.nextPID++
	if _, ok := w.n.App.GovKeeper.GetProposal(w.n.Ctx(), pr.id); !ok {
		panic("proposal id bookkeeping is off")
	}
	w.props = append(w.props, pr)
	w.r.Count("setup_proposals", 1)
}

// feeIncome moves coins to the fee collector (stands for transaction fees) so
// that the next block distributes rewards.
func (w *world) feeIncome() {
	amt := new(big.Int).Add(randBig(w.rng, e18(3)), big.NewInt(1))
	err := w.n.App.BankKeeper.SendCoinsFromAccountToModule(w.n.Ctx(), w.fund.Acc, authtypes.FeeCollectorName, sdk.NewCoins(sdk.NewCoin(core.BondDenom, sdk.NewIntFromBigInt(amt))))
	if err != nil {
		panic(err)
	}
}
