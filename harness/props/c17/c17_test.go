// Package c17 monitors C17: staking / governance actions triggered through the
// Staking and Gov system contracts act for the caller only, with exactly the
// passed arguments, once per event emitted by the system contract address
// itself, atomically with the EVM transaction; "burned" coins land in the fee
// collector and leave the total supply unchanged.
package c17

import (
	"bytes"
	"fmt"
	"math"
	"math/big"
	"os"
	"sort"
	"strings"
	"testing"
	"time"

	abci "github.com/tendermint/tendermint/abci/types"

	sdk "github.com/cosmos/cosmos-sdk/types"
	distrtypes "github.com/cosmos/cosmos-sdk/x/distribution/types"
	govtypes "github.com/cosmos/cosmos-sdk/x/gov/types"
	stakingtypes "github.com/cosmos/cosmos-sdk/x/staking/types"
	"github.com/ethereum/go-ethereum/common"
	ethtypes "github.com/ethereum/go-ethereum/core/types"

	"verif/harness/core"
)

// nativeStores are compared between the EVM route and the twin branch on which
// the equivalent native messages were executed.
var nativeStores = []string{"staking", "distribution", "gov", "bank", "slashing", "params", "authz", "feegrant", "evidence", "aggregate"}
var allStores = append(append([]string{}, nativeStores...), "evm")

var debug = os.Getenv("C17_DEBUG") != ""

func TestC17(t *testing.T) {
	r := core.NewRun(t, "C17")
	r.Rule = "seeded histories on a 3-validator chain (blocks carry votes, fee income, proposals, double-sign evidence, time jumps past voting/unbonding periods); every judged case is one signed MsgEthereumTx delivered through DeliverTx whose call tree (direct, CALL/DELEGATECALL/STATICCALL forwarders, nested, try-like swallowed reverts, multicalls with storage writes, constructor, proxy, look-alike emitters, failing native actions after state changes) is generated together with a reference model of the surviving logs; non-trivial = transaction passed the ante handler and was executed; distinct = hash of shape + calls + arguments + expected class"
	r.Assume("the twin branch executes cosmos-sdk's own Msg handlers (MsgDelegate/MsgUndelegate/MsgBeginRedelegate/MsgWithdrawDelegatorReward/MsgVote/MsgVoteWeighted) as the definition of the native action")
	r.Assume("gas price 0 and value 0 on judged transactions, so the EVM route has no bank effect of its own")
	defer r.Finish()

	histories, perHistory := r.N(12, 80), r.N(120, 250)
	r.MinNontrivial(r.N(600, 8000))
	for h := 0; h < histories; h++ {
		hid := fmt.Sprintf("h%d", h)
		if !r.Want(hid) {
			continue
		}
		err, panicked := core.Catch(func() error { runHistory(r, hid, perHistory); return nil })
		if panicked {
			r.Inconclusive("history %s: harness panic: %v", hid, err)
		}
	}
}

func runHistory(r *core.Run, hid string, nTx int) {
	w := newWorld(r, hid, r.Rng(hid))
	if os.Getenv("C17_DEBUG") != "" {
		defer func() {
			ctx := w.n.Ctx()
			for _, v := range w.n.App.StakingKeeper.GetAllValidators(ctx) {
				ca, _ := v.GetConsAddr()
				fmt.Printf("DBG validator %s cons=%s status=%s tokens=%s shares=%s jailed=%v\n", v.OperatorAddress, ca, v.Status, v.Tokens, v.DelegatorShares, v.Jailed)
			}
			fmt.Printf("DBG height=%d now=%s txs=%d proposer=%s\n", w.n.Header.Height, w.now, w.txCount, sdk.ConsAddress(w.proposer))
		}()
	}
	for w.txCount < nTx && !w.dead {
		w.block()
	}
	if w.n.InBlock {
		w.n.End()
	}
}

// ---------------------------------------------------------------- native twin

type action struct {
	call  *sysCall
	actor common.Address
}

// msg builds the native message equivalent to the action; an error means the
// passed values have no native representation (the action must fail).
func (a action) msg() (sdk.Msg, error) {
	who := sdk.AccAddress(a.actor.Bytes()).String()
	c := a.call
	coin := func() sdk.Coin { return sdk.Coin{Denom: core.BondDenom, Amount: sdk.NewIntFromBigInt(c.Amount)} }
	switch c.Kind {
	case "delegate":
		return &stakingtypes.MsgDelegate{DelegatorAddress: who, ValidatorAddress: c.Val, Amount: coin()}, nil
	case "undelegate":
		return &stakingtypes.MsgUndelegate{DelegatorAddress: who, ValidatorAddress: c.Val, Amount: coin()}, nil
	case "redelegate":
		return &stakingtypes.MsgBeginRedelegate{DelegatorAddress: who, ValidatorSrcAddress: c.Val, ValidatorDstAddress: c.Val2, Amount: coin()}, nil
	case "withdraw":
		return &distrtypes.MsgWithdrawDelegatorReward{DelegatorAddress: who, ValidatorAddress: c.Val}, nil
	case "vote":
		if c.Option > math.MaxInt32 {
			return nil, fmt.Errorf("vote option %d is not a VoteOption", c.Option)
		}
		return &govtypes.MsgVote{ProposalId: c.PID, Voter: who, Option: govtypes.VoteOption(c.Option)}, nil
	case "voteWeighted":
		var opts []govtypes.WeightedVoteOption
		for _, o := range c.Opts {
			if o.Option > math.MaxInt32 {
				return nil, fmt.Errorf("vote option %d is not a VoteOption", o.Option)
			}
			// Gov.sol: weight has 2 decimal places, 20 = 20%
			opts = append(opts, govtypes.WeightedVoteOption{Option: govtypes.VoteOption(o.Option), Weight: sdk.NewDecFromBigIntWithPrec(new(big.Int).SetUint64(o.Weight), 2)})
		}
		return &govtypes.MsgVoteWeighted{ProposalId: c.PID, Voter: who, Options: opts}, nil
	}
	return nil, fmt.Errorf("unknown kind")
}

// native executes the action's native message on ctx the way a native
// transaction would (ValidateBasic, then the module's Msg service).
func (w *world) native(ctx sdk.Context, a action) error {
	err, _ := core.Catch(func() error {
		msg, err := a.msg()
		if err != nil {
			return err
		}
		if err := msg.ValidateBasic(); err != nil {
			return err
		}
		h := w.n.App.MsgServiceRouter().Handler(msg)
		if h == nil {
			return fmt.Errorf("no handler")
		}
		_, err = h(ctx, msg)
		return err
	})
	return err
}

// ---------------------------------------------------------------- judging one transaction

func storesOf(d []core.DiffEntry) string {
	set := map[string]bool{}
	for _, e := range d {
		set[e.Store] = true
	}
	var names []string
	for k := range set {
		names = append(names, k)
	}
	sort.Strings(names)
	return strings.Join(names, "+")
}

func kindsOf(acts []action) string {
	set := map[string]bool{}
	for _, a := range acts {
		set[a.call.Kind] = true
	}
	var names []string
	for k := range set {
		names = append(names, k)
	}
	sort.Strings(names)
	if len(names) == 0 {
		return "none"
	}
	return strings.Join(names, "+")
}

func shapeClass(s string) string {
	if i := strings.Index(s, "/"); i >= 0 {
		return s[:i]
	}
	return s
}

func sameLogs(model []mlog, got []*ethtypes.Log) bool {
	if len(model) != len(got) {
		return false
	}
	for i, l := range model {
		g := got[i]
		if l.anon {
			if g.Address != l.addr || len(g.Topics) != 0 || !bytes.Equal(g.Data, l.data) {
				return false
			}
			continue
		}
		if g.Address != l.addr || len(g.Topics) != 1 || g.Topics[0] != l.topic || !bytes.Equal(g.Data, l.data) {
			return false
		}
	}
	return true
}

func trunc(s string, n int) string {
	if len(s) > n {
		return s[:n] + "..."
	}
	return s
}

func (w *world) judge(p *txPlan) {
	n, r := w.n, w.r
	w.txCount++
	txBytes, err := n.EthTx(p.from, p.to, p.value, txGas, p.data)
	if err != nil {
		panic(err)
	}
	ctx := n.Ctx()
	pre := n.Snap(ctx, allStores...)
	preNonce := n.App.EvmKeeper.GetNonce(ctx, p.from.Eth)
	supplyPre := n.App.BankKeeper.GetSupply(ctx, core.BondDenom).Amount
	poolsPre := w.pools(ctx)
	distrAddr := n.App.AccountKeeper.GetModuleAddress(distrtypes.ModuleName)
	distrPre := n.App.BankKeeper.GetBalance(ctx, distrAddr, core.BondDenom).Amount

	// reference model of the EVM part: surviving logs and storage writes
	eff := &effects{}
	var evmOK bool
	switch {
	case p.create != nil:
		evmOK = w.m.exec(p.create, p.created, p.from.Eth, false, false, nil, eff)
	case p.entry == nil:
		evmOK = true
	default:
		evmOK = w.m.exec(p.entry, *p.to, p.from.Eth, false, p.value != nil && p.value.Sign() > 0, p.data, eff)
	}
	// expected native actions: one per log emitted by the system contract address itself,
	// attributed to the msg.sender of that call
	var acts []action
	lookalikes := 0
	for _, l := range eff.logs {
		if l.call != nil && l.addr == l.call.target() {
			acts = append(acts, action{l.call, l.sender})
		} else {
			lookalikes++
		}
	}
	// twin branch: the equivalent native messages on the same pre-state
	twinCtx, _ := ctx.CacheContext()
	var nativeErr error
	failKind := ""
	if evmOK {
		for _, a := range acts {
			if err := w.native(twinCtx, a); err != nil {
				nativeErr, failKind = err, a.call.Kind
				break
			}
		}
	}
	twin := n.Snap(twinCtx, nativeStores...)
	class := "ok"
	switch {
	case !evmOK:
		class = "evm-revert"
	case nativeErr != nil:
		class = "native-fail"
	}

	res := core.DecodeEthResult(n.Deliver(txBytes))
	pctx := n.Ctx()
	post := n.Snap(pctx, allStores...)
	postNonce := n.App.EvmKeeper.GetNonce(pctx, p.from.Eth)
	supplyPost := n.App.BankKeeper.GetSupply(pctx, core.BondDenom).Amount

	if debug {
		ne := ""
		if nativeErr != nil {
			ne = trunc(nativeErr.Error(), 120)
		}
		fmt.Printf("DBG %s tx%d h%d %s [%s] class=%s code=%d vmerr=%q nerr=%q\n", w.hid, w.txCount, n.Header.Height, p.shape, trunc(p.desc, 200), class, res.Code, res.VmError, ne)
	}
	sc := shapeClass(p.shape)
	key := fmt.Sprintf("%s|%s|%s", p.shape, p.desc, class)
	passedAnte := res.Code == 0 || postNonce == preNonce+1
	r.Eval(key, passedAnte)
	r.Count("tx_"+class, 1)
	r.Count("shape_"+sc, 1)
	r.Count("expected_native_actions", len(acts))
	r.Count("lookalike_logs", lookalikes)
	if postNonce == preNonce+1 {
		r.Count("nonce_bumped", 1)
	}
	if len(acts) == 0 && lookalikes > 0 && evmOK {
		r.Count("tx_only_lookalikes", 1)
	}
	detail := func(extra map[string]interface{}) map[string]interface{} {
		d := map[string]interface{}{
			"history": w.hid, "tx_index": w.txCount, "height": n.Header.Height, "shape": p.shape, "calls": p.desc, "from": p.from.Eth.Hex(),
			"expected_class": class, "code": res.Code, "vm_error": res.VmError, "log": trunc(res.Log, 300),
		}
		if nativeErr != nil {
			d["native_error"] = trunc(nativeErr.Error(), 300)
		}
		var as []string
		for _, a := range acts {
			as = append(as, a.actor.Hex()[:10]+":"+a.call.String())
		}
		d["expected_actions"] = as
		for k, v := range extra {
			d[k] = v
		}
		return d
	}
	if w.txCount <= 2 || (class == "native-fail" && w.txCount < 40) {
		r.Sample(detail(nil))
	}

	// total supply is never changed by a transaction
	if !supplyPre.Equal(supplyPost) {
		r.Violation(w.hid, "supply/changed/tx", detail(map[string]interface{}{"pre": supplyPre.String(), "post": supplyPost.String()}))
	}

	full := core.DiffSnap(pre, post)
	if class != "ok" {
		// MUST: the transaction is not successful and nothing but the sender's nonce changed
		if res.OK() {
			if class == "evm-revert" {
				r.Count("model_mismatch", 1) // the EVM model of the harness contracts is off; not judged
				return
			}
			r.Violation(w.hid, "atomic/native-failure-not-reverted/"+failKind, detail(map[string]interface{}{"diff": core.TrimDiff(full, 12)}))
			return
		}
		if len(full) > 0 {
			r.Violation(w.hid, "atomic/failed-tx-left-delta/"+class+"/"+storesOf(full), detail(map[string]interface{}{"diff": core.TrimDiff(full, 12)}))
			return
		}
		r.Count("reverted_clean", 1)
		if class == "native-fail" {
			r.Count("native_fail_"+failKind, 1)
			if len(eff.stores) > 0 {
				r.Count("native_fail_after_storage_write", 1)
			}
			if len(acts) > 1 {
				r.Count("native_fail_multi_action", 1)
			}
		}
		return
	}

	// class ok: MUST succeed and have exactly the native effect of the native messages
	if !res.OK() {
		if strings.Contains(res.Log, "out of gas") || strings.Contains(res.VmError, "out of gas") {
			r.Count("either_out_of_gas", 1)
			return
		}
		if len(acts) == 0 {
			r.Count("model_mismatch", 1) // no native action involved: pure EVM semantics, harness model off
			return
		}
		r.Violation(w.hid, "effect/valid-action-rejected/"+kindsOf(acts), detail(map[string]interface{}{"diff": core.TrimDiff(full, 12)}))
		return
	}
	if !sameLogs(eff.logs, res.Logs) {
		r.Count("model_mismatch", 1)
		return
	}
	for _, a := range acts {
		r.Count("native_ok_"+a.call.Kind, 1)
	}
	if len(acts) > 1 {
		r.Count("tx_multi_action_ok", 1)
	}
	var nd []core.DiffEntry
	for _, s := range nativeStores {
		nd = append(nd, core.Diff(s, twin.Stores[s], post.Stores[s])...)
	}
	if len(nd) > 0 {
		k := "effect/" + kindsOf(acts) + "/differs-from-native-message/" + storesOf(nd)
		if len(acts) == 0 {
			k = "lookalike/native-delta/" + sc + "/" + storesOf(nd)
		}
		r.Violation(w.hid, k, detail(map[string]interface{}{"diff_evm_route_vs_twin": core.TrimDiff(nd, 12)}))
		return
	}
	// attribution, stated directly: changed delegation / unbonding / redelegation records belong to expected actors
	if bad := w.foreignStakingKeys(pre, post, acts); bad != "" {
		r.Violation(w.hid, "attribution/staking-record-of-unexpected-account", detail(map[string]interface{}{"key": bad}))
		return
	}
	if msg := w.checkVotes(pctx, acts); msg != "" {
		r.Violation(w.hid, "attribution/vote-record-mismatch", detail(map[string]interface{}{"what": msg}))
		return
	}
	if msg := w.checkPools(poolsPre, w.pools(pctx), acts); msg != "" {
		r.Violation(w.hid, "effect/delegate/pool-delta-not-the-passed-amount", detail(map[string]interface{}{"what": msg}))
		return
	}
	// contract-visible state: exactly the surviving storage writes
	if msg := w.checkStorage(pre, post, eff, p); msg != "" {
		r.Count("model_mismatch_storage", 1)
		r.Violation(w.hid, "evmstate/unexpected-storage-delta", detail(map[string]interface{}{"what": msg}))
		return
	}
	if n.App.BankKeeper.GetBalance(pctx, distrAddr, core.BondDenom).Amount.LT(distrPre) {
		r.Count("tx_paying_out_rewards", 1)
	}
	if len(acts) == 0 {
		r.Count("no_action_clean", 1)
	} else {
		r.Count("effect_equal_to_native", 1)
	}
	w.noteVotes(pctx, acts)
}

// changedKeys lists the raw keys whose value differs between two dumps.
func changedKeys(a, b core.KV) []string {
	var out []string
	for k, v := range a {
		if w, ok := b[k]; !ok || !bytes.Equal(v, w) {
			out = append(out, k)
		}
	}
	for k := range b {
		if _, ok := a[k]; !ok {
			out = append(out, k)
		}
	}
	sort.Strings(out)
	return out
}

// pools returns bonded + not bonded pool balance.
func (w *world) pools(ctx sdk.Context) sdk.Int {
	k := w.n.App.StakingKeeper
	b := w.n.App.BankKeeper.GetBalance(ctx, k.GetBondedPool(ctx).GetAddress(), core.BondDenom).Amount
	nb := w.n.App.BankKeeper.GetBalance(ctx, k.GetNotBondedPool(ctx).GetAddress(), core.BondDenom).Amount
	return b.Add(nb)
}

// checkPools: when the staking actions of a transaction are only delegations
// (and reward withdrawals), the staking pools grow by exactly the passed amounts.
func (w *world) checkPools(pre, post sdk.Int, acts []action) string {
	sum := sdk.ZeroInt()
	for _, a := range acts {
		switch a.call.Kind {
		case "delegate":
			sum = sum.Add(sdk.NewIntFromBigInt(a.call.Amount))
		case "undelegate", "redelegate":
			return ""
		}
	}
	if !post.Sub(pre).Equal(sum) {
		return fmt.Sprintf("pools grew by %s, delegated %s", post.Sub(pre), sum)
	}
	return ""
}

// foreignStakingKeys returns a changed delegation-type key whose delegator is
// not an expected actor of a staking action.
func (w *world) foreignStakingKeys(pre, post *core.Snapshot, acts []action) string {
	ok := map[string]bool{}
	for _, a := range acts {
		if a.call.Module == "staking" {
			ok[string(a.actor.Bytes())] = true
		}
	}
	for _, raw := range changedKeys(pre.Stores["staking"], post.Stores["staking"]) {
		k := []byte(raw)
		if len(k) < 2 || (k[0] != 0x31 && k[0] != 0x32 && k[0] != 0x34) {
			continue
		}
		l := int(k[1])
		if len(k) < 2+l {
			continue
		}
		if !ok[string(k[2:2+l])] {
			return fmt.Sprintf("%x", k)
		}
	}
	return ""
}

// checkVotes: the stored vote of every (proposal, voter) touched by the
// transaction is the last one the voter passed.
func (w *world) checkVotes(ctx sdk.Context, acts []action) string {
	type pv struct {
		pid uint64
		who common.Address
	}
	last := map[pv]*sysCall{}
	for _, a := range acts {
		if a.call.Module == "gov" {
			last[pv{a.call.PID, a.actor}] = a.call
		}
	}
	for k, c := range last {
		v, found := w.n.App.GovKeeper.GetVote(ctx, k.pid, sdk.AccAddress(k.who.Bytes()))
		if !found {
			return fmt.Sprintf("no vote stored for proposal %d voter %s", k.pid, k.who.Hex())
		}
		var want []string
		if c.Kind == "vote" {
			want = []string{fmt.Sprintf("%d:%s", c.Option, sdk.OneDec())}
		} else {
			for _, o := range c.Opts {
				want = append(want, fmt.Sprintf("%d:%s", o.Option, sdk.NewDecWithPrec(int64(o.Weight), 2)))
			}
		}
		var got []string
		for _, o := range v.Options {
			got = append(got, fmt.Sprintf("%d:%s", int32(o.Option), o.Weight))
		}
		if strings.Join(want, ",") != strings.Join(got, ",") {
			return fmt.Sprintf("proposal %d voter %s: stored %v, passed %v", k.pid, k.who.Hex(), got, want)
		}
	}
	return ""
}

func (w *world) noteVotes(ctx sdk.Context, acts []action) {
	for _, a := range acts {
		if a.call.Module != "gov" {
			continue
		}
		for _, p := range w.props {
			if p.id == a.call.PID {
				p.voted = true
			}
		}
	}
}

// checkStorage compares the EVM store delta with the model's surviving writes.
func (w *world) checkStorage(pre, post *core.Snapshot, eff *effects, p *txPlan) string {
	type sk struct {
		addr common.Address
		slot common.Hash
	}
	want := map[sk]*big.Int{}
	for _, s := range eff.stores {
		k := sk{s.addr, common.BigToHash(new(big.Int).SetUint64(s.slot))}
		cur, ok := want[k]
		if !ok {
			cur = new(big.Int).SetBytes(evmSlot(pre.Stores["evm"], s.addr, k.slot))
		}
		if s.inc {
			cur = new(big.Int).Add(cur, big.NewInt(1))
		} else {
			cur = big.NewInt(1)
		}
		want[k] = cur
	}
	seen := map[sk]bool{}
	for _, raw := range changedKeys(pre.Stores["evm"], post.Stores["evm"]) {
		k := []byte(raw)
		if len(k) != 1+20+32 || k[0] != 0x02 {
			return fmt.Sprintf("non-storage key changed: %x", k)
		}
		key := sk{common.BytesToAddress(k[1:21]), common.BytesToHash(k[21:])}
		wv, ok := want[key]
		if !ok {
			return fmt.Sprintf("unexpected slot changed: %x", k)
		}
		if nv := new(big.Int).SetBytes(post.Stores["evm"][raw]); nv.Cmp(wv) != 0 {
			return fmt.Sprintf("slot %x: new value %s, expected %s", k, nv, wv)
		}
		seen[key] = true
	}
	for k, v := range want {
		if seen[k] {
			continue
		}
		// unchanged is fine only when the value was already the expected one
		old := new(big.Int).SetBytes(evmSlot(pre.Stores["evm"], k.addr, k.slot))
		if old.Cmp(v) != 0 {
			return fmt.Sprintf("expected write to %s slot %s did not happen", k.addr.Hex(), k.slot.Hex())
		}
	}
	at := core.Diff("acc-table", pre.Accts, post.Accts)
	for _, d := range at {
		if p.create != nil && d.Op == "add" && d.Key == sdk.AccAddress(p.created.Bytes()).String() {
			continue
		}
		if p.create != nil && d.Op == "mod" && d.Key == sdk.AccAddress(p.created.Bytes()).String() {
			continue
		}
		return "account table changed: " + d.Key
	}
	return ""
}

func evmSlot(kv core.KV, addr common.Address, slot common.Hash) []byte {
	k := append(append([]byte{0x02}, addr.Bytes()...), slot.Bytes()...)
	return kv[string(k)]
}

// ---------------------------------------------------------------- blocks, burns, supply

type bankState struct {
	supply  sdk.Int
	sum     sdk.Int
	feeColl sdk.Int
	gov     sdk.Int
	notBond sdk.Int
}

func (w *world) bank(ctx sdk.Context) bankState {
	bk := w.n.App.BankKeeper
	s := bankState{supply: bk.GetSupply(ctx, core.BondDenom).Amount, sum: sdk.ZeroInt()}
	bk.IterateAllBalances(ctx, func(_ sdk.AccAddress, c sdk.Coin) bool {
		if c.Denom == core.BondDenom {
			s.sum = s.sum.Add(c.Amount)
		}
		return false
	})
	s.feeColl = bk.GetBalance(ctx, w.feeColl, core.BondDenom).Amount
	s.gov = bk.GetBalance(ctx, w.n.App.AccountKeeper.GetModuleAddress(govtypes.ModuleName), core.BondDenom).Amount
	s.notBond = bk.GetBalance(ctx, w.n.App.StakingKeeper.GetNotBondedPool(ctx).GetAddress(), core.BondDenom).Amount
	return s
}

func (w *world) conserved(phase string, a, b bankState, extra map[string]interface{}) bool {
	if a.supply.Equal(b.supply) && a.sum.Equal(b.sum) && b.sum.Equal(b.supply) {
		return true
	}
	d := map[string]interface{}{"history": w.hid, "height": w.n.Header.Height, "phase": phase,
		"supply_before": a.supply.String(), "supply_after": b.supply.String(), "balances_before": a.sum.String(), "balances_after": b.sum.String()}
	for k, v := range extra {
		d[k] = v
	}
	w.r.Violation(w.hid, "supply/changed/"+phase, d)
	return false
}

func (w *world) evidence() []abci.Evidence {
	n := w.n
	ctx := n.Ctx()
	last := n.App.StakingKeeper.GetLastValidators(ctx)
	if len(last) < 2 || n.App.LastBlockHeight() < 4 {
		return nil
	}
	var total int64
	for _, v := range last {
		total += n.App.StakingKeeper.GetLastValidatorPower(ctx, v.GetOperator())
	}
	var cands []stakingtypes.Validator
	for _, v := range last {
		ca, _ := v.GetConsAddr()
		if !bytes.Equal(ca.Bytes(), w.proposer) {
			cands = append(cands, v)
		}
	}
	if len(cands) == 0 {
		return nil
	}
	v := cands[w.pick(len(cands))]
	ca, _ := v.GetConsAddr()
	h := n.App.LastBlockHeight() - int64(w.pick(3))
	return []abci.Evidence{{
		Type:      abci.EvidenceType_DUPLICATE_VOTE,
		Validator: abci.Validator{Address: ca.Bytes(), Power: n.App.StakingKeeper.GetLastValidatorPower(ctx, v.GetOperator())},
		Height:    h, Time: n.Blocks[h].Time, TotalVotingPower: total,
	}}
}

func (w *world) block() {
	n, r := w.n, w.r
	if n.InBlock {
		// first block was opened by newWorld
	} else {
		var dt time.Duration
		switch x := w.pick(100); {
		case x < 58:
			dt = time.Duration(5+w.pick(600)) * time.Second
		case x < 74:
			dt = time.Duration(1+w.pick(20)) * time.Hour
		case x < 90:
			dt = time.Duration(49+w.pick(12))*time.Hour + time.Duration(1+w.pick(59))*time.Second
		default:
			dt = 22*24*time.Hour + time.Duration(1+w.pick(3600))*time.Second
		}
		w.now = w.now.Add(dt)
		var ev []abci.Evidence
		if !w.slashed && w.chance(0.08) {
			ev = w.evidence()
		}
		pre := w.bank(n.Ctx())
		w.begin(ev)
		post := w.bank(n.Ctx())
		r.Count("blocks", 1)
		w.conserved("begin-block", pre, post, nil)
		if ev != nil {
			w.slashed = true
			// distribution swept the fee collector before the evidence module ran: what is there now was "burned"
			if post.feeColl.IsPositive() {
				r.Count("slash_burn_landed_in_fee_collector", 1)
			} else {
				r.Count("slash_without_fee_collector_income", 1)
			}
		}
	}
	// world construction inside the block (not judged)
	if len(w.openProposals()) < 2 && w.chance(0.6) {
		w.submitProposal(w.chance(0.8))
	}
	if w.chance(0.5) {
		w.feeIncome()
	}
	k := 2 + w.pick(6)
	for i := 0; i < k; i++ {
		w.judge(w.genTx())
	}
	if w.chance(0.3) {
		w.feeIncome()
	}

	// EndBlock: deposits of proposals that expire without any vote / without reaching the
	// minimum deposit are "burned": they must arrive in the fee collector, supply unchanged
	ctx := n.Ctx()
	pre := w.bank(ctx)
	expBurn := sdk.ZeroInt()
	either := n.App.StakingKeeper.TotalBondedTokens(ctx).IsZero()
	var ending []uint64
	for _, p := range w.props {
		if p.done {
			continue
		}
		end := p.depositEnd
		if p.voting {
			end = p.votingEnd
		}
		if end.After(w.now) {
			continue
		}
		p.done = true
		ending = append(ending, p.id)
		if end.Equal(w.now) || (p.voting && p.voted) {
			either = true
			continue
		}
		expBurn = expBurn.Add(p.deposit)
	}
	n.End()
	post := w.bank(n.Ctx())
	extra := map[string]interface{}{"proposals_ending": ending, "expected_burn": expBurn.String(), "fee_collector_before": pre.feeColl.String(), "fee_collector_after": post.feeColl.String()}
	w.conserved("end-block", pre, post, extra)
	got := post.feeColl.Sub(pre.feeColl)
	if post.notBond.LT(pre.notBond) {
		r.Count("end_blocks_completing_unbondings", 1)
	}
	if len(ending) > 0 {
		r.Count("proposals_ended", len(ending))
	}
	if expBurn.IsPositive() {
		r.Count("deposit_burns_expected", 1)
	}
	if (!either && !got.Equal(expBurn)) || (either && got.LT(expBurn)) {
		extra["history"], extra["height"] = w.hid, n.Header.Height
		r.Violation(w.hid, "burn/deposit/not-in-fee-collector", extra)
	} else if expBurn.IsPositive() {
		r.Count("deposit_burn_landed_in_fee_collector", 1)
	}
}
