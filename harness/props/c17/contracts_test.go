package c17

// Adversarial contracts (assembled with core.Asm) and a small reference model
// of the EVM call semantics they rely on: which logs and storage writes
// survive, which address emitted a log, and who msg.sender was.

import (
	"fmt"
	"math/big"
	"strings"

	"github.com/ethereum/go-ethereum/accounts/abi"
	"github.com/ethereum/go-ethereum/common"

	"verif/harness/core"
)

// ABIs written from contracts_src/Staking.sol and Gov.sol (not taken from the
// repository's generated bindings; the byte-for-byte comparison of predicted
// and emitted logs validates them against the deployed byte code).
const stakingABIJSON = `[
{"type":"function","name":"delegate","stateMutability":"nonpayable","outputs":[],"inputs":[{"name":"validator","type":"string"},{"name":"amount","type":"uint256"}]},
{"type":"function","name":"undelegate","stateMutability":"nonpayable","outputs":[],"inputs":[{"name":"validator","type":"string"},{"name":"amount","type":"uint256"}]},
{"type":"function","name":"redelegate","stateMutability":"nonpayable","outputs":[],"inputs":[{"name":"validatorSrc","type":"string"},{"name":"validatorDest","type":"string"},{"name":"amount","type":"uint256"}]},
{"type":"function","name":"withdraw","stateMutability":"nonpayable","outputs":[],"inputs":[{"name":"validator","type":"string"}]},
{"type":"event","name":"Delegated","anonymous":false,"inputs":[{"indexed":false,"name":"delegator","type":"address"},{"indexed":false,"name":"validator","type":"string"},{"indexed":false,"name":"amount","type":"uint256"}]},
{"type":"event","name":"Undelegated","anonymous":false,"inputs":[{"indexed":false,"name":"delegator","type":"address"},{"indexed":false,"name":"validator","type":"string"},{"indexed":false,"name":"amount","type":"uint256"}]},
{"type":"event","name":"Redelegated","anonymous":false,"inputs":[{"indexed":false,"name":"delegator","type":"address"},{"indexed":false,"name":"validatorSrc","type":"string"},{"indexed":false,"name":"validatorDest","type":"string"},{"indexed":false,"name":"amount","type":"uint256"}]},
{"type":"event","name":"Withdrew","anonymous":false,"inputs":[{"indexed":false,"name":"delegator","type":"address"},{"indexed":false,"name":"validator","type":"string"}]}
]`

const govABIJSON = `[
{"type":"function","name":"vote","stateMutability":"nonpayable","outputs":[],"inputs":[{"name":"proposalID","type":"uint64"},{"name":"voteOption","type":"uint32"}]},
{"type":"function","name":"vote","stateMutability":"nonpayable","outputs":[],"inputs":[{"name":"proposalID","type":"uint64"},{"name":"options","type":"tuple[]","components":[{"name":"option","type":"uint32"},{"name":"weight","type":"uint64"}]}]},
{"type":"event","name":"Voted","anonymous":false,"inputs":[{"indexed":false,"name":"voter","type":"address"},{"indexed":false,"name":"proposalID","type":"uint64"},{"indexed":false,"name":"voteOption","type":"uint32"}]},
{"type":"event","name":"VotedWeighted","anonymous":false,"inputs":[{"indexed":false,"name":"voter","type":"address"},{"indexed":false,"name":"proposalID","type":"uint64"},{"indexed":false,"name":"options","type":"tuple[]","components":[{"name":"option","type":"uint32"},{"name":"weight","type":"uint64"}]}]}
]`

var (
	stABI  = mustABI(stakingABIJSON)
	govABI = mustABI(govABIJSON)

	stakingAddr = common.HexToAddress("0x0000000000000000000000000000000010000001")
	govAddr     = common.HexToAddress("0x0000000000000000000000000000000010000002")
)

func mustABI(s string) abi.ABI {
	a, err := abi.JSON(strings.NewReader(s))
	if err != nil {
		panic(err)
	}
	return a
}

// OptionWeight mirrors Gov.OptionWeight.
type OptionWeight struct {
	Option uint32
	Weight uint64
}

// sysCall is one call of a system-contract function with its arguments.
type sysCall struct {
	Module string         `json:"module"` // staking | gov
	Kind   string         `json:"kind"`   // delegate undelegate redelegate withdraw vote voteWeighted
	Val    string         `json:"val,omitempty"`
	Val2   string         `json:"val2,omitempty"`
	Amount *big.Int       `json:"amount,omitempty"`
	PID    uint64         `json:"pid,omitempty"`
	Option uint32         `json:"option,omitempty"`
	Opts   []OptionWeight `json:"opts,omitempty"`
	data   []byte
}

func (c *sysCall) String() string {
	switch c.Kind {
	case "delegate", "undelegate":
		return fmt.Sprintf("%s(%q,%s)", c.Kind, c.Val, c.Amount)
	case "redelegate":
		return fmt.Sprintf("redelegate(%q,%q,%s)", c.Val, c.Val2, c.Amount)
	case "withdraw":
		return fmt.Sprintf("withdraw(%q)", c.Val)
	case "vote":
		return fmt.Sprintf("vote(%d,%d)", c.PID, c.Option)
	default:
		return fmt.Sprintf("voteWeighted(%d,%v)", c.PID, c.Opts)
	}
}

// pack builds the calldata.
func (c *sysCall) pack() []byte {
	var bz []byte
	var err error
	switch c.Kind {
	case "delegate", "undelegate":
		bz, err = stABI.Pack(c.Kind, c.Val, c.Amount)
	case "redelegate":
		bz, err = stABI.Pack("redelegate", c.Val, c.Val2, c.Amount)
	case "withdraw":
		bz, err = stABI.Pack("withdraw", c.Val)
	case "vote":
		bz, err = govABI.Pack("vote", c.PID, c.Option)
	case "voteWeighted":
		opts := c.Opts
		if opts == nil {
			opts = []OptionWeight{}
		}
		bz, err = govABI.Pack("vote0", c.PID, opts)
	default:
		panic("bad kind " + c.Kind)
	}
	if err != nil {
		panic(err)
	}
	c.data = bz
	return bz
}

// event returns topic0 and data of the event the system contract emits for
// this call when msg.sender is sender.
func (c *sysCall) event(sender common.Address) (common.Hash, []byte) {
	var ev abi.Event
	var bz []byte
	var err error
	switch c.Kind {
	case "delegate":
		ev = stABI.Events["Delegated"]
		bz, err = ev.Inputs.Pack(sender, c.Val, c.Amount)
	case "undelegate":
		ev = stABI.Events["Undelegated"]
		bz, err = ev.Inputs.Pack(sender, c.Val, c.Amount)
	case "redelegate":
		ev = stABI.Events["Redelegated"]
		bz, err = ev.Inputs.Pack(sender, c.Val, c.Val2, c.Amount)
	case "withdraw":
		ev = stABI.Events["Withdrew"]
		bz, err = ev.Inputs.Pack(sender, c.Val)
	case "vote":
		ev = govABI.Events["Voted"]
		bz, err = ev.Inputs.Pack(sender, c.PID, c.Option)
	case "voteWeighted":
		ev = govABI.Events["VotedWeighted"]
		opts := c.Opts
		if opts == nil {
			opts = []OptionWeight{}
		}
		bz, err = ev.Inputs.Pack(sender, c.PID, opts)
	}
	if err != nil {
		panic(err)
	}
	return ev.ID, bz
}

func (c *sysCall) target() common.Address {
	if c.Module == "gov" {
		return govAddr
	}
	return stakingAddr
}

// ---------------------------------------------------------------- contracts

const (
	opADD            = 0x01
	opSUB            = 0x03
	opCALLVALUE      = 0x34
	opCALLDATALOAD   = 0x35
	opCALLDATASIZE   = 0x36
	opCALLDATACOPY   = 0x37
	opRETURNDATASIZE = 0x3d
	opRETURNDATACOPY = 0x3e
	opMSTORE         = 0x52
	opSLOAD          = 0x54
	opSSTORE         = 0x55
	opJUMPI          = 0x57
	opGAS            = 0x5a
	opDUP1           = 0x80
	opDUP3           = 0x82
	opCALL           = 0xf1
	opRETURN         = 0xf3
	opDELEGATECALL   = 0xf4
	opSTATICCALL     = 0xfa
	opREVERT         = 0xfd
)

// counterForwarder is core.Forwarder with a call counter: slot 0 += 1 before
// the inner call, so that a rolled-back transaction is observable every time.
func counterForwarder(kind core.CallKind, target common.Address, bubble bool) []byte {
	a := core.NewAsm()
	a.Push(0).Op(opSLOAD).Push(1).Op(opADD).Push(0).Op(opSSTORE)
	a.Op(opCALLDATASIZE).Push(0).Push(0).Op(opCALLDATACOPY)
	a.Push(0).Push(0).Op(opCALLDATASIZE).Push(0)
	switch kind {
	case core.KindCall:
		a.Op(opCALLVALUE).PushBytes(target.Bytes()).Op(opGAS, opCALL)
	case core.KindDelegateCall:
		a.PushBytes(target.Bytes()).Op(opGAS, opDELEGATECALL)
	case core.KindStaticCall:
		a.PushBytes(target.Bytes()).Op(opGAS, opSTATICCALL)
	}
	if bubble {
		a.Op(opRETURNDATASIZE).Push(0).Push(0).Op(opRETURNDATACOPY)
		a.PushLabel("ok").Op(opJUMPI)
		a.Op(opRETURNDATASIZE).Push(0).Op(opREVERT)
		a.Label("ok").Op(opRETURNDATASIZE).Push(0).Op(opRETURN)
	} else {
		a.Push(0).Op(opMSTORE)
		a.Op(opRETURNDATASIZE).Push(0).Push(32).Op(opRETURNDATACOPY)
		a.Push(32).Op(opRETURNDATASIZE, opADD).Push(0).Op(opRETURN)
	}
	return a.Bytes()
}

// proxyCode: DELEGATECALL into the address given in calldata[0:32] with
// calldata[32:] as input; bubbles failures.
func proxyCode() []byte {
	a := core.NewAsm()
	a.Push(32).Op(opCALLDATASIZE, opSUB)             // [size]
	a.Op(opDUP1).Push(32).Push(0).Op(opCALLDATACOPY) // mem[0:size] = calldata[32:]
	a.Push(0).Push(0).Op(opDUP3).Push(0)             // [size, outSize, outOff, inSize, inOff]
	a.Push(0).Op(opCALLDATALOAD)                     // target
	a.Op(opGAS, opDELEGATECALL)                      // [size, success]
	a.Op(opRETURNDATASIZE).Push(0).Push(0).Op(opRETURNDATACOPY)
	a.PushLabel("ok").Op(opJUMPI)
	a.Op(opRETURNDATASIZE).Push(0).Op(opREVERT)
	a.Label("ok").Op(opRETURNDATASIZE).Push(0).Op(opRETURN)
	return a.Bytes()
}

type ckind int

const (
	cSys ckind = iota
	cFwd
	cMulti
	cEmitter
	cReverter
	cProxy
)

// mstep is one step of a multicall contract in the model.
type mstep struct {
	kind      core.CallKind
	target    *contract
	data      []byte
	mustOK    bool
	thenStore uint64
}

// contract is the model's view of a deployed contract.
type contract struct {
	name   string
	addr   common.Address
	kind   ckind
	call   core.CallKind // cFwd
	target *contract     // cFwd
	bubble bool          // cFwd
	steps  []mstep       // cMulti
	topic  common.Hash   // cEmitter
	data   []byte        // cEmitter
	anon   bool          // cEmitter: the log carries no topic at all (LOG0)
}

// mlog is a predicted log.
type mlog struct {
	anon   bool // no topic (an emitter's LOG0)
	addr   common.Address
	topic  common.Hash
	data   []byte
	call   *sysCall       // non-nil when produced by system-contract code
	sender common.Address // msg.sender seen by that code
}

// mstore is a predicted storage write.
type mstore struct {
	addr common.Address
	slot uint64
	inc  bool // true: += 1, false: := 1
}

type effects struct {
	logs    []mlog
	stores  []mstore
	statics int // failed frames that burn all their gas (model fidelity guard)
}

// evmModel interprets the harness contracts.
type evmModel struct {
	contracts map[common.Address]*contract
	calls     map[string]*sysCall // calldata -> meaning, registered by the generator
}

// exec models running code `c` in storage context `self` with msg.sender
// `sender`. Returns false when the frame reverts (its effects are dropped).
func (m *evmModel) exec(c *contract, self, sender common.Address, static bool, value bool, data []byte, eff *effects) bool {
	nl, ns := len(eff.logs), len(eff.stores)
	ok := m.execInner(c, self, sender, static, value, data, eff)
	if !ok {
		eff.logs = eff.logs[:nl]
		eff.stores = eff.stores[:ns]
	}
	return ok
}

func (m *evmModel) sub(kind core.CallKind, target *contract, self, sender common.Address, static bool, data []byte, eff *effects) bool {
	if target == nil {
		return true // call to an account without code
	}
	switch kind {
	case core.KindCall:
		return m.exec(target, target.addr, self, static, false, data, eff)
	case core.KindDelegateCall:
		return m.exec(target, self, sender, static, false, data, eff)
	default:
		return m.exec(target, target.addr, self, true, false, data, eff)
	}
}

func (m *evmModel) execInner(c *contract, self, sender common.Address, static bool, value bool, data []byte, eff *effects) bool {
	switch c.kind {
	case cSys:
		sc, known := m.calls[string(data)]
		if !known || value {
			return false // unknown selector / non-payable
		}
		if static {
			eff.statics++
			return false
		}
		topic, bz := sc.event(sender)
		eff.logs = append(eff.logs, mlog{addr: self, topic: topic, data: bz, call: sc, sender: sender})
		return true
	case cFwd:
		if static {
			eff.statics++
			return false
		}
		eff.stores = append(eff.stores, mstore{addr: self, slot: 0, inc: true})
		ok := m.sub(c.call, c.target, self, sender, static, data, eff)
		if !ok && c.bubble {
			return false
		}
		return true
	case cMulti:
		for _, s := range c.steps {
			ok := m.sub(s.kind, s.target, self, sender, static, s.data, eff)
			if !ok && s.mustOK {
				return false
			}
			if s.thenStore != 0 {
				if static {
					eff.statics++
					return false
				}
				eff.stores = append(eff.stores, mstore{addr: self, slot: s.thenStore})
			}
		}
		return true
	case cEmitter:
		if static {
			eff.statics++
			return false
		}
		eff.logs = append(eff.logs, mlog{addr: self, topic: c.topic, data: c.data, anon: c.anon})
		return true
	case cReverter:
		return false
	case cProxy:
		if len(data) < 32 {
			eff.statics++
			return false
		}
		t := m.contracts[common.BytesToAddress(data[12:32])]
		ok := m.sub(core.KindDelegateCall, t, self, sender, static, data[32:], eff)
		return ok
	}
	panic("unknown contract kind")
}
