// Package c03 monitors C03: cross-chain value conservation; every transfer is
// delivered xor refunded.
package c03

import (
	"bytes"
	"crypto/sha256"
	"fmt"
	"math/big"
	"strings"
	"testing"

	sdk "github.com/cosmos/cosmos-sdk/types"
	banktypes "github.com/cosmos/cosmos-sdk/x/bank/types"
	"github.com/ethereum/go-ethereum/common"

	"github.com/teleport-network/teleport/syscontracts"
	stakingcontract "github.com/teleport-network/teleport/syscontracts/staking"
	agentcontract "github.com/teleport-network/teleport/syscontracts/xibc_agent"
	packettypes "github.com/teleport-network/teleport/x/xibc/core/packet/types"

	"verif/harness/core"
	"verif/harness/pkt"
)

// destination-call kinds used by the workload and how each is expected to end
var callKinds = []string{"", "", "counter", "reverter", "burner", "agent-unknown-chain", "staking-nofunds", "bad-receiver"}

type ledger struct {
	registryOps bool // histories (not the fault sweep) change the relayer registry under some acknowledgements
	r           *core.Run
	cid         string
	s           *pkt.Sim
	// supply0 is the origin ERC-20 total supply at the start (must stay constant)
	supply0 map[string]*big.Int
}

func TestC03(t *testing.T) {
	r := core.NewRun(t, "C03")
	r.Level = "fault_enumeration"
	r.Rule = "seeded multi-chain histories (3 chains, ERC-20 tokens of two origins plus the native coin, forward and back transfers, with/without destination call data whose execution succeeds, reverts, runs out of gas, fails in a post-transaction hook (nested cross-chain call to an unknown chain, staking delegate without funds) or hits a bad receiver; relays and acks in random order). After EVERY delivered transaction the conservation ledger is compared with the contracts' own views (outTokens, bindings, balanceOf, totalSupply, bank balances, packetFees escrow). Non-trivial = a delivered transaction (distinct by history and position) after which the ledger was evaluated."
	r.Assume("one origin unit = 10^scale wrapped units (scales 0, 2, 6 are exercised); packet amounts are in origin units in both directions")
	defer r.Finish()
	H, L := r.N(6, 150), r.N(40, 90)
	for h := 0; h < H; h++ {
		cid := fmt.Sprintf("hist/%d", h)
		if !r.Want(cid) {
			continue
		}
		func() {
			defer func() {
				if rec := recover(); rec != nil {
					r.Violation(cid, "panic/monitor-or-code", map[string]interface{}{"panic": fmt.Sprint(rec)})
				}
			}()
			runHistory(r, cid, L)
		}()
	}
	faultSweep(r)
	r.MinNontrivial(r.N(100, 4000))
}

func runHistory(r *core.Run, cid string, L int) {
	rng := r.Rng(cid)
	scale := []uint8{0, 0, 2, 6}[rng.Intn(4)]
	s, err := pkt.NewSim(rng, pkt.Config{Chains: 3, Users: 2, Relayers: 2, Tokens: 2, Native: true, Scale: scale})
	if err != nil {
		r.Inconclusive("%s: world construction failed: %v", cid, err)
		return
	}
	r.Count(fmt.Sprintf("histories/scale-%d", scale), 1)
	l := &ledger{r: r, cid: cid, s: s, supply0: map[string]*big.Int{}, registryOps: true}
	for _, t := range s.Tokens {
		if t.Addr != core.ZeroAddr {
			l.supply0[t.ID] = t.Origin.ERC20Supply(t.Addr)
		}
	}
	l.check("init", nil)
	for i := 0; i < L; i++ {
		x := rng.Intn(100)
		switch {
		case x < 40 || len(s.Pkts) == 0:
			l.send()
		case x < 70:
			l.recv()
		case x < 88:
			l.ack()
		case x < 91:
			l.duplicate()
		case x < 93:
			l.batch()
		case x < 95:
			a, b := s.RandNodePair()
			_, _, _ = s.UpdateClient(a, b, s.RandRelayer(), 0)
		case x < 96:
			// governance replaces or upgrades the client of one path: in-flight value stays in flight
			a, b := s.RandNodePair()
			if err := s.GovClientOp(a, b); err != nil {
				r.Inconclusive("%s: client toggle / upgrade failed: %v", cid, err)
				return
			}
			r.Count("client_toggles_and_upgrades", 1)
			l.check("client toggle / upgrade", nil)
		default:
			s.W.Roll(s.W.Nodes[rng.Intn(len(s.W.Nodes))])
		}
		if r.Violations() > 0 && !r.Replaying() {
			return
		}
	}
	// ... with one transaction that transfers twice to ONE destination
	l.batchV(true)
	// every history closes with a few more duplicate deliveries (half of the receives by the relayer that delivered first)
	for k := 0; k < 4; k++ {
		l.duplicate()
	}
	k := 0
	for _, p := range s.ReceivedPkts() {
		if p.Spec.Token != nil && p.AckCode == 0 && k < 6 {
			// delivered, executed successfully, tokens credited: the retry that would hurt most
			l.duplicateRecv(p, s.RandRelayer(), true)
			k++
		}
	}
	// drain: relay everything that is still pending, then re-check
	for _, p := range s.PendingRecv() {
		l.recvPkt(p)
	}
	for _, p := range s.PendingAck() {
		l.ackPkt(p)
	}
	r.Sample(map[string]interface{}{"history": cid, "ops": len(s.Log), "packets": len(s.Pkts)})
}

func (l *ledger) callSpec(dst *core.Node, kind string, sp *pkt.SendSpec) {
	s := l.s
	switch kind {
	case "", "counter", "reverter", "burner":
		sp.Call = s.CallTo(dst, kind)
	case "bad-receiver":
		sp.Receiver = "not-an-address"
		sp.Call = pkt.CallSpec{Kind: kind}
	case "agent-unknown-chain":
		// tokens go to the agent contract, which is asked to forward them to a chain without client:
		// the EVM part succeeds, the packet hook (SendPacket) fails afterwards
		if sp.Token == nil {
			sp.Call = s.CallTo(dst, "counter")
			return
		}
		wrapped := sp.Token.AddrOn(dst)
		data, err := agentcontract.AgentContract.ABI.Pack("send", wrapped, sp.Receiver, "no-such-chain", big.NewInt(0))
		if err != nil {
			return
		}
		sp.Receiver = strings.ToLower(agentcontract.AgentContractAddress.Hex())
		sp.Call = pkt.CallSpec{Kind: kind, Contract: syscontracts.AgentContractAddress, Data: data}
	case "staking-nofunds":
		vals := dst.App.StakingKeeper.GetAllValidators(dst.Ctx())
		data, err := stakingcontract.StakingContract.ABI.Pack("delegate", vals[0].OperatorAddress, big.NewInt(1_000_000))
		if err != nil {
			return
		}
		sp.Call = pkt.CallSpec{Kind: kind, Contract: syscontracts.StakingContractAddress, Data: data}
	}
}

func (l *ledger) send() {
	s := l.s
	sp := s.RandSendSpec(nil)
	kind := callKinds[s.Rng.Intn(len(callKinds))]
	l.callSpec(sp.Dst, kind, &sp)
	if sp.Token == nil && sp.Call.Kind == "" {
		sp.Call = s.CallTo(sp.Dst, "counter")
	}
	// a sender-side acknowledgement callback: one that runs, or one that reverts (the acknowledgement transaction then fails as a
	// whole and the transfer stays in flight; it must not end "acknowledged, neither delivered nor refunded")
	switch s.Rng.Intn(6) {
	case 0:
		sp.Callback = s.Contracts[sp.Src.Name]["counter"]
		kind += "+callback"
	case 1, 2:
		sp.Callback = s.Contracts[sp.Src.Name]["reverter"]
		kind += "+reverting-callback"
	}
	// balances of the sender before
	var tokAddr common.Address
	var before *big.Int
	if sp.Token != nil {
		tokAddr = sp.Token.AddrOn(sp.Src)
		before = l.balance(sp.Src, tokAddr, sp.User.Eth)
	}
	o, ps := s.Send(sp)
	l.r.Count("sends", 1)
	if o.OK() {
		l.r.Count("packets_sent/"+kind, len(ps))
		if sp.Token != nil && len(ps) == 1 {
			after := l.balance(sp.Src, tokAddr, sp.User.Eth)
			debit := new(big.Int).Set(sp.Amount)
			if sp.Token.Origin != sp.Src {
				debit.Mul(debit, factor(sp.Token, sp.Src))
			}
			exp := new(big.Int).Sub(before, debit)
			if sameToken(sp.FeeToken, sp.Token, sp.Src) && sp.FeeAmount != nil {
				exp.Sub(exp, sp.FeeAmount)
			}
			if after.Cmp(exp) != 0 {
				l.r.Violation(l.cid, "send/sender-not-debited-exactly", map[string]interface{}{"spec": sp.Describe(), "before": before, "after": after, "expected": exp, "log": s.Log})
			}
		}
	} else if len(o.Diff) != 0 {
		l.r.Violation(l.cid, "send/failed-send-changed-state", map[string]interface{}{"spec": sp.Describe(), "diff": core.TrimDiff(o.Diff, 8)})
	}
	l.check("send "+sp.Describe(), o)
}

// sameToken reports whether the fee is paid in the same asset as the transfer on the source chain
// (a nil fee token is the source chain's native coin).
func sameToken(fee, tok *core.Token, src *core.Node) bool {
	if tok == nil {
		return false
	}
	feeAddr := core.ZeroAddr
	if fee != nil {
		feeAddr = fee.AddrOn(src)
	}
	return feeAddr == tok.AddrOn(src)
}

// balance of holder in a token representation on n (native coin when addr is zero).
func (l *ledger) balance(n *core.Node, addr, holder common.Address) *big.Int {
	if addr == core.ZeroAddr {
		return n.BankBalance(holder)
	}
	return n.ERC20Balance(addr, holder)
}

func (l *ledger) recv() {
	pr := l.s.PendingRecv()
	if len(pr) == 0 {
		return
	}
	l.recvPkt(pr[l.s.Rng.Intn(len(pr))])
}

func (l *ledger) recvPkt(p *pkt.Pkt) {
	s := l.s
	var recvBefore *big.Int
	var recvAddr common.Address
	isXfer := p.Spec.Token != nil
	validReceiver := common.IsHexAddress(p.Spec.Receiver)
	if isXfer && validReceiver {
		recvAddr = common.HexToAddress(p.Spec.Receiver)
		recvBefore = l.balance(p.DstN, p.Spec.Token.AddrOn(p.DstN), recvAddr)
	}
	o, err := s.HonestRecv(p, s.RandRelayer())
	if err != nil {
		l.r.Count("honest_recv_setup_failed", 1)
		return
	}
	if !o.OK() {
		l.r.Count("honest_recv_rejected", 1)
		l.check("recv-rejected "+p.Key(), o)
		return
	}
	l.r.Count(fmt.Sprintf("recv/ack-code-%d/%s", p.AckCode, p.Spec.Call.Kind), 1)
	if p.AckWritten == nil {
		l.r.Count("recv_without_ack_event", 1)
	}
	if p.AckCode != 0 {
		// refunded-once outcome: no token or contract effect may be left on the destination
		var eff []core.DiffEntry
		eff = append(eff, o.DiffIn("evm")...)
		eff = append(eff, o.DiffIn("bank")...)
		eff = append(eff, o.DiffIn("staking")...)
		if len(eff) != 0 {
			l.r.Violation(l.cid, fmt.Sprintf("recv/error-ack-code-%d-but-effects-left-on-destination/%s", p.AckCode, p.Spec.Call.Kind),
				map[string]interface{}{"packet": p.Key(), "spec": p.Spec.Describe(), "effects": core.TrimDiff(eff, 10), "log": s.Log})
		}
	} else if isXfer && validReceiver && p.Spec.Call.Kind != "agent-unknown-chain" {
		after := l.balance(p.DstN, p.Spec.Token.AddrOn(p.DstN), recvAddr)
		want := new(big.Int).Set(p.Spec.Amount)
		if p.SrcN == p.Spec.Token.Origin {
			want.Mul(want, factor(p.Spec.Token, p.DstN)) // minted in wrapped units
		}
		if new(big.Int).Sub(after, recvBefore).Cmp(want) != 0 {
			l.r.Violation(l.cid, "recv/success-ack-but-receiver-not-credited-exactly", map[string]interface{}{"packet": p.Key(), "before": recvBefore, "after": after, "amount": p.Spec.Amount, "log": s.Log})
		}
	}
	l.check("recv "+p.Key(), o)
}

func (l *ledger) ack() {
	pa := l.s.PendingAck()
	if len(pa) == 0 {
		return
	}
	l.ackPkt(pa[l.s.Rng.Intn(len(pa))])
}

func (l *ledger) ackPkt(p *pkt.Pkt) {
	s := l.s
	isXfer := p.Spec.Token != nil
	var before *big.Int
	var tokAddr common.Address
	if isXfer {
		tokAddr = p.Spec.Token.AddrOn(p.SrcN)
		before = l.balance(p.SrcN, tokAddr, p.Spec.User.Eth)
	}
	// now and then the relayer registry of the sending chain is changed while the acknowledgement is under way (the relayer
	// it names is unknown for the moment): the message may fail as a whole, but if it is accepted the outcome must be
	// complete (an error acknowledgement refunds)
	changed := l.registryOps && s.Rng.Intn(7) == 0
	if changed {
		s.ScrambleRelayers(p.SrcN, p.Dst)
		l.r.Count("acks_under_changed_registry", 1)
	}
	o, err := s.HonestAck(p, s.RandRelayer())
	if changed {
		s.RestoreRelayers(p.SrcN)
	}
	if err != nil {
		l.r.Count("honest_ack_setup_failed", 1)
		return
	}
	if !o.OK() {
		// not judged by C03 (see DESIGN: error acks of call-only packets revert in the contract)
		l.r.Count(fmt.Sprintf("honest_ack_rejected/xfer=%v/code=%d", isXfer, p.AckCode), 1)
		if len(o.Diff) != 0 {
			l.r.Violation(l.cid, "ack/rejected-but-state-changed", map[string]interface{}{"packet": p.Key(), "diff": core.TrimDiff(o.Diff, 8)})
		}
		l.check("ack-rejected "+p.Key(), o)
		return
	}
	l.r.Count(fmt.Sprintf("acks/code-%d", p.AckCode), 1)
	st := p.SrcN.AckStatus(p.Dst, p.Packet.Sequence)
	want := uint8(1)
	if p.AckCode != 0 {
		want = 2
	}
	if st != want {
		l.r.Violation(l.cid, "ack/status-disagrees-with-ack-code", map[string]interface{}{"packet": p.Key(), "status": st, "ack_code": p.AckCode})
	}
	if isXfer {
		after := l.balance(p.SrcN, tokAddr, p.Spec.User.Eth)
		delta := new(big.Int).Sub(after, before)
		exp := big.NewInt(0)
		if p.AckCode != 0 {
			exp = new(big.Int).Set(p.Spec.Amount)
			if p.Spec.Token.Origin != p.SrcN {
				exp.Mul(exp, factor(p.Spec.Token, p.SrcN))
			}
		}
		if delta.Cmp(exp) != 0 {
			key := "ack/refund-on-success-ack"
			if p.AckCode != 0 {
				key = "ack/error-ack-refund-not-exact"
			}
			l.r.Violation(l.cid, key, map[string]interface{}{"packet": p.Key(), "sender_delta": delta, "expected": exp, "ack_code": p.AckCode, "log": s.Log})
		}
	}
	l.check("ack "+p.Key(), o)
}

// batch: one EVM transaction (a small router contract) makes two cross-chain transfers of the native coin to two different
// destinations. Every PacketSent log of a successful transaction stands for escrowed value: it must be backed by a
// stored commitment (only then is the value "in flight" and can be delivered or refunded).
func (l *ledger) batch() { l.batchV(false) }

func (l *ledger) batchV(forceSame bool) {
	s := l.s
	nat := s.Tokens[len(s.Tokens)-1]
	if nat.Addr != core.ZeroAddr {
		return
	}
	src := nat.Origin
	var dsts []*core.Node
	for _, n := range s.W.Nodes {
		if n != src {
			dsts = append(dsts, n)
		}
	}
	if len(dsts) < 2 {
		return
	}
	// ... or, one time in three, both to the SAME destination (the contract numbers both with one sequence: such a
	// transaction is refused today; if it ever goes through, each of its transfers needs a commitment of its own)
	same := s.Rng.Intn(3) == 0 || forceSame
	if same {
		dsts[1] = dsts[0]
	}
	amounts := []int64{int64(5 + s.Rng.Intn(40)), int64(5 + s.Rng.Intn(40))}
	recv := []string{pkt.LowerHex(s.RandUser().Eth), pkt.LowerHex(s.RandUser().Eth)}
	var steps []core.Step
	for i := 0; i < 2; i++ {
		d := packettypes.CrossChainData{DstChain: dsts[i].Name, TokenAddress: core.ZeroAddr, Receiver: recv[i], Amount: big.NewInt(amounts[i]), CallData: []byte{}}
		data, err := core.EndpointABI.Pack("crossChainCall", d, packettypes.Fee{TokenAddress: core.ZeroAddr, Amount: big.NewInt(0)})
		if err != nil {
			return
		}
		steps = append(steps, core.Step{Kind: core.KindCall, Target: core.EndpointAddr, Data: data, Value: uint64(amounts[i]), MustOK: true})
	}
	addr, err := src.DeployRuntime(s.W.Admin.Eth, core.Multicall(steps))
	if err != nil {
		return
	}
	fund := banktypes.NewMsgSend(s.W.Admin.Acc, sdk.AccAddress(addr.Bytes()), sdk.NewCoins(sdk.NewInt64Coin(core.BondDenom, amounts[0]+amounts[1])))
	if o := s.Deliver(src, s.W.Admin, "fund router", fund); !o.OK() {
		return
	}
	tx, err := src.EthTx(s.RandUser(), &addr, nil, 5_000_000, []byte{})
	if err != nil {
		return
	}
	o := s.DeliverEth(src, "router: two transfers to two destinations in one transaction", tx)
	l.r.Count(fmt.Sprintf("batch_sends/same-destination=%v/ok=%v", same, o.OK()), 1)
	if o.OK() {
		router := &core.Account{Name: "router", Acc: sdk.AccAddress(addr.Bytes()), Eth: addr}
		sent := core.ParseSent(o.Eth)
		if len(sent) != 2 {
			l.r.Violation(l.cid, fmt.Sprintf("batch/successful-transaction-logged-%d-packets-for-2-transfers", len(sent)), map[string]interface{}{"log": s.Log})
		}
		for j, sp2 := range sent {
			i := 0
			if sp2.Dst == dsts[1].Name {
				i = 1
			}
			if same {
				i = j % 2
			}
			p := s.Register(sp2, pkt.SendSpec{Src: src, Dst: dsts[i], User: router, Receiver: recv[i], Token: nat, Amount: big.NewInt(amounts[i])}, src)
			stored := src.App.XIBCKeeper.PacketKeeper.GetPacketCommitment(src.Ctx(), p.Src, p.Dst, p.Packet.Sequence)
			if h := sha256.Sum256(p.Bytes); !bytes.Equal(stored, h[:]) {
				l.r.Violation(l.cid, "batch/escrowed-value-without-a-commitment-is-not-in-flight", map[string]interface{}{"packet": p.Key(), "amount": amounts[i], "stored_commitment": core.Hex(stored), "log": s.Log})
			}
		}
	} else if len(o.Diff) != 0 {
		l.r.Violation(l.cid, "send/failed-send-changed-state", map[string]interface{}{"spec": "router batch", "diff": core.TrimDiff(o.Diff, 8)})
	}
	l.check("batch", o)
}

// duplicate re-delivers a message that was already accepted - the genuine acknowledgement of an acknowledged packet
// or the genuine receive of a received packet, with a fresh proof ("two relayers racing", "a late retry"). Whether
// the chain accepts it is C01's / C05's subject; here the books are judged: the sender must not be refunded again,
// the receiver must not be credited again, and the ledger must still balance.
func (l *ledger) duplicate() {
	s := l.s
	rel := s.RandRelayer()
	if acked := s.AckedPkts(); len(acked) > 0 && s.Rng.Intn(3) != 0 {
		p := acked[s.Rng.Intn(len(acked))]
		ph, err := s.EnsureClient(p.SrcN, p.DstN, rel, s.ProvableHeight(p.DstN, p.RecvBlock))
		if err != nil {
			return
		}
		msg, err := s.AckMsg(p, p.AckWritten, ph, rel)
		if err != nil {
			return
		}
		var before *big.Int
		if p.Spec.Token != nil {
			before = l.balance(p.SrcN, p.Spec.Token.AddrOn(p.SrcN), p.Spec.User.Eth)
		}
		o := s.Deliver(p.SrcN, rel, "duplicate ack "+p.Key(), msg)
		l.r.Count(fmt.Sprintf("duplicate_acks/code-%d/accepted=%v", p.AckCode, o.OK()), 1)
		if before != nil {
			if d := new(big.Int).Sub(l.balance(p.SrcN, p.Spec.Token.AddrOn(p.SrcN), p.Spec.User.Eth), before); d.Sign() != 0 {
				l.r.Violation(l.cid, fmt.Sprintf("ack/duplicate-acknowledgement-moved-the-senders-tokens/code-%d", p.AckCode), map[string]interface{}{"packet": p.Key(), "sender_delta": d, "accepted": o.OK(), "log": s.Log})
			}
		}
		l.check("duplicate-ack "+p.Key(), o)
		return
	}
	recvd := s.ReceivedPkts()
	if len(recvd) == 0 {
		return
	}
	l.duplicateRecv(recvd[s.Rng.Intn(len(recvd))], rel, s.Rng.Intn(2) == 0)
}

// duplicateRecv delivers an accepted packet to its destination once more, through rel or (sameRelayer) through the relayer
// that delivered it the first time.
func (l *ledger) duplicateRecv(p *pkt.Pkt, rel *core.Account, sameRelayer bool) {
	s := l.s
	if p.SrcN == nil || p.DstN == nil {
		return
	}
	if first := s.RecvRelayer(p); first != nil && sameRelayer {
		// a retry by the relayer that delivered the packet: the acknowledgement it would produce is byte-identical to the stored one
		rel = first
		l.r.Count("duplicate_recvs_by_the_first_relayer", 1)
	}
	ph, err := s.EnsureClient(p.DstN, p.SrcN, rel, s.ProvableHeight(p.SrcN, p.SendBlock))
	if err != nil {
		return
	}
	msg, err := s.RecvMsg(p, ph, rel)
	if err != nil {
		return
	}
	var before *big.Int
	var recvAddr common.Address
	if p.Spec.Token != nil && common.IsHexAddress(p.Spec.Receiver) {
		recvAddr = common.HexToAddress(p.Spec.Receiver)
		before = l.balance(p.DstN, p.Spec.Token.AddrOn(p.DstN), recvAddr)
	}
	o := s.Deliver(p.DstN, rel, "duplicate recv "+p.Key(), msg)
	l.r.Count(fmt.Sprintf("duplicate_recvs/accepted=%v", o.OK()), 1)
	if o.OK() {
		// an accepted duplicate is C01's finding; here it is only counted by what it could have moved
		l.r.Count(fmt.Sprintf("duplicate_recvs_accepted/token=%v/ack-code-%d/first-relayer=%v", p.Spec.Token != nil, p.AckCode, rel == s.RecvRelayer(p)), 1)
	}
	if before != nil {
		if d := new(big.Int).Sub(l.balance(p.DstN, p.Spec.Token.AddrOn(p.DstN), recvAddr), before); d.Sign() != 0 {
			l.r.Violation(l.cid, "recv/duplicate-receive-credited-the-receiver-again", map[string]interface{}{"packet": p.Key(), "receiver_delta": d, "accepted": o.OK(), "log": s.Log})
		}
	}
	l.check("duplicate-recv "+p.Key(), o)
}

// factor is 10^scale of token t on chain x: one origin unit is 10^scale wrapped units.
func factor(t *core.Token, x *core.Node) *big.Int {
	return new(big.Int).Exp(big.NewInt(10), big.NewInt(int64(t.Scale[x.Name])), nil)
}

// unresolved amount (in WRAPPED units of chain x) of token t between its origin and chain x according to the packet model.
func (l *ledger) unresolved(t *core.Token, x *core.Node) *big.Int {
	sum := big.NewInt(0)
	for _, p := range l.s.Pkts {
		if p.Spec.Token != t || p.DstN == nil {
			continue
		}
		fwd := p.SrcN == t.Origin && p.DstN == x
		back := p.SrcN == x && p.DstN == t.Origin
		if !fwd && !back {
			continue
		}
		delivered := p.Received && p.AckCode == 0
		refunded := p.Acked && p.AckCode != 0
		if !delivered && !refunded {
			// packet amounts are in origin units in both directions
			sum.Add(sum, new(big.Int).Mul(p.Spec.Amount, factor(t, x)))
		}
	}
	return sum
}

func (l *ledger) unpaidFees(n *core.Node, feeTok *core.Token) *big.Int {
	sum := big.NewInt(0)
	for _, p := range l.s.Pkts {
		if p.SrcN != n || p.Spec.FeeAmount == nil || p.Acked {
			continue
		}
		native := p.Spec.FeeToken == nil
		if (feeTok == nil) != native || (!native && p.Spec.FeeToken != feeTok) {
			continue
		}
		sum.Add(sum, p.Spec.FeeAmount)
	}
	return sum
}

// check compares the contracts' own accounting with the model after a step.
func (l *ledger) check(step string, o *pkt.Obs) {
	s := l.s
	l.r.Eval(fmt.Sprintf("%s/%d/%s", l.cid, len(s.Log), step), o != nil)
	for _, t := range s.Tokens {
		O := t.Origin
		escrow := big.NewInt(0)
		for _, x := range s.W.Nodes {
			if x == O {
				continue
			}
			out := O.OutTokens(t.Addr, x.Name)
			escrow.Add(escrow, out)
			wrapped := t.Wrapped[x.Name]
			bind := x.Bindings(wrapped, O.Name)
			d := new(big.Int).Sub(new(big.Int).Mul(out, factor(t, x)), bind.Amount)
			exp := l.unresolved(t, x)
			l.r.Count("ledger_comparisons", 1)
			if d.Cmp(exp) != 0 {
				l.r.Violation(l.cid, "ledger/escrow-minus-minted-differs-from-in-flight/"+lastKind(o, s), map[string]interface{}{
					"token": t.ID, "origin": O.Name, "dest": x.Name, "outTokens": out, "bindings": bind.Amount, "in_flight_model": exp, "step": step, "log": s.Log})
			}
			if sup := x.ERC20Supply(wrapped); sup.Cmp(bind.Amount) != 0 {
				l.r.Violation(l.cid, "ledger/wrapped-supply-differs-from-bindings", map[string]interface{}{"token": t.ID, "dest": x.Name, "supply": sup, "bindings": bind.Amount, "step": step})
			}
		}
		// escrow really held by the endpoint contract
		if t.Addr != core.ZeroAddr {
			if held := O.ERC20Balance(t.Addr, core.EndpointAddr); held.Cmp(escrow) != 0 {
				l.r.Violation(l.cid, "ledger/endpoint-balance-differs-from-outTokens", map[string]interface{}{"token": t.ID, "held": held, "outTokens_sum": escrow, "step": step})
			}
			if sup := O.ERC20Supply(t.Addr); sup.Cmp(l.supply0[t.ID]) != 0 {
				l.r.Violation(l.cid, "ledger/origin-supply-changed", map[string]interface{}{"token": t.ID, "supply": sup, "initial": l.supply0[t.ID], "step": step})
			}
			if held, exp := O.ERC20Balance(t.Addr, core.PacketAddr), l.unpaidFees(O, t); held.Cmp(exp) != 0 {
				l.r.Violation(l.cid, "ledger/fee-escrow-differs-from-unpaid-fees", map[string]interface{}{"token": t.ID, "held": held, "unpaid": exp, "step": step, "log": s.Log})
			}
		} else {
			if held := O.BankBalance(core.EndpointAddr); held.Cmp(escrow) != 0 {
				l.r.Violation(l.cid, "ledger/endpoint-native-balance-differs-from-outTokens", map[string]interface{}{"held": held, "outTokens_sum": escrow, "step": step})
			}
		}
	}
	for _, n := range s.W.Nodes {
		if held, exp := n.BankBalance(core.PacketAddr), l.unpaidFees(n, nil); held.Cmp(exp) != 0 {
			l.r.Violation(l.cid, "ledger/native-fee-escrow-differs-from-unpaid-fees", map[string]interface{}{"chain": n.Name, "held": held, "unpaid": exp, "step": step, "log": s.Log})
		}
	}
}

func lastKind(o *pkt.Obs, s *pkt.Sim) string {
	if o == nil {
		return "init"
	}
	w := o.What
	if i := strings.IndexAny(w, " ("); i > 0 {
		w = w[:i]
	}
	return w
}
