package c03

import (
	"fmt"
	"math/big"

	packetkeeper "github.com/teleport-network/teleport/x/xibc/core/packet/keeper"

	"verif/harness/core"
	"verif/harness/pkt"
)

// scenario is a fixed relay script; faultSweep re-runs it once per (point, k)
// with the k-th module->EVM call failing, retrying failed relay steps
// honestly afterwards, with the ledger checked after every step.
type scenario struct {
	name string
	kind string // destination call kind
	back bool   // also send the tokens back afterwards
}

var scenarios = []scenario{
	{"plain-forward-and-back", "", true},
	{"forward-with-counter-call", "counter", false},
	{"forward-with-reverting-call", "reverter", false},
	{"forward-hook-failure", "agent-unknown-chain", false},
	{"forward-bad-receiver", "bad-receiver", false},
	{"forward-staking-nofunds", "staking-nofunds", false},
}

func faultSweep(r *core.Run) {
	points := []string{"evm.before", "evm.afterCommit"}
	nsc := r.N(2, len(scenarios))
	for si := 0; si < nsc; si++ {
		sc := scenarios[si]
		// clean run to learn how many hits each point sees
		cid0 := fmt.Sprintf("fault/%s/clean", sc.name)
		hits := map[string]int{}
		if r.Want(cid0) || r.Replaying() {
			h := runScenario(r, cid0, sc, "", 0)
			if h == nil {
				continue
			}
			hits = h
		}
		for _, pt := range points {
			for k := 1; k <= hits[pt]; k++ {
				cid := fmt.Sprintf("fault/%s/%s/%d", sc.name, pt, k)
				if !r.Want(cid) {
					continue
				}
				func() {
					defer func() {
						packetkeeper.VerifClearFaults()
						if rec := recover(); rec != nil {
							r.Violation(cid, "panic/monitor-or-code", map[string]interface{}{"panic": fmt.Sprint(rec)})
						}
					}()
					runScenario(r, cid, sc, pt, k)
				}()
				r.Count("fault_cases/"+pt, 1)
			}
		}
	}
}

// runScenario returns the hit counts of a clean run (point=="").
func runScenario(r *core.Run, cid string, sc scenario, point string, k int) map[string]int {
	rng := r.Rng("fault/" + sc.name) // same world for every k
	s, err := pkt.NewSim(rng, pkt.Config{Chains: 2, Users: 2, Relayers: 1, Tokens: 1, Native: true})
	if err != nil {
		r.Inconclusive("%s: world construction failed: %v", cid, err)
		return nil
	}
	l := &ledger{r: r, cid: cid, s: s, supply0: map[string]*big.Int{}}
	for _, t := range s.Tokens {
		if t.Addr != core.ZeroAddr {
			l.supply0[t.ID] = t.Origin.ERC20Supply(t.Addr)
		}
	}
	a, b := s.W.Nodes[0], s.W.Nodes[1]
	tok := s.Tokens[0]
	if tok.Origin != a {
		a, b = b, a
	}
	u, v := s.W.Users[0], s.W.Users[1]
	packetkeeper.VerifClearFaults()
	if point != "" {
		packetkeeper.VerifSetFault(point, k)
	}
	total := map[string]int{}
	snapHits := func() {
		for _, p := range []string{"evm.before", "evm.afterCommit"} {
			total[p] = packetkeeper.VerifHits(p)
		}
	}
	// step 1: send (retry once if the injected fault made it fail)
	sp := pkt.SendSpec{Src: a, Dst: b, User: u, Token: tok, Amount: big.NewInt(1234), Receiver: pkt.LowerHex(v.Eth), FeeToken: tok, FeeAmount: big.NewInt(9)}
	l.callSpec(b, sc.kind, &sp)
	var p *pkt.Pkt
	for try := 0; try < 2 && p == nil; try++ {
		o, ps := s.Send(sp)
		if !o.OK() && len(o.Diff) != 0 {
			r.Violation(cid, "fault/failed-send-changed-state", map[string]interface{}{"scenario": sc.name, "diff": core.TrimDiff(o.Diff, 8), "log": s.Log})
		}
		l.check("fault-send", o)
		if len(ps) == 1 {
			p = ps[0]
		}
	}
	if p == nil {
		r.Violation(cid, "fault/send-not-retryable-after-injected-fault", map[string]interface{}{"scenario": sc.name, "log": s.Log})
		return nil
	}
	relay := func(p *pkt.Pkt) {
		for try := 0; try < 3 && !p.Received; try++ {
			l.recvPkt(p)
		}
		if !p.Received {
			r.Violation(cid, "fault/recv-not-retryable-after-injected-fault", map[string]interface{}{"scenario": sc.name, "packet": p.Key(), "log": s.Log})
			return
		}
		for try := 0; try < 3 && !p.Acked && p.AckWritten != nil; try++ {
			l.ackPkt(p)
		}
		if !p.Acked {
			r.Violation(cid, "fault/ack-not-retryable-after-injected-fault", map[string]interface{}{"scenario": sc.name, "packet": p.Key(), "ack_code": p.AckCode, "log": s.Log})
		}
	}
	relay(p)
	if sc.back && p.Received && p.AckCode == 0 {
		spb := pkt.SendSpec{Src: b, Dst: a, User: v, Token: tok, Amount: big.NewInt(234), Receiver: pkt.LowerHex(u.Eth)}
		var q *pkt.Pkt
		for try := 0; try < 2 && q == nil; try++ {
			o, ps := s.Send(spb)
			l.check("fault-send-back", o)
			if len(ps) == 1 {
				q = ps[0]
			}
		}
		if q != nil {
			relay(q)
		}
	}
	l.check("fault-end", nil)
	snapHits()
	packetkeeper.VerifClearFaults()
	if point == "" {
		r.Sample(map[string]interface{}{"fault_scenario": sc.name, "hits": total, "ops": s.Log})
	}
	return total
}
