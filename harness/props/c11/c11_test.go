// Package c11 monitors C11: coin <-> ERC-20 conversion moves exactly the
// requested amount (or fails and changes nothing), module-owned token supply
// and voucher supply stay fully backed, conversions are refused while the
// module or the pair is disabled and never pay out to a blocked address.
//
// Workload: per history a fresh deterministic chain with module-owned pairs
// (1 and 1-3 denominations, one IBC voucher coin), external pairs over the
// honest ERC-20, the repository's fee-taking (ERC20DirectBalanceManipulation)
// and approval-injecting (ERC20MaliciousDelayed) tokens and a mixed external
// pair; MsgConvertCoin / MsgConvertERC20 go through DeliverTx (single and
// two-message transactions, normal and starved gas limits), the IBC receive
// hook is driven directly, toggles and unrelated transfers are interleaved.
//
// Oracle: full bank dump + ERC-20 views + raw store snapshots before/after
// every step; expectations are computed from the generator's own knowledge of
// the message (never from the keeper's logic).
package c11

import (
	"encoding/hex"
	"encoding/json"
	"fmt"
	"github.com/cosmos/cosmos-sdk/x/params"
	paramproposal "github.com/cosmos/cosmos-sdk/x/params/types/proposal"
	"math/big"
	"math/rand"
	"sort"
	"strings"
	"testing"
	"time"

	sdk "github.com/cosmos/cosmos-sdk/types"
	authtypes "github.com/cosmos/cosmos-sdk/x/auth/types"
	banktypes "github.com/cosmos/cosmos-sdk/x/bank/types"
	transfertypes "github.com/cosmos/ibc-go/v3/modules/apps/transfer/types"
	clienttypes "github.com/cosmos/ibc-go/v3/modules/core/02-client/types"
	channeltypes "github.com/cosmos/ibc-go/v3/modules/core/04-channel/types"
	"github.com/ethereum/go-ethereum/common"
	"github.com/ethereum/go-ethereum/crypto"

	erc20contracts "github.com/teleport-network/teleport/syscontracts/erc20"
	aggtypes "github.com/teleport-network/teleport/x/aggregate/types"

	"verif/harness/core"
	ac "verif/harness/props/aggcommon"
)

var thief = common.HexToAddress("0x4dC6ac40Af078661fc43823086E1513635Eeab14")

type pair struct {
	Name     string // m1, m2, mi, honest, direct, delayed, mixed
	Kind     string // module | external | mixed
	TokKind  string // own | honest | direct | delayed
	Contract common.Address
	Denoms   []string
	Enabled  bool
	BalSlot  int64
	SupSlot  int64
	Weight   int
}

type hist struct {
	bonus     common.Address // the over-delivering token (external pair "bonus")
	forcePair *pair          // when set, conversions are generated for this pair
	forceFrom *core.Account  // when set, conversions are generated for this sender ...
	forceAmt  *big.Int       // ... and this amount
	r         *core.Run
	id        string
	rng       *rand.Rand
	n         *core.Node
	users     []*core.Account
	dep       *core.Account
	fresh     []*core.Account
	pairs     []*pair
	holders   []common.Address
	blocked   []sdk.AccAddress
	allowed   sdk.AccAddress // module account that may receive (distribution)
	clk       time.Time
	ops       []string
	modOn     bool
	sendOff   map[string]bool
	ended     bool
	freeCoin  string
	spare     []string // funded, unregistered denominations a later AddCoin proposal can aggregate into a module pair
	offSteps  int
	touched   []*pair // pairs whose token or coins the current step could have moved
	okCount   map[string]int
}

// okFloors: a run in which one kind of conversion never succeeded has not
// observed "moves exactly the amount" for that kind and is inconclusive.
var okFloors = []string{"ok_convert-coin/module/own", "ok_convert-erc20/module/own", "ok_convert-erc20/external/honest", "ok_convert-coin/external/honest", "hook_converted"}

func TestC11(t *testing.T) {
	r := core.NewRun(t, "C11")
	r.Rule = "seeded histories on a fresh chain each: MsgConvertCoin / MsgConvertERC20 through DeliverTx over 3 users, module-owned pairs (single, 1-3 denominations, IBC voucher coin), external pairs (honest, fee-taking, approval-injecting token) and a mixed external pair; amounts {0,1,small,balance,balance+1,2^255-1,...}; receivers {self, other user, fresh address, blocked module accounts, allowed module account, thief, zero}; single / two-message transactions; normal / starved gas; module, pair and send-enabled toggles, direct ERC-20 and bank transfers and the IBC receive hook interleaved. One evaluated case = one step; key = canonical (operation, pair, denomination, amount, sender, receiver, flags, sender balance); non-trivial = the message passed ValidateBasic and the ante handler and reached the module (or the hook was executed)."
	r.Assume("module / pair / send-enabled toggles are applied directly to the deliver state between transactions (same effect as the parameter-change / toggle proposals)")
	r.Assume("the voucher-backing invariant is judged for external pairs that list only their voucher, the supply-backing invariant for module-owned contracts, as the statement says; 'fully backed' is judged as supply <= escrow")
	r.MinNontrivial(r.N(600, 12000))
	defer r.Finish()

	nh := r.N(30, 300)
	steps := r.N(50, 120)
	okSeen := map[string]int{}
	defer func() {
		if r.Replaying() || r.Violations() > 0 {
			return
		}
		for _, k := range okFloors {
			if okSeen[k] < r.N(5, 100) {
				r.Inconclusive("only %d successful events of kind %s observed", okSeen[k], k)
			}
		}
	}()
	for i := 0; i < nh; i++ {
		id := fmt.Sprintf("h%d", i)
		if !r.Want(id) {
			continue
		}
		h := newHist(r, id)
		if h == nil {
			continue
		}
		for s := 0; s < steps && !h.ended; s++ {
			h.step()
			if (s+1)%10 == 0 {
				h.roll()
			}
		}
		if !h.ended {
			h.lieProbe()
		}
		if !h.ended {
			h.skimProbe()
		}
		if !h.ended {
			h.verifyLayout()
		}
		h.n.End()
		r.Count("histories", 1)
		for _, k := range okFloors {
			okSeen[k] += h.okCount[k]
		}
		if i < 2 {
			ops := h.ops
			if len(ops) > 40 {
				ops = ops[:40]
			}
			r.Sample(map[string]interface{}{"history": id, "ops": ops})
		}
	}
}

// ---------------------------------------------------------------- world

func coinMeta(base string) banktypes.Metadata {
	b := base
	name, sym := strings.ToUpper(base)+" coin", strings.ToUpper(base)
	if strings.HasPrefix(base, "ibc/") {
		b, name, sym = "ibcatom", "atom via channel-0", "ibcATOM"
	}
	return banktypes.Metadata{
		Description: "coin " + base, Base: base, Display: b + "disp", Name: name, Symbol: sym,
		DenomUnits: []*banktypes.DenomUnit{{Denom: base, Exponent: 0}, {Denom: "m" + b, Exponent: 3}, {Denom: b + "disp", Exponent: 18}},
	}
}

func newHist(r *core.Run, id string) *hist {
	h := &hist{r: r, id: id, rng: r.Rng(id), modOn: true, sendOff: map[string]bool{}, okCount: map[string]int{}}
	h.users = []*core.Account{core.NewAccount("u0"), core.NewAccount("u1"), core.NewAccount("u2")}
	h.dep = core.NewAccount("dep")
	h.fresh = []*core.Account{core.NewAccount("fresh0"), core.NewAccount("fresh1")}
	accs := append(append([]*core.Account{}, h.users...), h.dep)
	coins := []string{"acoin", "bcoin", "ccoin", "dcoin", "ecoin", "fcoin", "gcoin", "hcoin", ac.IBCCoin}
	h.freeCoin = "fcoin"
	h.spare = []string{"gcoin", "hcoin"}
	h.n = core.NewNode(core.NodeConfig{ChainID: "teleport_9000-1", XIBCName: "teleport", Accounts: accs, MutateGenesis: ac.FundGenesis(accs, coins, ac.UserFunds)})
	h.clk = time.Date(2022, 1, 2, 0, 0, 5, 0, time.UTC)
	h.n.Begin(h.clk)
	n := h.n

	regCoin := func(name, base string, extra ...string) error {
		g := ac.Gov(n, n.Ctx(), aggtypes.NewRegisterCoinProposal("t", "d", coinMeta(base)))
		if g.Err != nil {
			return fmt.Errorf("register %s: %v", base, g.Err)
		}
		g.Write()
		var p aggtypes.TokenPair
		id := n.App.AggregateKeeper.GetTokenPairID(n.Ctx(), base)
		p, _ = n.App.AggregateKeeper.GetTokenPair(n.Ctx(), id)
		for _, e := range extra {
			g := ac.Gov(n, n.Ctx(), aggtypes.NewAddCoinProposal("t", "d", coinMeta(e), p.ERC20Address))
			if g.Err != nil {
				return fmt.Errorf("add %s: %v", e, g.Err)
			}
			g.Write()
		}
		h.pairs = append(h.pairs, &pair{Name: name, Kind: "module", TokKind: "own", Contract: common.HexToAddress(p.ERC20Address), Denoms: append([]string{base}, extra...), Enabled: true})
		return nil
	}
	regERC := func(name, tokKind string, addr common.Address, extra ...string) error {
		g := ac.Gov(n, n.Ctx(), aggtypes.NewRegisterERC20Proposal("t", "d", addr.Hex()))
		if g.Err != nil {
			return fmt.Errorf("register erc20 %s: %v", name, g.Err)
		}
		g.Write()
		kind := "external"
		for _, e := range extra {
			g := ac.Gov(n, n.Ctx(), aggtypes.NewAddCoinProposal("t", "d", coinMeta(e), addr.Hex()))
			if g.Err != nil {
				return fmt.Errorf("add %s: %v", e, g.Err)
			}
			g.Write()
			kind = "mixed"
		}
		h.pairs = append(h.pairs, &pair{Name: name, Kind: kind, TokKind: tokKind, Contract: addr, Denoms: append([]string{aggtypes.CreateDenom(addr.String())}, extra...), Enabled: true})
		return nil
	}
	err, _ := core.Catch(func() error {
		if err := regCoin("m1", "acoin"); err != nil {
			return err
		}
		extra := [][]string{{}, {"ccoin"}, {"ccoin", "dcoin"}}[h.rng.Intn(3)]
		if err := regCoin("m2", "bcoin", extra...); err != nil {
			return err
		}
		if err := regCoin("mi", ac.IBCCoin); err != nil {
			return err
		}
		hon, err := n.DeployERC20("tokx", "TKX", 6)
		if err != nil {
			return err
		}
		// supply 2^70: large enough for conversions whose shortfall (the half the token keeps back) is a multiple of 2^64
		dir, err := ac.DeployCompiled(n, h.dep.Eth, erc20contracts.ERC20DirectBalanceManipulationContract, new(big.Int).Lsh(big.NewInt(1), 70))
		if err != nil {
			return err
		}
		del, err := ac.DeployCompiled(n, h.dep.Eth, erc20contracts.ERC20MaliciousDelayedContract, big.NewInt(1_000_000_000))
		if err != nil {
			return err
		}
		mix, err := n.DeployERC20("toky", "TKY", 18)
		if err != nil {
			return err
		}
		for _, u := range h.users {
			for _, t := range []common.Address{hon, mix} {
				if err := n.MintERC20(t, u.Eth, big.NewInt(1_000_000)); err != nil {
					return err
				}
			}
			for _, t := range []common.Address{dir, del} {
				if err := ac.Call(n, core.ERC20ABI, h.dep.Eth, t, "transfer", u.Eth, big.NewInt(2_000_000)); err != nil {
					return err
				}
			}
		}
		// the first user holds 2^67 of the fee-taking token (the transfer itself delivers half)
		if err := ac.Call(n, core.ERC20ABI, h.dep.Eth, dir, "transfer", h.users[0].Eth, new(big.Int).Lsh(big.NewInt(1), 68)); err != nil {
			return err
		}
		if err := regERC("honest", "honest", hon); err != nil {
			return err
		}
		// a token that is honest while its bonus is 0 and over-delivers on every transfer once the owner sets one
		bon, err := n.DeployRuntime(h.dep.Eth, core.BonusToken())
		if err != nil {
			return err
		}
		for _, u := range h.users {
			if err := ac.Call(n, core.ERC20ABI, h.dep.Eth, bon, "mint", u.Eth, big.NewInt(2_000_000)); err != nil {
				return err
			}
		}
		if err := regERC("bonus", "bonus", bon); err != nil {
			return err
		}
		h.bonus = bon
		if err := regERC("direct", "direct", dir); err != nil {
			return err
		}
		if err := regERC("delayed", "delayed", del); err != nil {
			return err
		}
		if h.rng.Intn(2) == 0 {
			if err := regERC("mixed", "honest", mix, "ecoin"); err != nil {
				return err
			}
		}
		return nil
	})
	if err != nil {
		r.Inconclusive("world construction failed in %s: %v", id, err)
		return nil
	}
	// blocked / allowed module accounts (ground truth: the app's configuration)
	var names []string
	for a, b := range n.App.BlockedAddrs() {
		if b {
			names = append(names, a)
		} else {
			acc, _ := sdk.AccAddressFromBech32(a)
			h.allowed = acc
		}
	}
	sort.Strings(names)
	for _, a := range names {
		acc, _ := sdk.AccAddressFromBech32(a)
		h.blocked = append(h.blocked, acc)
	}
	if len(h.blocked) == 0 || h.allowed == nil {
		r.Inconclusive("no blocked / allowed module accounts found")
		return nil
	}
	// tracked ERC-20 holders
	hs := []common.Address{aggtypes.ModuleAddress, thief, core.ZeroAddr, h.dep.Eth, core.EndpointAddr, common.BytesToAddress(h.allowed)}
	for _, u := range h.users {
		hs = append(hs, u.Eth)
	}
	for _, f := range h.fresh {
		hs = append(hs, f.Eth)
	}
	for _, b := range h.blocked {
		hs = append(hs, common.BytesToAddress(b))
	}
	for _, p := range h.pairs {
		hs = append(hs, p.Contract)
	}
	seen := map[common.Address]bool{}
	for _, a := range hs {
		if !seen[a] {
			seen[a] = true
			h.holders = append(h.holders, a)
		}
	}
	// storage layout of every token (module-owned contracts are the same byte code as the honest token)
	var honest *pair
	for _, p := range h.pairs {
		if p.Kind != "module" {
			if err := h.calibrate(p); err != nil {
				r.Inconclusive("%s: %v", id, err)
				return nil
			}
			if p.Name == "honest" {
				honest = p
			}
		}
	}
	weights := map[string]int{"m1": 6, "m2": 8, "mi": 3, "honest": 8, "direct": 3, "delayed": 3, "mixed": 4}
	for _, p := range h.pairs {
		if p.Kind == "module" {
			p.BalSlot, p.SupSlot = honest.BalSlot, honest.SupSlot
		}
		p.Weight = weights[p.Name]
	}
	if !h.verifyLayout() {
		return nil
	}
	return h
}

func (h *hist) pickPair() *pair {
	if h.forcePair != nil {
		return h.forcePair
	}
	tot := 0
	for _, p := range h.pairs {
		tot += p.Weight
	}
	x := h.pick(tot)
	for _, p := range h.pairs {
		if x < p.Weight {
			return p
		}
		x -= p.Weight
	}
	return h.pairs[0]
}

func (h *hist) roll() {
	if !h.ended {
		h.invariants(h.pairs)
	}
	h.n.End()
	h.clk = h.clk.Add(5 * time.Second)
	h.n.Begin(h.clk)
}

// ---------------------------------------------------------------- observation

type obs struct {
	snap *core.Snapshot
	bank ac.BankState
	erc  map[string]sdk.Int // "<pair>/<holder>" and "<pair>/supply"
}

// Token balances are observed in two ways: through the contract's own views
// (balanceOf / totalSupply) for the addresses involved in a step, and for ALL
// tracked holders from the raw contract storage in the snapshot (the storage
// layout is calibrated against the views when the world is built and
// re-verified for every holder at every block; a disagreement makes the run
// inconclusive, never a violation).
func pad32(b []byte) []byte { return common.LeftPadBytes(b, 32) }

func balSlotKey(contract, holder common.Address, idx int64) string {
	slot := crypto.Keccak256(pad32(holder.Bytes()), pad32(big.NewInt(idx).Bytes()))
	return string(append(append([]byte{2}, contract.Bytes()...), slot...))
}

func supSlotKey(contract common.Address, idx int64) string {
	return string(append(append([]byte{2}, contract.Bytes()...), pad32(big.NewInt(idx).Bytes())...))
}

func rawInt(kv core.KV, key string) *big.Int { return new(big.Int).SetBytes(kv[key]) }

func (h *hist) view(ctx sdk.Context, p *pair, method string, args ...interface{}) (*big.Int, error) {
	res, err := h.n.ViewAt(ctx, core.ERC20ABI, p.Contract, method, args...)
	if err != nil {
		return nil, err
	}
	return res[0].(*big.Int), nil
}

// calibrate finds the storage slots of _balances and _totalSupply of a token.
func (h *hist) calibrate(p *pair) error {
	ctx := h.n.Ctx()
	kv := h.n.DumpStore(ctx, "evm")
	sup, err := h.view(ctx, p, "totalSupply")
	if err != nil {
		return err
	}
	if sup.Sign() == 0 {
		return fmt.Errorf("cannot calibrate %s: empty supply", p.Name)
	}
	p.BalSlot, p.SupSlot = -1, -1
	for idx := int64(0); idx < 16; idx++ {
		if rawInt(kv, supSlotKey(p.Contract, idx)).Cmp(sup) == 0 {
			p.SupSlot = idx
		}
		okAll := true
		for _, u := range h.users {
			v, err := h.view(ctx, p, "balanceOf", u.Eth)
			if err != nil || v.Sign() == 0 || rawInt(kv, balSlotKey(p.Contract, u.Eth, idx)).Cmp(v) != 0 {
				okAll = false
			}
		}
		if okAll {
			p.BalSlot = idx
		}
	}
	if p.BalSlot < 0 || p.SupSlot < 0 {
		return fmt.Errorf("cannot calibrate storage layout of %s", p.Name)
	}
	return nil
}

// verifyLayout compares raw storage with the views for every holder of every token.
func (h *hist) verifyLayout() bool {
	ctx := h.n.Ctx()
	kv := h.n.DumpStore(ctx, "evm")
	for _, p := range h.pairs {
		for _, a := range h.holders {
			v, err := h.view(ctx, p, "balanceOf", a)
			if err != nil || rawInt(kv, balSlotKey(p.Contract, a, p.BalSlot)).Cmp(v) != 0 {
				h.r.Inconclusive("%s: balanceOf(%s) of %s disagrees with the calibrated storage slot (%v)", h.id, a.Hex(), p.Name, err)
				return false
			}
		}
		v, err := h.view(ctx, p, "totalSupply")
		if err != nil || rawInt(kv, supSlotKey(p.Contract, p.SupSlot)).Cmp(v) != 0 {
			h.r.Inconclusive("%s: totalSupply of %s disagrees with the calibrated storage slot (%v)", h.id, p.Name, err)
			return false
		}
	}
	h.r.Count("layout_verifications", 1)
	return true
}

func (h *hist) ercOf(ctx sdk.Context, snap *core.Snapshot, ps []*pair, involved []common.Address) (map[string]sdk.Int, string) {
	out := map[string]sdk.Int{}
	kv := snap.Stores["evm"]
	mismatch := ""
	for _, p := range ps {
		for _, a := range h.holders {
			if v := rawInt(kv, balSlotKey(p.Contract, a, p.BalSlot)); v.Sign() != 0 {
				out[ercKey(p, a)] = sdk.NewIntFromBigInt(v)
			}
		}
		if v := rawInt(kv, supSlotKey(p.Contract, p.SupSlot)); v.Sign() != 0 {
			out[p.Name+"/supply"] = sdk.NewIntFromBigInt(v)
		}
		// the contract's own answers for the addresses of this step
		for _, a := range involved {
			v, err := h.view(ctx, p, "balanceOf", a)
			raw := rawInt(kv, balSlotKey(p.Contract, a, p.BalSlot))
			if err != nil || v.Cmp(raw) != 0 {
				mismatch = fmt.Sprintf("balanceOf(%s) on %s: view %v (%v) storage %v", a.Hex(), p.Name, v, err, raw)
			}
			h.r.Count("erc20_views", 1)
		}
		v, err := h.view(ctx, p, "totalSupply")
		if raw := rawInt(kv, supSlotKey(p.Contract, p.SupSlot)); err != nil || v.Cmp(raw) != 0 {
			mismatch = fmt.Sprintf("totalSupply on %s: view %v (%v) storage %v", p.Name, v, err, raw)
		}
	}
	return out, mismatch
}

func (h *hist) observe(ps []*pair, involved []common.Address) *obs {
	ctx := h.n.Ctx()
	o := &obs{snap: h.n.Snap(ctx), bank: ac.ReadBank(h.n, ctx)}
	var mm string
	o.erc, mm = h.ercOf(ctx, o.snap, ps, involved)
	if mm != "" && !h.ended {
		h.r.Inconclusive("%s: %s", h.id, mm)
		h.ended = true
	}
	return o
}

func ercKey(p *pair, a common.Address) string { return p.Name + "/" + strings.ToLower(a.Hex()) }

// ---------------------------------------------------------------- expectations

// conv is one conversion message as the generator knows it.
type conv struct {
	Dir      string // coin | erc20
	P        *pair
	Denom    string
	InPair   bool // Denom is one of P's denominations
	Amount   sdk.Int
	From     *core.Account
	RecvAcc  sdk.AccAddress // bank-side form of the receiver
	RecvEth  common.Address // EVM-side form of the receiver
	RecvKind string
	Blocked  bool
	Msg      sdk.Msg
}

func (c *conv) String() string {
	return fmt.Sprintf("convert-%s %s pair=%s denom=%s amount=%s to=%s(%s)", c.Dir, c.From.Name, c.P.Name, c.Denom, c.Amount, c.RecvKind, hex.EncodeToString(c.RecvAcc))
}

// expect adds the movements the statement prescribes for a successful conversion.
func (c *conv) expect(bal, sup, erc ac.Delta) {
	a := c.Amount.BigInt()
	neg := new(big.Int).Neg(a)
	mod := authtypes.NewModuleAddress(aggtypes.ModuleName)
	switch {
	case c.Dir == "coin" && c.P.Kind == "module":
		bal.Add(ac.BalKey(c.From.Acc, c.Denom), neg)
		bal.Add(ac.BalKey(mod, c.Denom), a)
		erc.Add(ercKey(c.P, c.RecvEth), a)
		erc.Add(c.P.Name+"/supply", a)
	case c.Dir == "coin":
		bal.Add(ac.BalKey(c.From.Acc, c.Denom), neg)
		sup.Add(c.Denom, neg)
		erc.Add(ercKey(c.P, aggtypes.ModuleAddress), neg)
		erc.Add(ercKey(c.P, c.RecvEth), a)
	case c.Dir == "erc20" && c.P.Kind == "module":
		erc.Add(ercKey(c.P, c.From.Eth), neg)
		erc.Add(c.P.Name+"/supply", neg)
		bal.Add(ac.BalKey(mod, c.Denom), neg)
		bal.Add(ac.BalKey(c.RecvAcc, c.Denom), a)
	default:
		erc.Add(ercKey(c.P, c.From.Eth), neg)
		erc.Add(ercKey(c.P, aggtypes.ModuleAddress), a)
		bal.Add(ac.BalKey(c.RecvAcc, c.Denom), a)
		sup.Add(c.Denom, a)
	}
}

// ---------------------------------------------------------------- generator

func (h *hist) pick(n int) int { return h.rng.Intn(n) }

// opSetBonus: the owner of the bonus token switches its over-delivery on or off (a token that changes behaviour after
// it was listed).
func (h *hist) opSetBonus() {
	if h.bonus == (common.Address{}) {
		return
	}
	v := []int64{0, 0, 1, 7, 1000}[h.pick(5)]
	data := append([]byte{0x0b, 0x0b, 0x0b, 0x0b}, common.LeftPadBytes(big.NewInt(v).Bytes(), 32)...)
	if _, err := h.n.App.AggregateKeeper.CallEVMWithData(h.n.Ctx(), h.dep.Eth, &h.bonus, data); err != nil {
		return
	}
	h.ops = append(h.ops, fmt.Sprintf("bonus token: bonus=%d", v))
	h.r.Count(fmt.Sprintf("bonus_token_set_to/%d", v), 1)
	if h.pick(2) == 0 {
		h.lieProbe()
	}
}

// lieProbe: the bonus token starts to signal failure through its return value instead of reverting (1 = moves the tokens
// and returns false, 2 = moves nothing and returns false), conversions are attempted in both directions under each mode,
// and the token becomes honest again. A conversion over a token that says "false" has not happened.
func (h *hist) lieProbe() {
	var bp *pair
	for _, p := range h.pairs {
		if p.Name == "bonus" {
			bp = p
		}
	}
	if bp == nil || h.ended || h.bonus == (common.Address{}) {
		return
	}
	set := func(lie int64) bool {
		data := append([]byte{0x0c, 0x0c, 0x0c, 0x0c}, common.LeftPadBytes(big.NewInt(lie).Bytes(), 32)...)
		if _, err := h.n.App.AggregateKeeper.CallEVMWithData(h.n.Ctx(), h.dep.Eth, &h.bonus, data); err != nil {
			return false
		}
		h.ops = append(h.ops, fmt.Sprintf("bonus token: return-value mode=%d", lie))
		return true
	}
	h.forcePair = bp
	defer func() { h.forcePair = nil }()
	for _, lie := range []int64{1, 2} {
		if !set(lie) {
			return
		}
		h.r.Count(fmt.Sprintf("bonus_token_return_value_mode/%d", lie), 1)
		for _, dir := range []string{"erc20", "coin"} {
			if h.ended {
				break
			}
			h.opConvert(dir)
			h.invariants(h.touched)
		}
	}
	set(0)
}

// skimProbe: the fee-taking token (delivers half of every transfer) is asked to convert amounts whose shortfall is a
// multiple of 2^64 - 2^65 and 2^66 units - from the one holder rich enough; a check of the escrow that looks at a
// truncated number would let such a conversion through.
func (h *hist) skimProbe() {
	var dp *pair
	for _, p := range h.pairs {
		if p.Name == "direct" {
			dp = p
		}
	}
	if dp == nil || h.ended {
		return
	}
	h.forcePair, h.forceFrom = dp, h.users[0]
	defer func() { h.forcePair, h.forceFrom, h.forceAmt = nil, nil, nil }()
	for _, k := range []uint{65, 66} {
		if h.ended {
			break
		}
		h.forceAmt = new(big.Int).Lsh(big.NewInt(1), k)
		h.opConvert("erc20")
		h.invariants(h.touched)
		h.r.Count(fmt.Sprintf("fee_token_conversions_with_shortfall_multiple_of_2^64/2^%d", k), 1)
	}
}

// bonusProbe: tokens of the bonus pair are converted into vouchers while the token behaves (the module's escrow builds
// up), the owner then switches the bonus on, and vouchers are converted back - the step in which an over-delivering
// token pays out more than was asked for unless the conversion notices.
func (h *hist) bonusProbe() {
	var bp *pair
	for _, p := range h.pairs {
		if p.Name == "bonus" {
			bp = p
		}
	}
	if bp == nil || h.ended {
		return
	}
	set := func(v int64) {
		data := append([]byte{0x0b, 0x0b, 0x0b, 0x0b}, common.LeftPadBytes(big.NewInt(v).Bytes(), 32)...)
		if _, err := h.n.App.AggregateKeeper.CallEVMWithData(h.n.Ctx(), h.dep.Eth, &h.bonus, data); err == nil {
			h.ops = append(h.ops, fmt.Sprintf("bonus token: bonus=%d", v))
		}
	}
	h.forcePair = bp
	defer func() { h.forcePair = nil }()
	set(0)
	h.opConvert("erc20")
	h.invariants(h.touched)
	if h.ended {
		return
	}
	set([]int64{1, 5, 250}[h.pick(3)])
	h.r.Count("bonus_probes", 1)
	for i := 0; i < 2 && !h.ended; i++ {
		h.opConvert("coin")
		h.invariants(h.touched)
	}
	if h.pick(2) == 0 {
		set(0)
	}
}

func (h *hist) step() {
	w := h.pick(100)
	if !h.modOn {
		h.offSteps++
		if h.offSteps > 4 {
			w = 85 // switch the module on again
		}
	} else {
		h.offSteps = 0
	}
	switch {
	case w < 40:
		h.opConvert("coin")
	case w < 80:
		h.opConvert("erc20")
	case w < 83:
		h.opTogglePair()
	case w < 84:
		h.opAddCoin()
	case w < 86:
		h.opToggleModule()
	case w < 89:
		h.opToggleSend()
	case w < 92:
		h.opERC20Transfer()
	case w < 93:
		if h.pick(2) == 0 {
			h.opSetBonus()
		} else {
			h.bonusProbe()
		}
	case w < 96:
		h.opBankSend()
	default:
		h.opHook()
	}
	// the backing invariants are judged after every step, also after a step that was already refuted
	h.invariants(h.touched)
	h.touched = nil
}

var big255 = new(big.Int).Sub(new(big.Int).Lsh(big.NewInt(1), 255), big.NewInt(1))

func (h *hist) amount(balance *big.Int) sdk.Int {
	switch h.pick(24) {
	case 0:
		if h.pick(2) == 0 {
			return sdk.OneInt()
		}
		return sdk.ZeroInt()
	case 1:
		return sdk.OneInt()
	case 2:
		return sdk.NewIntFromBigInt(balance)
	case 3:
		return sdk.NewIntFromBigInt(new(big.Int).Add(balance, big.NewInt(1)))
	case 4:
		return sdk.NewIntFromBigInt(big255)
	case 5:
		return sdk.NewIntFromBigInt(new(big.Int).Lsh(big.NewInt(1), uint(64+h.pick(190))))
	case 6:
		if balance.Sign() > 0 {
			return sdk.NewIntFromBigInt(new(big.Int).Sub(balance, big.NewInt(1)))
		}
		return sdk.OneInt()
	case 7:
		return sdk.NewInt(2)
	case 8:
		return sdk.NewInt(3)
	}
	return sdk.NewInt(int64(1 + h.pick(5000)))
}

func (h *hist) receiver(self *core.Account) (sdk.AccAddress, string, bool) {
	switch x := h.pick(22); {
	case x < 11:
		return self.Acc, "self", false
	case x < 15:
		u := h.users[h.pick(len(h.users))]
		return u.Acc, "user", false
	case x < 17:
		f := h.fresh[h.pick(len(h.fresh))]
		return f.Acc, "fresh", false
	case x < 20:
		return h.blocked[h.pick(len(h.blocked))], "blocked", true
	case x < 21:
		return h.allowed, "allowed-module", false
	}
	if h.pick(2) == 0 {
		return sdk.AccAddress(thief.Bytes()), "thief", false
	}
	return sdk.AccAddress(core.ZeroAddr.Bytes()), "zero", false
}

func (h *hist) genConv(dir string) *conv {
	u := h.users[h.pick(len(h.users))]
	p := h.pickPair()
	denom := p.Denoms[h.pick(len(p.Denoms))]
	inPair := true
	if h.pick(20) == 0 {
		q := h.pairs[h.pick(len(h.pairs))]
		denom = q.Denoms[h.pick(len(q.Denoms))]
		if h.pick(3) == 0 {
			denom = h.freeCoin
		}
		inPair = false
		for _, d := range p.Denoms {
			inPair = inPair || d == denom
		}
	}
	if dir == "coin" && !inPair {
		// MsgConvertCoin names the pair only through the denomination
		for _, q := range h.pairs {
			for _, d := range q.Denoms {
				if d == denom {
					p, inPair = q, true
				}
			}
		}
	}
	ctx := h.n.Ctx()
	srcBal := func(x *core.Account) *big.Int {
		if dir == "coin" {
			return h.n.App.BankKeeper.GetBalance(ctx, x.Acc, denom).Amount.BigInt()
		}
		if v, err := h.view(ctx, p, "balanceOf", x.Eth); err == nil {
			return v
		}
		return big.NewInt(0)
	}
	if h.forceFrom != nil {
		u = h.forceFrom
	}
	bal := srcBal(u)
	if bal.Sign() == 0 && h.pick(5) > 0 {
		// prefer a sender that owns something to convert
		for _, x := range h.users {
			if b := srcBal(x); b.Sign() > 0 {
				u, bal = x, b
				break
			}
		}
	}
	c := &conv{Dir: dir, P: p, Denom: denom, InPair: inPair, From: u}
	acc, kind, blocked := h.receiver(u)
	c.RecvAcc, c.RecvEth, c.RecvKind, c.Blocked = acc, common.BytesToAddress(acc), kind, blocked
	c.Amount = h.amount(bal)
	if h.forceAmt != nil {
		c.Amount = sdk.NewIntFromBigInt(h.forceAmt)
	}
	if dir == "coin" {
		c.Msg = &aggtypes.MsgConvertCoin{Coin: sdk.Coin{Denom: denom, Amount: c.Amount}, Receiver: c.RecvEth.Hex(), Sender: u.Acc.String()}
	} else {
		c.Msg = &aggtypes.MsgConvertERC20{ContractAddress: p.Contract.Hex(), Amount: c.Amount, Receiver: c.RecvAcc.String(), Sender: u.Eth.Hex(), Denom: denom}
	}
	return c
}

func (h *hist) flags(c *conv) string {
	return fmt.Sprintf("mod=%v pair=%v sendoff=%v", h.modOn, c.P.Enabled, h.sendOff[c.Denom])
}

func (h *hist) opConvert(dir string) {
	cs := []*conv{h.genConv(dir)}
	if h.pick(12) == 0 {
		// two conversions of the same signer in one transaction (atomic as a whole)
		c2 := h.genConv([]string{"coin", "erc20"}[h.pick(2)])
		c2.From = cs[0].From
		switch m := c2.Msg.(type) {
		case *aggtypes.MsgConvertCoin:
			m.Sender = c2.From.Acc.String()
		case *aggtypes.MsgConvertERC20:
			m.Sender = c2.From.Eth.Hex()
		}
		cs = append(cs, c2)
	}
	gas := uint64(8_000_000)
	starved := false
	if h.pick(10) == 0 {
		gas = uint64(30_000 + h.pick(450_000))
		starved = true
	}
	var msgs []sdk.Msg
	var descs []string
	pset := map[string]*pair{}
	basicOK := true
	for _, c := range cs {
		msgs = append(msgs, c.Msg)
		descs = append(descs, c.String()+" ["+h.flags(c)+"]")
		pset[c.P.Name] = c.P
		if err := c.Msg.ValidateBasic(); err != nil {
			basicOK = false
		}
	}
	var ps []*pair
	for _, p := range h.pairs {
		if pset[p.Name] != nil {
			ps = append(ps, p)
		}
	}
	desc := strings.Join(descs, " + ")
	if starved {
		desc += fmt.Sprintf(" gas=%d", gas)
	}
	first := cs[0]
	tag := fmt.Sprintf("convert-%s/%s/%s", first.Dir, first.P.Kind, first.P.TokKind)
	if len(cs) > 1 {
		tag = "two-msg-tx"
	}
	tx, err := h.n.CosmosTx(first.From, gas, msgs...)
	if err != nil {
		h.r.Inconclusive("cannot build tx in %s: %v", h.id, err)
		h.ended = true
		return
	}
	h.touched = ps
	involved := []common.Address{aggtypes.ModuleAddress, first.From.Eth}
	for _, c := range cs {
		involved = append(involved, c.RecvEth)
	}
	pre := h.observe(ps, involved)
	res := h.n.Deliver(tx)
	post := h.observe(ps, involved)
	if h.ended {
		return
	}
	fromBal := h.balanceForKey(pre, first)
	h.r.Eval(fmt.Sprintf("%s|senderbal=%s", desc, fromBal), basicOK)
	h.r.Count("tx_"+tag, 1)
	if res.Code != 0 {
		h.ops = append(h.ops, fmt.Sprintf("%s -> failed %s/%d", desc, res.Codespace, res.Code))
		h.r.Count("tx_failed", 1)
		h.r.Count(fmt.Sprintf("fail_%s_%d", res.Codespace, res.Code), 1)
		if d := core.DiffSnap(pre.snap, post.snap); len(d) > 0 {
			h.r.Violation(h.id, tag+"/failed-but-state-changed", map[string]interface{}{"step": desc, "code": res.Code, "codespace": res.Codespace, "log": firstLine(res.Log), "diff": core.TrimDiff(d, 12), "ops": h.tail()})
			h.ended = true
		}
		return
	}
	h.ops = append(h.ops, desc+" -> ok")
	h.r.Count("tx_ok", 1)
	h.r.Count("ok_"+tag, 1)
	h.okCount["ok_"+tag]++
	// refusals the statement demands
	for _, c := range cs {
		ctag := fmt.Sprintf("convert-%s/%s/%s", c.Dir, c.P.Kind, c.P.TokKind)
		if !h.modOn {
			h.r.Violation(h.id, ctag+"/accepted-while-module-disabled", map[string]interface{}{"step": desc, "ops": h.tail()})
		}
		if !c.P.Enabled {
			h.r.Violation(h.id, ctag+"/accepted-while-pair-disabled", map[string]interface{}{"step": desc, "ops": h.tail()})
		}
		if c.Blocked {
			h.r.Violation(h.id, ctag+"/paid-out-to-blocked-address", map[string]interface{}{"step": desc, "receiver": c.RecvAcc.String(), "ops": h.tail()})
		}
		if !c.InPair {
			h.r.Violation(h.id, ctag+"/denomination-of-another-pair-accepted", map[string]interface{}{"step": desc, "ops": h.tail()})
		}
		h.r.Count("ok_recv_"+c.RecvKind, 1)
	}
	// exact movement, nothing else
	eb, es, ee := ac.Delta{}, ac.Delta{}, ac.Delta{}
	for _, c := range cs {
		c.expect(eb, es, ee)
	}
	h.judgeMove(tag, desc, pre, post, eb, es, ee, ps, receivers(cs))
}

func receivers(cs []*conv) map[string]bool {
	out := map[string]bool{}
	for _, c := range cs {
		out[c.RecvAcc.String()] = true
	}
	return out
}

func (h *hist) balanceForKey(o *obs, c *conv) string {
	if c.Dir == "coin" {
		if v, ok := o.bank.Bal[ac.BalKey(c.From.Acc, c.Denom)]; ok {
			return v.String()
		}
		return "0"
	}
	if v, ok := o.erc[ercKey(c.P, c.From.Eth)]; ok {
		return v.String()
	}
	return "0"
}

// judgeMove compares the observed change of the whole bank module, the ERC-20
// views and every other store with the expected movement.
func (h *hist) judgeMove(tag, desc string, pre, post *obs, eb, es, ee ac.Delta, ps []*pair, newAccOK map[string]bool) bool {
	ob := ac.DiffInts(pre.bank.Bal, post.bank.Bal)
	os := ac.DiffInts(pre.bank.Supply, post.bank.Supply)
	oe := ac.DiffInts(pre.erc, post.erc)
	ok := true
	if !ob.Equal(eb) || !os.Equal(es) || !oe.Equal(ee) {
		ok = false
		h.r.Violation(h.id, tag+"/inexact-move", map[string]interface{}{
			"step": desc, "expected_bank": eb.String(), "observed_bank": ob.String(), "expected_supply": es.String(), "observed_supply": os.String(),
			"expected_erc20": ee.String(), "observed_erc20": oe.String(), "ops": h.tail(),
		})
	}
	// nothing else: no store outside bank balances/supply and the storage of the pair's contract
	var stray []core.DiffEntry
	for _, d := range core.DiffSnap(pre.snap, post.snap) {
		switch d.Store {
		case "bank":
			k := strings.TrimPrefix(d.Key, "0x")
			if strings.HasPrefix(k, "02") || strings.HasPrefix(k, "00") {
				continue // balances / supply: judged exactly above through the keeper-independent totals
			}
		case "evm":
			k := strings.TrimPrefix(d.Key, "0x")
			own := false
			for _, p := range ps {
				own = own || strings.HasPrefix(k, "02"+hex.EncodeToString(p.Contract.Bytes()))
			}
			if own {
				continue
			}
		case "acc-table":
			if d.Op == "add" && newAccOK[d.Key] {
				continue // first coins received by a new address create its account
			}
		}
		stray = append(stray, d)
	}
	if len(stray) > 0 {
		ok = false
		h.r.Violation(h.id, tag+"/unrelated-state-changed", map[string]interface{}{"step": desc, "diff": core.TrimDiff(stray, 12), "ops": h.tail()})
	}
	if !ok {
		h.ended = true
	}
	return ok
}

func (h *hist) tail() []string {
	if len(h.ops) > 25 {
		return h.ops[len(h.ops)-25:]
	}
	return h.ops
}

// ---------------------------------------------------------------- toggles and noise

func (h *hist) opTogglePair() {
	p := h.pairs[h.pick(len(h.pairs))]
	// disabled pairs are mostly switched on again soon (a disabled pair only produces refusals)
	var off []*pair
	for _, q := range h.pairs {
		if !q.Enabled {
			off = append(off, q)
		}
	}
	if len(off) > 0 && h.pick(3) > 0 {
		p = off[h.pick(len(off))]
	}
	np, err := h.n.App.AggregateKeeper.ToggleRelay(h.n.Ctx(), p.Contract.Hex())
	if err != nil {
		h.r.Inconclusive("toggle failed in %s: %v", h.id, err)
		h.ended = true
		return
	}
	p.Enabled = !p.Enabled
	if np.Enabled != p.Enabled {
		h.r.Inconclusive("toggle model out of sync in %s", h.id)
		h.ended = true
	}
	h.ops = append(h.ops, fmt.Sprintf("toggle pair %s -> %v", p.Name, p.Enabled))
	h.r.Count("toggle_pair", 1)
	if !p.Enabled && p.Kind == "module" && len(h.spare) > 0 && h.pick(2) == 0 {
		h.addCoinTo(p)
	}
}

// opAddCoin: governance aggregates one more funded coin into a module-owned pair, enabled or not. The pair keeps its
// switch: a disabled pair stays disabled (for all of its denominations, the new one included) until it is toggled.
func (h *hist) opAddCoin() {
	if len(h.spare) == 0 {
		h.opTogglePair()
		return
	}
	var mod []*pair
	for _, q := range h.pairs {
		if q.Kind == "module" {
			mod = append(mod, q)
		}
	}
	if len(mod) == 0 {
		return
	}
	p := mod[h.pick(len(mod))]
	for _, q := range mod {
		if !q.Enabled && h.pick(3) > 0 {
			p = q
		}
	}
	h.addCoinTo(p)
}

func (h *hist) addCoinTo(p *pair) {
	d := h.spare[0]
	g := ac.Gov(h.n, h.n.Ctx(), aggtypes.NewAddCoinProposal("t", "d", coinMeta(d), p.Contract.Hex()))
	h.r.Eval(fmt.Sprintf("%s/%d/add-coin/%s/enabled=%v/module=%v", h.id, len(h.ops), p.Name, p.Enabled, h.modOn), g.Validated)
	if g.Panicked {
		h.r.Violation(h.id, "add-coin/handler-panicked", map[string]interface{}{"pair": p.Name, "denom": d, "ops": h.tail()})
		return
	}
	if g.Err != nil {
		h.ops = append(h.ops, fmt.Sprintf("add coin %s to %s refused: %v", d, p.Name, g.Err))
		h.r.Count("add_coin_refused", 1)
		return
	}
	g.Write()
	h.spare = h.spare[1:]
	p.Denoms = append(p.Denoms, d)
	h.ops = append(h.ops, fmt.Sprintf("add coin %s to %s (enabled=%v)", d, p.Name, p.Enabled))
	h.r.Count(fmt.Sprintf("add_coin/pair_enabled=%v", p.Enabled), 1)
	stored, ok := h.n.App.AggregateKeeper.GetTokenPair(h.n.Ctx(), h.n.App.AggregateKeeper.GetTokenPairID(h.n.Ctx(), p.Contract.Hex()))
	if !ok || stored.Enabled != p.Enabled {
		h.r.Violation(h.id, "add-coin/changed-the-pair-switch", map[string]interface{}{"pair": p.Name, "denom": d, "enabled_before": p.Enabled, "stored_enabled": stored.Enabled, "ops": h.tail()})
	}
	h.touched = append(h.touched, p)
}

func (h *hist) opToggleModule() {
	h.modOn = !h.modOn
	if h.pick(2) == 0 {
		// the way a live chain does it: a passed parameter-change proposal writes the raw parameter key
		pc := paramproposal.NewParameterChangeProposal("t", "d", []paramproposal.ParamChange{paramproposal.NewParamChange(aggtypes.ModuleName, "EnableAggregate", fmt.Sprintf("%v", h.modOn))})
		handler := params.NewParamChangeProposalHandler(h.n.App.ParamsKeeper)
		cctx, write := h.n.Ctx().CacheContext()
		if err := pc.ValidateBasic(); err != nil {
			h.r.Inconclusive("parameter-change proposal invalid in %s: %v", h.id, err)
			h.ended = true
			return
		}
		if err := handler(cctx, pc); err != nil {
			h.r.Inconclusive("parameter-change proposal failed in %s: %v", h.id, err)
			h.ended = true
			return
		}
		write()
		h.ops = append(h.ops, fmt.Sprintf("module enabled -> %v (parameter-change proposal)", h.modOn))
		h.r.Count("toggle_module_by_parameter_change_proposal", 1)
		return
	}
	prm := h.n.App.AggregateKeeper.GetParams(h.n.Ctx())
	prm.EnableAggregate = h.modOn
	h.n.App.AggregateKeeper.SetParams(h.n.Ctx(), prm)
	h.ops = append(h.ops, fmt.Sprintf("module enabled -> %v", h.modOn))
	h.r.Count("toggle_module", 1)
}

func (h *hist) opToggleSend() {
	var all []string
	for _, p := range h.pairs {
		all = append(all, p.Denoms...)
	}
	d := all[h.pick(len(all))]
	h.sendOff[d] = !h.sendOff[d]
	prm := banktypes.DefaultParams()
	var ks []string
	for k, off := range h.sendOff {
		if off {
			ks = append(ks, k)
		}
	}
	sort.Strings(ks)
	for _, k := range ks {
		prm.SendEnabled = append(prm.SendEnabled, &banktypes.SendEnabled{Denom: k, Enabled: false})
	}
	h.n.App.BankKeeper.SetParams(h.n.Ctx(), prm)
	h.ops = append(h.ops, fmt.Sprintf("send-enabled[%s] -> %v", d, !h.sendOff[d]))
	h.r.Count("toggle_send", 1)
}

func (h *hist) opERC20Transfer() {
	u := h.users[h.pick(len(h.users))]
	p := h.pairs[h.pick(len(h.pairs))]
	h.touched = []*pair{p}
	to := h.users[h.pick(len(h.users))].Eth
	if h.pick(3) == 0 {
		to = aggtypes.ModuleAddress // a gift to the escrow: over-backing is allowed
	}
	data, _ := core.ERC20ABI.Pack("transfer", to, big.NewInt(int64(1+h.pick(500))))
	tx, err := h.n.EthTx(u, &p.Contract, nil, 500000, data)
	if err != nil {
		h.r.Inconclusive("cannot build eth tx: %v", err)
		h.ended = true
		return
	}
	res := core.DecodeEthResult(h.n.Deliver(tx))
	h.ops = append(h.ops, fmt.Sprintf("erc20 transfer %s on %s to %s ok=%v", u.Name, p.Name, to.Hex(), res.OK()))
	h.r.Count("noise_erc20_transfer", 1)
}

func (h *hist) opBankSend() {
	u := h.users[h.pick(len(h.users))]
	v := h.users[h.pick(len(h.users))]
	p := h.pairs[h.pick(len(h.pairs))]
	h.touched = []*pair{p}
	d := p.Denoms[h.pick(len(p.Denoms))]
	msg := banktypes.NewMsgSend(u.Acc, v.Acc, sdk.NewCoins(sdk.NewInt64Coin(d, int64(1+h.pick(500)))))
	tx, err := h.n.CosmosTx(u, 500000, msg)
	if err != nil {
		h.r.Inconclusive("cannot build send tx: %v", err)
		h.ended = true
		return
	}
	res := h.n.Deliver(tx)
	h.ops = append(h.ops, fmt.Sprintf("bank send %s->%s %s code=%d", u.Name, v.Name, d, res.Code))
	h.r.Count("noise_bank_send", 1)
}

// opHook drives the IBC receive hook (keeper.OnRecvPacket) the way the
// middleware does after the transfer module credited the receiver: the voucher
// is converted for the receiver, or nothing happens.
func (h *hist) opHook() {
	var p *pair
	for _, q := range h.pairs {
		if q.Name == "mi" {
			p = q
		}
	}
	u := h.users[h.pick(len(h.users))]
	bal := h.n.App.BankKeeper.GetBalance(h.n.Ctx(), u.Acc, ac.IBCCoin).Amount.BigInt()
	amt := h.amount(bal)
	amtStr := amt.String()
	baseDenom := ac.IBCBaseDenom
	switch h.pick(12) {
	case 0:
		amtStr = "12x"
	case 1:
		baseDenom = "uosmo" // a voucher that is not registered
	}
	receiver := u.Acc.String()
	zeroRecv := false
	if h.pick(8) == 0 && amt.IsPositive() && amtStr == amt.String() && baseDenom == ac.IBCBaseDenom {
		// the receiver is the all-zero address (holding the vouchers the transfer module would just have minted to it): the
		// coins can be escrowed, but the token contract refuses to mint to 0x0 - the conversion fails AFTER its first step
		zero := sdk.AccAddress(make([]byte, 20))
		if err := h.n.App.BankKeeper.SendCoins(h.n.Ctx(), u.Acc, zero, sdk.NewCoins(sdk.NewCoin(ac.IBCCoin, amt))); err == nil {
			receiver, zeroRecv = zero.String(), true
		}
	}
	data := transfertypes.FungibleTokenPacketData{Denom: baseDenom, Amount: amtStr, Sender: "cosmos1sender", Receiver: receiver}
	bz, _ := json.Marshal(map[string]string{"denom": data.Denom, "amount": data.Amount, "sender": data.Sender, "receiver": data.Receiver})
	packet := channeltypes.NewPacket(bz, 1, "transfer", "channel-7", ac.IBCPort, ac.IBCChannel, clienttypes.NewHeight(1, 1000), 0)
	ack := channeltypes.NewResultAcknowledgement([]byte{1})
	desc := fmt.Sprintf("ibc-hook %s %s%s [mod=%v pair=%v zero-receiver=%v]", u.Name, amtStr, baseDenom, h.modOn, p.Enabled, zeroRecv)
	ps := []*pair{p}
	h.touched = ps
	involved := []common.Address{aggtypes.ModuleAddress, u.Eth}
	pre := h.observe(ps, involved)
	err, panicked := core.Catch(func() error {
		h.n.App.AggregateKeeper.OnRecvPacket(h.n.Ctx().WithEventManager(sdk.NewEventManager()), packet, ack)
		return nil
	})
	post := h.observe(ps, involved)
	if h.ended {
		return
	}
	h.r.Count("hook_calls", 1)
	h.r.Eval(desc+"|bal="+bal.String(), true)
	if panicked {
		h.ops = append(h.ops, desc+" -> panic")
		h.r.Count("hook_panics", 1)
		if d := core.DiffSnap(pre.snap, post.snap); len(d) > 0 {
			h.r.Violation(h.id, "ibc-hook/panicked-and-state-changed", map[string]interface{}{"step": desc, "err": err.Error(), "diff": core.TrimDiff(d, 12), "ops": h.tail()})
			h.ended = true
		}
		return
	}
	if d := core.DiffSnap(pre.snap, post.snap); len(d) == 0 {
		h.ops = append(h.ops, desc+" -> nothing")
		h.r.Count("hook_noop", 1)
		if zeroRecv {
			h.r.Count("hook_zero_address_receiver_untouched", 1)
		}
		return
	}
	if zeroRecv {
		h.ops = append(h.ops, desc+" -> state changed for the zero-address receiver")
		h.r.Violation(h.id, "ibc-hook/failed-conversion-left-state-behind", map[string]interface{}{"step": desc, "diff": core.TrimDiff(core.DiffSnap(pre.snap, post.snap), 12), "ops": h.tail()})
		h.ended = true
		return
	}
	h.ops = append(h.ops, desc+" -> converted")
	h.r.Count("hook_converted", 1)
	h.okCount["hook_converted"]++
	if !h.modOn {
		h.r.Violation(h.id, "ibc-hook/accepted-while-module-disabled", map[string]interface{}{"step": desc, "ops": h.tail()})
	}
	if !p.Enabled {
		h.r.Violation(h.id, "ibc-hook/accepted-while-pair-disabled", map[string]interface{}{"step": desc, "ops": h.tail()})
	}
	if baseDenom != ac.IBCBaseDenom || amtStr != amt.String() {
		h.r.Violation(h.id, "ibc-hook/converted-unexpected-packet", map[string]interface{}{"step": desc, "ops": h.tail()})
		h.ended = true
		return
	}
	c := &conv{Dir: "coin", P: p, Denom: ac.IBCCoin, InPair: true, Amount: amt, From: u, RecvAcc: u.Acc, RecvEth: u.Eth, RecvKind: "self"}
	eb, es, ee := ac.Delta{}, ac.Delta{}, ac.Delta{}
	c.expect(eb, es, ee)
	h.judgeMove("ibc-hook", desc, pre, post, eb, es, ee, ps, map[string]bool{})
}

// ---------------------------------------------------------------- invariants

func (h *hist) invariants(ps []*pair) {
	ctx := h.n.Ctx()
	mod := authtypes.NewModuleAddress(aggtypes.ModuleName)
	for _, p := range ps {
		switch p.Kind {
		case "module":
			res, err := h.n.ViewAt(ctx, core.ERC20ABI, p.Contract, "totalSupply")
			if err != nil {
				h.r.Inconclusive("totalSupply view failed: %v", err)
				h.ended = true
				return
			}
			sup := res[0].(*big.Int)
			esc := new(big.Int)
			for _, d := range p.Denoms {
				esc.Add(esc, h.n.App.BankKeeper.GetBalance(ctx, mod, d).Amount.BigInt())
			}
			h.r.Count("backing_checks_module_pair", 1)
			switch sup.Cmp(esc) {
			case 1:
				h.r.Violation(h.id, "backing/module-pair/supply-exceeds-escrow", map[string]interface{}{"pair": p.Name, "denoms": p.Denoms, "totalSupply": sup.String(), "escrow": esc.String(), "ops": h.tail()})
				h.ended = true
			case -1:
				h.r.Count("module_pair_over_backed", 1)
			}
		case "external":
			res, err := h.n.ViewAt(ctx, core.ERC20ABI, p.Contract, "balanceOf", aggtypes.ModuleAddress)
			if err != nil {
				h.r.Inconclusive("balanceOf view failed: %v", err)
				h.ended = true
				return
			}
			esc := res[0].(*big.Int)
			sup := h.n.App.BankKeeper.GetSupply(ctx, p.Denoms[0]).Amount.BigInt()
			h.r.Count("backing_checks_voucher", 1)
			switch sup.Cmp(esc) {
			case 1:
				h.r.Violation(h.id, "backing/voucher/"+p.TokKind+"/supply-exceeds-escrow", map[string]interface{}{"pair": p.Name, "voucher_supply": sup.String(), "escrowed_tokens": esc.String(), "ops": h.tail()})
				h.ended = true
			case -1:
				h.r.Count("voucher_over_backed", 1)
			}
		}
	}
}

func firstLine(s string) string {
	if i := strings.IndexByte(s, '\n'); i >= 0 {
		s = s[:i]
	}
	if len(s) > 300 {
		s = s[:300]
	}
	return s
}
