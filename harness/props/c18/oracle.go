package c18

// oracle.go: execution of one lifecycle operation the way governance executes a
// passed proposal, and the judgement of what is observed at the boundary
// (handler result, dump of the client's prefix of the xibc store, Status(),
// VerifyPacketCommitment at the installed height, results of MsgUpdateClient
// transactions).

import (
	"bytes"
	"fmt"
	"math/rand"
	"os"
	"regexp"
	"sort"
	"strings"

	"github.com/ethereum/go-ethereum/common"

	sdk "github.com/cosmos/cosmos-sdk/types"

	bsctypes "github.com/teleport-network/teleport/x/xibc/clients/light-clients/bsc/types"
	ethtypes "github.com/teleport-network/teleport/x/xibc/clients/light-clients/eth/types"
	xtm "github.com/teleport-network/teleport/x/xibc/clients/light-clients/tendermint/types"
	tsstypes "github.com/teleport-network/teleport/x/xibc/clients/tss-client/types"
	clienttypes "github.com/teleport-network/teleport/x/xibc/core/client/types"
	"github.com/teleport-network/teleport/x/xibc/core/host"
	"github.com/teleport-network/teleport/x/xibc/exported"

	"verif/harness/core"
)

// slot is the reference model of one chain name: whether a client exists under
// it, of which type, and which generated instance it was last given.
type slot struct {
	name    string
	exists  bool
	typ     string
	in      *inst
	history []string // types the name has carried, in order
	updates int      // accepted updates since the last install
	// unusable: the last successful install was already reported as not usable (or was built to be
	// unusable and accepted); follow-up updates / proofs on it are consequences, not new findings
	unusable bool
	// tainted: contents with a consensus state of another client type were accepted under this name
	// (reported, or not judged for TSS); what later operations on the name find in the store is a
	// consequence of that and is not judged again
	tainted bool
}

func (s *slot) hist() string {
	h := s.history
	if len(h) > 4 {
		h = h[len(h)-4:]
	}
	return strings.Join(h, ">")
}

type caseRun struct {
	e     *env
	id    string
	rng   *rand.Rand
	slots []*slot
	log   []string
}

func (c *caseRun) note(format string, a ...interface{}) {
	c.log = append(c.log, fmt.Sprintf(format, a...))
}

func (c *caseRun) tail() []string {
	if len(c.log) > 14 {
		return c.log[len(c.log)-14:]
	}
	return c.log
}

func (c *caseRun) viol(key string, detail map[string]interface{}) {
	detail["case"] = c.id
	detail["steps"] = c.tail()
	c.e.r.Violation(c.id, key, detail)
}

func prefixOf(name string) []byte { return []byte("clients/" + name + "/") }

func (c *caseRun) dump(name string) core.KV {
	return c.e.n.DumpPrefix(c.e.n.Ctx(), host.StoreKey, prefixOf(name))
}

var (
	reBech = regexp.MustCompile(`[a-z]{2,12}1[02-9ac-hj-np-z]{30,}`)
	reHex  = regexp.MustCompile(`0x[0-9a-fA-F]+|[0-9a-fA-F]{16,}`)
	reNum  = regexp.MustCompile(`[0-9]+`)
	reSep  = regexp.MustCompile(`[^a-zA-Z]+`)
)

// errSlug turns an error text into a short, seed-independent class.
func errSlug(s string) string {
	if i := strings.Index(s, "PANIC"); i >= 0 {
		return "panic"
	}
	if strings.Contains(s, "nil pointer") || strings.Contains(s, "recovered:") {
		return "panic"
	}
	if strings.Contains(s, "Upgrade client failed") {
		return "upgrade-client-failed" // UpgradeClient hides the reason
	}
	for _, p := range []string{"failed to execute message; message index: 0: ", "cannot update client "} {
		if i := strings.Index(s, p); i >= 0 {
			s = s[i+len(p):]
		}
	}
	if i := strings.Index(s, ": "); i > 0 && i < 70 {
		if j := strings.Index(s[i+2:], ": "); j > 0 {
			s = s[i+2 : i+2+j]
		}
	}
	s = reBech.ReplaceAllString(s, " ")
	s = reHex.ReplaceAllString(s, " ")
	s = reNum.ReplaceAllString(s, " ")
	s = strings.Trim(reSep.ReplaceAllString(s, "-"), "-")
	if len(s) > 60 {
		s = s[:60]
	}
	return strings.ToLower(s)
}

// validName is the reference rule for chain names: 3..64 characters out of
// letters, digits and . _ + - # [ ] < >.
func validName(s string) bool {
	if len(s) < 3 || len(s) > 64 {
		return false
	}
	for _, ch := range []byte(s) {
		switch {
		case ch >= 'a' && ch <= 'z', ch >= 'A' && ch <= 'Z', ch >= '0' && ch <= '9':
		case strings.IndexByte("._+-#[]<>", ch) >= 0:
		default:
			return false
		}
	}
	return true
}

// lifecycle executes one create / upgrade / toggle proposal on the slot. variant describes how the
// content was built: "valid", "later" (valid, same counterparty at a later anchor), "flawed",
// "foreign-cons:<type>".
func (c *caseRun) lifecycle(op string, sl *slot, in *inst, cons exported.ConsensusState, variant string, quiet ...bool) bool {
	e, r := c.e, c.e.r
	n := e.n
	oldType := "none"
	if sl.exists {
		oldType = sl.typ
	}
	pair := oldType + "->" + in.typ
	if op == "create" {
		pair = in.typ
	}
	cdc := n.App.AppCodec()
	wantCS, err1 := cdc.MarshalInterface(in.cs)
	wantCons, err2 := cdc.MarshalInterface(cons)
	ct, err3 := content(op, sl.name, in.cs, cons)
	if err1 != nil || err2 != nil || err3 != nil {
		r.Inconclusive("%s: cannot build %s content: %v %v %v", c.id, op, err1, err2, err3)
		return false
	}
	evalKey := fmt.Sprintf("%s|%s|%s|hist=%s|upd=%d|unusable=%v", op, pair, variant, sl.hist(), minInt(sl.updates, 3), sl.unusable)
	if err := ct.ValidateBasic(); err != nil {
		// governance refuses such a proposal at submission: it is never executed
		r.Eval(evalKey+"|validate-basic", false)
		r.Count("lifecycle/refused-by-validate-basic", 1)
		c.note("%s %s %s [%s]: refused by ValidateBasic: %v", op, sl.name, pair, variant, err)
		if variant == "valid" || variant == "later" {
			r.Inconclusive("%s: a generated valid %s content does not pass ValidateBasic: %v", c.id, in.typ, err)
		}
		return false
	}
	before := c.dump(sl.name)
	cctx, write := n.Ctx().CacheContext()
	err, panicked := core.Catch(func() error { return e.handler(cctx.WithEventManager(sdk.NewEventManager()), ct) })
	if err == nil {
		write()
	}
	after := c.dump(sl.name)
	r.Eval(evalKey, true)
	res := "accepted"
	if err != nil {
		res = "rejected"
	}
	r.Count(fmt.Sprintf("lifecycle/%s/%s/%s", op, strings.SplitN(variant, ":", 2)[0], res), 1)
	pairCount(r, op, pair, res)
	c.note("%s %s %s [%s] at block time %d: %s %v", op, sl.name, pair, variant, n.Header.Time.Unix(), res, err)
	det := func() map[string]interface{} {
		d := map[string]interface{}{"op": op, "chain_name": sl.name, "old_type": oldType, "new_type": in.typ, "variant": variant, "new": in.desc(), "history": sl.hist()}
		if err != nil {
			d["error"] = err.Error()
		}
		return d
	}
	if err != nil {
		if panicked {
			// a panic while executing a proposal is C15's subject; for C18 it is a failed operation
			r.Count("lifecycle/handler-panicked(C15)", 1)
		}
		if d := core.Diff(host.StoreKey, before, after); len(d) != 0 {
			dd := det()
			dd["diff"] = core.TrimDiff(d, 8)
			c.viol(fmt.Sprintf("%s/failed-but-client-store-changed", op), dd)
		}
		if variant == "valid" || variant == "later" {
			allowed := (op == "create" && !sl.exists) || (op == "upgrade" && sl.exists && sl.typ == in.typ) || (op == "toggle" && sl.exists && sl.typ != in.typ)
			if allowed {
				// not pinned by the statement (it says what a success must look like, not that a valid proposal must succeed): evidence only
				r.Count(fmt.Sprintf("observation/valid-%s-refused/%s/%s", op, pair, errSlug(err.Error())), 1)
				if os.Getenv("C18_DEBUG") != "" && op == "upgrade" {
					fmt.Printf("DEBUG %s %s stale=%v\n  %s\n", c.id, err, c.staleForeign(sl), strings.Join(c.tail(), "\n  "))
				}
			}
		}
		return false
	}
	// ---- success: was it allowed at all?
	switch op {
	case "create":
		if sl.exists {
			c.viol("create/accepted-under-name-in-use", det())
		}
		if !validName(sl.name) {
			c.viol("create/accepted-under-invalid-name", det())
		}
	case "upgrade":
		if !sl.exists {
			c.viol("upgrade/accepted-without-client", det())
		} else if sl.typ != in.typ {
			c.viol("upgrade/changed-the-client-type", det())
		}
	case "toggle":
		if !sl.exists {
			c.viol("toggle/accepted-without-client", det())
		} else if sl.typ == in.typ {
			c.viol("toggle/kept-the-client-type", det())
		}
	}
	sl.exists, sl.typ, sl.in, sl.updates, sl.unusable = true, in.typ, in, 0, false
	sl.history = append(sl.history, in.typ)

	ck := n.App.XIBCKeeper.ClientKeeper
	status := func() exported.Status {
		ctx := n.ViewCtx()
		cs, ok := ck.GetClientState(ctx, sl.name)
		if !ok {
			return "no-client"
		}
		return cs.Status(ctx, ck.ClientStore(ctx, sl.name), cdc)
	}
	// ---- contents that cannot make a usable client: a consensus state of another client type
	if strings.HasPrefix(variant, "foreign-cons") {
		sl.unusable, sl.tainted = true, true
		if in.typ == tTSS {
			r.Count("lifecycle/tss-accepted-with-foreign-consensus-state(not-judged)", 1)
			return true
		}
		if st := status(); st != exported.Active {
			d := det()
			d["status"] = string(st)
			d["consensus_state_type"] = consType(cons)
			c.viol(fmt.Sprintf("%s/%s/foreign-consensus-state-accepted/client-not-active", op, in.typ), d)
		}
		return true
	}

	// ---- the stored client and consensus state are exactly those of the proposal
	if got := after[string(prefixOf(sl.name))+host.KeyClientState]; !bytes.Equal(got, wantCS) {
		d := det()
		d["stored"], d["proposed"] = core.Hex(got), core.Hex(wantCS)
		c.viol(fmt.Sprintf("%s/%s/stored-client-state-differs-from-proposal", op, in.typ), d)
		sl.unusable = true
	}
	if in.typ != tTSS { // a TSS consensus state carries no information and has no height
		got, ok := after[string(prefixOf(sl.name))+string(host.ConsensusStateKey(in.installed))]
		switch {
		case !ok:
			c.viol(fmt.Sprintf("%s/%s/no-consensus-state-at-latest-height", op, in.typ), det())
			sl.unusable = true
		case !bytes.Equal(got, wantCons):
			d := det()
			d["stored"], d["proposed"] = core.Hex(got), core.Hex(wantCons)
			c.viol(fmt.Sprintf("%s/%s/stored-consensus-state-differs-from-proposal", op, in.typ), d)
			sl.unusable = true
		}
	}
	if sl.unusable {
		return true
	}
	if variant == "flawed" && in.flaw != "" {
		// the type's own initialisation cannot accept these contents; if the operation succeeded all the same,
		// what that initialisation would have written cannot be there
		r.Count("lifecycle/flawed-content-accepted/"+in.flaw, 1)
		sl.unusable = true
		if miss := c.missingInit(sl); len(miss) > 0 {
			d := det()
			d["missing"] = miss
			key := fmt.Sprintf("%s/%s/not-initialised/%s", op, in.typ, strings.Join(miss, "+"))
			if op == "toggle" {
				key = fmt.Sprintf("toggle/%s/new-type-not-initialised/%s", pair, strings.Join(miss, "+"))
			}
			c.viol(key, d)
		}
		return true
	}
	if sl.tainted {
		r.Count("installs-not-judged/name-tainted-by-accepted-foreign-consensus-state", 1)
		sl.unusable = true
		return true
	}
	if len(quiet) > 0 && quiet[0] {
		// set-up step of a fixed case: installed, checked for equality with the proposal, not exercised
		return true
	}
	c.usable(op, pair, oldType, sl, det)
	return true
}

func minInt(a, b int) int {
	if a < b {
		return a
	}
	return b
}

// missingInit lists what the type's own initialisation should have written for the installed
// height and what the type's update / verification code later reads.
func (c *caseRun) missingInit(sl *slot) []string {
	n := c.e.n
	in := sl.in
	ctx := n.ViewCtx()
	store := n.App.XIBCKeeper.ClientKeeper.ClientStore(ctx, sl.name)
	var miss []string
	switch in.typ {
	case tTM:
		if _, ok := xtm.GetProcessedTime(store, in.installed); !ok {
			miss = append(miss, "processed-time")
		}
		if xtm.GetIterationKey(store, in.installed) == nil {
			miss = append(miss, "iteration-key")
		}
	case tBSC:
		signers, err := bsctypes.GetRecentSigners(store)
		found := false
		if err == nil {
			for _, s := range signers {
				if s.Height.EQ(in.installed) && common.BytesToAddress(s.Validator) == in.bsc.anchorSigner {
					found = true
				}
			}
		}
		if !found {
			miss = append(miss, "recent-signer-of-head")
		}
		ok := store.Has([]byte(bsctypes.PrefixPendingValidators))
		if ok {
			pv := bsctypes.GetPendingValidators(n.App.AppCodec(), store).Validators
			ok = len(pv) == len(in.bscList)
			for i := 0; ok && i < len(pv); i++ {
				ok = common.BytesToAddress(pv[i]) == in.bscList[i]
			}
		}
		if !ok {
			miss = append(miss, "pending-validators")
		}
	case tETH:
		hdr := in.cs.(*ethtypes.ClientState).Header
		h := in.installed.RevisionHeight
		if !store.Has(ethtypes.EthHeaderIndexKey(hdr.Hash(), h)) {
			miss = append(miss, "header-index")
		}
		if !store.Has(ethtypes.EthRootMainKey(common.BytesToHash(hdr.Root), h)) {
			miss = append(miss, "root-index")
		}
	}
	return miss
}

// consType names the client type a consensus state belongs to by its Go type (the ETH consensus
// state's own ClientType() method answers "bsc").
func consType(cs exported.ConsensusState) string {
	switch cs.(type) {
	case *xtm.ConsensusState:
		return tTM
	case *bsctypes.ConsensusState:
		return tBSC
	case *ethtypes.ConsensusState:
		return tETH
	case *tsstypes.ConsensusState:
		return tTSS
	}
	return fmt.Sprintf("%T", cs)
}

// staleForeign looks for consensus states of another client type in the client's store and names
// their types in ascending key order (the BSC / ETH update code reads the lowest one).
func (c *caseRun) staleForeign(sl *slot) (types []string) {
	n := c.e.n
	seen := map[string]bool{}
	pre := string(prefixOf(sl.name)) + host.KeyConsensusStatePrefix + "/"
	d := c.dump(sl.name)
	keys := make([]string, 0, len(d))
	for k := range d {
		if strings.HasPrefix(k, pre) && len(k) == len(pre)+16 {
			keys = append(keys, k)
		}
	}
	sort.Strings(keys)
	for _, k := range keys {
		cons, err := clienttypes.UnmarshalConsensusState(n.App.AppCodec(), d[k])
		if err != nil {
			continue
		}
		if t := consType(cons); t != sl.typ && !seen[t] {
			seen[t] = true
			types = append(types, t)
		}
	}
	return
}

// update delivers one valid update as a real transaction from the authorised account.
func (c *caseRun) update(sl *slot) (ok bool, log string, built bool) {
	e := c.e
	hdr, signer, accept, err := e.nextHeader(c.rng, sl.in)
	if err != nil {
		e.r.Count("updates/generator-could-not-build-a-header", 1)
		return false, err.Error(), false
	}
	msg, err := clienttypes.NewMsgUpdateClient(sl.name, hdr, signer.Acc)
	if err != nil {
		return false, err.Error(), false
	}
	before := c.dump(sl.name)
	tx, err := e.n.CosmosTx(signer, 50_000_000, msg)
	if err != nil {
		return false, err.Error(), false
	}
	res := e.n.Deliver(tx)
	if res.Code == 0 {
		accept()
		sl.updates++
		e.r.Count("updates/valid/"+sl.typ+"/accepted", 1)
		c.note("update %s (%s) height %v by %s: ok", sl.name, sl.typ, hdr.GetHeight(), signer.Name)
		// the consensus height announced by the update event is the header's (the height the state was stored under),
		// also for a header that fills in a height below the client's latest one
		for _, ev := range res.Events {
			if sl.typ == tTSS || !strings.HasSuffix(ev.Type, "EventUpdateClient") { // (a TSS header has no height)
				continue
			}
			for _, a := range ev.Attributes {
				if string(a.Key) == "consensus_height" {
					e.r.Count("updates/event-consensus-height-compared", 1)
					if got := strings.Trim(string(a.Value), "\""); got != hdr.GetHeight().String() {
						c.viol("update/"+sl.typ+"/event-announces-another-consensus-height-than-the-header's", map[string]interface{}{"chain_name": sl.name, "header_height": hdr.GetHeight().String(), "event": got})
					}
				}
			}
		}
		if th, ok := hdr.(*tsstypes.Header); ok {
			// a TSS header IS the new configuration: an update that succeeded has installed all of it
			got, _ := e.n.App.XIBCKeeper.ClientKeeper.GetClientState(e.n.Ctx(), sl.name)
			t, _ := got.(*tsstypes.ClientState)
			same := t != nil && t.TssAddress == th.TssAddress && bytes.Equal(t.Pubkey, th.Pubkey) && t.Threshold == th.Threshold && len(t.PartPubkeys) == len(th.PartPubkeys)
			for i := 0; same && i < len(th.PartPubkeys); i++ {
				same = bytes.Equal(t.PartPubkeys[i], th.PartPubkeys[i])
			}
			if !same {
				c.viol("update/tss/accepted-but-the-configuration-of-the-header-was-not-installed", map[string]interface{}{"chain_name": sl.name, "header": fmt.Sprintf("%v", th), "stored": fmt.Sprintf("%v", got)})
			}
			e.r.Count("updates/tss/installed-configuration-compared", 1)
		}
		return true, "", true
	}
	e.r.Count("updates/valid/"+sl.typ+"/rejected", 1)
	c.note("update %s (%s) by %s: code %d %s", sl.name, sl.typ, signer.Name, res.Code, trunc(res.Log, 160))
	if d := core.Diff(host.StoreKey, before, c.dump(sl.name)); len(d) != 0 {
		c.viol("update/failed-but-client-store-changed", map[string]interface{}{"chain_name": sl.name, "type": sl.typ, "log": res.Log, "diff": core.TrimDiff(d, 8)})
	}
	return false, res.Log, true
}

func trunc(s string, n int) string {
	if len(s) > n {
		return s[:n] + "..."
	}
	return s
}

// verify checks the true commitment at the installed height against the stored client.
func (c *caseRun) verify(sl *slot, commitment, proof []byte) error {
	n := c.e.n
	in := sl.in
	ck := n.App.XIBCKeeper.ClientKeeper
	ctx := n.ViewCtx()
	cs, ok := ck.GetClientState(ctx, sl.name)
	if !ok {
		return fmt.Errorf("client state not found")
	}
	err, _ := core.Catch(func() error {
		return cs.VerifyPacketCommitment(ctx, ck.ClientStore(ctx, sl.name), n.App.AppCodec(), in.installed, proof, in.src, in.dst, in.seq, commitment)
	})
	return err
}

// usable is the judgement of a successful install of valid contents: initialised the way the new
// type requires, active, updatable by the authorised account, and a true proof at the installed
// height verifies once the delay has passed.
func (c *caseRun) usable(op, pair, oldType string, sl *slot, det func() map[string]interface{}) {
	e, r := c.e, c.e.r
	n := e.n
	in := sl.in
	ck := n.App.XIBCKeeper.ClientKeeper
	cdc := n.App.AppCodec()
	r.Count("installs-judged/"+op+"/"+in.typ, 1)

	miss := c.missingInit(sl)
	if in.typ == tTM && in.tmDelay > 0 {
		// the other half of "verify once the delay has passed": in the very block that installed the consensus state
		// (whatever the client held for that height before) its delay has not even begun to pass
		if perr := c.verify(sl, in.commitment, in.proof); perr == nil {
			d := det()
			d["time_delay_ns"] = in.tmDelay
			c.viol(op+"/tendermint/proof-at-installed-height-honoured-before-the-delay", d)
		} else {
			r.Count("proofs/tendermint/refused-in-the-installing-block", 1)
		}
	}
	ctx := n.ViewCtx()
	var st exported.Status = "no-client"
	if cs, ok := ck.GetClientState(ctx, sl.name); ok {
		st = cs.Status(ctx, ck.ClientStore(ctx, sl.name), cdc)
	}
	cons := map[string]interface{}{} // consequences observed afterwards, attached to the finding they follow from

	// updates: enough to let the block delay pass (+1), at least one
	want := int(in.delayBlocks()) + 1
	if in.typ == tTM && c.rng.Intn(2) == 0 {
		want = 2
	}
	var updErr string
	done := 0
	for i := 0; i < want+3 && done < want; i++ {
		ok, log, built := c.update(sl)
		if !built {
			break
		}
		if !ok {
			if in.tmOldRev {
				// a header of the previous revision: the statement does not say such a header must be taken
				r.Count("updates/previous-revision-header-refused-after-revision-upgrade", 1)
				break
			}
			updErr = log
			break
		}
		if in.tmOldRev {
			r.Count("updates/previous-revision-header-accepted-after-revision-upgrade", 1)
		}
		done++
		// the set in force may have grown: the delay is counted with the current one
		if in.typ == tBSC {
			want = maxInt(want, int(in.delayBlocks())+1)
		}
	}
	// proof at the installed height once the delay has passed
	var proofErr error
	proofTried := false
	switch in.typ {
	case tTM:
		e.w.Advance(timeDur(in.tmDelay))
		e.w.Roll(n)
		if in.tmDelay > 0 && updErr == "" && c.rng.Intn(2) == 0 {
			// the client moves on right before the proof is presented: the delay of the INSTALLED height has passed,
			// that of the new latest height has only just begun
			if ok, _, built := c.update(sl); built && ok {
				done++
				r.Count("tendermint_update_between_delay_and_proof", 1)
			}
		}
		proofTried = true
	case tBSC, tETH:
		proofTried = in.headHeight()-in.installed.RevisionHeight >= in.delayBlocks()
	case tTSS:
		proofTried = true
	}
	if proofTried {
		proofErr = c.verify(sl, in.commitment, in.proof)
		if proofErr == nil {
			r.Count("proofs/"+in.typ+"/verified", 1)
			// sanity of the harness' proofs: a different value must not verify (evidence only; C07/C08 judge this)
			bad := append([]byte{}, in.commitment...)
			bad[5] ^= 0x40
			badProof := in.proof
			if in.typ == tTSS {
				badProof = []byte(e.outsider.Bech32())
			}
			if c.verify(sl, bad, badProof) == nil {
				r.Count("proofs/negative-control-verified(!)", 1)
			} else {
				r.Count("proofs/negative-control-refused", 1)
			}
		} else {
			r.Count("proofs/"+in.typ+"/refused", 1)
			c.note("proof at installed height %s: %v", in.installed, proofErr)
		}
	} else {
		r.Count("proofs/"+in.typ+"/delay-not-reachable", 1)
	}

	// ---- verdicts
	if len(miss) > 0 {
		if updErr != "" {
			cons["valid_update"] = trunc(updErr, 300)
		}
		if proofErr != nil {
			cons["proof_at_installed_height"] = proofErr.Error()
		}
		if st != exported.Active {
			cons["status"] = string(st)
		}
		d := det()
		d["missing"], d["consequences"], d["valid_updates_accepted"] = miss, cons, done
		var key string
		switch {
		case op == "toggle":
			key = fmt.Sprintf("toggle/%s/new-type-not-initialised/%s", pair, strings.Join(miss, "+"))
		case op == "upgrade" && in.typ == tTM && miss[0] == "processed-time" && proofErr != nil:
			key = "upgrade/tendermint/proof-at-installed-height-fails/processed-time-missing"
		default:
			key = fmt.Sprintf("%s/%s/not-initialised/%s", op, in.typ, strings.Join(miss, "+"))
		}
		c.viol(key, d)
		sl.unusable = true
	}
	if st != exported.Active && len(miss) == 0 {
		d := det()
		d["status"] = string(st)
		c.viol(fmt.Sprintf("%s/%s/not-active-after-success", op, in.typ), d)
		sl.unusable = true
	}
	if updErr != "" {
		stale := c.staleForeign(sl)
		d := det()
		d["log"], d["valid_updates_accepted_before"], d["leftover_consensus_state_types"] = trunc(updErr, 400), done, stale
		switch {
		case in.typ == tTSS:
			c.viol("update/tss/valid-header-never-accepted", d)
		case len(stale) > 0 && (strings.Contains(updErr, "invalid consensus type") || strings.Contains(updErr, "unmarshal")):
			c.viol(fmt.Sprintf("toggle/leftover-state/%s-update-refused-because-of-%s-consensus-state", in.typ, stale[0]), d)
		case len(miss) > 0:
			// consequence of the missing initialisation reported above
		default:
			c.viol(fmt.Sprintf("update/%s/valid-header-refused/%s", in.typ, errSlug(updErr)), d)
		}
		sl.unusable = true
	}
	if proofTried && proofErr != nil && len(miss) == 0 {
		d := det()
		d["error"] = proofErr.Error()
		c.viol(fmt.Sprintf("%s/%s/proof-at-installed-height-fails/%s", op, in.typ, errSlug(proofErr.Error())), d)
		sl.unusable = true
	}
}

func maxInt(a, b int) int {
	if a > b {
		return a
	}
	return b
}
