package c18

// env.go: the world a worker drives (the chain under test `n`, a real partner
// chain `p` that serves as the Tendermint counterparty, the authorised
// accounts) and the per-type instance generators: an instance is one
// (client state, consensus state) pair as a proposal carries it, together with
// what the harness needs to exercise it afterwards (a true proof at the
// installed height, valid next headers, the account allowed to update).

import (
	"fmt"
	"math/rand"
	"os"
	"strconv"
	"time"

	"github.com/ethereum/go-ethereum/common"

	govtypes "github.com/cosmos/cosmos-sdk/x/gov/types"

	bsctypes "github.com/teleport-network/teleport/x/xibc/clients/light-clients/bsc/types"
	ethtypes "github.com/teleport-network/teleport/x/xibc/clients/light-clients/eth/types"
	xtm "github.com/teleport-network/teleport/x/xibc/clients/light-clients/tendermint/types"
	tsstypes "github.com/teleport-network/teleport/x/xibc/clients/tss-client/types"
	xibcclient "github.com/teleport-network/teleport/x/xibc/core/client"
	clienttypes "github.com/teleport-network/teleport/x/xibc/core/client/types"
	commitmenttypes "github.com/teleport-network/teleport/x/xibc/core/commitment/types"
	"github.com/teleport-network/teleport/x/xibc/core/host"
	"github.com/teleport-network/teleport/x/xibc/exported"

	"verif/harness/core"
)

const (
	tTM  = exported.Tendermint
	tBSC = exported.BSC
	tETH = exported.ETH
	tTSS = exported.TSS
)

var allTypes = []string{tTM, tBSC, tETH, tTSS}

type env struct {
	r        *core.Run
	w        *core.World
	n, p     *core.Node
	relayer  *core.Account
	tssAccs  []*core.Account
	outsider *core.Account
	handler  govtypes.Handler
	seq      uint64 // packet sequence counter (unique commitments on the partner chain)
}

func newEnv(r *core.Run) *env {
	w := core.NewWorld(core.WorldConfig{Chains: 2, Users: 1, Relayers: 4, NoClients: true, NoRelayers: true})
	e := &env{r: r, w: w, n: w.Nodes[0], p: w.Nodes[1], relayer: w.Relayers[0], tssAccs: []*core.Account{w.Relayers[1], w.Relayers[2]}, outsider: w.Relayers[3]}
	e.handler = xibcclient.NewClientProposalHandler(e.n.App.XIBCKeeper.ClientKeeper)
	return e
}

func (e *env) now() uint64 { return uint64(e.n.Header.Time.Unix()) }

// register makes the relayer and the TSS accounts registered relayers for the given chain names
// (the registry is harness set-up here; it is C06's subject).
func (e *env) register(names []string) {
	ck := e.n.App.XIBCKeeper.ClientKeeper
	for _, a := range append([]*core.Account{e.relayer}, e.tssAccs...) {
		addrs := make([]string, len(names))
		for i := range addrs {
			addrs[i] = a.Bech32()
		}
		ck.RegisterRelayers(e.n.Ctx(), a.Bech32(), names, addrs)
	}
}

// inst is one generated counterparty as a proposal installs it.
type inst struct {
	typ       string
	cs        exported.ClientState
	cons      exported.ConsensusState
	installed clienttypes.Height
	// a true packet commitment provable at the installed height
	src, dst   string
	seq        uint64
	commitment []byte
	proof      []byte
	// generator side
	bsc      *bscChain
	bsc0     *bscChain // the chain as it stood at the anchor (before any update was applied)
	fact     *evmFact
	bscList  []common.Address // list announced by the anchor (what pendingValidators must hold)
	eth      *ethChain
	eth0     *ethtypes.Header // the anchor the instance was built on
	ethDelay uint64
	tmLatest int64 // latest height the client has been given (Tendermint)
	tmDelay  uint64
	tmOldRev bool          // installed in the NEXT revision at a low height: the headers that follow are fill-ins of the previous revision
	tss      *core.Account // current TSS account
	tssCfg   *tsstypes.Header // the configuration the client was last given (install or accepted update)
	flaw     string        // non-empty: the content was built to be uninitialisable
}

func (in *inst) desc() map[string]interface{} {
	d := map[string]interface{}{"type": in.typ, "installed_height": in.installed.String()}
	switch in.typ {
	case tBSC:
		d["epoch"], d["validators"], d["chain_id"], d["announced"] = in.bsc.epoch, len(in.cs.(*bsctypes.ClientState).Validators), in.bsc.chainID, len(in.bscList)
	case tETH:
		d["block_delay"] = in.cs.(*ethtypes.ClientState).BlockDelay
	case tTM:
		d["time_delay_ns"] = in.tmDelay
	case tTSS:
		d["tss"] = in.tss.Name
	}
	if in.flaw != "" {
		d["flaw"] = in.flaw
	}
	return d
}

func (e *env) nextFact() (string, string, uint64) {
	e.seq++
	return "src-" + strconv.FormatUint(e.seq, 10), e.n.Name, e.seq
}

// newInst builds a fresh valid instance of the type.
func (e *env) newInst(rng *rand.Rand, typ string, hint ...string) (*inst, error) {
	h := ""
	if len(hint) > 0 {
		h = hint[0]
	}
	switch typ {
	case tTM:
		return e.newTM(rng)
	case tBSC:
		src, dst, seq := e.nextFact()
		f := newEvmFact(rng, src, dst, seq)
		c := newBscChain(rng, e.now(), f.root, h)
		return bscInst(c, f), nil
	case tETH:
		src, dst, seq := e.nextFact()
		f := newEvmFact(rng, src, dst, seq)
		c := newEthChain(rng, e.now(), f.root, h)
		return ethInst(rng, c, f, uint64(rng.Intn(3))), nil
	case tTSS:
		return e.tssInst(rng, e.tssAccs[rng.Intn(len(e.tssAccs))]), nil
	}
	return nil, fmt.Errorf("unknown type %s", typ)
}

// laterInst builds a valid instance of the same type and the same counterparty at a later anchor
// (what a routine upgrade proposal carries).
func (e *env) laterInst(rng *rand.Rand, old *inst) (*inst, error) {
	switch old.typ {
	case tTM:
		return e.newTM(rng) // the partner chain has moved on: a later height of the same chain
	case tBSC:
		src, dst, seq := e.nextFact()
		f := newEvmFact(rng, src, dst, seq)
		c := old.bsc.clone() // the old instance stays what the client holds until the proposal is accepted
		if !c.reanchor(rng, f.root) {
			return nil, fmt.Errorf("bsc generator: no eligible sealer")
		}
		return bscInst(c, f), nil
	case tETH:
		src, dst, seq := e.nextFact()
		f := newEvmFact(rng, src, dst, seq)
		c := &ethChain{head: old.eth.head}
		c.reanchor(rng, f.root)
		return ethInst(rng, c, f, uint64(rng.Intn(3))), nil
	case tTSS:
		return e.tssInst(rng, e.tssAccs[rng.Intn(len(e.tssAccs))]), nil
	}
	return nil, fmt.Errorf("unknown type %s", old.typ)
}

// trackedTM is an upgrade to a height the client already tracks (it got there by an update): the same counterparty, the
// consensus state of its latest height, the old fact proven at that height.
func (e *env) trackedTM(rng *rand.Rand, old *inst) (*inst, error) {
	p := e.p
	h := old.tmLatest
	height := clienttypes.NewHeight(p.Revision(), uint64(h))
	hdr, err := p.SignedHeader(h, height)
	if err != nil {
		return nil, err
	}
	delay := []uint64{uint64(time.Second), uint64(4 * time.Second), uint64(time.Hour)}[rng.Intn(3)]
	cs := xtm.NewClientState(p.ChainID, xtm.DefaultTrustLevel, 14*24*time.Hour, 21*24*time.Hour, 10*time.Second, height,
		commitmenttypes.GetSDKSpecs(), commitmenttypes.MerklePrefix{KeyPrefix: []byte(host.StoreKey)}, delay)
	key := host.PacketCommitmentKey(old.src, old.dst, old.seq)
	proof, _, err := e.w.Proof(p, key, h)
	if err != nil {
		return nil, err
	}
	return &inst{typ: tTM, cs: cs, cons: hdr.ConsensusState(), installed: height, src: old.src, dst: old.dst, seq: old.seq, commitment: old.commitment, proof: proof, tmLatest: h, tmDelay: delay}, nil
}

// nextRevTM is an upgrade into the next revision of the same counterparty (chain id "...-<r+1>") that restarts at a low
// height and carries the consensus state of the old revision's latest tracked block, so the old fact is provable at the
// installed height. Headers of the previous revision stay acceptable as fill-ins trusted on its stored states; whatever
// happens to them, the installed height stays the client's latest and a proof there must verify after the delay.
func (e *env) nextRevTM(rng *rand.Rand, old *inst) (*inst, error) {
	p := e.p
	h := old.tmLatest
	hdr, err := p.SignedHeader(h, clienttypes.NewHeight(p.Revision(), uint64(h)))
	if err != nil {
		return nil, err
	}
	next, err := clienttypes.SetRevisionNumber(p.ChainID, p.Revision()+1)
	if err != nil {
		return nil, err
	}
	height := clienttypes.NewHeight(p.Revision()+1, uint64(1+rng.Intn(3)))
	delay := []uint64{0, uint64(time.Second), uint64(4 * time.Second)}[rng.Intn(3)]
	cs := xtm.NewClientState(next, xtm.DefaultTrustLevel, 14*24*time.Hour, 21*24*time.Hour, 10*time.Second, height,
		commitmenttypes.GetSDKSpecs(), commitmenttypes.MerklePrefix{KeyPrefix: []byte(host.StoreKey)}, delay)
	key := host.PacketCommitmentKey(old.src, old.dst, old.seq)
	proof, _, err := e.w.Proof(p, key, h)
	if err != nil {
		return nil, err
	}
	return &inst{typ: tTM, cs: cs, cons: hdr.ConsensusState(), installed: height, src: old.src, dst: old.dst, seq: old.seq, commitment: old.commitment, proof: proof, tmLatest: h, tmDelay: delay, tmOldRev: true}, nil
}

func (e *env) newTM(rng *rand.Rand) (*inst, error) {
	p := e.p
	src, dst, seq := e.nextFact()
	key := host.PacketCommitmentKey(src, dst, seq)
	val := rnd(rng, 32)
	// harness set-up on the partner chain: the commitment is written into its xibc store and committed
	p.Ctx().KVStore(p.App.GetKey(host.StoreKey)).Set(key, val)
	e.w.Roll(p)
	h := p.Header.Height // the header of h carries the app hash of the state that holds the commitment
	height := clienttypes.NewHeight(p.Revision(), uint64(h))
	hdr, err := p.SignedHeader(h, height)
	if err != nil {
		return nil, err
	}
	delay := []uint64{0, 0, uint64(time.Second), uint64(7 * time.Second), uint64(time.Hour)}[rng.Intn(5)]
	cs := xtm.NewClientState(p.ChainID, xtm.DefaultTrustLevel, 14*24*time.Hour, 21*24*time.Hour, 10*time.Second, height,
		commitmenttypes.GetSDKSpecs(), commitmenttypes.MerklePrefix{KeyPrefix: []byte(host.StoreKey)}, delay)
	proof, _, err := e.w.Proof(p, key, h)
	if err != nil {
		return nil, err
	}
	return &inst{typ: tTM, cs: cs, cons: hdr.ConsensusState(), installed: height, src: src, dst: dst, seq: seq, commitment: val, proof: proof, tmLatest: h, tmDelay: delay}, nil
}

func bscInst(c *bscChain, f *evmFact) *inst {
	h := *c.head
	cs := &bsctypes.ClientState{Header: h, ChainId: c.chainID, Epoch: c.epoch, BlockInteval: 3, Validators: addrBytes(c.cur), ContractAddress: f.contract[:], TrustingPeriod: 1 << 40}
	cons := &bsctypes.ConsensusState{Timestamp: h.Time, Height: h.Height, Root: h.Root}
	return &inst{typ: tBSC, cs: cs, cons: cons, installed: h.Height, src: f.src, dst: f.dst, seq: f.seq, commitment: f.commitment, proof: f.proof, bsc: c, bsc0: c.clone(), fact: f, bscList: append([]common.Address{}, c.pend...)}
}

// sameAnchorInst is the upgrade a governance vote can legitimately carry after the client has moved on: the contents the client
// was installed with, again (a roll-back to the anchor). Headers that follow that anchor on the counterparty stay valid.
func (e *env) sameAnchorInst(rng *rand.Rand, old *inst) *inst {
	if old.typ == tETH {
		return ethInst(rng, &ethChain{head: *old.eth0}, old.fact, old.ethDelay)
	}
	return bscInst(old.bsc0.clone(), old.fact)
}

func ethInst(rng *rand.Rand, c *ethChain, f *evmFact, blockDelay uint64) *inst {
	h := c.head
	cs := &ethtypes.ClientState{Header: h, ChainId: 4, ContractAddress: f.contract[:], TrustingPeriod: 1 << 40, TimeDelay: 0, BlockDelay: blockDelay}
	cons := &ethtypes.ConsensusState{Timestamp: h.Time, Height: h.Height, Root: h.Root}
	return &inst{typ: tETH, cs: cs, cons: cons, installed: h.Height, src: f.src, dst: f.dst, seq: f.seq, commitment: f.commitment, proof: f.proof, eth: c, eth0: &h, ethDelay: blockDelay, fact: f}
}

func (e *env) tssInst(rng *rand.Rand, acc *core.Account) *inst {
	src, dst, seq := e.nextFact()
	cs := &tsstypes.ClientState{TssAddress: acc.Bech32(), Pubkey: rnd(rng, 33), PartPubkeys: [][]byte{rnd(rng, 33), rnd(rng, 33), rnd(rng, 33)}, Threshold: 2}
	return &inst{typ: tTSS, cs: cs, cons: &tsstypes.ConsensusState{}, installed: clienttypes.Height{}, src: src, dst: dst, seq: seq, commitment: rnd(rng, 32), proof: []byte(acc.Bech32()), tss: acc,
		tssCfg: &tsstypes.Header{TssAddress: cs.TssAddress, Pubkey: cs.Pubkey, PartPubkeys: cs.PartPubkeys, Threshold: cs.Threshold}}
}

// flawedInst builds contents that pass ValidateBasic but that the type's own initialisation cannot accept.
func (e *env) flawedInst(rng *rand.Rand, typ string) (*inst, error) {
	in, err := e.newInst(rng, typ)
	if err != nil {
		return nil, err
	}
	switch typ {
	case tBSC:
		cs := in.cs.(*bsctypes.ClientState)
		switch k := rng.Intn(5); {
		case k == 0:
			// epoch length 0 passes ValidateBasic; the initialisation divides by it (a panic there is C15's subject)
			cs.Epoch = 0
			in.flaw = "bsc-epoch-length-zero"
		case k < 3:
			// anchor that is not an epoch block (no validator list can be taken from it)
			h := in.bsc.child(rng, nil)
			if h == nil {
				return nil, fmt.Errorf("bsc generator: no eligible sealer")
			}
			cs.Header = *h
			in.cons = &bsctypes.ConsensusState{Timestamp: h.Time, Height: h.Height, Root: h.Root}
			in.installed = h.Height
			in.flaw = "bsc-anchor-not-an-epoch-block"
		default:
			// seal does not belong to the coinbase
			cs.Header.Coinbase = rnd(rng, 20)
			in.flaw = "bsc-anchor-coinbase-is-not-the-sealer"
		}
	default:
		// the other types have no stateful initialisation rule beyond the consensus-state type
		in.flaw = ""
	}
	return in, nil
}

// foreignCons returns a well-formed consensus state of another client type.
func (e *env) foreignCons(rng *rand.Rand, typ string) exported.ConsensusState {
	switch typ {
	case tTM:
		return &xtm.ConsensusState{Timestamp: e.n.Header.Time, Root: rnd(rng, 32), NextValidatorsHash: rnd(rng, 32)}
	case tBSC:
		return &bsctypes.ConsensusState{Timestamp: e.now() - 600, Height: clienttypes.NewHeight(0, uint64(1+rng.Intn(1000))), Root: rnd(rng, 32)}
	case tETH:
		return &ethtypes.ConsensusState{Timestamp: e.now() - 600, Height: clienttypes.NewHeight(0, uint64(1+rng.Intn(1000))), Root: rnd(rng, 32)}
	}
	return &tsstypes.ConsensusState{}
}

// content builds the governance content of a lifecycle operation.
func content(op, name string, cs exported.ClientState, cons exported.ConsensusState) (govtypes.Content, error) {
	switch op {
	case "create":
		return clienttypes.NewCreateClientProposal("t", "d", name, cs, cons)
	case "upgrade":
		return clienttypes.NewUpgradeClientProposal("t", "d", name, cs, cons)
	case "toggle":
		return clienttypes.NewToggleClientProposal("t", "d", name, cs, cons)
	}
	return nil, fmt.Errorf("unknown op %s", op)
}

// nextHeader builds the next valid header for the instance as the client currently holds it and
// names the account that is authorised to submit it. accept() must be called when it was accepted.
func (e *env) nextHeader(rng *rand.Rand, in *inst) (hdr exported.Header, signer *core.Account, accept func(), err error) {
	switch in.typ {
	case tTM:
		e.w.Roll(e.p)
		h := e.p.Header.Height
		th, err := e.p.SignedHeader(h, clienttypes.NewHeight(e.p.Revision(), uint64(in.tmLatest)))
		if err != nil {
			return nil, nil, nil, err
		}
		e.w.Roll(e.n)
		return th, e.relayer, func() { in.tmLatest = h }, nil
	case tBSC:
		h := in.bsc.child(rng, nil)
		if h == nil {
			return nil, nil, nil, fmt.Errorf("bsc generator: no eligible sealer")
		}
		if os.Getenv("C18_DEBUG") != "" {
			fmt.Printf("BSCDBG next=%d signer=%x cur=%d pend=%d recents=%v epoch=%d\n", h.Height.RevisionHeight, h.Coinbase[:4], len(in.bsc.cur), len(in.bsc.pend), in.bsc.recents, in.bsc.epoch)
		}
		return h, e.relayer, func() { in.bsc.apply(h) }, nil
	case tETH:
		h := in.eth.child(rng, nil)
		return &h, e.relayer, func() { in.eth.head = h }, nil
	case tTSS:
		next := in.tss
		if rng.Intn(3) == 0 {
			next = e.tssAccs[rng.Intn(len(e.tssAccs))]
		}
		h := &tsstypes.Header{TssAddress: next.Bech32(), Pubkey: rnd(rng, 33), PartPubkeys: [][]byte{rnd(rng, 33), rnd(rng, 33)}, Threshold: 2}
		if cfg := in.tssCfg; cfg != nil && next == in.tss && rng.Intn(2) == 0 {
			// a resharing: same account, same group key, other key shares and threshold - still a new configuration
			h = &tsstypes.Header{TssAddress: cfg.TssAddress, Pubkey: append([]byte{}, cfg.Pubkey...), PartPubkeys: [][]byte{rnd(rng, 33), rnd(rng, 33), rnd(rng, 33), rnd(rng, 33)}, Threshold: cfg.Threshold%3 + 2}
		}
		cur := in.tss
		return h, cur, func() { in.tss = next; in.proof = []byte(next.Bech32()); in.tssCfg = h }, nil
	}
	return nil, nil, nil, fmt.Errorf("unknown type %s", in.typ)
}

// delayBlocks is how many further blocks the client must have accepted before a proof at the
// installed height may pass (BSC: floor(N/2)+1 with N the set in force; ETH: BlockDelay).
func (in *inst) delayBlocks() uint64 {
	switch in.typ {
	case tBSC:
		return uint64(len(in.bsc.cur)/2 + 1)
	case tETH:
		return in.cs.(*ethtypes.ClientState).BlockDelay
	}
	return 0
}

func (in *inst) headHeight() uint64 {
	switch in.typ {
	case tBSC:
		return in.bsc.head.Height.RevisionHeight
	case tETH:
		return in.eth.head.Height.RevisionHeight
	}
	return 0
}
