package c18

// gen_eth.go: harness-side Ethereum header chain for the ETH light client in
// Rinkeby mode (chain id 4: no proof-of-work / difficulty rule; parent link,
// timestamp, EIP-1559 gas-limit and base-fee rules apply). Condensed from the
// C10 generator.

import (
	"math/big"
	"math/rand"

	gethtypes "github.com/ethereum/go-ethereum/core/types"

	"github.com/ethereum/go-ethereum/common"

	ethtypes "github.com/teleport-network/teleport/x/xibc/clients/light-clients/eth/types"
	clienttypes "github.com/teleport-network/teleport/x/xibc/core/client/types"
)

// specBaseFee is EIP-1559 written from the specification text.
func specBaseFee(parentGasLimit, parentGasUsed uint64, parentBaseFee *big.Int) *big.Int {
	target := parentGasLimit / 2
	if parentGasUsed == target {
		return new(big.Int).Set(parentBaseFee)
	}
	t := new(big.Int).SetUint64(target)
	if parentGasUsed > target {
		d := new(big.Int).SetUint64(parentGasUsed - target)
		d.Mul(d, parentBaseFee)
		d.Div(d, t)
		d.Div(d, big.NewInt(8))
		if d.Sign() == 0 {
			d.SetInt64(1)
		}
		return d.Add(d, parentBaseFee)
	}
	d := new(big.Int).SetUint64(target - parentGasUsed)
	d.Mul(d, parentBaseFee)
	d.Div(d, t)
	d.Div(d, big.NewInt(8))
	out := new(big.Int).Sub(parentBaseFee, d)
	if out.Sign() < 0 {
		out.SetInt64(0)
	}
	return out
}

type ethChain struct {
	head ethtypes.Header
}

func newEthChain(rng *rand.Rand, now uint64, root common.Hash, hint string) *ethChain {
	heights := []uint64{uint64(2 + rng.Intn(30)), uint64(100 + rng.Intn(2000)), 10000000 + uint64(rng.Intn(5000000))}
	gl := []uint64{8000000, 30000000, 12345678}[rng.Intn(3)]
	c := &ethChain{}
	pick := rng.Intn(len(heights))
	if hint == "low" {
		pick = 0
	} else if hint == "high" {
		pick = 2
	} else if hint == "zero" {
		heights[pick] = 0 // the first block of an EVM chain (revision 0): a legitimate anchor
	}
	c.head = ethtypes.Header{
		ParentHash: rnd(rng, 32), UncleHash: gethtypes.EmptyUncleHash.Bytes(), Coinbase: rnd(rng, 20), Root: root[:],
		TxHash: rnd(rng, 32), ReceiptHash: rnd(rng, 32), Bloom: make([]byte, 256), Difficulty: []byte{2},
		Height: clienttypes.NewHeight(0, heights[pick]), GasLimit: gl, GasUsed: uint64(rng.Int63n(int64(gl) + 1)),
		Time: now - 900, Extra: rnd(rng, rng.Intn(33)), MixDigest: make([]byte, 32), Nonce: 0,
		BaseFee: big.NewInt(1000000000 + int64(rng.Intn(1000000000))).Bytes(),
	}
	return c
}

// child builds a header satisfying every rule relative to the head.
func (c *ethChain) child(rng *rand.Rand, root []byte) ethtypes.Header {
	p := c.head
	fee := specBaseFee(p.GasLimit, p.GasUsed, new(big.Int).SetBytes(p.BaseFee))
	if root == nil {
		root = rnd(rng, 32)
	}
	ph := p.Hash()
	return ethtypes.Header{
		ParentHash: ph.Bytes(), UncleHash: gethtypes.EmptyUncleHash.Bytes(), Coinbase: rnd(rng, 20), Root: root,
		TxHash: rnd(rng, 32), ReceiptHash: rnd(rng, 32), Bloom: make([]byte, 256), Difficulty: []byte{byte(1 + rng.Intn(2))},
		Height: clienttypes.NewHeight(0, p.Height.RevisionHeight+1), GasLimit: p.GasLimit, GasUsed: uint64(rng.Int63n(int64(p.GasLimit) + 1)),
		Time: p.Time + 1 + uint64(rng.Intn(4)), Extra: rnd(rng, rng.Intn(33)), MixDigest: rnd(rng, 32), Nonce: rng.Uint64(),
		BaseFee: fee.Bytes(),
	}
}

// reanchor advances the chain (harness side) by a few blocks and returns the new head carrying `root`.
func (c *ethChain) reanchor(rng *rand.Rand, root common.Hash) {
	for i, k := 0, 1+rng.Intn(4); i < k; i++ {
		c.head = c.child(rng, nil)
	}
	c.head = c.child(rng, root[:])
}
